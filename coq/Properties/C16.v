(* Properties/C16.v — C16: the bytes of an ST::string_stream are the concatenation of everything
   appended, over any history and across every growth of the storage; nothing is leaked or freed
   twice; a moved-from stream is a valid empty stream.  Statements only; proofs live in Mem/Stream*.v.
   STK is ST_STACK_STRING_SIZE, abstract (>= 1) in every theorem and instantiated at the end with the
   value harvested from the headers (Gen/Consts.stack_string_size).

   Reading guide:
     SInv STK st        every live stream: its in-object array has STK cells; size <= capacity;
                        STK <= capacity; capacity = STK => raw_buffer() is its own array;
                        capacity > STK => raw_buffer() is a live heap block of `capacity` cells which no
                        other stream references; every live block belongs to a live stream (no leak);
     scontents st r     raw_buffer()[0, size());
     SRel st s          the bytes of each live stream are the byte string the SPEC store `s` gives it;
     swf_history s ops  the history is a well-formed program (constructors on dead slots, members on
                        live ones, inserted integers fit their unsigned type), stated on the spec store;
     run_sop / run_shistory   the transcription of include/st_stringstream.h (Mem/Stream.v).

   Not covered here: to_string() (from_utf8 / from_latin_1 of scontents: properties C01/C02),
   operator<< for floating point and for UTF-16/32/wchar_t text (rendering: C13 / C01; they end in
   the same append), m_size + added_size wrapping at 2^64.                                        *)
From Coq Require Import NArith List Lia.
From ST Require Import Base.Outcome Mem.Heap Mem.Stream Mem.StreamInv Mem.StreamSteps Mem.StreamHistory
  Num.Digits Gen.Consts.
Import ListNotations.

(* the empty state satisfies the invariant *)
Theorem c16_inv_init : forall STK, SInv STK sstate0 /\ SRel sstate0 bstore0.
Proof. intros STK. exact (conj (sinv_init STK) srel_init). Qed.
Print Assumptions c16_inv_init.

(* the doubling loop of expand_buffer ends (Fault Hang unreachable) whenever the capacity is >= 1,
   with a capacity that fits the request ... *)
Theorem c16_growth_terminates : forall big need, 1 <= big ->
  exists big', grow (S need) big need = Some big' /\ need <= big'.
Proof. exact growth_terminates. Qed.
Print Assumptions c16_growth_terminates.

(* ... and never from capacity 0, the state the pinned tree left a moved-from stream in (finding 9,
   repaired upstream: `move.m_alloc = ST_STACK_STRING_SIZE`) *)
Theorem c16_grow_zero_refuted : grow (S 5) 0 5 = None /\ forall fuel need, 1 <= need -> grow fuel 0 need = None.
Proof. exact (conj grow_zero_refuted grow_zero_never). Qed.
Print Assumptions c16_grow_zero_refuted.

(* expand_buffer: returns normally, keeps the invariant and every stream's bytes, and leaves room for
   the request — from the in-object array to the first block, from a block to a bigger one, or in place *)
Theorem c16_expand : forall STK, 1 <= STK -> forall st s o r added,
  SInv STK st -> SRel st s -> sobjs st o = Some r ->
  exists st' r', s_expand STK o added st = (Ok tt, st') /\ SInv STK st' /\ SRel st' s /\
                 sobjs st' o = Some r' /\ s_size r' = s_size r /\ s_size r + added <= s_alloc r'.
Proof. exact s_expand_ok. Qed.
Print Assumptions c16_expand.

(* one theorem per member: returns normally (no out-of-bounds access, no use of released storage, no
   double free, no free of in-object storage, no hang: each would be a Fault), re-establishes the
   invariant, and changes the bytes exactly as the byte-string spec says *)
Theorem c16_ctor : forall STK, 1 <= STK -> forall st s o,
  SInv STK st -> SRel st s -> sobjs st o = None ->
  exists st', s_ctor STK o st = (Ok tt, st') /\ SInv STK st' /\ SRel st' (spec_sop s (SNew o)).
Proof. exact s_ctor_ok. Qed.
Print Assumptions c16_ctor.

Theorem c16_append : forall STK, 1 <= STK -> forall st s o d,
  SInv STK st -> SRel st s -> sobjs st o <> None ->
  exists st', s_append STK o d st = (Ok tt, st') /\ SInv STK st' /\ SRel st' (spec_sop s (SAppend o d)).
Proof. exact s_append_ok. Qed.
Print Assumptions c16_append.

Theorem c16_append_char : forall STK, 1 <= STK -> forall st s o c n,
  SInv STK st -> SRel st s -> sobjs st o <> None ->
  exists st', s_append_char STK o c n st = (Ok tt, st') /\ SInv STK st' /\ SRel st' (spec_sop s (SAppendChar o c n)).
Proof. exact s_append_char_ok. Qed.
Print Assumptions c16_append_char.

Theorem c16_truncate : forall STK st s o n,
  SInv STK st -> SRel st s -> sobjs st o <> None ->
  exists st', s_truncate o n st = (Ok tt, st') /\ SInv STK st' /\ SRel st' (spec_sop s (STruncate o n)).
Proof. exact s_truncate_ok. Qed.
Print Assumptions c16_truncate.

Theorem c16_erase : forall STK st s o n,
  SInv STK st -> SRel st s -> sobjs st o <> None ->
  exists st', s_erase o n st = (Ok tt, st') /\ SInv STK st' /\ SRel st' (spec_sop s (SErase o n)).
Proof. exact s_erase_ok. Qed.
Print Assumptions c16_erase.

Theorem c16_move_ctor : forall STK, 1 <= STK -> forall st s o src,
  SInv STK st -> SRel st s -> sobjs st o = None -> sobjs st src <> None ->
  exists st', s_ctor_move STK o src st = (Ok tt, st') /\ SInv STK st' /\ SRel st' (spec_sop s (SMove o src)).
Proof. exact s_ctor_move_ok. Qed.
Print Assumptions c16_move_ctor.

(* including o = src (self-move: no effect) *)
Theorem c16_move_assign : forall STK, 1 <= STK -> forall st s o src,
  SInv STK st -> SRel st s -> sobjs st o <> None -> sobjs st src <> None ->
  exists st', s_assign_move STK o src st = (Ok tt, st') /\ SInv STK st' /\ SRel st' (spec_sop s (SMasg o src)).
Proof. exact s_assign_move_ok. Qed.
Print Assumptions c16_move_assign.

(* operator<<(int / unsigned / long / ...): |value| = mag < 2^bits rendered by uint_formatter (Num/Digits.v,
   proved equal to the canonical decimal digits in Num/DigitsProofs.v), '-' first when negative *)
Theorem c16_shl_integer : forall STK, 1 <= STK -> forall st s o bits neg mag,
  SInv STK st -> SRel st s -> sobjs st o <> None -> (mag < 2 ^ N.of_nat bits)%N ->
  exists st', run_sop STK (SShl o bits neg mag) st = (Ok tt, st') /\ SInv STK st' /\
              SRel st' (spec_sop s (SShl o bits neg mag)).
Proof. exact s_shl_ok. Qed.
Print Assumptions c16_shl_integer.

Theorem c16_dtor : forall STK, 1 <= STK -> forall st s o,
  SInv STK st -> SRel st s -> sobjs st o <> None ->
  exists st', s_dtor STK o st = (Ok tt, st') /\ SInv STK st' /\ SRel st' (spec_sop s (SDel o)).
Proof. exact s_dtor_ok. Qed.
Print Assumptions c16_dtor.

(* every operation of the history language *)
Theorem c16_step : forall STK, 1 <= STK -> forall st s op,
  SInv STK st -> SRel st s -> swf_op st op ->
  exists st', run_sop STK op st = (Ok tt, st') /\ SInv STK st' /\ SRel st' (spec_sop s op).
Proof. exact step_ok. Qed.
Print Assumptions c16_step.

(* every finite history, from any state satisfying the invariant / from the empty state *)
Theorem c16_history : forall STK, 1 <= STK -> forall ops st s,
  SInv STK st -> SRel st s -> swf_history s ops ->
  exists st', run_sops STK ops st = (Ok tt, st') /\ SInv STK st' /\ SRel st' (fold_left spec_sop ops s).
Proof. exact history_ok. Qed.
Print Assumptions c16_history.

Theorem c16_all_histories : forall STK, 1 <= STK -> forall ops,
  swf_history bstore0 ops ->
  exists st', run_sops STK ops sstate0 = (Ok tt, st') /\ SInv STK st' /\ SRel st' (fold_left spec_sop ops bstore0).
Proof. exact reachable_ok. Qed.
Print Assumptions c16_all_histories.

(* what any observer sees of a live stream: raw_buffer()[0,size()) = its bytes, size(), and whether the
   bytes sit inside the object *)
Theorem c16_observe : forall STK st o r,
  SInv STK st -> sobjs st o = Some r ->
  s_observe o st = (Ok (mksobs (scontents st r) (s_size r) (negb (Nat.ltb STK (s_alloc r)))), st).
Proof. exact observe_ok. Qed.
Print Assumptions c16_observe.

(* no two live streams share storage *)
Theorem c16_exclusive : forall STK st pool, SInv STK st -> s_shares st pool = false.
Proof. exact no_sharing. Qed.
Print Assumptions c16_exclusive.

(* end of scope: destroying the live streams releases every block; no destructor faults *)
Theorem c16_end_of_scope : forall STK, 1 <= STK -> forall st pool,
  SInv STK st -> (forall o, pool <= o -> sobjs st o = None) -> s_leaked_after_scope STK pool st = Ok 0.
Proof. exact end_of_scope. Qed.
Print Assumptions c16_end_of_scope.

(* the function the correspondence check executes stays within what the spec allows, step by step:
   result Ok, no sharing, and per slot exactly the spec bytes and their number *)
Theorem c16_model_within_spec : forall STK, 1 <= STK -> forall ops st s pool,
  SInv STK st -> SRel st s -> swf_history s ops ->
  Forall2 (sstep_allowed pool) (spec_shistory ops s) (fst (run_shistory STK ops pool st)) /\
  exists st', snd (run_shistory STK ops pool st) = st' /\ SInv STK st' /\ SRel st' (fold_left spec_sop ops s).
Proof. exact run_shistory_allowed. Qed.
Print Assumptions c16_model_within_spec.

(* ... from the empty state, followed by the end of scope: the complete M line of a case *)
Theorem c16_checked_run : forall STK, 1 <= STK -> forall ops pool,
  swf_history bstore0 ops ->
  (forall o, pool <= o -> fold_left spec_sop ops bstore0 o = None) ->
  Forall2 (sstep_allowed pool) (spec_shistory ops bstore0) (fst (run_shistory STK ops pool sstate0)) /\
  s_leaked_after_scope STK pool (snd (run_shistory STK ops pool sstate0)) = Ok 0.
Proof. exact checked_run_ok. Qed.
Print Assumptions c16_checked_run.

(* a moved-from stream is live, satisfies the per-object clause of the invariant (so every member
   theorem above applies to it: it can be appended to, assigned to, destroyed) and is EMPTY *)
Theorem c16_moved_from_empty_ctor : forall STK, 1 <= STK -> forall st s o src,
  SInv STK st -> SRel st s -> sobjs st o = None -> sobjs st src <> None ->
  exists st', s_ctor_move STK o src st = (Ok tt, st') /\ SInv STK st' /\
              exists r, sobjs st' src = Some r /\ sobj_ok STK st' src r /\ scontents st' r = [] /\ s_size r = 0.
Proof. exact moved_from_empty_ctor. Qed.
Print Assumptions c16_moved_from_empty_ctor.

Theorem c16_moved_from_empty_assign : forall STK, 1 <= STK -> forall st s o src,
  SInv STK st -> SRel st s -> sobjs st o <> None -> sobjs st src <> None -> o <> src ->
  exists st', s_assign_move STK o src st = (Ok tt, st') /\ SInv STK st' /\
              exists r, sobjs st' src = Some r /\ sobj_ok STK st' src r /\ scontents st' r = [] /\ s_size r = 0.
Proof. exact moved_from_empty_assign. Qed.
Print Assumptions c16_moved_from_empty_assign.

(* appending to a moved-from stream: it then holds exactly the appended bytes, the target what it took *)
Theorem c16_moved_from_then_append : forall STK, 1 <= STK -> forall st s o src d,
  SInv STK st -> SRel st s -> sobjs st o = None -> sobjs st src <> None ->
  exists st', run_sops STK [SMove o src; SAppend src d] st = (Ok tt, st') /\ SInv STK st' /\
              exists r ro, sobjs st' src = Some r /\ scontents st' r = d /\
                           sobjs st' o = Some ro /\ Some (scontents st' ro) = s src.
Proof. exact moved_from_then_append. Qed.
Print Assumptions c16_moved_from_then_append.

(* this platform: ST_STACK_STRING_SIZE harvested from the headers is >= 1, so every theorem above
   applies to the configuration the correspondence check runs (drv_mem: N.to_nat stack_string_size) *)
Definition STK_here : nat := N.to_nat stack_string_size.

Theorem c16_instantiation : 1 <= STK_here.
Proof. apply PeanoNat.Nat.leb_le. vm_compute. reflexivity. Qed.
Print Assumptions c16_instantiation.

Theorem c16_checked_run_here : forall ops pool,
  swf_history bstore0 ops ->
  (forall o, pool <= o -> fold_left spec_sop ops bstore0 o = None) ->
  Forall2 (sstep_allowed pool) (spec_shistory ops bstore0) (fst (run_shistory STK_here ops pool sstate0)) /\
  s_leaked_after_scope STK_here pool (snd (run_shistory STK_here ops pool sstate0)) = Ok 0.
Proof. exact (checked_run_ok STK_here c16_instantiation). Qed.
Print Assumptions c16_checked_run_here.

(* non-vacuity: a concrete well-formed history (capacity 4, so that 4 / 8 / 16 play the role of
   256 / 512 / 1024) growing a stream from the in-object array to a block and to a bigger block, moving
   it in both storage modes, self-move, integer insertion, truncate / erase, use of the moved-from
   stream; the hypotheses hold, every step returns normally and nothing is leaked *)
Example c16_nonvacuous :
  let ops := [SNew 0; SAppend 0 [1;2;3]%N; SAppendChar 0 9%N 2; SMove 1 0; SAppend 0 [7]%N;
              SAppend 1 [4;5;6;7]%N; SNew 2; SMasg 2 1; SMasg 2 2; SShl 2 32 true 42%N; STruncate 2 10;
              SErase 2 1; SMasg 0 2; SAppendChar 2 8%N 5; SDel 1; SMove 1 2] in
  swf_history bstore0 ops /\
  fst (run_sops 4 ops sstate0) = Ok tt /\
  fold_left spec_sop ops bstore0 0 = Some [1;2;3;9;9;4;5;6;7]%N /\
  s_leaked_after_scope 4 3 (snd (run_shistory 4 ops 3 sstate0)) = Ok 0.
Proof. vm_compute. repeat split; try discriminate; reflexivity. Qed.

(* the same at the real capacity: 255, 256, 257 bytes, then past 512, moves in both storage modes *)
Example c16_nonvacuous_here :
  let ops := [SNew 0; SAppendChar 0 97%N 255; SAppend 0 [98]%N; SMove 1 0; SAppend 1 [99]%N;
              SAppend 0 [100]%N; SAppendChar 1 101%N 256; SMasg 0 1; SMasg 0 0; SShl 1 64 false 18446744073709551615%N;
              SDel 0] in
  swf_history bstore0 ops /\
  fst (run_sops STK_here ops sstate0) = Ok tt /\
  s_leaked_after_scope STK_here 2 (snd (run_shistory STK_here ops 2 sstate0)) = Ok 0.
Proof. vm_compute. repeat split; try discriminate; reflexivity. Qed.

(* ---- text side (Mem/StreamText.v: the stream model composed with the transcoder model of C01-C03) ---- *)
From ST Require Import Base.Units Mem.StreamText Mem.StreamTextProofs Utf.Spec Utf.Tokens Utf.Model Utf.ProofsC01.

(* to_string() of a stream holding well-formed UTF-8 returns exactly the bytes appended, in every validation
   mode, and leaves the stream unchanged; to_string(false) is the Latin-1 reading transcoded to UTF-8 *)
Theorem c16_to_string_wellformed : forall STK st o r m,
  SInv STK st -> sobjs st o = Some r ->
  all_lt 256 (scontents st r) = true -> fits (scontents st r) -> WF8 (scontents st r) = true ->
  s_to_string o true m st = (Ok (scontents st r), st).
Proof. exact to_string_wellformed. Qed.
Print Assumptions c16_to_string_wellformed.

Theorem c16_to_string_latin1 : forall STK st o r m,
  SInv STK st -> sobjs st o = Some r ->
  s_to_string o false m st = (string_from_latin_1 (Some (scontents st r)), st).
Proof. exact to_string_latin1. Qed.
Print Assumptions c16_to_string_latin1.

Theorem c16_to_string_pure : forall this u m st r st', s_to_string this u m st = (r, st') -> st' = st.
Proof. exact to_string_pure. Qed.
Print Assumptions c16_to_string_pure.

(* operator<< of UTF-16 / UTF-32 text: on well-formed text it is an append of the standard UTF-8 encoding
   (so every append theorem above applies); when the conversion throws, the stream store is untouched *)
Theorem c16_shl_utf16 : forall STK dv o l st, scalars l = true -> fits (enc16 l) ->
  s_shl_wide STK dv o W16 (enc16 l) st = s_append STK o (enc8 l) st.
Proof. exact shl_utf16_scalars. Qed.
Print Assumptions c16_shl_utf16.

Theorem c16_shl_utf32 : forall STK dv o l st, scalars l = true -> fits (enc32 l) ->
  s_shl_wide STK dv o W32 (enc32 l) st = s_append STK o (enc8 l) st.
Proof. exact shl_utf32_scalars. Qed.
Print Assumptions c16_shl_utf32.

Theorem c16_shl_wide_failure_is_identity : forall STK dv this w text e st,
  to_utf8_of w dv (Some text) = Throw e -> s_shl_wide STK dv this w text st = (Throw e, st).
Proof. exact shl_wide_failure_is_identity. Qed.
Print Assumptions c16_shl_wide_failure_is_identity.
