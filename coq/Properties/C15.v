(* Properties/C15.v — decoders accept exactly the valid encodings and never
   overrun the output buffer.  STATEMENTS ONLY (see C14.v for conventions).

   hex_decode_buf s output osize / b64_decode_buf s output osize model the
   caller-buffer decoders: `output = false` is the null pointer; the result is
   (return value, cells written in order from output[0]); a write at an index
   >= osize would be Fault OOBWrite, a read outside c_str() Fault OOBRead, an
   exhausted loop Fault Hang.  All theorems quantify over every byte string `s`
   (bytes_ok s: units < 256, true of any ST::string) of every length, every
   output size, null and non-null output.                                       *)
From Coq Require Import NArith ZArith List Bool.
From ST Require Import Base.Outcome Base.Units Codec.Spec Codec.Model.
From ST Require Codec.ProofsC15 Codec.ProofsDecHex Codec.ProofsDecB64 Codec.ProofsExamples.
From ST Require Codec.LeafBridge Gen.Leaf.
Import ListNotations.
Local Open Scope N_scope.

(* ======================= hex ======================= *)
(* caller-buffer form: a length is returned  <->  valid and fits *)
Theorem hex_accept_iff : forall s osize, bytes_ok s = true ->
  ((exists n w, hex_decode_buf s true osize = Ok (Z.of_nat n, w))
   <-> (valid_hex s = true /\ (length s / 2 <= osize)%nat)).
Proof. exact ProofsC15.hex_accept_iff. Qed.
Print Assumptions hex_accept_iff.

(* ... otherwise it returns -1 *)
Theorem hex_reject : forall s osize, bytes_ok s = true ->
  ~ (valid_hex s = true /\ (length s / 2 <= osize)%nat) ->
  exists w, hex_decode_buf s true osize = Ok ((-1)%Z, w).
Proof. exact ProofsC15.hex_reject. Qed.
Print Assumptions hex_reject.

(* allocating form: codec_error exactly on invalid input; the decoded bytes otherwise;
   in particular never Abort (the wrapper's ST_ASSERT) and never a Fault *)
Theorem hex_decode_throw_iff : forall s, bytes_ok s = true ->
  (hex_decode s = Throw CodecError <-> valid_hex s = false).
Proof. exact ProofsC15.hex_decode_throw_iff. Qed.
Print Assumptions hex_decode_throw_iff.

Theorem hex_decode_is_spec : forall s, bytes_ok s = true -> valid_hex s = true ->
  exists r, hex_decode_spec s = Some r /\ hex_decode s = Ok r.
Proof. exact ProofsC15.hex_decode_is_spec. Qed.
Print Assumptions hex_decode_is_spec.

Theorem hex_decode_total : forall s, bytes_ok s = true ->
  (exists r, hex_decode s = Ok r) \/ hex_decode s = Throw CodecError.
Proof. exact ProofsC15.hex_decode_total. Qed.
Print Assumptions hex_decode_total.

(* never_overrun: every call returns normally (Ok: not Fault OOBWrite / OOBRead / Hang,
   not Abort, not Throw) and never more than output_size cells are written *)
Theorem hex_never_overrun : forall s output osize, bytes_ok s = true ->
  exists r w, hex_decode_buf s output osize = Ok (r, w) /\ (length w <= osize)%nat.
Proof. exact ProofsC15.hex_never_overrun. Qed.
Print Assumptions hex_never_overrun.

(* null_output: the length implied by the input's length, or -1; nothing written *)
Theorem hex_null_output : forall s osize,
  hex_decode_buf s false osize =
  Ok (match hex_decoded_len s with Some n => Z.of_nat n | None => (-1)%Z end, []).
Proof. exact ProofsDecHex.hex_decode_buf_null. Qed.
Print Assumptions hex_null_output.

(* written_eq_len + decode_is_spec: a non-negative return value is the number of cells
   written, equals the implied length, and the cells are the Spec's decoding *)
Theorem hex_written_eq_len : forall s osize r w, bytes_ok s = true ->
  hex_decode_buf s true osize = Ok (r, w) -> (0 <= r)%Z ->
  r = Z.of_nat (length w) /\ hex_decoded_len s = Some (length w) /\ hex_decode_spec s = Some w.
Proof. exact ProofsC15.hex_written_eq_len. Qed.
Print Assumptions hex_written_eq_len.

Theorem hex_decode_buf_is_spec : forall s osize, bytes_ok s = true -> valid_hex s = true ->
  (length s / 2 <= osize)%nat ->
  exists r, hex_decode_spec s = Some r /\ length r = (length s / 2)%nat /\
            hex_decode_buf s true osize = Ok (Z.of_nat (length r), r).
Proof. exact ProofsC15.hex_decode_buf_is_spec. Qed.
Print Assumptions hex_decode_buf_is_spec.

(* the wrapper's assertion `written == decode_size` cannot fail *)
Theorem hex_wrapper_assert_dead : forall s r w, bytes_ok s = true ->
  hex_decode_buf s true (length s / 2) = Ok (r, w) ->
  r = (-1)%Z \/ (r = Z.of_nat (length s / 2) /\ length w = (length s / 2)%nat).
Proof. exact ProofsC15.hex_wrapper_assert_dead. Qed.
Print Assumptions hex_wrapper_assert_dead.

(* ======================= base64 ======================= *)
Theorem b64_accept_iff : forall s osize, bytes_ok s = true ->
  ((exists n w, b64_decode_buf s true osize = Ok (Z.of_nat n, w))
   <-> (valid_b64 s = true /\ exists n, b64_decoded_len s = Some n /\ (n <= osize)%nat)).
Proof. exact ProofsC15.b64_accept_iff. Qed.
Print Assumptions b64_accept_iff.

Theorem b64_reject : forall s osize, bytes_ok s = true ->
  ~ (valid_b64 s = true /\ exists n, b64_decoded_len s = Some n /\ (n <= osize)%nat) ->
  exists w, b64_decode_buf s true osize = Ok ((-1)%Z, w).
Proof. exact ProofsC15.b64_reject. Qed.
Print Assumptions b64_reject.

Theorem base64_decode_throw_iff : forall s, bytes_ok s = true ->
  (base64_decode s = Throw CodecError <-> valid_b64 s = false).
Proof. exact ProofsC15.base64_decode_throw_iff. Qed.
Print Assumptions base64_decode_throw_iff.

Theorem base64_decode_is_spec : forall s, bytes_ok s = true -> valid_b64 s = true ->
  exists r, b64_decode_spec s = Some r /\ base64_decode s = Ok r.
Proof. exact ProofsC15.base64_decode_is_spec. Qed.
Print Assumptions base64_decode_is_spec.

Theorem base64_decode_total : forall s, bytes_ok s = true ->
  (exists r, base64_decode s = Ok r) \/ base64_decode s = Throw CodecError.
Proof. exact ProofsC15.base64_decode_total. Qed.
Print Assumptions base64_decode_total.

Theorem b64_never_overrun : forall s output osize, bytes_ok s = true ->
  exists r w, b64_decode_buf s output osize = Ok (r, w) /\ (length w <= osize)%nat.
Proof. exact ProofsC15.b64_never_overrun. Qed.
Print Assumptions b64_never_overrun.

Theorem b64_null_output : forall s osize,
  b64_decode_buf s false osize =
  Ok (match b64_decoded_len s with Some n => Z.of_nat n | None => (-1)%Z end, []).
Proof. exact ProofsDecB64.b64_decode_buf_null. Qed.
Print Assumptions b64_null_output.

Theorem b64_written_eq_len : forall s osize r w, bytes_ok s = true ->
  b64_decode_buf s true osize = Ok (r, w) -> (0 <= r)%Z ->
  r = Z.of_nat (length w) /\ b64_decoded_len s = Some (length w) /\ b64_decode_spec s = Some w.
Proof. exact ProofsC15.b64_written_eq_len. Qed.
Print Assumptions b64_written_eq_len.

Theorem b64_decode_buf_is_spec : forall s osize n, bytes_ok s = true -> valid_b64 s = true ->
  b64_decoded_len s = Some n -> (n <= osize)%nat ->
  exists r, b64_decode_spec s = Some r /\ length r = n /\
            b64_decode_buf s true osize = Ok (Z.of_nat n, r).
Proof. exact ProofsC15.b64_decode_buf_is_spec. Qed.
Print Assumptions b64_decode_buf_is_spec.

Theorem b64_wrapper_assert_dead : forall s n r w, bytes_ok s = true ->
  b64_decoded_len s = Some n -> b64_decode_buf s true n = Ok (r, w) ->
  r = (-1)%Z \/ (r = Z.of_nat n /\ length w = n).
Proof. exact ProofsC15.b64_wrapper_assert_dead. Qed.
Print Assumptions b64_wrapper_assert_dead.

(* ---------------- anchors and non-vacuity ---------------- *)
Example valid_hex_satisfiable :
  bytes_ok [52; 97] = true /\ valid_hex [52; 97] = true /\ (length [52; 97] / 2 <= 1)%nat.
Proof. exact ProofsExamples.nonvac_valid_hex. Qed.
Example invalid_hex_satisfiable :
  bytes_ok [52; 103] = true /\ ~ (valid_hex [52; 103] = true /\ (length [52; 103] / 2 <= 1)%nat).
Proof. exact ProofsExamples.nonvac_invalid_hex. Qed.
Example valid_b64_satisfiable :
  bytes_ok [90; 109; 56; 61] = true /\ valid_b64 [90; 109; 56; 61] = true
  /\ b64_decoded_len [90; 109; 56; 61] = Some 2%nat.
Proof. exact ProofsExamples.nonvac_valid_b64. Qed.
Example invalid_b64_satisfiable : bytes_ok [90; 103; 61; 65] = true /\ valid_b64 [90; 103; 61; 65] = false.
Proof. exact ProofsExamples.nonvac_invalid_b64. Qed.
Example written_hypothesis_satisfiable : hex_decode_buf [52; 97] true 5 = Ok (1%Z, [74]) /\ (0 <= 1)%Z.
Proof. exact ProofsExamples.nonvac_written. Qed.
Example written_hypothesis_satisfiable_b64 :
  b64_decode_buf [90; 109; 56; 61] true 5 = Ok (2%Z, [102; 111]) /\ (0 <= 2)%Z.
Proof. exact ProofsExamples.nonvac_written_b64. Qed.
Example reject_pad_inside :
  valid_b64 [90; 103; 61; 65] = false /\ base64_decode [90; 103; 61; 65] = Throw CodecError.    (* "Zg=A" *)
Proof. exact ProofsExamples.reject_pad_inside. Qed.
Example reject_three_pads :
  valid_b64 [90; 61; 61; 61] = false /\ base64_decode [90; 61; 61; 61] = Throw CodecError.      (* "Z===" *)
Proof. exact ProofsExamples.reject_three_pads. Qed.
Example reject_pad_in_first_group :
  valid_b64 [90; 103; 61; 61; 90; 103; 61; 61] = false
  /\ base64_decode [90; 103; 61; 61; 90; 103; 61; 61] = Throw CodecError.                       (* "Zg==Zg==" *)
Proof. exact ProofsExamples.reject_pad_group_first. Qed.
Example too_small_buffer : b64_decode_buf [90; 109; 56; 61] true 1 = Ok ((-1)%Z, []).
Proof. exact ProofsExamples.model_b64_buf_small. Qed.
Example exact_buffer : b64_decode_buf [90; 103; 61; 61] true 1 = Ok (1%Z, [102]).
Proof. exact ProofsExamples.model_b64_buf_exact. Qed.
Example rejected_late_keeps_within_bounds :
  b64_decode_buf [90; 109; 57; 118; 89; 33; 61; 61] true 4 = Ok ((-1)%Z, [102; 111; 111]).
Proof. exact ProofsExamples.reject_late. Qed.

(* ---- tie by translation: the leaf functions below are translated from the clang AST of the CURRENT headers into
   Gen/Leaf.v on every run (tools/leaf_translate.py: C++ integer semantics written out over Z); the hand-written
   model functions used by every theorem above compute the same values, so an edit to one of these functions in the
   headers breaks this obligation whatever the test generators do ---- *)
Theorem decode_size_matches_source : forall s,
  (Z.of_nat (length s) < 2 ^ 62)%Z -> Forall (fun b => b < 256) s ->
  b64_decode_size s = Ok (ST.Gen.Leaf.src_b64_decode_size (Z.of_nat (length s)) (ST.Codec.LeafBridge.data_of s)).
Proof. exact ST.Codec.LeafBridge.b64_decode_size_matches_source. Qed.
Print Assumptions decode_size_matches_source.
