(* Properties/C17.v — all output sinks emit the same bytes for the same format call.
   Statements only; proofs in Fmt/SinksProofs.v.  The driver (Fmt/Render.v) yields the sequence
   of append / append_char calls and its ending and nothing else, so it is parametric in the
   writer by construction; a sink is an interpretation of that sequence (Fmt/Sinks.v).       *)
From Coq Require Import NArith ZArith List.
From ST Require Import Base.Outcome Base.Units Fmt.Parser Fmt.Render Fmt.RenderSpec Fmt.Sinks Fmt.SinksProofs.
Import ListNotations.
Local Open Scope N_scope.

(* narrow_sinks_equal: ST::printf(FILE* ), ST::writef(narrow ostream) and the string sink's buffer
   receive the same bytes — the concatenation of the calls — and the call ends the same way
   (same exception, at the same point: what reached the stream before it is the same) *)
Theorem narrow_sinks_equal : forall fmt args,
  let d := driver fmt args in
  format_to_stream StFile fmt args = (bytes_of (fst d), snd d) /\
  format_to_stream StOstream fmt args = (bytes_of (fst d), snd d) /\
  run_writer string_step d = (bytes_of (fst d), snd d).
Proof. exact SinksProofs.narrow_sinks_equal. Qed.
Print Assumptions narrow_sinks_equal.

(* each narrow writer's append / append_char denote the same byte concatenation *)
Theorem narrow_writers_denote : narrow_step string_step /\ narrow_step file_step /\ narrow_step ostream_step.
Proof. exact (conj string_step_narrow (conj file_step_narrow ostream_step_narrow)). Qed.
Print Assumptions narrow_writers_denote.

(* whenever ST::format returns bytes, printf and writef wrote exactly those bytes *)
Theorem format_equals_streams : forall fmt args raw,
  format_to_string AssumeValid fmt args = Ok raw ->
  format_to_stream StFile fmt args = (raw, Ok tt) /\ format_to_stream StOstream fmt args = (raw, Ok tt).
Proof. exact SinksProofs.format_equals_streams. Qed.
Print Assumptions format_equals_streams.

(* and when ST::format throws a driver exception, so do they *)
Theorem format_throws_streams : forall v fmt args x, x <> UnicodeError ->
  format_to_string v fmt args = Throw x ->
  snd (format_to_stream StFile fmt args) = Throw x /\ snd (format_to_stream StOstream fmt args) = Throw x.
Proof. exact SinksProofs.format_throws_streams. Qed.
Print Assumptions format_throws_streams.

(* latin1_sink: format_latin_1 = the UTF-8 encoding of each byte of ST::format's output read as Latin-1 *)
Theorem latin1_sink : forall fmt args raw,
  format_to_string AssumeValid fmt args = Ok raw -> bytes_ok raw = true ->
  format_to_latin1 fmt args = Ok (flat_map utf8_enc raw).
Proof. exact SinksProofs.latin1_sink. Qed.
Print Assumptions latin1_sink.

(* wide_sink: under its hypothesis (every appended chunk well-formed on its own and below the
   huge-buffer limit, every pad byte < 0x80) the wide stream receives the transcoding of the
   bytes ST::format produces.  Without the hypothesis the statement is false of the model and of
   the code: known finding wide-sink-per-chunk (witness below). *)
Theorem wide_sink : forall w t, Forall (chunk_ok w) t ->
  exists u, feed (wide_step w) [] t = (u, Ok tt) /\ transcode w (bytes_of t) = Some u.
Proof. exact SinksProofs.wide_sink. Qed.
Print Assumptions wide_sink.

(* FULL STATEMENT without the hypothesis (false): ST::format("{}{}", "\xC3", "\xA9") is "é", the
   wide sinks throw on the first chunk *)
Theorem wide_sink_unconditional_refuted :
  format_to_string CheckValidity (Some [123; 125; 123; 125]) [AStr [195]; AStr [169]] = Ok [195; 169] /\
  transcode WWchar [195; 169] = Some [233] /\
  format_to_stream (StWide WWchar) (Some [123; 125; 123; 125]) [AStr [195]; AStr [169]] = ([], Throw UnicodeError).
Proof. exact SinksProofs.wide_sink_witness. Qed.
Print Assumptions wide_sink_unconditional_refuted.

(* insertion: os << s writes the string's bytes (char stream) / the reference transcoding of
   well-formed text (wchar_t, char16_t, char32_t streams).
   extraction (is >> s stores the token subject to the default validation) is modelled
   (Sinks.extract_token / set_from_token) and checked by correspondence against the token
   std::basic_string takes; the tokenisation is libstdc++'s, there is no theorem about it. *)
Theorem insertion_partial : forall s,
  insert_units CtChar s = s /\
  (forall u, decode_utf8 s = Some u ->
     insert_units CtChar32 s = u /\ insert_units CtWchar s = u /\
     (forall v, encode_utf16 u = Some v -> insert_units CtChar16 s = v)).
Proof. exact SinksProofs.insertion. Qed.
Print Assumptions insertion_partial.

(* non-vacuity of wide_sink's hypothesis *)
Example chunk_ok_satisfiable : Forall (chunk_ok WChar16) [EApp [195; 169]; EPad 32 3; EApp [240; 159; 152; 128]].
Proof. exact SinksProofs.chunk_ok_example. Qed.
