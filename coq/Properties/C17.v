(* Properties/C17.v — all output sinks emit the same bytes for the same format call.
   Statements only; proofs in Fmt/SinksProofs.v.  The driver (Fmt/Render.v) yields the sequence
   of append / append_char calls and its ending and nothing else, so it is parametric in the
   writer by construction; a sink is an interpretation of that sequence (Fmt/Sinks.v).       *)
From Coq Require Import NArith ZArith List.
From ST Require Import Base.Outcome Base.Units Fmt.Parser Fmt.Render Fmt.RenderSpec Fmt.Sinks Fmt.SinksProofs Fmt.Strtol Fmt.ExtractProofs.
From Coq Require Import Bool.
Import ListNotations.
Local Open Scope N_scope.

(* narrow_sinks_equal: ST::printf(FILE* ), ST::writef(narrow ostream) and the string sink's buffer
   receive the same bytes — the concatenation of the calls — and the call ends the same way
   (same exception, at the same point: what reached the stream before it is the same) *)
Theorem narrow_sinks_equal : forall fmt args,
  let d := driver fmt args in
  format_to_stream StFile fmt args = (bytes_of (fst d), snd d) /\
  format_to_stream StOstream fmt args = (bytes_of (fst d), snd d) /\
  run_writer string_step d = (bytes_of (fst d), snd d).
Proof. exact SinksProofs.narrow_sinks_equal. Qed.
Print Assumptions narrow_sinks_equal.

(* each narrow writer's append / append_char denote the same byte concatenation *)
Theorem narrow_writers_denote : narrow_step string_step /\ narrow_step file_step /\ narrow_step ostream_step.
Proof. exact (conj string_step_narrow (conj file_step_narrow ostream_step_narrow)). Qed.
Print Assumptions narrow_writers_denote.

(* whenever ST::format returns bytes, printf and writef wrote exactly those bytes *)
Theorem format_equals_streams : forall fmt args raw,
  format_to_string AssumeValid fmt args = Ok raw ->
  format_to_stream StFile fmt args = (raw, Ok tt) /\ format_to_stream StOstream fmt args = (raw, Ok tt).
Proof. exact SinksProofs.format_equals_streams. Qed.
Print Assumptions format_equals_streams.

(* and when ST::format throws a driver exception, so do they *)
Theorem format_throws_streams : forall v fmt args x, x <> UnicodeError ->
  format_to_string v fmt args = Throw x ->
  snd (format_to_stream StFile fmt args) = Throw x /\ snd (format_to_stream StOstream fmt args) = Throw x.
Proof. exact SinksProofs.format_throws_streams. Qed.
Print Assumptions format_throws_streams.

(* latin1_sink: format_latin_1 = the UTF-8 encoding of each byte of ST::format's output read as Latin-1 *)
Theorem latin1_sink : forall fmt args raw,
  format_to_string AssumeValid fmt args = Ok raw -> bytes_ok raw = true ->
  format_to_latin1 fmt args = Ok (flat_map utf8_enc raw).
Proof. exact SinksProofs.latin1_sink. Qed.
Print Assumptions latin1_sink.

(* wide_sink: under its hypothesis (every appended chunk well-formed on its own and below the
   huge-buffer limit, every pad byte < 0x80) the wide stream receives the transcoding of the
   bytes ST::format produces.  Without the hypothesis the statement is false of the model and of
   the code: known finding wide-sink-per-chunk (witness below). *)
Theorem wide_sink : forall w t, Forall (chunk_ok w) t ->
  exists u, feed (wide_step w) [] t = (u, Ok tt) /\ transcode w (bytes_of t) = Some u.
Proof. exact SinksProofs.wide_sink. Qed.
Print Assumptions wide_sink.

(* FULL STATEMENT without the hypothesis (false): ST::format("{}{}", "\xC3", "\xA9") is "é", the
   wide sinks throw on the first chunk *)
Theorem wide_sink_unconditional_refuted :
  format_to_string CheckValidity (Some [123; 125; 123; 125]) [AStr [195]; AStr [169]] = Ok [195; 169] /\
  transcode WWchar [195; 169] = Some [233] /\
  format_to_stream (StWide WWchar) (Some [123; 125; 123; 125]) [AStr [195]; AStr [169]] = ([], Throw UnicodeError).
Proof. exact SinksProofs.wide_sink_witness. Qed.
Print Assumptions wide_sink_unconditional_refuted.

(* insertion: os << s writes the string's bytes (char stream) / the reference transcoding of
   well-formed text (wchar_t, char16_t, char32_t streams).
   extraction: see the theorems below (the tokenisation itself is libstdc++'s; its model
   Sinks.extract_token is validated against the token std::basic_string takes on every run). *)
Theorem insertion_partial : forall s,
  insert_units CtChar s = s /\
  (forall u, decode_utf8 s = Some u ->
     insert_units CtChar32 s = u /\ insert_units CtWchar s = u /\
     (forall v, encode_utf16 u = Some v -> insert_units CtChar16 s = v)).
Proof. exact SinksProofs.insertion. Qed.
Print Assumptions insertion_partial.

(* non-vacuity of wide_sink's hypothesis *)
Example chunk_ok_satisfiable : Forall (chunk_ok WChar16) [EApp [195; 169]; EPad 32 3; EApp [240; 159; 152; 128]].
Proof. exact SinksProofs.chunk_ok_example. Qed.

(* ---- extraction: is >> s ----
   the modelled token is the first maximal whitespace-free run of the input (what a std::basic_string extraction
   takes in the "C" locale); *)
Theorem extraction_token : forall ct l, ct = CtChar \/ ct = CtWchar ->
  exists pre rest, l = pre ++ extract_token ct l ++ rest /\ forallb isspace pre = true /\
    nospace (extract_token ct l) = true /\ (rest = [] \/ exists c r, rest = c :: r /\ isspace c = true) /\
    (extract_token ct l = [] -> rest = []).
Proof. exact token_spec. Qed.
Print Assumptions extraction_token.

(* the string then holds that token subject to the default validation (check_validity): a char stream stores the
   token unchanged if it is well-formed UTF-8 and throws unicode_error otherwise; a wchar_t stream stores the
   standard UTF-8 encoding of the token's units and throws exactly when a unit is above U+10FFFF *)
Theorem extraction_stores_token_char : forall tok, N.of_nat (length tok) < huge_buffer_size ->
  set_from_token CtChar tok = if validate_utf8 tok then Ok tok else Throw UnicodeError.
Proof. exact stored_char. Qed.
Print Assumptions extraction_stores_token_char.
Theorem extraction_stores_token_wide : forall tok,
  (forallb (fun u => u <=? 0x10FFFF) tok = true ->
     set_from_token CtWchar tok = Ok (flat_map utf8_enc tok) /\ set_from_token CtChar32 tok = Ok (flat_map utf8_enc tok)) /\
  (forallb (fun u => u <=? 0x10FFFF) tok = false -> set_from_token CtWchar tok = Throw UnicodeError).
Proof. exact stored_wide_both. Qed.
Print Assumptions extraction_stores_token_wide.

(* extraction inverts insertion on whitespace-free text *)
Theorem extraction_inverts_insertion : forall s,
  (nospace s = true -> N.of_nat (length s) < huge_buffer_size -> validate_utf8 s = true ->
     set_from_token CtChar (extract_token CtChar (insert_units CtChar s)) = Ok s) /\
  (nospace (decode_utf8_lax s) = true -> forallb (fun u => u <=? 0x10FFFF) (decode_utf8_lax s) = true ->
     set_from_token CtWchar (extract_token CtWchar (insert_units CtWchar s)) = Ok (flat_map utf8_enc (decode_utf8_lax s))).
Proof. exact extract_insert_both. Qed.
Print Assumptions extraction_inverts_insertion.

Example extraction_example :
  set_from_token CtWchar (extract_token CtWchar (insert_units CtWchar [0xC3; 0xA9; 0x41; 0xF0; 0x9F; 0x98; 0x80])) =
    Ok [0xC3; 0xA9; 0x41; 0xF0; 0x9F; 0x98; 0x80] /\
  extract_token CtChar [32; 9; 0x61; 0x62; 10; 0x63] = [0x61; 0x62].
Proof. exact extract_insert_example. Qed.
