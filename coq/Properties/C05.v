(* Properties/C05.v — C05: buffers keep size, content, terminator and exclusive ownership over
   any history.  Statements only; proofs live in Mem/*.v.  L is the small-buffer limit; the four
   concrete limits come from Gen/Consts.v (regenerated from st_config.h.in / st_charbuffer.h).

   Reading guide:
     Inv L st            every live buffer: short => data() is its own array, NUL at [size];
                         long => data() is a live heap block of size+1 cells, NUL at [size], referenced
                         by no other object; every live block is owned by a live buffer (no leak);
     Rel st s            the value each live buffer holds is the value the SPEC store `s` gives it
                         (`Unspecified` for a moved-from object: any valid value);
     wf_history s ops    the history is a well-formed program (constructors on dead slots, members on
                         live ones);
     run_bop / run_history  the transcription of include/st_charbuffer.h (Mem/Buffer.v).            *)
From Coq Require Import NArith List Lia.
From ST Require Import Base.Outcome Mem.Heap Mem.Buffer Mem.BufferRun Mem.BufferInv Mem.BufferSteps
  Mem.BufferHistory Gen.Consts.
Import ListNotations.

(* the empty store satisfies the invariant *)
Theorem c05_inv_init : forall L, Inv L store0 /\ Rel store0 sstore0.
Proof. intros L. exact (conj (inv_init L) rel_init). Qed.
Print Assumptions c05_inv_init.

(* one operation: returns normally (no double free, no free of in-object storage, no out-of-bounds
   access, no use of released storage: any of these would be a Fault), re-establishes the invariant,
   changes the abstract values exactly as the value-semantics spec says, and (FRAME) leaves the record
   -- data pointer, size, in-object array -- of every object outside `targets op` untouched
   (targets: the object operated on; for the two move operations also the source) *)
Theorem c05_step : forall L, 1 <= L -> forall st s op,
  Inv L st -> Rel st s -> wf_bop st op ->
  exists st', run_bop L op st = (Ok tt, st') /\ Inv L st' /\ Rel st' (spec_bop s op) /\
              (forall o', ~ In o' (targets op) -> objs st' o' = objs st o').
Proof. exact step_ok. Qed.
Print Assumptions c05_step.

(* every finite history from the empty store *)
Theorem c05_all_histories : forall L, 1 <= L -> forall ops,
  wf_history sstore0 ops ->
  exists st', run_ops L ops store0 = (Ok tt, st') /\ Inv L st' /\ Rel st' (fold_left spec_bop ops sstore0).
Proof. exact reachable_ok. Qed.
Print Assumptions c05_all_histories.

(* FRAME over histories: an object that no operation of a well-formed history has among its targets
   keeps its record over the whole history *)
Theorem c05_history_frame : forall L, 1 <= L -> forall ops st s o,
  Inv L st -> Rel st s -> wf_history s ops -> untouched o ops ->
  exists st', run_ops L ops st = (Ok tt, st') /\ Inv L st' /\ Rel st' (fold_left spec_bop ops s) /\
              objs st' o = objs st o.
Proof. exact history_frame. Qed.
Print Assumptions c05_history_frame.

(* what any observer sees of a live buffer in a reachable state: size, the elements of the last
   value given to it, a NUL after the last element, and storage of the right class *)
Theorem c05_observe : forall L, 1 <= L -> forall st o r,
  Inv L st -> objs st o = Some r ->
  observe o st = (Ok (mkobs (contents st r) (m_size r) true (if Nat.ltb (m_size r) L then LocOwn else LocHeap)), st).
Proof. exact observe_ok. Qed.
Print Assumptions c05_observe.

(* nothing is shared between objects *)
Theorem c05_exclusive : forall L st pool, Inv L st -> shares st pool = false.
Proof. exact no_sharing. Qed.
Print Assumptions c05_exclusive.

(* end of scope: destroying the live objects (any state reachable as above) releases every block *)
Theorem c05_end_of_scope : forall L, 1 <= L -> forall st pool,
  Inv L st -> (forall o, pool <= o -> objs st o = None) -> leaked_after_scope L pool st = Ok 0.
Proof. exact end_of_scope. Qed.
Print Assumptions c05_end_of_scope.

(* the function the correspondence check executes stays within what the spec allows, step by step:
   result Ok, no sharing, and per slot the spec value (or, for a moved-from object, some valid value) *)
Theorem c05_model_within_spec : forall L, 1 <= L -> forall ops st s pool,
  Inv L st -> Rel st s -> wf_history s ops ->
  Forall2 (step_allowed L pool) (spec_history ops s) (fst (run_history L ops pool st)) /\
  exists st', snd (run_history L ops pool st) = st' /\ Inv L st' /\ Rel st' (fold_left spec_bop ops s).
Proof. exact run_history_allowed. Qed.
Print Assumptions c05_model_within_spec.

(* a moved-from object is a valid, exclusively-owning object: it is live and satisfies the per-object
   clause of the invariant, so every member theorem above applies to it *)
Theorem c05_moved_from_valid : forall L, 1 <= L -> forall st s o src,
  Inv L st -> Rel st s -> objs st o <> None -> objs st src <> None ->
  exists st', assign_move L o src st = (Ok tt, st') /\ Inv L st' /\
              exists r, objs st' src = Some r /\ obj_ok L st' src r.
Proof. exact moved_from_valid. Qed.
Print Assumptions c05_moved_from_valid.

(* the four element types of this platform: limits harvested from the headers are >= 1 *)
Theorem c05_instantiation :
  (1 <= N.to_nat local_length_char /\ 1 <= N.to_nat local_length_wchar /\
   1 <= N.to_nat local_length_char16 /\ 1 <= N.to_nat local_length_char32)%nat /\
  local_length_formula_recognised = true.
Proof. vm_compute. repeat split; apply le_S_n; repeat constructor. Qed.
Print Assumptions c05_instantiation.

(* non-vacuity: a concrete well-formed history mixing short and long values, moves in both
   directions and self-assignment; its hypotheses hold and the model computes the spec values *)
Example c05_nonvacuous :
  let ops := [BNew 0 [97;98;99]%N; BFill 1 20 120%N; BMasg 0 1; BCopy 2 0; BAsg 1 2; BMasg 1 1;
              BWrite 2 19 33%N; BDel 0; BMove 0 2; BClear 1] in
  wf_history sstore0 ops /\
  fst (run_ops 16 ops store0) = Ok tt.
Proof. vm_compute. repeat split; try discriminate; reflexivity. Qed.
