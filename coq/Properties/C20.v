(* Properties/C20.v — C20: concurrent use needs no locking.  PARTIAL (see DESIGN.md): Coq cannot exhibit a data
   race in compiled code; it decides the two things the guarantee rests on.  Statements only.      *)
From Coq Require Import String List Bool NArith.
From ST Require Import Base.Outcome Mem.Heap Mem.Buffer Mem.BufferRun Mem.BufferInv Mem.BufferSteps Mem.BufferHistory
  Gen.Statics Conc.StaticsProofs Conc.Interleave.
Import ListNotations.

(* (a) no hidden shared mutable state: every variable with static storage duration declared in the headers
   (harvested from the clang AST on this run) is const / constexpr; no field is `mutable`; every non-member
   library function called from the headers is on the re-entrant whitelist *)
Theorem c20_statics_immutable : forall d, In d statics -> sd_const d = true.
Proof. exact statics_immutable_forall. Qed.
Print Assumptions c20_statics_immutable.

Theorem c20_no_mutable_fields : mutable_fields = [].
Proof. exact no_mutable_fields. Qed.
Print Assumptions c20_no_mutable_fields.

Theorem c20_calls_reentrant : calls_reentrant_b = true.
Proof. exact calls_reentrant. Qed.
Print Assumptions c20_calls_reentrant.

Theorem c20_inventory_nonempty :
  existsb (fun d => String.eqb (sd_name d) "b64_values") statics &&
  existsb (fun d => String.eqb (sd_name d) "valid_formats") statics &&
  existsb (fun d => String.eqb (sd_name d) "hex_chars") statics = true.
Proof. exact inventory_sees_the_tables. Qed.
Print Assumptions c20_inventory_nonempty.

(* (b) schedule independence: threads that write only their own objects and read only their own or shared
   immutable ones — for EVERY interleaving each thread sees exactly what it sees running alone, and the
   interleaved run is well formed whenever each program is *)
Theorem c20_schedule_independent :
  forall (own : nat -> objid -> Prop) (shared : objid -> Prop),
  (forall t u o, own t o -> own u o -> t = u) -> (forall t o, shared o -> ~ own t o) ->
  forall sc s, sched_ok own shared sc -> (forall t, wf_history s (proj t sc)) ->
  wf_history s (map snd sc) /\
  forall t, agree own shared t (fold_left spec_bop (map snd sc) s) (fold_left spec_bop (proj t sc) s).
Proof. exact schedule_independent. Qed.
Print Assumptions c20_schedule_independent.

Theorem c20_interleaved_run_ok :
  forall (own : nat -> objid -> Prop) (shared : objid -> Prop),
  (forall t u o, own t o -> own u o -> t = u) -> (forall t o, shared o -> ~ own t o) ->
  forall L, 1 <= L -> forall sc st s,
  Inv L st -> Rel st s -> sched_ok own shared sc -> (forall t, wf_history s (proj t sc)) ->
  exists st', run_ops L (map snd sc) st = (Ok tt, st') /\ Inv L st' /\
    forall t x r l, vis own shared t x -> objs st' x = Some r ->
                    fold_left spec_bop (proj t sc) s x = Some (Val l) -> contents st' r = l.
Proof. exact interleaved_run_ok. Qed.
Print Assumptions c20_interleaved_run_ok.
