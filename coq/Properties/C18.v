(* Properties/C18.v — C18: a failed operation leaves its target and its arguments unchanged.
   A throwing constructor / assignment / set / += / conversion / decode / format call builds its result
   in temporaries (Mem/StringOps.v: TThrowing — the temporaries are whatever the operation built before
   the exception: a converted buffer, a concatenation, a decode buffer, a string_stream's heap block),
   throws, and the temporaries are destroyed while the stack unwinds.  Statements only.          *)
From Coq Require Import NArith List Lia.
From ST Require Import Base.Outcome Mem.Heap Mem.Buffer Mem.BufferRun Mem.BufferInv Mem.BufferSteps
  Mem.BufferHistory Mem.StringOps Mem.StringProofs.
Import ListNotations.

(* the exception reaches the caller; every object the caller can name — the target, an rvalue argument,
   every other string — keeps its record (data pointer, size) and its contents; the ownership invariant
   holds afterwards, so nothing is leaked (every live block is owned by a live object and the temporaries
   are dead) and every object can be used normally (all C05/C04 theorems apply to the state) *)
Theorem c18_failed_is_identity : forall L, 1 <= L -> forall st s temps e,
  Inv L st -> Rel st s -> top_wf s (TThrowing temps e) ->
  exists st', run_top L (TThrowing temps e) st = (Throw e, st') /\ Inv L st' /\ Rel st' s /\
    (forall x r, user_slot x -> objs st x = Some r -> objs st' x = Some r /\ contents st' r = contents st r).
Proof. exact top_throw_ok. Qed.
Print Assumptions c18_failed_is_identity.

(* at any point in a longer history: sequences mixing failing and succeeding operations *)
Theorem c18_usable_after : forall L, 1 <= L -> forall ts st s,
  Inv L st -> Rel st s -> wf_tops s ts ->
  fst (run_tops L ts st) = map expected_result ts /\
  Inv L (snd (run_tops L ts st)) /\ Rel (snd (run_tops L ts st)) (fold_left spec_top ts s).
Proof. exact tops_ok. Qed.
Print Assumptions c18_usable_after.

(* stack unwinding itself: destroying the live temporaries touches nothing else *)
Theorem c18_unwinding_frame : forall L, 1 <= L -> forall pool k st,
  Inv L st -> exists st', destroy_all L k pool st = (Ok tt, st') /\ Inv L st' /\
     (forall o, k <= o < k + pool -> objs st' o = None) /\
     (forall o, ~ (k <= o < k + pool) -> objs st' o = objs st o) /\
     (forall o r, ~ (k <= o < k + pool) -> objs st o = Some r -> contents st' r = contents st r).
Proof. exact destroy_all_frame. Qed.
Print Assumptions c18_unwinding_frame.

(* non-vacuity: failing operations with short and long temporaries in the middle of a history *)
Example c18_nonvacuous :
  let abc := [97; 98; 99]%N in
  let ts := [TNew 0 abc; TNew 1 (repeat 120%N 20); TThrowing [[128%N]] UnicodeError; TThrowing [repeat 65%N 30; abc] CodecError;
             TAppend 1 0 (repeat 120%N 20 ++ abc); TThrowing [] BadFormat; TDel 0; TDel 1] in
  wf_tops sstore0 ts /\ fst (run_tops 16 ts store0) = map expected_result ts.
Proof.
  vm_compute. repeat split; try discriminate; try reflexivity; intros; try lia;
  repeat match goal with k : nat |- _ => destruct k; try reflexivity; try lia end.
Qed.
