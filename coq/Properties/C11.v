(* Properties/C11.v — formatted output equals the specified rendering.
   Statements only; proofs in Fmt/DigitsFacts.v Utf8Sweep.v RenderProofs.v FieldProofs.v ShiftProofs.v
   ParseSpecProofs.v FetchSpecProofs.v WholeProofs.v.
   `returns w t tt` : the computation made exactly the writer calls t and returned;
   `bytes_of t` : the bytes those calls denote (the same for every narrow writer, C17).      *)
From Coq Require Import NArith ZArith List.
From ST Require Import Base.Outcome Num.Digits Fmt.Strtol Fmt.Parser Fmt.ParserProofs Fmt.DigitsFacts
  Fmt.Render Fmt.DriverProofs Fmt.Sinks Fmt.SinksProofs Fmt.RenderSpec Fmt.Utf8Sweep Fmt.RenderProofs Fmt.FieldProofs
  Fmt.ParseSpecProofs Fmt.FetchSpecProofs Fmt.WholeProofs.
From ST Require Fmt.LeafBridge Gen.Leaf.
Import ListNotations.
Local Open Scope N_scope.

(* render_model = render_spec, the whole format call: for every format string (no interior NUL,
   shorter than 2^64) and every argument list whose values their C++ types can hold, the
   transcribed driver (fetch_prefix / parse_format / apply_format / every format_type overload)
   satisfies the verdict of the specification:
     VBytes b : it returns, and the writer calls it made spell exactly b  — the format string
                with "{{" "}}" reduced, literals copied, each field replaced by the rendering of
                the argument the specification assigns to it;
     VFail .. : it does not return: bad_format only if some field is malformed, out_of_range only
                if some field's argument was not supplied, the documented assertion only if some
                supplied integral argument meets a padded character conversion. *)
Theorem render_model_eq_spec : forall (fmt : list N) (args : list arg),
  Forall (fun b => b <> 0) fmt -> Forall arg_range args ->
  N.of_nat (length fmt) < Base.Units.two64 -> N.of_nat (length args) < Base.Units.two64 ->
  satisfies (driver (Some fmt) args) (spec_format (Some fmt) args).
Proof. exact whole_render. Qed.
Print Assumptions render_model_eq_spec.

(* one field: every format_spec whose three numbers are ints (all combinations of alignment,
   pad, zero flag, '#', '+', radix / character class, width, precision) and every value of every
   argument type *)
Theorem render_field_equal : forall sp x, spec_ints sp -> arg_range x ->
  field_matches (format_type sp x) (render_field sp x).
Proof. exact field_render. Qed.
Print Assumptions render_field_equal.

(* the scanner: the transcribed specifier parser reads a field exactly as the specification *)
Theorem parse_equal : forall fmt, Forall (fun b => b <> 0) fmt -> forall m t, skipn m fmt = 123 :: t ->
  agree_parse fmt (field_spec (S (length t)) t default_spec) (parse_format (Strtol.cstr fmt) m).
Proof. exact parse_format_vs_spec. Qed.
Print Assumptions parse_equal.

(* the integers on their own: signed types (unsigned negation for the magnitude) ... *)
Theorem render_signed : forall bits sp v,
  is_char_class sp = false -> int_range (minimum_length sp) -> (bits <= 64)%nat ->
  (- 2 ^ Z.of_nat bits < v < 2 ^ Z.of_nat bits)%Z ->
  exists t, returns (format_numeric_s bits sp v) t tt /\ bytes_of t = render_int sp v.
Proof. exact numeric_s_render. Qed.
Print Assumptions render_signed.

(* ... and unsigned types *)
Theorem render_unsigned : forall bits sp v,
  is_char_class sp = false -> int_range (minimum_length sp) -> (bits <= 64)%nat ->
  v < 2 ^ N.of_nat bits ->
  exists t, returns (format_numeric_u bits sp v) t tt /\ bytes_of t = render_int sp (Z.of_N v).
Proof. exact numeric_u_render. Qed.
Print Assumptions render_unsigned.

(* digits_canonical: uint_formatter writes the representation without leading zeros of Num/Digits.v *)
Theorem digits_canonical : forall bits value radix upper,
  2 <= radix -> value < 2 ^ N.of_nat bits ->
  uint_format bits value radix upper = Ok (digits_text value radix upper).
Proof. exact uint_format_digits. Qed.
Print Assumptions digits_canonical.

(* buffer_fits: the backwards writer stays inside its `digits` cells and its fuel *)
Theorem buffer_fits : forall bits value radix upper,
  2 <= radix -> value < 2 ^ N.of_nat bits ->
  exists txt, uint_format bits value radix upper = Ok txt /\ (1 <= length txt <= Nat.max 1 bits)%nat.
Proof. exact uint_format_fits. Qed.
Print Assumptions buffer_fits.

(* never_truncates: length = max(width, natural length); the natural text is all there *)
Theorem never_truncates : forall sp v,
  Z.of_nat (length (render_int sp v)) =
  Z.max (minimum_length sp)
        (Z.of_nat (length (head_of sp v) +
                   length (digits_text (Z.abs_N v) (radix_spec (dclass sp)) (upper_spec (dclass sp))))).
Proof. exact render_int_length. Qed.
Print Assumptions never_truncates.

Theorem never_truncates_content : forall sp v, exists p1 p2 p3,
  render_int sp v = p1 ++ head_of sp v ++ p2
                    ++ digits_text (Z.abs_N v) (radix_spec (dclass sp)) (upper_spec (dclass sp)) ++ p3
  /\ Forall (fun c => c = spec_pad_char sp) (p1 ++ p2 ++ p3).
Proof. exact render_int_contains. Qed.
Print Assumptions never_truncates_content.

(* text: precision cut, then width, on the side the alignment says *)
Theorem render_text_equal : forall sp (text : list N),
  int_range (minimum_length sp) -> int_range (precision sp) -> (Z.of_nat (length text) < 2147483648)%Z ->
  exists t, returns (format_string sp text AlignLeft) t tt /\ bytes_of t = render_text sp text.
Proof. exact string_render. Qed.
Print Assumptions render_text_equal.

(* the character class: UTF-8 of the code point, U+FFFD outside 0..10FFFF (every 64-bit value) *)
Theorem render_char_equal : forall sp v, (-9223372036854775808 <= v < 18446744073709551616)%Z ->
  if padded sp then format_char sp (to_ull v) = ([], Abort AbCharPad)
  else returns (format_char sp (to_ull v)) [EApp (render_char v)] tt.
Proof. exact char_render. Qed.
Print Assumptions render_char_equal.

(* the shift/mask encoder equals the Unicode table on all 0x110000 code points (one sweep) *)
Theorem utf8_encoder_table : forall c, c <= 0x10FFFF -> write_utf8 c = utf8_enc c.
Proof. exact write_utf8_enc. Qed.
Print Assumptions utf8_encoder_table.

Example hypotheses_satisfiable :
  arg_range (AInt true 64 (-9223372036854775808)) /\ arg_range (AInt false 8 255) /\ arg_range (AChar (-23)) /\
  arg_range (AStr [65; 66]) /\ arg_range (AFloat (fun _ _ _ => [48])) /\ spec_ints default_spec.
Proof. exact arg_range_example. Qed.

Example verdicts_inhabited :
  spec_format (Some [123; 125]) [AInt true 32 (-5)] = VBytes [45; 53] /\
  spec_format (Some [97; 123; 123; 123; 35; 120; 125]) [AInt false 8 255] = VBytes [97; 123; 48; 120; 102; 102] /\
  spec_format (Some [123; 125; 123]) [AInt true 32 1; AInt true 32 2] = VFail true false false /\
  spec_format (Some [123; 38; 50; 125]) [AInt true 32 1] = VFail false true false.
Proof. exact verdict_examples. Qed.

(* ---- tie by translation: pad_size (how much padding a numeric field gets) is translated from the clang AST of the
   CURRENT headers into Gen/Leaf.v on every run (tools/leaf_translate.py); the model function used by every theorem
   above computes the same value for every format_spec, size and numeric type, the digit-class and numeric-type codes
   being the values the compiler gives the named constants ---- *)
Theorem pad_size_matches_source : forall spec size nt,
  (- 2 ^ 31 <= minimum_length spec < 2 ^ 31)%Z -> (Z.of_N size < 2 ^ 62)%Z ->
  ST.Gen.Leaf.src_pad_size (minimum_length spec) (ST.Gen.Leaf.b2z (always_signed spec)) (ST.Gen.Leaf.b2z (class_prefix spec))
    (ST.Fmt.LeafBridge.dcode (dclass spec)) (Z.of_N size) (ST.Fmt.LeafBridge.ncode nt)
  = Z.of_N (pad_size spec size nt).
Proof. exact ST.Fmt.LeafBridge.pad_size_matches_source. Qed.
Print Assumptions pad_size_matches_source.
