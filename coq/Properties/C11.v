From ST Require Import Base.Outcome Fmt.Parser Fmt.Render Fmt.Sinks Fmt.RenderSpec.
Theorem placeholder : True. Proof. exact I. Qed.
Print Assumptions placeholder.
