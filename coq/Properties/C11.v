(* Properties/C11.v — formatted output equals the specified rendering.
   Statements only; proofs in Fmt/DigitsFacts.v Utf8Sweep.v RenderProofs.v FieldProofs.v.
   `returns w t tt` : the computation made exactly the writer calls t and returned;
   `bytes_of t` : the bytes those calls denote (the same for every narrow writer, C17).      *)
From Coq Require Import NArith ZArith List.
From ST Require Import Base.Outcome Num.Digits Fmt.Strtol Fmt.Parser Fmt.ParserProofs Fmt.DigitsFacts
  Fmt.Render Fmt.DriverProofs Fmt.Sinks Fmt.SinksProofs Fmt.RenderSpec Fmt.Utf8Sweep Fmt.RenderProofs Fmt.FieldProofs.
Import ListNotations.
Local Open Scope N_scope.

(* FULL STATEMENT (render_model = render_spec for the whole format string):
     forall fmt args b, Forall arg_range args -> spec_format (Some fmt) args = VBytes b ->
       exists t, returns (driver (Some fmt) args) t tt /\ bytes_of t = b
   Proved below: the part that carries the arithmetic — EVERY FIELD, i.e. for every format_spec
   whose three numbers are ints (all combinations of alignment, pad, zero flag, '#', '+', radix
   / character class, width, precision) and every value of every argument type, the writer
   calls of the transcribed format_type overload spell exactly RenderSpec.render_field (or the
   documented assertion where the spec says so).  Missing: that the transcribed scanner
   (fetch_prefix / parse_format, index based) cuts the string into the same literals and
   fields as RenderSpec.scan and that apply_format assigns the same arguments as
   RenderSpec.assign; that part is tied by the correspondence run only (model = spec = code on
   every generated format string). *)
Theorem render_model_eq_spec_partial : forall sp x, spec_ints sp -> arg_range x ->
  field_matches (format_type sp x) (render_field sp x).
Proof. exact field_render. Qed.
Print Assumptions render_model_eq_spec_partial.

(* the integers on their own: signed types (unsigned negation for the magnitude) ... *)
Theorem render_signed : forall bits sp v,
  is_char_class sp = false -> int_range (minimum_length sp) -> (bits <= 64)%nat ->
  (- 2 ^ Z.of_nat bits < v < 2 ^ Z.of_nat bits)%Z ->
  exists t, returns (format_numeric_s bits sp v) t tt /\ bytes_of t = render_int sp v.
Proof. exact numeric_s_render. Qed.
Print Assumptions render_signed.

(* ... and unsigned types *)
Theorem render_unsigned : forall bits sp v,
  is_char_class sp = false -> int_range (minimum_length sp) -> (bits <= 64)%nat ->
  v < 2 ^ N.of_nat bits ->
  exists t, returns (format_numeric_u bits sp v) t tt /\ bytes_of t = render_int sp (Z.of_N v).
Proof. exact numeric_u_render. Qed.
Print Assumptions render_unsigned.

(* digits_canonical: uint_formatter writes the representation without leading zeros of Num/Digits.v *)
Theorem digits_canonical : forall bits value radix upper,
  2 <= radix -> value < 2 ^ N.of_nat bits ->
  uint_format bits value radix upper = Ok (digits_text value radix upper).
Proof. exact uint_format_digits. Qed.
Print Assumptions digits_canonical.

(* buffer_fits: the backwards writer stays inside its `digits` cells and its fuel *)
Theorem buffer_fits : forall bits value radix upper,
  2 <= radix -> value < 2 ^ N.of_nat bits ->
  exists txt, uint_format bits value radix upper = Ok txt /\ (1 <= length txt <= Nat.max 1 bits)%nat.
Proof. exact uint_format_fits. Qed.
Print Assumptions buffer_fits.

(* never_truncates: length = max(width, natural length); the natural text is all there *)
Theorem never_truncates : forall sp v,
  Z.of_nat (length (render_int sp v)) =
  Z.max (minimum_length sp)
        (Z.of_nat (length (head_of sp v) +
                   length (digits_text (Z.abs_N v) (radix_spec (dclass sp)) (upper_spec (dclass sp))))).
Proof. exact render_int_length. Qed.
Print Assumptions never_truncates.

Theorem never_truncates_content : forall sp v, exists p1 p2 p3,
  render_int sp v = p1 ++ head_of sp v ++ p2
                    ++ digits_text (Z.abs_N v) (radix_spec (dclass sp)) (upper_spec (dclass sp)) ++ p3
  /\ Forall (fun c => c = spec_pad_char sp) (p1 ++ p2 ++ p3).
Proof. exact render_int_contains. Qed.
Print Assumptions never_truncates_content.

(* text: precision cut, then width, on the side the alignment says *)
Theorem render_text_equal : forall sp (text : list N),
  int_range (minimum_length sp) -> int_range (precision sp) -> (Z.of_nat (length text) < 2147483648)%Z ->
  exists t, returns (format_string sp text AlignLeft) t tt /\ bytes_of t = render_text sp text.
Proof. exact string_render. Qed.
Print Assumptions render_text_equal.

(* the character class: UTF-8 of the code point, U+FFFD outside 0..10FFFF (every 64-bit value) *)
Theorem render_char_equal : forall sp v, (-9223372036854775808 <= v < 18446744073709551616)%Z ->
  if padded sp then format_char sp (to_ull v) = ([], Abort AbCharPad)
  else returns (format_char sp (to_ull v)) [EApp (render_char v)] tt.
Proof. exact char_render. Qed.
Print Assumptions render_char_equal.

(* the shift/mask encoder equals the Unicode table on all 0x110000 code points (one sweep) *)
Theorem utf8_encoder_table : forall c, c <= 0x10FFFF -> write_utf8 c = utf8_enc c.
Proof. exact write_utf8_enc. Qed.
Print Assumptions utf8_encoder_table.

Example hypotheses_satisfiable :
  arg_range (AInt true 64 (-9223372036854775808)) /\ arg_range (AInt false 8 255) /\ arg_range (AChar (-23)) /\
  arg_range (AStr [65; 66]) /\ arg_range (AFloat (fun _ _ _ => [48])) /\ spec_ints default_spec.
Proof. exact arg_range_example. Qed.
