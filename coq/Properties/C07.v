(* C07 — searching returns exactly the first / last occurrence.
   Statements only; proofs are in Str/FindProofs.v.  start / max are ANY N (in particular every
   size_t value); results are `Ok _`, so the models never read out of bounds (Fault OOBRead) and
   their fuel is sufficient (Fault Hang).  The needle array of a (pointer,length) / ST::string
   call is  n ++ tail  (tail = whatever follows: nothing, the terminator, a redzone).
   Case-insensitive routes: hypotheses say the units are bytes (units_ok CaseInsensitive).     *)
From Coq Require Import NArith ZArith List Bool.
From ST Require Import Base.Outcome Base.Units Str.Model Str.CompareSpec Str.CompareModel Str.CompareProofs
     Str.FindSpec Str.FindModel Str.FindProofs.
From ST Require Str.LeafBridge Str.LoopBridgeCompare Str.LoopBridgeFind Gen.Leaf.
Import ListNotations.
Local Open Scope N_scope.

(* the specification functions are what their names say *)
Theorem find_spec_is_least : forall ci h n start i,
  find_spec ci h n start = Some i <->
  n <> [] /\ (N.to_nat start <= i)%nat /\ start < N.of_nat (length h) /\
  occurs_at (case_map ci h) (case_map ci n) i /\
  (forall k, (N.to_nat start <= k < i)%nat -> ~ occurs_at (case_map ci h) (case_map ci n) k).
Proof. exact find_spec_least. Qed.
Print Assumptions find_spec_is_least.

Theorem find_spec_is_none : forall ci h n start,
  find_spec ci h n start = None <->
  n = [] \/ N.of_nat (length h) <= start \/
  (forall k, (N.to_nat start <= k)%nat -> ~ occurs_at (case_map ci h) (case_map ci n) k).
Proof. exact find_spec_none. Qed.
Print Assumptions find_spec_is_none.

Theorem find_last_spec_is_greatest : forall ci h n max i,
  find_last_spec ci h n max = Some i <->
  n <> [] /\ occurs_at (case_map ci h) (case_map ci n) i /\
  N.of_nat (i + length n) <= N.min max (N.of_nat (length h)) /\
  (forall k, (i < k)%nat -> N.of_nat (k + length n) <= N.min max (N.of_nat (length h)) ->
             ~ occurs_at (case_map ci h) (case_map ci n) k).
Proof. exact find_last_spec_greatest. Qed.
Print Assumptions find_last_spec_is_greatest.

(* find_model = find_spec, both case modes, every needle form *)
Theorem find_model_is_spec : forall cs s start n tn, units_ok cs s -> units_ok cs (n ++ tn) ->
  find_pn cs s start (Some (n ++ tn)) (len n) = Ok (idx (find_spec (ci_of cs) s n start)).
Proof. exact find_pn_spec. Qed.
Print Assumptions find_model_is_spec.

Theorem find_string_is_spec : forall cs s start sub, units_ok cs s -> units_ok cs sub ->
  find_s cs s start sub = Ok (idx (find_spec (ci_of cs) s sub start)).
Proof. exact find_s_spec. Qed.
Print Assumptions find_string_is_spec.

Theorem find_cstring_is_spec : forall cs s start z, units_ok cs s -> zarg_ok cs z ->
  find_z cs s start z = Ok (idx (find_spec (ci_of cs) s (zval z) start)).
Proof. exact find_z_spec. Qed.
Print Assumptions find_cstring_is_spec.

Theorem find_char_is_spec : forall cs s start ch,
  find_char cs s start ch = Ok (idx (find_spec (ci_of cs) s [ch] start)).
Proof. exact find_char_spec. Qed.
Print Assumptions find_char_is_spec.

Theorem find_null_needle : forall cs s start count, find_pn cs s start None count = Ok (-1)%Z.
Proof. exact find_pn_null. Qed.
Print Assumptions find_null_needle.

(* find_last_model = find_last_spec *)
Theorem find_last_model_is_spec : forall cs s max n tn, units_ok cs s -> units_ok cs (n ++ tn) ->
  find_last_pn cs s max (Some (n ++ tn)) (len n) = Ok (idx (find_last_spec (ci_of cs) s n max)).
Proof. exact find_last_pn_spec. Qed.
Print Assumptions find_last_model_is_spec.

Theorem find_last_string_is_spec : forall cs s max sub, units_ok cs s -> units_ok cs sub ->
  find_last_s cs s max sub = Ok (idx (find_last_spec (ci_of cs) s sub max)).
Proof. exact find_last_s_spec. Qed.
Print Assumptions find_last_string_is_spec.

Theorem find_last_cstring_is_spec : forall cs s max z, units_ok cs s -> zarg_ok cs z ->
  find_last_z cs s max z = Ok (idx (find_last_spec (ci_of cs) s (zval z) max)).
Proof. exact find_last_z_spec. Qed.
Print Assumptions find_last_cstring_is_spec.

Theorem find_last_char_is_spec : forall cs s max ch,
  find_last_char cs s max ch = Ok (idx (find_last_spec (ci_of cs) s [ch] max)).
Proof. exact find_last_char_spec. Qed.
Print Assumptions find_last_char_is_spec.

(* overloads_agree *)
Theorem overloads_agree : forall cs s start n tp tz,
  units_ok cs s -> units_ok cs (n ++ tp) -> units_ok cs (n ++ 0 :: tz) -> nul_free n ->
  exists r, r = Ok (idx (find_spec (ci_of cs) s n start)) /\
    find_pn cs s start (Some (n ++ tp)) (len n) = r /\
    find_s cs s start n = r /\
    find_z cs s start (Some (n ++ 0 :: tz)) = r /\
    (forall ch, n = [ch] -> find_char cs s start ch = r).
Proof. exact find_overloads_agree. Qed.
Print Assumptions overloads_agree.

Theorem overloads_agree_last : forall cs s max n tp tz,
  units_ok cs s -> units_ok cs (n ++ tp) -> units_ok cs (n ++ 0 :: tz) -> nul_free n ->
  exists r, r = Ok (idx (find_last_spec (ci_of cs) s n max)) /\
    find_last_pn cs s max (Some (n ++ tp)) (len n) = r /\
    find_last_s cs s max n = r /\
    find_last_z cs s max (Some (n ++ 0 :: tz)) = r /\
    (forall ch, n = [ch] -> find_last_char cs s max ch = r).
Proof. exact find_last_overloads_agree. Qed.
Print Assumptions overloads_agree_last.

(* contains = (0 <=? find) = "the needle occurs somewhere" *)
Theorem contains_is_find : forall cs s sub, units_ok cs s -> units_ok cs sub ->
  contains_s cs s sub = Ok (contains_spec (ci_of cs) s sub).
Proof. exact contains_s_spec. Qed.
Print Assumptions contains_is_find.

Theorem contains_pn_is_find : forall cs s n tn, units_ok cs s -> units_ok cs (n ++ tn) ->
  contains_pn cs s (Some (n ++ tn)) (len n) = Ok (contains_spec (ci_of cs) s n).
Proof. exact contains_pn_spec. Qed.
Print Assumptions contains_pn_is_find.

Theorem contains_cstring_is_find : forall cs s z, units_ok cs s -> zarg_ok cs z ->
  contains_z cs s z = Ok (contains_spec (ci_of cs) s (zval z)).
Proof. exact contains_z_spec. Qed.
Print Assumptions contains_cstring_is_find.

Theorem contains_char_is_find : forall cs s ch, contains_char cs s ch = Ok (contains_spec (ci_of cs) s [ch]).
Proof. exact contains_char_spec. Qed.
Print Assumptions contains_char_is_find.

Theorem contains_iff_occurs : forall ci h n,
  contains_spec ci h n = true <-> n <> [] /\ exists i, occurs_at (case_map ci h) (case_map ci n) i.
Proof. exact contains_spec_iff. Qed.
Print Assumptions contains_iff_occurs.

(* starts_with / ends_with *)
Theorem starts_with_is_prefix : forall cs s p, units_ok cs s -> units_ok cs p ->
  starts_with_s cs s p = Ok (starts_with_spec (ci_of cs) s p).
Proof. exact starts_with_s_spec. Qed.
Print Assumptions starts_with_is_prefix.

Theorem starts_with_cstring_is_prefix : forall cs s z, units_ok cs s -> zarg_ok cs z ->
  starts_with_z cs s z = Ok (starts_with_spec (ci_of cs) s (zval z)).
Proof. exact starts_with_z_spec. Qed.
Print Assumptions starts_with_cstring_is_prefix.

Theorem starts_with_iff : forall ci s p,
  starts_with_spec ci s p = true <-> firstn (length p) (case_map ci s) = case_map ci p.
Proof. exact starts_with_spec_iff. Qed.
Print Assumptions starts_with_iff.

Theorem ends_with_is_suffix : forall cs s p, units_ok cs s -> units_ok cs p ->
  ends_with_s cs s p = Ok (ends_with_spec (ci_of cs) s p).
Proof. exact ends_with_s_spec. Qed.
Print Assumptions ends_with_is_suffix.

Theorem ends_with_cstring_is_suffix : forall cs s z, units_ok cs s -> zarg_ok cs z ->
  ends_with_z cs s z = Ok (ends_with_spec (ci_of cs) s (zval z)).
Proof. exact ends_with_z_spec. Qed.
Print Assumptions ends_with_cstring_is_suffix.

Theorem ends_with_iff : forall ci s p,
  ends_with_spec ci s p = true <->
  (length p <= length s)%nat /\ skipn (length s - length p) (case_map ci s) = case_map ci p.
Proof. exact ends_with_spec_iff. Qed.
Print Assumptions ends_with_iff.

(* no_oob and fuel sufficiency: every front end yields Ok *)
Theorem no_oob_fuel_sufficient_find : forall cs s start n tn, units_ok cs s -> units_ok cs (n ++ tn) ->
  is_ok (find_pn cs s start (Some (n ++ tn)) (len n)) = true /\ is_ok (find_char cs s start 0) = true.
Proof. exact find_total. Qed.
Print Assumptions no_oob_fuel_sufficient_find.

Theorem no_oob_fuel_sufficient_find_last : forall cs s max n tn, units_ok cs s -> units_ok cs (n ++ tn) ->
  is_ok (find_last_pn cs s max (Some (n ++ tn)) (len n)) = true /\ is_ok (find_last_char cs s max 0) = true.
Proof. exact find_last_total. Qed.
Print Assumptions no_oob_fuel_sufficient_find_last.

(* the primitive loops shared with C08/C09 (split, replace): first match in [cp, ep) *)
Theorem find_sub_is_first : forall cs h needle nsize start size,
  units_ok cs h -> units_ok cs needle ->
  (1 <= nsize)%nat -> (nsize <= length needle)%nat -> (start + size <= length h)%nat ->
  find_sub cs h start size needle nsize
  = Ok (first_from (subP cs h needle nsize (start + size)) start size).
Proof. exact find_sub_spec. Qed.
Print Assumptions find_sub_is_first.

Theorem find_ch_is_first : forall cs h ch size cp, (cp + size <= length h)%nat ->
  find_ch cs h cp size ch = Ok (first_from (hit_at cs h ch) cp size).
Proof. exact find_ch_spec. Qed.
Print Assumptions find_ch_is_first.

(* non-vacuity (hypotheses shared with C06) and a self-overlapping example *)
Theorem hypotheses_inhabited :
  (units_ok CaseInsensitive [0; 65; 97; 128; 255] /\ units_ok CaseSensitive [70000]) /\
  (zarg_ok CaseInsensitive (Some [97; 0; 98]) /\ zarg_ok CaseSensitive None) /\ nul_free [97; 255].
Proof. exact (conj units_ok_inhabited (conj zarg_ok_inhabited nul_free_inhabited)). Qed.
Print Assumptions hypotheses_inhabited.

Theorem self_overlap_example :
  find_s CaseSensitive [97; 97; 97; 98] 0 [97; 97; 98] = Ok 1%Z /\
  find_last_s CaseInsensitive [97; 65; 97; 97] 3 [97; 97] = Ok 1%Z /\
  find_last_s CaseInsensitive [97; 65; 97; 97] 18446744073709551615 [97; 97] = Ok 2%Z.
Proof. exact find_examples. Qed.
Print Assumptions self_overlap_example.

(* ---- tie by translation: the leaf functions below are translated from the clang AST of the CURRENT headers into
   Gen/Leaf.v on every run (tools/leaf_translate.py: C++ integer semantics written out over Z); the hand-written
   model functions used by every theorem above compute the same values, so an edit to one of these functions in the
   headers breaks this obligation whatever the test generators do ---- *)
Theorem case_folding_matches_source : forall c, c < 256 ->
  ST.Str.LeafBridge.uchar (ST.Gen.Leaf.src_cl_fast_lower (ST.Str.LeafBridge.schar c)) = cl_fast_lower c.
Proof. exact ST.Str.LeafBridge.cl_fast_lower_matches_source. Qed.
Print Assumptions case_folding_matches_source.

(* ---- tie by translation, loops: the two case-insensitive search loops of st_string_priv.h, find_ci(haystack, size, ch)
   and find_ci(haystack, size, needle, needle_size) (a for(;;) loop calling the character search and compare_ci), are
   translated from the CURRENT headers into Gen/Leaf.v; on byte arrays of any length, with enough fuel, they return the
   index (nullptr: -1) that the model functions find_ch / find_sub of every theorem above return ---- *)
Theorem ci_find_char_loop_matches_source : forall h size ch fuel,
  ST.Str.LoopBridgeCompare.bytes h -> ch < 256 -> (size <= length h)%nat -> (size < fuel)%nat ->
  exists r, find_ch CaseInsensitive h 0 size ch = Ok r /\
            ST.Gen.Leaf.src_find_ci fuel (ST.Str.LoopBridgeCompare.arr h) (Z.of_nat size) (ST.Base.Units.schar ch)
              = Some (ST.Str.LoopBridgeCompare.enc_ptr r).
Proof. exact ST.Str.LoopBridgeFind.find_ci_matches_source. Qed.
Print Assumptions ci_find_char_loop_matches_source.

Theorem ci_find_loop_matches_source : forall h size needle nsize fuel,
  ST.Str.LoopBridgeCompare.bytes h -> ST.Str.LoopBridgeCompare.bytes needle ->
  (1 <= length needle)%nat -> (nsize <= length needle)%nat -> (size <= length h)%nat ->
  (Z.of_nat (length h) < 9223372036854775808)%Z -> (Z.of_nat nsize < 18446744073709551616)%Z ->
  (size + size + nsize + 1 < fuel)%nat ->
  exists r, find_sub CaseInsensitive h 0 size needle nsize = Ok r /\
            ST.Gen.Leaf.src_find_ci_sub fuel (ST.Str.LoopBridgeCompare.arr h) (Z.of_nat size) (ST.Str.LoopBridgeCompare.arr needle)
              (Z.of_nat nsize) = Some (ST.Str.LoopBridgeCompare.enc_ptr r).
Proof. exact ST.Str.LoopBridgeFind.find_ci_sub_matches_source. Qed.
Print Assumptions ci_find_loop_matches_source.
