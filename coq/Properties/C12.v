(* Properties/C12.v — integer <-> text is exact for every value, width and base.  STATEMENTS ONLY.
   Widths: `bits` is numeric_limits<uint_T>::digits (8, 16, 32, 64 — the theorems hold for every
   bits >= 1); signed values are Z with in_range_s, unsigned values N with in_range_u.
   Trusted: Num/Strtol.v is a model of the C library's strtol family written from the C standard and
   validated against glibc on every run (op strtol_ref); round_trip and flags_spec are relative to it. *)
From Coq Require Import NArith ZArith List Bool.
From ST Require Import Base.Outcome Num.Digits Num.DigitsProofs Num.Strtol Num.IntText Num.IntTextProofs.
Import ListNotations.
Local Open Scope N_scope.

(* ---- the digit generator: canonical digits, inside its buffer, terminates *)
Theorem digit_writer_canonical : forall bits v radix up,
  2 <= radix -> v < 2 ^ N.of_nat bits ->
  uint_format bits v radix up = Ok (digits_text v radix up).
Proof. exact uint_format_ok. Qed.
Print Assumptions digit_writer_canonical.

Theorem digits_denote_value : forall v b, 2 <= b -> value_of (digits_of v b) b = v.
Proof. exact digits_value. Qed.
Print Assumptions digits_denote_value.

Theorem digits_are_canonical : forall v b, 2 <= b -> canonical (digits_of v b) b.
Proof. exact digits_canonical. Qed.
Print Assumptions digits_are_canonical.

Theorem digits_are_unique : forall b, 2 <= b -> forall ds v,
  canonical ds b -> value_of ds b = v -> ds = digits_of v b.
Proof. exact digits_unique. Qed.
Print Assumptions digits_are_unique.

(* ---- print_canonical: from_int / from_uint, every width, every base >= 2 (so 2..36), both cases *)
Theorem print_canonical : forall bits v b up,
  (1 <= bits)%nat -> in_range_s bits v -> 2 <= b ->
  from_int bits v b up = Ok (int_text v b up).
Proof. exact from_int_canonical. Qed.
Print Assumptions print_canonical.

Theorem print_canonical_unsigned : forall bits v b up,
  in_range_u bits v -> 2 <= b ->
  from_uint bits v b up = Ok (digits_text v b up).
Proof. exact from_uint_canonical. Qed.
Print Assumptions print_canonical_unsigned.

(* ---- printers_agree: ST::format (x X o b d default) and string_stream (decimal) give from_int's text *)
Theorem printers_agree : forall bits c v,
  (1 <= bits)%nat -> in_range_s bits v ->
  format_numeric_s bits c v = from_int bits v (fst (radix_of c)) (snd (radix_of c)) /\
  (fst (radix_of c) = 10 -> stream_signed bits v = from_int bits v 10 false).
Proof. exact printers_agree_s. Qed.
Print Assumptions printers_agree.

Theorem printers_agree_unsigned : forall bits c v,
  in_range_u bits v ->
  format_numeric_u bits c v = from_uint bits v (fst (radix_of c)) (snd (radix_of c)) /\
  (fst (radix_of c) = 10 -> stream_unsigned bits v = from_uint bits v 10 false).
Proof. exact printers_agree_u. Qed.
Print Assumptions printers_agree_unsigned.

(* ---- no_ub: no Fault (UB, out-of-bounds, hang) and no abort/throw in any of the three printers *)
Theorem no_ub : forall bits c v b up,
  (1 <= bits)%nat -> in_range_s bits v -> 2 <= b ->
  is_ok (from_int bits v b up) = true /\ is_ok (format_numeric_s bits c v) = true /\
  is_ok (stream_signed bits v) = true.
Proof. exact printers_no_fault_s. Qed.
Print Assumptions no_ub.

(* the hypotheses are satisfiable at the hard point: the most negative value of every width *)
Theorem minimum_in_range : forall bits, (1 <= bits)%nat -> in_range_s bits (- 2 ^ (Z.of_nat bits - 1)).
Proof. exact min_in_range. Qed.
Print Assumptions minimum_in_range.

Example llong_min_base10 :
  from_int 64 (-9223372036854775808) 10 false
  = Ok [45; 57; 50; 50; 51; 51; 55; 50; 48; 51; 54; 56; 53; 52; 55; 55; 53; 56; 48; 56].
Proof. vm_compute. reflexivity. Qed.
Example int_min_stream :
  stream_signed 32 (-2147483648) = Ok [45; 50; 49; 52; 55; 52; 56; 51; 54; 52; 56].
Proof. vm_compute. reflexivity. Qed.
Example short_min_hex_upper : format_numeric_s 16 DcHexUpper (-32768) = Ok [45; 56; 48; 48; 48].
Proof. vm_compute. reflexivity. Qed.

(* ---- round_trip: the reader of any type at least as wide returns the value, ok and full_match *)
Theorem round_trip : forall sbits tbits v b up,
  (1 <= sbits <= tbits)%nat -> (tbits <= 64)%nat -> in_range_s sbits v -> 2 <= b -> b <= 36 ->
  to_signed tbits (int_text v b up) b = (v, true, true).
Proof. exact round_trip_s. Qed.
Print Assumptions round_trip.

Theorem round_trip_unsigned : forall sbits tbits v b up,
  (sbits <= tbits)%nat -> (tbits <= 64)%nat -> in_range_u sbits v -> 2 <= b -> b <= 36 ->
  to_unsigned tbits (digits_text v b up) b = (v, true, true).
Proof. exact round_trip_u. Qed.
Print Assumptions round_trip_unsigned.

Example round_trip_llong_min_base2 :
  to_signed 64 (int_text (-9223372036854775808) 2 false) 2 = (-9223372036854775808, true, true)%Z.
Proof. vm_compute. reflexivity. Qed.
Example round_trip_hex_no_prefix_confusion :     (* "0" in base 16 is not the start of a 0x prefix *)
  to_unsigned 16 (digits_text 0 16 true) 16 = (0, true, true).
Proof. vm_compute. reflexivity. Qed.

(* ---- flags_spec: on ANY text the to_* members return the C library's value on the C string the
        text denotes (narrowed), ok <-> something consumed, full_match <-> everything consumed *)
Theorem flags_spec : forall bits text base,
  to_signed bits text base = to_signed_spec bits text base.
Proof. exact to_signed_flags_spec. Qed.
Print Assumptions flags_spec.

Theorem flags_spec_unsigned : forall bits text base,
  to_unsigned bits text base = to_unsigned_spec bits text base.
Proof. exact to_unsigned_flags_spec. Qed.
Print Assumptions flags_spec_unsigned.

Theorem empty_is_full_match_without_ok : forall bits base,
  to_signed bits [] base = (0%Z, false, true) /\ to_unsigned bits [] base = (0, false, true).
Proof. exact (fun bits base => conj (to_signed_empty bits base) (to_unsigned_empty bits base)). Qed.
Print Assumptions empty_is_full_match_without_ok.

Theorem plain_overloads_same_value : forall bits text base,
  to_signed_plain bits text base = fst (fst (to_signed bits text base)) /\
  to_unsigned_plain bits text base = fst (fst (to_unsigned bits text base)).
Proof. exact (fun bits text base => conj (to_signed_plain_value bits text base) (to_unsigned_plain_value bits text base)). Qed.
Print Assumptions plain_overloads_same_value.

(* the parse never ends beyond the text (so never beyond c_str()'s terminator), and the
   terminator / an embedded NUL stops it *)
Theorem parse_ends_inside : forall s base neg mag e,
  strto_parse s base = Some (neg, mag, e) -> (0 < e <= length s)%nat.
Proof. exact strto_parse_end. Qed.
Print Assumptions parse_ends_inside.

Theorem parse_stops_at_terminator : forall text base,
  strto_parse (text ++ [0]) base = strto_parse (upto_nul text) base.
Proof. exact strto_parse_cstr. Qed.
Print Assumptions parse_stops_at_terminator.

Example flags_junk_after_number :     (* "12x" base 10 -> 12, ok, not full *)
  to_signed 32 [49; 50; 120] 10 = (12%Z, true, false).
Proof. vm_compute. reflexivity. Qed.
Example flags_embedded_nul :          (* "7\0" 7 -> 7, ok, not full *)
  to_signed 32 [55; 0; 55] 10 = (7%Z, true, false).
Proof. vm_compute. reflexivity. Qed.
Example flags_narrowing :             (* to_short("65537") = 1 *)
  to_signed 16 [54; 53; 53; 51; 55] 10 = (1%Z, true, true).
Proof. vm_compute. reflexivity. Qed.
Example flags_saturation :            (* strtol saturates, then to_int narrows LONG_MAX to -1 *)
  to_signed 32 [57;57;57;57;57;57;57;57;57;57;57;57;57;57;57;57;57;57;57;57] 10 = ((-1)%Z, true, true).
Proof. vm_compute. reflexivity. Qed.
