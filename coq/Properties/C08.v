(* Properties/C08.v — slicing returns the clamped byte range for every position, count and separator.
   Statements only; proofs in Str/SliceProofs*.v.  Strings are list N; `fits s` = size s < 2^63 - 1
   (a buffer of size + 1 bytes exists); `bytes_ok` = every unit < 256; start ranges over ALL of
   ssize_t, count / n over ALL of size_t.  Every model equals `Ok spec`, hence in particular never
   Fault OOBRead / AllocTooBig / Hang and never Abort (no_oob, no oversized allocation).         *)
From Coq Require Import NArith ZArith List Bool.
From ST Require Import Base.Outcome Base.Units Str.Model Str.SliceSpec Str.SliceModel
     Str.SliceProofsBase Str.SliceProofsArith Str.SliceProofsTrim Str.SliceProofsFind Str.SliceProofsFront
     Str.SliceProofsBA Str.SliceExamples.
Import ListNotations.
Local Open Scope N_scope.

(* ---- substr / left / right: all start, all count ---- *)
Theorem substr_is_spec s (start : Z) (count : N) :
  fits s -> ssize_range start -> count < two64 ->
  substr_model s start count = Ok (substr_spec s start count).
Proof. exact (substr_model_spec s start count). Qed.
Print Assumptions substr_is_spec.

Theorem substr_length s start count :
  length (substr_spec s start count) =
  Z.to_nat (slice_end (Z.of_nat (length s)) (slice_begin (Z.of_nat (length s)) start) count
            - slice_begin (Z.of_nat (length s)) start).
Proof. exact (substr_spec_length s start count). Qed.
Print Assumptions substr_length.

Theorem left_is_spec s (n : N) : fits s -> n < two64 -> left_model s n = Ok (left_spec s n).
Proof. exact (left_model_spec s n). Qed.
Print Assumptions left_is_spec.

Theorem right_is_spec s (n : N) : fits s -> n < two64 -> right_model s n = Ok (right_spec s n).
Proof. exact (right_model_spec s n). Qed.
Print Assumptions right_is_spec.

Theorem substr_no_fault s start count :
  fits s -> ssize_range start -> count < two64 -> safe (substr_model s start count).
Proof. exact (substr_safe s start count). Qed.
Print Assumptions substr_no_fault.

Example substr_hypotheses_satisfiable :
  fits abcd /\ ssize_range (-2)%Z /\ ssize_range (- Z.of_N two63)%Z /\ size_max - 1 < two64.
Proof. exact ex_hyps_substr. Qed.
Example substr_near_size_max : substr_model abcd 2%Z (size_max - 1) = Ok [99; 100].
Proof. exact ex_substr_near_max. Qed.
Example right_between_size_and_twice : right_model abcd 6 = Ok abcd.
Proof. exact ex_right_between. Qed.

(* ---- trim: charset is the C-string array (bytes, NUL, anything behind it) ---- *)
Theorem trim_left_is_spec s charset k : fits s -> c_strlen charset = Ok k ->
  trim_left_model s charset = Ok (trim_left_spec s (c_content charset)).
Proof. exact (trim_left_model_spec s charset k). Qed.
Print Assumptions trim_left_is_spec.

Theorem trim_right_is_spec s charset k : fits s -> c_strlen charset = Ok k ->
  trim_right_model s charset = Ok (trim_right_spec s (c_content charset)).
Proof. exact (trim_right_model_spec s charset k). Qed.
Print Assumptions trim_right_is_spec.

Theorem trim_is_spec s charset k : fits s -> c_strlen charset = Ok k ->
  trim_model s charset = Ok (trim_spec s (c_content charset)).
Proof. exact (trim_model_spec s charset k). Qed.
Print Assumptions trim_is_spec.

Example trim_with_embedded_nul :
  trim_model [32; 0; 65; 32; 0; 32] [32; 9; 0; 65] = Ok [0; 65; 32; 0] /\ c_strlen [32; 9; 0; 65] = Ok 2%nat.
Proof. exact ex_trim. Qed.

(* ---- the position functions of the spec are the least / greatest occurrence ---- *)
Theorem first_occ_is_least ci sep h i : sep <> [] ->
  (first_occ ci sep h = Some i <-> occurs_at ci h sep i /\ forall j, (j < i)%nat -> ~ occurs_at ci h sep j).
Proof. exact (first_occ_least ci sep h i). Qed.
Print Assumptions first_occ_is_least.

Theorem last_occ_is_greatest ci sep h i : sep <> [] ->
  (last_occ ci sep h = Some i <-> occurs_at ci h sep i /\ forall j, (i < j)%nat -> ~ occurs_at ci h sep j).
Proof. exact (last_occ_greatest ci sep h i). Qed.
Print Assumptions last_occ_is_greatest.

Theorem no_occurrence ci sep h :
  (first_occ ci sep h = None <-> sep = [] \/ forall j, ~ occurs_at ci h sep j) /\
  (last_occ ci sep h = None <-> sep = [] \/ forall j, ~ occurs_at ci h sep j).
Proof. exact (conj (first_occ_absent ci sep h) (last_occ_absent ci sep h)). Qed.
Print Assumptions no_occurrence.

(* ---- before / after: twelve overloads (the char8_t forms are reinterpret_casts of the const char* ones) ---- *)
Theorem before_first_string cs s sep : fits s -> bytes_ok s = true -> bytes_ok sep = true ->
  before_first_s cs s sep = Ok (before_first_spec (ci_of cs) s sep).
Proof. exact (before_first_s_spec cs s sep). Qed.
Print Assumptions before_first_string.
Theorem after_first_string cs s sep : fits s -> bytes_ok s = true -> bytes_ok sep = true ->
  after_first_s cs s sep = Ok (after_first_spec (ci_of cs) s sep).
Proof. exact (after_first_s_spec cs s sep). Qed.
Print Assumptions after_first_string.
Theorem before_last_string cs s sep : fits s -> bytes_ok s = true -> bytes_ok sep = true ->
  before_last_s cs s sep = Ok (before_last_spec (ci_of cs) s sep).
Proof. exact (before_last_s_spec cs s sep). Qed.
Print Assumptions before_last_string.
Theorem after_last_string cs s sep : fits s -> bytes_ok s = true -> bytes_ok sep = true ->
  after_last_s cs s sep = Ok (after_last_spec (ci_of cs) s sep).
Proof. exact (after_last_s_spec cs s sep). Qed.
Print Assumptions after_last_string.

Theorem before_first_char cs s ch : fits s -> before_first_c cs s ch = Ok (before_first_spec (ci_of cs) s [ch]).
Proof. exact (before_first_c_spec cs s ch). Qed.
Print Assumptions before_first_char.
Theorem after_first_char cs s ch : fits s -> after_first_c cs s ch = Ok (after_first_spec (ci_of cs) s [ch]).
Proof. exact (after_first_c_spec cs s ch). Qed.
Print Assumptions after_first_char.
Theorem before_last_char cs s ch : fits s -> before_last_c cs s ch = Ok (before_last_spec (ci_of cs) s [ch]).
Proof. exact (before_last_c_spec cs s ch). Qed.
Print Assumptions before_last_char.
Theorem after_last_char cs s ch : fits s -> after_last_c cs s ch = Ok (after_last_spec (ci_of cs) s [ch]).
Proof. exact (after_last_c_spec cs s ch). Qed.
Print Assumptions after_last_char.

(* p : nullptr or an array with a NUL in it; it denotes the bytes before the first NUL *)
Theorem before_first_cstr cs s p : fits s -> bytes_ok s = true -> cstr_arg_ok p ->
  before_first_z cs s p = Ok (before_first_spec (ci_of cs) s (cstr_arg_content p)).
Proof. exact (before_first_z_spec cs s p). Qed.
Print Assumptions before_first_cstr.
Theorem after_first_cstr cs s p : fits s -> bytes_ok s = true -> cstr_arg_ok p ->
  after_first_z cs s p = Ok (after_first_spec (ci_of cs) s (cstr_arg_content p)).
Proof. exact (after_first_z_spec cs s p). Qed.
Print Assumptions after_first_cstr.
Theorem before_last_cstr cs s p : fits s -> bytes_ok s = true -> cstr_arg_ok p ->
  before_last_z cs s p = Ok (before_last_spec (ci_of cs) s (cstr_arg_content p)).
Proof. exact (before_last_z_spec cs s p). Qed.
Print Assumptions before_last_cstr.
Theorem after_last_cstr cs s p : fits s -> bytes_ok s = true -> cstr_arg_ok p ->
  after_last_z cs s p = Ok (after_last_spec (ci_of cs) s (cstr_arg_content p)).
Proof. exact (after_last_z_spec cs s p). Qed.
Print Assumptions after_last_cstr.

Example separator_hypotheses_satisfiable :
  bytes_ok a__b__c = true /\ bytes_ok dashes = true /\ ~ In 0 dashes /\
  cstr_arg_ok (Some (dashes ++ [0])) /\ first_occ false dashes a__b__c = Some 1%nat /\
  last_occ false dashes a__b__c = Some 4%nat.
Proof. exact ex_hyps_sep. Qed.
Example after_first_skips_the_separator : after_first_s CaseSensitive a__b__c dashes = Ok [98; 45; 45; 99].
Proof. exact ex_after_first_s. Qed.

(* ---- reassemble: before ++ occurrence ++ after = original ---- *)
Theorem reassemble_at_first ci h sep i : first_occ ci sep h = Some i ->
  before_first_spec ci h sep ++ occurrence h sep i ++ after_first_spec ci h sep = h /\
  map (fold_c ci) (occurrence h sep i) = map (fold_c ci) sep.
Proof. exact (reassemble_first ci h sep i). Qed.
Print Assumptions reassemble_at_first.
Theorem reassemble_at_last ci h sep i : last_occ ci sep h = Some i ->
  before_last_spec ci h sep ++ occurrence h sep i ++ after_last_spec ci h sep = h /\
  map (fold_c ci) (occurrence h sep i) = map (fold_c ci) sep.
Proof. exact (reassemble_last ci h sep i). Qed.
Print Assumptions reassemble_at_last.
Theorem reassemble_case_sensitive h sep :
  (forall i, first_occ false sep h = Some i -> before_first_spec false h sep ++ sep ++ after_first_spec false h sep = h) /\
  (forall i, last_occ false sep h = Some i -> before_last_spec false h sep ++ sep ++ after_last_spec false h sep = h).
Proof. exact (conj (reassemble_first_cs h sep) (reassemble_last_cs h sep)). Qed.
Print Assumptions reassemble_case_sensitive.
Theorem separator_absent ci h sep : first_occ ci sep h = None ->
  before_first_spec ci h sep = h /\ after_first_spec ci h sep = [] /\
  before_last_spec ci h sep = [] /\ after_last_spec ci h sep = h.
Proof. exact (not_found_clauses ci h sep). Qed.
Print Assumptions separator_absent.

(* ---- the char, const char* and ST::string forms give identical results ---- *)
Theorem overloads_agree_cstr_string cs s sep :
  fits s -> bytes_ok s = true -> bytes_ok sep = true -> ~ In 0 sep ->
  before_first_z cs s (Some (sep ++ [0])) = before_first_s cs s sep /\
  after_first_z cs s (Some (sep ++ [0])) = after_first_s cs s sep /\
  before_last_z cs s (Some (sep ++ [0])) = before_last_s cs s sep /\
  after_last_z cs s (Some (sep ++ [0])) = after_last_s cs s sep.
Proof. exact (overloads_agree_z_s cs s sep). Qed.
Print Assumptions overloads_agree_cstr_string.
Theorem overloads_agree_char_string cs s ch :
  fits s -> bytes_ok s = true -> ch < 256 ->
  before_first_c cs s ch = before_first_s cs s [ch] /\
  after_first_c cs s ch = after_first_s cs s [ch] /\
  before_last_c cs s ch = before_last_s cs s [ch] /\
  after_last_c cs s ch = after_last_s cs s [ch].
Proof. exact (overloads_agree_c_s cs s ch). Qed.
Print Assumptions overloads_agree_char_string.
