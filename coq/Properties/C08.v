From ST Require Import Base.Outcome Str.SliceSpec Str.SliceModel Str.SplitSpec Str.SplitModel.
Theorem placeholder : True. Proof. exact I. Qed.
Print Assumptions placeholder.
