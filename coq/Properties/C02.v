(* Properties/C02.v — C02: validation modes accept, reject and repair malformed input.
   Statements only.  The specification is Utf/Tokens.v: ONE tolerant left-to-right tokeniser
   per source encoding (`tok e s`; overlong forms, encoded surrogates, 4-byte forms up to
   0x1FFFFF and low+high surrogate pairs are Good; a stray continuation byte, a lead byte
   without its continuation bytes, F8..FF, an unpaired surrogate, a UTF-32 value above
   0x10FFFF are Bad, one unit each), `WF e s` = no Bad token, `spec_conv` = the reference
   result under a mode.  `conv_fn e tg = Some f` ranges over EVERY validating conversion:
   UTF-8 -> ST::string / UTF-16 / UTF-32 / Latin-1, UTF-16 -> UTF-8 / UTF-32 / Latin-1,
   UTF-32 -> UTF-8 / UTF-16 / Latin-1 (wchar_t routes are aliases of these on this platform,
   except the two same-width copies: see wchar_copy_ignores_mode_refuted).
   `can_show tg sub t`: the target can represent the value of token t (always for UTF-32 and
   ST::string targets, for UTF-16/UTF-32 sources, and for Latin-1 with the flag set).      *)
From Coq Require Import NArith ZArith List Bool.
From ST Require Import Base.Outcome Base.Units Utf.Spec Utf.Tokens Utf.Model Utf.ProofsGeneric Utf.ProofsC01 Utf.ProofsC02 Utf.ApiCoverage.
From ST Require Utf.LeafBridge Gen.Leaf.
From ST Require Utf.LoopBridge Utf.LoopBridgeValidate Utf.LoopBridgeExtract Utf.LoopBridgeWrite Utf.LoopBridgeConvert32 Utf.LoopBridgeConvertTo32 Utf.LoopBridgeConvert8To16 Utf.LoopBridgeLatin1 Utf.LoopBridgeCleanup.
Import ListNotations.
Local Open Scope N_scope.

(* the code computes the specification's reference result: every pair, every mode, every input *)
Theorem model_refines_spec : forall e tg f m sub s,
  conv_fn e tg = Some f -> all_lt (unit_bound e) s = true -> fits s ->
  refines (f m sub (Some s)) (spec_conv e tg m sub s).
Proof. exact conv_refines_spec. Qed.
Print Assumptions model_refines_spec.

(* validate_iff: the structural validator accepts exactly the well-formed byte strings *)
Theorem validate_iff : forall b, all_lt 256 b = true -> (validate_utf8 b = Ok CSuccess <-> WF8 b = true).
Proof. exact ProofsC02.validate_iff. Qed.
Print Assumptions validate_iff.

(* check_validity throws ST::unicode_error exactly when some unit is Bad *)
Theorem check_validity_throws_iff : forall e tg f, conv_fn e tg = Some f ->
  forall sub s, all_lt (unit_bound e) s = true -> fits s -> forallb (can_show tg sub) (tok e s) = true ->
  (f CheckValidity sub (Some s) = Throw UnicodeError <-> WF e s = false).
Proof. exact check_throws_iff. Qed.
Print Assumptions check_validity_throws_iff.

(* where `can_show` holds for every input *)
Theorem can_show_holds : forall e tg sub s, all_lt (unit_bound e) s = true ->
  (tg = TS \/ tg = T32 \/ (tg = TL1 /\ sub = true) \/ ((e = E16 \/ e = E32) /\ (tg = T8 \/ tg = T16))) ->
  forallb (can_show tg sub) (tok e s) = true.
Proof. exact can_show_always. Qed.
Print Assumptions can_show_holds.

(* deciders_agree: the three independent UTF-8 deciders (validate_utf8 behind ST::string,
   extract_utf8 inside the UTF-32 / wchar_t / Latin-1 / UTF-16 converters) reject the same inputs *)
Theorem deciders_agree : forall b, all_lt 256 b = true -> fits b ->
  (set_utf8 CheckValidity (Some b) = Throw UnicodeError <-> WF8 b = false) /\
  (utf8_to_utf32 CheckValidity (Some b) = Throw UnicodeError <-> WF8 b = false) /\
  (utf8_to_wchar CheckValidity (Some b) = Throw UnicodeError <-> WF8 b = false) /\
  (utf8_to_latin_1 CheckValidity true (Some b) = Throw UnicodeError <-> WF8 b = false) /\
  (forallb (can_show T16 false) (tok8 b) = true ->
   (utf8_to_utf16 CheckValidity (Some b) = Throw UnicodeError <-> WF8 b = false)).
Proof. exact ProofsC02.deciders_agree. Qed.
Print Assumptions deciders_agree.

(* repair_total: a mode other than check_validity never throws (Latin-1: with the flag set) *)
Theorem repair_total : forall e tg f, conv_fn e tg = Some f ->
  forall m sub s, all_lt (unit_bound e) s = true -> fits s -> m <> CheckValidity -> (tg <> TL1 \/ sub = true) ->
  exists out, f m sub (Some s) = Ok out.
Proof. exact lenient_never_throws. Qed.
Print Assumptions repair_total.

(* repair_exact: substitute_invalid = everything else transcoded, U+FFFD ('?') for each Bad unit *)
Theorem repair_exact : forall e tg f, conv_fn e tg = Some f ->
  forall sub s, all_lt (unit_bound e) s = true -> fits s -> (tg <> TL1 \/ sub = true) ->
  f SubstituteInvalid sub (Some s) = Ok (flat_map (repair_units tg) (tok e s)).
Proof. exact substitute_exact. Qed.
Print Assumptions repair_exact.

(* repair_revalid: repaired output passes check_validity *)
Theorem repair_revalid_string : forall b, all_lt 256 b = true ->
  exists out, string_set SubstituteInvalid b = Ok out /\ WF8 out = true /\ all_lt 256 out = true.
Proof. exact repaired_string_revalidates. Qed.
Print Assumptions repair_revalid_string.
Theorem repair_revalid_utf8 : forall e f s, conv_fn e T8 = Some f -> all_lt (unit_bound e) s = true -> fits s ->
  exists out, f SubstituteInvalid false (Some s) = Ok out /\ WF8 out = true.
Proof. exact repaired_utf8_revalidates. Qed.
Print Assumptions repair_revalid_utf8.
Theorem repair_revalid_utf16 : forall b, all_lt 256 b = true -> fits b -> scalars (values (tok8 b)) = true ->
  exists out, utf8_to_utf16 SubstituteInvalid (Some b) = Ok out /\ WF16 out = true.
Proof. exact repaired_utf16_revalidates. Qed.
Print Assumptions repair_revalid_utf16.
Theorem repair_revalid_utf32 : forall b, all_lt 256 b = true -> fits b -> scalars (values (tok8 b)) = true ->
  exists out, utf8_to_utf32 SubstituteInvalid (Some b) = Ok out /\ WF32 out = true.
Proof. exact repaired_utf32_revalidates. Qed.
Print Assumptions repair_revalid_utf32.
(* why the last two carry a hypothesis: a tolerated form whose value the target cannot represent
   (ED A0 80 -> D800, F4 90 80 80 -> 110000) is copied — the property's own carve-out *)
Theorem revalid16_refuted : exists b, all_lt 256 b = true /\ WF8 b = true /\
  utf8_to_utf16 SubstituteInvalid (Some b) = Ok [0xD800] /\ WF16 [0xD800] = false.
Proof. exact ProofsC02.revalid16_refuted. Qed.
Print Assumptions revalid16_refuted.
Theorem revalid32_refuted : exists b, all_lt 256 b = true /\ WF8 b = true /\
  utf8_to_utf32 SubstituteInvalid (Some b) = Ok [0x110000] /\ WF32 [0x110000] = false.
Proof. exact ProofsC02.revalid32_refuted. Qed.
Print Assumptions revalid32_refuted.

(* wf_unchanged / tolerated_same: on well-formed input (tolerated forms included) every mode gives the
   same buffer and none throws; an ST::string holds exactly the bytes given *)
Theorem wf_unchanged : forall e tg f, conv_fn e tg = Some f ->
  forall m1 m2 sub s, all_lt (unit_bound e) s = true -> fits s -> WF e s = true ->
  forallb (can_show tg sub) (tok e s) = true ->
  f m1 sub (Some s) = f m2 sub (Some s) /\ exists out, f m1 sub (Some s) = Ok out.
Proof. exact wellformed_same_in_every_mode. Qed.
Print Assumptions wf_unchanged.
Theorem wf_unchanged_string : forall m b, all_lt 256 b = true -> fits b -> WF8 b = true -> set_utf8 m (Some b) = Ok b.
Proof. exact string_keeps_wellformed. Qed.
Print Assumptions wf_unchanged_string.

(* default_mode: a call that omits the mode behaves as the configured ST_DEFAULT_VALIDATION
   (the tie to the three builds is the correspondence run) *)
Theorem default_mode : forall (A : Type) (dm : vmode) (f : vmode -> A), with_default dm f = f dm.
Proof. exact @ProofsC02.default_mode. Qed.
Print Assumptions default_mode.

(* KNOWN FINDING wchar-copy-ignores-mode: with a 32-bit wchar_t, utf32_to_wchar / wchar_to_utf32 are
   plain copies: check_validity accepts and substitute_invalid keeps a unit above 0x10FFFF, where
   the specification asks for unicode_error / U+FFFD.  On well-formed UTF-32 they are correct. *)
Theorem wchar_copy_ignores_mode_refuted :
  exists x, all_lt 4294967296 x = true /\
            utf32_to_wchar CheckValidity (Some x) = Ok x /\ wchar_to_utf32 CheckValidity (Some x) = Ok x /\
            spec_conv E32 T32 CheckValidity false x = SThrow /\
            utf32_to_wchar SubstituteInvalid (Some x) = Ok x /\
            spec_conv E32 T32 SubstituteInvalid false x = SOk [0xFFFD].
Proof. exact wchar_copy_refuted. Qed.
Print Assumptions wchar_copy_ignores_mode_refuted.
Theorem wchar_copy_on_wellformed : forall m x, WF32 x = true ->
  utf32_to_wchar m (Some x) = Ok x /\ wchar_to_utf32 m (Some x) = Ok x /\ spec_conv E32 T32 m false x = SOk x.
Proof. exact wchar_copy_wellformed. Qed.
Print Assumptions wchar_copy_on_wellformed.

(* non-vacuity: malformed and tolerated inputs satisfy the hypotheses *)
Example hypotheses_satisfiable :
  all_lt 256 [0x41; 0xC3; 0xA9; 0x80; 0xE2; 0x82] = true /\ fits [0x41; 0xC3; 0xA9; 0x80; 0xE2; 0x82] /\
  WF8 [0x41; 0xC3; 0xA9; 0x80; 0xE2; 0x82] = false /\ WF8 [0x41; 0xC3; 0xA9; 0xED; 0xA0; 0x80; 0xC0; 0x80] = true.
Proof. exact c02_nonvacuous. Qed.

(* ---- every conversion route declared in the headers (harvested from the AST on this run) is bound to its
   Model.v transcription in Utf/ApiCoverage.v, so the statements above range over all of them ---- *)
Theorem every_route_is_modelled : ST.Utf.ApiCoverage.routes_covered_b = true.
Proof. exact ST.Utf.ApiCoverage.routes_covered. Qed.
Print Assumptions every_route_is_modelled.

(* ---- tie by translation: the leaf functions below are translated from the clang AST of the CURRENT headers into
   Gen/Leaf.v on every run (tools/leaf_translate.py: C++ integer semantics written out over Z); the hand-written
   model functions used by every theorem above compute the same values, so an edit to one of these functions in the
   headers breaks this obligation whatever the test generators do ---- *)
Theorem error_marks_match_source : forall e, In e ST.Utf.LeafBridge.enumerators ->
  ST.Gen.Leaf.src_error_char (Z.of_N (cerr_code e)) = Z.of_N (error_char e) /\
  ST.Gen.Leaf.src_char_error (Z.of_N (error_char e)) = Z.of_N (cerr_code (char_error (error_char e))) /\
  char_error (error_char e) = e.
Proof. exact ST.Utf.LeafBridge.error_char_matches_source. Qed.
Print Assumptions error_marks_match_source.
Theorem characters_carry_no_error_mark : forall ch, ch < 2 ^ 22 ->
  ST.Gen.Leaf.src_char_error (Z.of_N ch) = 0%Z /\ char_error ch = CSuccess.
Proof. exact ST.Utf.LeafBridge.char_error_matches_source_on_characters. Qed.
Print Assumptions characters_carry_no_error_mark.

(* ---- tie by translation, loops: validate_utf8(buffer, size), the decider behind check_validity (every ST::string
   constructor, set, from_utf8 and operator+ in that mode goes through it), is translated from the CURRENT headers into
   Gen/Leaf.v — the for loop with its `continue`, the three-fold macro expansion `do { ++cp; if (cp[0] is not a continuation byte)
   return invalid_utf8_seq; } while (false)` and the view of the char array as unsigned char included; on byte strings of
   any length, with enough fuel, it returns the conversion_error_t the model validator of every theorem above returns ---- *)
Theorem validator_loop_matches_source : forall l fuel, all_lt 256 l = true -> (length l < fuel)%nat ->
  exists e, validate_utf8 l = Ok e /\
            ST.Gen.Leaf.src_validate_utf8 fuel (ST.Utf.LoopBridge.arr8s l) (Z.of_nat (length l)) = Some (Z.of_N (cerr_code e)).
Proof. exact ST.Utf.LoopBridgeValidate.validate_utf8_matches_source. Qed.
Print Assumptions validator_loop_matches_source.

(* ---- tie by translation, decoders: extract_utf8(const unsigned char *&, end) and extract_utf16(const char16_t *&, end) — the
   decoding step of every UTF-8 / UTF-16 -> X conversion — are translated from the CURRENT headers into Gen/Leaf.v (the
   advanced pointer is an index returned with the result).  For every non-empty suffix of units they return the code
   point or in-band error mark the model decoders of every theorem above return, and consume the same number of units
   (ext_ok: the model yields (ch, skipn k s) with 1 <= k <= length s, the translated function (ch, i + k), ch < 2^32) ---- *)
Theorem decoders_match_source : forall s i p, s <> [] -> ST.Utf.LoopBridge.shows Z.of_N p i s ->
  (all_lt 256 s = true ->
     ST.Utf.LoopBridgeExtract.ext_ok (extract_utf8 s) (ST.Gen.Leaf.src_extract_utf8 p i (i + Z.of_nat (length s))%Z) s i) /\
  (all_lt 65536 s = true ->
     ST.Utf.LoopBridgeExtract.ext_ok (extract_utf16 s) (ST.Gen.Leaf.src_extract_utf16 p i (i + Z.of_nat (length s))%Z) s i).
Proof.
  exact (fun s i p Hne R => conj (fun A => ST.Utf.LoopBridgeExtract.extract_utf8_matches s i p Hne A R)
                                 (fun A => ST.Utf.LoopBridgeExtract.extract_utf16_matches s i p Hne A R)).
Qed.
Print Assumptions decoders_match_source.

(* ---- tie by translation, a whole conversion pass with its validation modes: utf16_convert_from_utf32(dest, utf32, size,
   validation), the second pass of ST::utf32_to_utf16 and of the wchar_t aliases, is translated from the CURRENT headers
   (dest is a write-only cursor handed to the translated encoder write_utf16).  For inputs of any length, every mode and
   enough fuel it returns the conversion_error_t and stores exactly the units that the model pass of every theorem above
   returns and pushes, given room: under check_validity it stops at the first unit above 0x10FFFF with out_of_range,
   otherwise it stores U+FFFD for it and goes on ---- *)
Theorem utf32_to_utf16_pass_matches_source : forall l m fuel, all_lt 4294967296 l = true -> (length l < fuel)%nat ->
  exists e ws,
    ST.Gen.Leaf.src_utf16_convert_from_utf32 fuel (ST.Utf.LoopBridge.arr32 l) (Z.of_nat (length l)) (ST.Utf.LoopBridgeConvert32.mode_code m)
      = Some (Z.of_N (cerr_code e), ws) /\
    forall d : dst, (length ws <= fst d)%nat ->
      utf16_convert_from_utf32 d l m = Ok (e, ((fst d - length ws)%nat, rev (map ST.Utf.LoopBridgeWrite.unit16_of ws) ++ snd d)).
Proof. exact ST.Utf.LoopBridgeConvert32.utf16_convert_from_utf32_matches_source. Qed.
Print Assumptions utf32_to_utf16_pass_matches_source.

Theorem utf32_to_utf8_pass_matches_source : forall l m fuel, all_lt 4294967296 l = true -> (length l < fuel)%nat ->
  exists e ws,
    ST.Gen.Leaf.src_utf8_convert_from_utf32 fuel (ST.Utf.LoopBridge.arr32 l) (Z.of_nat (length l)) (ST.Utf.LoopBridgeConvert32.mode_code m)
      = Some (Z.of_N (cerr_code e), ws) /\
    forall d : dst, (length ws <= fst d)%nat ->
      utf8_convert_from_utf32 d l m = Ok (e, ((fst d - length ws)%nat, rev (map ST.Utf.LoopBridgeWrite.byte_of ws) ++ snd d)).
Proof. exact ST.Utf.LoopBridgeConvert32.utf8_convert_from_utf32_matches_source. Qed.
Print Assumptions utf32_to_utf8_pass_matches_source.

(* the conversion passes that decode their input: X -> UTF-32 from UTF-8 and from UTF-16, and UTF-8 -> UTF-16 (decoder,
   char_error and encoder are the translated functions) *)
Theorem decoding_passes_match_source : forall l m fuel, (length l < fuel)%nat ->
  (all_lt 256 l = true ->
     (exists e ws,
        ST.Gen.Leaf.src_utf32_convert_from_utf8 fuel (ST.Utf.LoopBridge.arr8s l) (Z.of_nat (length l)) (ST.Utf.LoopBridgeConvert32.mode_code m)
          = Some (Z.of_N (cerr_code e), ws) /\
        forall d : dst, (length ws <= fst d)%nat ->
          utf32_convert_from_utf8 d l m = Ok (e, ((fst d - length ws)%nat, rev (map ST.Utf.LoopBridgeConvertTo32.unit32_of ws) ++ snd d))) /\
     (exists e ws,
        ST.Gen.Leaf.src_utf16_convert_from_utf8 fuel (ST.Utf.LoopBridge.arr8s l) (Z.of_nat (length l)) (ST.Utf.LoopBridgeConvert32.mode_code m)
          = Some (Z.of_N (cerr_code e), ws) /\
        forall d : dst, (length ws <= fst d)%nat ->
          utf16_convert_from_utf8 d l m = Ok (e, ((fst d - length ws)%nat, rev (map ST.Utf.LoopBridgeWrite.unit16_of ws) ++ snd d)))) /\
  (all_lt 65536 l = true ->
     exists e ws,
        ST.Gen.Leaf.src_utf32_convert_from_utf16 fuel (ST.Utf.LoopBridge.arr32 l) (Z.of_nat (length l)) (ST.Utf.LoopBridgeConvert32.mode_code m)
          = Some (Z.of_N (cerr_code e), ws) /\
        forall d : dst, (length ws <= fst d)%nat ->
          utf32_convert_from_utf16 d l m = Ok (e, ((fst d - length ws)%nat, rev (map ST.Utf.LoopBridgeConvertTo32.unit32_of ws) ++ snd d))).
Proof.
  exact (fun l m fuel Hf => conj
    (fun A => conj (ST.Utf.LoopBridgeConvertTo32.utf32_convert_from_utf8_matches_source l m fuel A Hf)
                   (ST.Utf.LoopBridgeConvert8To16.utf16_convert_from_utf8_matches_source l m fuel A Hf))
    (fun A => ST.Utf.LoopBridgeConvertTo32.utf32_convert_from_utf16_matches_source l m fuel A Hf)).
Qed.
Print Assumptions decoding_passes_match_source.

(* the Latin-1 passes: widening to UTF-16 / UTF-32, and the three conversions to Latin-1 with their validation mode and
   their substitute_out_of_range flag (sub) *)
Theorem latin_1_passes_match_source : forall l m (sub : bool) fuel, (length l < fuel)%nat ->
  (all_lt 256 l = true ->
     (exists ws, ST.Gen.Leaf.src_utf16_convert_from_latin_1 fuel (ST.Utf.LoopBridge.arr8s l) (Z.of_nat (length l)) = Some ws /\
        forall d : dst, (length ws <= fst d)%nat ->
          utf16_convert_from_latin_1 d l = Ok (CSuccess, ((fst d - length ws)%nat, rev (map ST.Utf.LoopBridgeWrite.unit16_of ws) ++ snd d))) /\
     (exists ws, ST.Gen.Leaf.src_utf32_convert_from_latin_1 fuel (ST.Utf.LoopBridge.arr8s l) (Z.of_nat (length l)) = Some ws /\
        forall d : dst, (length ws <= fst d)%nat ->
          utf32_convert_from_latin_1 d l = Ok (CSuccess, ((fst d - length ws)%nat, rev (map ST.Utf.LoopBridgeConvertTo32.unit32_of ws) ++ snd d))) /\
     (exists e ws,
        ST.Gen.Leaf.src_latin_1_convert_from_utf8 fuel (ST.Utf.LoopBridge.arr8s l) (Z.of_nat (length l)) (ST.Utf.LoopBridgeConvert32.mode_code m)
          (ST.Gen.Leaf.b2z sub) = Some (Z.of_N (cerr_code e), ws) /\
        forall d : dst, (length ws <= fst d)%nat ->
          latin_1_convert_from_utf8 d l m sub = Ok (e, ((fst d - length ws)%nat, rev (map ST.Utf.LoopBridgeWrite.byte_of ws) ++ snd d)))) /\
  (all_lt 65536 l = true ->
     exists e ws,
        ST.Gen.Leaf.src_latin_1_convert_from_utf16 fuel (ST.Utf.LoopBridge.arr32 l) (Z.of_nat (length l)) (ST.Utf.LoopBridgeConvert32.mode_code m)
          (ST.Gen.Leaf.b2z sub) = Some (Z.of_N (cerr_code e), ws) /\
        forall d : dst, (length ws <= fst d)%nat ->
          latin_1_convert_from_utf16 d l m sub = Ok (e, ((fst d - length ws)%nat, rev (map ST.Utf.LoopBridgeWrite.byte_of ws) ++ snd d))) /\
  (all_lt 4294967296 l = true ->
     exists e ws,
        ST.Gen.Leaf.src_latin_1_convert_from_utf32 fuel (ST.Utf.LoopBridge.arr32 l) (Z.of_nat (length l)) (ST.Utf.LoopBridgeConvert32.mode_code m)
          (ST.Gen.Leaf.b2z sub) = Some (Z.of_N (cerr_code e), ws) /\
        forall d : dst, (length ws <= fst d)%nat ->
          latin_1_convert_from_utf32 d l m sub = Ok (e, ((fst d - length ws)%nat, rev (map ST.Utf.LoopBridgeWrite.byte_of ws) ++ snd d))).
Proof.
  exact (fun l m sub fuel Hf => conj
    (fun A => conj (ST.Utf.LoopBridgeLatin1.utf16_convert_from_latin_1_matches_source l fuel A Hf)
             (conj (ST.Utf.LoopBridgeLatin1.utf32_convert_from_latin_1_matches_source l fuel A Hf)
                   (ST.Utf.LoopBridgeLatin1.latin_1_convert_from_utf8_matches_source l m sub fuel A Hf)))
    (conj (fun A => ST.Utf.LoopBridgeLatin1.latin_1_convert_from_utf16_matches_source l m sub fuel A Hf)
          (fun A => ST.Utf.LoopBridgeLatin1.latin_1_convert_from_utf32_matches_source l m sub fuel A Hf))).
Qed.
Print Assumptions latin_1_passes_match_source.

(* ---- tie by translation, the repair: cleanup_utf8(output, buffer, size) with its helper append_chars — what
   substitute_invalid does to ill-formed UTF-8 — is translated from the CURRENT headers (for a non-null output; the null
   case, used to measure, only skips the stores).  For byte strings of any length and enough fuel it returns the size and
   stores exactly the bytes that the model repair of every theorem above returns and pushes, in both of the model's
   modes: with an output (given room) and without ---- *)
Theorem repair_loop_matches_source : forall l fuel, all_lt 256 l = true ->
  (3 * Z.of_nat (length l) < 18446744073709551616)%Z -> (length l < fuel)%nat ->
  exists ws, ST.Gen.Leaf.src_cleanup_utf8 fuel (ST.Utf.LoopBridge.arr8s l) (Z.of_nat (length l)) = Some (Z.of_nat (length ws), ws) /\
    (forall d : dst, (length ws <= fst d)%nat ->
       cleanup_utf8 (Some d) l = Ok (length ws, Some ((fst d - length ws)%nat, rev (map ST.Utf.LoopBridgeWrite.byte_of ws) ++ snd d))) /\
    cleanup_utf8 None l = Ok (length ws, None).
Proof. exact ST.Utf.LoopBridgeCleanup.cleanup_utf8_matches_source. Qed.
Print Assumptions repair_loop_matches_source.
