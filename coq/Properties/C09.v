(* Properties/C09.v — split, tokenize and replace partition the text exactly; join inverts split.
   Statements only; proofs in Str/SplitProofs*.v.  Every model equals `Ok spec` (or the documented
   Throw / Abort), hence in particular never Fault Hang: every call terminates, the fuel
   S (S (length s)) of the transcribed loops always suffices.                                   *)
From Coq Require Import NArith ZArith List Bool.
From ST Require Import Base.Outcome Base.Units Gen.Consts Str.Model Str.SliceSpec Str.SliceModel Str.SplitSpec Str.SplitModel
     Str.SliceProofsBase Str.SliceProofsFind Str.SliceProofsFront Str.SliceProofsBA
     Str.SplitProofs Str.SplitProofsReplace Str.SplitProofsTok Str.SplitProofsVal Str.SplitProofsWf Str.SplitProofsWfCor
     Str.SliceExamples.
Import ListNotations.
Local Open Scope N_scope.
Local Open Scope outcome_scope.

(* ---- the spec: at most max + 1 pieces, cut at the first occurrences left to right, join inverts ---- *)
Theorem split_pieces_bound ci h sep max : N.of_nat (length (split_spec ci h sep max)) <= max + 1.
Proof. exact (split_pieces ci h sep max). Qed.
Print Assumptions split_pieces_bound.

Theorem split_cuts_at_first_occurrence ci h sep max i : 0 < max -> first_occ ci sep h = Some i ->
  split_spec ci h sep max = firstn i h :: split_spec ci (skipn (i + length sep) h) sep (max - 1).
Proof. exact (split_spec_step ci h sep max i). Qed.
Print Assumptions split_cuts_at_first_occurrence.

Theorem split_without_occurrence ci h sep max :
  (first_occ ci sep h = None -> split_spec ci h sep max = [h]) /\ split_spec ci h sep 0 = [h].
Proof. exact (conj (split_spec_none ci h sep max) (split_zero_max ci h sep)). Qed.
Print Assumptions split_without_occurrence.

Theorem join_inverts_split h sep max : join sep (split_spec false h sep max) = h.
Proof. exact (join_split h sep max). Qed.
Print Assumptions join_inverts_split.

Theorem join_inverts_split_up_to_case ci h sep max :
  map (fold_c ci) (join sep (split_spec ci h sep max)) = map (fold_c ci) h.
Proof. exact (join_split_fold ci h sep max). Qed.
Print Assumptions join_inverts_split_up_to_case.

Theorem empty_separator_leaves_text_whole ci h max : split_spec ci h [] max = [h].
Proof. exact (split_empty_sep ci h max). Qed.
Print Assumptions empty_separator_leaves_text_whole.

(* ---- the three overloads equal the spec, all max_splits in size_t, both case modes ---- *)
Theorem split_string_is_spec cs s sep max : bytes_ok s = true -> bytes_ok sep = true ->
  split_s cs s sep max = Ok (split_spec (ci_of cs) s sep max).
Proof. exact (split_s_spec cs s sep max). Qed.
Print Assumptions split_string_is_spec.

Theorem split_char_is_spec cs s ch max : 0 < ch -> ch < 128 ->
  split_c cs s ch max = Ok (split_spec (ci_of cs) s [ch] max).
Proof. exact (split_c_spec cs s ch max). Qed.
Print Assumptions split_char_is_spec.

Theorem split_char_outside_ascii_aborts cs s ch max : ch = 0 \/ 128 <= ch -> split_c cs s ch max = Abort AbSplitChar.
Proof. exact (split_c_precondition cs s ch max). Qed.
Print Assumptions split_char_outside_ascii_aborts.

(* the const char* form re-validates every piece when the separator has a byte >= 0x80 *)
Theorem split_cstr_is_spec cs s a k max :
  bytes_ok s = true -> bytes_ok a = true -> c_strlen a = Ok k -> size s < huge_buffer_size ->
  split_z cs s (Some a) max =
  let pieces := split_spec (ci_of cs) s (c_content a) max in
  if sep_has_high (c_content a) && negb (forallb wf8s pieces) then Throw UnicodeError else Ok pieces.
Proof. exact (split_z_spec cs s a k max). Qed.
Print Assumptions split_cstr_is_spec.

Theorem split_null_aborts cs s max : split_z cs s None max = Abort AbSplitNull.
Proof. exact (split_z_null cs s max). Qed.
Print Assumptions split_null_aborts.

Theorem split_overloads_agree_char cs s ch max : bytes_ok s = true -> 0 < ch -> ch < 128 ->
  split_c cs s ch max = split_s cs s [ch] max.
Proof. exact (split_overloads_c_s cs s ch max). Qed.
Print Assumptions split_overloads_agree_char.

Theorem split_overloads_agree_cstr cs s sep max :
  bytes_ok s = true -> bytes_ok sep = true -> ~ In 0 sep -> size s < huge_buffer_size ->
  sep_has_high sep = false \/ forallb wf8s (split_spec (ci_of cs) s sep max) = true ->
  split_z cs s (Some (sep ++ [0])) max = split_s cs s sep max.
Proof. exact (split_overloads_z_s cs s sep max). Qed.
Print Assumptions split_overloads_agree_cstr.

Example split_examples :
  split_s CaseSensitive a_b_c [44] 1 = Ok [[97]; [98; 44; 99]] /\
  split_c CaseInsensitive a_b_c 44 size_max = Ok [[97]; [98]; [99]] /\
  split_z CaseSensitive a_b_c (Some [44; 0]) 5 = Ok [[97]; [98]; [99]] /\
  split_s CaseSensitive [97; 0; 98] [] size_max = Ok [[97; 0; 98]].
Proof. exact ex_split. Qed.
Example split_hypotheses_satisfiable :
  bytes_ok a_b_c = true /\ 0 < 44 /\ 44 < 128 /\ c_strlen [44; 0] = Ok 1%nat /\ size a_b_c < huge_buffer_size.
Proof. exact ex_split_hyps. Qed.
Example split_cstr_revalidation_differs :
  split_z CaseSensitive [97; 195; 169; 169] (Some [195; 169; 0]) 9 = Throw UnicodeError /\
  split_s CaseSensitive [97; 195; 169; 169] [195; 169] 9 = Ok [[97]; [169]].
Proof. exact ex_split_revalidate. Qed.

(* ---- tokenize ---- *)
Theorem tokenize_is_spec s delims k : c_strlen delims = Ok k ->
  tokenize_model s delims = Ok (tokenize_spec s (c_content delims)).
Proof. exact (tokenize_model_spec s delims k). Qed.
Print Assumptions tokenize_is_spec.

Theorem tokens_are_nonempty_delimiter_free_runs s set :
  (forall t, In t (tokenize_spec s set) -> t <> []) /\
  (forall t x, In t (tokenize_spec s set) -> In x t -> in_set set x = false) /\
  concat (tokenize_spec s set) = filter (fun x => negb (in_set set x)) s.
Proof.
  exact (conj (tokenize_no_empty s set) (conj (tokenize_no_delim s set) (tokenize_concat_filter s set))).
Qed.
Print Assumptions tokens_are_nonempty_delimiter_free_runs.

(* maximality: the first token is the whole first run, the rest is the tokenization of what follows *)
Theorem tokens_are_maximal set l :
  tokenize_spec l set =
  let rest := tokenize_spec (drop_while (pw set true) (drop_while (pw set false) l)) set in
  match take_while (pw set false) l with [] => rest | t => t :: rest end.
Proof. exact (tokenize_spec_step set l). Qed.
Print Assumptions tokens_are_maximal.

(* ---- replace ---- *)
Theorem replace_length_law ci h from to :
  (length (replace_spec ci h from to) + occ_count ci h from * length from =
   length h + occ_count ci h from * length to)%nat.
Proof. exact (replace_length ci h from to). Qed.
Print Assumptions replace_length_law.

(* scans_agree: the counted size is exactly what the copy writes: no OOBWrite, no Unwritten *)
Theorem replace_scans_agree cs s from to :
  bytes_ok s = true -> bytes_ok from = true -> from <> [] -> fits s ->
  size to < two64 -> size from < two64 -> fits (replace_spec (ci_of cs) s from to) ->
  replace_bytes cs s from to = Ok (replace_spec (ci_of cs) s from to).
Proof. exact (replace_bytes_spec cs s from to). Qed.
Print Assumptions replace_scans_agree.

(* the result passes through the validating constructor: that is the only way replace throws *)
Theorem replace_is_spec cs s from to :
  bytes_ok s = true -> bytes_ok from = true -> from <> [] -> s <> [] -> bytes_ok to = true -> fits s ->
  size to < two64 -> size from < two64 -> fits (replace_spec (ci_of cs) s from to) ->
  replace_model cs s from to =
  if wf8s (replace_spec (ci_of cs) s from to) then Ok (replace_spec (ci_of cs) s from to) else Throw UnicodeError.
Proof. exact (replace_model_spec cs s from to). Qed.
Print Assumptions replace_is_spec.

Theorem replace_empty_pattern_or_subject cs s from to :
  (s = [] \/ from = [] -> replace_model cs s from to = Ok s) /\ replace_spec (ci_of cs) s [] to = s.
Proof. exact (conj (replace_empty cs s from to) (replace_spec_empty (ci_of cs) s to)). Qed.
Print Assumptions replace_empty_pattern_or_subject.

Theorem replace_overloads_agree cs s a b ka kb v :
  bytes_ok a = true -> bytes_ok b = true -> c_strlen a = Ok ka -> c_strlen b = Ok kb ->
  N.of_nat ka < huge_buffer_size -> N.of_nat kb < huge_buffer_size ->
  v = VAssume \/ (wf8s (c_content a) = true /\ wf8s (c_content b) = true) ->
  replace_zz cs s (Some a) (Some b) v = replace_model cs s (c_content a) (c_content b) /\
  replace_sz cs s (c_content a) (Some b) v = replace_model cs s (c_content a) (c_content b) /\
  replace_zs cs s (Some a) (c_content b) v = replace_model cs s (c_content a) (c_content b).
Proof. exact (replace_overloads cs s a b ka kb v). Qed.
Print Assumptions replace_overloads_agree.

Example replace_examples :
  replace_model CaseSensitive [97; 97; 97; 98; 97] [97; 97] [120; 121; 122] = Ok [120; 121; 122; 97; 98; 97] /\
  occ_count false [97; 97; 97; 98; 97] [97; 97] = 1%nat /\
  replace_model CaseSensitive [255; 97] [98] [99] = Throw UnicodeError.
Proof. exact ex_replace. Qed.
Example replace_hypotheses_satisfiable :
  let s := [97; 97; 97; 98; 97] in let f := [97; 97] in let t := [120; 121; 122] in
  bytes_ok s = true /\ bytes_ok f = true /\ bytes_ok t = true /\ f <> [] /\ s <> [] /\ fits s /\
  size t < two64 /\ size f < two64 /\ fits (replace_spec false s f t).
Proof. exact ex_replace_hyps. Qed.

(* ---- well-formed text: the validation steps are the identity (UTF-8 self-synchronisation) ---- *)
Theorem pieces_are_wellformed ci h sep max :
  wf8s h = true -> wf8s sep = true -> sep <> [] -> forallb wf8s (split_spec ci h sep max) = true.
Proof. exact (pieces_wf ci h sep max). Qed.
Print Assumptions pieces_are_wellformed.

Theorem split_cstr_never_throws_on_wellformed cs s sep max :
  bytes_ok s = true -> bytes_ok sep = true -> ~ In 0 sep -> size s < huge_buffer_size ->
  sep <> [] -> wf8s s = true -> wf8s sep = true ->
  split_z cs s (Some (sep ++ [0])) max = Ok (split_spec (ci_of cs) s sep max).
Proof. exact (split_z_wf cs s sep max). Qed.
Print Assumptions split_cstr_never_throws_on_wellformed.

Theorem replace_on_wellformed cs s from to :
  bytes_ok s = true -> bytes_ok from = true -> bytes_ok to = true -> fits s ->
  size to < two64 -> size from < two64 -> fits (replace_spec (ci_of cs) s from to) ->
  wf8s s = true -> wf8s from = true -> wf8s to = true ->
  replace_model cs s from to = Ok (replace_spec (ci_of cs) s from to).
Proof. exact (replace_model_wf cs s from to). Qed.
Print Assumptions replace_on_wellformed.

(* ---- the validator the results pass through, and fill ---- *)
Theorem validator_is_structural_wf buf : bytes_ok buf = true ->
  exists e, validate_utf8 buf = Ok e /\ (e = VSuccess <-> wf8s buf = true).
Proof. exact (validate_utf8_spec buf). Qed.
Print Assumptions validator_is_structural_wf.

Theorem fill_is_spec count c : count + 1 < two63 -> c < 256 ->
  fill_model count c = if wf8s (repeat c (N.to_nat count)) then Ok (repeat c (N.to_nat count)) else Throw UnicodeError.
Proof. exact (fill_model_spec count c). Qed.
Print Assumptions fill_is_spec.
