(* Properties/C13.v — floating-point text equals the C library's.  STATEMENTS ONLY.
   PARTIAL BY DESIGN: snprintf / strtod / strtof are Section variables (`render`, `scan`, `scanf`)
   about which nothing is assumed; every theorem below is universally quantified over them.  What is
   proved: the wrapper hands printf exactly the format the property names, adds only padding, never
   cuts, never writes outside its buffers, aborts only when snprintf reports a non-positive size, and
   computes the flags as specified.  What is NOT proved: anything about printf's digits (equality with
   the C library is established by differential execution in checks/C13.py: the extracted model calls
   the platform's snprintf with the model-assembled format), and that libc's default-precision
   renderings are shorter than float_formatter's 318 bytes (checked on -DBL_MAX etc.).            *)
From Coq Require Import NArith ZArith List Bool.
From ST Require Import Base.Outcome Num.Digits Num.Strtol Num.FloatWrap Num.FloatWrapProofs.
Import ListNotations.
Local Open Scope N_scope.

(* ---- assemble_canonical: "%" ["+"] ["." decimal precision] letter, inside the 32-byte buffer,
        for every int precision; consequently the ST_ASSERT "Not enough space for format string" is dead,
        no write leaves format_buffer, no indeterminate cell is read *)
Theorem assemble_canonical : forall sp, int_precision sp ->
  assemble sp = Ok (printf_format sp) /\ (length (printf_format sp) < format_buffer_size)%nat.
Proof. exact FloatWrapProofs.assemble_canonical. Qed.
Print Assumptions assemble_canonical.

Theorem format_assertion_dead : forall sp, int_precision sp -> assemble sp <> Abort AbFloatFmt.
Proof. exact assemble_assert_dead. Qed.
Print Assumptions format_assertion_dead.

(* ---- output_is_padded (and abort_iff): for every libc, format_type(double) is the padded rendering
        of the canonical format, whatever its length; Abort exactly when snprintf's int result is <= 0 *)
Theorem output_is_padded : forall render sp v, int_precision sp ->
  format_type_double render sp v =
    let r := render (printf_format sp) v in
    if rendering_ok r then Ok (pad_to_width sp r) else Abort AbOther.
Proof. exact format_type_double_eq. Qed.
Print Assumptions output_is_padded.

Theorem padding_never_truncates : forall sp r,
  let pad := if fs_pad sp =? 0 then 32 else fs_pad sp in
  exists k,
    pad_to_width sp r = (if match fs_alignment sp with AlLeft => true | _ => false end
                         then r ++ repeat pad k else repeat pad k ++ r)
    /\ Z.of_nat (length (pad_to_width sp r)) = Z.max (fs_min_length sp) (Z.of_nat (length r)).
Proof. exact pad_to_width_shape. Qed.
Print Assumptions padding_never_truncates.

Theorem abort_iff : forall render sp v, int_precision sp ->
  (is_abort (format_type_double render sp v) = true <->
   rendering_ok (render (printf_format sp) v) = false).
Proof. exact format_type_double_abort_iff. Qed.
Print Assumptions abort_iff.

(* ---- no_buffer_write_oob: no Fault (every snprintf is given at most its array's size; append reads
        only stored characters) and no exception *)
Theorem no_buffer_write_oob : forall render sp v, int_precision sp ->
  is_fault (format_type_double render sp v) = false /\ is_throw (format_type_double render sp v) = false.
Proof. exact format_type_double_no_fault. Qed.
Print Assumptions no_buffer_write_oob.

(* ---- from_float / from_double / string_stream <<: letter validation, then the %<letter> rendering;
        Abort FloatBuf exactly from float_formatter_buf = 318 bytes on *)
Theorem from_double_spec : forall render v letter,
  from_double render v letter =
    if negb (valid_float_letter letter) then Throw BadFormat
    else let r := render [37; letter] v in
         if negb (rendering_ok r) then Abort AbOther
         else if Nat.leb float_formatter_buf (length r) then Abort AbFloatBuf
         else Ok r.
Proof. exact from_double_eq. Qed.
Print Assumptions from_double_spec.

Theorem stream_is_from_double_g : forall render v, stream_double render v = from_double render v 103.
Proof. exact stream_double_eq. Qed.
Print Assumptions stream_is_from_double_g.

Theorem from_double_never_faults : forall render v letter, is_fault (from_double render v letter) = false.
Proof. exact from_double_no_fault. Qed.
Print Assumptions from_double_never_faults.

(* ---- to_double / to_float: flags over `scan` *)
Theorem to_double_flags_spec : forall scan text, to_double_flags scan text = to_double_spec scan text.
Proof. exact to_double_eq. Qed.
Print Assumptions to_double_flags_spec.

Theorem to_float_flags_spec : forall scanf text, to_float_flags scanf text = to_double_spec scanf text.
Proof. exact to_float_eq. Qed.
Print Assumptions to_float_flags_spec.

Theorem to_double_plain_same_value : forall scan text, text <> [] ->
  to_double_plain scan text = fst (fst (to_double_flags scan text)).
Proof. exact to_double_plain_eq. Qed.
Print Assumptions to_double_plain_same_value.

(* non-vacuity: the hypotheses hold for real specs, the repaired long path is taken, aborts exist *)
Example int_precision_max : int_precision
  {| fs_min_length := 0; fs_precision := 2147483647; fs_alignment := AlDefault;
     fs_float_class := FcExpUpper; fs_pad := 0; fs_always_signed := true |}.
Proof. unfold int_precision. cbn. split; [discriminate|reflexivity]. Qed.
Example rendering_of_100_bytes_in_full :
  format_type_double (fun _ _ => repeat 49 100) sp_plain 0 = Ok (repeat 49 100).
Proof. exact long_rendering_in_full. Qed.
Example rendering_empty_aborts :
  format_type_double (fun _ _ => []) sp_plain 0 = Abort AbOther.
Proof. exact empty_rendering_aborts. Qed.
Example padded_left_and_right :
  format_type_double (fun _ _ => [49; 46; 53])
    {| fs_min_length := 6; fs_precision := 1; fs_alignment := AlLeft; fs_float_class := FcFixed;
       fs_pad := 42; fs_always_signed := false |} 0 = Ok [49; 46; 53; 42; 42; 42] /\
  format_type_double (fun _ _ => [49; 46; 53])
    {| fs_min_length := 6; fs_precision := 1; fs_alignment := AlDefault; fs_float_class := FcFixed;
       fs_pad := 0; fs_always_signed := false |} 0 = Ok [32; 32; 32; 49; 46; 53].
Proof. vm_compute. auto. Qed.
