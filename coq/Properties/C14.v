(* Properties/C14.v — hex and base64 encodings are standard and decode back to
   the original bytes.  STATEMENTS ONLY: each theorem is closed by `exact` of a
   lemma proved under Codec/Proofs*.v and followed by Print Assumptions.

   Model  = Codec/Model.v   (include/st_codecs_priv.h, st_codecs.h transcribed;
                             tables = Gen/Tables.v, regenerated from the header)
   Spec   = Codec/Spec.v    (hex_spec: digits "0123456789abcdef"[b/16], [b mod 16];
                             b64_spec: RFC 4648 section 4 through the 24-bit group number)
   All theorems quantify over every byte list `b` (bytes_ok b: every unit < 256,
   which a `const void*` + size input satisfies by construction), of every length. *)
From Coq Require Import NArith ZArith List Bool.
From ST Require Import Base.Outcome Base.Units Gen.Tables Codec.Spec Codec.Model.
From ST Require Codec.ProofsTables Codec.ProofsSpec Codec.ProofsEnc Codec.ProofsC14 Codec.ProofsExamples.
From ST Require Codec.LeafBridge Gen.Leaf.
From ST Require Codec.LoopBridge Codec.SourceFit.
Import ListNotations.
Local Open Scope N_scope.

(* ---------------- encoders = the standard encodings ---------------- *)
Theorem hex_encode_is_spec : forall b, bytes_ok b = true ->
  hex_encode (Some b) (length b) = Ok (hex_spec b).
Proof. exact ProofsEnc.hex_encode_is_spec. Qed.
Print Assumptions hex_encode_is_spec.

Theorem hex_encode_size0 : forall d, hex_encode d 0 = Ok [].
Proof. exact ProofsEnc.hex_encode_size0. Qed.
Print Assumptions hex_encode_size0.

Theorem hex_encode_null : forall n, n <> 0%nat -> hex_encode None n = Throw InvalidArgument.
Proof. exact ProofsEnc.hex_encode_null. Qed.
Print Assumptions hex_encode_null.

Theorem b64_encode_is_spec : forall b, bytes_ok b = true ->
  base64_encode (Some b) (length b) = Ok (b64_spec b).
Proof. exact ProofsEnc.b64_encode_is_spec. Qed.
Print Assumptions b64_encode_is_spec.

Theorem b64_encode_size0 : forall d, base64_encode d 0 = Ok [].
Proof. exact ProofsEnc.b64_encode_size0. Qed.
Print Assumptions b64_encode_size0.

Theorem b64_encode_null : forall n, n <> 0%nat -> base64_encode None n = Throw InvalidArgument.
Proof. exact ProofsEnc.b64_encode_null. Qed.
Print Assumptions b64_encode_null.

(* ---------------- lengths 2n and 4*ceil(n/3) ---------------- *)
Theorem hex_length : forall b, length (hex_spec b) = (2 * length b)%nat.
Proof. exact ProofsSpec.hex_length. Qed.
Print Assumptions hex_length.

Theorem b64_length : forall b, length (b64_spec b) = (4 * ((length b + 2) / 3))%nat.
Proof. exact ProofsSpec.b64_length. Qed.
Print Assumptions b64_length.

(* ---------------- decoding gives back the original bytes ---------------- *)
Theorem hex_round_trip : forall b, bytes_ok b = true -> hex_decode (hex_spec b) = Ok b.
Proof. exact ProofsC14.hex_round_trip. Qed.
Print Assumptions hex_round_trip.

Theorem hex_round_trip_buf : forall b osize, bytes_ok b = true -> (length b <= osize)%nat ->
  hex_decode_buf (hex_spec b) true osize = Ok (Z.of_nat (length b), b).
Proof. exact ProofsC14.hex_round_trip_buf. Qed.
Print Assumptions hex_round_trip_buf.

Theorem hex_upper : forall b, bytes_ok b = true -> hex_decode (map toupper (hex_spec b)) = Ok b.
Proof. exact ProofsC14.hex_upper. Qed.
Print Assumptions hex_upper.

Theorem b64_round_trip : forall b, bytes_ok b = true -> base64_decode (b64_spec b) = Ok b.
Proof. exact ProofsC14.b64_round_trip. Qed.
Print Assumptions b64_round_trip.

Theorem b64_round_trip_buf : forall b osize, bytes_ok b = true -> (length b <= osize)%nat ->
  b64_decode_buf (b64_spec b) true osize = Ok (Z.of_nat (length b), b).
Proof. exact ProofsC14.b64_round_trip_buf. Qed.
Print Assumptions b64_round_trip_buf.

(* the same, end to end through the model's own encoders *)
Theorem hex_model_round_trip : forall b, bytes_ok b = true ->
  exists e, hex_encode (Some b) (length b) = Ok e /\ hex_decode e = Ok b /\
            hex_decode (map toupper e) = Ok b.
Proof. exact ProofsC14.hex_model_round_trip. Qed.
Print Assumptions hex_model_round_trip.

Theorem b64_model_round_trip : forall b, bytes_ok b = true ->
  exists e, base64_encode (Some b) (length b) = Ok e /\ base64_decode e = Ok b.
Proof. exact ProofsC14.b64_model_round_trip. Qed.
Print Assumptions b64_model_round_trip.

(* the Spec's own decoder inverts the Spec's encoder (no model involved) *)
Theorem b64_spec_round_trip : forall b, bytes_ok b = true -> b64_decode_spec (b64_spec b) = Some b.
Proof. exact ProofsSpec.b64_spec_round_trip. Qed.
Print Assumptions b64_spec_round_trip.

Theorem hex_spec_round_trip : forall b, bytes_ok b = true -> hex_decode_spec (hex_spec b) = Some b.
Proof. exact ProofsSpec.hex_spec_round_trip. Qed.
Print Assumptions hex_spec_round_trip.

(* ---------------- facts over the GENERATED tables (finite sweeps) ----------------
   These stop checking when a table entry in st_codecs_priv.h is edited.          *)
Theorem tables_sizes :
  length hex_chars = 16%nat /\ length hex_values = 256%nat /\
  length b64_chars = 64%nat /\ length b64_values = 256%nat.
Proof. exact ProofsC14.tables_sizes. Qed.
Print Assumptions tables_sizes.

Theorem hex_chars_standard : forall i, i < 16 -> tblN hex_chars i = Ok (hex_digit i).
Proof. exact ProofsTables.hex_chars_ok. Qed.
Print Assumptions hex_chars_standard.

Theorem b64_chars_standard : forall i, i < 64 -> tblN b64_chars i = Ok (b64_char i).
Proof. exact ProofsTables.b64_chars_ok. Qed.
Print Assumptions b64_chars_standard.

(* value tables: the digit value inside the alphabet, -1 exactly outside it *)
Theorem hex_values_standard : forall c, c < 256 ->
  tbl hex_values c = Ok (match hexval c with Some v => Z.of_N v | None => (-1)%Z end).
Proof. exact ProofsTables.hex_values_ok. Qed.
Print Assumptions hex_values_standard.

Theorem b64_values_standard : forall c, c < 256 ->
  tbl b64_values c = Ok (match b64val c with Some v => Z.of_N v | None => (-1)%Z end).
Proof. exact ProofsTables.b64_values_ok. Qed.
Print Assumptions b64_values_standard.

Theorem hex_values_of_chars : forall i, i < 16 ->
  exists c, tblN hex_chars i = Ok c /\ tbl hex_values c = Ok (Z.of_N i).
Proof. exact ProofsTables.hex_values_of_chars. Qed.
Print Assumptions hex_values_of_chars.

Theorem hex_values_of_upper : forall i, i < 16 ->
  exists c, tblN hex_chars i = Ok c /\ tbl hex_values (toupper c) = Ok (Z.of_N i).
Proof. exact ProofsTables.hex_values_of_upper. Qed.
Print Assumptions hex_values_of_upper.

Theorem b64_values_of_chars : forall i, i < 64 ->
  exists c, tblN b64_chars i = Ok c /\ tbl b64_values c = Ok (Z.of_N i).
Proof. exact ProofsTables.b64_values_of_chars. Qed.
Print Assumptions b64_values_of_chars.

(* ---------------- anchors and non-vacuity ---------------- *)
Example b64_Man : b64_spec [77; 97; 110] = [84; 87; 70; 117].                  (* "Man" -> "TWFu" *)
Proof. exact ProofsExamples.b64_Man. Qed.
Example rfc4648_f : b64_spec [102] = [90; 103; 61; 61].                         (* "Zg==" *)
Proof. exact ProofsExamples.rfc_f. Qed.
Example rfc4648_fo : b64_spec [102; 111] = [90; 109; 56; 61].                   (* "Zm8=" *)
Proof. exact ProofsExamples.rfc_fo. Qed.
Example rfc4648_foo : b64_spec [102; 111; 111] = [90; 109; 57; 118].            (* "Zm9v" *)
Proof. exact ProofsExamples.rfc_foo. Qed.
Example rfc4648_foob : b64_spec [102; 111; 111; 98] = [90; 109; 57; 118; 89; 103; 61; 61].
Proof. exact ProofsExamples.rfc_foob. Qed.
Example rfc4648_fooba : b64_spec [102; 111; 111; 98; 97] = [90; 109; 57; 118; 89; 109; 69; 61].
Proof. exact ProofsExamples.rfc_fooba. Qed.
Example rfc4648_foobar : b64_spec [102; 111; 111; 98; 97; 114] = [90; 109; 57; 118; 89; 109; 70; 121].
Proof. exact ProofsExamples.rfc_foobar. Qed.
Example hex_00ffab : hex_spec [0; 255; 171] = [48; 48; 102; 102; 97; 98].
Proof. exact ProofsExamples.hex_00ffab. Qed.
Example model_b64_foobar :
  base64_encode (Some [102; 111; 111; 98; 97; 114]) 6 = Ok [90; 109; 57; 118; 89; 109; 70; 121].
Proof. exact ProofsExamples.model_b64_foobar. Qed.
Example model_hex_upper : hex_decode [48; 48; 70; 70; 65; 66] = Ok [0; 255; 171].
Proof. exact ProofsExamples.model_hex_upper. Qed.
Example hypotheses_satisfiable :
  bytes_ok [102; 111; 111; 98; 97; 114] = true /\ [102; 111; 111; 98; 97; 114] <> [] /\
  (length [102; 111; 111; 98; 97; 114] <= 6)%nat.
Proof. exact ProofsExamples.nonvac_bytes. Qed.
Example null_hypothesis_satisfiable : (3 <> 0)%nat.
Proof. exact ProofsExamples.nonvac_null_ptr. Qed.

(* ---- tie by translation: the leaf functions below are translated from the clang AST of the CURRENT headers into
   Gen/Leaf.v on every run (tools/leaf_translate.py: C++ integer semantics written out over Z); the hand-written
   model functions used by every theorem above compute the same values, so an edit to one of these functions in the
   headers breaks this obligation whatever the test generators do ---- *)
Theorem encode_size_matches_source : forall n, (Z.of_nat n < 2 ^ 62)%Z ->
  ST.Gen.Leaf.src_b64_encode_size (Z.of_nat n) = Z.of_nat (b64_encode_size n).
Proof. exact ST.Codec.LeafBridge.b64_encode_size_matches_source. Qed.
Print Assumptions encode_size_matches_source.

(* ---- tie by translation, a loop: _ST_PRIVATE::hex_encode(output, data, size) is translated from the CURRENT headers into
   Gen/Leaf.v (the while loop, the function-local table hex_chars as it stands in the function's own text, output as a
   write-only cursor); for inputs of any length, with enough fuel, it stores exactly the characters the model encoder of
   every theorem above produces ---- *)
Theorem hex_encode_loop_matches_source : forall l fuel, all_lt 256 l = true -> (length l < fuel)%nat ->
  (Z.of_nat (length l) < 18446744073709551616)%Z ->
  exists ws, ST.Gen.Leaf.src_hex_encode fuel (ST.Codec.LoopBridge.arrb l) (Z.of_nat (length l)) = Some ws /\
             hex_encode_raw l = Ok (map Z.to_N ws).
Proof. exact ST.Codec.LoopBridge.hex_encode_matches_source. Qed.
Print Assumptions hex_encode_loop_matches_source.

(* ---- and so does the base64 encoder: _ST_PRIVATE::b64_encode as TRANSLATED from the current headers (its loop over three
   bytes at a time, the switch on the 0/1/2 bytes left with the '=' padding, its function-local table, the ST_ASSERT of
   the default group) stores, for inputs of any length and every sufficient fuel, exactly the characters of the model
   encoder b64_encode_raw that base64_encode and every theorem above are stated over ---- *)
Theorem b64_encode_loop_matches_source : forall l fuel, all_lt 256 l = true -> (length l < fuel)%nat ->
  (Z.of_nat (length l) < 18446744073709551616)%Z ->
  exists ws, ST.Gen.Leaf.src_b64_encode fuel (ST.Codec.LoopBridge.arrb l) (Z.of_nat (length l)) = Some ws /\
             b64_encode_raw (S (length l)) l = Ok (map Z.to_N ws) /\ Forall (fun w => (0 <= w)%Z) ws.
Proof. exact ST.Codec.LoopBridge.b64_encode_matches_source. Qed.
Print Assumptions b64_encode_loop_matches_source.

(* ... and the ST_ASSERT in the default group of its switch is unreachable *)
Theorem b64_encode_assert_unreachable : forall l fuel ws, all_lt 256 l = true -> (length l < fuel)%nat ->
  (Z.of_nat (length l) < 18446744073709551616)%Z ->
  ST.Gen.Leaf.src_b64_encode fuel (ST.Codec.LoopBridge.arrb l) (Z.of_nat (length l)) = Some ws ->
  ~ In ST.Gen.Leaf.ext_abort_unit ws.
Proof. exact ST.Codec.LoopBridge.b64_encode_never_aborts. Qed.
Print Assumptions b64_encode_assert_unreachable.

(* ---- the two translated functions fit each other and the standard: what b64_encode of the current headers stores is the
   RFC 4648 encoding, and its length is what b64_encode_size of the current headers returns (the size base64_encode
   allocates): the result buffer is filled exactly ---- *)
Theorem b64_encode_source_fits_its_size : forall l fuel, bytes_ok l = true -> (length l < fuel)%nat ->
  (Z.of_nat (length l) < 2 ^ 62)%Z ->
  exists ws, ST.Gen.Leaf.src_b64_encode fuel (ST.Codec.LoopBridge.arrb l) (Z.of_nat (length l)) = Some ws /\
             map Z.to_N ws = b64_spec l /\
             Z.of_nat (length ws) = ST.Gen.Leaf.src_b64_encode_size (Z.of_nat (length l)).
Proof. exact ST.Codec.SourceFit.b64_encode_source_is_rfc. Qed.
Print Assumptions b64_encode_source_fits_its_size.

Theorem hex_encode_source_fits_its_size : forall l fuel, bytes_ok l = true -> (length l < fuel)%nat ->
  (Z.of_nat (length l) < 2 ^ 62)%Z ->
  exists ws, ST.Gen.Leaf.src_hex_encode fuel (ST.Codec.LoopBridge.arrb l) (Z.of_nat (length l)) = Some ws /\
             map Z.to_N ws = hex_spec l /\ length ws = (2 * length l)%nat.
Proof. exact ST.Codec.SourceFit.hex_encode_source_is_spec. Qed.
Print Assumptions hex_encode_source_fits_its_size.
