From ST Require Import Base.Outcome Codec.Spec Codec.Model.
Theorem placeholder : True. Proof. exact I. Qed.
Print Assumptions placeholder.
