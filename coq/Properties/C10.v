(* Properties/C10.v — the format-string parser is total and memory-safe on every format string.
   Statements only; proofs in Fmt/StrtolProofs.v ParserProofs.v DigitsFacts.v DriverProofs.v
   SinksProofs.v C10Proofs.v.  `fmt : option (list N)` is the format pointer (None = null) and
   its bytes up to the terminator; ANY byte list is allowed.  `arg_ok` is what the C++ argument
   types guarantee (an unsigned value fits its type; printf of a double is not empty).        *)
From Coq Require Import NArith ZArith List Lia.
From ST Require Import Base.Outcome Fmt.Strtol Fmt.StrtolProofs Fmt.Parser Fmt.ParserProofs Fmt.Render
  Fmt.DriverProofs Fmt.Sinks Fmt.SinksProofs Fmt.C10Proofs.
Import ListNotations.
Local Open Scope N_scope.

(* parser_outcomes: ST::format(validation, fmt, args...) ends in Ok / bad_format / out_of_range /
   unicode_error / invalid_argument (null format only) / the character-padding assertion / the
   huge-output assertion.  The last one is NOT in the property's list: see the two theorems
   after this one (known finding huge-output-assert). *)
Theorem parser_outcomes : forall v fmt args, Forall arg_ok args ->
  format_permitted fmt (format_to_string v fmt args).
Proof. exact format_outcomes. Qed.
Print Assumptions parser_outcomes.

(* FULL STATEMENT (false of the faithful model):
     forall v fmt args, Forall arg_ok args -> format_to_string v fmt args <> Abort AbHuge
   witness: ST::format("{268435456}", 1) *)
Theorem parser_outcomes_strict_refuted :
  Forall arg_ok huge_args /\ format_to_string CheckValidity (Some huge_fmt) huge_args = Abort AbHuge.
Proof. exact format_outcomes_strict_refuted. Qed.
Print Assumptions parser_outcomes_strict_refuted.

Theorem huge_only_big : forall v fmt args, Forall arg_ok args ->
  format_to_string v fmt args = Abort AbHuge ->
  outW (driver fmt args) = Ok tt /\ 268435456 <= N.of_nat (length (bytes_of (fst (driver fmt args)))).
Proof. exact C10Proofs.huge_only_big. Qed.
Print Assumptions huge_only_big.

(* the driver under any writer (printf, writef): return / bad_format / out_of_range /
   invalid_argument for the null format / the documented assertion *)
Theorem driver_outcomes : forall fmt args, Forall arg_ok args ->
  driver_permitted fmt (outW (driver fmt args)).
Proof. exact C10Proofs.driver_outcomes. Qed.
Print Assumptions driver_outcomes.

(* no_overread: every read of the format string goes through at_, which is Fault OOBRead
   exactly beyond offset (length fmt), the terminator; the run never yields it *)
Theorem no_overread : forall fmt args, Forall arg_ok args ->
  outW (driver fmt args) <> Fault OOBRead.
Proof. exact driver_no_overread. Qed.
Print Assumptions no_overread.

(* progress / termination: fuel S (length (fmt ++ [0])) suffices for every loop *)
Theorem progress : forall fmt args, Forall arg_ok args ->
  outW (driver fmt args) <> Fault Hang.
Proof. exact driver_progress. Qed.
Print Assumptions progress.

(* no fault at all (also: no pointer before the string after strtol, no digit-buffer overrun) *)
Theorem no_fault : forall fmt args, Forall arg_ok args -> forall f,
  outW (driver fmt args) <> Fault f.
Proof. exact driver_no_fault. Qed.
Print Assumptions no_fault.

(* abort_only_doc *)
Theorem abort_only_doc : forall v fmt args r, Forall arg_ok args ->
  format_to_string v fmt args = Abort r ->
  (r = AbCharPad /\ exists f m sp m', fmt = Some f /\ parse_format (cstr f) m = Ok (sp, m')
                                      /\ is_char_class sp = true /\ padded_spec sp = true)
  \/ r = AbHuge.
Proof. exact C10Proofs.abort_only_doc. Qed.
Print Assumptions abort_only_doc.

(* the specifier parser alone, from any '{' of any string: a spec whose three numbers are ints
   and a position at least two further on and inside the string, or bad_format *)
Theorem parse_format_total : forall fmt m, at_ (cstr fmt) m = Ok 123 ->
  parse_good fmt m (parse_format (cstr fmt) m).
Proof. exact parse_format_ok. Qed.
Print Assumptions parse_format_total.

(* next_format never throws: the default arm of its switch is dead code *)
Theorem next_format_total : forall fmt m, (m <= length fmt)%nat ->
  exists m1 more, outW (next_format (cstr fmt) m) = Ok (m1, more) /\ (m <= m1 <= length fmt)%nat
                  /\ (more = true -> at_ (cstr fmt) m1 = Ok 123).
Proof. exact next_format_ok. Qed.
Print Assumptions next_format_total.

(* strtol as called by the parser stays inside the string *)
Theorem strtol_inside : forall s nptr, (nptr <= length s)%nat ->
  exists v e, strtol10 (cstr s) nptr = Ok (v, e) /\ (nptr <= e <= length s)%nat.
Proof. exact strtol10_ok. Qed.
Print Assumptions strtol_inside.

(* non-vacuity of the hypothesis *)
Example arg_ok_satisfiable :
  Forall arg_ok [AInt false 8 200; AInt true 64 (-5); AChar32 65; AStr [65]; AFloat (fun _ _ _ => [48])].
Proof. exact arg_ok_example. Qed.
