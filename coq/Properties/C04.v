(* Properties/C04.v — C04: ST::string has value semantics: reads never mutate, results never alias.
   ST::string is one ST::char_buffer; every string operation is a macro over the buffer members
   (Mem/StringOps.v, read off include/st_string.h) whose computed VALUE `v` is arbitrary here — the
   statements below hold for every v, so they cover every present and future operation with one of
   these footprints.  Statements only; proofs in Mem/StringProofs.v, Mem/BufferHistory.v.          *)
From Coq Require Import NArith List Lia.
From ST Require Import Base.Outcome Mem.Heap Mem.Buffer Mem.BufferRun Mem.BufferInv Mem.BufferSteps
  Mem.BufferHistory Mem.StringOps Mem.StringProofs Mem.ApiCoverage Gen.Consts Gen.Statics.
Import ListNotations.

(* a const member / free function (observer, or any operation producing a new string by NRVO, through any number of temporaries, through a
   moved temporary buffer, through the validating constructor, as a copy, or empty) leaves the source's
   bytes, size and data pointer unchanged — whatever value it computes *)
Theorem c04_const_frame : forall L, 1 <= L -> forall st s t src r,
  Inv L st -> Rel st s -> top_wf s t -> is_const t = true -> source_of t = Some src -> objs st src = Some r ->
  exists st', run_top L t st = (Ok tt, st') /\ Inv L st' /\ objs st' src = Some r /\ contents st' r = contents st r.
Proof. exact const_frame. Qed.
Print Assumptions c04_const_frame.

(* every operation that does not throw: returns normally, re-establishes the ownership invariant (so the
   result owns its own storage: see c04_results_never_alias), changes the abstract values as the spec
   says, and leaves the record (data pointer, size, in-object bytes) AND the contents of every object it
   does not name untouched: a string's value changes only through an operation applied to that object *)
Theorem c04_only_named_objects_change : forall L, 1 <= L -> forall st s t,
  Inv L st -> Rel st s -> top_wf s t -> snd (expand t) = None ->
  exists st', run_top L t st = (Ok tt, st') /\ Inv L st' /\ Rel st' (spec_top s t) /\
    (forall x r, user_slot x -> ~ In x (touched t) -> objs st x = Some r ->
                 objs st' x = Some r /\ contents st' r = contents st r).
Proof. exact top_ok. Qed.
Print Assumptions c04_only_named_objects_change.

(* in any state satisfying the invariant no two live objects share storage *)
Theorem c04_results_never_alias : forall L st pool, Inv L st -> shares st pool = false.
Proof. exact no_sharing. Qed.
Print Assumptions c04_results_never_alias.

(* copies are independent deep copies: after a copy, any operation on the copy (or its destruction)
   leaves the source's record and contents unchanged, and vice versa *)
Theorem c04_copy_independent : forall L, 1 <= L -> forall st s o src op,
  Inv L st -> Rel st s -> objs st o = None -> objs st src <> None ->
  wf_sop (spec_bop s (BCopy o src)) op -> ~ In src (targets op) ->
  exists st1 st2, ctor_copy L o src st = (Ok tt, st1) /\ run_bop L op st1 = (Ok tt, st2) /\ Inv L st2 /\
    objs st1 src = objs st src /\ objs st2 src = objs st src /\
    (forall r, objs st src = Some r -> contents st1 r = contents st r /\ contents st2 r = contents st r) /\
    (forall r l, objs st src = Some r -> s src = Some (Val l) -> contents st2 r = l).
Proof. exact copy_independent. Qed.
Print Assumptions c04_copy_independent.

Theorem c04_copy_independent_rev : forall L, 1 <= L -> forall st s o src op,
  Inv L st -> Rel st s -> objs st o = None -> objs st src <> None ->
  wf_sop (spec_bop s (BCopy o src)) op -> ~ In o (targets op) ->
  exists st1 st2 rc, ctor_copy L o src st = (Ok tt, st1) /\ run_bop L op st1 = (Ok tt, st2) /\ Inv L st2 /\
    objs st1 o = Some rc /\ objs st2 o = Some rc /\
    (forall r, objs st src = Some r -> contents st1 rc = contents st r /\ contents st2 rc = contents st r) /\
    (forall l, s src = Some (Val l) -> contents st2 rc = l).
Proof. exact copy_independent_rev. Qed.
Print Assumptions c04_copy_independent_rev.

(* every finite sequence of string operations (throwing ones included) from any good state *)
Theorem c04_all_sequences : forall L, 1 <= L -> forall ts st s,
  Inv L st -> Rel st s -> wf_tops s ts ->
  fst (run_tops L ts st) = map expected_result ts /\
  Inv L (snd (run_tops L ts st)) /\ Rel (snd (run_tops L ts st)) (fold_left spec_top ts s).
Proof. exact tops_ok. Qed.
Print Assumptions c04_all_sequences.

(* "any const member": every public const member of ST::string found in the headers' AST on this run is
   exercised by the correspondence harness on an observed source (a new one upstream breaks this obligation) *)
Theorem c04_routes_covered : routes_covered_b = true /\ Nat.leb 40 (length string_const_members) = true.
Proof. exact (conj routes_covered inventory_nonempty). Qed.
Print Assumptions c04_routes_covered.

(* non-vacuity: self-referential calls (s = s, s += s, s.replace(s, s)) and whole-string results satisfy
   the preconditions; the model computes what the spec says *)
Example c04_nonvacuous :
  let abc := [97; 98; 99]%N in
  let long := repeat 120%N 20 in
  let ts := [TNew 0 abc; TNew 1 long; TAssign 0 0; TAppend 0 0 (abc ++ abc); TFreshMoveAsg 2 0 (abc ++ abc);
             TCopyOf 3 1; TReads 1; TSetBytes 3 abc; TMoveAssign 1 3; TDel 3; TFreshNRVO 3 1 [98%N]; TDel 0; TDel 1; TDel 2; TDel 3] in
  wf_tops sstore0 ts /\ fst (run_tops 16 ts store0) = map expected_result ts.
Proof.
  vm_compute. repeat split; try discriminate; try reflexivity; intros; try lia;
  repeat match goal with k : nat |- _ => destruct k; try reflexivity; try lia end.
Qed.

(* a result built through temporaries (ST::format, hex / base64, UTF-16 / UTF-32 round trips, stream insertion followed
   by to_string: Mem/StringOps.TFreshVia, any number of temporaries) is one of the const footprints too *)
Example c04_nonvacuous_via_temporaries :
  let abc := [97; 98; 99]%N in
  let long := repeat 120%N 20 in
  let ts := [TNew 0 long; TFreshVia 1 0 [long; abc] (long ++ long); TReads 0; TSetBytes 1 abc; TReads 0; TDel 1; TDel 0] in
  is_const (TFreshVia 1 0 [long; abc] (long ++ long)) = true /\
  wf_tops sstore0 ts /\ fst (run_tops 16 ts store0) = map expected_result ts.
Proof.
  vm_compute. repeat split; try discriminate; try reflexivity; intros; try lia;
  repeat match goal with k : nat |- _ => destruct k; try reflexivity; try lia end.
Qed.
