(* Codec/ProofsDecHex.v — the hex decoder of Codec/Model.v, for every byte
   string and every output size: one closed form for the caller-buffer routine
   (hex_decode_buf_run) and one for the allocating wrapper (hex_decode_run);
   everything C14/C15 say about hex is read off these two.                    *)
From Coq Require Import NArith ZArith List Bool Lia Arith.
From Coq Require Import ZifyBool ZifyNat ZifyN.
From ST Require Import Base.Outcome Base.Units Gen.Tables Codec.Spec Codec.Model
  Codec.ProofsTables Codec.ProofsBits Codec.ProofsSpec.
Import ListNotations.
Local Open Scope N_scope.
Ltac Zify.zify_post_hook ::= Z.div_mod_to_equations.

Lemma valz_neg o : (valz o <? 0)%Z = match o with Some _ => false | None => true end.
Proof. destruct o as [v|]; cbn [valz]; [apply Z.ltb_ge; lia|reflexivity]. Qed.

Lemma push_ok osize w v : (length w < osize)%nat -> push osize w v = Ok (w ++ [v mod 256]).
Proof. intros H. unfold push. apply Nat.ltb_lt in H. rewrite H. reflexivity. Qed.

Lemma length_snoc {A} (w : list A) x : length (w ++ [x]) = S (length w).
Proof. rewrite app_length. cbn [length]. lia. Qed.

(* dropping the two characters already consumed *)
Lemma hex_loop_shift f : forall a b s sp w endp osize,
  hex_decode_loop f (a :: b :: s) (S (S sp)) w endp osize = hex_decode_loop f s sp w endp osize.
Proof.
  induction f as [|f IH]; intros a b s sp w endp osize; [reflexivity|].
  cbn [hex_decode_loop]. destruct (Nat.ltb (length w) endp); [|reflexivity].
  change (cs_at (a :: b :: s) (S (S sp))) with (cs_at s sp).
  change (cs_at (a :: b :: s) (S (S (S sp)))) with (cs_at s (S sp)).
  destruct (cs_at s sp) as [c0| | |]; cbn [bind]; try reflexivity.
  destruct (cs_at s (S sp)) as [c1| | |]; cbn [bind]; try reflexivity.
  destruct (tbl hex_values c0) as [b0| | |]; cbn [bind]; try reflexivity.
  destruct (tbl hex_values c1) as [b1| | |]; cbn [bind]; try reflexivity.
  destruct ((b0 <? 0)%Z || (b1 <? 0)%Z); [reflexivity|].
  destruct (push osize w _) as [w'| | |]; cbn [bind]; try reflexivity.
  apply IH.
Qed.

Definition hex_result (w : list N) (s : list N) : Z * list N :=
  (if fst (hex_scan s) then Z.of_nat (length w + length (snd (hex_scan s))) else (-1)%Z,
   w ++ snd (hex_scan s)).

Lemma hex_loop_run s : Nat.even (length s) = true -> bytes_ok s = true ->
  forall fuel w endp osize,
    endp = (length w + length s / 2)%nat -> (endp <= osize)%nat -> (length s / 2 < fuel)%nat ->
    hex_decode_loop fuel s 0 w endp osize = Ok (hex_result w s).
Proof.
  induction s as [| a | a b t IH] using pair_ind; intros Hev Hb fuel w endp osize He Ho Hf.
  - destruct fuel; [lia|]. cbn [hex_decode_loop].
    assert (L : Nat.ltb (length w) endp = false) by (apply Nat.ltb_ge; cbn [length] in He; lia).
    rewrite L. unfold hex_result. cbn [hex_scan fst snd length]. rewrite app_nil_r.
    do 3 f_equal. lia.
  - discriminate.
  - destruct fuel as [|f]; [lia|].
    apply bytes_ok_cons in Hb. destruct Hb as [Ha Hb].
    apply bytes_ok_cons in Hb. destruct Hb as [Hb' Ht].
    assert (E2 : (length (a :: b :: t) / 2 = S (length t / 2))%nat) by (cbn [length]; lia).
    cbn [hex_decode_loop].
    assert (L : Nat.ltb (length w) endp = true) by (apply Nat.ltb_lt; lia).
    rewrite L.
    change (cs_at (a :: b :: t) 0) with (Ok (A:=N) a).
    change (cs_at (a :: b :: t) 1) with (Ok (A:=N) b). cbn [bind].
    rewrite (hex_values_ok a Ha), (hex_values_ok b Hb'). cbn [bind].
    rewrite !valz_neg. unfold hex_result. cbn [hex_scan].
    destruct (hexval a) as [x|] eqn:Ea; [|cbn [orb fst snd]; now rewrite app_nil_r].
    destruct (hexval b) as [y|] eqn:Eb; [|cbn [orb fst snd]; now rewrite app_nil_r].
    cbn [orb valz].
    rewrite push_ok by lia. cbn [bind].
    rewrite (hexdec x y (hexval_lt a x Ha Ea) (hexval_lt b y Hb' Eb)).
    rewrite hex_loop_shift.
    rewrite (IH Hev Ht f (w ++ [16 * x + y]) endp osize);
      [|rewrite length_snoc; lia|exact Ho|lia].
    unfold hex_result. cbn [fst snd length]. rewrite length_snoc, <- app_assoc. cbn [app].
    destruct (fst (hex_scan t)); [|reflexivity]. do 3 f_equal. lia.
Qed.

(* ---- the caller-buffer decoder, closed form, any output size ---- *)
Theorem hex_decode_buf_run s osize : bytes_ok s = true ->
  hex_decode_buf s true osize =
  if negb (Nat.even (length s)) then Ok ((-1)%Z, [])
  else if Nat.ltb osize (length s / 2) then Ok ((-1)%Z, [])
  else Ok (if valid_hex s then Z.of_nat (length s / 2) else (-1)%Z, snd (hex_scan s)).
Proof.
  intros Hb. unfold hex_decode_buf. destruct (Nat.even (length s)) eqn:Hev; cbn [negb]; [|reflexivity].
  destruct (Nat.ltb osize (length s / 2)) eqn:Ho; [reflexivity|]. apply Nat.ltb_ge in Ho.
  rewrite (hex_loop_run s Hev Hb (S (length s / 2)) [] (length s / 2) osize); [|reflexivity|exact Ho|lia].
  unfold hex_result. cbn [length app Nat.add]. rewrite hex_scan_valid.
  destruct (valid_hex s) eqn:V; [|reflexivity].
  destruct (hex_scan_len s) as [_ L]. rewrite hex_scan_valid in L. rewrite (L V). reflexivity.
Qed.

Lemma hex_decode_buf_null s osize :
  hex_decode_buf s false osize =
  Ok (match hex_decoded_len s with Some n => Z.of_nat n | None => (-1)%Z end, []).
Proof.
  unfold hex_decode_buf, hex_decoded_len. destruct (Nat.even (length s)); reflexivity.
Qed.

(* ---- the allocating wrapper ---- *)
Theorem hex_decode_run s : bytes_ok s = true ->
  hex_decode s = if valid_hex s then Ok (snd (hex_scan s)) else Throw CodecError.
Proof.
  intros Hb. unfold hex_decode.
  destruct (Nat.even (length s)) eqn:Hev; cbn [negb].
  2:{ unfold valid_hex. rewrite Hev. reflexivity. }
  rewrite (hex_decode_buf_run s _ Hb), Hev, Nat.ltb_irrefl. cbn [negb bind].
  destruct (valid_hex s) eqn:V.
  - assert (Z1 : (Z.of_nat (length s / 2) <? 0)%Z = false) by (apply Z.ltb_ge; lia).
    rewrite Z1, Z.eqb_refl. cbn [negb].
    destruct (hex_scan_len s) as [_ L]. rewrite hex_scan_valid in L. rewrite (L V), Nat.eqb_refl.
    reflexivity.
  - reflexivity.
Qed.

Lemma hex_scan_snd_valid s : valid_hex s = true -> hex_decode_spec s = Some (snd (hex_scan s)).
Proof. apply hex_decode_spec_valid. Qed.
