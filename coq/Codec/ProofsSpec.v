(* Codec/ProofsSpec.v — facts about Codec/Spec.v alone (no model, no tables):
   lengths, the forward "scan" reading of valid_hex / valid_b64 (which the Spec
   states with `rev`), decoded lengths, and decode_spec (encode_spec b) = b.    *)
From Coq Require Import NArith ZArith List Bool Lia Arith.
From Coq Require Import ZifyBool ZifyNat ZifyN.
From ST Require Import Base.Outcome Base.Units Base.Sweep Codec.Spec Codec.ProofsBits.
Import ListNotations.
Local Open Scope N_scope.
Ltac Zify.zify_post_hook ::= Z.div_mod_to_equations.

(* ---------- induction principles: 2, 3 and 4 elements at a time ---------- *)
Lemma pair_ind {A} (P : list A -> Prop) :
  P [] -> (forall a, P [a]) -> (forall a b t, P t -> P (a :: b :: t)) -> forall l, P l.
Proof.
  intros H0 H1 H2. fix IH 1. intros [|a [|b t]]; [exact H0|exact (H1 a)|].
  apply H2. apply IH.
Qed.

Lemma triple_ind {A} (P : list A -> Prop) :
  P [] -> (forall a, P [a]) -> (forall a b, P [a; b]) ->
  (forall a b c t, P t -> P (a :: b :: c :: t)) -> forall l, P l.
Proof.
  intros H0 H1 H2 H3. fix IH 1. intros [|a [|b [|c t]]]; [exact H0|exact (H1 a)|exact (H2 a b)|].
  apply H3. apply IH.
Qed.

Lemma quad_ind {A} (P : list A -> Prop) :
  P [] -> (forall a b c d t, (length t mod 4 = 0)%nat -> P t -> P (a :: b :: c :: d :: t)) ->
  forall l, (length l mod 4 = 0)%nat -> P l.
Proof.
  intros H0 H4.
  assert (G : forall n l, length l = (4 * n)%nat -> P l).
  { induction n as [|n IH]; intros l E.
    - destruct l; [exact H0|discriminate].
    - destruct l as [|a [|b [|c [|d t]]]]; cbn [length] in E; try lia.
      assert (Et : length t = (4 * n)%nat) by lia.
      apply H4; [|apply IH; exact Et]. rewrite Et. rewrite Nat.mul_comm. apply Nat.mod_mul. discriminate. }
  intros l E. apply (G (length l / 4)%nat). lia.
Qed.

(* ---------- bytes ---------- *)
Lemma bytes_ok_cons a l : bytes_ok (a :: l) = true <-> a < 256 /\ bytes_ok l = true.
Proof.
  unfold bytes_ok, all_lt. cbn [forallb]. rewrite andb_true_iff, N.ltb_lt. tauto.
Qed.

Lemma bytes_ok_nil : bytes_ok [] = true.
Proof. reflexivity. Qed.

(* ---------- hex: lengths, scan, validity ---------- *)
Lemma hex_spec_cons x t : hex_spec (x :: t) = hex_digit (x / 16) :: hex_digit (x mod 16) :: hex_spec t.
Proof. reflexivity. Qed.

Lemma hex_length b : length (hex_spec b) = (2 * length b)%nat.
Proof.
  induction b as [|x t IH]; [reflexivity|].
  rewrite hex_spec_cons. cbn [length]. rewrite IH. lia.
Qed.

(* decodes pairs until the first bad one; flag = reached the end cleanly *)
Fixpoint hex_scan (s : list N) : bool * list N :=
  match s with
  | [] => (true, [])
  | [_] => (false, [])
  | a :: b :: t =>
      match hexval a, hexval b with
      | Some x, Some y => (fst (hex_scan t), 16 * x + y :: snd (hex_scan t))
      | _, _ => (false, [])
      end
  end.

Lemma hex_scan_valid s : fst (hex_scan s) = valid_hex s.
Proof.
  induction s as [| a | a b t IH] using pair_ind; [reflexivity|reflexivity|].
  unfold valid_hex in *. cbn [hex_scan length Nat.even forallb]. unfold is_hexdigit at 1 2.
  destruct (hexval a); [|cbn; now rewrite andb_false_r].
  destruct (hexval b); [|cbn; now rewrite andb_false_r].
  cbn [fst andb]. exact IH.
Qed.

Lemma hex_scan_spec s :
  hex_decode_spec s = if fst (hex_scan s) then Some (snd (hex_scan s)) else None.
Proof.
  induction s as [| a | a b t IH] using pair_ind; [reflexivity|reflexivity|].
  cbn [hex_scan hex_decode_spec].
  destruct (hexval a); [|reflexivity]. destruct (hexval b); [|reflexivity].
  rewrite IH. cbn [fst snd]. destruct (fst (hex_scan t)); reflexivity.
Qed.

Lemma hex_scan_len s : (length (snd (hex_scan s)) <= length s / 2)%nat /\
  (fst (hex_scan s) = true -> length (snd (hex_scan s)) = (length s / 2)%nat).
Proof.
  induction s as [| a | a b t IH] using pair_ind.
  - cbn. split; [lia|reflexivity].
  - cbn. split; [lia|discriminate].
  - cbn [hex_scan]. destruct (hexval a); [|cbn [fst snd length]; split; [lia|discriminate]].
    destruct (hexval b); [|cbn [fst snd length]; split; [lia|discriminate]].
    cbn [fst snd length]. destruct IH as [I1 I2].
    assert (E : (S (S (length t)) / 2 = S (length t / 2))%nat) by lia.
    rewrite E. split; [lia|]. intros H. rewrite (I2 H). reflexivity.
Qed.

Lemma valid_hex_even s : valid_hex s = true -> Nat.even (length s) = true.
Proof. unfold valid_hex. intros H. apply andb_true_iff in H. tauto. Qed.

Lemma hex_decode_spec_valid s : valid_hex s = true -> hex_decode_spec s = Some (snd (hex_scan s)).
Proof. intros H. rewrite hex_scan_spec, hex_scan_valid, H. reflexivity. Qed.

Lemma hex_decode_spec_invalid s : valid_hex s = false -> hex_decode_spec s = None.
Proof. intros H. rewrite hex_scan_spec, hex_scan_valid, H. reflexivity. Qed.

(* decode_spec (encode_spec b) = b, lower and upper case *)
Lemma hex_spec_round_trip b : bytes_ok b = true -> hex_decode_spec (hex_spec b) = Some b.
Proof.
  induction b as [|x t IH]; intros Hb; [reflexivity|].
  apply bytes_ok_cons in Hb. destruct Hb as [Hx Ht].
  rewrite hex_spec_cons. cbn [hex_decode_spec].
  destruct (hexval_digit (x / 16)) as [E1 _]; [lia|].
  destruct (hexval_digit (x mod 16)) as [E2 _]; [lia|].
  rewrite E1, E2, (IH Ht). f_equal. f_equal. lia.
Qed.

Lemma hex_spec_upper_round_trip b :
  bytes_ok b = true -> hex_decode_spec (map toupper (hex_spec b)) = Some b.
Proof.
  induction b as [|x t IH]; intros Hb; [reflexivity|].
  apply bytes_ok_cons in Hb. destruct Hb as [Hx Ht].
  rewrite hex_spec_cons. cbn [map hex_decode_spec].
  destruct (hexval_digit (x / 16)) as [_ E1]; [lia|].
  destruct (hexval_digit (x mod 16)) as [_ E2]; [lia|].
  rewrite E1, E2, (IH Ht). f_equal. f_equal. lia.
Qed.

Lemma toupper_byte c : c < 256 -> toupper c < 256.
Proof. intros H. unfold toupper. destruct ((97 <=? c) && (c <=? 122)); lia. Qed.

Lemma hex_spec_bytes b : bytes_ok b = true -> bytes_ok (hex_spec b) = true.
Proof.
  induction b as [|x t IH]; intros Hb; [reflexivity|].
  apply bytes_ok_cons in Hb. destruct Hb as [Hx Ht]. rewrite hex_spec_cons.
  apply bytes_ok_cons. split; [apply hex_digit_byte; lia|].
  apply bytes_ok_cons. split; [apply hex_digit_byte; lia|auto].
Qed.

Lemma map_toupper_bytes s : bytes_ok s = true -> bytes_ok (map toupper s) = true.
Proof.
  induction s as [|x t IH]; intros Hb; [reflexivity|].
  apply bytes_ok_cons in Hb. destruct Hb as [Hx Ht]. cbn [map].
  apply bytes_ok_cons. split; [now apply toupper_byte|auto].
Qed.

Lemma decode_some_valid_hex s r : hex_decode_spec s = Some r -> valid_hex s = true.
Proof.
  rewrite hex_scan_spec, hex_scan_valid. destruct (valid_hex s); [reflexivity|discriminate].
Qed.

(* ---------- base64: the 24-bit group number cut into sextets ---------- *)
Lemma sextets_group b0 b1 b2 : b0 < 256 -> b1 < 256 -> b2 < 256 ->
  sextets (group24 b0 b1 b2) =
  [b0 / 4; (b0 mod 4) * 16 + b1 / 16; (b1 mod 16) * 4 + b2 / 64; b2 mod 64].
Proof.
  intros H0 H1 H2. unfold sextets, group24.
  f_equal; [lia|]. f_equal; [lia|]. f_equal; [lia|]. f_equal; lia.
Qed.

Lemma sextet_ranges b0 b1 b2 : b0 < 256 -> b1 < 256 -> b2 < 256 ->
  b0 / 4 < 64 /\ (b0 mod 4) * 16 + b1 / 16 < 64 /\ (b1 mod 16) * 4 + b2 / 64 < 64 /\ b2 mod 64 < 64.
Proof. intros. repeat split; lia. Qed.

Lemma b64_spec_3 b0 b1 b2 t : b0 < 256 -> b1 < 256 -> b2 < 256 ->
  b64_spec (b0 :: b1 :: b2 :: t) =
  b64_char (b0 / 4) :: b64_char ((b0 mod 4) * 16 + b1 / 16) ::
  b64_char ((b1 mod 16) * 4 + b2 / 64) :: b64_char (b2 mod 64) :: b64_spec t.
Proof. intros H0 H1 H2. cbn [b64_spec]. rewrite sextets_group by assumption. reflexivity. Qed.

Lemma b64_spec_2 b0 b1 : b0 < 256 -> b1 < 256 ->
  b64_spec [b0; b1] =
  [b64_char (b0 / 4); b64_char ((b0 mod 4) * 16 + b1 / 16); b64_char ((b1 mod 16) * 4); pad_char].
Proof.
  intros H0 H1. cbn [b64_spec]. rewrite sextets_group by lia.
  replace (0 / 64) with 0 by reflexivity. rewrite N.add_0_r. reflexivity.
Qed.

Lemma b64_spec_1 b0 : b0 < 256 ->
  b64_spec [b0] = [b64_char (b0 / 4); b64_char ((b0 mod 4) * 16); pad_char; pad_char].
Proof.
  intros H0. cbn [b64_spec]. rewrite sextets_group by lia.
  replace (0 / 16) with 0 by reflexivity. rewrite N.add_0_r. reflexivity.
Qed.

Lemma b64_length b : length (b64_spec b) = (4 * ((length b + 2) / 3))%nat.
Proof.
  induction b as [| a | a c | a c d t IH] using triple_ind; [reflexivity|reflexivity|reflexivity|].
  cbn [b64_spec]. rewrite app_length, IH. cbn [sextets map length]. lia.
Qed.

(* ---------- base64: the `rev`-based Spec definitions, read forwards ---------- *)
Definition vtail (s : list N) : bool :=
  match rev s with
  | [] => true
  | c1 :: c2 :: rest =>
      if c1 =? pad_char then
        (if c2 =? pad_char then forallb is_b64char rest
         else is_b64char c2 && forallb is_b64char rest)
      else is_b64char c1 && is_b64char c2 && forallb is_b64char rest
  | _ => false
  end.
Definition pad1 (s : list N) : nat :=
  match rev s with c1 :: _ => if c1 =? pad_char then 1%nat else 0%nat | _ => 0%nat end.
Definition pad2 (s : list N) : nat :=
  match rev s with _ :: c2 :: _ => if c2 =? pad_char then 1%nat else 0%nat | _ => 0%nat end.
Definition dlen (s : list N) : nat := (length s / 4 * 3 - pad1 s - pad2 s)%nat.

Lemma valid_b64_unfold s : valid_b64 s = Nat.eqb (length s mod 4) 0 && vtail s.
Proof. reflexivity. Qed.
Lemma b64_decoded_len_unfold s :
  b64_decoded_len s = if Nat.eqb (length s mod 4) 0 then Some (dlen s) else None.
Proof. reflexivity. Qed.

Lemma rev_cons2 (a : N) s : (2 <= length s)%nat ->
  exists c1 c2 r, rev s = c1 :: c2 :: r /\ rev (a :: s) = c1 :: c2 :: (r ++ [a]).
Proof.
  intros H. pose proof (rev_length s) as L.
  destruct (rev s) as [|c1 [|c2 r]] eqn:E; cbn [length] in L; try lia.
  exists c1, c2, r. split; [reflexivity|]. cbn [rev]. rewrite E. reflexivity.
Qed.

Lemma vtail_cons a s : (2 <= length s)%nat -> vtail (a :: s) = is_b64char a && vtail s.
Proof.
  intros H. destruct (rev_cons2 a s H) as (c1 & c2 & r & E1 & E2).
  unfold vtail. rewrite E1, E2. rewrite forallb_app. cbn [forallb].
  destruct (c1 =? pad_char), (c2 =? pad_char), (is_b64char a), (is_b64char c1), (is_b64char c2),
    (forallb is_b64char r); reflexivity.
Qed.

Lemma pad_cons a s : (2 <= length s)%nat -> pad1 (a :: s) = pad1 s /\ pad2 (a :: s) = pad2 s.
Proof.
  intros H. destruct (rev_cons2 a s H) as (c1 & c2 & r & E1 & E2).
  unfold pad1, pad2. rewrite E1, E2. split; reflexivity.
Qed.

Lemma pad_le s : (pad1 s <= 1 /\ pad2 s <= 1)%nat.
Proof.
  unfold pad1, pad2. destruct (rev s) as [|c1 [|c2 r]]; try (split; lia).
  - destruct (c1 =? pad_char); split; lia.
  - destruct (c1 =? pad_char), (c2 =? pad_char); split; lia.
Qed.

Lemma vtail_cons4 a b c d t : (2 <= length t)%nat ->
  vtail (a :: b :: c :: d :: t) =
  is_b64char a && is_b64char b && is_b64char c && is_b64char d && vtail t.
Proof.
  intros H. rewrite !vtail_cons by (cbn [length]; lia).
  destruct (is_b64char a), (is_b64char b), (is_b64char c), (is_b64char d); reflexivity.
Qed.

Lemma dlen_cons4 a b c d t : (4 <= length t)%nat -> dlen (a :: b :: c :: d :: t) = (3 + dlen t)%nat.
Proof.
  intros H. unfold dlen.
  destruct (pad_cons a (b :: c :: d :: t)) as [A1 A2]; [cbn [length]; lia|].
  destruct (pad_cons b (c :: d :: t)) as [B1 B2]; [cbn [length]; lia|].
  destruct (pad_cons c (d :: t)) as [C1 C2]; [cbn [length]; lia|].
  destruct (pad_cons d t) as [D1 D2]; [lia|].
  rewrite A1, A2, B1, B2, C1, C2, D1, D2.
  destruct (pad_le t) as [P1 P2]. cbn [length]. lia.
Qed.

Lemma dlen_bounds s : (length s mod 4 = 0)%nat -> s <> [] ->
  (1 <= dlen s <= length s / 4 * 3 /\ length s / 4 * 3 <= dlen s + 2)%nat.
Proof.
  intros M N0. unfold dlen. destruct (pad_le s) as [P1 P2].
  assert (4 <= length s)%nat by (destruct s; [congruence|cbn [length] in *; lia]).
  lia.
Qed.

Lemma mod4_tail {A} (t : list A) : (length t mod 4 = 0)%nat -> t <> [] -> (4 <= length t)%nat.
Proof. intros M N0. destruct t; [congruence|cbn [length] in *; lia]. Qed.

(* decodes groups until the first rejected one, writing exactly what the
   property allows to be written; flag = whole string accepted *)
Definition byte0 (v0 v1 : N) : N := v0 * 4 + v1 / 16.
Definition byte1 (v1 v2 : N) : N := (v1 mod 16) * 16 + v2 / 4.
Definition byte2 (v2 v3 : N) : N := (v2 mod 4) * 64 + v3.

Definition b64_final (c0 c1 c2 c3 : N) : bool * list N :=
  match b64val c0, b64val c1 with
  | Some v0, Some v1 =>
      if c2 =? pad_char then
        (if c3 =? pad_char then (true, [byte0 v0 v1]) else (false, [byte0 v0 v1]))
      else match b64val c2 with
           | None => (false, [byte0 v0 v1])
           | Some v2 =>
               if c3 =? pad_char then (true, [byte0 v0 v1; byte1 v1 v2])
               else match b64val c3 with
                    | None => (false, [byte0 v0 v1; byte1 v1 v2])
                    | Some v3 => (true, [byte0 v0 v1; byte1 v1 v2; byte2 v2 v3])
                    end
           end
  | _, _ => (false, [])
  end.

Fixpoint b64_scan (s : list N) : bool * list N :=
  match s with
  | [] => (true, [])
  | c0 :: c1 :: c2 :: c3 :: t =>
      match t with
      | [] => b64_final c0 c1 c2 c3
      | _ =>
          match b64val c0, b64val c1, b64val c2, b64val c3 with
          | Some v0, Some v1, Some v2, Some v3 =>
              (fst (b64_scan t), byte0 v0 v1 :: byte1 v1 v2 :: byte2 v2 v3 :: snd (b64_scan t))
          | _, _, _, _ => (false, [])
          end
      end
  | _ => (false, [])
  end.

Lemma pad_not_b64 c : (c =? pad_char) = true -> b64val c = None.
Proof. intros H. apply N.eqb_eq in H. subst. reflexivity. Qed.

Lemma b64_scan_cons4 c0 c1 c2 c3 x t :
  b64_scan (c0 :: c1 :: c2 :: c3 :: x :: t) =
  match b64val c0, b64val c1, b64val c2, b64val c3 with
  | Some v0, Some v1, Some v2, Some v3 =>
      (fst (b64_scan (x :: t)), byte0 v0 v1 :: byte1 v1 v2 :: byte2 v2 v3 :: snd (b64_scan (x :: t)))
  | _, _, _, _ => (false, [])
  end.
Proof. reflexivity. Qed.

Lemma b64_final_valid c0 c1 c2 c3 : fst (b64_final c0 c1 c2 c3) = valid_b64 [c0; c1; c2; c3].
Proof.
  unfold valid_b64, b64_final. cbn [length rev app Nat.modulo Nat.eqb andb forallb].
  change (Nat.eqb (4 mod 4) 0) with true. cbn [andb]. unfold is_b64char.
  destruct (c3 =? pad_char) eqn:P3; destruct (c2 =? pad_char) eqn:P2;
    try rewrite (pad_not_b64 c3 P3); try rewrite (pad_not_b64 c2 P2);
    destruct (b64val c0), (b64val c1); cbn [fst andb]; try reflexivity;
    try (destruct (b64val c3); reflexivity);
    try (destruct (b64val c2); reflexivity);
    destruct (b64val c2); destruct (b64val c3); reflexivity.
Qed.

Lemma b64_scan_valid s : (length s mod 4 = 0)%nat -> fst (b64_scan s) = valid_b64 s.
Proof.
  revert s. apply (quad_ind (fun s => fst (b64_scan s) = valid_b64 s)); [reflexivity|].
  intros c0 c1 c2 c3 t Mt IH. destruct t as [|x t'].
  - cbn [b64_scan]. apply b64_final_valid.
  - rewrite b64_scan_cons4. rewrite valid_b64_unfold.
    assert (L : (4 <= length (x :: t'))%nat) by (apply mod4_tail; [exact Mt|discriminate]).
    rewrite vtail_cons4 by lia.
    assert (E4 : Nat.eqb (length (c0 :: c1 :: c2 :: c3 :: x :: t') mod 4) 0 = true).
    { apply Nat.eqb_eq. cbn [length] in *. lia. }
    rewrite E4. cbn [andb].
    rewrite IH, valid_b64_unfold. apply Nat.eqb_eq in Mt. rewrite Mt. cbn [andb].
    unfold is_b64char.
    destruct (b64val c0), (b64val c1), (b64val c2), (b64val c3); reflexivity.
Qed.

Lemma b64_final_spec c0 c1 c2 c3 :
  b64_decode_spec [c0; c1; c2; c3] =
  if fst (b64_final c0 c1 c2 c3) then Some (snd (b64_final c0 c1 c2 c3)) else None.
Proof.
  unfold b64_final. cbn [b64_decode_spec].
  destruct (b64val c0); [|reflexivity]. destruct (b64val c1); [|reflexivity].
  destruct (c2 =? pad_char); [destruct (c3 =? pad_char); reflexivity|].
  destruct (b64val c2); [|reflexivity].
  destruct (c3 =? pad_char); [reflexivity|].
  destruct (b64val c3); reflexivity.
Qed.

Lemma b64_scan_spec s : (length s mod 4 = 0)%nat ->
  b64_decode_spec s = if fst (b64_scan s) then Some (snd (b64_scan s)) else None.
Proof.
  revert s. apply (quad_ind (fun s => b64_decode_spec s =
    if fst (b64_scan s) then Some (snd (b64_scan s)) else None)); [reflexivity|].
  intros c0 c1 c2 c3 t Mt IH. destruct t as [|x t'].
  - cbn [b64_scan]. apply b64_final_spec.
  - rewrite b64_scan_cons4.
    change (b64_decode_spec (c0 :: c1 :: c2 :: c3 :: x :: t')) with
      (match b64val c0, b64val c1 with
       | Some v0, Some v1 =>
           match b64val c2, b64val c3, b64_decode_spec (x :: t') with
           | Some v2, Some v3, Some r =>
               Some (v0 * 4 + v1 / 16 :: ((v1 mod 16) * 16 + v2 / 4) :: ((v2 mod 4) * 64 + v3) :: r)
           | _, _, _ => None
           end
       | _, _ => None
       end).
    destruct (b64val c0); [|reflexivity]. destruct (b64val c1); [|reflexivity].
    destruct (b64val c2); [|reflexivity]. destruct (b64val c3); [|reflexivity].
    rewrite IH. cbn [fst snd]. destruct (fst (b64_scan (x :: t'))); reflexivity.
Qed.

Lemma dlen_4 c0 c1 c2 c3 :
  dlen [c0; c1; c2; c3] =
  (3 - (if N.eqb c3 pad_char then 1 else 0) - (if N.eqb c2 pad_char then 1 else 0))%nat.
Proof. reflexivity. Qed.

Lemma b64_final_len c0 c1 c2 c3 :
  (length (snd (b64_final c0 c1 c2 c3)) <= dlen [c0; c1; c2; c3])%nat /\
  (fst (b64_final c0 c1 c2 c3) = true ->
   length (snd (b64_final c0 c1 c2 c3)) = dlen [c0; c1; c2; c3]).
Proof.
  rewrite dlen_4. unfold b64_final.
  destruct (b64val c0); [|cbn [fst snd length]; split; [lia|discriminate]].
  destruct (b64val c1); [|cbn [fst snd length]; split; [lia|discriminate]].
  destruct (c2 =? pad_char); [destruct (c3 =? pad_char); cbn [fst snd length]; split; try lia; try discriminate|].
  destruct (b64val c2); [|destruct (c3 =? pad_char); cbn [fst snd length]; split; try lia; discriminate].
  destruct (c3 =? pad_char); [cbn [fst snd length]; split; lia|].
  destruct (b64val c3); cbn [fst snd length]; split; try lia; discriminate.
Qed.

Lemma b64_scan_len s : (length s mod 4 = 0)%nat ->
  (length (snd (b64_scan s)) <= dlen s)%nat /\
  (fst (b64_scan s) = true -> length (snd (b64_scan s)) = dlen s).
Proof.
  revert s. apply (quad_ind (fun s => (length (snd (b64_scan s)) <= dlen s)%nat /\
    (fst (b64_scan s) = true -> length (snd (b64_scan s)) = dlen s))).
  - cbn. split; [lia|reflexivity].
  - intros c0 c1 c2 c3 t Mt IH. destruct t as [|x t'].
    + cbn [b64_scan]. apply b64_final_len.
    + rewrite b64_scan_cons4.
      assert (L : (4 <= length (x :: t'))%nat) by (apply mod4_tail; [exact Mt|discriminate]).
      rewrite dlen_cons4 by exact L. destruct IH as [I1 I2].
      destruct (b64val c0); [|cbn [fst snd length]; split; [lia|discriminate]].
      destruct (b64val c1); [|cbn [fst snd length]; split; [lia|discriminate]].
      destruct (b64val c2); [|cbn [fst snd length]; split; [lia|discriminate]].
      destruct (b64val c3); [|cbn [fst snd length]; split; [lia|discriminate]].
      cbn [fst snd length]. split; [lia|]. intros H. rewrite (I2 H). reflexivity.
Qed.

Lemma valid_b64_mod4 s : valid_b64 s = true -> (length s mod 4 = 0)%nat.
Proof.
  rewrite valid_b64_unfold. intros H. apply andb_true_iff in H. destruct H as [H _].
  now apply Nat.eqb_eq in H.
Qed.

Lemma b64_decode_spec_valid s : valid_b64 s = true -> b64_decode_spec s = Some (snd (b64_scan s)).
Proof.
  intros H. pose proof (valid_b64_mod4 s H) as M.
  rewrite (b64_scan_spec s M), (b64_scan_valid s M), H. reflexivity.
Qed.

Lemma decode_some_valid_b64 s r : (length s mod 4 = 0)%nat ->
  b64_decode_spec s = Some r -> valid_b64 s = true.
Proof.
  intros M. rewrite (b64_scan_spec s M), (b64_scan_valid s M).
  destruct (valid_b64 s); [reflexivity|discriminate].
Qed.

(* ---------- base64: decode_spec (b64_spec b) = b ---------- *)
Lemma b64_spec_mod4 b : (length (b64_spec b) mod 4 = 0)%nat.
Proof. rewrite b64_length. rewrite Nat.mul_comm. apply Nat.mod_mul. discriminate. Qed.

Lemma b64_spec_nonempty a t : b64_spec (a :: t) <> [].
Proof.
  intros E. apply (f_equal (@length N)) in E. rewrite b64_length in E. cbn [length] in E. lia.
Qed.

Lemma b64_spec_round_trip b : bytes_ok b = true -> b64_decode_spec (b64_spec b) = Some b.
Proof.
  induction b as [| a | a c | a c d t IH] using triple_ind; intros Hb.
  - reflexivity.
  - apply bytes_ok_cons in Hb. destruct Hb as [Ha _]. rewrite b64_spec_1 by exact Ha.
    cbn [b64_decode_spec].
    destruct (b64val_char (a / 4)) as (E0 & _ & _); [lia|].
    destruct (b64val_char ((a mod 4) * 16)) as (E1 & _ & _); [lia|].
    rewrite E0, E1. rewrite N.eqb_refl. f_equal. f_equal. lia.
  - apply bytes_ok_cons in Hb. destruct Hb as [Ha Hb].
    apply bytes_ok_cons in Hb. destruct Hb as [Hc _]. rewrite b64_spec_2 by assumption.
    cbn [b64_decode_spec].
    destruct (b64val_char (a / 4)) as (E0 & _ & _); [lia|].
    destruct (b64val_char ((a mod 4) * 16 + c / 16)) as (E1 & _ & _); [lia|].
    destruct (b64val_char ((c mod 16) * 4)) as (E2 & P2 & _); [lia|].
    rewrite E0, E1, P2, E2. rewrite N.eqb_refl. f_equal. f_equal; [lia|]. f_equal. lia.
  - apply bytes_ok_cons in Hb. destruct Hb as [Ha Hb].
    apply bytes_ok_cons in Hb. destruct Hb as [Hc Hb].
    apply bytes_ok_cons in Hb. destruct Hb as [Hd Ht].
    rewrite b64_spec_3 by assumption. specialize (IH Ht).
    destruct (b64val_char (a / 4)) as (E0 & _ & _); [lia|].
    destruct (b64val_char ((a mod 4) * 16 + c / 16)) as (E1 & _ & _); [lia|].
    destruct (b64val_char ((c mod 16) * 4 + d / 64)) as (E2 & P2 & _); [lia|].
    destruct (b64val_char (d mod 64)) as (E3 & P3 & _); [lia|].
    destruct t as [|x t'].
    + cbn [b64_spec b64_decode_spec]. rewrite E0, E1, P2, E2, P3, E3.
      f_equal. f_equal; [lia|]. f_equal; [lia|]. f_equal. lia.
    + remember (b64_spec (x :: t')) as tail eqn:ET.
      destruct tail as [|y tail']; [symmetry in ET; now apply b64_spec_nonempty in ET|].
      change (b64_decode_spec (?k0 :: ?k1 :: ?k2 :: ?k3 :: y :: tail')) with
        (match b64val k0, b64val k1 with
         | Some v0, Some v1 =>
             match b64val k2, b64val k3, b64_decode_spec (y :: tail') with
             | Some v2, Some v3, Some r =>
                 Some (v0 * 4 + v1 / 16 :: ((v1 mod 16) * 16 + v2 / 4) :: ((v2 mod 4) * 64 + v3) :: r)
             | _, _, _ => None
             end
         | _, _ => None
         end).
      rewrite E0, E1, E2, E3, IH.
      f_equal. f_equal; [lia|]. f_equal; [lia|]. f_equal. lia.
Qed.

Lemma b64_spec_bytes b : bytes_ok b = true -> bytes_ok (b64_spec b) = true.
Proof.
  induction b as [| a | a c | a c d t IH] using triple_ind; intros Hb.
  - reflexivity.
  - apply bytes_ok_cons in Hb. destruct Hb as [Ha _]. rewrite b64_spec_1 by exact Ha.
    destruct (b64val_char (a / 4)) as (_ & _ & B0); [lia|].
    destruct (b64val_char ((a mod 4) * 16)) as (_ & _ & B1); [lia|].
    repeat (apply bytes_ok_cons; split; [assumption || (unfold pad_char; lia)|]). reflexivity.
  - apply bytes_ok_cons in Hb. destruct Hb as [Ha Hb].
    apply bytes_ok_cons in Hb. destruct Hb as [Hc _]. rewrite b64_spec_2 by assumption.
    destruct (b64val_char (a / 4)) as (_ & _ & B0); [lia|].
    destruct (b64val_char ((a mod 4) * 16 + c / 16)) as (_ & _ & B1); [lia|].
    destruct (b64val_char ((c mod 16) * 4)) as (_ & _ & B2); [lia|].
    repeat (apply bytes_ok_cons; split; [assumption || (unfold pad_char; lia)|]). reflexivity.
  - apply bytes_ok_cons in Hb. destruct Hb as [Ha Hb].
    apply bytes_ok_cons in Hb. destruct Hb as [Hc Hb].
    apply bytes_ok_cons in Hb. destruct Hb as [Hd Ht].
    rewrite b64_spec_3 by assumption.
    destruct (b64val_char (a / 4)) as (_ & _ & B0); [lia|].
    destruct (b64val_char ((a mod 4) * 16 + c / 16)) as (_ & _ & B1); [lia|].
    destruct (b64val_char ((c mod 16) * 4 + d / 64)) as (_ & _ & B2); [lia|].
    destruct (b64val_char (d mod 64)) as (_ & _ & B3); [lia|].
    repeat (apply bytes_ok_cons; split; [assumption|]). auto.
Qed.

Lemma b64_spec_valid b : bytes_ok b = true -> valid_b64 (b64_spec b) = true.
Proof.
  intros Hb. eapply decode_some_valid_b64; [apply b64_spec_mod4|apply b64_spec_round_trip; exact Hb].
Qed.

Lemma hex_spec_valid b : bytes_ok b = true -> valid_hex (hex_spec b) = true.
Proof. intros Hb. eapply decode_some_valid_hex. apply hex_spec_round_trip; exact Hb. Qed.
