(* Codec/ProofsTables.v — finite facts about the GENERATED tables (Gen/Tables.v),
   each closed by one vm_compute sweep over the whole index range.  These are
   the obligations that stop checking when somebody edits a table entry in
   include/st_codecs_priv.h: the tables must agree with the declarative
   alphabet of Codec/Spec.v on every index.                                   *)
From Coq Require Import NArith ZArith List Bool Lia.
From ST Require Import Base.Outcome Base.Units Base.Sweep Gen.Tables Codec.Spec Codec.Model.
Import ListNotations.
Local Open Scope N_scope.

(* the int a value table must hold for character c: digit value, or -1 *)
Definition valz (o : option N) : Z := match o with Some v => Z.of_N v | None => (-1)%Z end.

Definition tbl_is (t : list Z) (i : N) (z : Z) : bool :=
  match tbl t i with Ok x => Z.eqb x z | _ => false end.
Definition tblN_is (t : list Z) (i : N) (c : N) : bool :=
  match tblN t i with Ok x => N.eqb x c | _ => false end.

Lemma tbl_is_spec t i z : tbl_is t i z = true -> tbl t i = Ok z.
Proof.
  unfold tbl_is. destruct (tbl t i) as [x| | |]; try discriminate.
  intros H. apply Z.eqb_eq in H. now subst.
Qed.
Lemma tblN_is_spec t i c : tblN_is t i c = true -> tblN t i = Ok c.
Proof.
  unfold tblN_is. destruct (tblN t i) as [x| | |]; try discriminate.
  intros H. apply N.eqb_eq in H. now subst.
Qed.

(* ---- sizes ---- *)
Lemma hex_chars_length : length hex_chars = 16%nat.   Proof. vm_compute. reflexivity. Qed.
Lemma hex_values_length : length hex_values = 256%nat. Proof. vm_compute. reflexivity. Qed.
Lemma b64_chars_length : length b64_chars = 64%nat.   Proof. vm_compute. reflexivity. Qed.
Lemma b64_values_length : length b64_values = 256%nat. Proof. vm_compute. reflexivity. Qed.

(* ---- the encoder alphabets are the standard ones ---- *)
Lemma hex_chars_sweep : all_below 4 (fun i => tblN_is hex_chars i (hex_digit i)) = true.
Proof. vm_compute. reflexivity. Qed.
Lemma hex_chars_ok i : i < 16 -> tblN hex_chars i = Ok (hex_digit i).
Proof. intros H. apply tblN_is_spec. exact (all_below_spec 4 _ hex_chars_sweep i H). Qed.

Lemma b64_chars_sweep : all_below 6 (fun i => tblN_is b64_chars i (b64_char i)) = true.
Proof. vm_compute. reflexivity. Qed.
Lemma b64_chars_ok i : i < 64 -> tblN b64_chars i = Ok (b64_char i).
Proof. intros H. apply tblN_is_spec. exact (all_below_spec 6 _ b64_chars_sweep i H). Qed.

(* ---- the decoder value tables agree with the alphabet on all 256 bytes:
        digit value inside the alphabet, -1 exactly outside ---- *)
Lemma hex_values_sweep : all_below 8 (fun c => tbl_is hex_values c (valz (hexval c))) = true.
Proof. vm_compute. reflexivity. Qed.
Lemma hex_values_ok c : c < 256 -> tbl hex_values c = Ok (valz (hexval c)).
Proof. intros H. apply tbl_is_spec. exact (all_below_spec 8 _ hex_values_sweep c H). Qed.

Lemma b64_values_sweep : all_below 8 (fun c => tbl_is b64_values c (valz (b64val c))) = true.
Proof. vm_compute. reflexivity. Qed.
Lemma b64_values_ok c : c < 256 -> tbl b64_values c = Ok (valz (b64val c)).
Proof. intros H. apply tbl_is_spec. exact (all_below_spec 8 _ b64_values_sweep c H). Qed.

(* ---- values[chars[i]] = i, stated over the generated tables only ---- *)
Definition inverts (chars values : list Z) (i : N) : bool :=
  match tblN chars i with
  | Ok c => tbl_is values c (Z.of_N i)
  | _ => false
  end.
Lemma inverts_spec chars values i :
  inverts chars values i = true -> exists c, tblN chars i = Ok c /\ tbl values c = Ok (Z.of_N i).
Proof.
  unfold inverts. destruct (tblN chars i) as [c| | |]; try discriminate.
  intros H. exists c. split; [reflexivity|]. now apply tbl_is_spec.
Qed.

Lemma hex_inverts_sweep : all_below 4 (inverts hex_chars hex_values) = true.
Proof. vm_compute. reflexivity. Qed.
Lemma hex_values_of_chars i : i < 16 ->
  exists c, tblN hex_chars i = Ok c /\ tbl hex_values c = Ok (Z.of_N i).
Proof. intros H. apply inverts_spec. exact (all_below_spec 4 _ hex_inverts_sweep i H). Qed.

Lemma b64_inverts_sweep : all_below 6 (inverts b64_chars b64_values) = true.
Proof. vm_compute. reflexivity. Qed.
Lemma b64_values_of_chars i : i < 64 ->
  exists c, tblN b64_chars i = Ok c /\ tbl b64_values c = Ok (Z.of_N i).
Proof. intros H. apply inverts_spec. exact (all_below_spec 6 _ b64_inverts_sweep i H). Qed.

(* upper-case hex digits carry the same values (hex_upper rests on this) *)
Lemma hex_upper_sweep :
  all_below 4 (fun i => match tblN hex_chars i with
                        | Ok c => tbl_is hex_values (toupper c) (Z.of_N i)
                        | _ => false end) = true.
Proof. vm_compute. reflexivity. Qed.
Lemma hex_values_of_upper i : i < 16 ->
  exists c, tblN hex_chars i = Ok c /\ tbl hex_values (toupper c) = Ok (Z.of_N i).
Proof.
  intros H. pose proof (all_below_spec 4 _ hex_upper_sweep i H) as E. cbv beta in E.
  destruct (tblN hex_chars i) as [c| | |]; try discriminate.
  exists c. split; [reflexivity|]. now apply tbl_is_spec.
Qed.

(* '=' is outside both alphabets; -1 exactly outside the alphabet *)
Lemma hex_values_neg_iff c : c < 256 ->
  exists z, tbl hex_values c = Ok z /\ ((z <? 0)%Z = negb (is_hexdigit c)) /\ (-1 <= z < 16)%Z.
Proof.
  intros H. exists (valz (hexval c)). split; [now apply hex_values_ok|].
  pose proof (all_below_spec 8 (fun c => match hexval c with Some v => v <? 16 | None => true end)
                (eq_refl : _ = true) c H) as B. cbv beta in B.
  unfold is_hexdigit. destruct (hexval c) as [v|]; cbn [valz negb].
  - apply N.ltb_lt in B. split; [apply Z.ltb_ge|]; lia.
  - split; [reflexivity|lia].
Qed.

Lemma b64_values_neg_iff c : c < 256 ->
  exists z, tbl b64_values c = Ok z /\ ((z <? 0)%Z = negb (is_b64char c)) /\ (-1 <= z < 64)%Z.
Proof.
  intros H. exists (valz (b64val c)). split; [now apply b64_values_ok|].
  pose proof (all_below_spec 8 (fun c => match b64val c with Some v => v <? 64 | None => true end)
                (eq_refl : _ = true) c H) as B. cbv beta in B.
  unfold is_b64char. destruct (b64val c) as [v|]; cbn [valz negb].
  - apply N.ltb_lt in B. split; [apply Z.ltb_ge|]; lia.
  - split; [reflexivity|lia].
Qed.
