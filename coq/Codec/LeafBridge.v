(* Codec/LeafBridge.v — b64_encode_size and b64_decode_size of Codec/Model.v compute what the functions found in the
   CURRENT headers compute (Gen/Leaf.v, regenerated from the clang AST on every run), for every size below 2^62 and
   every string of bytes.  `char` is signed on this platform: the string's byte b is seen by the source as schar b. *)
From Coq Require Import NArith ZArith Bool Lia List Arith ZifyBool ZifyNat ZifyN.
From ST Require Import Base.Outcome Base.Units Codec.Model Gen.Leaf.
Import ListNotations.
Local Open Scope Z_scope.

Ltac Zify.zify_post_hook ::= Z.div_mod_to_equations.

Lemma wrapu64_id x : 0 <= x < 2 ^ 64 -> wrapu 64 x = x.
Proof. intros H. unfold wrapu. apply Z.mod_small. exact H. Qed.
Lemma wraps64_id x : - 2 ^ 63 <= x < 2 ^ 63 -> wraps 64 x = x.
Proof. intros H. unfold wraps. change (64 - 1) with 63. rewrite Z.mod_small by lia. lia. Qed.
Lemma wraps32_id x : - 2 ^ 31 <= x < 2 ^ 31 -> wraps 32 x = x.
Proof. intros H. unfold wraps. change (32 - 1) with 31. rewrite Z.mod_small by lia. lia. Qed.

Theorem b64_encode_size_matches_source n : Z.of_nat n < 2 ^ 62 ->
  src_b64_encode_size (Z.of_nat n) = Z.of_nat (b64_encode_size n).
Proof.
  intros H. unfold src_b64_encode_size, b64_encode_size.
  rewrite (wrapu64_id 2), (wrapu64_id 3), (wrapu64_id 4) by lia.
  rewrite (wrapu64_id (Z.of_nat n + 2)) by lia.
  rewrite Z.quot_div_nonneg by lia.
  assert (Hq : 0 <= (Z.of_nat n + 2) / 3 < 2 ^ 62) by (split; [apply Z.div_pos; lia|apply Z.div_lt_upper_bound; lia]).
  rewrite (wrapu64_id ((Z.of_nat n + 2) / 3)) by lia.
  rewrite wrapu64_id by lia.
  lia.
Qed.

(* the byte at index i of c_str(), as the source sees it *)
Definition schar (b : N) : Z := if (b <? 128)%N then Z.of_N b else Z.of_N b - 256.
Definition data_of (s : list N) : Z -> Z := fun i => schar (nth (Z.to_nat i) (s ++ [0%N]) 0%N).

Lemma cs_at_nth s i : (i < length s + 1)%nat -> cs_at s i = Ok (nth i (s ++ [0%N]) 0%N).
Proof.
  intros H. unfold cs_at. rewrite (nth_error_nth' (s ++ [0%N]) 0%N) by (rewrite app_length; simpl; lia). reflexivity.
Qed.

Lemma schar_is_61 b : (b < 256)%N -> Z.eqb (wraps 32 (schar b)) (wraps 32 61) = N.eqb b 61.
Proof.
  intros H. rewrite (wraps32_id 61) by lia. unfold schar.
  destruct (N.ltb_spec b 128).
  - rewrite wraps32_id by lia. destruct (N.eqb_spec b 61) as [->|Hn]; [reflexivity|]. apply Z.eqb_neq. lia.
  - rewrite wraps32_id by lia. destruct (N.eqb_spec b 61) as [->|Hn]; [lia|]. apply Z.eqb_neq. lia.
Qed.

Theorem b64_decode_size_matches_source s :
  Z.of_nat (length s) < 2 ^ 62 -> Forall (fun b => (b < 256)%N) s ->
  b64_decode_size s = Ok (src_b64_decode_size (Z.of_nat (length s)) (data_of s)).
Proof.
  intros Hlen Hb. unfold b64_decode_size, src_b64_decode_size.
  set (n := length s) in *.
  assert (Hall : forall i, (i < n)%nat -> (nth i (s ++ [0%N]) 0%N < 256)%N).
  { intros i Hi. rewrite app_nth1 by exact Hi. rewrite Forall_forall in Hb. apply Hb. apply nth_In. exact Hi. }
  rewrite !(wrapu64_id 0), !(wrapu64_id 1), !(wrapu64_id 2), !(wrapu64_id 3), !(wrapu64_id 4) by lia.
  rewrite Z.rem_mod_nonneg by lia. rewrite (wrapu64_id (Z.of_nat n mod 4)) by (pose proof (Z.mod_pos_bound (Z.of_nat n) 4); lia).
  unfold z2b, b2z.
  destruct (Nat.eqb_spec (n mod 4) 0) as [Hm|Hm]; cbn [negb].
  - replace (Z.of_nat n mod 4 =? 0) with true by (symmetry; apply Z.eqb_eq; lia).
    cbn [negb Z.eqb].
    rewrite Z.quot_div_nonneg by lia.
    assert (Hq : 0 <= Z.of_nat n / 4 < 2 ^ 60) by (split; [apply Z.div_pos; lia|apply Z.div_lt_upper_bound; lia]).
    rewrite (wrapu64_id (Z.of_nat n / 4)) by lia.
    rewrite (wrapu64_id (Z.of_nat n / 4 * 3)) by lia.
    assert (Hres : Z.of_nat (n / 4 * 3) = Z.of_nat n / 4 * 3) by lia.
    rewrite Hres. set (r0 := Z.of_nat n / 4 * 3) in *.
    assert (Hr0 : 0 <= r0 < 2 ^ 62) by (unfold r0; lia).
    (* data[size - 1] *)
    destruct (Nat.ltb_spec 0 n) as [H0|H0].
    + replace (Z.of_nat n >? 0) with true by (symmetry; apply Z.gtb_lt; lia).
      assert (n >= 4)%nat by (destruct n as [|[|[|[|n']]]]; cbn in Hm; lia).
      assert (Hr04 : 3 <= r0) by (unfold r0; assert (1 <= Z.of_nat n / 4) by (apply Z.div_le_lower_bound; lia); lia).
      replace (Z.of_nat n >? 1) with true by (symmetry; apply Z.gtb_lt; lia).
      destruct (Nat.ltb_spec 1 n) as [H1|H1]; [|lia].
      rewrite (cs_at_nth s (n - 1)) by (fold n; lia).
      rewrite (cs_at_nth s (n - 2)) by (fold n; lia).
      cbn [bind].
      rewrite (wrapu64_id (Z.of_nat n - 1)), (wrapu64_id (Z.of_nat n - 2)) by lia.
      assert (E1 : data_of s (Z.of_nat n - 1) = schar (nth (n - 1) (s ++ [0%N]) 0%N)).
      { unfold data_of. f_equal. f_equal. lia. }
      assert (E2 : data_of s (Z.of_nat n - 2) = schar (nth (n - 2) (s ++ [0%N]) 0%N)).
      { unfold data_of. f_equal. f_equal. lia. }
      rewrite E1, E2, !schar_is_61 by (apply Hall; lia).
      destruct (N.eqb (nth (n - 1) (s ++ [0%N]) 0%N) 61); destruct (N.eqb (nth (n - 2) (s ++ [0%N]) 0%N) 61);
        cbn [andb negb Z.eqb];
        rewrite ?(wrapu64_id r0), ?(wrapu64_id (r0 - 1)), ?(wrapu64_id (r0 - 1 - 1)), ?wraps64_id by lia; reflexivity.
    + assert (n = 0)%nat by lia. assert (Hz : r0 = 0) by (unfold r0; replace (Z.of_nat n) with 0 by lia; reflexivity).
      replace (Z.of_nat n >? 0) with false by (symmetry; rewrite Z.gtb_ltb; apply Z.ltb_ge; lia).
      replace (Z.of_nat n >? 1) with false by (symmetry; rewrite Z.gtb_ltb; apply Z.ltb_ge; lia).
      cbn [andb negb Z.eqb bind]. destruct (Nat.ltb_spec 1 n); [lia|].
      rewrite wraps64_id by lia. reflexivity.
  - replace (Z.of_nat n mod 4 =? 0) with false.
    2:{ symmetry. apply Z.eqb_neq. lia. }
    cbn [negb Z.eqb]. change (- (1)) with (-1). rewrite (wraps32_id (-1)) by lia. rewrite wraps64_id by lia. reflexivity.
Qed.
