(* Codec/LoopBridge.v — _ST_PRIVATE::hex_encode(output, data, size) of include/st_codecs_priv.h as TRANSLATED from the current
   headers (Gen/Leaf.v: the loop, the function-local table hex_chars as found in the function's own text, output as a
   write-only cursor) stores, for inputs of any length and every sufficient fuel, exactly the characters the hand-written
   model Codec/Model.hex_encode_raw produces (whose table is Gen/Tables.hex_chars, harvested separately). *)
From Coq Require Import NArith ZArith List Bool Lia ZifyBool ZifyNat ZifyN.
From ST Require Import Base.Outcome Base.Units Base.Sweep Gen.Tables Codec.Model Gen.Leaf.
Import ListNotations.
Local Open Scope Z_scope.
Local Open Scope outcome_scope.

Definition arrb (l : list N) (i : Z) : Z := schar (nth (Z.to_nat i) l 0%N).
Definition local_hex : list Z := [48; 49; 50; 51; 52; 53; 54; 55; 56; 57; 97; 98; 99; 100; 101; 102; 0].
Definition hi_char (v : Z) : Z := nth (Z.to_nat (wraps 32 (Z.land (wraps 32 (Z.shiftr (wraps 32 ((fun i_ => wrapu 8 i_) v)) 4)) 15))) local_hex 0.
Definition lo_char (v : Z) : Z := nth (Z.to_nat (wraps 32 (Z.land (wraps 32 ((fun i_ => wrapu 8 i_) v)) 15))) local_hex 0.

Lemma hex_loop_S f p a n sp out : src_hex_encode_loop1 (S f) p a n sp out =
  (if z2b (b2z (z2b n)) then src_hex_encode_loop1 f p a (wrapu 64 (n - 1)) (sp + 1) ((out ++ [hi_char (p sp)]) ++ [lo_char (p sp)]) else Some out).
Proof. cbv beta iota zeta delta [src_hex_encode_loop1 hi_char lo_char local_hex]. reflexivity. Qed.

Definition hex_pair_agrees (c : N) : bool :=
  match tblN hex_chars (N.land (N.shiftr c 4) 15), tblN hex_chars (N.land c 15) with
  | Ok c0, Ok c1 => (Z.to_N (hi_char (schar c)) =? c0)%N && (Z.to_N (lo_char (schar c)) =? c1)%N
  | _, _ => false
  end.
Lemma hex_pair_sweep : all_below 8 hex_pair_agrees = true. Proof. vm_compute. reflexivity. Qed.
Lemma hex_pair c : (c < 256)%N ->
  tblN hex_chars (N.land (N.shiftr c 4) 15) = Ok (Z.to_N (hi_char (schar c))) /\ tblN hex_chars (N.land c 15) = Ok (Z.to_N (lo_char (schar c))).
Proof.
  intros H. pose proof (all_below_spec 8 hex_pair_agrees hex_pair_sweep c H) as E. unfold hex_pair_agrees in E.
  destruct (tblN hex_chars (N.land (N.shiftr c 4) 15)) as [c0| | |]; try discriminate.
  destruct (tblN hex_chars (N.land c 15)) as [c1| | |]; try discriminate.
  apply andb_true_iff in E. destruct E as [E0 E1]. apply N.eqb_eq in E0. apply N.eqb_eq in E1. subst. split; reflexivity.
Qed.

Theorem hex_loop_matches : forall l out i p a fs, all_lt 256 l = true ->
  (forall k, (k < length l)%nat -> p (i + Z.of_nat k) = schar (nth k l 0%N)) ->
  (length l < fs)%nat -> Z.of_nat (length l) < 18446744073709551616 ->
  exists ws, src_hex_encode_loop1 fs p a (Z.of_nat (length l)) i out = Some (out ++ ws) /\ hex_encode_raw l = Ok (map Z.to_N ws).
Proof.
  induction l as [|c t IH]; intros out i p a fs A R Hfs Hb; (destruct fs as [|fs]; [cbn in Hfs; lia|]).
  - exists []. split; [rewrite hex_loop_S; cbn [length]; rewrite app_nil_r; reflexivity|reflexivity].
  - assert (Hc : (c < 256)%N /\ all_lt 256 t = true).
    { unfold all_lt in *. cbn [forallb] in A. apply andb_true_iff in A. destruct A as [A1 A2]. split; [lia|exact A2]. }
    destruct Hc as [Hc At]. destruct (hex_pair c Hc) as [E0 E1].
    rewrite hex_loop_S. cbn [length].
    assert (Hz : z2b (b2z (z2b (Z.of_nat (S (length t))))) = true).
    { unfold z2b, b2z. destruct (Z.of_nat (S (length t)) =? 0) eqn:E; [lia|reflexivity]. }
    rewrite Hz. pose proof (R 0%nat ltac:(cbn; lia)) as R0. rewrite Z.add_0_r in R0. cbn [nth] in R0. rewrite R0.
    replace (wrapu 64 (Z.of_nat (S (length t)) - 1)) with (Z.of_nat (length t))
      by (unfold wrapu; change (2 ^ 64) with 18446744073709551616; rewrite Z.mod_small; cbn [length] in Hb; lia).
    destruct (IH ((out ++ [hi_char (schar c)]) ++ [lo_char (schar c)]) (i + 1) p a fs At) as (ws & Es & Em).
    + intros k Hk. specialize (R (S k) ltac:(cbn; lia)). replace (i + 1 + Z.of_nat k) with (i + Z.of_nat (S k)) by lia. exact R.
    + cbn [length] in Hfs. lia.
    + cbn [length] in Hb. lia.
    + exists (hi_char (schar c) :: lo_char (schar c) :: ws). split.
      * rewrite Es. rewrite <- !app_assoc. reflexivity.
      * cbn [hex_encode_raw]. rewrite E0, E1, Em. reflexivity.
Qed.

Theorem hex_encode_matches_source l fuel : all_lt 256 l = true -> (length l < fuel)%nat ->
  Z.of_nat (length l) < 18446744073709551616 ->
  exists ws, src_hex_encode fuel (arrb l) (Z.of_nat (length l)) = Some ws /\ hex_encode_raw l = Ok (map Z.to_N ws).
Proof.
  intros A Hf Hb. unfold src_hex_encode. cbv zeta.
  destruct (hex_loop_matches l [] 0 (arrb l) 0 fuel A) as (ws & Es & Em); [|exact Hf|exact Hb|].
  - intros k _. unfold arrb. rewrite Z.add_0_l, Nat2Z.id. reflexivity.
  - exists ws. split; [exact Es|exact Em].
Qed.

Example hex_encode_example :
  option_map (map Z.to_N) (src_hex_encode 5 (arrb [0; 171; 255]%N) 3) = Some [48; 48; 97; 98; 102; 102]%N.
Proof. vm_compute. reflexivity. Qed.
