(* Codec/LoopBridge.v — _ST_PRIVATE::hex_encode(output, data, size) of include/st_codecs_priv.h as TRANSLATED from the current
   headers (Gen/Leaf.v: the loop, the function-local table hex_chars as found in the function's own text, output as a
   write-only cursor) stores, for inputs of any length and every sufficient fuel, exactly the characters the hand-written
   model Codec/Model.hex_encode_raw produces (whose table is Gen/Tables.hex_chars, harvested separately). *)
From Coq Require Import NArith ZArith List Bool Lia ZifyBool ZifyNat ZifyN.
From ST Require Import Base.Outcome Base.Units Base.Sweep Gen.Tables Codec.Model Gen.Leaf.
Import ListNotations.
Local Open Scope Z_scope.
Local Open Scope outcome_scope.

Definition arrb (l : list N) (i : Z) : Z := schar (nth (Z.to_nat i) l 0%N).
Definition local_hex : list Z := [48; 49; 50; 51; 52; 53; 54; 55; 56; 57; 97; 98; 99; 100; 101; 102; 0].
Definition hi_char (v : Z) : Z := nth (Z.to_nat (wraps 32 (Z.land (wraps 32 (Z.shiftr (wraps 32 ((fun i_ => wrapu 8 i_) v)) 4)) 15))) local_hex 0.
Definition lo_char (v : Z) : Z := nth (Z.to_nat (wraps 32 (Z.land (wraps 32 ((fun i_ => wrapu 8 i_) v)) 15))) local_hex 0.

Lemma hex_loop_S f p a n sp out : src_hex_encode_loop1 (S f) p a n sp out =
  (if z2b (b2z (z2b n)) then src_hex_encode_loop1 f p a (wrapu 64 (n - 1)) (sp + 1) ((out ++ [hi_char (p sp)]) ++ [lo_char (p sp)]) else Some out).
Proof. cbv beta iota zeta delta [src_hex_encode_loop1 hi_char lo_char local_hex]. reflexivity. Qed.

Definition hex_pair_agrees (c : N) : bool :=
  match tblN hex_chars (N.land (N.shiftr c 4) 15), tblN hex_chars (N.land c 15) with
  | Ok c0, Ok c1 => (Z.to_N (hi_char (schar c)) =? c0)%N && (Z.to_N (lo_char (schar c)) =? c1)%N
  | _, _ => false
  end.
Lemma hex_pair_sweep : all_below 8 hex_pair_agrees = true. Proof. vm_compute. reflexivity. Qed.
Lemma hex_pair c : (c < 256)%N ->
  tblN hex_chars (N.land (N.shiftr c 4) 15) = Ok (Z.to_N (hi_char (schar c))) /\ tblN hex_chars (N.land c 15) = Ok (Z.to_N (lo_char (schar c))).
Proof.
  intros H. pose proof (all_below_spec 8 hex_pair_agrees hex_pair_sweep c H) as E. unfold hex_pair_agrees in E.
  destruct (tblN hex_chars (N.land (N.shiftr c 4) 15)) as [c0| | |]; try discriminate.
  destruct (tblN hex_chars (N.land c 15)) as [c1| | |]; try discriminate.
  apply andb_true_iff in E. destruct E as [E0 E1]. apply N.eqb_eq in E0. apply N.eqb_eq in E1. subst. split; reflexivity.
Qed.

Theorem hex_loop_matches : forall l out i p a fs, all_lt 256 l = true ->
  (forall k, (k < length l)%nat -> p (i + Z.of_nat k) = schar (nth k l 0%N)) ->
  (length l < fs)%nat -> Z.of_nat (length l) < 18446744073709551616 ->
  exists ws, src_hex_encode_loop1 fs p a (Z.of_nat (length l)) i out = Some (out ++ ws) /\ hex_encode_raw l = Ok (map Z.to_N ws).
Proof.
  induction l as [|c t IH]; intros out i p a fs A R Hfs Hb; (destruct fs as [|fs]; [cbn in Hfs; lia|]).
  - exists []. split; [rewrite hex_loop_S; cbn [length]; rewrite app_nil_r; reflexivity|reflexivity].
  - assert (Hc : (c < 256)%N /\ all_lt 256 t = true).
    { unfold all_lt in *. cbn [forallb] in A. apply andb_true_iff in A. destruct A as [A1 A2]. split; [lia|exact A2]. }
    destruct Hc as [Hc At]. destruct (hex_pair c Hc) as [E0 E1].
    rewrite hex_loop_S. cbn [length].
    assert (Hz : z2b (b2z (z2b (Z.of_nat (S (length t))))) = true).
    { unfold z2b, b2z. destruct (Z.of_nat (S (length t)) =? 0) eqn:E; [lia|reflexivity]. }
    rewrite Hz. pose proof (R 0%nat ltac:(cbn; lia)) as R0. rewrite Z.add_0_r in R0. cbn [nth] in R0. rewrite R0.
    replace (wrapu 64 (Z.of_nat (S (length t)) - 1)) with (Z.of_nat (length t))
      by (unfold wrapu; change (2 ^ 64) with 18446744073709551616; rewrite Z.mod_small; cbn [length] in Hb; lia).
    destruct (IH ((out ++ [hi_char (schar c)]) ++ [lo_char (schar c)]) (i + 1) p a fs At) as (ws & Es & Em).
    + intros k Hk. specialize (R (S k) ltac:(cbn; lia)). replace (i + 1 + Z.of_nat k) with (i + Z.of_nat (S k)) by lia. exact R.
    + cbn [length] in Hfs. lia.
    + cbn [length] in Hb. lia.
    + exists (hi_char (schar c) :: lo_char (schar c) :: ws). split.
      * rewrite Es. rewrite <- !app_assoc. reflexivity.
      * cbn [hex_encode_raw]. rewrite E0, E1, Em. reflexivity.
Qed.

Theorem hex_encode_matches_source l fuel : all_lt 256 l = true -> (length l < fuel)%nat ->
  Z.of_nat (length l) < 18446744073709551616 ->
  exists ws, src_hex_encode fuel (arrb l) (Z.of_nat (length l)) = Some ws /\ hex_encode_raw l = Ok (map Z.to_N ws).
Proof.
  intros A Hf Hb. unfold src_hex_encode. cbv zeta.
  destruct (hex_loop_matches l [] 0 (arrb l) 0 fuel A) as (ws & Es & Em); [|exact Hf|exact Hb|].
  - intros k _. unfold arrb. rewrite Z.add_0_l, Nat2Z.id. reflexivity.
  - exists ws. split; [exact Es|exact Em].
Qed.

Example hex_encode_example :
  option_map (map Z.to_N) (src_hex_encode 5 (arrb [0; 171; 255]%N) 3) = Some [48; 48; 97; 98; 102; 102]%N.
Proof. vm_compute. reflexivity. Qed.

(* ---- b64_encode ------------------------------------------------------------------------------------------------
   _ST_PRIVATE::b64_encode(output, data, size) as TRANSLATED from the current headers: the three-bytes-at-a-time loop
   (sp[0..2], size -= 3, sp += 3), the switch on the 0/1/2 bytes left with its '=' padding, the function-local table
   b64_chars as found in the function's own text, and the ST_ASSERT of the default group (a stored ext_abort_unit).
   For inputs of any length and every sufficient fuel it stores exactly the characters of Codec/Model.b64_encode_raw;
   in particular the default group is never reached. *)
Definition local_b64 : list Z := [65; 66; 67; 68; 69; 70; 71; 72; 73; 74; 75; 76; 77; 78; 79; 80; 81; 82; 83; 84; 85; 86; 87; 88; 89; 90; 97; 98; 99; 100; 101; 102; 103; 104; 105; 106; 107; 108; 109; 110; 111; 112; 113; 114; 115; 116; 117; 118; 119; 120; 121; 122; 48; 49; 50; 51; 52; 53; 54; 55; 56; 57; 43; 47; 0].
Definition q0 (v0 : Z) : Z := nth (Z.to_nat (wraps 32 (Z.shiftr (wraps 32 ((fun i_ => wrapu 8 i_) v0)) 2))) local_b64 0.
Definition q1 (v0 v1 : Z) : Z := nth (Z.to_nat (wraps 32 (Z.lor (wraps 32 (Z.shiftl (wraps 32 (Z.land (wraps 32 ((fun i_ => wrapu 8 i_) v0)) 3)) 4)) (wraps 32 (Z.shiftr (wraps 32 (Z.land (wraps 32 ((fun i_ => wrapu 8 i_) v1)) 240)) 4))))) local_b64 0.
Definition q2 (v1 v2 : Z) : Z := nth (Z.to_nat (wraps 32 (Z.lor (wraps 32 (Z.shiftl (wraps 32 (Z.land (wraps 32 ((fun i_ => wrapu 8 i_) v1)) 15)) 2)) (wraps 32 (Z.shiftr (wraps 32 (Z.land (wraps 32 ((fun i_ => wrapu 8 i_) v2)) 192)) 6))))) local_b64 0.
Definition q3 (v2 : Z) : Z := nth (Z.to_nat (wraps 32 (Z.land (wraps 32 ((fun i_ => wrapu 8 i_) v2)) 63))) local_b64 0.
Definition q1t (v0 : Z) : Z := nth (Z.to_nat (wraps 32 (Z.shiftl (wraps 32 (Z.land (wraps 32 ((fun i_ => wrapu 8 i_) v0)) 3)) 4))) local_b64 0.
Definition q2t (v1 : Z) : Z := nth (Z.to_nat (wraps 32 (Z.shiftl (wraps 32 (Z.land (wraps 32 ((fun i_ => wrapu 8 i_) v1)) 15)) 2))) local_b64 0.

Lemma b64_loop_S f p a n sp out : src_b64_encode_loop1 (S f) p a n sp out =
  (if z2b (b2z (Z.gtb n (wrapu 64 2)))
   then src_b64_encode_loop1 f p a (wrapu 64 (wrapu 64 (wrapu 64 n - wrapu 64 3))) (sp + 3)
          ((((out ++ [q0 (p (sp + 0))]) ++ [q1 (p (sp + 0)) (p (sp + 1))]) ++ [q2 (p (sp + 1)) (p (sp + 2))]) ++ [q3 (p (sp + 2))])
   else if Z.eqb n 2 then Some ((((out ++ [q0 (p (sp + 0))]) ++ [q1 (p (sp + 0)) (p (sp + 1))]) ++ [q2t (p (sp + 1))]) ++ [61])
   else if Z.eqb n 1 then Some ((((out ++ [q0 (p (sp + 0))]) ++ [q1t (p (sp + 0))]) ++ [61]) ++ [61])
   else if Z.eqb n 0 then Some out
   else if z2b (b2z (negb (z2b 0))) then Some (out ++ [ext_abort_unit]) else Some out).
Proof. cbv beta iota zeta delta [src_b64_encode_loop1 q0 q1 q2 q3 q1t q2t local_b64]. reflexivity. Qed.

Definition b64_one_agrees (c : N) : bool :=
  match tblN b64_chars (N.shiftr c 2), tblN b64_chars (N.land c 63),
        tblN b64_chars (N.shiftl (N.land c 3) 4), tblN b64_chars (N.shiftl (N.land c 15) 2) with
  | Ok x0, Ok x3, Ok x1, Ok x2 =>
      (Z.to_N (q0 (schar c)) =? x0)%N && (Z.to_N (q3 (schar c)) =? x3)%N &&
      (Z.to_N (q1t (schar c)) =? x1)%N && (Z.to_N (q2t (schar c)) =? x2)%N
  | _, _, _, _ => false
  end.
Lemma b64_one_sweep : all_below 8 b64_one_agrees = true. Proof. vm_compute. reflexivity. Qed.
Lemma b64_one c : (c < 256)%N ->
  tblN b64_chars (N.shiftr c 2) = Ok (Z.to_N (q0 (schar c))) /\ tblN b64_chars (N.land c 63) = Ok (Z.to_N (q3 (schar c))) /\
  tblN b64_chars (N.shiftl (N.land c 3) 4) = Ok (Z.to_N (q1t (schar c))) /\
  tblN b64_chars (N.shiftl (N.land c 15) 2) = Ok (Z.to_N (q2t (schar c))).
Proof.
  intros H. pose proof (all_below_spec 8 b64_one_agrees b64_one_sweep c H) as E. unfold b64_one_agrees in E.
  destruct (tblN b64_chars (N.shiftr c 2)) as [x0| | |]; try discriminate.
  destruct (tblN b64_chars (N.land c 63)) as [x3| | |]; try discriminate.
  destruct (tblN b64_chars (N.shiftl (N.land c 3) 4)) as [x1| | |]; try discriminate.
  destruct (tblN b64_chars (N.shiftl (N.land c 15) 2)) as [x2| | |]; try discriminate.
  apply andb_true_iff in E. destruct E as [E E2]. apply andb_true_iff in E. destruct E as [E E1].
  apply andb_true_iff in E. destruct E as [E0 E3].
  apply N.eqb_eq in E0. apply N.eqb_eq in E1. apply N.eqb_eq in E2. apply N.eqb_eq in E3. subst. repeat split; reflexivity.
Qed.

Definition b64_two_agrees (a b : N) : bool :=
  match tblN b64_chars (N.lor (N.shiftl (N.land a 3) 4) (N.shiftr (N.land b 240) 4)),
        tblN b64_chars (N.lor (N.shiftl (N.land a 15) 2) (N.shiftr (N.land b 192) 6)) with
  | Ok x1, Ok x2 => (Z.to_N (q1 (schar a) (schar b)) =? x1)%N && (Z.to_N (q2 (schar a) (schar b)) =? x2)%N
  | _, _ => false
  end.
Lemma b64_two_sweep : all_below2 8 8 b64_two_agrees = true. Proof. vm_compute. reflexivity. Qed.
Lemma b64_two a b : (a < 256)%N -> (b < 256)%N ->
  tblN b64_chars (N.lor (N.shiftl (N.land a 3) 4) (N.shiftr (N.land b 240) 4)) = Ok (Z.to_N (q1 (schar a) (schar b))) /\
  tblN b64_chars (N.lor (N.shiftl (N.land a 15) 2) (N.shiftr (N.land b 192) 6)) = Ok (Z.to_N (q2 (schar a) (schar b))).
Proof.
  intros Ha Hb. pose proof (all_below2_spec 8 8 b64_two_agrees b64_two_sweep a b Ha Hb) as E. unfold b64_two_agrees in E.
  destruct (tblN b64_chars (N.lor (N.shiftl (N.land a 3) 4) (N.shiftr (N.land b 240) 4))) as [x1| | |]; try discriminate.
  destruct (tblN b64_chars (N.lor (N.shiftl (N.land a 15) 2) (N.shiftr (N.land b 192) 6))) as [x2| | |]; try discriminate.
  apply andb_true_iff in E. destruct E as [E1 E2]. apply N.eqb_eq in E1. apply N.eqb_eq in E2. subst. split; reflexivity.
Qed.

Lemma all_lt_cons c t : all_lt 256 (c :: t) = true -> (c < 256)%N /\ all_lt 256 t = true.
Proof. unfold all_lt. cbn [forallb]. intros A. apply andb_true_iff in A. destruct A as [A1 A2]. split; [lia|exact A2]. Qed.

Lemma wrapu64_small x : 0 <= x < 18446744073709551616 -> wrapu 64 x = x.
Proof. intros H. unfold wrapu. change (2 ^ 64) with 18446744073709551616. apply Z.mod_small. exact H. Qed.

Lemma nth_local_b64_nonneg i : 0 <= nth i local_b64 0.
Proof.
  assert (H : Forall (fun w => 0 <= w) local_b64) by (unfold local_b64; repeat (constructor; [lia|]); constructor).
  destruct (Nat.lt_ge_cases i (length local_b64)) as [Hi|Hi]; [|rewrite nth_overflow by exact Hi; lia].
  rewrite Forall_forall in H. apply H. apply nth_In. exact Hi.
Qed.
Lemma q0_nonneg v : 0 <= q0 v. Proof. apply nth_local_b64_nonneg. Qed.
Lemma q1_nonneg v w : 0 <= q1 v w. Proof. apply nth_local_b64_nonneg. Qed.
Lemma q2_nonneg v w : 0 <= q2 v w. Proof. apply nth_local_b64_nonneg. Qed.
Lemma q3_nonneg v : 0 <= q3 v. Proof. apply nth_local_b64_nonneg. Qed.
Lemma q1t_nonneg v : 0 <= q1t v. Proof. apply nth_local_b64_nonneg. Qed.
Lemma q2t_nonneg v : 0 <= q2t v. Proof. apply nth_local_b64_nonneg. Qed.
#[local] Hint Resolve q0_nonneg q1_nonneg q2_nonneg q3_nonneg q1t_nonneg q2t_nonneg : b64nn.

Theorem b64_loop_matches : forall mf l out i p a fs, all_lt 256 l = true ->
  (forall k, (k < length l)%nat -> p (i + Z.of_nat k) = schar (nth k l 0%N)) ->
  (length l < fs)%nat -> (length l < mf)%nat -> Z.of_nat (length l) < 18446744073709551616 ->
  exists ws, src_b64_encode_loop1 fs p a (Z.of_nat (length l)) i out = Some (out ++ ws) /\ b64_encode_raw mf l = Ok (map Z.to_N ws) /\
             Forall (fun w => 0 <= w) ws.
Proof.
  induction mf as [|mf IH]; intros l out i p a fs A R Hfs Hmf Hb; [lia|].
  destruct fs as [|fs]; [lia|]. rewrite b64_loop_S. rewrite (wrapu64_small 2), (wrapu64_small 3) by lia.
  destruct l as [|s0 [|s1 [|s2 t]]].
  - exists []. split; [cbn; rewrite app_nil_r; reflexivity|split; [reflexivity|constructor]].
  - destruct (all_lt_cons _ _ A) as [H0 _]. destruct (b64_one s0 H0) as (E0 & _ & E1 & _).
    pose proof (R 0%nat ltac:(cbn; lia)) as R0. cbn [nth Z.of_nat] in R0.
    exists [q0 (schar s0); q1t (schar s0); 61; 61]. split.
    + cbn [length Z.of_nat Pos.of_succ_nat Z.gtb Z.compare Pos.compare Pos.compare_cont b2z z2b Z.eqb Pos.eqb negb].
      rewrite R0. rewrite <- !app_assoc. reflexivity.
    + split; [cbn [b64_encode_raw]; rewrite E0, E1; reflexivity|].
      repeat (constructor; [first [solve [auto with b64nn]|lia]|]). constructor.
  - destruct (all_lt_cons _ _ A) as [H0 A1]. destruct (all_lt_cons _ _ A1) as [H1 _].
    destruct (b64_one s0 H0) as (E0 & _ & _ & _). destruct (b64_one s1 H1) as (_ & _ & _ & E2). destruct (b64_two s0 s1 H0 H1) as [E1 _].
    pose proof (R 0%nat ltac:(cbn; lia)) as R0. pose proof (R 1%nat ltac:(cbn; lia)) as R1. cbn [nth Z.of_nat Pos.of_succ_nat] in R0, R1.
    exists [q0 (schar s0); q1 (schar s0) (schar s1); q2t (schar s1); 61]. split.
    + cbn [length Z.of_nat Pos.of_succ_nat Pos.succ Z.gtb Z.compare Pos.compare Pos.compare_cont b2z z2b Z.eqb Pos.eqb negb].
      rewrite R0, R1. rewrite <- !app_assoc. reflexivity.
    + split; [cbn [b64_encode_raw]; rewrite E0, E1, E2; reflexivity|].
      repeat (constructor; [first [solve [auto with b64nn]|lia]|]). constructor.
  - destruct (all_lt_cons _ _ A) as [H0 A1]. destruct (all_lt_cons _ _ A1) as [H1 A2]. destruct (all_lt_cons _ _ A2) as [H2 At].
    destruct (b64_one s0 H0) as (E0 & _ & _ & _). destruct (b64_one s2 H2) as (_ & E3 & _ & _).
    destruct (b64_two s0 s1 H0 H1) as [E1 _]. destruct (b64_two s1 s2 H1 H2) as [_ E2].
    pose proof (R 0%nat ltac:(cbn; lia)) as R0. pose proof (R 1%nat ltac:(cbn; lia)) as R1. pose proof (R 2%nat ltac:(cbn; lia)) as R2.
    cbn [nth Z.of_nat Pos.of_succ_nat Pos.succ] in R0, R1, R2.
    cbn [length] in Hfs, Hmf, Hb |- *.
    assert (Hn : Z.of_nat (S (S (S (length t)))) = Z.of_nat (length t) + 3) by lia. rewrite Hn.
    assert (Hc : z2b (b2z (Z.of_nat (length t) + 3 >? 2)) = true).
    { unfold z2b, b2z. destruct (Z.gtb_spec (Z.of_nat (length t) + 3) 2); [reflexivity|lia]. }
    rewrite Hc. rewrite R0, R1, R2.
    rewrite (wrapu64_small (Z.of_nat (length t) + 3)) by lia.
    replace (Z.of_nat (length t) + 3 - 3) with (Z.of_nat (length t)) by lia.
    rewrite !(wrapu64_small (Z.of_nat (length t))) by lia.
    destruct (IH t ((((out ++ [q0 (schar s0)]) ++ [q1 (schar s0) (schar s1)]) ++ [q2 (schar s1) (schar s2)]) ++ [q3 (schar s2)])
                 (i + 3) p a fs At) as (ws & Es & Em & Hnn).
    + intros k Hk. specialize (R (S (S (S k))) ltac:(cbn; lia)). replace (i + 3 + Z.of_nat k) with (i + Z.of_nat (S (S (S k)))) by lia. exact R.
    + lia.
    + lia.
    + lia.
    + exists (q0 (schar s0) :: q1 (schar s0) (schar s1) :: q2 (schar s1) (schar s2) :: q3 (schar s2) :: ws). split.
      * rewrite Es. rewrite <- !app_assoc. reflexivity.
      * split; [cbn [b64_encode_raw]; rewrite E0, E1, E2, E3, Em; reflexivity|].
        repeat (constructor; [solve [auto with b64nn]|]). exact Hnn.
Qed.

Theorem b64_encode_matches_source l fuel : all_lt 256 l = true -> (length l < fuel)%nat ->
  Z.of_nat (length l) < 18446744073709551616 ->
  exists ws, src_b64_encode fuel (arrb l) (Z.of_nat (length l)) = Some ws /\ b64_encode_raw (S (length l)) l = Ok (map Z.to_N ws) /\
             Forall (fun w => 0 <= w) ws.
Proof.
  intros A Hf Hb. unfold src_b64_encode. cbv zeta.
  destruct (b64_loop_matches (S (length l)) l [] 0 (arrb l) 0 fuel A) as (ws & Es & Em & Hnn); [|exact Hf|lia|exact Hb|].
  - intros k _. unfold arrb. rewrite Z.add_0_l, Nat2Z.id. reflexivity.
  - exists ws. split; [exact Es|split; [exact Em|exact Hnn]].
Qed.

(* the ST_ASSERT of the switch's default group is unreachable: what the translated function stores never contains the
   abort mark *)
Corollary b64_encode_never_aborts l fuel ws : all_lt 256 l = true -> (length l < fuel)%nat ->
  Z.of_nat (length l) < 18446744073709551616 ->
  src_b64_encode fuel (arrb l) (Z.of_nat (length l)) = Some ws -> ~ In ext_abort_unit ws.
Proof.
  intros A Hf Hb E Hin. destruct (b64_encode_matches_source l fuel A Hf Hb) as (ws' & E' & _ & Hnn).
  rewrite E in E'. inversion E'; subst ws'. rewrite Forall_forall in Hnn. specialize (Hnn _ Hin). unfold ext_abort_unit in Hnn. lia.
Qed.

Example b64_encode_example :
  option_map (map Z.to_N) (src_b64_encode 5 (arrb [0; 171; 255; 16]%N) 4) = Some [65; 75; 118; 47; 69; 65; 61; 61]%N.
Proof. vm_compute. reflexivity. Qed.
