(* Codec/Spec.v — what C14/C15 say, with no code structure.
   hex: two lower-case digits per byte.  base64: RFC 4648 section 4, standard
   alphabet, '=' padding; a 3-byte group b0 b1 b2 is the 24-bit number
   b0*2^16 + b1*2^8 + b2 cut into four 6-bit values.                         *)
From Coq Require Import NArith ZArith List Bool Lia.
Import ListNotations.
Local Open Scope N_scope.

(* ---- hex ---- *)
Definition hex_digit (d : N) : N := if d <? 10 then 48 + d else 87 + d.   (* '0'.. / 'a'.. *)
Definition hex_byte (b : N) : list N := [hex_digit (b / 16); hex_digit (b mod 16)].
Definition hex_spec (data : list N) : list N := flat_map hex_byte data.

Definition hexval (c : N) : option N :=
  if (48 <=? c) && (c <=? 57) then Some (c - 48)
  else if (97 <=? c) && (c <=? 102) then Some (c - 87)
  else if (65 <=? c) && (c <=? 70) then Some (c - 55)
  else None.
Definition is_hexdigit (c : N) : bool := match hexval c with Some _ => true | None => false end.
Definition valid_hex (s : list N) : bool := Nat.even (length s) && forallb is_hexdigit s.

Fixpoint hex_decode_spec (s : list N) : option (list N) :=
  match s with
  | [] => Some []
  | [_] => None
  | a :: b :: t =>
      match hexval a, hexval b, hex_decode_spec t with
      | Some x, Some y, Some r => Some (16 * x + y :: r)
      | _, _, _ => None
      end
  end.

Definition toupper (c : N) : N := if (97 <=? c) && (c <=? 122) then c - 32 else c.

(* ---- base64 ---- *)
Definition b64_char (v : N) : N :=          (* value 0..63 -> alphabet character *)
  if v <? 26 then 65 + v                    (* 'A'.. *)
  else if v <? 52 then 97 + (v - 26)        (* 'a'.. *)
  else if v <? 62 then 48 + (v - 52)        (* '0'.. *)
  else if v =? 62 then 43 else 47.          (* '+' '/' *)
Definition pad_char : N := 61.              (* '=' *)

Definition group24 (b0 b1 b2 : N) : N := b0 * 65536 + b1 * 256 + b2.
Definition sextets (n : N) : list N :=
  [n / 262144; (n / 4096) mod 64; (n / 64) mod 64; n mod 64].

Fixpoint b64_spec (data : list N) : list N :=
  match data with
  | [] => []
  | [b0] =>
      match sextets (group24 b0 0 0) with
      | [s0; s1; _; _] => [b64_char s0; b64_char s1; pad_char; pad_char]
      | _ => []
      end
  | [b0; b1] =>
      match sextets (group24 b0 b1 0) with
      | [s0; s1; s2; _] => [b64_char s0; b64_char s1; b64_char s2; pad_char]
      | _ => []
      end
  | b0 :: b1 :: b2 :: t => map b64_char (sextets (group24 b0 b1 b2)) ++ b64_spec t
  end.

Definition b64val (c : N) : option N :=
  if (65 <=? c) && (c <=? 90) then Some (c - 65)
  else if (97 <=? c) && (c <=? 122) then Some (c - 71)
  else if (48 <=? c) && (c <=? 57) then Some (c + 4)
  else if c =? 43 then Some 62
  else if c =? 47 then Some 63
  else None.
Definition is_b64char (c : N) : bool := match b64val c with Some _ => true | None => false end.

(* valid_b64: length multiple of four, every character in the alphabet,
   '=' only as the last or the last two characters *)
Definition valid_b64 (s : list N) : bool :=
  let n := length s in
  (Nat.eqb (Nat.modulo n 4) 0) &&
  match rev s with
  | [] => true
  | c1 :: c2 :: rest =>
      if c1 =? pad_char then
        (if c2 =? pad_char then forallb is_b64char rest
         else is_b64char c2 && forallb is_b64char rest)
      else is_b64char c1 && is_b64char c2 && forallb is_b64char rest
  | _ => false
  end.

(* decoded length implied by length and padding; None for a bad length *)
Definition b64_decoded_len (s : list N) : option nat :=
  let n := length s in
  if Nat.eqb (Nat.modulo n 4) 0 then
    let r := Nat.mul (Nat.div n 4) 3 in
    let p1 := match rev s with c1 :: _ => if c1 =? pad_char then 1%nat else 0%nat | _ => 0%nat end in
    let p2 := match rev s with _ :: c2 :: _ => if c2 =? pad_char then 1%nat else 0%nat | _ => 0%nat end in
    Some (r - p1 - p2)%nat
  else None.

Definition hex_decoded_len (s : list N) : option nat :=
  if Nat.even (length s) then Some (Nat.div (length s) 2) else None.

(* reference decoding of a valid base64 string *)
Fixpoint b64_decode_spec (s : list N) : option (list N) :=
  match s with
  | [] => Some []
  | c0 :: c1 :: c2 :: c3 :: t =>
      match b64val c0, b64val c1 with
      | Some v0, Some v1 =>
          let o0 := (v0 * 4 + v1 / 16) in
          match t with
          | [] =>   (* final group: padding allowed *)
              if c2 =? pad_char then
                (if c3 =? pad_char then Some [o0] else None)
              else match b64val c2 with
                   | Some v2 =>
                       let o1 := ((v1 mod 16) * 16 + v2 / 4) in
                       if c3 =? pad_char then Some [o0; o1]
                       else match b64val c3 with
                            | Some v3 => Some [o0; o1; (v2 mod 4) * 64 + v3]
                            | None => None
                            end
                   | None => None
                   end
          | _ =>
              match b64val c2, b64val c3, b64_decode_spec t with
              | Some v2, Some v3, Some r =>
                  Some (o0 :: ((v1 mod 16) * 16 + v2 / 4) :: ((v2 mod 4) * 64 + v3) :: r)
              | _, _, _ => None
              end
          end
      | _, _ => None
      end
  | _ => None
  end.
