(* Codec/ProofsBits.v — the mask/shift expressions of st_codecs_priv.h against
   the / and mod forms the Spec is written in.  Every fact is a complete sweep
   over its (finite) domain: all 2^16 byte pairs for each sextet boundary of
   the encoder, all 2^12 sextet pairs for each byte boundary of the decoder.
   Nothing here mentions the tables.                                          *)
From Coq Require Import NArith ZArith List Bool Lia.
From ST Require Import Base.Outcome Base.Units Base.Sweep Codec.Spec Codec.Model.
Import ListNotations.
Local Open Scope N_scope.

(* ---- encoder side, one byte ---- *)
Definition enc1_ok (a : N) : bool :=
  (N.shiftr a 2 =? a / 4) &&
  (N.land a 63 =? a mod 64) &&
  (N.shiftl (N.land a 3) 4 =? (a mod 4) * 16) &&
  (N.shiftl (N.land a 15) 2 =? (a mod 16) * 4) &&
  (N.land (N.shiftr a 4) 15 =? a / 16) &&
  (N.land a 15 =? a mod 16).

Lemma enc1_sweep : all_below 8 enc1_ok = true.
Proof. vm_compute. reflexivity. Qed.

Lemma enc1 a : a < 256 ->
  N.shiftr a 2 = a / 4 /\ N.land a 63 = a mod 64 /\
  N.shiftl (N.land a 3) 4 = (a mod 4) * 16 /\ N.shiftl (N.land a 15) 2 = (a mod 16) * 4 /\
  N.land (N.shiftr a 4) 15 = a / 16 /\ N.land a 15 = a mod 16.
Proof.
  intros H. pose proof (all_below_spec 8 _ enc1_sweep a H) as E. unfold enc1_ok in E.
  repeat (apply andb_true_iff in E; destruct E as [E ?]).
  repeat match goal with X : (_ =? _) = true |- _ => apply N.eqb_eq in X end.
  repeat split; assumption.
Qed.

(* ---- encoder side, the two sextets that straddle a byte boundary ---- *)
Definition enc2_ok (a b : N) : bool :=
  (N.lor (N.shiftl (N.land a 3) 4) (N.shiftr (N.land b 240) 4) =? (a mod 4) * 16 + b / 16) &&
  (N.lor (N.shiftl (N.land a 15) 2) (N.shiftr (N.land b 192) 6) =? (a mod 16) * 4 + b / 64).

Lemma enc2_sweep : all_below2 8 8 enc2_ok = true.
Proof. vm_cast_no_check (eq_refl true). Qed.

Lemma enc2 a b : a < 256 -> b < 256 ->
  N.lor (N.shiftl (N.land a 3) 4) (N.shiftr (N.land b 240) 4) = (a mod 4) * 16 + b / 16 /\
  N.lor (N.shiftl (N.land a 15) 2) (N.shiftr (N.land b 192) 6) = (a mod 16) * 4 + b / 64.
Proof.
  intros Ha Hb. pose proof (all_below2_spec 8 8 _ enc2_sweep a b Ha Hb) as E. unfold enc2_ok in E.
  apply andb_true_iff in E. destruct E as [E1 E2].
  apply N.eqb_eq in E1. apply N.eqb_eq in E2. split; assumption.
Qed.

(* ---- decoder side: the three output bytes of a group, from sextet values.
        `mod 256` is the store into a char cell (push).                    ---- *)
Definition dec2_ok (x y : N) : bool :=
  (o1 (Z.of_N x) (Z.of_N y) mod 256 =? x * 4 + y / 16) &&
  (o2 (Z.of_N x) (Z.of_N y) mod 256 =? (x mod 16) * 16 + y / 4) &&
  (o3 (Z.of_N x) (Z.of_N y) mod 256 =? (x mod 4) * 64 + y).

Lemma dec2_sweep : all_below2 6 6 dec2_ok = true.
Proof. vm_cast_no_check (eq_refl true). Qed.

Lemma dec2 x y : x < 64 -> y < 64 ->
  o1 (Z.of_N x) (Z.of_N y) mod 256 = x * 4 + y / 16 /\
  o2 (Z.of_N x) (Z.of_N y) mod 256 = (x mod 16) * 16 + y / 4 /\
  o3 (Z.of_N x) (Z.of_N y) mod 256 = (x mod 4) * 64 + y.
Proof.
  intros Hx Hy. pose proof (all_below2_spec 6 6 _ dec2_sweep x y Hx Hy) as E. unfold dec2_ok in E.
  apply andb_true_iff in E. destruct E as [E E3]. apply andb_true_iff in E. destruct E as [E1 E2].
  apply N.eqb_eq in E1. apply N.eqb_eq in E2. apply N.eqb_eq in E3. repeat split; assumption.
Qed.

(* hex: (bits[0] << 4 | bits[1]) stored into a char *)
Definition hexdec_ok (x y : N) : bool :=
  Z.to_N (Z.lor (Z.shiftl (Z.of_N x) 4) (Z.of_N y)) mod 256 =? 16 * x + y.

Lemma hexdec_sweep : all_below2 4 4 hexdec_ok = true.
Proof. vm_compute. reflexivity. Qed.

Lemma hexdec x y : x < 16 -> y < 16 ->
  Z.to_N (Z.lor (Z.shiftl (Z.of_N x) 4) (Z.of_N y)) mod 256 = 16 * x + y.
Proof.
  intros Hx Hy. pose proof (all_below2_spec 4 4 _ hexdec_sweep x y Hx Hy) as E.
  now apply N.eqb_eq in E.
Qed.

(* ---- alphabet facts (Spec only) ---- *)
Lemma hexval_digit_sweep :
  all_below 4 (fun d => match hexval (hex_digit d), hexval (toupper (hex_digit d)) with
                        | Some x, Some y => (x =? d) && (y =? d) | _, _ => false end) = true.
Proof. vm_compute. reflexivity. Qed.

Lemma hexval_digit d : d < 16 -> hexval (hex_digit d) = Some d /\ hexval (toupper (hex_digit d)) = Some d.
Proof.
  intros H. pose proof (all_below_spec 4 _ hexval_digit_sweep d H) as E. cbv beta in E.
  destruct (hexval (hex_digit d)) as [x|]; [|discriminate].
  destruct (hexval (toupper (hex_digit d))) as [y|]; [|discriminate].
  apply andb_true_iff in E. destruct E as [E1 E2]. apply N.eqb_eq in E1. apply N.eqb_eq in E2. now subst.
Qed.

Lemma b64val_char_sweep :
  all_below 6 (fun v => match b64val (b64_char v) with
                        | Some x => (x =? v) && negb (b64_char v =? pad_char) && (b64_char v <? 256)
                        | None => false end) = true.
Proof. vm_compute. reflexivity. Qed.

Lemma b64val_char v : v < 64 ->
  b64val (b64_char v) = Some v /\ (b64_char v =? pad_char) = false /\ b64_char v < 256.
Proof.
  intros H. pose proof (all_below_spec 6 _ b64val_char_sweep v H) as E. cbv beta in E.
  destruct (b64val (b64_char v)) as [x|]; [|discriminate].
  apply andb_true_iff in E. destruct E as [E E3]. apply andb_true_iff in E. destruct E as [E1 E2].
  apply N.eqb_eq in E1. apply negb_true_iff in E2. apply N.ltb_lt in E3. subst. auto.
Qed.

Lemma hex_digit_byte d : d < 16 -> hex_digit d < 256.
Proof. intros H. unfold hex_digit. destruct (d <? 10); lia. Qed.

Lemma val_range_sweep :
  all_below 8 (fun c => match hexval c with Some v => v <? 16 | None => true end
                        && match b64val c with Some v => v <? 64 | None => true end) = true.
Proof. vm_compute. reflexivity. Qed.

Lemma hexval_lt c v : c < 256 -> hexval c = Some v -> v < 16.
Proof.
  intros H E. pose proof (all_below_spec 8 _ val_range_sweep c H) as B. cbv beta in B.
  apply andb_true_iff in B. destruct B as [B _]. rewrite E in B. now apply N.ltb_lt.
Qed.
Lemma b64val_lt c v : c < 256 -> b64val c = Some v -> v < 64.
Proof.
  intros H E. pose proof (all_below_spec 8 _ val_range_sweep c H) as B. cbv beta in B.
  apply andb_true_iff in B. destruct B as [_ B]. rewrite E in B. now apply N.ltb_lt.
Qed.

Lemma b64val_pad : b64val pad_char = None.
Proof. reflexivity. Qed.
