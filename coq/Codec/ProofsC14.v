(* Codec/ProofsC14.v — the statements of property C14 about the model, derived
   from the closed forms in ProofsEnc / ProofsDecHex / ProofsDecB64.          *)
From Coq Require Import NArith ZArith List Bool Lia Arith.
From ST Require Import Base.Outcome Base.Units Gen.Tables Codec.Spec Codec.Model
  Codec.ProofsTables Codec.ProofsBits Codec.ProofsSpec Codec.ProofsEnc
  Codec.ProofsDecHex Codec.ProofsDecB64.
Import ListNotations.
Local Open Scope N_scope.

(* what the forward scan yields on a standard encoding *)
Lemma hex_scan_of_spec b : bytes_ok b = true -> snd (hex_scan (hex_spec b)) = b.
Proof.
  intros Hb. pose proof (hex_spec_round_trip b Hb) as R.
  rewrite (hex_decode_spec_valid _ (hex_spec_valid b Hb)) in R. injection R as R. exact R.
Qed.

Lemma b64_scan_of_spec b : bytes_ok b = true -> snd (b64_scan (b64_spec b)) = b.
Proof.
  intros Hb. pose proof (b64_spec_round_trip b Hb) as R.
  rewrite (b64_decode_spec_valid _ (b64_spec_valid b Hb)) in R. injection R as R. exact R.
Qed.

Lemma hex_round_trip b : bytes_ok b = true -> hex_decode (hex_spec b) = Ok b.
Proof.
  intros Hb. rewrite (hex_decode_run _ (hex_spec_bytes b Hb)), (hex_spec_valid b Hb).
  now rewrite hex_scan_of_spec.
Qed.

Lemma hex_round_trip_buf b osize : bytes_ok b = true -> (length b <= osize)%nat ->
  hex_decode_buf (hex_spec b) true osize = Ok (Z.of_nat (length b), b).
Proof.
  intros Hb Ho. rewrite (hex_decode_buf_run _ _ (hex_spec_bytes b Hb)).
  rewrite (valid_hex_even _ (hex_spec_valid b Hb)). cbn [negb].
  rewrite hex_length.
  assert (E : (2 * length b / 2 = length b)%nat) by (rewrite Nat.mul_comm; apply Nat.div_mul; discriminate).
  rewrite E. apply Nat.ltb_ge in Ho. rewrite Ho.
  rewrite (hex_spec_valid b Hb), hex_scan_of_spec by exact Hb. reflexivity.
Qed.

Lemma hex_upper b : bytes_ok b = true -> hex_decode (map toupper (hex_spec b)) = Ok b.
Proof.
  intros Hb. pose proof (hex_spec_upper_round_trip b Hb) as R.
  pose proof (decode_some_valid_hex _ _ R) as V.
  rewrite (hex_decode_run _ (map_toupper_bytes _ (hex_spec_bytes b Hb))), V.
  rewrite (hex_decode_spec_valid _ V) in R. injection R as R. now rewrite R.
Qed.

Lemma b64_round_trip b : bytes_ok b = true -> base64_decode (b64_spec b) = Ok b.
Proof.
  intros Hb. rewrite (base64_decode_run _ (b64_spec_bytes b Hb)), (b64_spec_valid b Hb).
  now rewrite b64_scan_of_spec.
Qed.

(* decoded length of a standard encoding is the original length *)
Lemma b64_decoded_len_of_spec b : bytes_ok b = true -> b64_decoded_len (b64_spec b) = Some (length b).
Proof.
  intros Hb. pose proof (b64_spec_mod4 b) as M.
  rewrite b64_decoded_len_unfold. apply Nat.eqb_eq in M. rewrite M. apply Nat.eqb_eq in M.
  destruct (b64_scan_len _ M) as [_ L]. rewrite (b64_scan_valid _ M) in L.
  rewrite <- (L (b64_spec_valid b Hb)), b64_scan_of_spec by exact Hb. reflexivity.
Qed.

Lemma b64_round_trip_buf b osize : bytes_ok b = true -> (length b <= osize)%nat ->
  b64_decode_buf (b64_spec b) true osize = Ok (Z.of_nat (length b), b).
Proof.
  intros Hb Ho. rewrite (b64_decode_buf_run _ _ (b64_spec_bytes b Hb)).
  rewrite (b64_decoded_len_of_spec b Hb). apply Nat.ltb_ge in Ho. rewrite Ho.
  rewrite (b64_spec_valid b Hb), b64_scan_of_spec by exact Hb. reflexivity.
Qed.

(* end to end through the model's own encoder *)
Lemma hex_model_round_trip b : bytes_ok b = true ->
  exists e, hex_encode (Some b) (length b) = Ok e /\ hex_decode e = Ok b /\
            hex_decode (map toupper e) = Ok b.
Proof.
  intros Hb. exists (hex_spec b). split; [now apply hex_encode_is_spec|].
  split; [now apply hex_round_trip|now apply hex_upper].
Qed.

Lemma b64_model_round_trip b : bytes_ok b = true ->
  exists e, base64_encode (Some b) (length b) = Ok e /\ base64_decode e = Ok b.
Proof.
  intros Hb. exists (b64_spec b). split; [now apply b64_encode_is_spec|now apply b64_round_trip].
Qed.

(* table facts in the shape Properties/C14.v states them *)
Lemma tables_sizes :
  length hex_chars = 16%nat /\ length hex_values = 256%nat /\
  length b64_chars = 64%nat /\ length b64_values = 256%nat.
Proof.
  split; [apply hex_chars_length|]. split; [apply hex_values_length|].
  split; [apply b64_chars_length|apply b64_values_length].
Qed.
