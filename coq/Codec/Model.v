(* Codec/Model.v — include/st_codecs_priv.h and include/st_codecs.h transcribed.
   Tables come from Gen/Tables.v (regenerated from the header on every run).
   The string argument `s` is the content of the ST::string; c_str() is
   s ++ [0]; reads go through `cs_at`, writes through `push` which checks the
   caller's output_size, table lookups through `tbl`.                          *)
From Coq Require Import NArith ZArith List Bool Lia.
From ST Require Import Base.Outcome Base.Units Gen.Tables.
Import ListNotations.
Local Open Scope N_scope.
Local Open Scope outcome_scope.

Definition tbl (t : list Z) (i : N) : outcome Z := of_opt OOBRead (nth_error t (N.to_nat i)).
Definition tblN (t : list Z) (i : N) : outcome N := z <- tbl t i ;; Ok (Z.to_N z).

(* c_str()[i] of a string with content s *)
Definition cs_at (s : list N) (i : nat) : outcome N := of_opt OOBRead (nth_error (s ++ [0]) i).

(* *outp++ = v, into a buffer of osize cells of which `w` are written so far *)
Definition push (osize : nat) (w : list N) (v : N) : outcome (list N) :=
  if Nat.ltb (length w) osize then Ok (w ++ [v mod 256]) else Fault OOBWrite.

(* ---- _ST_PRIVATE::hex_encode: writes 2*size chars ---- *)
Fixpoint hex_encode_raw (data : list N) : outcome (list N) :=
  match data with
  | [] => Ok []
  | byte :: t =>
      c0 <- tblN hex_chars (N.land (N.shiftr byte 4) 15) ;;
      c1 <- tblN hex_chars (N.land byte 15) ;;
      r <- hex_encode_raw t ;;
      Ok (c0 :: c1 :: r)
  end.

(* ST::hex_encode(const void*, size_t): data = None is the null pointer *)
Definition hex_encode (data : option (list N)) (size : nat) : outcome (list N) :=
  if Nat.eqb size 0 then Ok []
  else match data with
       | None => Throw InvalidArgument
       | Some d =>
           (* reads data[0..size): a block shorter than `size` is read past its end *)
           if Nat.ltb (length d) size then Fault OOBRead
           else hex_encode_raw (firstn size d)
       end.

(* ---- _ST_PRIVATE::hex_decode(hex, output, output_size) ----
   result: (return value, cells written in order) ; output = false is NULL *)
Fixpoint hex_decode_loop (fuel : nat) (s : list N) (sp : nat) (w : list N)
         (endp osize : nat) : outcome (Z * list N) :=
  match fuel with
  | O => Fault Hang
  | S f =>
      if Nat.ltb (length w) endp then
        c0 <- cs_at s sp ;; c1 <- cs_at s (S sp) ;;
        b0 <- tbl hex_values c0 ;; b1 <- tbl hex_values c1 ;;
        if (b0 <? 0)%Z || (b1 <? 0)%Z then Ok ((-1)%Z, w)
        else
          w' <- push osize w (Z.to_N (Z.lor (Z.shiftl b0 4) b1)) ;;
          hex_decode_loop f s (S (S sp)) w' endp osize
      else Ok (Z.of_nat (length w), w)
  end.

Definition hex_decode_buf (s : list N) (output : bool) (osize : nat) : outcome (Z * list N) :=
  if negb (Nat.even (length s)) then Ok ((-1)%Z, [])
  else
    let decode_size := Nat.div (length s) 2 in
    if negb output then Ok (Z.of_nat decode_size, [])
    else if Nat.ltb osize decode_size then Ok ((-1)%Z, [])
    else hex_decode_loop (S decode_size) s 0 [] decode_size osize.

(* ST::hex_decode(const string&) -> char_buffer *)
Definition hex_decode (s : list N) : outcome (list N) :=
  if negb (Nat.even (length s)) then Throw CodecError
  else
    let decode_size := Nat.div (length s) 2 in
    '(written, w) <- hex_decode_buf s true decode_size ;;
    if (written <? 0)%Z then Throw CodecError
    else if negb (Z.eqb written (Z.of_nat decode_size)) then Abort AbCodecLen
    else if negb (Nat.eqb (length w) decode_size) then Fault Unwritten
    else Ok w.

(* ---- base64 ---- *)
Definition b64_encode_size (size : nat) : nat := Nat.mul (Nat.div (size + 2) 3) 4.

Fixpoint b64_encode_raw (fuel : nat) (sp : list N) : outcome (list N) :=
  match fuel with
  | O => Fault Hang
  | S f =>
      match sp with
      | s0 :: s1 :: s2 :: t =>          (* while (size > 2) *)
          c0 <- tblN b64_chars (N.shiftr s0 2) ;;
          c1 <- tblN b64_chars (N.lor (N.shiftl (N.land s0 3) 4) (N.shiftr (N.land s1 240) 4)) ;;
          c2 <- tblN b64_chars (N.lor (N.shiftl (N.land s1 15) 2) (N.shiftr (N.land s2 192) 6)) ;;
          c3 <- tblN b64_chars (N.land s2 63) ;;
          r <- b64_encode_raw f t ;;
          Ok (c0 :: c1 :: c2 :: c3 :: r)
      | [s0; s1] =>                     (* case 2 *)
          c0 <- tblN b64_chars (N.shiftr s0 2) ;;
          c1 <- tblN b64_chars (N.lor (N.shiftl (N.land s0 3) 4) (N.shiftr (N.land s1 240) 4)) ;;
          c2 <- tblN b64_chars (N.shiftl (N.land s1 15) 2) ;;
          Ok [c0; c1; c2; 61]
      | [s0] =>                         (* case 1 *)
          c0 <- tblN b64_chars (N.shiftr s0 2) ;;
          c1 <- tblN b64_chars (N.shiftl (N.land s0 3) 4) ;;
          Ok [c0; c1; 61; 61]
      | [] => Ok []
      end
  end.

Definition base64_encode (data : option (list N)) (size : nat) : outcome (list N) :=
  if Nat.eqb size 0 then Ok []
  else match data with
       | None => Throw InvalidArgument
       | Some d =>
           if Nat.ltb (length d) size then Fault OOBRead else
           r <- b64_encode_raw (S size) (firstn size d) ;;
           (* result buffer has exactly b64_encode_size(size) cells *)
           if Nat.ltb (b64_encode_size size) (length r) then Fault OOBWrite
           else if Nat.ltb (length r) (b64_encode_size size) then Fault Unwritten
           else Ok r
       end.

(* b64_decode_size(size, data): data[size-1], data[size-2] *)
Definition b64_decode_size (s : list N) : outcome Z :=
  let size := length s in
  if negb (Nat.eqb (Nat.modulo size 4) 0) then Ok (-1)%Z
  else
    let result := Z.of_nat (Nat.mul (Nat.div size 4) 3) in
    r1 <- (if Nat.ltb 0 size then c <- cs_at s (size - 1) ;; Ok (if c =? 61 then (result - 1)%Z else result)
           else Ok result) ;;
    (if Nat.ltb 1 size then c <- cs_at s (size - 2) ;; Ok (if c =? 61 then (r1 - 1)%Z else r1)
     else Ok r1).

Definition b64_bits4 (s : list N) (sp : nat) : outcome (Z * Z * Z * Z * N * N) :=
  c0 <- cs_at s sp ;; c1 <- cs_at s (sp + 1) ;; c2 <- cs_at s (sp + 2) ;; c3 <- cs_at s (sp + 3) ;;
  b0 <- tbl b64_values c0 ;; b1 <- tbl b64_values c1 ;;
  b2 <- tbl b64_values c2 ;; b3 <- tbl b64_values c3 ;;
  Ok (b0, b1, b2, b3, c2, c3).

Definition o1 (b0 b1 : Z) : N := Z.to_N (Z.lor (Z.shiftl b0 2) (Z.land (Z.shiftr b1 4) 3)).
Definition o2 (b1 b2 : Z) : N := Z.to_N (Z.lor (Z.land (Z.shiftl b1 4) 240) (Z.land (Z.shiftr b2 2) 15)).
Definition o3 (b2 b3 : Z) : N := Z.to_N (Z.lor (Z.land (Z.shiftl b2 6) 192) (Z.land b3 63)).

Fixpoint b64_decode_loop (fuel : nat) (s : list N) (sp : nat) (w : list N)
         (endp osize : nat) : outcome (Z * list N) :=
  match fuel with
  | O => Fault Hang
  | S f =>
      if Nat.ltb (length w + 3) endp then       (* while (outp + 3 < endp) *)
        '(b0, b1, b2, b3, _, _) <- b64_bits4 s sp ;;
        if (b0 <? 0)%Z || (b1 <? 0)%Z || (b2 <? 0)%Z || (b3 <? 0)%Z then Ok ((-1)%Z, w)
        else
          w1 <- push osize w (o1 b0 b1) ;;
          w2 <- push osize w1 (o2 b1 b2) ;;
          w3 <- push osize w2 (o3 b2 b3) ;;
          b64_decode_loop f s (sp + 4) w3 endp osize
      else
        (* final chars treated specially *)
        '(b0, b1, b2, b3, c2, c3) <- b64_bits4 s sp ;;
        if (b0 <? 0)%Z || (b1 <? 0)%Z then Ok ((-1)%Z, w)
        else
          w1 <- push osize w (o1 b0 b1) ;;
          r2 <- (if negb (c2 =? 61) then
                   if (b2 <? 0)%Z then Ok (None)
                   else w2 <- push osize w1 (o2 b1 b2) ;; Ok (Some w2)
                 else Ok (Some w1)) ;;
          match r2 with
          | None => Ok ((-1)%Z, w1)
          | Some w2 =>
              if negb (c3 =? 61) then
                if (b2 <? 0)%Z || (b3 <? 0)%Z then Ok ((-1)%Z, w2)
                else w3 <- push osize w2 (o3 b2 b3) ;; Ok (Z.of_nat (length w3), w3)
              else Ok (Z.of_nat (length w2), w2)
          end
  end.

Definition b64_decode_buf (s : list N) (output : bool) (osize : nat) : outcome (Z * list N) :=
  decode_size <- b64_decode_size s ;;
  if negb output then Ok (decode_size, [])
  else if (decode_size <? 0)%Z || (Z.of_nat osize <? decode_size)%Z then Ok ((-1)%Z, [])
  else if (decode_size =? 0)%Z then Ok (0%Z, [])
  else b64_decode_loop (S (length s)) s 0 [] (Z.to_nat decode_size) osize.

Definition base64_decode (s : list N) : outcome (list N) :=
  decode_size <- b64_decode_size s ;;
  if (decode_size <? 0)%Z then Throw CodecError
  else
    '(written, w) <- b64_decode_buf s true (Z.to_nat decode_size) ;;
    if (written <? 0)%Z then Throw CodecError
    else if negb (Z.eqb written decode_size) then Abort AbCodecLen
    else if negb (Nat.eqb (length w) (Z.to_nat decode_size)) then Fault Unwritten
    else Ok w.
