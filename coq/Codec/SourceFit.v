(* Codec/SourceFit.v — the two TRANSLATED functions of the base64 encoder fit each other and the standard: for a byte
   string of any length below 2^62, what _ST_PRIVATE::b64_encode (as found in the current headers) stores is the RFC 4648
   encoding b64_spec, and it stores exactly as many characters as _ST_PRIVATE::b64_encode_size (as found in the current
   headers) returns — the size ST::base64_encode allocates before it calls the encoder: the buffer is filled exactly,
   never overrun, never left partly unwritten. *)
From Coq Require Import NArith ZArith List Bool Lia ZifyBool ZifyNat ZifyN.
From ST Require Import Base.Outcome Base.Units Gen.Tables Codec.Model Codec.Spec Codec.ProofsEnc Gen.Leaf Codec.LeafBridge Codec.LoopBridge.
Import ListNotations.
Local Open Scope Z_scope.

Theorem b64_encode_source_is_rfc l fuel : bytes_ok l = true -> (length l < fuel)%nat -> Z.of_nat (length l) < 2 ^ 62 ->
  exists ws, src_b64_encode fuel (arrb l) (Z.of_nat (length l)) = Some ws /\ map Z.to_N ws = b64_spec l /\
             Z.of_nat (length ws) = src_b64_encode_size (Z.of_nat (length l)).
Proof.
  intros A Hf Hb.
  destruct (b64_encode_matches_source l fuel A Hf ltac:(lia)) as (ws & Es & Em & _).
  rewrite (b64_encode_raw_spec l A (S (length l))) in Em by lia. inversion Em as [Hm].
  exists ws. split; [exact Es|]. split; [symmetry; exact Hm|].
  rewrite b64_encode_size_matches_source by exact Hb. rewrite b64_encode_size_spec, Hm. rewrite map_length. reflexivity.
Qed.

(* the same for the hex encoder: what _ST_PRIVATE::hex_encode of the current headers stores is the lower-case hex string
   hex_spec, two characters per byte — the 2 * size characters ST::hex_encode allocates *)
Theorem hex_encode_source_is_spec l fuel : bytes_ok l = true -> (length l < fuel)%nat -> Z.of_nat (length l) < 2 ^ 62 ->
  exists ws, src_hex_encode fuel (arrb l) (Z.of_nat (length l)) = Some ws /\ map Z.to_N ws = hex_spec l /\
             length ws = (2 * length l)%nat.
Proof.
  intros A Hf Hb.
  destruct (hex_encode_matches_source l fuel A Hf ltac:(lia)) as (ws & Es & Em).
  rewrite (hex_encode_raw_spec l A) in Em. inversion Em as [Hm].
  exists ws. split; [exact Es|]. split; [symmetry; exact Hm|].
  rewrite <- (map_length Z.to_N ws), <- Hm. apply ProofsSpec.hex_length.
Qed.
