(* Codec/ProofsEnc.v — the encoders of Codec/Model.v produce exactly
   hex_spec / b64_spec (RFC 4648 via the 24-bit group number) for every byte
   list of every length.  Uses the table sweeps (ProofsTables) and the
   mask/shift sweeps (ProofsBits).                                            *)
From Coq Require Import NArith ZArith List Bool Lia Arith.
From Coq Require Import ZifyBool ZifyNat ZifyN.
From ST Require Import Base.Outcome Base.Units Gen.Tables Codec.Spec Codec.Model
  Codec.ProofsTables Codec.ProofsBits Codec.ProofsSpec.
Import ListNotations.
Local Open Scope N_scope.
Ltac Zify.zify_post_hook ::= Z.div_mod_to_equations.

(* ---------- hex ---------- *)
Lemma hex_encode_raw_spec b : bytes_ok b = true -> hex_encode_raw b = Ok (hex_spec b).
Proof.
  induction b as [|x t IH]; intros Hb; [reflexivity|].
  apply bytes_ok_cons in Hb. destruct Hb as [Hx Ht].
  destruct (enc1 x Hx) as (_ & _ & _ & _ & E5 & E6).
  cbn [hex_encode_raw]. rewrite E5, E6.
  rewrite (hex_chars_ok (x / 16)) by lia. cbn [bind].
  rewrite (hex_chars_ok (x mod 16)) by lia. cbn [bind].
  rewrite (IH Ht). cbn [bind]. rewrite hex_spec_cons. reflexivity.
Qed.

Lemma hex_encode_is_spec b : bytes_ok b = true -> hex_encode (Some b) (length b) = Ok (hex_spec b).
Proof.
  intros Hb. unfold hex_encode. destruct b as [|x t]; [reflexivity|].
  cbn [length Nat.eqb]. rewrite Nat.ltb_irrefl.
  change (S (length t)) with (length (x :: t)). rewrite firstn_all.
  apply hex_encode_raw_spec. exact Hb.
Qed.

Lemma hex_encode_size0 d : hex_encode d 0 = Ok [].
Proof. reflexivity. Qed.

Lemma hex_encode_null n : n <> 0%nat -> hex_encode None n = Throw InvalidArgument.
Proof. intros H. unfold hex_encode. destruct n; [congruence|reflexivity]. Qed.

(* ---------- base64 ---------- *)
Lemma b64_encode_raw_spec b : bytes_ok b = true ->
  forall fuel, (length b < fuel)%nat -> b64_encode_raw fuel b = Ok (b64_spec b).
Proof.
  induction b as [| a | a c | a c d t IH] using triple_ind; intros Hb fuel Hf.
  - destruct fuel; [lia|reflexivity].
  - destruct fuel; [lia|]. apply bytes_ok_cons in Hb. destruct Hb as [Ha _].
    destruct (enc1 a Ha) as (E1 & _ & E3 & _).
    cbn [b64_encode_raw]. rewrite E1, E3.
    rewrite (b64_chars_ok (a / 4)) by lia. cbn [bind].
    rewrite (b64_chars_ok ((a mod 4) * 16)) by lia. cbn [bind].
    rewrite b64_spec_1 by exact Ha. reflexivity.
  - destruct fuel; [lia|]. apply bytes_ok_cons in Hb. destruct Hb as [Ha Hb].
    apply bytes_ok_cons in Hb. destruct Hb as [Hc _].
    destruct (enc1 a Ha) as (E1 & _). destruct (enc1 c Hc) as (_ & _ & _ & E4 & _).
    destruct (enc2 a c Ha Hc) as (E2 & _).
    cbn [b64_encode_raw]. rewrite E1, E2, E4.
    rewrite (b64_chars_ok (a / 4)) by lia. cbn [bind].
    rewrite (b64_chars_ok ((a mod 4) * 16 + c / 16)) by lia. cbn [bind].
    rewrite (b64_chars_ok ((c mod 16) * 4)) by lia. cbn [bind].
    rewrite b64_spec_2 by assumption. reflexivity.
  - destruct fuel; [lia|]. apply bytes_ok_cons in Hb. destruct Hb as [Ha Hb].
    apply bytes_ok_cons in Hb. destruct Hb as [Hc Hb].
    apply bytes_ok_cons in Hb. destruct Hb as [Hd Ht].
    destruct (enc1 a Ha) as (E1 & _). destruct (enc1 d Hd) as (_ & E4 & _).
    destruct (enc2 a c Ha Hc) as (E2 & _). destruct (enc2 c d Hc Hd) as (_ & E3).
    cbn [b64_encode_raw]. rewrite E1, E2, E3, E4.
    rewrite (b64_chars_ok (a / 4)) by lia. cbn [bind].
    rewrite (b64_chars_ok ((a mod 4) * 16 + c / 16)) by lia. cbn [bind].
    rewrite (b64_chars_ok ((c mod 16) * 4 + d / 64)) by lia. cbn [bind].
    rewrite (b64_chars_ok (d mod 64)) by lia. cbn [bind].
    rewrite (IH Ht fuel) by (cbn [length] in Hf; lia). cbn [bind].
    rewrite b64_spec_3 by assumption. reflexivity.
Qed.

Lemma b64_encode_size_spec b : b64_encode_size (length b) = length (b64_spec b).
Proof. rewrite b64_length. unfold b64_encode_size. lia. Qed.

Lemma b64_encode_is_spec b : bytes_ok b = true -> base64_encode (Some b) (length b) = Ok (b64_spec b).
Proof.
  intros Hb. unfold base64_encode. destruct b as [|x t]; [reflexivity|].
  remember (x :: t) as l eqn:El.
  assert (Z0 : Nat.eqb (length l) 0 = false) by (subst l; reflexivity).
  rewrite Z0, Nat.ltb_irrefl, firstn_all.
  rewrite (b64_encode_raw_spec l Hb (S (length l))) by lia. cbn [bind].
  rewrite b64_encode_size_spec, Nat.ltb_irrefl. reflexivity.
Qed.

Lemma b64_encode_size0 d : base64_encode d 0 = Ok [].
Proof. reflexivity. Qed.

Lemma b64_encode_null n : n <> 0%nat -> base64_encode None n = Throw InvalidArgument.
Proof. intros H. unfold base64_encode. destruct n; [congruence|reflexivity]. Qed.
