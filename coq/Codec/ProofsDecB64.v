(* Codec/ProofsDecB64.v — the base64 decoder of Codec/Model.v, for every byte
   string and every output size: b64_decode_size is the Spec's decoded length;
   the main loop runs once per non-final group and the final group writes
   exactly 3 - padding cells; closed forms b64_decode_buf_run / base64_decode_run. *)
From Coq Require Import NArith ZArith List Bool Lia Arith.
From Coq Require Import ZifyBool ZifyNat ZifyN.
From ST Require Import Base.Outcome Base.Units Gen.Tables Codec.Spec Codec.Model
  Codec.ProofsTables Codec.ProofsBits Codec.ProofsSpec Codec.ProofsDecHex.
Import ListNotations.
Local Open Scope N_scope.
Ltac Zify.zify_post_hook ::= Z.div_mod_to_equations.

(* ---------- b64_decode_size = the length implied by size and padding ---------- *)
Lemma cs_at_last2 s c1 c2 r : rev s = c1 :: c2 :: r ->
  cs_at s (length s - 1) = Ok c1 /\ cs_at s (length s - 2) = Ok c2.
Proof.
  intros E. assert (S' : s = rev r ++ [c2; c1]).
  { rewrite <- (rev_involutive s), E. cbn [rev]. rewrite <- app_assoc. reflexivity. }
  subst s. rewrite app_length. cbn [length]. unfold cs_at. rewrite <- app_assoc. cbn [app].
  split.
  - rewrite nth_error_app2 by lia.
    replace (length (rev r) + 2 - 1 - length (rev r))%nat with 1%nat by lia. reflexivity.
  - rewrite nth_error_app2 by lia.
    replace (length (rev r) + 2 - 2 - length (rev r))%nat with 0%nat by lia. reflexivity.
Qed.

Lemma b64_decode_size_run s :
  b64_decode_size s = Ok (match b64_decoded_len s with Some n => Z.of_nat n | None => (-1)%Z end).
Proof.
  unfold b64_decode_size. rewrite b64_decoded_len_unfold.
  destruct (Nat.eqb (length s mod 4) 0) eqn:M; cbn [negb]; [|reflexivity].
  apply Nat.eqb_eq in M.
  destruct s as [|x t]; [reflexivity|].
  remember (x :: t) as s eqn:Es.
  assert (L4 : (4 <= length s)%nat) by (apply mod4_tail; [exact M|subst s; discriminate]).
  pose proof (rev_length s) as RL.
  destruct (rev s) as [|c1 [|c2 r]] eqn:ER; cbn [length] in RL; try lia.
  destruct (cs_at_last2 s c1 c2 r ER) as [A1 A2].
  assert (T0 : Nat.ltb 0 (length s) = true) by (apply Nat.ltb_lt; lia).
  assert (T1 : Nat.ltb 1 (length s) = true) by (apply Nat.ltb_lt; lia).
  rewrite T0, T1, A1. cbn [bind]. rewrite A2. cbn [bind].
  unfold dlen, pad1, pad2. rewrite ER. unfold pad_char.
  destruct (c1 =? 61), (c2 =? 61); f_equal; lia.
Qed.

(* ---------- reading one group ---------- *)
Lemma b64_bits4_head a b c d t :
  a < 256 -> b < 256 -> c < 256 -> d < 256 ->
  b64_bits4 (a :: b :: c :: d :: t) 0 =
  Ok (valz (b64val a), valz (b64val b), valz (b64val c), valz (b64val d), c, d).
Proof.
  intros Ha Hb Hc Hd. unfold b64_bits4. cbn [Nat.add].
  change (cs_at (a :: b :: c :: d :: t) 0) with (Ok (A:=N) a).
  change (cs_at (a :: b :: c :: d :: t) 1) with (Ok (A:=N) b).
  change (cs_at (a :: b :: c :: d :: t) 2) with (Ok (A:=N) c).
  change (cs_at (a :: b :: c :: d :: t) 3) with (Ok (A:=N) d).
  cbn [bind].
  rewrite (b64_values_ok a Ha), (b64_values_ok b Hb), (b64_values_ok c Hc), (b64_values_ok d Hd).
  reflexivity.
Qed.

Lemma b64_bits4_shift a b c d s sp :
  b64_bits4 (a :: b :: c :: d :: s) (sp + 4) = b64_bits4 s sp.
Proof.
  unfold b64_bits4.
  replace (sp + 4 + 1)%nat with (S (S (S (S (sp + 1))))) by lia.
  replace (sp + 4 + 2)%nat with (S (S (S (S (sp + 2))))) by lia.
  replace (sp + 4 + 3)%nat with (S (S (S (S (sp + 3))))) by lia.
  replace (sp + 4)%nat with (S (S (S (S sp)))) by lia.
  reflexivity.
Qed.

Lemma b64_loop_shift f : forall a b c d s sp w endp osize,
  b64_decode_loop f (a :: b :: c :: d :: s) (sp + 4) w endp osize = b64_decode_loop f s sp w endp osize.
Proof.
  induction f as [|f IH]; intros a b c d s sp w endp osize; [reflexivity|].
  cbn [b64_decode_loop]. rewrite b64_bits4_shift.
  destruct (Nat.ltb (length w + 3) endp); [|reflexivity].
  destruct (b64_bits4 s sp) as [[[[[[b0 b1] b2] b3] c2] c3]| | |]; cbn [bind]; try reflexivity.
  destruct ((b0 <? 0)%Z || (b1 <? 0)%Z || (b2 <? 0)%Z || (b3 <? 0)%Z); [reflexivity|].
  destruct (push osize w _) as [w1| | |]; cbn [bind]; try reflexivity.
  destruct (push osize w1 _) as [w2| | |]; cbn [bind]; try reflexivity.
  destruct (push osize w2 _) as [w3| | |]; cbn [bind]; try reflexivity.
  apply IH.
Qed.

Definition b64_result (w : list N) (r : bool * list N) : Z * list N :=
  (if fst r then Z.of_nat (length w + length (snd r)) else (-1)%Z, w ++ snd r).

(* ---------- the final group ---------- *)
Lemma b64_final_run c0 c1 c2 c3 fuel w endp osize :
  c0 < 256 -> c1 < 256 -> c2 < 256 -> c3 < 256 ->
  endp = (length w + dlen [c0; c1; c2; c3])%nat -> (endp <= osize)%nat ->
  b64_decode_loop (S fuel) [c0; c1; c2; c3] 0 w endp osize =
  Ok (b64_result w (b64_final c0 c1 c2 c3)).
Proof.
  intros H0 H1 H2 H3 He Ho. rewrite dlen_4 in He. unfold pad_char in He.
  cbn [b64_decode_loop].
  assert (L : Nat.ltb (length w + 3) endp = false).
  { apply Nat.ltb_ge. destruct (c3 =? 61), (c2 =? 61); lia. }
  rewrite L, (b64_bits4_head c0 c1 c2 c3 [] H0 H1 H2 H3). cbn [bind].
  rewrite !valz_neg. unfold b64_final, b64_result, pad_char.
  destruct (b64val c0) as [v0|] eqn:E0; [|cbn [orb fst snd]; now rewrite app_nil_r].
  destruct (b64val c1) as [v1|] eqn:E1; [|cbn [orb fst snd]; now rewrite app_nil_r].
  cbn [orb valz].
  pose proof (b64val_lt c0 v0 H0 E0) as V0. pose proof (b64val_lt c1 v1 H1 E1) as V1.
  destruct (dec2 v0 v1 V0 V1) as (D1 & _ & _).
  rewrite push_ok by (destruct (c3 =? 61), (c2 =? 61); lia). cbn [bind]. rewrite D1.
  fold (byte0 v0 v1).
  destruct (c2 =? 61) eqn:P2; cbn [negb bind].
  - (* "xx=?" *)
    destruct (c3 =? 61) eqn:P3; cbn [negb fst snd].
    + rewrite length_snoc. cbn [length]. do 2 f_equal. lia.
    + apply N.eqb_eq in P2. subst c2. cbn [b64val valz orb]. reflexivity.
  - destruct (b64val c2) as [v2|] eqn:E2; cbn [bind valz].
    2:{ cbn [fst snd]. reflexivity. }
    pose proof (b64val_lt c2 v2 H2 E2) as V2.
    destruct (dec2 v1 v2 V1 V2) as (_ & D2 & _).
    rewrite push_ok by (rewrite length_snoc; destruct (c3 =? 61); lia). cbn [bind]. rewrite D2.
    fold (byte1 v1 v2).
    destruct (c3 =? 61) eqn:P3; cbn [negb fst snd].
    + rewrite !length_snoc, <- app_assoc. cbn [app length]. do 2 f_equal. lia.
    + cbn [orb].
      destruct (b64val c3) as [v3|] eqn:E3; cbn [fst snd].
      2:{ rewrite <- app_assoc. reflexivity. }
      pose proof (b64val_lt c3 v3 H3 E3) as V3.
      destruct (dec2 v2 v3 V2 V3) as (_ & _ & D3).
      rewrite push_ok by (rewrite !length_snoc; lia). cbn [bind valz]. rewrite D3.
      fold (byte2 v2 v3).
      rewrite !length_snoc, <- !app_assoc. cbn [app length]. do 2 f_equal. lia.
Qed.

(* ---------- the whole loop: one pass per non-final group, then the final group ---------- *)
Lemma b64_loop_run s : (length s mod 4 = 0)%nat ->
  s <> [] -> bytes_ok s = true ->
  forall fuel w endp osize,
    endp = (length w + dlen s)%nat -> (endp <= osize)%nat -> (length s / 4 <= fuel)%nat ->
    b64_decode_loop fuel s 0 w endp osize = Ok (b64_result w (b64_scan s)).
Proof.
  revert s. apply (quad_ind (fun s => s <> [] -> bytes_ok s = true ->
    forall fuel w endp osize,
      endp = (length w + dlen s)%nat -> (endp <= osize)%nat -> (length s / 4 <= fuel)%nat ->
      b64_decode_loop fuel s 0 w endp osize = Ok (b64_result w (b64_scan s)))); [congruence|].
  intros c0 c1 c2 c3 t Mt IH _ Hb fuel w endp osize He Ho Hf.
  apply bytes_ok_cons in Hb. destruct Hb as [H0 Hb].
  apply bytes_ok_cons in Hb. destruct Hb as [H1 Hb].
  apply bytes_ok_cons in Hb. destruct Hb as [H2 Hb].
  apply bytes_ok_cons in Hb. destruct Hb as [H3 Ht].
  destruct fuel as [|f]; [cbn [length] in Hf; lia|].
  destruct t as [|x t'].
  - cbn [b64_scan]. apply b64_final_run; assumption.
  - assert (L : (4 <= length (x :: t'))%nat) by (apply mod4_tail; [exact Mt|discriminate]).
    rewrite dlen_cons4 in He by exact L.
    assert (Dt : (1 <= dlen (x :: t'))%nat) by (apply dlen_bounds; [exact Mt|discriminate]).
    rewrite b64_scan_cons4. remember (x :: t') as t eqn:Et.
    cbn [b64_decode_loop].
    assert (LT : Nat.ltb (length w + 3) endp = true) by (apply Nat.ltb_lt; lia).
    rewrite LT, (b64_bits4_head c0 c1 c2 c3 t H0 H1 H2 H3). cbn [bind].
    rewrite !valz_neg. unfold b64_result at 1.
    destruct (b64val c0) as [v0|] eqn:E0; [|cbn [orb fst snd]; now rewrite app_nil_r].
    destruct (b64val c1) as [v1|] eqn:E1; [|cbn [orb fst snd]; now rewrite app_nil_r].
    destruct (b64val c2) as [v2|] eqn:E2; [|cbn [orb fst snd]; now rewrite app_nil_r].
    destruct (b64val c3) as [v3|] eqn:E3; [|cbn [orb fst snd]; now rewrite app_nil_r].
    cbn [orb valz].
    pose proof (b64val_lt c0 v0 H0 E0) as V0. pose proof (b64val_lt c1 v1 H1 E1) as V1.
    pose proof (b64val_lt c2 v2 H2 E2) as V2. pose proof (b64val_lt c3 v3 H3 E3) as V3.
    destruct (dec2 v0 v1 V0 V1) as (D1 & _ & _).
    destruct (dec2 v1 v2 V1 V2) as (_ & D2 & _).
    destruct (dec2 v2 v3 V2 V3) as (_ & _ & D3).
    rewrite push_ok by lia. cbn [bind].
    rewrite push_ok by (rewrite length_snoc; lia). cbn [bind].
    rewrite push_ok by (rewrite !length_snoc; lia). cbn [bind].
    rewrite D1, D2, D3. fold (byte0 v0 v1) (byte1 v1 v2) (byte2 v2 v3).
    change 4%nat with (0 + 4)%nat at 1. rewrite b64_loop_shift.
    assert (Nt : t <> []) by (subst t; discriminate).
    rewrite (IH Nt Ht f _ endp osize); [|rewrite !length_snoc; lia|exact Ho|cbn [length] in Hf; lia].
    unfold b64_result. cbn [fst snd length]. rewrite !length_snoc, <- !app_assoc. cbn [app].
    destruct (fst (b64_scan t)); [|reflexivity]. do 2 f_equal. lia.
Qed.

(* ---------- caller-buffer decoder, closed form, any output size ---------- *)
Theorem b64_decode_buf_run s osize : bytes_ok s = true ->
  b64_decode_buf s true osize =
  match b64_decoded_len s with
  | None => Ok ((-1)%Z, [])
  | Some n =>
      if Nat.ltb osize n then Ok ((-1)%Z, [])
      else Ok (if valid_b64 s then Z.of_nat n else (-1)%Z, snd (b64_scan s))
  end.
Proof.
  intros Hb. unfold b64_decode_buf. rewrite b64_decode_size_run. cbn [bind negb].
  rewrite b64_decoded_len_unfold.
  destruct (Nat.eqb (length s mod 4) 0) eqn:M; [|reflexivity]. apply Nat.eqb_eq in M.
  assert (Z0 : (Z.of_nat (dlen s) <? 0)%Z = false) by (apply Z.ltb_ge; lia).
  rewrite Z0. cbn [orb].
  destruct (Nat.ltb osize (dlen s)) eqn:Ho.
  - assert (Z1 : (Z.of_nat osize <? Z.of_nat (dlen s))%Z = true).
    { apply Z.ltb_lt. apply Nat.ltb_lt in Ho. lia. }
    rewrite Z1. reflexivity.
  - assert (Z1 : (Z.of_nat osize <? Z.of_nat (dlen s))%Z = false).
    { apply Z.ltb_ge. apply Nat.ltb_ge in Ho. lia. }
    rewrite Z1. apply Nat.ltb_ge in Ho.
    destruct s as [|x t]; [reflexivity|].
    remember (x :: t) as s' eqn:Es.
    assert (Ns : s' <> []) by (subst s'; discriminate).
    destruct (dlen_bounds s' M Ns) as [[D1 D2] D3].
    assert (Z2 : (Z.of_nat (dlen s') =? 0)%Z = false) by (apply Z.eqb_neq; lia).
    rewrite Z2, Nat2Z.id.
    rewrite (b64_loop_run s' M Ns Hb (S (length s')) [] (dlen s') osize); [|reflexivity|exact Ho|lia].
    unfold b64_result. cbn [length app Nat.add]. rewrite (b64_scan_valid s' M).
    destruct (valid_b64 s') eqn:V; [|reflexivity].
    destruct (b64_scan_len s' M) as [_ L]. rewrite (b64_scan_valid s' M) in L. rewrite (L V). reflexivity.
Qed.

Lemma b64_decode_buf_null s osize :
  b64_decode_buf s false osize =
  Ok (match b64_decoded_len s with Some n => Z.of_nat n | None => (-1)%Z end, []).
Proof. unfold b64_decode_buf. rewrite b64_decode_size_run. reflexivity. Qed.

(* ---------- allocating wrapper ---------- *)
Theorem base64_decode_run s : bytes_ok s = true ->
  base64_decode s = if valid_b64 s then Ok (snd (b64_scan s)) else Throw CodecError.
Proof.
  intros Hb. unfold base64_decode. rewrite b64_decode_size_run. cbn [bind].
  rewrite (b64_decode_buf_run s _ Hb). rewrite b64_decoded_len_unfold.
  destruct (Nat.eqb (length s mod 4) 0) eqn:M.
  2:{ rewrite valid_b64_unfold, M. reflexivity. }
  apply Nat.eqb_eq in M.
  assert (Z0 : (Z.of_nat (dlen s) <? 0)%Z = false) by (apply Z.ltb_ge; lia).
  rewrite Z0, Nat2Z.id, Nat.ltb_irrefl. cbn [bind].
  destruct (valid_b64 s) eqn:V; [|reflexivity].
  rewrite Z0, Z.eqb_refl. cbn [negb].
  destruct (b64_scan_len s M) as [_ L]. rewrite (b64_scan_valid s M) in L. rewrite (L V), Nat.eqb_refl.
  reflexivity.
Qed.

(* how many times the main loop body runs: exactly once per non-final group.
   Stated on the scan: a string of k groups that is accepted produced
   3 * (k - 1) cells in the loop and dlen - 3 * (k - 1) in {1,2,3} in the tail. *)
Lemma final_cells s : (length s mod 4 = 0)%nat -> s <> [] ->
  (1 <= dlen s - 3 * (length s / 4 - 1) <= 3)%nat.
Proof. intros M Ns. destruct (dlen_bounds s M Ns) as [[D1 D2] D3]. lia. Qed.
