(* Codec/ProofsC15.v — the statements of property C15 about the model, derived
   from the closed forms hex_decode_buf_run / hex_decode_run /
   b64_decode_buf_run / base64_decode_run (all strings, all output sizes).     *)
From Coq Require Import NArith ZArith List Bool Lia Arith.
From Coq Require Import ZifyBool ZifyNat ZifyN.
From ST Require Import Base.Outcome Base.Units Gen.Tables Codec.Spec Codec.Model
  Codec.ProofsTables Codec.ProofsBits Codec.ProofsSpec Codec.ProofsDecHex Codec.ProofsDecB64.
Import ListNotations.
Local Open Scope N_scope.
Ltac Zify.zify_post_hook ::= Z.div_mod_to_equations.

(* ======================= hex ======================= *)
Lemma valid_hex_len s : valid_hex s = true -> hex_decoded_len s = Some (length s / 2)%nat.
Proof. intros V. unfold hex_decoded_len. now rewrite (valid_hex_even s V). Qed.

Lemma hex_accept_iff s osize : bytes_ok s = true ->
  ((exists n w, hex_decode_buf s true osize = Ok (Z.of_nat n, w))
   <-> (valid_hex s = true /\ (length s / 2 <= osize)%nat)).
Proof.
  intros Hb. rewrite (hex_decode_buf_run s osize Hb). split.
  - intros (n & w & E).
    destruct (Nat.even (length s)) eqn:Hev; cbn [negb] in E; [|injection E as E _; lia].
    destruct (Nat.ltb osize (length s / 2)) eqn:Ho; [injection E as E _; lia|].
    apply Nat.ltb_ge in Ho. destruct (valid_hex s); [split; [reflexivity|exact Ho]|injection E as E _; lia].
  - intros [V Ho]. rewrite (valid_hex_even s V), V. cbn [negb].
    apply Nat.ltb_ge in Ho. rewrite Ho. eauto.
Qed.

Lemma hex_reject s osize : bytes_ok s = true ->
  ~ (valid_hex s = true /\ (length s / 2 <= osize)%nat) ->
  exists w, hex_decode_buf s true osize = Ok ((-1)%Z, w).
Proof.
  intros Hb N. rewrite (hex_decode_buf_run s osize Hb).
  destruct (Nat.even (length s)); cbn [negb]; [|eauto].
  destruct (Nat.ltb osize (length s / 2)) eqn:Ho; [eauto|]. apply Nat.ltb_ge in Ho.
  destruct (valid_hex s); [exfalso; apply N; split; [reflexivity|exact Ho]|eauto].
Qed.

Lemma hex_decode_throw_iff s : bytes_ok s = true ->
  (hex_decode s = Throw CodecError <-> valid_hex s = false).
Proof.
  intros Hb. rewrite (hex_decode_run s Hb). destruct (valid_hex s); split; congruence.
Qed.

Lemma hex_decode_is_spec s : bytes_ok s = true -> valid_hex s = true ->
  exists r, hex_decode_spec s = Some r /\ hex_decode s = Ok r.
Proof.
  intros Hb V. exists (snd (hex_scan s)). split; [now apply hex_decode_spec_valid|].
  now rewrite (hex_decode_run s Hb), V.
Qed.

(* allocating form: value or codec_error, nothing else *)
Lemma hex_decode_total s : bytes_ok s = true ->
  (exists r, hex_decode s = Ok r) \/ hex_decode s = Throw CodecError.
Proof. intros Hb. rewrite (hex_decode_run s Hb). destruct (valid_hex s); eauto. Qed.

(* every call returns normally (the routine is noexcept: no Throw either) and
   the cells written, in order from output[0], never exceed output_size *)
Lemma hex_never_overrun s output osize : bytes_ok s = true ->
  exists r w, hex_decode_buf s output osize = Ok (r, w) /\ (length w <= osize)%nat.
Proof.
  intros Hb. destruct output.
  - rewrite (hex_decode_buf_run s osize Hb).
    destruct (Nat.even (length s)); cbn [negb]; [|do 2 eexists; split; [reflexivity|cbn [length]; lia]].
    destruct (Nat.ltb osize (length s / 2)) eqn:Ho; [do 2 eexists; split; [reflexivity|cbn [length]; lia]|].
    apply Nat.ltb_ge in Ho. do 2 eexists. split; [reflexivity|].
    destruct (hex_scan_len s) as [L1 _]. lia.
  - rewrite hex_decode_buf_null. do 2 eexists. split; [reflexivity|]. cbn [length]. lia.
Qed.

Lemma hex_written_eq_len s osize r w : bytes_ok s = true ->
  hex_decode_buf s true osize = Ok (r, w) -> (0 <= r)%Z ->
  r = Z.of_nat (length w) /\ hex_decoded_len s = Some (length w) /\ hex_decode_spec s = Some w.
Proof.
  intros Hb E Hr. rewrite (hex_decode_buf_run s osize Hb) in E.
  destruct (Nat.even (length s)) eqn:Hev; cbn [negb] in E; [|injection E as E _; lia].
  destruct (Nat.ltb osize (length s / 2)); [injection E as E _; lia|].
  destruct (valid_hex s) eqn:V; [|injection E as E _; lia].
  injection E as E1 E2. subst r w.
  destruct (hex_scan_len s) as [_ L]. rewrite hex_scan_valid in L. rewrite (L V).
  split; [reflexivity|]. split; [now apply valid_hex_len|now apply hex_decode_spec_valid].
Qed.

Lemma hex_decode_buf_is_spec s osize : bytes_ok s = true -> valid_hex s = true ->
  (length s / 2 <= osize)%nat ->
  exists r, hex_decode_spec s = Some r /\ length r = (length s / 2)%nat /\
            hex_decode_buf s true osize = Ok (Z.of_nat (length r), r).
Proof.
  intros Hb V Ho. exists (snd (hex_scan s)).
  destruct (hex_scan_len s) as [_ L]. rewrite hex_scan_valid in L.
  split; [now apply hex_decode_spec_valid|]. split; [exact (L V)|].
  rewrite (hex_decode_buf_run s osize Hb), (valid_hex_even s V), V. cbn [negb].
  apply Nat.ltb_ge in Ho. rewrite Ho, (L V). reflexivity.
Qed.

(* ======================= base64 ======================= *)
Lemma valid_b64_len s : valid_b64 s = true -> b64_decoded_len s = Some (dlen s).
Proof.
  intros V. rewrite b64_decoded_len_unfold. pose proof (valid_b64_mod4 s V) as M.
  apply Nat.eqb_eq in M. now rewrite M.
Qed.

Lemma b64_accept_iff s osize : bytes_ok s = true ->
  ((exists n w, b64_decode_buf s true osize = Ok (Z.of_nat n, w))
   <-> (valid_b64 s = true /\ exists n, b64_decoded_len s = Some n /\ (n <= osize)%nat)).
Proof.
  intros Hb. rewrite (b64_decode_buf_run s osize Hb). split.
  - intros (n & w & E). destruct (b64_decoded_len s) as [m|]; [|injection E as E _; lia].
    destruct (Nat.ltb osize m) eqn:Ho; [injection E as E _; lia|]. apply Nat.ltb_ge in Ho.
    destruct (valid_b64 s); [|injection E as E _; lia].
    split; [reflexivity|]. exists m. split; [reflexivity|exact Ho].
  - intros [V (n & En & Ho)]. rewrite En, V. apply Nat.ltb_ge in Ho. rewrite Ho. eauto.
Qed.

Lemma b64_reject s osize : bytes_ok s = true ->
  ~ (valid_b64 s = true /\ exists n, b64_decoded_len s = Some n /\ (n <= osize)%nat) ->
  exists w, b64_decode_buf s true osize = Ok ((-1)%Z, w).
Proof.
  intros Hb N. rewrite (b64_decode_buf_run s osize Hb).
  destruct (b64_decoded_len s) as [m|]; [|eauto].
  destruct (Nat.ltb osize m) eqn:Ho; [eauto|]. apply Nat.ltb_ge in Ho.
  destruct (valid_b64 s); [|eauto].
  exfalso. apply N. split; [reflexivity|]. exists m. split; [reflexivity|exact Ho].
Qed.

Lemma base64_decode_throw_iff s : bytes_ok s = true ->
  (base64_decode s = Throw CodecError <-> valid_b64 s = false).
Proof.
  intros Hb. rewrite (base64_decode_run s Hb). destruct (valid_b64 s); split; congruence.
Qed.

Lemma base64_decode_is_spec s : bytes_ok s = true -> valid_b64 s = true ->
  exists r, b64_decode_spec s = Some r /\ base64_decode s = Ok r.
Proof.
  intros Hb V. exists (snd (b64_scan s)). split; [now apply b64_decode_spec_valid|].
  now rewrite (base64_decode_run s Hb), V.
Qed.

Lemma base64_decode_total s : bytes_ok s = true ->
  (exists r, base64_decode s = Ok r) \/ base64_decode s = Throw CodecError.
Proof. intros Hb. rewrite (base64_decode_run s Hb). destruct (valid_b64 s); eauto. Qed.

Lemma b64_never_overrun s output osize : bytes_ok s = true ->
  exists r w, b64_decode_buf s output osize = Ok (r, w) /\ (length w <= osize)%nat.
Proof.
  intros Hb. destruct output.
  - rewrite (b64_decode_buf_run s osize Hb). rewrite b64_decoded_len_unfold.
    destruct (Nat.eqb (length s mod 4) 0) eqn:M; [|do 2 eexists; split; [reflexivity|cbn [length]; lia]].
    apply Nat.eqb_eq in M.
    destruct (Nat.ltb osize (dlen s)) eqn:Ho; [do 2 eexists; split; [reflexivity|cbn [length]; lia]|].
    apply Nat.ltb_ge in Ho. do 2 eexists. split; [reflexivity|].
    destruct (b64_scan_len s M) as [L1 _]. lia.
  - rewrite b64_decode_buf_null. do 2 eexists. split; [reflexivity|]. cbn [length]. lia.
Qed.

Lemma b64_written_eq_len s osize r w : bytes_ok s = true ->
  b64_decode_buf s true osize = Ok (r, w) -> (0 <= r)%Z ->
  r = Z.of_nat (length w) /\ b64_decoded_len s = Some (length w) /\ b64_decode_spec s = Some w.
Proof.
  intros Hb E Hr. rewrite (b64_decode_buf_run s osize Hb) in E.
  rewrite b64_decoded_len_unfold in *.
  destruct (Nat.eqb (length s mod 4) 0) eqn:M; [|injection E as E _; lia].
  destruct (Nat.ltb osize (dlen s)); [injection E as E _; lia|].
  destruct (valid_b64 s) eqn:V; [|injection E as E _; lia].
  injection E as E1 E2. subst r w. apply Nat.eqb_eq in M.
  destruct (b64_scan_len s M) as [_ L]. rewrite (b64_scan_valid s M) in L. rewrite (L V).
  split; [reflexivity|]. split; [reflexivity|now apply b64_decode_spec_valid].
Qed.

Lemma b64_decode_buf_is_spec s osize n : bytes_ok s = true -> valid_b64 s = true ->
  b64_decoded_len s = Some n -> (n <= osize)%nat ->
  exists r, b64_decode_spec s = Some r /\ length r = n /\
            b64_decode_buf s true osize = Ok (Z.of_nat n, r).
Proof.
  intros Hb V En Ho. exists (snd (b64_scan s)). pose proof (valid_b64_mod4 s V) as M.
  destruct (b64_scan_len s M) as [_ L]. rewrite (b64_scan_valid s M) in L.
  rewrite (valid_b64_len s V) in En. injection En as En. subst n.
  split; [now apply b64_decode_spec_valid|]. split; [exact (L V)|].
  rewrite (b64_decode_buf_run s osize Hb), (valid_b64_len s V), V.
  apply Nat.ltb_ge in Ho. rewrite Ho. reflexivity.
Qed.

(* the wrappers' internal checks are dead: whenever the caller-buffer form is
   called the way the wrappers call it, it returns -1 or exactly decode_size
   with exactly that many cells written *)
Lemma hex_wrapper_assert_dead s r w : bytes_ok s = true ->
  hex_decode_buf s true (length s / 2) = Ok (r, w) ->
  r = (-1)%Z \/ (r = Z.of_nat (length s / 2) /\ length w = (length s / 2)%nat).
Proof.
  intros Hb E. rewrite (hex_decode_buf_run s _ Hb), Nat.ltb_irrefl in E.
  destruct (Nat.even (length s)); cbn [negb] in E; [|injection E as E _; auto].
  destruct (valid_hex s) eqn:V; [|injection E as E _; auto].
  injection E as E1 E2. subst r w. right. split; [reflexivity|].
  destruct (hex_scan_len s) as [_ L]. rewrite hex_scan_valid in L. exact (L V).
Qed.

Lemma b64_wrapper_assert_dead s n r w : bytes_ok s = true ->
  b64_decoded_len s = Some n -> b64_decode_buf s true n = Ok (r, w) ->
  r = (-1)%Z \/ (r = Z.of_nat n /\ length w = n).
Proof.
  intros Hb En E. rewrite (b64_decode_buf_run s _ Hb), En, Nat.ltb_irrefl in E.
  destruct (valid_b64 s) eqn:V; [|injection E as E _; auto].
  injection E as E1 E2. subst r w. right. split; [reflexivity|].
  pose proof (valid_b64_mod4 s V) as M.
  destruct (b64_scan_len s M) as [_ L]. rewrite (b64_scan_valid s M) in L.
  rewrite (valid_b64_len s V) in En. injection En as En. subst n. exact (L V).
Qed.
