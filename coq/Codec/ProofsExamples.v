(* Codec/ProofsExamples.v — concrete evaluations that anchor the Spec (RFC 4648
   section 10 test vectors, "Man" -> "TWFu") and the Model, and witnesses that
   the hypotheses of the C14/C15 implications are satisfiable.  All closed by
   vm_compute on closed terms.                                                *)
From Coq Require Import NArith ZArith List Bool.
From ST Require Import Base.Outcome Base.Units Gen.Tables Codec.Spec Codec.Model.
Import ListNotations.
Local Open Scope N_scope.

(* ASCII: f=102 o=111 b=98 a=97 r=114 ; M=77 n=110 *)
Definition s_foobar : list N := [102; 111; 111; 98; 97; 114].

Example b64_Man : b64_spec [77; 97; 110] = [84; 87; 70; 117].                       (* "TWFu" *)
Proof. vm_compute. reflexivity. Qed.
Example rfc_empty : b64_spec [] = [].
Proof. reflexivity. Qed.
Example rfc_f : b64_spec [102] = [90; 103; 61; 61].                                  (* "Zg==" *)
Proof. vm_compute. reflexivity. Qed.
Example rfc_fo : b64_spec [102; 111] = [90; 109; 56; 61].                            (* "Zm8=" *)
Proof. vm_compute. reflexivity. Qed.
Example rfc_foo : b64_spec [102; 111; 111] = [90; 109; 57; 118].                     (* "Zm9v" *)
Proof. vm_compute. reflexivity. Qed.
Example rfc_foob : b64_spec [102; 111; 111; 98] = [90; 109; 57; 118; 89; 103; 61; 61].    (* "Zm9vYg==" *)
Proof. vm_compute. reflexivity. Qed.
Example rfc_fooba : b64_spec [102; 111; 111; 98; 97] = [90; 109; 57; 118; 89; 109; 69; 61]. (* "Zm9vYmE=" *)
Proof. vm_compute. reflexivity. Qed.
Example rfc_foobar : b64_spec s_foobar = [90; 109; 57; 118; 89; 109; 70; 121].       (* "Zm9vYmFy" *)
Proof. vm_compute. reflexivity. Qed.
Example rfc_hex_foobar : hex_spec s_foobar = [54;54; 54;102; 54;102; 54;50; 54;49; 55;50]. (* "666f6f626172" *)
Proof. vm_compute. reflexivity. Qed.
Example hex_00ffab : hex_spec [0; 255; 171] = [48; 48; 102; 102; 97; 98].             (* "00ffab" *)
Proof. vm_compute. reflexivity. Qed.

(* the model on the same vectors *)
Example model_b64_foobar : base64_encode (Some s_foobar) 6 = Ok [90; 109; 57; 118; 89; 109; 70; 121].
Proof. vm_compute. reflexivity. Qed.
Example model_b64_foob_back : base64_decode [90; 109; 57; 118; 89; 103; 61; 61] = Ok [102; 111; 111; 98].
Proof. vm_compute. reflexivity. Qed.
Example model_hex_upper : hex_decode [48; 48; 70; 70; 65; 66] = Ok [0; 255; 171].       (* "00FFAB" *)
Proof. vm_compute. reflexivity. Qed.
Example model_b64_buf_exact : b64_decode_buf [90; 103; 61; 61] true 1 = Ok (1%Z, [102]).
Proof. vm_compute. reflexivity. Qed.
Example model_b64_buf_small : b64_decode_buf [90; 109; 56; 61] true 1 = Ok ((-1)%Z, []).
Proof. vm_compute. reflexivity. Qed.
Example model_b64_null : b64_decode_buf [90; 109; 56; 61] false 0 = Ok (2%Z, []).
Proof. vm_compute. reflexivity. Qed.
Example model_b64_badlen_null : b64_decode_buf [90; 109; 56] false 0 = Ok ((-1)%Z, []).
Proof. vm_compute. reflexivity. Qed.

(* rejected shapes: '=' inside, '=' in the first two positions of the last group, bad char, bad length *)
Example reject_pad_inside : valid_b64 [90; 103; 61; 65] = false /\ base64_decode [90; 103; 61; 65] = Throw CodecError.
Proof. vm_compute. split; reflexivity. Qed.
Example reject_three_pads : valid_b64 [90; 61; 61; 61] = false /\ base64_decode [90; 61; 61; 61] = Throw CodecError.
Proof. vm_compute. split; reflexivity. Qed.
Example reject_pad_group_first : valid_b64 [90; 103; 61; 61; 90; 103; 61; 61] = false
                                 /\ base64_decode [90; 103; 61; 61; 90; 103; 61; 61] = Throw CodecError.
Proof. vm_compute. split; reflexivity. Qed.
Example reject_bang : valid_b64 [90; 33; 65; 65] = false /\ b64_decode_buf [90; 33; 65; 65] true 64 = Ok ((-1)%Z, []).
Proof. vm_compute. split; reflexivity. Qed.
Example reject_hex_odd : valid_hex [52] = false /\ hex_decode [52] = Throw CodecError.
Proof. vm_compute. split; reflexivity. Qed.
Example reject_hex_g : valid_hex [52; 103] = false /\ hex_decode_buf [52; 103] true 1 = Ok ((-1)%Z, []).
Proof. vm_compute. split; reflexivity. Qed.
(* a rejected string may leave already-decoded cells behind, never beyond output_size *)
Example reject_late : b64_decode_buf [90; 109; 57; 118; 89; 33; 61; 61] true 4 = Ok ((-1)%Z, [102; 111; 111]).
Proof. vm_compute. reflexivity. Qed.

(* ---- hypotheses of the implications are satisfiable ---- *)
Example nonvac_bytes : bytes_ok s_foobar = true /\ s_foobar <> [] /\ (length s_foobar <= 6)%nat.
Proof. split; [reflexivity|]. split; [discriminate|]. apply le_n. Qed.
Example nonvac_not_bytes : bytes_ok [256] = false.
Proof. reflexivity. Qed.
Example nonvac_valid_hex : bytes_ok [52; 97] = true /\ valid_hex [52; 97] = true /\ (length [52; 97] / 2 <= 1)%nat.
Proof. split; [reflexivity|]. split; [reflexivity|]. apply le_n. Qed.
Example nonvac_invalid_hex : bytes_ok [52; 103] = true /\ ~ (valid_hex [52; 103] = true /\ (length [52; 103] / 2 <= 1)%nat).
Proof. split; [reflexivity|]. intros [H _]. vm_compute in H. discriminate H. Qed.
Example nonvac_valid_b64 : bytes_ok [90; 109; 56; 61] = true /\ valid_b64 [90; 109; 56; 61] = true
                           /\ b64_decoded_len [90; 109; 56; 61] = Some 2%nat.
Proof. split; [reflexivity|]. split; reflexivity. Qed.
Example nonvac_invalid_b64 : bytes_ok [90; 103; 61; 65] = true /\ valid_b64 [90; 103; 61; 65] = false.
Proof. vm_compute. split; reflexivity. Qed.
Example nonvac_written : hex_decode_buf [52; 97] true 5 = Ok (1%Z, [74]) /\ (0 <= 1)%Z.
Proof. vm_compute. split; [reflexivity|discriminate]. Qed.
Example nonvac_written_b64 : b64_decode_buf [90; 109; 56; 61] true 5 = Ok (2%Z, [102; 111]) /\ (0 <= 2)%Z.
Proof. vm_compute. split; [reflexivity|discriminate]. Qed.
Example nonvac_null_ptr : (3 <> 0)%nat.
Proof. discriminate. Qed.
