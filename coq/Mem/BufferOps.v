(* Mem/BufferOps.v — every member of ST::buffer<T>, run in a state satisfying Inv:
   returns normally, re-establishes Inv, and changes the abstract values as the spec says. *)
From Coq Require Import NArith List Bool Lia Arith.
From ST Require Import Base.Outcome Base.Units Mem.Heap Mem.Buffer Mem.BufferRun Mem.BufferInv.
Import ListNotations.
Local Open Scope nat_scope.

Lemma upd_same {A} (f : nat -> A) k v : upd f k v k = v.
Proof. unfold upd. rewrite Nat.eqb_refl. reflexivity. Qed.
Lemma upd_other {A} (f : nat -> A) k v x : x <> k -> upd f k v x = f x.
Proof. unfold upd. intros H. destruct (Nat.eqb_spec x k); congruence. Qed.

Lemma set_nth_length {A} (l : list A) i x : length (set_nth l i x) = length l.
Proof. revert i; induction l as [|h t IH]; intros [|i]; simpl; auto. Qed.
Lemma nth_set_same {A} (l : list A) i x d : i < length l -> nth i (set_nth l i x) d = x.
Proof. revert i; induction l as [|h t IH]; intros [|i] H; simpl in *; try lia; auto. apply IH; lia. Qed.
Lemma nth_set_other {A} (l : list A) i j x d : i <> j -> nth j (set_nth l i x) d = nth j l d.
Proof. revert i j; induction l as [|h t IH]; intros [|i] [|j] H; simpl; try congruence; auto. Qed.
Lemma firstn_set_nth_ge {A} (l : list A) i n x : n <= i -> firstn n (set_nth l i x) = firstn n l.
Proof.
  revert i n; induction l as [|h t IH]; intros [|i] [|n] H; simpl; try lia; auto. f_equal. apply IH; lia.
Qed.
Lemma firstn_set_nth_lt {A} (l : list A) i n x : i < n -> firstn n (set_nth l i x) = set_nth (firstn n l) i x.
Proof.
  revert i n; induction l as [|h t IH]; intros i n H.
  - destruct n; destruct i; reflexivity.
  - destruct n as [|n]; [lia|]. destruct i as [|i]; simpl; [reflexivity|]. f_equal. apply IH. lia.
Qed.

Ltac eq_subst x k := first [subst x | subst k | idtac].
Ltac simp_upd :=
  repeat match goal with
  | H : context [upd _ ?k _ ?x] |- _ =>
      unfold upd in H; destruct (Nat.eqb_spec x k); [eq_subst x k|]
  | |- context [upd _ ?k _ ?x] =>
      unfold upd; destruct (Nat.eqb_spec x k); [eq_subst x k|]
  end.
Ltac inv_some H := injection H; clear H; intros H; first [subst | idtac].
Ltac inj H := let E := fresh "E" in injection H as E; try (rewrite <- E in *; clear E).
(* turn every  Some {| ... |} = Some r  into a substitution of r *)
Ltac open_some :=
  repeat match goal with
  | H : Some (mkbuf _ _ _) = Some ?r |- _ => inj H; simpl in *
  | H : Some _ = None |- _ => discriminate H
  | H : None = Some _ |- _ => discriminate H
  end.

Section Ops.
Variable L : nat.
Hypothesis Lpos : 1 <= L.

Notation Inv := (Inv L).

(* ---------- constructing obj_ok ---------- *)
Lemma obj_ok_short st o n d :
  length d = L -> n < L -> nth n d 1%N = 0%N -> obj_ok L st o (mkbuf (PLocal o) n d).
Proof.
  intros Hd Hn Ht. unfold obj_ok; simpl. split; [exact Hd|split].
  - intros _. split; [reflexivity|exact Ht].
  - intros Hc. exfalso. lia.
Qed.

Lemma obj_ok_long st o n d b c :
  length d = L -> L <= n -> blocks (hp st) b = Some c -> length c = n + 1 -> nth n c 1%N = 0%N ->
  obj_ok L st o (mkbuf (PHeap b) n d).
Proof.
  intros Hd Hn Hb Hc Ht. unfold obj_ok; simpl. split; [exact Hd|split].
  - intros Hc'. exfalso. lia.
  - intros _. exists b, c. auto.
Qed.

Lemma obj_ok_frame st st' o r :
  obj_ok L st o r ->
  (forall b c, m_chars r = PHeap b -> blocks (hp st) b = Some c -> blocks (hp st') b = Some c) ->
  obj_ok L st' o r.
Proof.
  intros (A & B & C) Hf. split; [exact A|split; [exact B|]].
  intros Hs. destruct (C Hs) as (b & c & P & Q & R). exists b, c. split; [exact P|split; [|exact R]].
  apply Hf; assumption.
Qed.

(* ---------- general preservation lemmas ---------- *)

(* (A) give object o (dead, or alive and short) a short value *)
Lemma inv_set_short st o d n :
  Inv st ->
  (forall r, objs st o = Some r -> m_size r < L) ->
  length d = L -> n < L -> nth n d 1%N = 0%N ->
  Inv (mkstore (upd (objs st) o (Some (mkbuf (PLocal o) n d))) (hp st)).
Proof.
  intros I Hold Hd Hn Ht. constructor; simpl.
  - intros o' r H. simp_upd.
    + inj H. apply obj_ok_short; assumption.
    + eapply obj_ok_frame; [apply (inv_wf _ _ I _ _ H)|]. simpl. auto.
  - intros o1 o2 r1 r2 b H1 H2 P1 P2. simp_upd; auto; open_some; try discriminate.
    eapply (inv_uniq _ _ I); eauto.
  - intros b c Hb. destruct (inv_noleak _ _ I _ _ Hb) as (o' & r' & Ho' & Hp).
    exists o', r'. split; auto. simp_upd; auto.
    exfalso. specialize (Hold _ Ho'). destruct (short_local _ _ _ _ I Ho' Hold) as (Q & _). congruence.
  - apply (inv_next _ _ I).
  - apply (inv_nofail _ _ I).
Qed.

(* (B) give object o (dead, or alive and short) a long value in a block nobody references yet *)
Lemma inv_set_long st o d n b c :
  Inv st ->
  (forall r, objs st o = Some r -> m_size r < L) ->
  blocks (hp st) b = None -> (forall o' r', objs st o' = Some r' -> m_chars r' <> PHeap b) ->
  length d = L -> L <= n -> length c = n + 1 -> nth n c 1%N = 0%N ->
  Inv (mkstore (upd (objs st) o (Some (mkbuf (PHeap b) n d)))
               (mkheap (upd (blocks (hp st)) b (Some c)) (Nat.max (nextb (hp st)) (S b)) (fail_at (hp st)))).
Proof.
  intros I Hold Hb Hun Hd Hn Hc Ht. constructor; simpl.
  - intros o' r H. simp_upd.
    + inj H. eapply obj_ok_long; eauto. simpl. apply upd_same.
    + eapply obj_ok_frame; [apply (inv_wf _ _ I _ _ H)|]. simpl. intros b' c' P Q.
      rewrite upd_other; auto. intros ->. congruence.
  - intros o1 o2 r1 r2 b' H1 H2 P1 P2. simp_upd; auto; open_some.
    + injection P2 as <-. exfalso. eapply Hun; eauto.
    + injection P1 as <-. exfalso. eapply Hun; eauto.
    + eapply (inv_uniq _ _ I); eauto.
  - intros b' c' Hb'. simp_upd.
    + exists o. eexists. rewrite upd_same. split; reflexivity.
    + destruct (inv_noleak _ _ I _ _ Hb') as (o' & r' & Ho' & Hp).
      exists o', r'. split; auto. simp_upd; auto.
      exfalso. specialize (Hold _ Ho'). destruct (short_local _ _ _ _ I Ho' Hold) as (Q & _). congruence.
  - intros b' c' Hb'. simp_upd; [lia|]. pose proof (inv_next _ _ I _ _ Hb'). lia.
  - apply (inv_nofail _ _ I).
Qed.

(* (C) release the block of a long object o and leave it short *)
Lemma inv_release st o r b d n :
  Inv st -> objs st o = Some r -> m_chars r = PHeap b ->
  length d = L -> n < L -> nth n d 1%N = 0%N ->
  Inv (mkstore (upd (objs st) o (Some (mkbuf (PLocal o) n d)))
               (mkheap (upd (blocks (hp st)) b None) (nextb (hp st)) (fail_at (hp st)))).
Proof.
  intros I Ho Hp Hd Hn Ht. constructor; simpl.
  - intros o' r' H. simp_upd.
    + inj H. apply obj_ok_short; assumption.
    + eapply obj_ok_frame; [apply (inv_wf _ _ I _ _ H)|]. simpl. intros b' c' P Q.
      rewrite upd_other; auto. intros ->. apply n0. eapply (inv_uniq _ _ I); eauto.
  - intros o1 o2 r1 r2 b' H1 H2 P1 P2. simp_upd; auto; open_some; try discriminate.
    eapply (inv_uniq _ _ I); eauto.
  - intros b' c' Hb'. simp_upd; [discriminate|].
    destruct (inv_noleak _ _ I _ _ Hb') as (o' & r' & Ho' & Hp').
    exists o', r'. split; auto. simp_upd; auto.
    exfalso. rewrite Ho in Ho'. injection Ho' as <-. congruence.
  - intros b' c' Hb'. simp_upd; [discriminate|]. apply (inv_next _ _ I _ _ Hb').
  - apply (inv_nofail _ _ I).
Qed.

(* (D) destroy an object that owns no block *)
Lemma inv_kill_short st o r :
  Inv st -> objs st o = Some r -> m_size r < L ->
  Inv (mkstore (upd (objs st) o None) (hp st)).
Proof.
  intros I Ho Hs. constructor; simpl.
  - intros o' r' H. simp_upd; [discriminate|].
    eapply obj_ok_frame; [apply (inv_wf _ _ I _ _ H)|]. simpl. auto.
  - intros o1 o2 r1 r2 b' H1 H2 P1 P2. simp_upd; try discriminate; auto. eapply (inv_uniq _ _ I); eauto.
  - intros b' c' Hb'. destruct (inv_noleak _ _ I _ _ Hb') as (o' & r' & Ho' & Hp').
    exists o', r'. split; auto. simp_upd; auto.
    exfalso. rewrite Ho in Ho'. injection Ho' as <-.
    destruct (short_local _ _ _ _ I Ho Hs) as (Q & _). congruence.
  - apply (inv_next _ _ I).
  - apply (inv_nofail _ _ I).
Qed.

(* (E) change the cells of the block owned by o, keeping length and terminator *)
Lemma inv_set_cells st o r b c' :
  Inv st -> objs st o = Some r -> L <= m_size r -> m_chars r = PHeap b ->
  length c' = m_size r + 1 -> nth (m_size r) c' 1%N = 0%N ->
  Inv (mkstore (objs st) (mkheap (upd (blocks (hp st)) b (Some c')) (nextb (hp st)) (fail_at (hp st)))).
Proof.
  intros I Ho Hs Hp Hc Ht. constructor; simpl.
  - intros o' r' H. destruct (inv_wf _ _ I _ _ H) as (A & B & C). split; [exact A|split; [exact B|]].
    intros Hs'. destruct (C Hs') as (b' & c0 & P & Q & R & T).
    destruct (Nat.eq_dec b' b) as [->|Hne].
    + assert (o' = o) by (eapply (inv_uniq _ _ I); eauto). subst o'. rewrite Ho in H. injection H as <-.
      exists b, c'. simpl. rewrite upd_same. auto.
    + exists b', c0. simpl. rewrite upd_other; auto.
  - apply (inv_uniq _ _ I).
  - intros b' c0 Hb'. simp_upd.
    + exists o, r. auto.
    + apply (inv_noleak _ _ I _ _ Hb').
  - intros b' c0 Hb'. simp_upd.
    + destruct (reffed_heap _ _ _ _ I Ho Hs) as (b2 & c2 & P & Q & _). rewrite Hp in P. injection P as <-.
      apply (inv_next _ _ I _ _ Q).
    + apply (inv_next _ _ I _ _ Hb').
  - apply (inv_nofail _ _ I).
Qed.

End Ops.
