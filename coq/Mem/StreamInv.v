(* Mem/StreamInv.v — the ownership invariant of ST::string_stream (Mem/Stream.v), the bytes a
   stream holds (`scontents`) and the relation to the byte-string SPEC store (`SRel`).
   STK = ST_STACK_STRING_SIZE, kept abstract (>= 1 where needed).                              *)
From Coq Require Import NArith List Bool Lia Arith.
From ST Require Import Base.Outcome Base.Units Mem.Heap Mem.Stream.
Import ListNotations.
Local Open Scope nat_scope.

Section Inv.
Variable STK : nat.

(* one live stream r sitting in slot o *)
Definition sobj_ok (st : sstate) (o : objid) (r : strm) : Prop :=
  length (s_stack r) = STK /\
  s_size r <= s_alloc r /\
  STK <= s_alloc r /\
  (s_alloc r = STK -> s_chars r = PLocal o) /\
  (STK < s_alloc r -> exists b c, s_chars r = PHeap b /\ blocks (shp st) b = Some c /\ length c = s_alloc r).

Record SInv (st : sstate) : Prop := mkSInv {
  sinv_wf : forall o r, sobjs st o = Some r -> sobj_ok st o r;
  sinv_uniq : forall o1 o2 r1 r2 b, sobjs st o1 = Some r1 -> sobjs st o2 = Some r2 ->
                                    s_chars r1 = PHeap b -> s_chars r2 = PHeap b -> o1 = o2;
  sinv_noleak : forall b c, blocks (shp st) b = Some c ->
                            exists o r, sobjs st o = Some r /\ s_chars r = PHeap b;
  sinv_next : forall b c, blocks (shp st) b = Some c -> b < nextb (shp st);
  sinv_nofail : fail_at (shp st) = None
}.

(* the bytes a stream holds: raw_buffer()[0, size()) *)
Definition scontents (st : sstate) (r : strm) : list N :=
  match s_chars r with
  | PHeap b => match blocks (shp st) b with Some c => firstn (s_size r) c | None => [] end
  | _ => firstn (s_size r) (s_stack r)
  end.

Definition SRel (st : sstate) (s : bstore) : Prop :=
  forall o, match sobjs st o, s o with
            | Some r, Some l => scontents st r = l
            | None, None => True
            | _, _ => False
            end.

Lemma sinv_init : SInv sstate0.
Proof. constructor; simpl; intros; try discriminate; auto. Qed.

Lemma srel_init : SRel sstate0 bstore0.
Proof. intros o. exact I. Qed.

(* ---- reading the invariant ---- *)
Lemma alloc_cases st o r : SInv st -> sobjs st o = Some r -> s_alloc r = STK \/ STK < s_alloc r.
Proof. intros I H. destruct (sinv_wf _ I _ _ H) as (_ & _ & A & _). lia. Qed.

Lemma local_own st o r : SInv st -> sobjs st o = Some r -> s_alloc r = STK ->
  s_chars r = PLocal o /\ length (s_stack r) = STK /\ s_size r <= STK.
Proof.
  intros I H Ha. destruct (sinv_wf _ I _ _ H) as (A & B & _ & D & _).
  split; [apply D; exact Ha|]. split; [exact A|]. lia.
Qed.

Lemma heap_owned st o r : SInv st -> sobjs st o = Some r -> STK < s_alloc r ->
  exists b c, s_chars r = PHeap b /\ blocks (shp st) b = Some c /\ length c = s_alloc r /\ s_size r <= s_alloc r.
Proof.
  intros I H Ha. destruct (sinv_wf _ I _ _ H) as (_ & B & _ & _ & E).
  destruct (E Ha) as (b & c & P & Q & R). exists b, c. auto.
Qed.

Lemma heap_ptr_big st o r b : SInv st -> sobjs st o = Some r -> s_chars r = PHeap b -> STK < s_alloc r.
Proof.
  intros I H Hp. destruct (alloc_cases _ _ _ I H) as [Ha|Ha]; [|exact Ha].
  destruct (local_own _ _ _ I H Ha) as (Q & _). congruence.
Qed.

Lemma stack_len st o r : SInv st -> sobjs st o = Some r -> length (s_stack r) = STK.
Proof. intros I H. destruct (sinv_wf _ I _ _ H) as (A & _). exact A. Qed.

(* a fresh block id is neither alive nor referenced *)
Lemma sfresh_unref st : SInv st -> blocks (shp st) (nextb (shp st)) = None /\
  forall o r, sobjs st o = Some r -> s_chars r <> PHeap (nextb (shp st)).
Proof.
  intros I. assert (Hn : blocks (shp st) (nextb (shp st)) = None).
  { destruct (blocks (shp st) (nextb (shp st))) eqn:E; auto. apply (sinv_next _ I) in E. lia. }
  split; auto. intros o r Ho Hc.
  pose proof (heap_ptr_big _ _ _ _ I Ho Hc) as Hb.
  destruct (heap_owned _ _ _ I Ho Hb) as (b & c & Hp & Hbk & _). congruence.
Qed.

Lemma scontents_length st o r : SInv st -> sobjs st o = Some r -> length (scontents st r) = s_size r.
Proof.
  intros I Ho. unfold scontents.
  destruct (alloc_cases _ _ _ I Ho) as [Ha|Ha].
  - destruct (local_own _ _ _ I Ho Ha) as (Hp & Hl & Hs). rewrite Hp, firstn_length. lia.
  - destruct (heap_owned _ _ _ I Ho Ha) as (b & c & Hp & Hb & Hl & Hs). rewrite Hp, Hb, firstn_length. lia.
Qed.

End Inv.
