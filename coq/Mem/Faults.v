(* Mem/Faults.v — C19: the allocation performed by a buffer member / string operation throws.
   The fault schedule `fail_at = Some 0` makes the next `new` throw std::bad_alloc.            *)
From Coq Require Import NArith List Bool Lia Arith.
From ST Require Import Base.Outcome Base.Units Mem.Heap Mem.Buffer Mem.BufferRun Mem.BufferInv Mem.BufferOps
  Mem.BufferSteps Mem.BufferHistory Mem.StringOps Mem.StringProofs.
Import ListNotations.
Local Open Scope nat_scope.
Local Open Scope mem_scope.

Definition arm (st : store) : store := with_fail st (Some 0).

Lemma disarm_id st : fail_at (hp st) = None ->
  mkstore (objs st) (mkheap (blocks (hp st)) (nextb (hp st)) None) = st.
Proof. destruct st as [o [b n f]]; simpl; intros ->; reflexivity. Qed.

Section F.
Variable L : nat.
Hypothesis Lpos : 1 <= L.
Notation Inv := (Inv L).

Lemma new_arr_armed st n : fail_at (hp st) = None -> new_arr n (arm st) = (Throw BadAlloc, st).
Proof. intros H. unfold new_arr, arm, with_fail, heap_new. simpl. rewrite (disarm_id st H). reflexivity. Qed.

Lemma get_obj_armed st o r : objs st o = Some r -> get_obj o (arm st) = (Ok r, arm st).
Proof. intros H. unfold get_obj, arm, with_fail. simpl. rewrite H. reflexivity. Qed.

Lemma mbind_Throw {A B} (m : MB A) (k : A -> MB B) st e st1 :
  m st = (Throw e, st1) -> mbind m k st = (Throw e, st1).
Proof. intros H. unfold mbind. rewrite H. reflexivity. Qed.

(* ---- constructors: the object never comes into existence, nothing changes ---- *)
Theorem fault_ctor_ptr st o d : Inv st -> L <= length d ->
  ctor_ptr L o (Some d) (length d) (arm st) = (Throw BadAlloc, st).
Proof.
  intros I Hl. unfold ctor_ptr. cbn [negb].
  replace (Nat.leb L (length d)) with true by (symmetry; apply Nat.leb_le; exact Hl).
  apply mbind_Throw. apply new_arr_armed. apply (inv_nofail _ _ I).
Qed.

Theorem fault_ctor_fill st o n v : Inv st -> L <= n ->
  ctor_fill L o n v (arm st) = (Throw BadAlloc, st).
Proof.
  intros I Hl. unfold ctor_fill.
  replace (Nat.leb L n) with true by (symmetry; apply Nat.leb_le; exact Hl).
  apply mbind_Throw. apply new_arr_armed. apply (inv_nofail _ _ I).
Qed.

Theorem fault_ctor_copy st o src c : Inv st -> objs st src = Some c -> L <= m_size c ->
  ctor_copy L o src (arm st) = (Throw BadAlloc, st).
Proof.
  intros I Hc Hl. unfold ctor_copy.
  erewrite mbind_Ok; [|apply get_obj_armed; exact Hc].
  unfold copy_body, is_reffed.
  replace (Nat.leb L (m_size c)) with true by (symmetry; apply Nat.leb_le; exact Hl).
  apply mbind_Throw. apply new_arr_armed. apply (inv_nofail _ _ I).
Qed.

(* ---- allocate / allocate(n, fill): the buffer keeps its previous value ---- *)
Theorem fault_allocate st o r n : Inv st -> objs st o = Some r -> L <= n ->
  allocate L o n (arm st) = (Throw BadAlloc, st).
Proof.
  intros I Ho Hl. unfold allocate.
  erewrite mbind_Ok; [|apply get_obj_armed; exact Ho].
  replace (Nat.leb L n) with true by (symmetry; apply Nat.leb_le; exact Hl).
  apply mbind_Throw. apply new_arr_armed. apply (inv_nofail _ _ I).
Qed.

Theorem fault_allocate_fill st o r n v : Inv st -> objs st o = Some r -> L <= n ->
  allocate_fill L o n v (arm st) = (Throw BadAlloc, st).
Proof.
  intros I Ho Hl. unfold allocate_fill. apply mbind_Throw. eapply fault_allocate; eauto.
Qed.

(* ---- copy assignment: previous value (short target) or empty (long target) ---- *)
Lemma clear_armed st o st1 : clear L o st = (Ok tt, st1) -> fail_at (hp st) = None ->
  clear L o (arm st) = (Ok tt, arm st1).
Proof.
  unfold clear, mbind, get_obj, arm, with_fail. cbn [objs hp]. intros H Hf.
  destruct (objs st o) as [r|] eqn:Ho; [|discriminate].
  destruct (is_reffed L r).
  - unfold delete_arr, heap_delete in *. cbn [objs hp blocks nextb fail_at] in *.
    destruct (m_chars r) as [x|b|].
    + discriminate.
    + destruct (blocks (hp st) b) eqn:Hb.
      * unfold set_obj in *. cbn [objs hp blocks nextb fail_at] in *. injection H as <-. reflexivity.
      * destruct (Nat.ltb b (nextb (hp st))); discriminate.
    + unfold set_obj in *. cbn [objs hp blocks nextb fail_at] in *. injection H as <-. reflexivity.
  - unfold ret, set_obj in *. cbn [objs hp blocks nextb fail_at] in *. injection H as <-. reflexivity.
Qed.

Theorem fault_assign_copy st s o src r c :
  Inv st -> Rel st s -> o <> src -> objs st o = Some r -> objs st src = Some c -> L <= m_size c ->
  exists st', assign_copy L o src (arm st) = (Throw BadAlloc, st') /\ Inv st' /\
    Rel st' (if Nat.leb L (m_size r) then upd s o (Some (Val [])) else s) /\
    (forall o', o' <> o -> objs st' o' = objs st o').
Proof.
  intros I R Hne Ho Hc Hl. unfold assign_copy.
  replace (Nat.eqb o src) with false by (symmetry; apply Nat.eqb_neq; exact Hne).
  erewrite mbind_Ok; [|apply get_obj_armed; exact Ho]. unfold is_reffed.
  destruct (Nat.leb_spec L (m_size r)) as [Hrl|Hrs].
  - (* long target: cleared first *)
    destruct (clear_ok L Lpos st s o I R ltac:(congruence)) as (st1 & E1 & I1 & R1 & O1 & F1).
    erewrite mbind_Ok; [|apply clear_armed; [exact E1|apply (inv_nofail _ _ I)]].
    assert (Hc1 : objs st1 src = Some c) by (rewrite F1; [exact Hc|simpl; intros [E|[]]; congruence]).
    erewrite mbind_Ok; [|apply get_obj_armed; exact Hc1].
    erewrite mbind_Ok; [|apply get_obj_armed; exact O1].
    exists st1. split.
    + unfold copy_body, is_reffed.
      replace (Nat.leb L (m_size c)) with true by (symmetry; apply Nat.leb_le; exact Hl).
      apply mbind_Throw. apply new_arr_armed. apply (inv_nofail _ _ I1).
    + split; [exact I1|]. split; [exact R1|]. intros o' N. apply F1. simpl. intros [E|[]]. congruence.
  - unfold ret at 1. unfold mbind at 1.
    erewrite mbind_Ok; [|apply get_obj_armed; exact Hc].
    erewrite mbind_Ok; [|apply get_obj_armed; exact Ho].
    exists st. split.
    + unfold copy_body, is_reffed.
      replace (Nat.leb L (m_size c)) with true by (symmetry; apply Nat.leb_le; exact Hl).
      apply mbind_Throw. apply new_arr_armed. apply (inv_nofail _ _ I).
    + split; [exact I|]. split; [exact R|]. reflexivity.
Qed.

(* which operations of the history language allocate (given the sizes involved) *)
Definition allocates (st : store) (op : bop) : bool :=
  match op with
  | BNew _ d => Nat.leb L (length d)
  | BFill _ n _ | BAlloc _ n _ | BAllocFill _ n _ => Nat.leb L n
  | BCopy _ src => match objs st src with Some c => Nat.leb L (m_size c) | None => false end
  | BAsg o src => negb (Nat.eqb o src) && match objs st src with Some c => Nat.leb L (m_size c) | None => false end
  | _ => false
  end.

(* what the spec store looks like after the failed operation *)
Definition fault_spec (st : store) (s : sstore) (op : bop) : sstore :=
  match op with
  | BAsg o _ => match objs st o with
                | Some r => if Nat.leb L (m_size r) then upd s o (Some (Val [])) else s
                | None => s
                end
  | _ => s
  end.

(* every allocating operation of the history language, armed: bad_alloc reaches the caller, the invariant
   holds afterwards, the target holds its previous value or (copy assignment over a long value) an empty
   one, a failed constructor leaves no object, every other object is untouched *)
Theorem fault_step st s op :
  Inv st -> Rel st s -> wf_bop st op -> allocates st op = true ->
  exists st', run_bop L op (arm st) = (Throw BadAlloc, st') /\ Inv st' /\ Rel st' (fault_spec st s op) /\
              (forall o', ~ In o' (targets op) -> objs st' o' = objs st o').
Proof.
  intros I R W A.
  destruct op as [o|o d|o n|o n c|o src|o src|o src|o src|o n c|o n c|o i v|o|o]; simpl in A; try discriminate;
    simpl in W; simpl run_bop; unfold fault_spec.
  - apply Nat.leb_le in A. exists st. rewrite (fault_ctor_ptr st o d I A). auto.
  - apply Nat.leb_le in A. exists st. rewrite (fault_ctor_fill st o n c I A). auto.
  - destruct W as (Wd & Wl). unfold live in Wl. destruct (objs st src) as [cc|] eqn:Hc; [|discriminate].
    apply Nat.leb_le in A. exists st. rewrite (fault_ctor_copy st o src cc I Hc A). auto.
  - destruct W as (Wo & Wl). unfold live in *.
    apply andb_true_iff in A. destruct A as (Ane & A). apply negb_true_iff, Nat.eqb_neq in Ane.
    destruct (objs st src) as [cc|] eqn:Hc; [|discriminate].
    destruct (objs st o) as [r|] eqn:Ho; [|congruence].
    apply Nat.leb_le in A.
    destruct (fault_assign_copy st s o src r cc I R Ane Ho Hc A) as (st' & E & I' & R' & F').
    exists st'. split; [exact E|]. split; [exact I'|]. split; [exact R'|].
    intros o' N. apply F'. intros ->. apply N. simpl. auto.
  - unfold live in W. destruct (objs st o) as [r|] eqn:Ho; [|congruence]. apply Nat.leb_le in A.
    exists st. split.
    + apply mbind_Throw. eapply fault_allocate; eauto.
    + auto.
  - unfold live in W. destruct (objs st o) as [r|] eqn:Ho; [|congruence]. apply Nat.leb_le in A.
    exists st. rewrite (fault_allocate_fill st o r n c I Ho A). auto.
Qed.

(* ---- string operations (macros): the single allocation of the operation throws ---- *)
Definition long_obj (st : store) (o : objid) : bool :=
  match objs st o with Some c => Nat.leb L (m_size c) | None => false end.

Definition top_allocates (st : store) (t : top) : bool :=
  match t with
  | TNew _ d | TSetBytes _ d => Nat.leb L (length d)
  | TFreshNRVO _ _ v | TFreshMoveCtor _ _ v | TFreshMoveAsg _ _ v | TAppend _ _ v => Nat.leb L (length v)
  | TCopyOf _ src | TCopyMove _ src => long_obj st src
  | TAssign o src => negb (Nat.eqb o src) && long_obj st src
  | _ => false
  end.

Definition fault_spec_top (st : store) (s : sstore) (t : top) : sstore :=
  match t with TAssign o src => fault_spec st s (BAsg o src) | _ => s end.
Definition fault_touched (t : top) : list objid :=
  match t with TAssign o _ => [o] | _ => [] end.

Lemma scratch_dead_objs st s : Rel st s -> scratch_dead s ->
  forall k, k < scratch_slots -> objs st (scratch_base + k) = None.
Proof. intros R SD k Hk. apply (rel_live st s _ R). apply SD. exact Hk. Qed.

Lemma unwind_nothing st :
  (forall k, k < scratch_slots -> objs st (scratch_base + k) = None) -> unwind L st = (Ok tt, st).
Proof.
  intros H. unfold unwind, scratch_slots in *. simpl.
  rewrite <- (Nat.add_0_r scratch_base) at 1. rewrite (H 0) by lia.
  replace (S scratch_base) with (scratch_base + 1) by lia. rewrite (H 1) by lia.
  replace (S (scratch_base + 1)) with (scratch_base + 2) by lia. rewrite (H 2) by lia.
  replace (S (scratch_base + 2)) with (scratch_base + 3) by lia. rewrite (H 3) by lia.
  reflexivity.
Qed.

(* destroying a freshly default-constructed object *)
Lemma dtor_default st x : objs st x = Some (mkbuf (PLocal x) 0 (zeros L)) ->
  dtor L x st = (Ok tt, mkstore (upd (objs st) x None) (hp st)).
Proof.
  intros H. unfold dtor, mbind, get_obj. rewrite H. unfold is_reffed. simpl.
  replace (Nat.leb L 0) with false by (symmetry; apply Nat.leb_gt; lia). reflexivity.
Qed.

(* a state that differs from st only by a default-constructed-then-destroyed slot *)
Lemma same_after_roundtrip st x :
  objs st x = None ->
  let st2 := mkstore (upd (upd (objs st) x (Some (mkbuf (PLocal x) 0 (zeros L)))) x None) (hp st) in
  (forall o, objs st2 o = objs st o) /\ hp st2 = hp st.
Proof.
  intros H st2. split; [|reflexivity]. intros o. unfold st2. simpl. rewrite upd_upd. unfold upd.
  destruct (Nat.eqb_spec o x) as [->|]; [symmetry; exact H|reflexivity].
Qed.

Lemma Rel_state_ext st st' s :
  (forall o, objs st' o = objs st o) -> (forall b, blocks (hp st') b = blocks (hp st) b) -> Rel st s -> Rel st' s.
Proof.
  intros Ho Hb R o. rewrite Ho. specialize (R o). destruct (objs st o) as [r|]; auto.
  destruct (s o) as [[l|]|]; auto. rewrite <- R. apply contents_frame. intros b _. apply Hb.
Qed.

Lemma run_body_throw op rest st e st1 :
  run_bop L op st = (Throw e, st1) -> run_body L (op :: rest) st = (Throw e, st1).
Proof. intros H. simpl. rewrite H. reflexivity. Qed.

(* pattern 1: the first operation of the body is an allocating constructor / assignment that throws *)
Lemma fault_top_first st s t op rest :
  Inv st -> Rel st s -> scratch_dead s ->
  expand t = (op :: rest, None) ->
  (forall x, In x (under_construction t) -> objs st x = None) ->
  forall st1, run_bop L op (arm st) = (Throw BadAlloc, st1) ->
  (forall k, k < scratch_slots -> objs st1 (scratch_base + k) = None) ->
  (forall x, In x (under_construction t) -> objs st1 x = None) ->
  run_top L t (arm st) = (Throw BadAlloc, st1).
Proof.
  intros I R SD Ex Hu st1 E Hs1 Hu1. unfold run_top. rewrite Ex.
  rewrite (run_body_throw op rest (arm st) BadAlloc st1 E).
  rewrite (unwind_nothing st1 Hs1).
  destruct (under_construction t) as [|x [|y l]] eqn:U.
  - reflexivity.
  - simpl. rewrite (Hu1 x) by (left; reflexivity). reflexivity.
  - destruct t; simpl in U; discriminate.
Qed.

Definition dflt (x : objid) : bufobj := mkbuf (PLocal x) 0 (zeros L).

Lemma unwind_tmp0 st :
  objs st tmp0 = Some (dflt tmp0) ->
  (forall k, 1 <= k < scratch_slots -> objs st (scratch_base + k) = None) ->
  unwind L st = (Ok tt, mkstore (upd (objs st) tmp0 None) (hp st)).
Proof.
  intros H0 H. unfold unwind, scratch_slots, tmp0 in *. simpl.
  rewrite H0. unfold Heap.mbind. rewrite (dtor_default st scratch_base H0). cbn [objs hp].
  assert (E1 : upd (objs st) scratch_base None (S scratch_base) = None).
  { rewrite upd_other by lia. replace (S scratch_base) with (scratch_base + 1) by lia. apply H. lia. }
  rewrite E1.
  assert (E2 : upd (objs st) scratch_base None (S (S scratch_base)) = None).
  { rewrite upd_other by lia. replace (S (S scratch_base)) with (scratch_base + 2) by lia. apply H. lia. }
  rewrite E2.
  assert (E3 : upd (objs st) scratch_base None (S (S (S scratch_base))) = None).
  { rewrite upd_other by lia. replace (S (S (S scratch_base))) with (scratch_base + 3) by lia. apply H. lia. }
  rewrite E3. reflexivity.
Qed.

(* pattern 2: `T x; x.allocate(n); ...` — the default-constructed x is destroyed while unwinding *)
Lemma fault_body_def_alloc st x n c rest :
  Inv st -> objs st x = None -> L <= n ->
  let st1 := mkstore (upd (objs st) x (Some (dflt x))) (hp st) in
  run_body L (BDef x :: BAlloc x n c :: rest) (arm st) = (Throw BadAlloc, st1) /\ Inv st1.
Proof.
  intros I Hx Hn st1.
  assert (I1 : Inv st1).
  { unfold st1, dflt. apply inv_set_short; auto.
    - intros r H. congruence.
    - apply zeros_length.
    - apply nth_zeros; auto; lia. }
  split; [|exact I1].
  cbn [run_body run_bop]. change (ctor_default L x (arm st)) with (Ok tt, arm st1).
  cbn iota. rewrite (mbind_Throw (allocate L x n) _ (arm st1) BadAlloc st1); [reflexivity|].
  eapply fault_allocate; eauto. unfold st1. cbn. apply upd_same.
Qed.

Theorem fault_top st s t :
  Inv st -> Rel st s -> top_wf s t -> top_allocates st t = true ->
  exists st', run_top L t (arm st) = (Throw BadAlloc, st') /\ Inv st' /\ Rel st' (fault_spec_top st s t) /\
    (forall x r, ~ In x (fault_touched t) -> objs st x = Some r -> objs st' x = Some r /\ contents st' r = contents st r) /\
    (forall x, objs st x = None -> objs st' x = None).
Proof.
  intros I R (SD & W) A.
  pose proof (scratch_dead_objs st s R SD) as HS.
  assert (D0 : objs st tmp0 = None) by (rewrite (tmp0_scratch L Lpos); apply HS; unfold scratch_slots; lia).
  (* the two outcomes: the state is unchanged, or unchanged up to a slot that was default-constructed
     and destroyed again *)
  assert (Same : forall st', (forall o, objs st' o = objs st o) -> hp st' = hp st ->
             Inv st' /\ Rel st' s /\
             (forall x r, objs st x = Some r -> objs st' x = Some r /\ contents st' r = contents st r) /\
             (forall x, objs st x = None -> objs st' x = None)).
  { intros st' Ho Hh. split; [|split; [|split]].
    - eapply Inv_ext; [exact Ho | intros b; rewrite Hh; reflexivity | rewrite Hh; reflexivity | rewrite Hh; reflexivity | exact I].
    - apply (Rel_state_ext st st' s Ho); [intros b; rewrite Hh; reflexivity|exact R].
    - intros x r Hx. split; [rewrite Ho; exact Hx|]. apply contents_frame. intros b _. rewrite Hh. reflexivity.
    - intros x Hx. rewrite Ho. exact Hx. }
  assert (SameSt : Inv st /\ Rel st s /\
             (forall x r, objs st x = Some r -> objs st x = Some r /\ contents st r = contents st r) /\
             (forall x, objs st x = None -> objs st x = None)) by (apply Same; auto).
  destruct t as [o d|o|res src v|res src v|res src v|res|res src|res src|o src|o src|o src|o d|o src v|o|o|temps e|res src temps v];
    simpl in A; try discriminate; simpl in W; unfold fault_spec_top, fault_touched.
  - (* TNew *) apply Nat.leb_le in A. exists st. split.
    + eapply fault_top_first; eauto; try reflexivity; simpl; try tauto.
      simpl. apply fault_ctor_ptr; auto.
    + destruct SameSt as (P & Q & S1 & S2). split; [exact P|split; [exact Q|split; [intros x0 r0 _ Hx0; apply S1; exact Hx0|exact S2]]].
  - (* TFreshNRVO: string sub; sub.m_buffer.allocate(n) *)
    apply Nat.leb_le in A. destruct W as (Wr & Ur & Ws & Us).
    assert (Dr : objs st res = None) by (apply (rel_live st s _ R); exact Wr).
    destruct (fault_body_def_alloc st res (length v) 0%N (write_all res 0 v) I Dr A) as (E1 & I1).
    set (st1 := mkstore (upd (objs st) res (Some (dflt res))) (hp st)) in *.
    set (st2 := mkstore (upd (objs st1) res None) (hp st1)).
    exists st2. split.
    + unfold run_top. cbn [expand]. unfold alloc_with. rewrite E1.
      rewrite (unwind_nothing st1).
      * cbn [under_construction destroy_if_live]. unfold st1 at 1. cbn [objs]. rewrite upd_same.
        rewrite (dtor_default st1 res) by (unfold st1; cbn; apply upd_same). reflexivity.
      * intros k Hk. unfold st1. cbn [objs]. rewrite upd_other by (unfold user_slot in *; lia). apply HS; exact Hk.
    + destruct (same_after_roundtrip st res Dr) as (Ho & Hh).
      destruct (Same st2 Ho Hh) as (P & Q & S1 & S2). split; [exact P|split; [exact Q|split; [intros x0 r0 _ Hx0; apply S1; exact Hx0|exact S2]]].
  - (* TFreshMoveCtor: char_buffer cat; cat.allocate(n) *)
    apply Nat.leb_le in A. destruct W as (Wr & Ur & Ws & Us).
    destruct (fault_body_def_alloc st tmp0 (length v) 0%N (write_all tmp0 0 v ++ [BMove res tmp0; BDel tmp0]) I D0 A) as (E1 & I1).
    set (st1 := mkstore (upd (objs st) tmp0 (Some (dflt tmp0))) (hp st)) in *.
    set (st2 := mkstore (upd (objs st1) tmp0 None) (hp st1)).
    exists st2. split.
    + unfold run_top. cbn [expand]. unfold alloc_with. cbn [app]. rewrite E1.
      rewrite (unwind_tmp0 st1).
      * reflexivity.
      * unfold st1. cbn [objs]. apply upd_same.
      * intros k Hk. unfold st1. cbn [objs]. rewrite upd_other by (unfold tmp0; lia). apply HS. lia.
    + destruct (same_after_roundtrip st tmp0 D0) as (Ho & Hh).
      destruct (Same st2 Ho Hh) as (P & Q & S1 & S2). split; [exact P|split; [exact Q|split; [intros x0 r0 _ Hx0; apply S1; exact Hx0|exact S2]]].
  - (* TFreshMoveAsg *)
    apply Nat.leb_le in A. destruct W as (Wr & Ur & Ws & Us).
    assert (Dr : objs st res = None) by (apply (rel_live st s _ R); exact Wr).
    destruct (fault_body_def_alloc st tmp0 (length v) 0%N (write_all tmp0 0 v ++ [BDef res; BMasg res tmp0; BDel tmp0]) I D0 A) as (E1 & I1).
    set (st1 := mkstore (upd (objs st) tmp0 (Some (dflt tmp0))) (hp st)) in *.
    set (st2 := mkstore (upd (objs st1) tmp0 None) (hp st1)).
    exists st2. split.
    + unfold run_top. cbn [expand]. unfold alloc_with. cbn [app]. rewrite E1.
      rewrite (unwind_tmp0 st1).
      * cbn [under_construction destroy_if_live objs]. unfold st1. cbn [objs].
        rewrite upd_other by (unfold user_slot, tmp0, scratch_base in *; lia).
        rewrite upd_other by (unfold user_slot, tmp0, scratch_base in *; lia). rewrite Dr. reflexivity.
      * unfold st1. cbn [objs]. apply upd_same.
      * intros k Hk. unfold st1. cbn [objs]. rewrite upd_other by (unfold tmp0; lia). apply HS. lia.
    + destruct (same_after_roundtrip st tmp0 D0) as (Ho & Hh).
      destruct (Same st2 Ho Hh) as (P & Q & S1 & S2). split; [exact P|split; [exact Q|split; [intros x0 r0 _ Hx0; apply S1; exact Hx0|exact S2]]].
  - (* TCopyOf *) destruct W as (Wr & Ur & Ws & Us). unfold long_obj in A.
    destruct (objs st src) as [c|] eqn:Hc; [|discriminate]. apply Nat.leb_le in A.
    exists st. split.
    + eapply fault_top_first; eauto; try reflexivity; simpl; try tauto.
      simpl. eapply fault_ctor_copy; eauto.
    + destruct SameSt as (P & Q & S1 & S2). split; [exact P|split; [exact Q|split; [intros x0 r0 _ Hx0; apply S1; exact Hx0|exact S2]]].
  - (* TCopyMove *) destruct W as (Wr & Ur & Ws & Us). unfold long_obj in A.
    destruct (objs st src) as [c|] eqn:Hc; [|discriminate]. apply Nat.leb_le in A.
    exists st. split.
    + eapply fault_top_first; eauto; try reflexivity; simpl; try tauto.
      simpl. eapply fault_ctor_copy; eauto.
    + destruct SameSt as (P & Q & S1 & S2). split; [exact P|split; [exact Q|split; [intros x0 r0 _ Hx0; apply S1; exact Hx0|exact S2]]].
  - (* TAssign *) destruct W as (Wo & Uo & Ws & Us).
    apply andb_true_iff in A. destruct A as (Ane & A). apply negb_true_iff, Nat.eqb_neq in Ane.
    unfold long_obj in A. destruct (objs st src) as [c|] eqn:Hc; [|discriminate]. apply Nat.leb_le in A.
    destruct (objs st o) as [r|] eqn:Ho; [|exfalso; apply (rel_live st s o R) in Ho; contradiction].
    destruct (fault_assign_copy st s o src r c I R Ane Ho Hc A) as (st' & E & I' & R' & F').
    exists st'. split.
    + eapply fault_top_first; eauto; try reflexivity; simpl; try tauto.
      intros k Hk. rewrite F' by (unfold user_slot, scratch_base in *; lia). apply HS; exact Hk.
    + split; [exact I'|]. split; [unfold fault_spec; rewrite Ho; exact R'|]. split.
      * intros x rx Nx Hx. assert (x <> o) by (intros ->; apply Nx; left; reflexivity).
        split; [rewrite F' by assumption; exact Hx|].
        (* contents: through Rel with the spec store read off the state *)
        destruct (fault_assign_copy st (sstore_of st) o src r c I (rel_sstore_of st) Ane Ho Hc A) as (st2 & E2 & _ & R2 & _).
        rewrite E in E2. injection E2 as <-.
        assert (Hx' : objs st' x = Some rx) by (rewrite F' by assumption; exact Hx).
        destruct (Nat.leb L (m_size r)).
        -- pose proof (R2 x) as R3. rewrite Hx' in R3. rewrite upd_other in R3 by assumption.
           unfold sstore_of in R3. rewrite Hx in R3. exact R3.
        -- pose proof (R2 x) as R3. rewrite Hx' in R3. unfold sstore_of in R3. rewrite Hx in R3. exact R3.
      * intros x Hx. assert (x <> o) by (intros ->; congruence). rewrite F' by assumption. exact Hx.
  - (* TSetBytes *) apply Nat.leb_le in A. destruct W as (Wo & Uo).
    exists st. split.
    + eapply fault_top_first; eauto; try reflexivity; simpl; try tauto.
      simpl. apply fault_ctor_ptr; auto.
    + destruct SameSt as (P & Q & S1 & S2). split; [exact P|split; [exact Q|split; [intros x0 r0 _ Hx0; apply S1; exact Hx0|exact S2]]].
  - (* TAppend *)
    apply Nat.leb_le in A. destruct W as (Wo & Uo & Ws & Us).
    destruct (fault_body_def_alloc st tmp0 (length v) 0%N (write_all tmp0 0 v ++ [BMove tmp1 tmp0; BDel tmp0; BMasg o tmp1; BDel tmp1]) I D0 A) as (E1 & I1).
    set (st1 := mkstore (upd (objs st) tmp0 (Some (dflt tmp0))) (hp st)) in *.
    set (st2 := mkstore (upd (objs st1) tmp0 None) (hp st1)).
    exists st2. split.
    + unfold run_top. cbn [expand]. unfold alloc_with. cbn [app]. rewrite E1.
      rewrite (unwind_tmp0 st1).
      * reflexivity.
      * unfold st1. cbn [objs]. apply upd_same.
      * intros k Hk. unfold st1. cbn [objs]. rewrite upd_other by (unfold tmp0; lia). apply HS. lia.
    + destruct (same_after_roundtrip st tmp0 D0) as (Ho & Hh).
      destruct (Same st2 Ho Hh) as (P & Q & S1 & S2). split; [exact P|split; [exact Q|split; [intros x0 r0 _ Hx0; apply S1; exact Hx0|exact S2]]].
Qed.

End F.
