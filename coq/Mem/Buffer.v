(* Mem/Buffer.v — ST::buffer<char_T> (include/st_charbuffer.h) transcribed over the explicit
   store of Mem/Heap.v, for a parametric small-buffer limit L (local_length).
   Every member is a program in the state+outcome monad; statements appear in source order.  *)
From Coq Require Import NArith List Bool Lia.
From ST Require Import Base.Outcome Base.Units Mem.Heap.
Import ListNotations.
Local Open Scope nat_scope.
Local Open Scope mem_scope.

Record bufobj := mkbuf { m_chars : ptr; m_size : nat; m_data : list N }.
Record store := mkstore { objs : objid -> option bufobj; hp : heap }.
Definition store0 : store := mkstore (fun _ => None) heap0.

Definition MB := @M store.

Section WithL.
Variable L : nat.     (* local_length: 16 for char/char16_t, 12 for wchar_t/char32_t here *)

Definition is_reffed (r : bufobj) : bool := Nat.leb L (m_size r).
Definition zeros : list N := repeat 0%N L.

(* ---- store primitives ---- *)
Definition get_obj (o : objid) : MB bufobj :=
  fun st => match objs st o with
            | Some r => (Ok r, st)
            | None => (Fault UseAfterFree, st)      (* use of a destroyed / never constructed object *)
            end.
Definition set_obj (o : objid) (r : bufobj) : MB unit :=
  fun st => (Ok tt, mkstore (upd (objs st) o (Some r)) (hp st)).
Definition kill_obj (o : objid) : MB unit :=
  fun st => (Ok tt, mkstore (upd (objs st) o None) (hp st)).
Definition new_arr (n : nat) : MB ptr :=
  fun st => match heap_new (hp st) n with
            | (Ok b, h') => (Ok (PHeap b), mkstore (objs st) h')
            | (Throw e, h') => (Throw e, mkstore (objs st) h')
            | (Abort w, h') => (Abort w, mkstore (objs st) h')
            | (Fault f, h') => (Fault f, mkstore (objs st) h')
            end.
Definition delete_arr (p : ptr) : MB unit :=
  fun st => match heap_delete (hp st) p with
            | (Ok _, h') => (Ok tt, mkstore (objs st) h')
            | (Throw e, h') => (Throw e, st)
            | (Abort w, h') => (Abort w, st)
            | (Fault f, h') => (Fault f, st)
            end.

(* the array a pointer designates *)
Definition arr (p : ptr) : MB (list N) :=
  fun st => match p with
            | PLocal o => match objs st o with
                          | Some r => (Ok (m_data r), st)
                          | None => (Fault UseAfterFree, st)
                          end
            | PHeap b => (heap_block (hp st) b, st)
            | PNull => (Fault NullDeref, st)
            end.
Definition set_arr (p : ptr) (c : list N) : MB unit :=
  fun st => match p with
            | PLocal o => match objs st o with
                          | Some r => (Ok tt, mkstore (upd (objs st) o (Some (mkbuf (m_chars r) (m_size r) c))) (hp st))
                          | None => (Fault UseAfterFree, st)
                          end
            | PHeap b => match heap_block (hp st) b with
                         | Ok _ => (Ok tt, mkstore (objs st) (heap_set_block (hp st) b c))
                         | Throw e => (Throw e, st) | Abort w => (Abort w, st) | Fault f => (Fault f, st)
                         end
            | PNull => (Fault NullDeref, st)
            end.

(* p[i] = v *)
Definition poke (p : ptr) (i : nat) (v : N) : MB unit :=
  a <-- arr p ;;
  if Nat.ltb i (length a) then set_arr p (set_nth a i v) else mfault OOBWrite.
(* traits::copy(p, src, n) / traits::move: p[0..n) = src[0..n) where src is a value already read *)
Definition poke_range (p : ptr) (src : list N) (n : nat) : MB unit :=
  a <-- arr p ;;
  if Nat.ltb (length a) n then mfault OOBWrite
  else if Nat.ltb (length src) n then mfault OOBRead
  else set_arr p (firstn n src ++ skipn n a).
(* traits::assign(p, n, c) *)
Definition fill_range (p : ptr) (n : nat) (c : N) : MB unit :=
  a <-- arr p ;;
  if Nat.ltb (length a) n then mfault OOBWrite
  else set_arr p (repeat c n ++ skipn n a).
(* read n units through p *)
Definition peek_range (p : ptr) (n : nat) : MB (list N) :=
  a <-- arr p ;;
  if Nat.ltb (length a) n then mfault OOBRead else ret (firstn n a).

(* ---- members ---- *)

(* buffer() *)
Definition ctor_default (this : objid) : MB unit :=
  set_obj this (mkbuf (PLocal this) 0 zeros).

(* body shared by the copy constructor and copy assignment, after m_size has been read *)
Definition copy_body (this : objid) (copy : bufobj) (cur : bufobj) : MB unit :=
  if is_reffed copy then
    p <-- new_arr (m_size copy + 1) ;;
    src <-- peek_range (m_chars copy) (m_size copy) ;;
    poke_range p src (m_size copy) ;;;
    poke p (m_size copy) 0%N ;;;
    set_obj this (mkbuf p (m_size copy) (m_data cur))
  else
    set_obj this (mkbuf (PLocal this) (m_size copy) (m_data copy)).

(* buffer(const buffer &copy) : m_size() *)
Definition ctor_copy (this copy : objid) : MB unit :=
  c <-- get_obj copy ;;
  (* the object under construction does not exist for anyone else until the constructor returns;
     if `new` throws it never comes into existence *)
  copy_body this c (mkbuf PNull 0 (repeat junk L)).

(* buffer(buffer &&move) noexcept  [repaired: source reset to the canonical empty state] *)
Definition ctor_move (this move : objid) : MB unit :=
  mv <-- get_obj move ;;
  let sz := m_size mv in
  let chars := if Nat.leb L sz then m_chars mv else PLocal this in
  set_obj this (mkbuf chars sz (m_data mv)) ;;;
  set_obj move (mkbuf (PLocal move) 0 zeros).

(* buffer(const char_T *data, size_t size) : m_size(size), m_data() ; data = None is nullptr *)
Definition ctor_ptr (this : objid) (data : option (list N)) (size : nat) : MB unit :=
  if (match data with None => negb (Nat.eqb size 0) | Some _ => false end) then mabort AbNullData
  else
    p <-- (if Nat.leb L size then new_arr (size + 1) else ret (PLocal this)) ;;
    set_obj this (mkbuf p size zeros) ;;;
    (match data with
     | Some d => poke_range p d size
     | None => ret tt
     end) ;;;
    poke p size 0%N.

(* buffer(size_t count, char_T fill) *)
Definition ctor_fill (this : objid) (count : nat) (fill : N) : MB unit :=
  p <-- (if Nat.leb L count then new_arr (count + 1) else ret (PLocal this)) ;;
  set_obj this (mkbuf p count zeros) ;;;
  fill_range p count fill ;;;
  poke p count 0%N.

(* ~buffer() *)
Definition dtor (this : objid) : MB unit :=
  r <-- get_obj this ;;
  (if is_reffed r then delete_arr (m_chars r) else ret tt) ;;;
  kill_obj this.

(* clear() *)
Definition clear (this : objid) : MB unit :=
  r <-- get_obj this ;;
  (if is_reffed r then delete_arr (m_chars r) else ret tt) ;;;
  set_obj this (mkbuf (PLocal this) 0 zeros).

(* operator=(const buffer &copy)  [repaired: the release step leaves a canonical empty buffer] *)
Definition assign_copy (this copy : objid) : MB unit :=
  if Nat.eqb this copy then (r <-- get_obj this ;; ret tt)
  else
    r <-- get_obj this ;;
    (if is_reffed r then clear this else ret tt) ;;;
    c <-- get_obj copy ;;
    cur <-- get_obj this ;;
    copy_body this c cur.

(* operator=(buffer &&move) noexcept  [repaired: complete swap, self-move is a no-op] *)
Definition assign_move (this move : objid) : MB unit :=
  if Nat.eqb this move then (r <-- get_obj this ;; ret tt)
  else
    a <-- get_obj this ;;
    b <-- get_obj move ;;
    (* swap m_chars, m_size, m_data; then re-seat m_chars on whichever side is not reffed *)
    let a' := mkbuf (if Nat.leb L (m_size b) then m_chars b else PLocal this) (m_size b) (m_data b) in
    let b' := mkbuf (if Nat.leb L (m_size a) then m_chars a else PLocal move) (m_size a) (m_data a) in
    set_obj this a' ;;; set_obj move b'.

(* allocate(size)  [repaired: new storage is obtained before the old one is released] *)
Definition allocate (this : objid) (size : nat) : MB unit :=
  r <-- get_obj this ;;
  p <-- (if Nat.leb L size then new_arr (size + 1) else ret (PLocal this)) ;;
  (if is_reffed r then delete_arr (m_chars r)
   else set_obj this (mkbuf (m_chars r) (m_size r) zeros)) ;;;
  r' <-- get_obj this ;;
  set_obj this (mkbuf p size (m_data r')) ;;;
  poke p size 0%N.

(* allocate(size, fill) *)
Definition allocate_fill (this : objid) (size : nat) (fill : N) : MB unit :=
  allocate this size ;;;
  r <-- get_obj this ;;
  fill_range (m_chars r) size fill.

(* data()[i] = v   (user write; i < size() is the caller's contract) *)
Definition user_write (this : objid) (i : nat) (v : N) : MB unit :=
  r <-- get_obj this ;;
  if Nat.ltb i (m_size r) then poke (m_chars r) i v else ret tt.

(* ---- observation: what the harness prints for a live object ---- *)
Inductive loc := LocOwn | LocHeap | LocForeign.
Record obs := mkobs { o_units : list N; o_size : nat; o_term : bool; o_loc : loc }.

Definition observe (this : objid) : MB obs :=
  r <-- get_obj this ;;
  a <-- arr (m_chars r) ;;
  if Nat.ltb (length a) (m_size r + 1) then mfault OOBRead
  else
    ret (mkobs (firstn (m_size r) a) (m_size r)
               (N.eqb (nth (m_size r) a 1%N) 0%N)
               (match m_chars r with
                | PLocal o => if Nat.eqb o this then LocOwn else LocForeign
                | PHeap _ => LocHeap
                | PNull => LocForeign
                end)).

End WithL.
