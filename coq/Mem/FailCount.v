(* Mem/FailCount.v — C19, "every allocation it performs": the fault schedule `fail_at = Some k` (the k-th
   allocation from now throws) is TRANSPARENT to every allocation before the k-th one.

   The number of allocations a computation performs is the growth of the heap's block counter `nextb` (heap_new is the
   only primitive that changes it, by exactly one per block handed out).  `Sim m`: whenever `m` returns normally from
   a state without a pending fault, having performed d allocations, then from the same state with the fault scheduled
   at k >= d it returns the same value and the same state, the schedule now standing at k - d.  Sim is closed under
   bind / if / match and holds for every primitive, hence — by a purely syntactic argument — for every member of
   ST::buffer, every operation of the history language, every history, and stack unwinding.                         *)
From Coq Require Import NArith List Bool Lia Arith.
From ST Require Import Base.Outcome Base.Units Mem.Heap Mem.Buffer Mem.BufferRun Mem.BufferHistory Mem.StringOps.
Import ListNotations.
Local Open Scope nat_scope.
Local Open Scope mem_scope.

Definition nofail (st : store) : Prop := fail_at (hp st) = None.
Definition nb (st : store) : nat := nextb (hp st).

Definition Sim {A} (m : MB A) : Prop :=
  forall st a st', nofail st -> m st = (Ok a, st') ->
    nofail st' /\ nb st <= nb st' /\
    forall k, nb st' - nb st <= k ->
      m (with_fail st (Some k)) = (Ok a, with_fail st' (Some (k - (nb st' - nb st)))).

(* a computation that allocates nothing *)
Lemma sim_intro0 {A} (m : MB A) :
  (forall st a st', nofail st -> m st = (Ok a, st') ->
     nofail st' /\ nb st' = nb st /\ forall k, m (with_fail st (Some k)) = (Ok a, with_fail st' (Some k))) ->
  Sim m.
Proof.
  intros H st a st' NF E. destruct (H st a st' NF E) as (NF' & Hn & K).
  split; [exact NF'|]. split; [lia|]. intros k _. rewrite K. rewrite Hn, Nat.sub_diag, Nat.sub_0_r. reflexivity.
Qed.

Lemma sim_ret {A} (a : A) : Sim (ret a : MB A).
Proof. apply sim_intro0. intros st b st' NF E. unfold ret in *. injection E as <- <-. auto. Qed.

Lemma sim_mfault {A} f : Sim (mfault f : MB A).
Proof. intros st a st' _ E. discriminate. Qed.
Lemma sim_mabort {A} w : Sim (mabort w : MB A).
Proof. intros st a st' _ E. discriminate. Qed.
Lemma sim_mthrow {A} e : Sim (mthrow e : MB A).
Proof. intros st a st' _ E. discriminate. Qed.

Lemma sim_bind {A B} (m : MB A) (f : A -> MB B) : Sim m -> (forall a, Sim (f a)) -> Sim (mbind m f).
Proof.
  intros Hm Hf st b st2 NF E. unfold mbind in E.
  destruct (m st) as [[a|e|w|ft] st1] eqn:E1; try discriminate.
  destruct (Hm st a st1 NF E1) as (NF1 & Le1 & K1).
  destruct (Hf a st1 b st2 NF1 E) as (NF2 & Le2 & K2).
  split; [exact NF2|]. split; [lia|]. intros k Hk. unfold mbind.
  rewrite K1 by lia. rewrite K2 by lia. f_equal. f_equal. f_equal. lia.
Qed.

(* ---- primitives ---- *)
Section Prims.
Variable L : nat.

Lemma sim_get_obj o : Sim (get_obj o).
Proof.
  apply sim_intro0. intros st a st' NF E. unfold get_obj in *. cbn [with_fail objs].
  destruct (objs st o); [|discriminate]. injection E as <- <-. auto.
Qed.

Lemma sim_set_obj o r : Sim (set_obj o r).
Proof.
  apply sim_intro0. intros st a st' NF E. unfold set_obj in *. injection E as <- <-.
  split; [exact NF|]. split; reflexivity.
Qed.

Lemma sim_kill_obj o : Sim (kill_obj o).
Proof.
  apply sim_intro0. intros st a st' NF E. unfold kill_obj in *. injection E as <- <-.
  split; [exact NF|]. split; reflexivity.
Qed.

Lemma sim_new_arr n : Sim (new_arr n).
Proof.
  intros st a st' NF E. unfold new_arr, heap_new in *. unfold nofail in NF. rewrite NF in E. injection E as <- <-.
  unfold nofail, nb. cbn [hp fail_at nextb]. split; [reflexivity|]. split; [lia|].
  intros k Hk. replace (S (nextb (hp st)) - nextb (hp st)) with 1 in * by lia.
  destruct k as [|k]; [lia|]. cbn [with_fail hp fail_at objs blocks nextb].
  replace (S k - 1) with k by lia. reflexivity.
Qed.

Lemma sim_delete_arr p : Sim (delete_arr p).
Proof.
  apply sim_intro0. intros st a st' NF E. unfold delete_arr, heap_delete in *.
  cbn [with_fail hp objs blocks nextb fail_at].
  destruct p as [x|b|].
  - discriminate.
  - destruct (blocks (hp st) b).
    + injection E as <- <-. unfold nofail, nb. cbn. split; [exact NF|]. split; reflexivity.
    + destruct (Nat.ltb b (nextb (hp st))); discriminate.
  - injection E as <- <-. unfold nofail, nb. cbn. destruct st as [ob [bl nx fa]]. cbn in *. split; [exact NF|]. split; reflexivity.
Qed.

Lemma sim_arr p : Sim (arr p).
Proof.
  apply sim_intro0. intros st a st' NF E. unfold arr, heap_block in *. cbn [with_fail hp objs blocks nextb].
  destruct p as [x|b|].
  - destruct (objs st x); [|discriminate]. injection E as <- <-. auto.
  - destruct (blocks (hp st) b); [|destruct (Nat.ltb b (nextb (hp st))); discriminate]. injection E as <- <-. auto.
  - discriminate.
Qed.

Lemma sim_set_arr p c : Sim (set_arr p c).
Proof.
  apply sim_intro0. intros st a st' NF E. unfold set_arr, heap_block, heap_set_block in *.
  cbn [with_fail hp objs blocks nextb fail_at].
  destruct p as [x|b|].
  - destruct (objs st x); [|discriminate]. injection E as <- <-. split; [exact NF|]. split; reflexivity.
  - destruct (blocks (hp st) b); [|destruct (Nat.ltb b (nextb (hp st))); discriminate].
    injection E as <- <-. unfold nofail, nb. cbn. split; [exact NF|]. split; reflexivity.
  - discriminate.
Qed.

Ltac sim :=
  repeat first
    [ apply sim_ret | apply sim_mfault | apply sim_mabort | apply sim_mthrow
    | apply sim_get_obj | apply sim_set_obj | apply sim_kill_obj | apply sim_new_arr | apply sim_delete_arr
    | apply sim_arr | apply sim_set_arr
    | apply sim_bind; [|intros ?]
    | match goal with
      | |- Sim (if ?c then _ else _) => destruct c
      | |- Sim (match ?x with _ => _ end) => destruct x
      end ].

Lemma sim_poke p i v : Sim (poke p i v).
Proof. unfold poke. sim. Qed.
Lemma sim_poke_range p src n : Sim (poke_range p src n).
Proof. unfold poke_range. sim. Qed.
Lemma sim_fill_range p n c : Sim (fill_range p n c).
Proof. unfold fill_range. sim. Qed.
Lemma sim_peek_range p n : Sim (peek_range p n).
Proof. unfold peek_range. sim. Qed.

Ltac sim2 :=
  repeat first
    [ apply sim_poke | apply sim_poke_range | apply sim_fill_range | apply sim_peek_range
    | apply sim_ret | apply sim_mfault | apply sim_mabort | apply sim_mthrow
    | apply sim_get_obj | apply sim_set_obj | apply sim_kill_obj | apply sim_new_arr | apply sim_delete_arr
    | apply sim_arr | apply sim_set_arr
    | apply sim_bind; [|intros ?]
    | match goal with
      | |- Sim (if ?c then _ else _) => destruct c
      | |- Sim (match ?x with _ => _ end) => destruct x
      end ].

(* ---- every member of ST::buffer ---- *)
Lemma sim_ctor_default o : Sim (ctor_default L o).
Proof. unfold ctor_default. sim2. Qed.
Lemma sim_copy_body o c cur : Sim (copy_body L o c cur).
Proof. unfold copy_body. sim2. Qed.
Lemma sim_ctor_copy o s : Sim (ctor_copy L o s).
Proof. unfold ctor_copy. apply sim_bind; [apply sim_get_obj|intros c; apply sim_copy_body]. Qed.
Lemma sim_ctor_move o s : Sim (ctor_move L o s).
Proof. unfold ctor_move. cbv zeta. sim2. Qed.
Lemma sim_ctor_ptr o d n : Sim (ctor_ptr L o d n).
Proof. unfold ctor_ptr. sim2. Qed.
Lemma sim_ctor_fill o n c : Sim (ctor_fill L o n c).
Proof. unfold ctor_fill. sim2. Qed.
Lemma sim_dtor o : Sim (dtor L o).
Proof. unfold dtor. sim2. Qed.
Lemma sim_clear o : Sim (clear L o).
Proof. unfold clear. sim2. Qed.
Lemma sim_assign_copy o s : Sim (assign_copy L o s).
Proof.
  unfold assign_copy. destruct (Nat.eqb o s); [sim2|].
  apply sim_bind; [apply sim_get_obj|intros r].
  apply sim_bind; [destruct (is_reffed L r); [apply sim_clear|apply sim_ret]|intros _].
  apply sim_bind; [apply sim_get_obj|intros c].
  apply sim_bind; [apply sim_get_obj|intros cur]. apply sim_copy_body.
Qed.
Lemma sim_assign_move o s : Sim (assign_move L o s).
Proof. unfold assign_move. cbv zeta. sim2. Qed.
Lemma sim_allocate o n : Sim (allocate L o n).
Proof. unfold allocate. sim2. Qed.
Lemma sim_allocate_fill o n c : Sim (allocate_fill L o n c).
Proof.
  unfold allocate_fill. apply sim_bind; [apply sim_allocate|intros _].
  apply sim_bind; [apply sim_get_obj|intros r]. apply sim_fill_range.
Qed.
Lemma sim_user_write o i v : Sim (user_write o i v).
Proof. unfold user_write. sim2. Qed.

(* ---- every operation of the history language, every history, stack unwinding ---- *)
Theorem sim_bop op : Sim (run_bop L op).
Proof.
  destruct op; cbn [run_bop];
    first [ apply sim_ctor_default | apply sim_ctor_ptr | apply sim_ctor_fill | apply sim_ctor_copy | apply sim_ctor_move
          | apply sim_assign_copy | apply sim_assign_move | apply sim_allocate_fill | apply sim_user_write | apply sim_clear
          | apply sim_dtor ].
Qed.

Theorem sim_run_ops : forall ops, Sim (run_ops L ops).
Proof.
  induction ops as [|op rest IH].
  - apply sim_intro0. intros st a st' NF E. cbn in *. injection E as <- <-. auto.
  - intros st a st2 NF E. cbn [run_ops] in E.
    destruct (run_bop L op st) as [[u|e|w|ft] st1] eqn:E1; try discriminate.
    destruct (sim_bop op st u st1 NF E1) as (NF1 & Le1 & K1).
    destruct (IH st1 a st2 NF1 E) as (NF2 & Le2 & K2).
    split; [exact NF2|]. split; [lia|]. intros k Hk. cbn [run_ops].
    rewrite K1 by lia. rewrite K2 by lia. f_equal. f_equal. f_equal. lia.
Qed.

Theorem sim_destroy_all : forall pool k, Sim (destroy_all L k pool).
Proof.
  induction pool as [|p IH]; intros k.
  - cbn. apply sim_ret.
  - intros st a st2 NF E. cbn [destroy_all] in *. cbn [with_fail objs].
    destruct (objs st k) as [r|] eqn:Hk.
    + assert (S1 : Sim (dtor L k ;;; destroy_all L (S k) p)) by (apply sim_bind; [apply sim_dtor|intros _; apply IH]).
      exact (S1 st a st2 NF E).
    + exact (IH (S k) st a st2 NF E).
Qed.

End Prims.
