(* Mem/Stream.v — ST::string_stream (include/st_stringstream.h) transcribed over the explicit heap
   of Mem/Heap.v.  STK = ST_STACK_STRING_SIZE (Gen/Consts.stack_string_size, 256).
   Sizes are nat: the size_t overflow of m_size + added_size for appends near 2^64 bytes is outside
   the model (such appends cannot be formed from real arrays).                                   *)
From Coq Require Import NArith List Bool Lia.
From ST Require Import Base.Outcome Base.Units Mem.Heap Num.Digits.
Import ListNotations.
Local Open Scope nat_scope.
Local Open Scope mem_scope.

Record strm := mkstrm { s_chars : ptr; s_alloc : nat; s_size : nat; s_stack : list N }.
Record sstate := mksstate { sobjs : objid -> option strm; shp : heap }.
Definition sstate0 : sstate := mksstate (fun _ => None) heap0.
Definition MS := @M sstate.

Section WithSTK.
Variable STK : nat.

Definition is_heap (r : strm) : bool := Nat.ltb STK (s_alloc r).

Definition sget_obj (o : objid) : MS strm :=
  fun st => match sobjs st o with Some r => (Ok r, st) | None => (Fault UseAfterFree, st) end.
Definition sset_obj (o : objid) (r : strm) : MS unit :=
  fun st => (Ok tt, mksstate (upd (sobjs st) o (Some r)) (shp st)).
Definition skill_obj (o : objid) : MS unit :=
  fun st => (Ok tt, mksstate (upd (sobjs st) o None) (shp st)).
Definition snew (n : nat) : MS ptr :=
  fun st => match heap_new (shp st) n with
            | (Ok b, h') => (Ok (PHeap b), mksstate (sobjs st) h')
            | (Throw e, h') => (Throw e, mksstate (sobjs st) h')
            | (Abort w, h') => (Abort w, st) | (Fault f, h') => (Fault f, st)
            end.
Definition sdelete (p : ptr) : MS unit :=
  fun st => match heap_delete (shp st) p with
            | (Ok _, h') => (Ok tt, mksstate (sobjs st) h')
            | (Throw e, _) => (Throw e, st) | (Abort w, _) => (Abort w, st) | (Fault f, _) => (Fault f, st)
            end.
Definition sarr (p : ptr) : MS (list N) :=
  fun st => match p with
            | PLocal o => match sobjs st o with Some r => (Ok (s_stack r), st) | None => (Fault UseAfterFree, st) end
            | PHeap b => (heap_block (shp st) b, st)
            | PNull => (Fault NullDeref, st)
            end.
Definition sset_arr (p : ptr) (c : list N) : MS unit :=
  fun st => match p with
            | PLocal o => match sobjs st o with
                          | Some r => (Ok tt, mksstate (upd (sobjs st) o (Some (mkstrm (s_chars r) (s_alloc r) (s_size r) c))) (shp st))
                          | None => (Fault UseAfterFree, st)
                          end
            | PHeap b => match heap_block (shp st) b with
                         | Ok _ => (Ok tt, mksstate (sobjs st) (heap_set_block (shp st) b c))
                         | Throw e => (Throw e, st) | Abort w => (Abort w, st) | Fault f => (Fault f, st)
                         end
            | PNull => (Fault NullDeref, st)
            end.
(* write `src` at offset `off` through p *)
Definition swrite_at (p : ptr) (off : nat) (src : list N) : MS unit :=
  a <-- sarr p ;;
  if Nat.ltb (length a) (off + length src) then mfault OOBWrite
  else sset_arr p (firstn off a ++ src ++ skipn (off + length src) a).

(* string_stream() *)
Definition s_ctor (this : objid) : MS unit :=
  sset_obj this (mkstrm (PLocal this) STK 0 (repeat junk STK)).

(* ~string_stream() *)
Definition s_dtor (this : objid) : MS unit :=
  r <-- sget_obj this ;;
  (if is_heap r then sdelete (s_chars r) else ret tt) ;;;
  skill_obj this.

(* the part shared by the move constructor and move assignment [repaired: the source is reset to the
   freshly constructed state] *)
Definition s_take (this move : objid) : MS unit :=
  mv <-- sget_obj move ;;
  let chars := if Nat.ltb STK (s_alloc mv) then s_chars mv else PLocal this in
  sset_obj this (mkstrm chars (s_alloc mv) (s_size mv) (s_stack mv)) ;;;
  sset_obj move (mkstrm (PLocal move) STK 0 (s_stack mv)).

(* string_stream(string_stream &&move) *)
Definition s_ctor_move (this move : objid) : MS unit := s_take this move.

(* operator=(string_stream &&move) [repaired: self-move guarded] *)
Definition s_assign_move (this move : objid) : MS unit :=
  if Nat.eqb this move then (r <-- sget_obj this ;; ret tt)
  else
    r <-- sget_obj this ;;
    (if is_heap r then sdelete (s_chars r) else ret tt) ;;;
    s_take this move.

(* do { big_size *= 2; } while (m_size + added_size > big_size); *)
Fixpoint grow (fuel : nat) (big need : nat) : option nat :=
  match fuel with
  | O => None
  | S f => let big' := 2 * big in if Nat.ltb big' need then grow f big' need else Some big'
  end.

(* expand_buffer(added_size) *)
Definition s_expand (this : objid) (added : nat) : MS unit :=
  r <-- sget_obj this ;;
  if Nat.ltb (s_alloc r) (s_size r + added) then
    match grow (S (s_size r + added)) (s_alloc r) (s_size r + added) with
    | None => mfault Hang
    | Some big =>
        bigger <-- snew big ;;
        old <-- sarr (s_chars r) ;;
        (if Nat.ltb (length old) (s_alloc r) then mfault OOBRead else ret tt) ;;;
        swrite_at bigger 0 (firstn (s_alloc r) old) ;;;       (* copy(bigger, m_chars, m_alloc) *)
        (if is_heap r then sdelete (s_chars r) else ret tt) ;;;
        r' <-- sget_obj this ;;
        sset_obj this (mkstrm bigger big (s_size r') (s_stack r'))
    end
  else ret tt.

(* append(data, size) with size given (ST_AUTO_SIZE = strlen is resolved by the caller of the model) *)
Definition s_append (this : objid) (data : list N) : MS unit :=
  if Nat.eqb (length data) 0 then ret tt
  else
    s_expand this (length data) ;;;
    r <-- sget_obj this ;;
    swrite_at (s_chars r) (s_size r) data ;;;
    r' <-- sget_obj this ;;
    sset_obj this (mkstrm (s_chars r') (s_alloc r') (s_size r' + length data) (s_stack r')).

(* append_char(ch, count) *)
Definition s_append_char (this : objid) (ch : N) (count : nat) : MS unit :=
  if Nat.eqb count 0 then ret tt
  else
    s_expand this count ;;;
    r <-- sget_obj this ;;
    swrite_at (s_chars r) (s_size r) (repeat ch count) ;;;
    r' <-- sget_obj this ;;
    sset_obj this (mkstrm (s_chars r') (s_alloc r') (s_size r' + count) (s_stack r')).

(* truncate(size) *)
Definition s_truncate (this : objid) (size : nat) : MS unit :=
  r <-- sget_obj this ;;
  if Nat.ltb size (s_size r) then sset_obj this (mkstrm (s_chars r) (s_alloc r) size (s_stack r)) else ret tt.

(* erase(count) *)
Definition s_erase (this : objid) (count : nat) : MS unit :=
  r <-- sget_obj this ;;
  if Nat.ltb count (s_size r) then sset_obj this (mkstrm (s_chars r) (s_alloc r) (s_size r - count) (s_stack r))
  else sset_obj this (mkstrm (s_chars r) (s_alloc r) 0 (s_stack r)).

(* raw_buffer()[0, size()) as an observer reads it *)
Record sobs := mksobs { so_bytes : list N; so_size : nat; so_own : bool }.
Definition s_observe (this : objid) : MS sobs :=
  r <-- sget_obj this ;;
  a <-- sarr (s_chars r) ;;
  if Nat.ltb (length a) (s_size r) then mfault OOBRead
  else ret (mksobs (firstn (s_size r) a) (s_size r)
                   (match s_chars r with PLocal o => Nat.eqb o this | _ => false end)).

End WithSTK.

(* ---- operation language ---- *)
Inductive sop :=
| SNew (o : objid)
| SAppend (o : objid) (d : list N)
| SAppendChar (o : objid) (c : N) (n : nat)
| STruncate (o : objid) (n : nat)
| SErase (o : objid) (n : nat)
| SMove (o src : objid)                     (* string_stream o(std::move(src)) *)
| SMasg (o src : objid)                     (* o = std::move(src) *)
| SShl (o : objid) (bits : nat) (neg : bool) (mag : N)   (* o << integer: |value| = mag, uint_T of `bits` bits *)
| SDel (o : objid).

Definition run_sop (STK : nat) (op : sop) : MS unit :=
  match op with
  | SNew o => s_ctor STK o
  | SAppend o d => s_append STK o d
  | SAppendChar o c n => s_append_char STK o c n
  | STruncate o n => s_truncate o n
  | SErase o n => s_erase o n
  | SMove o src => s_ctor_move STK o src
  | SMasg o src => s_assign_move STK o src
  | SShl o bits neg mag =>
      (* uint_formatter<uint_T> formatter; formatter.format(|num|, 10, false);
         if (num < 0) append_char('-'); return append(formatter.text(), formatter.size()); *)
      match uint_format bits mag 10 false with
      | Ok txt => (if neg then s_append_char STK o 45%N 1 else ret tt) ;;; s_append STK o txt
      | Throw e => mthrow e | Abort w => mabort w | Fault f => mfault f
      end
  | SDel o => s_dtor STK o
  end.

(* SPEC: a plain byte string per stream *)
Definition bstore := objid -> option (list N).
Definition bstore0 : bstore := fun _ => None.
Definition spec_sop (s : bstore) (op : sop) : bstore :=
  match op with
  | SNew o => upd s o (Some [])
  | SAppend o d => match s o with Some l => upd s o (Some (l ++ d)) | None => s end
  | SAppendChar o c n => match s o with Some l => upd s o (Some (l ++ repeat c n)) | None => s end
  | STruncate o n => match s o with Some l => if Nat.ltb n (length l) then upd s o (Some (firstn n l)) else s | None => s end
  | SErase o n => match s o with
                  | Some l => if Nat.ltb n (length l) then upd s o (Some (firstn (length l - n) l)) else upd s o (Some [])
                  | None => s end
  | SMove o src => upd (upd s o (s src)) src (Some [])
  | SMasg o src => if Nat.eqb o src then s else upd (upd s o (s src)) src (Some [])
  | SShl o bits neg mag =>
      match s o with
      | Some l => upd s o (Some (l ++ (if neg then [45%N] else []) ++ digits_text mag 10 false))
      | None => s end
  | SDel o => upd s o None
  end.

(* run a history, observing every stream of the pool after each operation *)
Record sstep := mksstep { ss_result : outcome unit; ss_objs : list (option sobs); ss_shares : bool }.

Fixpoint s_observe_all (k pool : nat) : MS (list (option sobs)) :=
  match pool with
  | O => ret []
  | S p => fun st => match sobjs st k with
                     | None => (x <-- s_observe_all (S k) p ;; ret (None :: x)) st
                     | Some _ => (o <-- s_observe k ;; x <-- s_observe_all (S k) p ;; ret (Some o :: x)) st
                     end
  end.

Definition s_shares (st : sstate) (pool : nat) : bool :=
  existsb (fun a => existsb (fun b =>
    negb (Nat.eqb a b) &&
    match sobjs st a, sobjs st b with
    | Some ra, Some rb => ptr_eqb (s_chars ra) (s_chars rb) ||
                          match s_chars ra with PLocal x => Nat.eqb x b | _ => false end
    | _, _ => false
    end) (seq 0 pool)) (seq 0 pool).

Fixpoint run_shistory (STK : nat) (ops : list sop) (pool : nat) (st : sstate) : list sstep * sstate :=
  match ops with
  | [] => ([], st)
  | op :: rest =>
      let cont (res : outcome unit) (st1 : sstate) :=
          match s_observe_all 0 pool st1 with
          | (Ok os, _) => let '(more, stf) := run_shistory STK rest pool st1 in
                          (mksstep res os (s_shares st1 pool) :: more, stf)
          | (Throw e, _) => ([mksstep (Throw e) [] false], st1)
          | (Abort w, _) => ([mksstep (Abort w) [] false], st1)
          | (Fault f, _) => ([mksstep (Fault f) [] false], st1)
          end in
      match run_sop STK op st with
      | (Ok u, st1) => cont (Ok u) st1
      | (Throw e, st1) => cont (Throw e) st1
      | (Abort w, st1) => ([mksstep (Abort w) [] false], st1)
      | (Fault f, st1) => ([mksstep (Fault f) [] false], st1)
      end
  end.

Fixpoint s_destroy_all (STK : nat) (k pool : nat) : MS unit :=
  match pool with
  | O => ret tt
  | S p => fun st => match sobjs st k with
                     | Some _ => (s_dtor STK k ;;; s_destroy_all STK (S k) p) st
                     | None => s_destroy_all STK (S k) p st
                     end
  end.
Definition s_leaked_after_scope (STK pool : nat) (st : sstate) : outcome nat :=
  match s_destroy_all STK 0 pool st with
  | (Ok _, st') => Ok (live_blocks (shp st'))
  | (Throw e, _) => Throw e | (Abort w, _) => Abort w | (Fault f, _) => Fault f
  end.

Fixpoint spec_shistory (ops : list sop) (s : bstore) : list bstore :=
  match ops with
  | [] => []
  | op :: rest => let s' := spec_sop s op in s' :: spec_shistory rest s'
  end.

(* set the fault schedule: the k-th allocation from now fails *)
Definition swith_fail (st : sstate) (k : option nat) : sstate :=
  mksstate (sobjs st) (mkheap (blocks (shp st)) (nextb (shp st)) k).
