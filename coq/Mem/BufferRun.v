(* Mem/BufferRun.v — operation language for histories over a pool of buffers, the run function
   used by the correspondence check, and the value-semantics SPEC the property states.     *)
From Coq Require Import NArith List Bool Lia.
From ST Require Import Base.Outcome Base.Units Mem.Heap Mem.Buffer.
Import ListNotations.
Local Open Scope nat_scope.
Local Open Scope mem_scope.

Inductive bop :=
| BDef (o : objid)                          (* buffer<T> o;                       *)
| BNew (o : objid) (d : list N)             (* buffer<T> o(ptr, len)              *)
| BNewNull (o : objid) (n : nat)            (* buffer<T> o(nullptr, n)            *)
| BFill (o : objid) (n : nat) (c : N)       (* buffer<T> o(n, c)                  *)
| BCopy (o s : objid)                       (* buffer<T> o(s)                     *)
| BMove (o s : objid)                       (* buffer<T> o(std::move(s))          *)
| BAsg (o s : objid)                        (* o = s                              *)
| BMasg (o s : objid)                       (* o = std::move(s)                   *)
| BAlloc (o : objid) (n : nat) (c : N)      (* o.allocate(n); fill through data() *)
| BAllocFill (o : objid) (n : nat) (c : N)  (* o.allocate(n, c)                   *)
| BWrite (o : objid) (i : nat) (v : N)      (* o.data()[i] = v  (i < size)        *)
| BClear (o : objid)                        (* o.clear()                          *)
| BDel (o : objid).                         (* o.~buffer()                        *)

Section WithL.
Variable L : nat.

Definition run_bop (op : bop) : MB unit :=
  match op with
  | BDef o => ctor_default L o
  | BNew o d => ctor_ptr L o (Some d) (length d)
  | BNewNull o n => ctor_ptr L o None n
  | BFill o n c => ctor_fill L o n c
  | BCopy o s => ctor_copy L o s
  | BMove o s => ctor_move L o s
  | BAsg o s => assign_copy L o s
  | BMasg o s => assign_move L o s
  | BAlloc o n c => allocate L o n ;;; r <-- get_obj o ;; fill_range (m_chars r) n c
  | BAllocFill o n c => allocate_fill L o n c
  | BWrite o i v => user_write o i v
  | BClear o => clear L o
  | BDel o => dtor L o
  end.

(* all objects of the pool, in order: None for a dead slot *)
Fixpoint observe_all (k : nat) (pool : nat) : MB (list (option obs)) :=
  match pool with
  | O => ret []
  | S p =>
      fun st =>
        match objs st k with
        | None => (x <-- observe_all (S k) p ;; ret (None :: x)) st
        | Some _ => (o <-- observe k ;; x <-- observe_all (S k) p ;; ret (Some o :: x)) st
        end
  end.

(* do two live objects share storage?  (same heap block, or a pointer into another object) *)
Definition ptr_of (st : store) (o : objid) : option ptr :=
  match objs st o with Some r => Some (m_chars r) | None => None end.
Definition shares (st : store) (pool : nat) : bool :=
  existsb (fun a =>
    existsb (fun b =>
      negb (Nat.eqb a b) &&
      match ptr_of st a, ptr_of st b with
      | Some pa, Some pb =>
          ptr_eqb pa pb || match pa with PLocal x => Nat.eqb x b | _ => false end
      | _, _ => false
      end) (seq 0 pool)) (seq 0 pool).

Record step_obs := mkstep { s_result : outcome unit; s_objs : list (option obs); s_shares : bool }.

(* run a history; after every operation observe the whole pool.  Stops at the first Abort/Fault
   (the real process dies there); a Throw (bad_alloc) is recorded and the history continues. *)
Fixpoint run_history (ops : list bop) (pool : nat) (st : store) : list step_obs * store :=
  match ops with
  | [] => ([], st)
  | op :: rest =>
      let cont (res : outcome unit) (st1 : store) :=
          match observe_all 0 pool st1 with
          | (Ok os, _) =>
              let '(more, stf) := run_history rest pool st1 in
              (mkstep res os (shares st1 pool) :: more, stf)
          | (Throw e, _) => ([mkstep (Throw e) [] false], st1)
          | (Abort w, _) => ([mkstep (Abort w) [] false], st1)
          | (Fault f, _) => ([mkstep (Fault f) [] false], st1)
          end in
      match run_bop op st with
      | (Ok u, st1) => cont (Ok u) st1
      | (Throw e, st1) => cont (Throw e) st1
      | (Abort w, st1) => ([mkstep (Abort w) [] false], st1)
      | (Fault f, st1) => ([mkstep (Fault f) [] false], st1)
      end
  end.

(* end of scope: destroy whatever is still alive (in index order), then count live blocks *)
Fixpoint destroy_all (k pool : nat) : MB unit :=
  match pool with
  | O => ret tt
  | S p => fun st => match objs st k with
                     | Some _ => (dtor L k ;;; destroy_all (S k) p) st
                     | None => destroy_all (S k) p st
                     end
  end.
Definition leaked_after_scope (pool : nat) (st : store) : outcome nat :=
  match destroy_all 0 pool st with
  | (Ok _, st') => Ok (live_blocks (hp st'))
  | (Throw e, _) => Throw e | (Abort w, _) => Abort w | (Fault f, _) => Fault f
  end.

End WithL.

(* ---- SPEC: plain values; a moved-from object holds SOME valid value ---- *)
Inductive sval := Val (l : list N) | Unspecified.
Definition sstore := objid -> option sval.
Definition sstore0 : sstore := fun _ => None.
Definition sget (s : sstore) (o : objid) : option sval := s o.
Definition sset (s : sstore) (o : objid) (v : option sval) : sstore := upd s o v.

Definition spec_bop (s : sstore) (op : bop) : sstore :=
  match op with
  | BDef o => sset s o (Some (Val []))
  | BNew o d => sset s o (Some (Val d))
  | BNewNull o n => sset s o (Some (Val []))      (* only n = 0 is legal; n > 0 is the documented assertion *)
  | BFill o n c => sset s o (Some (Val (repeat c n)))
  | BCopy o src => sset s o (sget s src)
  | BMove o src => sset (sset s o (sget s src)) src (Some Unspecified)
  | BAsg o src => sset s o (sget s src)
  | BMasg o src => if Nat.eqb o src then s else sset (sset s o (sget s src)) src (Some Unspecified)
  | BAlloc o n c => sset s o (Some (Val (repeat c n)))
  | BAllocFill o n c => sset s o (Some (Val (repeat c n)))
  | BWrite o i v =>
      match sget s o with
      | Some (Val l) => if Nat.ltb i (length l) then sset s o (Some (Val (set_nth l i v))) else s
      | _ => s
      end
  | BClear o => sset s o (Some (Val []))
  | BDel o => sset s o None
  end.

Fixpoint spec_history (ops : list bop) (s : sstore) : list sstore :=
  match ops with
  | [] => []
  | op :: rest => let s' := spec_bop s op in s' :: spec_history rest s'
  end.
