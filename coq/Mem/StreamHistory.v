(* Mem/StreamHistory.v — from single string_stream operations to every finite history; what an
   observer sees; end of scope; the run function of the correspondence check; moved-from streams. *)
From Coq Require Import NArith List Bool Lia Arith.
From ST Require Import Base.Outcome Base.Units Mem.Heap Mem.Stream Mem.StreamInv Mem.StreamOps Mem.StreamSteps.
Import ListNotations.
Local Open Scope nat_scope.

Section Hist.
Variable STK : nat.
Hypothesis STKpos : 1 <= STK.
Notation SInv := (SInv STK).
Notation sobj_ok := (sobj_ok STK).

(* run a list of operations, stopping at the first one that does not return normally *)
Fixpoint run_sops (ops : list sop) (st : sstate) : outcome unit * sstate :=
  match ops with
  | [] => (Ok tt, st)
  | op :: rest =>
      match run_sop STK op st with
      | (Ok _, st') => run_sops rest st'
      | r => r
      end
  end.

(* well-formedness of a history, stated on the SPEC store (no reference to the model's state) *)
Definition swf_spec (s : bstore) (op : sop) : Prop :=
  match op with
  | SNew o => s o = None
  | SAppend o _ | SAppendChar o _ _ | STruncate o _ | SErase o _ | SDel o => s o <> None
  | SMove o src => s o = None /\ s src <> None
  | SMasg o src => s o <> None /\ s src <> None
  | SShl o bits _ mag => s o <> None /\ (mag < 2 ^ N.of_nat bits)%N
  end.
Fixpoint swf_history (s : bstore) (ops : list sop) : Prop :=
  match ops with
  | [] => True
  | op :: rest => swf_spec s op /\ swf_history (spec_sop s op) rest
  end.

Lemma swf_transfer st s op : SRel st s -> swf_spec s op -> swf_op st op.
Proof.
  intros R W. pose proof (fun o => srel_live st s o R) as E.
  unfold swf_op, slive, sdead.
  destruct op; cbn [swf_spec] in W; repeat match goal with H : _ /\ _ |- _ => destruct H end;
    repeat split; try (apply E; assumption); try assumption;
    try (intro Hc; apply E in Hc; contradiction).
Qed.

Theorem history_ok ops : forall st s,
  SInv st -> SRel st s -> swf_history s ops ->
  exists st', run_sops ops st = (Ok tt, st') /\ SInv st' /\ SRel st' (fold_left spec_sop ops s).
Proof.
  induction ops as [|op rest IH]; intros st s I R W.
  - exists st. simpl. auto.
  - destruct W as (W1 & W2).
    destruct (step_ok STK STKpos st s op I R (swf_transfer st s op R W1)) as (st1 & E1 & I1 & R1).
    destruct (IH st1 _ I1 R1 W2) as (st2 & E2 & I2 & R2).
    exists st2. cbn [run_sops fold_left]. rewrite E1. auto.
Qed.

Corollary reachable_ok ops :
  swf_history bstore0 ops ->
  exists st', run_sops ops sstate0 = (Ok tt, st') /\ SInv st' /\ SRel st' (fold_left spec_sop ops bstore0).
Proof. apply history_ok; [apply sinv_init | apply srel_init]. Qed.

(* ---- what an observer sees in a state satisfying SInv: raw_buffer()[0,size()), size(), and whether
        the bytes sit in the object itself ---- *)
Theorem observe_ok st o r :
  SInv st -> sobjs st o = Some r ->
  s_observe o st = (Ok (mksobs (scontents st r) (s_size r) (negb (Nat.ltb STK (s_alloc r)))), st).
Proof.
  clear STKpos. intros I Ho. unfold s_observe.
  erewrite smbind_Ok; [|apply sget_obj_ok; exact Ho].
  destruct (alloc_cases _ _ _ _ I Ho) as [Ha|Ha].
  - destruct (local_own _ _ _ _ I Ho Ha) as (Hp & Hlen & Hsz). rewrite Hp.
    erewrite smbind_Ok; [|apply sarr_local; exact Ho].
    replace (Nat.ltb (length (s_stack r)) (s_size r)) with false by (symmetry; apply Nat.ltb_ge; lia).
    replace (Nat.ltb STK (s_alloc r)) with false by (symmetry; apply Nat.ltb_ge; lia).
    unfold ret. rewrite Nat.eqb_refl. unfold scontents. rewrite Hp. reflexivity.
  - destruct (heap_owned _ _ _ _ I Ho Ha) as (b & cc & Hp & Hb & Hcl & Hsz). rewrite Hp.
    erewrite smbind_Ok; [|apply sarr_heap; exact Hb].
    replace (Nat.ltb (length cc) (s_size r)) with false by (symmetry; apply Nat.ltb_ge; lia).
    replace (Nat.ltb STK (s_alloc r)) with true by (symmetry; apply Nat.ltb_lt; lia).
    unfold ret. unfold scontents. rewrite Hp, Hb. reflexivity.
Qed.

(* no two live streams share storage *)
Theorem no_sharing st pool : SInv st -> s_shares st pool = false.
Proof.
  clear STKpos. intros I. unfold s_shares. apply not_true_is_false. intros H.
  apply existsb_exists in H. destruct H as (a & _ & H).
  apply existsb_exists in H. destruct H as (b & _ & H).
  apply andb_true_iff in H. destruct H as (Hne & H).
  apply negb_true_iff, Nat.eqb_neq in Hne.
  destruct (sobjs st a) as [ra|] eqn:Ha; [|discriminate].
  destruct (sobjs st b) as [rb|] eqn:Hb; [|discriminate].
  apply orb_true_iff in H. destruct H as [H|H].
  - (* equal pointers *)
    destruct (alloc_cases _ _ _ _ I Ha) as [Hs|Hl].
    + destruct (local_own _ _ _ _ I Ha Hs) as (Pa & _). rewrite Pa in H.
      destruct (s_chars rb) as [ob| |] eqn:Pb; simpl in H; try discriminate.
      apply Nat.eqb_eq in H. rewrite <- H in Pb.
      destruct (alloc_cases _ _ _ _ I Hb) as [Hs2|Hl2].
      * destruct (local_own _ _ _ _ I Hb Hs2) as (Pb' & _). congruence.
      * destruct (heap_owned _ _ _ _ I Hb Hl2) as (b2 & c2 & Pb' & _). congruence.
    + destruct (heap_owned _ _ _ _ I Ha Hl) as (b1 & c1 & Pa & _). rewrite Pa in H.
      destruct (s_chars rb) as [|b2|] eqn:Pb; simpl in H; try discriminate.
      apply Nat.eqb_eq in H. rewrite <- H in Pb. apply Hne. eapply (sinv_uniq _ _ I); eauto.
  - (* a points into b *)
    destruct (s_chars ra) as [x| |] eqn:Pa; try discriminate.
    apply Nat.eqb_eq in H. rewrite H in Pa.
    destruct (alloc_cases _ _ _ _ I Ha) as [Hs|Hl].
    + destruct (local_own _ _ _ _ I Ha Hs) as (Pa' & _). congruence.
    + destruct (heap_owned _ _ _ _ I Ha Hl) as (b1 & c1 & Pa' & _). congruence.
Qed.

(* ---- end of scope: destroying every live stream releases every block ---- *)
Lemma destroy_all_ok pool : forall k st,
  SInv st -> exists st', s_destroy_all STK k pool st = (Ok tt, st') /\ SInv st' /\
     (forall o, (k <= o < k + pool -> sobjs st' o = None) /\
                (~ (k <= o < k + pool) -> (sobjs st' o = None <-> sobjs st o = None))).
Proof.
  induction pool as [|p IH]; intros k st I.
  - exists st. simpl. split; [reflexivity|]. split; [exact I|]. intros o. split; [lia|tauto].
  - cbn [s_destroy_all]. destruct (sobjs st k) as [r|] eqn:Hk.
    + destruct (s_dtor_ok STK STKpos st (fun o => match sobjs st o with Some r0 => Some (scontents st r0) | None => None end) k I)
        as (st1 & E1 & I1 & R1).
      * intros o. destruct (sobjs st o); [reflexivity|exact Logic.I].
      * congruence.
      * destruct (IH (S k) st1 I1) as (st2 & E2 & I2 & F2).
        exists st2. unfold Heap.mbind. rewrite E1. split; [exact E2|]. split; [exact I2|].
        assert (K1 : sobjs st1 k = None).
        { specialize (R1 k). cbn [spec_sop] in R1. rewrite upd_same in R1.
          destruct (sobjs st1 k); [contradiction|reflexivity]. }
        assert (K2 : forall o, o <> k -> (sobjs st1 o = None <-> sobjs st o = None)).
        { intros o N. specialize (R1 o). cbn [spec_sop] in R1. rewrite upd_other in R1 by exact N.
          destruct (sobjs st1 o), (sobjs st o); split; intros; try discriminate; try contradiction; auto. }
        intros o. destruct (F2 o) as (F2a & F2b). split.
        -- intros Hr. destruct (Nat.eq_dec o k) as [->|N].
           ++ apply F2b; [lia|exact K1].
           ++ apply F2a. lia.
        -- intros Hr. rewrite F2b by lia. apply K2. lia.
    + destruct (IH (S k) st I) as (st2 & E2 & I2 & F2).
      exists st2. split; [exact E2|]. split; [exact I2|].
      intros o. destruct (F2 o) as (F2a & F2b). split.
      * intros Hr. destruct (Nat.eq_dec o k) as [->|N].
        -- apply F2b; [lia|exact Hk].
        -- apply F2a. lia.
      * intros Hr. apply F2b. lia.
Qed.

Lemma live_blocks_zero h : (forall b, blocks h b = None) -> live_blocks h = 0.
Proof.
  intros H. unfold live_blocks.
  induction (seq 0 (nextb h)) as [|x l IH]; simpl; [reflexivity|]. rewrite H. exact IH.
Qed.

Theorem end_of_scope st pool :
  SInv st -> (forall o, pool <= o -> sobjs st o = None) ->
  s_leaked_after_scope STK pool st = Ok 0.
Proof.
  intros I Hout. unfold s_leaked_after_scope.
  destruct (destroy_all_ok pool 0 st I) as (st' & E & I' & F). rewrite E.
  f_equal. apply live_blocks_zero. intros b.
  destruct (blocks (shp st') b) as [c|] eqn:Hb; [|reflexivity]. exfalso.
  destruct (sinv_noleak _ _ I' _ _ Hb) as (o & r & Ho & _).
  destruct (F o) as (Fa & Fb).
  destruct (Nat.lt_ge_cases o pool) as [Hlt|Hge].
  - rewrite Fa in Ho by lia. discriminate.
  - assert (sobjs st' o = None) by (apply Fb; [lia|apply Hout; exact Hge]). congruence.
Qed.

(* ---- the function the correspondence check runs (run_shistory) never leaves what the spec allows ---- *)

(* what the SPEC allows an observer to see of one slot: exactly the spec bytes and their number *)
Definition sobs_allowed (sv : option (list N)) (ob : option sobs) : Prop :=
  match sv, ob with
  | None, None => True
  | Some l, Some o => so_bytes o = l /\ so_size o = length l
  | _, _ => False
  end.

Definition sstep_allowed (pool : nat) (s : bstore) (stp : sstep) : Prop :=
  ss_result stp = Ok tt /\ ss_shares stp = false /\
  length (ss_objs stp) = pool /\
  forall i, i < pool -> sobs_allowed (s i) (nth i (ss_objs stp) None).

Definition sobs_of (st : sstate) (o : objid) : option sobs :=
  match sobjs st o with
  | None => None
  | Some r => Some (mksobs (scontents st r) (s_size r) (negb (Nat.ltb STK (s_alloc r))))
  end.

Lemma observe_all_ok st pool : forall k,
  SInv st -> s_observe_all k pool st = (Ok (map (sobs_of st) (seq k pool)), st).
Proof.
  induction pool as [|p IH]; intros k I; cbn [s_observe_all seq map]; [reflexivity|].
  unfold sobs_of at 1. destruct (sobjs st k) as [r|] eqn:Hk.
  - unfold Heap.mbind. rewrite (observe_ok st k r I Hk). rewrite (IH (S k) I). reflexivity.
  - unfold Heap.mbind. rewrite (IH (S k) I). reflexivity.
Qed.

Lemma sobs_of_allowed st s o : SInv st -> SRel st s -> sobs_allowed (s o) (sobs_of st o).
Proof.
  intros I R. unfold sobs_of, sobs_allowed. specialize (R o).
  destruct (sobjs st o) as [r|] eqn:Ho; destruct (s o) as [l|]; try contradiction; auto.
  cbn [so_bytes so_size]. split; [exact R|]. rewrite <- R. symmetry. apply (scontents_length STK st o r I Ho).
Qed.

Theorem run_shistory_allowed ops : forall st s pool,
  SInv st -> SRel st s -> swf_history s ops ->
  Forall2 (sstep_allowed pool) (spec_shistory ops s) (fst (run_shistory STK ops pool st)) /\
  exists st', snd (run_shistory STK ops pool st) = st' /\ SInv st' /\ SRel st' (fold_left spec_sop ops s).
Proof.
  induction ops as [|op rest IH]; intros st s pool I R W.
  - simpl. split; [constructor|]. eauto.
  - destruct W as (W1 & W2).
    destruct (step_ok STK STKpos st s op I R (swf_transfer st s op R W1)) as (st1 & E1 & I1 & R1).
    specialize (IH st1 (spec_sop s op) pool I1 R1 W2). destruct IH as (IHa & st2 & E2 & I2 & R2).
    cbn [run_shistory spec_shistory fold_left]. rewrite E1. rewrite (observe_all_ok st1 pool 0 I1).
    destruct (run_shistory STK rest pool st1) as (more, stf) eqn:Er. cbn [fst snd] in *. split.
    + constructor; [|exact IHa]. unfold sstep_allowed; cbn [ss_result ss_objs ss_shares]. split; [reflexivity|].
      split; [apply no_sharing; exact I1|]. split; [rewrite map_length, seq_length; reflexivity|].
      intros i Hi. rewrite (nth_indep _ None (sobs_of st1 (nth i (seq 0 pool) 0))).
      * rewrite map_nth. rewrite seq_nth by exact Hi. cbn [Nat.add]. apply sobs_of_allowed; assumption.
      * rewrite map_length, seq_length. exact Hi.
    + exists st2. auto.
Qed.

(* exactly what checks/C16.py executes: the history from the empty state observed after every step,
   then the end of scope; `pool` covers every slot the history leaves alive *)
Theorem checked_run_ok ops pool :
  swf_history bstore0 ops ->
  (forall o, pool <= o -> fold_left spec_sop ops bstore0 o = None) ->
  Forall2 (sstep_allowed pool) (spec_shistory ops bstore0) (fst (run_shistory STK ops pool sstate0)) /\
  s_leaked_after_scope STK pool (snd (run_shistory STK ops pool sstate0)) = Ok 0.
Proof.
  intros W Hout.
  destruct (run_shistory_allowed ops sstate0 bstore0 pool (sinv_init STK) srel_init W) as (A & st' & E & I' & R').
  split; [exact A|]. rewrite E. apply end_of_scope; [exact I'|].
  intros o Ho. apply (srel_live st' _ o R'). apply Hout. exact Ho.
Qed.

(* ---- a moved-from stream is a valid EMPTY stream ---- *)
Lemma moved_from_general (s : bstore) o src st' :
  SInv st' -> SRel st' (upd (upd s o (s src)) src (Some [])) ->
  exists r, sobjs st' src = Some r /\ sobj_ok st' src r /\ scontents st' r = [] /\ s_size r = 0.
Proof.
  intros I' R'. pose proof (R' src) as Rs. rewrite upd_same in Rs.
  destruct (sobjs st' src) as [r|] eqn:E; [|contradiction].
  exists r. split; [reflexivity|]. split; [apply (sinv_wf _ _ I' _ _ E)|]. split; [exact Rs|].
  rewrite <- (scontents_length STK st' src r I' E), Rs. reflexivity.
Qed.

Theorem moved_from_empty_ctor st s o src :
  SInv st -> SRel st s -> sobjs st o = None -> sobjs st src <> None ->
  exists st', s_ctor_move STK o src st = (Ok tt, st') /\ SInv st' /\
              exists r, sobjs st' src = Some r /\ sobj_ok st' src r /\ scontents st' r = [] /\ s_size r = 0.
Proof.
  intros I R Ho Hs.
  destruct (s_ctor_move_ok STK STKpos st s o src I R Ho Hs) as (st' & E & I' & R').
  exists st'. split; [exact E|]. split; [exact I'|].
  cbn [spec_sop] in R'. apply (moved_from_general s o src st' I' R').
Qed.

Theorem moved_from_empty_assign st s o src :
  SInv st -> SRel st s -> sobjs st o <> None -> sobjs st src <> None -> o <> src ->
  exists st', s_assign_move STK o src st = (Ok tt, st') /\ SInv st' /\
              exists r, sobjs st' src = Some r /\ sobj_ok st' src r /\ scontents st' r = [] /\ s_size r = 0.
Proof.
  intros I R Ho Hs Hne.
  destruct (s_assign_move_ok STK STKpos st s o src I R Ho Hs) as (st' & E & I' & R').
  exists st'. split; [exact E|]. split; [exact I'|].
  cbn [spec_sop] in R'. destruct (Nat.eqb_spec o src) as [->|_]; [contradiction|].
  apply (moved_from_general s o src st' I' R').
Qed.

(* ... that can be appended to: it then holds exactly the appended bytes; the target keeps what it took *)
Theorem moved_from_then_append st s o src d :
  SInv st -> SRel st s -> sobjs st o = None -> sobjs st src <> None ->
  exists st', run_sops [SMove o src; SAppend src d] st = (Ok tt, st') /\ SInv st' /\
              exists r ro, sobjs st' src = Some r /\ scontents st' r = d /\
                           sobjs st' o = Some ro /\ Some (scontents st' ro) = s src.
Proof.
  intros I R Ho Hs.
  assert (Hne : o <> src) by (intros ->; contradiction).
  assert (W : swf_history s [SMove o src; SAppend src d]).
  { cbn [swf_history swf_spec spec_sop]. split; [split|split; [|exact Logic.I]].
    - apply (srel_live st s o R). exact Ho.
    - intros Hn. apply (srel_live st s src R) in Hn. contradiction.
    - rewrite upd_same. discriminate. }
  destruct (history_ok _ st s I R W) as (st' & E & I' & R').
  exists st'. split; [exact E|]. split; [exact I'|].
  cbn [fold_left spec_sop] in R'. rewrite upd_same in R'.
  pose proof (R' src) as Rs. rewrite upd_same in Rs.
  pose proof (R' o) as Rt. rewrite !upd_other in Rt by exact Hne. rewrite upd_same in Rt.
  destruct (s src) as [l|] eqn:Hv.
  2:{ exfalso. apply (srel_live st s src R) in Hv. contradiction. }
  destruct (sobjs st' src) as [r|]; [|contradiction].
  destruct (sobjs st' o) as [ro|]; [|contradiction].
  exists r, ro. split; [reflexivity|]. split; [exact Rs|]. split; [reflexivity|].
  rewrite Rt. reflexivity.
Qed.

End Hist.
