(* Mem/BufferInv.v — the ownership invariant of ST::buffer<T>, preserved by every member;
   every member refines the value-semantics spec; no member faults in a state satisfying it. *)
From Coq Require Import NArith List Bool Lia Arith.
From ST Require Import Base.Outcome Base.Units Mem.Heap Mem.Buffer Mem.BufferRun.
Import ListNotations.
Local Open Scope nat_scope.

Section Inv.
Variable L : nat.
Hypothesis Lpos : 1 <= L.

Definition obj_ok (st : store) (o : objid) (r : bufobj) : Prop :=
  length (m_data r) = L /\
  (m_size r < L -> m_chars r = PLocal o /\ nth (m_size r) (m_data r) 1%N = 0%N) /\
  (L <= m_size r -> exists b c, m_chars r = PHeap b /\ blocks (hp st) b = Some c /\
                                length c = m_size r + 1 /\ nth (m_size r) c 1%N = 0%N).

Record Inv (st : store) : Prop := mkInv {
  inv_wf : forall o r, objs st o = Some r -> obj_ok st o r;
  inv_uniq : forall o1 o2 r1 r2 b, objs st o1 = Some r1 -> objs st o2 = Some r2 ->
                                   m_chars r1 = PHeap b -> m_chars r2 = PHeap b -> o1 = o2;
  inv_noleak : forall b c, blocks (hp st) b = Some c ->
                           exists o r, objs st o = Some r /\ m_chars r = PHeap b;
  inv_next : forall b c, blocks (hp st) b = Some c -> b < nextb (hp st);
  inv_nofail : fail_at (hp st) = None
}.

(* the value an object holds *)
Definition contents (st : store) (r : bufobj) : list N :=
  match m_chars r with
  | PHeap b => match blocks (hp st) b with Some c => firstn (m_size r) c | None => [] end
  | _ => firstn (m_size r) (m_data r)
  end.

Definition Rel (st : store) (s : sstore) : Prop :=
  forall o, match objs st o, s o with
            | Some r, Some (Val l) => contents st r = l
            | Some r, Some Unspecified => True
            | None, None => True
            | _, _ => False
            end.

Lemma inv_init : Inv store0.
Proof.
  constructor; simpl; intros; try discriminate; auto.
Qed.

Lemma rel_init : Rel store0 sstore0.
Proof. intros o. reflexivity. Qed.

(* facts used everywhere *)
Lemma zeros_length : length (zeros L) = L.
Proof. apply repeat_length. Qed.

Lemma nth_repeat_lt {A} (x d : A) n k : k < n -> nth k (repeat x n) d = x.
Proof. revert k; induction n as [|n IH]; intros [|k] H; simpl; try lia; auto. apply IH; lia. Qed.

Lemma nth_zeros k : k < L -> nth k (zeros L) 1%N = 0%N.
Proof. intros H. unfold zeros. apply nth_repeat_lt; assumption. Qed.

Lemma reffed_heap st o r : Inv st -> objs st o = Some r -> L <= m_size r ->
  exists b c, m_chars r = PHeap b /\ blocks (hp st) b = Some c /\ length c = m_size r + 1 /\ nth (m_size r) c 1%N = 0%N.
Proof. intros I H Hs. destruct (inv_wf _ I _ _ H) as (_ & _ & Hh). auto. Qed.

Lemma short_local st o r : Inv st -> objs st o = Some r -> m_size r < L ->
  m_chars r = PLocal o /\ nth (m_size r) (m_data r) 1%N = 0%N /\ length (m_data r) = L.
Proof. intros I H Hs. destruct (inv_wf _ I _ _ H) as (Hl & Hh & _). destruct (Hh Hs). auto. Qed.

(* a fresh block id is neither alive nor referenced *)
Lemma fresh_unref st : Inv st -> blocks (hp st) (nextb (hp st)) = None /\
  forall o r, objs st o = Some r -> m_chars r <> PHeap (nextb (hp st)).
Proof.
  intros I. assert (Hn : blocks (hp st) (nextb (hp st)) = None).
  { destruct (blocks (hp st) (nextb (hp st))) eqn:E; auto. apply (inv_next _ I) in E. lia. }
  split; auto. intros o r Ho Hc.
  destruct (Nat.lt_ge_cases (m_size r) L) as [Hlt|Hge].
  - destruct (short_local _ _ _ I Ho Hlt) as (Hp & _). congruence.
  - destruct (reffed_heap _ _ _ I Ho Hge) as (b & c & Hp & Hb & _). congruence.
Qed.

End Inv.
