(* Mem/StreamOps.v — general preservation lemmas for the string_stream invariant: the handful of
   state changes every member is made of (give a slot an in-object stream, give it a fresh block,
   release a block, destroy, update in place, transfer a block to another slot).             *)
From Coq Require Import NArith List Bool Lia Arith.
From ST Require Import Base.Outcome Base.Units Mem.Heap Mem.Stream Mem.StreamInv.
Import ListNotations.
Local Open Scope nat_scope.

Lemma upd_same {A} (f : nat -> A) k v : upd f k v k = v.
Proof. unfold upd. rewrite Nat.eqb_refl. reflexivity. Qed.
Lemma upd_other {A} (f : nat -> A) k v x : x <> k -> upd f k v x = f x.
Proof. unfold upd. intros H. destruct (Nat.eqb_spec x k); congruence. Qed.
Lemma upd_upd {A} (f : nat -> A) k v1 v2 x : upd (upd f k v1) k v2 x = upd f k v2 x.
Proof. unfold upd. destruct (Nat.eqb x k); reflexivity. Qed.

Ltac eq_subst x k := first [subst x | subst k | idtac].
Ltac simp_upd :=
  repeat match goal with
  | H : context [upd _ ?k _ ?x] |- _ =>
      unfold upd in H; destruct (Nat.eqb_spec x k); [eq_subst x k|]
  | |- context [upd _ ?k _ ?x] =>
      unfold upd; destruct (Nat.eqb_spec x k); [eq_subst x k|]
  end.
Ltac inj H := let E := fresh "E" in injection H as E; try (rewrite <- E in *; clear E).
Ltac open_some :=
  repeat match goal with
  | H : Some (mkstrm _ _ _ _) = Some ?r |- _ => inj H; simpl in *
  | H : Some _ = None |- _ => discriminate H
  | H : None = Some _ |- _ => discriminate H
  end.

(* list facts *)
Lemma firstn_app_exact {A} (l1 l2 : list A) n : length l1 = n -> firstn n (l1 ++ l2) = l1.
Proof. intros <-. rewrite firstn_app, Nat.sub_diag, firstn_all. simpl. apply app_nil_r. Qed.
Lemma firstn_app_le {A} (l1 l2 : list A) n : n <= length l1 -> firstn n (l1 ++ l2) = firstn n l1.
Proof. intros H. rewrite firstn_app. replace (n - length l1) with 0 by lia. simpl. apply app_nil_r. Qed.
Lemma firstn_firstn_le {A} (l : list A) n m : n <= m -> firstn n (firstn m l) = firstn n l.
Proof. intros H. rewrite firstn_firstn. replace (Nat.min n m) with n by lia. reflexivity. Qed.
Lemma firstn_app_both {A} (l1 l2 l3 : list A) n k :
  length l1 = n -> length l2 = k -> firstn (n + k) (l1 ++ l2 ++ l3) = l1 ++ l2.
Proof.
  intros H1 H2. rewrite app_assoc. apply firstn_app_exact. rewrite app_length. lia.
Qed.

Section Ops.
Variable STK : nat.

Notation SInv := (SInv STK).
Notation sobj_ok := (sobj_ok STK).

(* ---------- constructing sobj_ok ---------- *)
Lemma sobj_ok_local st o n d : length d = STK -> n <= STK -> sobj_ok st o (mkstrm (PLocal o) STK n d).
Proof.
  intros Hd Hn. unfold StreamInv.sobj_ok; simpl. repeat split; auto.
  intros Hc. exfalso. lia.
Qed.

Lemma sobj_ok_heap st o a n d b c :
  length d = STK -> STK < a -> n <= a -> blocks (shp st) b = Some c -> length c = a ->
  sobj_ok st o (mkstrm (PHeap b) a n d).
Proof.
  intros Hd Ha Hn Hb Hc. unfold StreamInv.sobj_ok; simpl. repeat split; auto; try lia.
  intros _. exists b, c. auto.
Qed.

Lemma sobj_ok_frame st st' o r :
  sobj_ok st o r ->
  (forall b c, s_chars r = PHeap b -> blocks (shp st) b = Some c -> blocks (shp st') b = Some c) ->
  sobj_ok st' o r.
Proof.
  intros (A & B & C & D & E) Hf. repeat split; auto.
  intros Hs. destruct (E Hs) as (b & c & P & Q & R). exists b, c. split; [exact P|split; [|exact R]].
  apply Hf; assumption.
Qed.

(* ---------- general preservation lemmas ---------- *)

(* (A) give slot o (dead, or holding an in-object stream) an in-object stream *)
Lemma sinv_set_local st o d n :
  SInv st ->
  (forall r, sobjs st o = Some r -> s_alloc r = STK) ->
  length d = STK -> n <= STK ->
  SInv (mksstate (upd (sobjs st) o (Some (mkstrm (PLocal o) STK n d))) (shp st)).
Proof.
  intros I Hold Hd Hn. constructor; simpl.
  - intros o' r H. simp_upd.
    + inj H. apply sobj_ok_local; assumption.
    + eapply sobj_ok_frame; [apply (sinv_wf _ _ I _ _ H)|]. simpl. auto.
  - intros o1 o2 r1 r2 b H1 H2 P1 P2. simp_upd; auto; open_some; try discriminate.
    eapply (sinv_uniq _ _ I); eauto.
  - intros b c Hb. destruct (sinv_noleak _ _ I _ _ Hb) as (o' & r' & Ho' & Hp).
    exists o', r'. split; auto. simp_upd; auto.
    exfalso. specialize (Hold _ Ho'). destruct (local_own _ _ _ _ I Ho' Hold) as (Q & _). congruence.
  - apply (sinv_next _ _ I).
  - apply (sinv_nofail _ _ I).
Qed.

(* (B) give slot o (dead or in-object) a block nobody references yet *)
Lemma sinv_set_heap st o d a n b c :
  SInv st ->
  (forall r, sobjs st o = Some r -> s_alloc r = STK) ->
  blocks (shp st) b = None -> (forall o' r', sobjs st o' = Some r' -> s_chars r' <> PHeap b) ->
  length d = STK -> STK < a -> n <= a -> length c = a ->
  SInv (mksstate (upd (sobjs st) o (Some (mkstrm (PHeap b) a n d)))
                 (mkheap (upd (blocks (shp st)) b (Some c)) (Nat.max (nextb (shp st)) (S b)) (fail_at (shp st)))).
Proof.
  intros I Hold Hb Hun Hd Ha Hn Hc. constructor; simpl.
  - intros o' r H. simp_upd.
    + inj H. eapply sobj_ok_heap; eauto. simpl. apply upd_same.
    + eapply sobj_ok_frame; [apply (sinv_wf _ _ I _ _ H)|]. simpl. intros b' c' P Q.
      rewrite upd_other; auto. intros ->. congruence.
  - intros o1 o2 r1 r2 b' H1 H2 P1 P2. simp_upd; auto; open_some.
    + injection P2 as <-. exfalso. eapply Hun; eauto.
    + injection P1 as <-. exfalso. eapply Hun; eauto.
    + eapply (sinv_uniq _ _ I); eauto.
  - intros b' c' Hb'. simp_upd.
    + exists o. eexists. rewrite upd_same. split; reflexivity.
    + destruct (sinv_noleak _ _ I _ _ Hb') as (o' & r' & Ho' & Hp).
      exists o', r'. split; auto. simp_upd; auto.
      exfalso. specialize (Hold _ Ho'). destruct (local_own _ _ _ _ I Ho' Hold) as (Q & _). congruence.
  - intros b' c' Hb'. simp_upd; [lia|]. pose proof (sinv_next _ _ I _ _ Hb'). lia.
  - apply (sinv_nofail _ _ I).
Qed.

(* (C) release the block of a heap stream o and leave it in-object *)
Lemma sinv_release st o r b d n :
  SInv st -> sobjs st o = Some r -> s_chars r = PHeap b ->
  length d = STK -> n <= STK ->
  SInv (mksstate (upd (sobjs st) o (Some (mkstrm (PLocal o) STK n d)))
                 (mkheap (upd (blocks (shp st)) b None) (nextb (shp st)) (fail_at (shp st)))).
Proof.
  intros I Ho Hp Hd Hn. constructor; simpl.
  - intros o' r' H. simp_upd.
    + inj H. apply sobj_ok_local; assumption.
    + eapply sobj_ok_frame; [apply (sinv_wf _ _ I _ _ H)|]. simpl. intros b' c' P Q.
      rewrite upd_other; auto. intros ->. apply n0. eapply (sinv_uniq _ _ I); eauto.
  - intros o1 o2 r1 r2 b' H1 H2 P1 P2. simp_upd; auto; open_some; try discriminate.
    eapply (sinv_uniq _ _ I); eauto.
  - intros b' c' Hb'. simp_upd; [discriminate|].
    destruct (sinv_noleak _ _ I _ _ Hb') as (o' & r' & Ho' & Hp').
    exists o', r'. split; auto. simp_upd; auto.
    exfalso. rewrite Ho in Ho'. injection Ho' as <-. congruence.
  - intros b' c' Hb'. simp_upd; [discriminate|]. apply (sinv_next _ _ I _ _ Hb').
  - apply (sinv_nofail _ _ I).
Qed.

(* (D) destroy a stream that owns no block *)
Lemma sinv_kill_local st o r :
  SInv st -> sobjs st o = Some r -> s_alloc r = STK ->
  SInv (mksstate (upd (sobjs st) o None) (shp st)).
Proof.
  intros I Ho Hs. constructor; simpl.
  - intros o' r' H. simp_upd; [discriminate|].
    eapply sobj_ok_frame; [apply (sinv_wf _ _ I _ _ H)|]. simpl. auto.
  - intros o1 o2 r1 r2 b' H1 H2 P1 P2. simp_upd; try discriminate; auto. eapply (sinv_uniq _ _ I); eauto.
  - intros b' c' Hb'. destruct (sinv_noleak _ _ I _ _ Hb') as (o' & r' & Ho' & Hp').
    exists o', r'. split; auto. simp_upd; auto.
    exfalso. rewrite Ho in Ho'. injection Ho' as <-.
    destruct (local_own _ _ _ _ I Ho Hs) as (Q & _). congruence.
  - apply (sinv_next _ _ I).
  - apply (sinv_nofail _ _ I).
Qed.

(* (E) update a heap stream in place: new cells of the same length, new size within the capacity *)
Lemma sinv_update_heap st o r b c' n' d' :
  SInv st -> sobjs st o = Some r -> s_chars r = PHeap b ->
  length c' = s_alloc r -> n' <= s_alloc r -> length d' = STK ->
  SInv (mksstate (upd (sobjs st) o (Some (mkstrm (PHeap b) (s_alloc r) n' d')))
                 (mkheap (upd (blocks (shp st)) b (Some c')) (nextb (shp st)) (fail_at (shp st)))).
Proof.
  intros I Ho Hp Hc Hn Hd.
  pose proof (heap_ptr_big _ _ _ _ _ I Ho Hp) as Hbig.
  destruct (heap_owned _ _ _ _ I Ho Hbig) as (b0 & c0 & Hp0 & Hb0 & _).
  rewrite Hp in Hp0. injection Hp0 as <-.
  constructor; simpl.
  - intros o' r' H. simp_upd.
    + inj H. eapply sobj_ok_heap; eauto. simpl. apply upd_same.
    + eapply sobj_ok_frame; [apply (sinv_wf _ _ I _ _ H)|]. simpl. intros b' c1 P Q.
      rewrite upd_other; auto. intros ->. apply n. eapply (sinv_uniq _ _ I); eauto.
  - intros o1 o2 r1 r2 b' H1 H2 P1 P2. simp_upd; auto; open_some.
    + injection P2 as <-. symmetry. eapply (sinv_uniq _ _ I); eauto.
    + injection P1 as <-. eapply (sinv_uniq _ _ I); eauto.
    + eapply (sinv_uniq _ _ I); eauto.
  - intros b' c1 Hb'. simp_upd.
    + exists o. eexists. rewrite upd_same. split; reflexivity.
    + destruct (sinv_noleak _ _ I _ _ Hb') as (o' & r' & Ho' & Hp').
      exists o', r'. split; auto. simp_upd; auto.
      exfalso. rewrite Ho in Ho'. injection Ho' as <-. congruence.
  - intros b' c1 Hb'. simp_upd.
    + apply (sinv_next _ _ I _ _ Hb0).
    + apply (sinv_next _ _ I _ _ Hb').
  - apply (sinv_nofail _ _ I).
Qed.

(* (E') change only the size of a stream *)
Lemma sinv_resize st o r n' :
  SInv st -> sobjs st o = Some r -> n' <= s_alloc r ->
  SInv (mksstate (upd (sobjs st) o (Some (mkstrm (s_chars r) (s_alloc r) n' (s_stack r)))) (shp st)).
Proof.
  intros I Ho Hn.
  destruct (sinv_wf _ _ I _ _ Ho) as (A & B & C & D & E).
  constructor; simpl.
  - intros o' r' H. simp_upd.
    + inj H. unfold StreamInv.sobj_ok; simpl. repeat split; auto.
    + apply (sinv_wf _ _ I _ _ H).
  - intros o1 o2 r1 r2 b' H1 H2 P1 P2. simp_upd; auto; open_some; eapply (sinv_uniq _ _ I); eauto.
  - intros b' c1 Hb'. destruct (sinv_noleak _ _ I _ _ Hb') as (o' & r' & Ho' & Hp').
    destruct (Nat.eq_dec o' o) as [->|N].
    + exists o. eexists. rewrite upd_same. split; [reflexivity|]. simpl. congruence.
    + exists o', r'. rewrite upd_other by exact N. auto.
  - apply (sinv_next _ _ I).
  - apply (sinv_nofail _ _ I).
Qed.

(* (F) hand the block of heap stream src to slot o (dead or in-object); src becomes an empty in-object stream *)
Lemma sinv_transfer st o src r b d d2 :
  SInv st -> sobjs st src = Some r -> s_chars r = PHeap b ->
  (forall r0, sobjs st o = Some r0 -> s_alloc r0 = STK) -> o <> src ->
  length d = STK -> length d2 = STK ->
  SInv (mksstate (upd (upd (sobjs st) o (Some (mkstrm (PHeap b) (s_alloc r) (s_size r) d))) src
                      (Some (mkstrm (PLocal src) STK 0 d2))) (shp st)).
Proof.
  intros I Hs Hp Hold Hne Hd Hd2.
  pose proof (heap_ptr_big _ _ _ _ _ I Hs Hp) as Hbig.
  destruct (heap_owned _ _ _ _ I Hs Hbig) as (b0 & cc & Hp0 & Hb & Hcl & Hsz).
  rewrite Hp in Hp0. injection Hp0 as <-.
  assert (Holdp : forall r0 b', sobjs st o = Some r0 -> s_chars r0 <> PHeap b').
  { intros r0 b' H0 Q. destruct (local_own _ _ _ _ I H0 (Hold _ H0)) as (Q' & _). congruence. }
  constructor; simpl.
  - intros o' r' H. unfold upd in H.
    destruct (Nat.eqb_spec o' src) as [->|N1].
    + inj H. apply sobj_ok_local; auto. lia.
    + destruct (Nat.eqb_spec o' o) as [->|N2].
      * inj H. eapply sobj_ok_heap; eauto.
      * eapply sobj_ok_frame; [apply (sinv_wf _ _ I _ _ H)|]. auto.
  - intros o1 o2 r1 r2 b' H1 H2 P1 P2. unfold upd in H1, H2.
    destruct (Nat.eqb_spec o1 src) as [->|A1]; [inj H1; simpl in P1; discriminate|].
    destruct (Nat.eqb_spec o2 src) as [->|A2]; [inj H2; simpl in P2; discriminate|].
    destruct (Nat.eqb_spec o1 o) as [->|B1]; destruct (Nat.eqb_spec o2 o) as [->|B2]; auto.
    + inj H1. simpl in P1. injection P1 as <-. exfalso. apply A2. eapply (sinv_uniq _ _ I); eauto.
    + inj H2. simpl in P2. injection P2 as <-. exfalso. apply A1. eapply (sinv_uniq _ _ I); eauto.
    + eapply (sinv_uniq _ _ I); eauto.
  - intros b' c' Hb'. destruct (sinv_noleak _ _ I _ _ Hb') as (o' & r' & Ho' & Hp').
    destruct (Nat.eq_dec o' src) as [->|N1].
    + rewrite Hs in Ho'. injection Ho' as <-. rewrite Hp in Hp'. injection Hp' as <-.
      exists o. eexists. rewrite upd_other by exact Hne. rewrite upd_same. split; reflexivity.
    + exists o', r'. rewrite upd_other by exact N1. rewrite upd_other; [auto|].
      intros ->. eapply Holdp; eauto.
  - apply (sinv_next _ _ I).
  - apply (sinv_nofail _ _ I).
Qed.

(* ---------- extensionality ---------- *)
Lemma SInv_ext st st' :
  (forall o, sobjs st' o = sobjs st o) -> (forall b, blocks (shp st') b = blocks (shp st) b) ->
  nextb (shp st') = nextb (shp st) -> fail_at (shp st') = fail_at (shp st) -> SInv st -> SInv st'.
Proof.
  intros Ho Hb Hn Hf I. constructor.
  - intros o r H. rewrite Ho in H. eapply sobj_ok_frame; [apply (sinv_wf _ _ I _ _ H)|].
    intros b c _ Q. rewrite Hb. exact Q.
  - intros o1 o2 r1 r2 b H1 H2. rewrite Ho in H1, H2. eapply (sinv_uniq _ _ I); eauto.
  - intros b c H. rewrite Hb in H. destruct (sinv_noleak _ _ I _ _ H) as (o & r & A & B).
    exists o, r. rewrite Ho. auto.
  - intros b c H. rewrite Hb in H. rewrite Hn. apply (sinv_next _ _ I _ _ H).
  - rewrite Hf. apply (sinv_nofail _ _ I).
Qed.

Lemma scontents_frame st st' r :
  (forall b, s_chars r = PHeap b -> blocks (shp st') b = blocks (shp st) b) ->
  scontents st' r = scontents st r.
Proof.
  intros H. unfold scontents. destruct (s_chars r) as [o|b|]; auto. rewrite (H b eq_refl). reflexivity.
Qed.

(* SRel after changing (at most) slot o *)
Lemma srel_update st st' s o v :
  SRel st s ->
  (forall o', o' <> o -> sobjs st' o' = sobjs st o') ->
  (forall o' r, o' <> o -> sobjs st o' = Some r -> scontents st' r = scontents st r) ->
  match sobjs st' o, v with
  | Some r, Some l => scontents st' r = l
  | None, None => True
  | _, _ => False
  end ->
  SRel st' (upd s o v).
Proof.
  intros R Ho Hc Hv o'. unfold upd. destruct (Nat.eqb_spec o' o) as [->|Hne]; [exact Hv|].
  rewrite (Ho _ Hne). specialize (R o'). destruct (sobjs st o') as [r|] eqn:E; auto.
  destruct (s o') as [l|]; auto. rewrite (Hc _ _ Hne E). exact R.
Qed.

Lemma SRel_ext st s s' : (forall o, s' o = s o) -> SRel st s -> SRel st s'.
Proof. intros E R o. rewrite E. apply R. Qed.

(* SRel when slot o keeps its spec value *)
Lemma srel_keep st st' s o :
  SRel st s ->
  (forall o', o' <> o -> sobjs st' o' = sobjs st o') ->
  (forall o' r, o' <> o -> sobjs st o' = Some r -> scontents st' r = scontents st r) ->
  match sobjs st' o, s o with
  | Some r, Some l => scontents st' r = l
  | None, None => True
  | _, _ => False
  end ->
  SRel st' s.
Proof.
  intros R Ho Hc Hv. eapply SRel_ext; [|apply (srel_update st st' s o (s o) R Ho Hc Hv)].
  intros x. unfold upd. destruct (Nat.eqb_spec x o) as [->|]; reflexivity.
Qed.

Lemma srel_live st s o : SRel st s -> (sobjs st o = None <-> s o = None).
Proof.
  intros R. specialize (R o). destruct (sobjs st o), (s o); split; intros; try discriminate; auto; contradiction.
Qed.

Lemma srel_val st s o r l : SRel st s -> sobjs st o = Some r -> s o = Some l -> scontents st r = l.
Proof. intros R Ho Hs. specialize (R o). rewrite Ho, Hs in R. exact R. Qed.

(* other streams never point to o's block *)
Lemma sother_block st o r b o' r' b' :
  SInv st -> sobjs st o = Some r -> s_chars r = PHeap b -> o' <> o -> sobjs st o' = Some r' ->
  s_chars r' = PHeap b' -> b' <> b.
Proof. intros I Ho Hp Hne Ho' Hp' ->. apply Hne. eapply (sinv_uniq _ _ I); eauto. Qed.

End Ops.
