(* Mem/FaultsAny.v — C19 for EVERY allocation of an operation, not only its first one.
   Faults.v treats the armed state (the very next allocation throws).  Here the fault is scheduled at the k-th
   allocation from now, for any k, and the operation is any well-formed history of buffer operations (in particular the
   body of any string macro, with any number of temporaries):
     - delta_bop: an operation performs exactly one allocation if `allocates` says so and none otherwise;
     - FailCount.Sim: the schedule is transparent to the allocations before the k-th one;
     - hence (fault_history) a history either completes exactly as without a schedule (k at least the number of its
       allocations) or stops with std::bad_alloc at the operation performing allocation number k, in the state
       Faults.fault_step describes: invariant kept, the failed operation's target previous-or-empty, everything else
       untouched.                                                                                                   *)
From Coq Require Import NArith List Bool Lia Arith.
From ST Require Import Base.Outcome Base.Units Mem.Heap Mem.Buffer Mem.BufferRun Mem.BufferInv Mem.BufferOps
  Mem.BufferSteps Mem.BufferHistory Mem.StringOps Mem.StringProofs Mem.Faults Mem.FailCount.
Import ListNotations.
Local Open Scope nat_scope.
Local Open Scope mem_scope.

(* ---- the number of allocations of a computation: growth of nextb ---- *)
Definition Dl {A} (d : nat) (m : MB A) : Prop := forall st a st', m st = (Ok a, st') -> nb st' = nb st + d.

Lemma dl_conv {A} d d' (m : MB A) : Dl d m -> d = d' -> Dl d' m.
Proof. intros H <-. exact H. Qed.
Lemma dl_ret {A} (a : A) : Dl 0 (ret a : MB A).
Proof. intros st b st' E. unfold ret in E. injection E as <- <-. lia. Qed.
Lemma dl_mfault {A} d f : Dl d (mfault f : MB A). Proof. intros st a st' E. discriminate. Qed.
Lemma dl_mabort {A} d w : Dl d (mabort w : MB A). Proof. intros st a st' E. discriminate. Qed.
Lemma dl_bind {A B} d1 d2 (m : MB A) (f : A -> MB B) : Dl d1 m -> (forall a, Dl d2 (f a)) -> Dl (d1 + d2) (mbind m f).
Proof.
  intros Hm Hf st b st2 E. unfold mbind in E. destruct (m st) as [[a|e|w|ft] st1] eqn:E1; try discriminate.
  rewrite (Hf a st1 b st2 E), (Hm st a st1 E1). lia.
Qed.

Section D.
Variable L : nat.
Hypothesis Lpos : 1 <= L.

Lemma dl_get_obj o : Dl 0 (get_obj o).
Proof. intros st a st' E. unfold get_obj in E. destruct (objs st o); [|discriminate]. injection E as <- <-. lia. Qed.
Lemma dl_set_obj o r : Dl 0 (set_obj o r).
Proof. intros st a st' E. unfold set_obj in E. injection E as <- <-. unfold nb. cbn. lia. Qed.
Lemma dl_kill_obj o : Dl 0 (kill_obj o).
Proof. intros st a st' E. unfold kill_obj in E. injection E as <- <-. unfold nb. cbn. lia. Qed.
Lemma dl_new_arr n : Dl 1 (new_arr n).
Proof.
  intros st a st' E. unfold new_arr, heap_new in E. unfold nb.
  destruct (fail_at (hp st)) as [[|k]|]; try discriminate; injection E as <- <-; cbn; lia.
Qed.
Lemma dl_delete_arr p : Dl 0 (delete_arr p).
Proof.
  intros st a st' E. unfold delete_arr, heap_delete in E. unfold nb. destruct p as [x|b|]; try discriminate.
  - destruct (blocks (hp st) b); [|destruct (Nat.ltb b (nextb (hp st))); discriminate]. injection E as <- <-. cbn. lia.
  - injection E as <- <-. cbn. lia.
Qed.
Lemma dl_arr p : Dl 0 (arr p).
Proof.
  intros st a st' E. unfold arr, heap_block in E. destruct p as [x|b|]; try discriminate.
  - destruct (objs st x); [|discriminate]. injection E as <- <-. lia.
  - destruct (blocks (hp st) b); [|destruct (Nat.ltb b (nextb (hp st))); discriminate]. injection E as <- <-. lia.
Qed.
Lemma dl_set_arr p c : Dl 0 (set_arr p c).
Proof.
  intros st a st' E. unfold set_arr, heap_block, heap_set_block in E. unfold nb. destruct p as [x|b|]; try discriminate.
  - destruct (objs st x); [|discriminate]. injection E as <- <-. cbn. lia.
  - destruct (blocks (hp st) b); [|destruct (Nat.ltb b (nextb (hp st))); discriminate]. injection E as <- <-. cbn. lia.
Qed.

Ltac dl :=
  repeat first
    [ apply dl_ret | apply dl_mfault | apply dl_mabort
    | apply dl_get_obj | apply dl_set_obj | apply dl_kill_obj | apply dl_new_arr | apply dl_delete_arr
    | apply dl_arr | apply dl_set_arr
    | eapply dl_bind; [|intros ?]
    | match goal with
      | |- Dl _ (if ?c then _ else _) => destruct c
      | |- Dl _ (match ?x with _ => _ end) => destruct x
      end ].
Ltac dl0 := eapply dl_conv; [dl|reflexivity].

Lemma dl_poke p i v : Dl 0 (poke p i v). Proof. unfold poke. dl0. Qed.
Lemma dl_poke_range p src n : Dl 0 (poke_range p src n). Proof. unfold poke_range. dl0. Qed.
Lemma dl_fill_range p n c : Dl 0 (fill_range p n c). Proof. unfold fill_range. dl0. Qed.
Lemma dl_peek_range p n : Dl 0 (peek_range p n). Proof. unfold peek_range. dl0. Qed.

Ltac dl2 :=
  repeat first
    [ apply dl_poke | apply dl_poke_range | apply dl_fill_range | apply dl_peek_range
    | apply dl_ret | apply dl_mfault | apply dl_mabort
    | apply dl_get_obj | apply dl_set_obj | apply dl_kill_obj | apply dl_new_arr | apply dl_delete_arr
    | apply dl_arr | apply dl_set_arr
    | eapply dl_bind; [|intros ?]
    | match goal with
      | |- Dl _ (if ?c then _ else _) => destruct c
      | |- Dl _ (match ?x with _ => _ end) => destruct x
      end ].
Ltac dlc := eapply dl_conv; [dl2|reflexivity].

Definition b2n (b : bool) : nat := if b then 1 else 0.

Lemma dl_ctor_default o : Dl 0 (ctor_default L o). Proof. unfold ctor_default. dlc. Qed.
Lemma dl_copy_body o c cur : Dl (b2n (is_reffed L c)) (copy_body L o c cur).
Proof. unfold copy_body. destruct (is_reffed L c); cbn [b2n]; dlc. Qed.
Lemma dl_ctor_move o s : Dl 0 (ctor_move L o s). Proof. unfold ctor_move. cbv zeta. dlc. Qed.
Lemma dl_ctor_ptr o d n : Dl (b2n (Nat.leb L n)) (ctor_ptr L o d n).
Proof.
  unfold ctor_ptr.
  destruct (match d with None => negb (Nat.eqb n 0) | Some _ => false end); [apply dl_mabort|].
  destruct (Nat.leb L n); cbn [b2n]; destruct d; dlc.
Qed.
Lemma dl_ctor_fill o n c : Dl (b2n (Nat.leb L n)) (ctor_fill L o n c).
Proof. unfold ctor_fill. destruct (Nat.leb L n); cbn [b2n]; dlc. Qed.
Lemma dl_dtor o : Dl 0 (dtor L o). Proof. unfold dtor. dlc. Qed.
Lemma dl_clear o : Dl 0 (clear L o). Proof. unfold clear. dlc. Qed.
Lemma dl_assign_move o s : Dl 0 (assign_move L o s). Proof. unfold assign_move. cbv zeta. destruct (Nat.eqb o s); dlc. Qed.
Lemma dl_allocate o n : Dl (b2n (Nat.leb L n)) (allocate L o n).
Proof. unfold allocate. destruct (Nat.leb L n); cbn [b2n]; dlc. Qed.
Lemma dl_user_write o i v : Dl 0 (user_write o i v). Proof. unfold user_write. dlc. Qed.

(* clear changes no other object's record *)
Lemma clear_objs_other o st st1 : clear L o st = (Ok tt, st1) -> forall x, x <> o -> objs st1 x = objs st x.
Proof.
  unfold clear, mbind, get_obj. destruct (objs st o) as [r|]; [|discriminate].
  destruct (is_reffed L r).
  - unfold delete_arr. destruct (heap_delete (hp st) (m_chars r)) as [[u|e|w|ft] h']; try discriminate.
    unfold set_obj. intros E x N. injection E as <-. cbn. apply upd_other. exact N.
  - unfold ret, set_obj. intros E x N. injection E as <-. cbn. apply upd_other. exact N.
Qed.

(* ---- one operation: exactly one allocation if `allocates`, none otherwise ---- *)
Theorem delta_bop op st st1 :
  run_bop L op st = (Ok tt, st1) -> nb st1 = nb st + b2n (allocates L st op).
Proof.
  destruct op as [o|o d|o n|o n c|o src|o src|o src|o src|o n c|o n c|o i v|o|o]; cbn [run_bop allocates]; intros E.
  - rewrite (dl_ctor_default o st tt st1 E). cbn. lia.
  - exact (dl_ctor_ptr o (Some d) (length d) st tt st1 E).
  - rewrite (dl_ctor_ptr o None n st tt st1 E).
    (* a null pointer with a non-zero length aborts; with length 0 nothing is allocated since L >= 1 *)
    unfold ctor_ptr in E. destruct (negb (Nat.eqb n 0)) eqn:Hn; [discriminate|].
    apply negb_false_iff, Nat.eqb_eq in Hn. subst n.
    replace (Nat.leb L 0) with false by (symmetry; apply Nat.leb_gt; lia). reflexivity.
  - exact (dl_ctor_fill o n c st tt st1 E).
  - unfold ctor_copy, mbind, get_obj in E. destruct (objs st src) as [cc|]; [|discriminate].
    exact (dl_copy_body o cc _ st tt st1 E).
  - rewrite (dl_ctor_move o src st tt st1 E). cbn. lia.
  - unfold assign_copy in E. destruct (Nat.eqb_spec o src) as [->|Hne]; cbn [negb andb].
    + unfold mbind, get_obj, ret in E. destruct (objs st src); [|discriminate]. injection E as <-. cbn. lia.
    + unfold mbind at 1 in E. unfold get_obj at 1 in E. destruct (objs st o) as [r|] eqn:Ho; [|discriminate].
      unfold mbind at 1 in E.
      match type of E with (let (_, _) := ?t in _) = _ => destruct t as [[u|e|w|ft] st2] eqn:E2 end; try discriminate.
      assert (N2 : nb st2 = nb st /\ objs st2 src = objs st src).
      { destruct (is_reffed L r).
        - split; [rewrite (dl_clear o st u st2 E2); lia|].
          destruct u. apply (clear_objs_other o st st2 E2). intros ->. apply Hne. reflexivity.
        - unfold ret in E2. injection E2 as _ <-. auto. }
      destruct N2 as (N2 & O2).
      unfold mbind at 1 in E. unfold get_obj at 1 in E. rewrite O2 in E.
      destruct (objs st src) as [cc|]; [|discriminate].
      unfold mbind at 1 in E. unfold get_obj at 1 in E. destruct (objs st2 o) as [cur|]; [|discriminate].
      rewrite (dl_copy_body o cc cur st2 tt st1 E), N2. reflexivity.
  - rewrite (dl_assign_move o src st tt st1 E). cbn. lia.
  - unfold mbind at 1 in E. destruct (allocate L o n st) as [[u|e|w|ft] st2] eqn:E2; try discriminate.
    assert (D2 : Dl 0 (r <-- get_obj o ;; fill_range (m_chars r) n c)) by dlc.
    rewrite (D2 st2 tt st1 E), (dl_allocate o n st u st2 E2). lia.
  - unfold allocate_fill in E. unfold mbind at 1 in E. destruct (allocate L o n st) as [[u|e|w|ft] st2] eqn:E2; try discriminate.
    assert (D2 : Dl 0 (r <-- get_obj o ;; fill_range (m_chars r) n c)) by dlc.
    rewrite (D2 st2 tt st1 E), (dl_allocate o n st u st2 E2). lia.
  - rewrite (dl_user_write o i v st tt st1 E). cbn. lia.
  - rewrite (dl_clear o st tt st1 E). cbn. lia.
  - rewrite (dl_dtor o st tt st1 E). cbn. lia.
Qed.

End D.

(* ---- a whole history under a fault scheduled at allocation number k ---- *)
Section FH.
Variable L : nat.
Hypothesis Lpos : 1 <= L.
Notation Inv := (Inv L).

Lemma nofail_inv st : Inv st -> nofail st.
Proof. intros I. exact (inv_nofail _ _ I). Qed.

Lemma arm_is_with_fail st : arm st = with_fail st (Some 0).
Proof. reflexivity. Qed.

(* the operation performing allocation number k, the state before it, and the state in which it fails *)
Definition fails_at (ops : list bop) (st : store) (s : sstore) (k : nat) (st'' : store) : Prop :=
  exists pre op post stp,
    ops = pre ++ op :: post /\
    run_ops L pre st = (Ok tt, stp) /\ Inv stp /\ Rel stp (fold_left spec_bop pre s) /\
    wf_bop stp op /\ allocates L stp op = true /\
    run_bop L op (arm stp) = (Throw BadAlloc, st'').

Theorem fault_history ops : forall st s k,
  Inv st -> Rel st s -> wf_history s ops ->
  exists stf, run_ops L ops st = (Ok tt, stf) /\ Inv stf /\ Rel stf (fold_left spec_bop ops s) /\
    nb st <= nb stf /\
    (nb stf - nb st <= k ->
       run_ops L ops (with_fail st (Some k)) = (Ok tt, with_fail stf (Some (k - (nb stf - nb st))))) /\
    (k < nb stf - nb st ->
       exists st'', run_ops L ops (with_fail st (Some k)) = (Throw BadAlloc, st'') /\ fails_at ops st s k st'').
Proof.
  induction ops as [|op rest IH]; intros st s k I R W.
  - exists st. cbn. split; [reflexivity|]. split; [exact I|]. split; [exact R|]. split; [lia|].
    split; [intros _; rewrite Nat.sub_diag, Nat.sub_0_r; reflexivity|intros H; lia].
  - destruct W as (W1 & W2).
    pose proof (wf_transfer st s op R W1) as Wb.
    destruct (step_ok L Lpos st s op I R Wb) as (st1 & E1 & I1 & R1 & F1).
    pose proof (delta_bop L Lpos op st st1 E1) as D1.
    destruct (sim_bop L op st tt st1 (nofail_inv st I) E1) as (NF1 & Le1 & K1).
    destruct (allocates L st op) eqn:A; cbn [b2n] in D1.
    + (* the operation allocates once *)
      destruct k as [|k'].
      * (* and that allocation is the one that fails *)
        destruct (IH st1 _ 0 I1 R1 W2) as (stf & Ef & If & Rf & Lef & _ & _).
        exists stf. cbn [run_ops fold_left]. rewrite E1. split; [exact Ef|]. split; [exact If|]. split; [exact Rf|].
        split; [lia|]. split; [intros H; lia|]. intros _.
        destruct (fault_step L Lpos st s op I R Wb A) as (st'' & Ea & _).
        exists st''. split.
        -- change (with_fail st (Some 0)) with (arm st). rewrite Ea. reflexivity.
        -- exists [], op, rest, st. cbn [app run_ops fold_left].
           split; [reflexivity|]. split; [reflexivity|]. split; [exact I|]. split; [exact R|]. split; [exact Wb|]. split; [exact A|exact Ea].
      * destruct (IH st1 _ k' I1 R1 W2) as (stf & Ef & If & Rf & Lef & Kf & Ff).
        exists stf. cbn [run_ops fold_left]. rewrite E1. split; [exact Ef|]. split; [exact If|]. split; [exact Rf|].
        split; [lia|].
        assert (Ek : run_bop L op (with_fail st (Some (S k'))) = (Ok tt, with_fail st1 (Some k'))).
        { rewrite K1 by lia. f_equal. f_equal. f_equal. lia. }
        rewrite Ek. split.
        -- intros H. rewrite Kf by lia. f_equal. f_equal. f_equal. lia.
        -- intros H. destruct Ff as (st'' & E'' & pre & op' & post & stp & Hops & Hpre & Ip & Rp & Wp & Ap & Hf); [lia|].
           exists st''. split; [exact E''|].
           exists (op :: pre), op', post, stp. cbn [app run_ops fold_left]. rewrite E1, Hops.
           split; [reflexivity|]. split; [exact Hpre|]. split; [exact Ip|]. split; [exact Rp|]. split; [exact Wp|]. split; [exact Ap|exact Hf].
    + (* the operation does not allocate *)
      destruct (IH st1 _ k I1 R1 W2) as (stf & Ef & If & Rf & Lef & Kf & Ff).
      exists stf. cbn [run_ops fold_left]. rewrite E1. split; [exact Ef|]. split; [exact If|]. split; [exact Rf|].
      split; [lia|].
      assert (Ek : run_bop L op (with_fail st (Some k)) = (Ok tt, with_fail st1 (Some k))).
      { rewrite K1 by lia. f_equal. f_equal. f_equal. lia. }
      rewrite Ek. split.
      * intros H. rewrite Kf by lia. f_equal. f_equal. f_equal. lia.
      * intros H. destruct Ff as (st'' & E'' & pre & op' & post & stp & Hops & Hpre & Ip & Rp & Wp & Ap & Hf); [lia|].
        exists st''. split; [exact E''|].
        exists (op :: pre), op', post, stp. cbn [app run_ops fold_left]. rewrite E1, Hops.
           split; [reflexivity|]. split; [exact Hpre|]. split; [exact Ip|]. split; [exact Rp|]. split; [exact Wp|]. split; [exact Ap|exact Hf].
Qed.

End FH.

(* ---- a string operation (any macro that does not throw by itself) under a fault at allocation number k ---- *)
Section FT.
Variable L : nat.
Hypothesis Lpos : 1 <= L.
Notation Inv := (Inv L).

Lemma fault_spec_other st s op x : ~ In x (targets op) -> fault_spec L st s op x = s x.
Proof.
  intros N. destruct op; cbn [fault_spec]; try reflexivity.
  destruct (objs st o) as [r|]; [|reflexivity]. destruct (Nat.leb L (m_size r)); [|reflexivity].
  apply upd_other. intros ->. apply N. cbn. auto.
Qed.

(* destroying the result object a failed operation left half-built *)
Lemma destroy_if_live_frame : forall l st, Inv st ->
  exists st', destroy_if_live L l st = (Ok tt, st') /\ Inv st' /\
    (forall o, In o l -> objs st' o = None) /\
    (forall o, ~ In o l -> objs st' o = objs st o) /\
    (forall o r, ~ In o l -> objs st o = Some r -> contents st' r = contents st r).
Proof.
  induction l as [|a l IH]; intros st I.
  - exists st. cbn. split; [reflexivity|]. split; [exact I|]. split; [intros o []|]. split; auto.
  - cbn [destroy_if_live]. destruct (objs st a) as [ra|] eqn:Ha.
    + assert (Hl : objs st a <> None) by congruence.
      destruct (dtor_ok L Lpos st (sstore_of st) a I (rel_sstore_of st) Hl) as (st1 & E1 & I1 & R1 & F1).
      rewrite E1. destruct (IH st1 I1) as (st2 & E2 & I2 & D2 & F2 & C2).
      exists st2. split; [exact E2|]. split; [exact I2|].
      assert (K1 : objs st1 a = None).
      { specialize (R1 a). cbn [spec_bop] in R1. unfold sset in R1. rewrite upd_same in R1.
        destruct (objs st1 a); [contradiction|reflexivity]. }
      split; [|split].
      * intros o [<-|Hin]; [|apply D2; exact Hin].
        destruct (in_dec Nat.eq_dec a l) as [Hi|Hn]; [apply D2; exact Hi|rewrite F2 by exact Hn; exact K1].
      * intros o Hn. rewrite F2 by (intros Hi; apply Hn; right; exact Hi).
        apply F1. intros [E|[]]. apply Hn. left. exact E.
      * intros o r Hn Ho.
        assert (No : ~ In o (targets (BDel a))) by (cbn; intros [E|[]]; apply Hn; left; exact E).
        destruct (step_independent L Lpos st (BDel a) o r I Hl No Ho) as (st1' & E1' & _ & Ho1 & C1).
        cbn [run_bop] in E1'. rewrite E1 in E1'. injection E1' as <-.
        rewrite (C2 o r (fun Hi => Hn (or_intror Hi)) Ho1). exact C1.
    + destruct (IH st I) as (st2 & E2 & I2 & D2 & F2 & C2).
      exists st2. split; [exact E2|]. split; [exact I2|]. split; [|split].
      * intros o [<-|Hin]; [|apply D2; exact Hin].
        destruct (in_dec Nat.eq_dec a l) as [Hi|Hn]; [apply D2; exact Hi|rewrite F2 by exact Hn; exact Ha].
      * intros o Hn. apply F2. intros Hi. apply Hn. right. exact Hi.
      * intros o r Hn Ho. apply (C2 o r); [intros Hi; apply Hn; right; exact Hi|exact Ho].
Qed.

Lemma under_construction_touched t x : In x (under_construction t) -> In x (touched t).
Proof. destruct t; cbn; tauto. Qed.

Theorem fault_top_any st s t k :
  Inv st -> Rel st s -> top_wf s t -> snd (expand t) = None ->
  exists stf, run_top L t st = (Ok tt, stf) /\ Inv stf /\ Rel stf (spec_top s t) /\ nb st <= nb stf /\
    (nb stf - nb st <= k ->
       run_top L t (with_fail st (Some k)) = (Ok tt, with_fail stf (Some (k - (nb stf - nb st))))) /\
    (k < nb stf - nb st ->
       exists st', run_top L t (with_fail st (Some k)) = (Throw BadAlloc, st') /\ Inv st' /\
         (forall x r, user_slot x -> ~ In x (touched t) -> objs st x = Some r ->
                      objs st' x = Some r /\ contents st' r = contents st r) /\
         (forall j, j < scratch_slots -> objs st' (scratch_base + j) = None) /\
         (forall x, In x (under_construction t) -> objs st' x = None)).
Proof.
  intros I R W NT. pose proof (expand_wf L Lpos s t W NT) as WH.
  unfold run_top, spec_top. destruct (expand t) as (body, thr) eqn:E. cbn [fst snd] in NT, WH. subst thr.
  rewrite !(run_body_eq L).
  destruct (fault_history L Lpos body st s k I R WH) as (stf & Ef & If & Rf & Lef & Kf & Ff).
  exists stf. rewrite Ef. split; [reflexivity|]. split; [exact If|]. split; [exact Rf|]. split; [exact Lef|]. split.
  - intros Hk. rewrite (run_body_eq L body (with_fail st (Some k))), (Kf Hk). reflexivity.
  - intros Hk. rewrite (run_body_eq L body (with_fail st (Some k))). destruct (Ff Hk) as (st'' & E'' & pre & op & post & stp & Hb & Hpre & Ip & Rp & Wp & Ap & Hf).
    rewrite E''.
    (* the state in which the allocation failed *)
    destruct (fault_step L Lpos stp (sstore_of stp) op Ip (rel_sstore_of stp) Wp Ap) as (st0 & E0 & I0 & R0 & F0).
    rewrite Hf in E0. injection E0 as <-.
    (* stack unwinding *)
    unfold unwind. destruct (destroy_all_frame L Lpos scratch_slots scratch_base st'' I0) as (st2 & E2 & I2 & D2 & F2 & C2).
    rewrite E2.
    destruct (destroy_if_live_frame (under_construction t) st2 I2) as (st3 & E3 & I3 & D3 & F3 & C3).
    rewrite E3. exists st3. split; [reflexivity|]. split; [exact I3|]. split; [|split].
    + (* everything the operation does not name *)
      intros x r Ux Nt Hx.
      assert (U : untouched x body).
      { pose proof (untouched_expand L Lpos x t Ux Nt) as U. rewrite E in U. exact U. }
      assert (Upre : untouched x pre) by (intros o Hin; apply U; rewrite Hb; apply in_or_app; left; exact Hin).
      assert (Nop : ~ In x (targets op)) by (apply U; rewrite Hb; apply in_or_app; right; left; reflexivity).
      assert (WHpre : wf_history s pre) by (rewrite Hb in WH; apply wf_history_app in WH; tauto).
      destruct (history_independent L Lpos pre st s x r I R WHpre Upre Hx) as (stp' & Ep' & _ & _ & Hxp & Cp).
      rewrite Hpre in Ep'. injection Ep' as <-.
      assert (Hx0 : objs st'' x = Some r) by (rewrite (F0 x Nop); exact Hxp).
      assert (C0 : contents st'' r = contents stp r).
      { specialize (R0 x). rewrite Hx0, (fault_spec_other stp (sstore_of stp) op x Nop) in R0.
        unfold sstore_of in R0. rewrite Hxp in R0. exact R0. }
      assert (Ns : ~ (scratch_base <= x < scratch_base + scratch_slots)) by (unfold user_slot in Ux; lia).
      assert (Hx2 : objs st2 x = Some r) by (rewrite (F2 x Ns); exact Hx0).
      assert (Nu : ~ In x (under_construction t)) by (intros Hi; apply Nt; apply under_construction_touched; exact Hi).
      split; [rewrite (F3 x Nu); exact Hx2|].
      rewrite (C3 x r Nu Hx2), (C2 x r Ns Hx0), C0. exact Cp.
    + intros j Hj. destruct (in_dec Nat.eq_dec (scratch_base + j) (under_construction t)) as [Hi|Hn].
      * apply D3. exact Hi.
      * rewrite (F3 _ Hn). apply D2. lia.
    + exact D3.
Qed.

End FT.

(* ---- an operation that throws by itself (C18's shape), under a fault at allocation number k: if one of its
   temporaries cannot be allocated, std::bad_alloc is what reaches the caller — with the same guarantees ---- *)
Section FTT.
Variable L : nat.
Hypothesis Lpos : 1 <= L.
Notation Inv := (Inv L).

Theorem fault_top_throwing st s temps e k :
  Inv st -> Rel st s -> top_wf s (TThrowing temps e) ->
  exists stf, run_top L (TThrowing temps e) st = (Throw e, stf) /\ Inv stf /\ Rel stf s /\ nb st <= nb stf /\
    (nb stf - nb st <= k ->
       run_top L (TThrowing temps e) (with_fail st (Some k)) = (Throw e, with_fail stf (Some (k - (nb stf - nb st))))) /\
    (k < nb stf - nb st ->
       exists st', run_top L (TThrowing temps e) (with_fail st (Some k)) = (Throw BadAlloc, st') /\ Inv st' /\
         (forall x r, user_slot x -> objs st x = Some r -> objs st' x = Some r /\ contents st' r = contents st r) /\
         (forall j, j < scratch_slots -> objs st' (scratch_base + j) = None)).
Proof.
  intros I R W.
  destruct (top_throw_ok L Lpos st s temps e I R W) as (stf & Et & If & Rf & _).
  exists stf. split; [exact Et|]. split; [exact If|]. split; [exact Rf|].
  destruct W as (SD & Wl). cbn in Wl.
  assert (WH : wf_history s (build_temps 0 temps)).
  { apply (wf_build_temps L Lpos). intros j Hj. apply SD. lia. }
  unfold run_top in *. cbn [expand] in *. rewrite (run_body_eq L) in Et.
  destruct (fault_history L Lpos (build_temps 0 temps) st s k I R WH) as (st1 & E1 & I1 & R1 & Le1 & K1 & F1).
  rewrite E1 in Et. unfold unwind in *.
  destruct (destroy_all_frame L Lpos scratch_slots scratch_base st1 I1) as (st2 & E2 & I2 & D2 & F2 & C2).
  rewrite E2 in Et. injection Et as <-.
  destruct (sim_destroy_all L scratch_slots scratch_base st1 tt st2 (nofail_inv L st1 I1) E2) as (NF2 & Le2 & K2).
  split; [lia|]. split.
  - intros Hk. rewrite (run_body_eq L), K1 by lia. rewrite K2 by lia. f_equal. f_equal. f_equal. lia.
  - intros Hk.
    assert (Hk1 : k < nb st1 - nb st).
    { (* destroying objects allocates nothing *)
      assert (Dz : nb st2 = nb st1).
      { clear -E2 Lpos. revert E2. generalize scratch_base. generalize st1. induction scratch_slots as [|p IH]; intros sa ka E.
        - cbn in E. injection E as <-. reflexivity.
        - cbn [destroy_all] in E. destruct (objs sa ka).
          + unfold mbind in E. destruct (dtor L ka sa) as [[u|x|w|ft] sb] eqn:Ed; try discriminate.
            rewrite (IH sb (S ka) E). pose proof (dl_dtor L Lpos ka sa u sb Ed). lia.
          + exact (IH sa (S ka) E). }
      lia. }
    destruct (F1 Hk1) as (st'' & E'' & pre & op & post & stp & Hb & Hpre & Ip & Rp & Wp & Ap & Hf).
    rewrite (run_body_eq L), E''.
    destruct (fault_step L Lpos stp (sstore_of stp) op Ip (rel_sstore_of stp) Wp Ap) as (st0 & E0 & I0 & R0 & F0).
    rewrite Hf in E0. injection E0 as <-.
    destruct (destroy_all_frame L Lpos scratch_slots scratch_base st'' I0) as (st3 & E3 & I3 & D3 & F3 & C3).
    rewrite E3. cbn [under_construction destroy_if_live].
    exists st3. split; [reflexivity|]. split; [exact I3|]. split.
    + intros x r Ux Hx.
      assert (U : untouched x (build_temps 0 temps)) by (apply (untouched_build_temps L Lpos); exact Ux).
      assert (Upre : untouched x pre) by (intros o Hin; apply U; rewrite Hb; apply in_or_app; left; exact Hin).
      assert (Nop : ~ In x (targets op)) by (apply U; rewrite Hb; apply in_or_app; right; left; reflexivity).
      assert (WHpre : wf_history s pre) by (rewrite Hb in WH; apply wf_history_app in WH; tauto).
      destruct (history_independent L Lpos pre st s x r I R WHpre Upre Hx) as (stp' & Ep' & _ & _ & Hxp & Cp).
      rewrite Hpre in Ep'. injection Ep' as <-.
      assert (Hx0 : objs st'' x = Some r) by (rewrite (F0 x Nop); exact Hxp).
      assert (C0 : contents st'' r = contents stp r).
      { specialize (R0 x). rewrite Hx0, (fault_spec_other L stp (sstore_of stp) op x Nop) in R0.
        unfold sstore_of in R0. rewrite Hxp in R0. exact R0. }
      assert (Ns : ~ (scratch_base <= x < scratch_base + scratch_slots)) by (unfold user_slot in Ux; lia).
      split; [rewrite (F3 x Ns); exact Hx0|]. rewrite (C3 x r Ns Hx0), C0. exact Cp.
    + intros j Hj. apply D3. lia.
Qed.

End FTT.
