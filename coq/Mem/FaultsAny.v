(* Mem/FaultsAny.v — C19 for EVERY allocation of an operation, not only its first one.
   Faults.v treats the armed state (the very next allocation throws).  Here the fault is scheduled at the k-th
   allocation from now, for any k, and the operation is any well-formed history of buffer operations (in particular the
   body of any string macro, with any number of temporaries):
     - delta_bop: an operation performs exactly one allocation if `allocates` says so and none otherwise;
     - FailCount.Sim: the schedule is transparent to the allocations before the k-th one;
     - hence (fault_history) a history either completes exactly as without a schedule (k at least the number of its
       allocations) or stops with std::bad_alloc at the operation performing allocation number k, in the state
       Faults.fault_step describes: invariant kept, the failed operation's target previous-or-empty, everything else
       untouched.                                                                                                   *)
From Coq Require Import NArith List Bool Lia Arith.
From ST Require Import Base.Outcome Base.Units Mem.Heap Mem.Buffer Mem.BufferRun Mem.BufferInv Mem.BufferOps
  Mem.BufferSteps Mem.BufferHistory Mem.StringOps Mem.StringProofs Mem.Faults Mem.FailCount.
Import ListNotations.
Local Open Scope nat_scope.
Local Open Scope mem_scope.

(* ---- the number of allocations of a computation: growth of nextb ---- *)
Definition Dl {A} (d : nat) (m : MB A) : Prop := forall st a st', m st = (Ok a, st') -> nb st' = nb st + d.

Lemma dl_conv {A} d d' (m : MB A) : Dl d m -> d = d' -> Dl d' m.
Proof. intros H <-. exact H. Qed.
Lemma dl_ret {A} (a : A) : Dl 0 (ret a : MB A).
Proof. intros st b st' E. unfold ret in E. injection E as <- <-. lia. Qed.
Lemma dl_mfault {A} d f : Dl d (mfault f : MB A). Proof. intros st a st' E. discriminate. Qed.
Lemma dl_mabort {A} d w : Dl d (mabort w : MB A). Proof. intros st a st' E. discriminate. Qed.
Lemma dl_bind {A B} d1 d2 (m : MB A) (f : A -> MB B) : Dl d1 m -> (forall a, Dl d2 (f a)) -> Dl (d1 + d2) (mbind m f).
Proof.
  intros Hm Hf st b st2 E. unfold mbind in E. destruct (m st) as [[a|e|w|ft] st1] eqn:E1; try discriminate.
  rewrite (Hf a st1 b st2 E), (Hm st a st1 E1). lia.
Qed.

Section D.
Variable L : nat.
Hypothesis Lpos : 1 <= L.

Lemma dl_get_obj o : Dl 0 (get_obj o).
Proof. intros st a st' E. unfold get_obj in E. destruct (objs st o); [|discriminate]. injection E as <- <-. lia. Qed.
Lemma dl_set_obj o r : Dl 0 (set_obj o r).
Proof. intros st a st' E. unfold set_obj in E. injection E as <- <-. unfold nb. cbn. lia. Qed.
Lemma dl_kill_obj o : Dl 0 (kill_obj o).
Proof. intros st a st' E. unfold kill_obj in E. injection E as <- <-. unfold nb. cbn. lia. Qed.
Lemma dl_new_arr n : Dl 1 (new_arr n).
Proof.
  intros st a st' E. unfold new_arr, heap_new in E. unfold nb.
  destruct (fail_at (hp st)) as [[|k]|]; try discriminate; injection E as <- <-; cbn; lia.
Qed.
Lemma dl_delete_arr p : Dl 0 (delete_arr p).
Proof.
  intros st a st' E. unfold delete_arr, heap_delete in E. unfold nb. destruct p as [x|b|]; try discriminate.
  - destruct (blocks (hp st) b); [|destruct (Nat.ltb b (nextb (hp st))); discriminate]. injection E as <- <-. cbn. lia.
  - injection E as <- <-. cbn. lia.
Qed.
Lemma dl_arr p : Dl 0 (arr p).
Proof.
  intros st a st' E. unfold arr, heap_block in E. destruct p as [x|b|]; try discriminate.
  - destruct (objs st x); [|discriminate]. injection E as <- <-. lia.
  - destruct (blocks (hp st) b); [|destruct (Nat.ltb b (nextb (hp st))); discriminate]. injection E as <- <-. lia.
Qed.
Lemma dl_set_arr p c : Dl 0 (set_arr p c).
Proof.
  intros st a st' E. unfold set_arr, heap_block, heap_set_block in E. unfold nb. destruct p as [x|b|]; try discriminate.
  - destruct (objs st x); [|discriminate]. injection E as <- <-. cbn. lia.
  - destruct (blocks (hp st) b); [|destruct (Nat.ltb b (nextb (hp st))); discriminate]. injection E as <- <-. cbn. lia.
Qed.

Ltac dl :=
  repeat first
    [ apply dl_ret | apply dl_mfault | apply dl_mabort
    | apply dl_get_obj | apply dl_set_obj | apply dl_kill_obj | apply dl_new_arr | apply dl_delete_arr
    | apply dl_arr | apply dl_set_arr
    | eapply dl_bind; [|intros ?]
    | match goal with
      | |- Dl _ (if ?c then _ else _) => destruct c
      | |- Dl _ (match ?x with _ => _ end) => destruct x
      end ].
Ltac dl0 := eapply dl_conv; [dl|reflexivity].

Lemma dl_poke p i v : Dl 0 (poke p i v). Proof. unfold poke. dl0. Qed.
Lemma dl_poke_range p src n : Dl 0 (poke_range p src n). Proof. unfold poke_range. dl0. Qed.
Lemma dl_fill_range p n c : Dl 0 (fill_range p n c). Proof. unfold fill_range. dl0. Qed.
Lemma dl_peek_range p n : Dl 0 (peek_range p n). Proof. unfold peek_range. dl0. Qed.

Ltac dl2 :=
  repeat first
    [ apply dl_poke | apply dl_poke_range | apply dl_fill_range | apply dl_peek_range
    | apply dl_ret | apply dl_mfault | apply dl_mabort
    | apply dl_get_obj | apply dl_set_obj | apply dl_kill_obj | apply dl_new_arr | apply dl_delete_arr
    | apply dl_arr | apply dl_set_arr
    | eapply dl_bind; [|intros ?]
    | match goal with
      | |- Dl _ (if ?c then _ else _) => destruct c
      | |- Dl _ (match ?x with _ => _ end) => destruct x
      end ].
Ltac dlc := eapply dl_conv; [dl2|reflexivity].

Definition b2n (b : bool) : nat := if b then 1 else 0.

Lemma dl_ctor_default o : Dl 0 (ctor_default L o). Proof. unfold ctor_default. dlc. Qed.
Lemma dl_copy_body o c cur : Dl (b2n (is_reffed L c)) (copy_body L o c cur).
Proof. unfold copy_body. destruct (is_reffed L c); cbn [b2n]; dlc. Qed.
Lemma dl_ctor_move o s : Dl 0 (ctor_move L o s). Proof. unfold ctor_move. cbv zeta. dlc. Qed.
Lemma dl_ctor_ptr o d n : Dl (b2n (Nat.leb L n)) (ctor_ptr L o d n).
Proof.
  unfold ctor_ptr.
  destruct (match d with None => negb (Nat.eqb n 0) | Some _ => false end); [apply dl_mabort|].
  destruct (Nat.leb L n); cbn [b2n]; destruct d; dlc.
Qed.
Lemma dl_ctor_fill o n c : Dl (b2n (Nat.leb L n)) (ctor_fill L o n c).
Proof. unfold ctor_fill. destruct (Nat.leb L n); cbn [b2n]; dlc. Qed.
Lemma dl_dtor o : Dl 0 (dtor L o). Proof. unfold dtor. dlc. Qed.
Lemma dl_clear o : Dl 0 (clear L o). Proof. unfold clear. dlc. Qed.
Lemma dl_assign_move o s : Dl 0 (assign_move L o s). Proof. unfold assign_move. cbv zeta. destruct (Nat.eqb o s); dlc. Qed.
Lemma dl_allocate o n : Dl (b2n (Nat.leb L n)) (allocate L o n).
Proof. unfold allocate. destruct (Nat.leb L n); cbn [b2n]; dlc. Qed.
Lemma dl_user_write o i v : Dl 0 (user_write o i v). Proof. unfold user_write. dlc. Qed.

(* clear changes no other object's record *)
Lemma clear_objs_other o st st1 : clear L o st = (Ok tt, st1) -> forall x, x <> o -> objs st1 x = objs st x.
Proof.
  unfold clear, mbind, get_obj. destruct (objs st o) as [r|]; [|discriminate].
  destruct (is_reffed L r).
  - unfold delete_arr. destruct (heap_delete (hp st) (m_chars r)) as [[u|e|w|ft] h']; try discriminate.
    unfold set_obj. intros E x N. injection E as <-. cbn. apply upd_other. exact N.
  - unfold ret, set_obj. intros E x N. injection E as <-. cbn. apply upd_other. exact N.
Qed.

(* ---- one operation: exactly one allocation if `allocates`, none otherwise ---- *)
Theorem delta_bop op st st1 :
  run_bop L op st = (Ok tt, st1) -> nb st1 = nb st + b2n (allocates L st op).
Proof.
  destruct op as [o|o d|o n|o n c|o src|o src|o src|o src|o n c|o n c|o i v|o|o]; cbn [run_bop allocates]; intros E.
  - rewrite (dl_ctor_default o st tt st1 E). cbn. lia.
  - exact (dl_ctor_ptr o (Some d) (length d) st tt st1 E).
  - rewrite (dl_ctor_ptr o None n st tt st1 E).
    (* a null pointer with a non-zero length aborts; with length 0 nothing is allocated since L >= 1 *)
    unfold ctor_ptr in E. destruct (negb (Nat.eqb n 0)) eqn:Hn; [discriminate|].
    apply negb_false_iff, Nat.eqb_eq in Hn. subst n.
    replace (Nat.leb L 0) with false by (symmetry; apply Nat.leb_gt; lia). reflexivity.
  - exact (dl_ctor_fill o n c st tt st1 E).
  - unfold ctor_copy, mbind, get_obj in E. destruct (objs st src) as [cc|]; [|discriminate].
    exact (dl_copy_body o cc _ st tt st1 E).
  - rewrite (dl_ctor_move o src st tt st1 E). cbn. lia.
  - unfold assign_copy in E. destruct (Nat.eqb_spec o src) as [->|Hne]; cbn [negb andb].
    + unfold mbind, get_obj, ret in E. destruct (objs st src); [|discriminate]. injection E as <-. cbn. lia.
    + unfold mbind at 1 in E. unfold get_obj at 1 in E. destruct (objs st o) as [r|] eqn:Ho; [|discriminate].
      unfold mbind at 1 in E.
      match type of E with (let (_, _) := ?t in _) = _ => destruct t as [[u|e|w|ft] st2] eqn:E2 end; try discriminate.
      assert (N2 : nb st2 = nb st /\ objs st2 src = objs st src).
      { destruct (is_reffed L r).
        - split; [rewrite (dl_clear o st u st2 E2); lia|].
          destruct u. apply (clear_objs_other o st st2 E2). intros ->. apply Hne. reflexivity.
        - unfold ret in E2. injection E2 as _ <-. auto. }
      destruct N2 as (N2 & O2).
      unfold mbind at 1 in E. unfold get_obj at 1 in E. rewrite O2 in E.
      destruct (objs st src) as [cc|]; [|discriminate].
      unfold mbind at 1 in E. unfold get_obj at 1 in E. destruct (objs st2 o) as [cur|]; [|discriminate].
      rewrite (dl_copy_body o cc cur st2 tt st1 E), N2. reflexivity.
  - rewrite (dl_assign_move o src st tt st1 E). cbn. lia.
  - unfold mbind at 1 in E. destruct (allocate L o n st) as [[u|e|w|ft] st2] eqn:E2; try discriminate.
    assert (D2 : Dl 0 (r <-- get_obj o ;; fill_range (m_chars r) n c)) by dlc.
    rewrite (D2 st2 tt st1 E), (dl_allocate o n st u st2 E2). lia.
  - unfold allocate_fill in E. unfold mbind at 1 in E. destruct (allocate L o n st) as [[u|e|w|ft] st2] eqn:E2; try discriminate.
    assert (D2 : Dl 0 (r <-- get_obj o ;; fill_range (m_chars r) n c)) by dlc.
    rewrite (D2 st2 tt st1 E), (dl_allocate o n st u st2 E2). lia.
  - rewrite (dl_user_write o i v st tt st1 E). cbn. lia.
  - rewrite (dl_clear o st tt st1 E). cbn. lia.
  - rewrite (dl_dtor o st tt st1 E). cbn. lia.
Qed.

End D.

(* ---- a whole history under a fault scheduled at allocation number k ---- *)
Section FH.
Variable L : nat.
Hypothesis Lpos : 1 <= L.
Notation Inv := (Inv L).

Lemma nofail_inv st : Inv st -> nofail st.
Proof. intros I. exact (inv_nofail _ _ I). Qed.

Lemma arm_is_with_fail st : arm st = with_fail st (Some 0).
Proof. reflexivity. Qed.

(* the operation performing allocation number k, the state before it, and the state in which it fails *)
Definition fails_at (ops : list bop) (st : store) (s : sstore) (k : nat) (st'' : store) : Prop :=
  exists pre op post stp,
    ops = pre ++ op :: post /\
    run_ops L pre st = (Ok tt, stp) /\ Inv stp /\ Rel stp (fold_left spec_bop pre s) /\
    wf_bop stp op /\ allocates L stp op = true /\
    run_bop L op (arm stp) = (Throw BadAlloc, st'').

Theorem fault_history ops : forall st s k,
  Inv st -> Rel st s -> wf_history s ops ->
  exists stf, run_ops L ops st = (Ok tt, stf) /\ Inv stf /\ Rel stf (fold_left spec_bop ops s) /\
    nb st <= nb stf /\
    (nb stf - nb st <= k ->
       run_ops L ops (with_fail st (Some k)) = (Ok tt, with_fail stf (Some (k - (nb stf - nb st))))) /\
    (k < nb stf - nb st ->
       exists st'', run_ops L ops (with_fail st (Some k)) = (Throw BadAlloc, st'') /\ fails_at ops st s k st'').
Proof.
  induction ops as [|op rest IH]; intros st s k I R W.
  - exists st. cbn. split; [reflexivity|]. split; [exact I|]. split; [exact R|]. split; [lia|].
    split; [intros _; rewrite Nat.sub_diag, Nat.sub_0_r; reflexivity|intros H; lia].
  - destruct W as (W1 & W2).
    pose proof (wf_transfer st s op R W1) as Wb.
    destruct (step_ok L Lpos st s op I R Wb) as (st1 & E1 & I1 & R1 & F1).
    pose proof (delta_bop L Lpos op st st1 E1) as D1.
    destruct (sim_bop L op st tt st1 (nofail_inv st I) E1) as (NF1 & Le1 & K1).
    destruct (allocates L st op) eqn:A; cbn [b2n] in D1.
    + (* the operation allocates once *)
      destruct k as [|k'].
      * (* and that allocation is the one that fails *)
        destruct (IH st1 _ 0 I1 R1 W2) as (stf & Ef & If & Rf & Lef & _ & _).
        exists stf. cbn [run_ops fold_left]. rewrite E1. split; [exact Ef|]. split; [exact If|]. split; [exact Rf|].
        split; [lia|]. split; [intros H; lia|]. intros _.
        destruct (fault_step L Lpos st s op I R Wb A) as (st'' & Ea & _).
        exists st''. split.
        -- change (with_fail st (Some 0)) with (arm st). rewrite Ea. reflexivity.
        -- exists [], op, rest, st. cbn [app run_ops fold_left].
           split; [reflexivity|]. split; [reflexivity|]. split; [exact I|]. split; [exact R|]. split; [exact Wb|]. split; [exact A|exact Ea].
      * destruct (IH st1 _ k' I1 R1 W2) as (stf & Ef & If & Rf & Lef & Kf & Ff).
        exists stf. cbn [run_ops fold_left]. rewrite E1. split; [exact Ef|]. split; [exact If|]. split; [exact Rf|].
        split; [lia|].
        assert (Ek : run_bop L op (with_fail st (Some (S k'))) = (Ok tt, with_fail st1 (Some k'))).
        { rewrite K1 by lia. f_equal. f_equal. f_equal. lia. }
        rewrite Ek. split.
        -- intros H. rewrite Kf by lia. f_equal. f_equal. f_equal. lia.
        -- intros H. destruct Ff as (st'' & E'' & pre & op' & post & stp & Hops & Hpre & Ip & Rp & Wp & Ap & Hf); [lia|].
           exists st''. split; [exact E''|].
           exists (op :: pre), op', post, stp. cbn [app run_ops fold_left]. rewrite E1, Hops.
           split; [reflexivity|]. split; [exact Hpre|]. split; [exact Ip|]. split; [exact Rp|]. split; [exact Wp|]. split; [exact Ap|exact Hf].
    + (* the operation does not allocate *)
      destruct (IH st1 _ k I1 R1 W2) as (stf & Ef & If & Rf & Lef & Kf & Ff).
      exists stf. cbn [run_ops fold_left]. rewrite E1. split; [exact Ef|]. split; [exact If|]. split; [exact Rf|].
      split; [lia|].
      assert (Ek : run_bop L op (with_fail st (Some k)) = (Ok tt, with_fail st1 (Some k))).
      { rewrite K1 by lia. f_equal. f_equal. f_equal. lia. }
      rewrite Ek. split.
      * intros H. rewrite Kf by lia. f_equal. f_equal. f_equal. lia.
      * intros H. destruct Ff as (st'' & E'' & pre & op' & post & stp & Hops & Hpre & Ip & Rp & Wp & Ap & Hf); [lia|].
        exists st''. split; [exact E''|].
        exists (op :: pre), op', post, stp. cbn [app run_ops fold_left]. rewrite E1, Hops.
           split; [reflexivity|]. split; [exact Hpre|]. split; [exact Ip|]. split; [exact Rp|]. split; [exact Wp|]. split; [exact Ap|exact Hf].
Qed.

End FH.
