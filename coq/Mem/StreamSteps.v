(* Mem/StreamSteps.v — per-member theorems for ST::string_stream: in a state satisfying SInv, with
   the bytes related to a spec store by SRel, every member returns normally, re-establishes SInv and
   changes the bytes exactly as the byte-string spec says (across every growth of the storage).  *)
From Coq Require Import NArith List Bool Lia Arith.
From ST Require Import Base.Outcome Base.Units Mem.Heap Mem.Stream Mem.StreamInv Mem.StreamOps
  Num.Digits Num.DigitsProofs.
Import ListNotations.
Local Open Scope nat_scope.
Local Open Scope mem_scope.

(* ---------- the doubling loop ---------- *)
Lemma grow_general : forall fuel big need,
  1 <= big -> need <= big + fuel -> 1 <= fuel ->
  exists big', grow fuel big need = Some big' /\ need <= big' /\ 2 * big <= big'.
Proof.
  induction fuel as [|f IH]; intros big need Hb Hn Hf; [lia|].
  cbn [grow]. destruct (Nat.ltb_spec (2 * big) need) as [Hlt|Hge].
  - destruct (IH (2 * big) need) as (big' & E & A & B); try lia.
    exists big'. split; [exact E|]. lia.
  - exists (2 * big). split; [reflexivity|]. lia.
Qed.

(* do { big *= 2 } while (need > big) ends within need + 1 rounds whenever it starts from big >= 1 *)
Theorem growth_terminates : forall big need, 1 <= big ->
  exists big', grow (S need) big need = Some big' /\ need <= big'.
Proof.
  intros big need Hb. destruct (grow_general (S need) big need) as (big' & E & A & _); try lia.
  exists big'. auto.
Qed.

(* ... and never when it starts from 0: the state a moved-from stream was left in before the repair *)
Example grow_zero_refuted : grow (S 5) 0 5 = None.
Proof. reflexivity. Qed.

Lemma grow_zero_never : forall fuel need, 1 <= need -> grow fuel 0 need = None.
Proof.
  induction fuel as [|f IH]; intros need Hn; [reflexivity|].
  cbn [grow]. change (2 * 0) with 0. destruct (Nat.ltb_spec 0 need) as [_|H]; [apply IH; exact Hn|lia].
Qed.

(* ---------- executing the primitives ---------- *)
Lemma smbind_Ok {A B} (m : MS A) (k : A -> MS B) st a st1 :
  m st = (Ok a, st1) -> mbind m k st = k a st1.
Proof. intros H. unfold mbind. rewrite H. reflexivity. Qed.

Lemma sget_obj_ok st o r : sobjs st o = Some r -> sget_obj o st = (Ok r, st).
Proof. intros H. unfold sget_obj. rewrite H. reflexivity. Qed.

Lemma snew_exec st n :
  fail_at (shp st) = None ->
  snew n st = (Ok (PHeap (nextb (shp st))),
               mksstate (sobjs st) (mkheap (upd (blocks (shp st)) (nextb (shp st)) (Some (repeat junk n)))
                                           (S (nextb (shp st))) None)).
Proof. intros H. unfold snew, heap_new. rewrite H. reflexivity. Qed.

Lemma sdelete_exec st b c :
  blocks (shp st) b = Some c ->
  sdelete (PHeap b) st = (Ok tt, mksstate (sobjs st) (mkheap (upd (blocks (shp st)) b None) (nextb (shp st)) (fail_at (shp st)))).
Proof. intros H. unfold sdelete, heap_delete. rewrite H. reflexivity. Qed.

Definition sset_blk (st : sstate) (b : blockid) (c : list N) : sstate :=
  mksstate (sobjs st) (mkheap (upd (blocks (shp st)) b (Some c)) (nextb (shp st)) (fail_at (shp st))).
Definition sset_stack (st : sstate) (o : objid) (r : strm) (d : list N) : sstate :=
  mksstate (upd (sobjs st) o (Some (mkstrm (s_chars r) (s_alloc r) (s_size r) d))) (shp st).

Lemma sarr_heap st b c : blocks (shp st) b = Some c -> sarr (PHeap b) st = (Ok c, st).
Proof. intros H. unfold sarr, heap_block. rewrite H. reflexivity. Qed.
Lemma sarr_local st o r : sobjs st o = Some r -> sarr (PLocal o) st = (Ok (s_stack r), st).
Proof. intros H. unfold sarr. rewrite H. reflexivity. Qed.

Lemma swrite_heap st b c off src :
  blocks (shp st) b = Some c -> off + length src <= length c ->
  swrite_at (PHeap b) off src st = (Ok tt, sset_blk st b (firstn off c ++ src ++ skipn (off + length src) c)).
Proof.
  intros H Hn. unfold swrite_at. erewrite smbind_Ok; [|apply sarr_heap; exact H].
  replace (Nat.ltb (length c) (off + length src)) with false by (symmetry; apply Nat.ltb_ge; lia).
  unfold sset_arr, heap_block. rewrite H. reflexivity.
Qed.
Lemma swrite_local st o r off src :
  sobjs st o = Some r -> off + length src <= length (s_stack r) ->
  swrite_at (PLocal o) off src st =
    (Ok tt, sset_stack st o r (firstn off (s_stack r) ++ src ++ skipn (off + length src) (s_stack r))).
Proof.
  intros H Hn. unfold swrite_at. erewrite smbind_Ok; [|apply sarr_local; exact H].
  replace (Nat.ltb (length (s_stack r)) (off + length src)) with false by (symmetry; apply Nat.ltb_ge; lia).
  unfold sset_arr. rewrite H. reflexivity.
Qed.

Lemma write_length {A} (a src : list A) off :
  off + length src <= length a -> length (firstn off a ++ src ++ skipn (off + length src) a) = length a.
Proof. intros H. rewrite !app_length, firstn_length, skipn_length. lia. Qed.

Ltac step lem := erewrite smbind_Ok; [| lem ].

Section Steps.
Variable STK : nat.
Hypothesis STKpos : 1 <= STK.
Notation SInv := (SInv STK).
Notation sobj_ok := (sobj_ok STK).

(* ---------- string_stream() ---------- *)
Theorem s_ctor_ok st s o :
  SInv st -> SRel st s -> sobjs st o = None ->
  exists st', s_ctor STK o st = (Ok tt, st') /\ SInv st' /\ SRel st' (spec_sop s (SNew o)).
Proof.
  intros I R Hd. eexists. split; [reflexivity|]. split.
  - apply sinv_set_local; auto.
    + intros r H. congruence.
    + apply repeat_length.
    + lia.
  - cbn [spec_sop]. apply (srel_update st _ s o (Some []) R); cbn [sobjs shp].
    + intros o' Hne. apply upd_other; auto.
    + intros o' r' N Ho'. reflexivity.
    + rewrite upd_same. reflexivity.
Qed.

(* ---------- ~string_stream() ---------- *)
Theorem s_dtor_ok st s o :
  SInv st -> SRel st s -> sobjs st o <> None ->
  exists st', s_dtor STK o st = (Ok tt, st') /\ SInv st' /\ SRel st' (spec_sop s (SDel o)).
Proof.
  intros I R Hl. destruct (sobjs st o) as [r|] eqn:Ho; [|congruence]. unfold s_dtor.
  step ltac:(apply sget_obj_ok; exact Ho). unfold is_heap.
  destruct (alloc_cases _ _ _ _ I Ho) as [Ha|Ha].
  - replace (Nat.ltb STK (s_alloc r)) with false by (symmetry; apply Nat.ltb_ge; lia).
    step ltac:(reflexivity).
    eexists. split; [reflexivity|]. cbn [sobjs shp]. split.
    + eapply sinv_kill_local; eauto.
    + cbn [spec_sop]. apply (srel_update st _ s o None R); cbn [sobjs shp].
      * intros o' N. apply upd_other; auto.
      * intros o' r' N Ho'. reflexivity.
      * rewrite upd_same. exact Logic.I.
  - replace (Nat.ltb STK (s_alloc r)) with true by (symmetry; apply Nat.ltb_lt; lia).
    destruct (heap_owned _ _ _ _ I Ho Ha) as (b & cc & Hp & Hb & Hcl & Hsz). rewrite Hp.
    step ltac:(eapply sdelete_exec; exact Hb).
    eexists. split; [reflexivity|]. cbn [sobjs shp]. split.
    + pose proof (sinv_release STK st o r b (s_stack r) 0 I Ho Hp (stack_len _ _ _ _ I Ho)) as I1.
      assert (H0 : 0 <= STK) by lia. specialize (I1 H0).
      eapply SInv_ext; [| | | | eapply (sinv_kill_local STK _ o _ I1)].
      * intros o0. cbn [sobjs]. rewrite upd_upd. reflexivity.
      * intros b0. reflexivity.
      * reflexivity.
      * reflexivity.
      * cbn [sobjs]. apply upd_same.
      * reflexivity.
    + cbn [spec_sop]. apply (srel_update st _ s o None R); cbn [sobjs shp].
      * intros o' N. apply upd_other; auto.
      * intros o' r' N Ho'. apply scontents_frame. cbn [shp blocks]. intros b0 Hp0. apply upd_other.
        apply (sother_block STK st o r b o' r' b0 I Ho Hp N Ho' Hp0).
      * rewrite upd_same. exact Logic.I.
Qed.

(* ---------- the part shared by move construction and move assignment ---------- *)
Definition taken (this : objid) (mv : strm) : strm :=
  mkstrm (if Nat.ltb STK (s_alloc mv) then s_chars mv else PLocal this) (s_alloc mv) (s_size mv) (s_stack mv).
Definition emptied (move : objid) (mv : strm) : strm := mkstrm (PLocal move) STK 0 (s_stack mv).

Lemma s_take_exec st this move mv :
  sobjs st move = Some mv ->
  s_take STK this move st =
    (Ok tt, mksstate (upd (upd (sobjs st) this (Some (taken this mv))) move (Some (emptied move mv))) (shp st)).
Proof. intros H. unfold s_take. step ltac:(apply sget_obj_ok; exact H). reflexivity. Qed.

Lemma take_inv st this move mv :
  SInv st -> sobjs st move = Some mv -> this <> move ->
  (forall r0, sobjs st this = Some r0 -> s_alloc r0 = STK) ->
  SInv (mksstate (upd (upd (sobjs st) this (Some (taken this mv))) move (Some (emptied move mv))) (shp st)).
Proof.
  intros I Hm Hne Hold. unfold taken, emptied.
  pose proof (stack_len _ _ _ _ I Hm) as Hlen.
  destruct (alloc_cases _ _ _ _ I Hm) as [Ha|Ha].
  - replace (Nat.ltb STK (s_alloc mv)) with false by (symmetry; apply Nat.ltb_ge; lia).
    destruct (local_own _ _ _ _ I Hm Ha) as (Hp & _ & Hsz). rewrite Ha.
    set (st1 := mksstate (upd (sobjs st) this (Some (mkstrm (PLocal this) STK (s_size mv) (s_stack mv)))) (shp st)).
    change (SInv (mksstate (upd (sobjs st1) move (Some (mkstrm (PLocal move) STK 0 (s_stack mv)))) (shp st1))).
    apply sinv_set_local; auto.
    + apply sinv_set_local; auto.
    + cbn [st1 sobjs]. intros r0 H. rewrite upd_other in H by (intros E; apply Hne; symmetry; exact E).
      rewrite Hm in H. injection H as <-. exact Ha.
    + lia.
  - replace (Nat.ltb STK (s_alloc mv)) with true by (symmetry; apply Nat.ltb_lt; lia).
    destruct (heap_owned _ _ _ _ I Hm Ha) as (b & cc & Hp & Hb & Hcl & Hsz). rewrite Hp.
    apply sinv_transfer; auto.
Qed.

Lemma take_rel st s this move mv h' :
  SInv st -> SRel st s -> sobjs st move = Some mv -> this <> move ->
  (forall o' r' b', o' <> this -> sobjs st o' = Some r' -> s_chars r' = PHeap b' ->
                    blocks h' b' = blocks (shp st) b') ->
  SRel (mksstate (upd (upd (sobjs st) this (Some (taken this mv))) move (Some (emptied move mv))) h')
       (upd (upd s this (s move)) move (Some [])).
Proof.
  intros I R Hm Hne Hfr.
  destruct (s move) as [l|] eqn:Hv.
  2:{ exfalso. apply (srel_live _ _ move R) in Hv. congruence. }
  assert (Hne' : move <> this) by (intros E; apply Hne; symmetry; exact E).
  set (st1 := mksstate (upd (sobjs st) this (Some (taken this mv))) h').
  assert (R1 : SRel st1 (upd s this (Some l))).
  { apply (srel_update st st1 s this (Some l) R); cbn [st1 sobjs shp].
    - intros o' N. apply upd_other; auto.
    - intros o' r N H. apply scontents_frame. cbn [shp]. intros b Hp. eapply Hfr; eauto.
    - rewrite upd_same.
      pose proof (srel_val _ _ _ _ _ R Hm Hv) as V.
      unfold scontents, taken in *. cbn [s_chars s_size s_stack shp].
      destruct (alloc_cases _ _ _ _ I Hm) as [Ha|Ha].
      + replace (Nat.ltb STK (s_alloc mv)) with false by (symmetry; apply Nat.ltb_ge; lia).
        destruct (local_own _ _ _ _ I Hm Ha) as (Hp & _). rewrite Hp in V. exact V.
      + replace (Nat.ltb STK (s_alloc mv)) with true by (symmetry; apply Nat.ltb_lt; lia).
        destruct (heap_owned _ _ _ _ I Hm Ha) as (b & cc & Hp & Hb & _). rewrite Hp in *.
        cbn [st1 shp]. rewrite (Hfr move mv b Hne' Hm Hp). exact V. }
  apply (srel_update st1 _ _ move (Some []) R1); cbn [st1 sobjs shp].
  - intros o' N. apply upd_other; auto.
  - intros o' r N H. reflexivity.
  - rewrite upd_same. reflexivity.
Qed.

(* ---------- string_stream(string_stream &&) ---------- *)
Theorem s_ctor_move_ok st s o src :
  SInv st -> SRel st s -> sobjs st o = None -> sobjs st src <> None ->
  exists st', s_ctor_move STK o src st = (Ok tt, st') /\ SInv st' /\ SRel st' (spec_sop s (SMove o src)).
Proof.
  intros I R Hd Hs. destruct (sobjs st src) as [mv|] eqn:Hm; [|congruence].
  assert (Hne : o <> src) by (intros ->; congruence).
  eexists. split; [apply s_take_exec; exact Hm|]. split.
  - apply take_inv; auto. intros r0 H. congruence.
  - cbn [spec_sop]. apply take_rel; auto.
Qed.

(* ---------- operator=(string_stream &&) ---------- *)
Theorem s_assign_move_ok st s o src :
  SInv st -> SRel st s -> sobjs st o <> None -> sobjs st src <> None ->
  exists st', s_assign_move STK o src st = (Ok tt, st') /\ SInv st' /\ SRel st' (spec_sop s (SMasg o src)).
Proof.
  intros I R Hl Hs. destruct (sobjs st o) as [r|] eqn:Ho; [|congruence].
  unfold s_assign_move. cbn [spec_sop].
  destruct (Nat.eqb_spec o src) as [->|Hne].
  - step ltac:(apply sget_obj_ok; exact Ho). eexists. split; [reflexivity|]. split; [exact I|exact R].
  - destruct (sobjs st src) as [mv|] eqn:Hm; [|congruence].
    step ltac:(apply sget_obj_ok; exact Ho). unfold is_heap.
    destruct (alloc_cases _ _ _ _ I Ho) as [Ha|Ha].
    + replace (Nat.ltb STK (s_alloc r)) with false by (symmetry; apply Nat.ltb_ge; lia).
      step ltac:(reflexivity).
      eexists. split; [apply s_take_exec; exact Hm|]. split.
      * apply take_inv; auto. intros r0 H. rewrite Ho in H. injection H as <-. exact Ha.
      * apply take_rel; auto.
    + replace (Nat.ltb STK (s_alloc r)) with true by (symmetry; apply Nat.ltb_lt; lia).
      destruct (heap_owned _ _ _ _ I Ho Ha) as (b & cc & Hp & Hb & Hcl & Hsz). rewrite Hp.
      step ltac:(eapply sdelete_exec; exact Hb).
      eexists. split; [apply s_take_exec; cbn [sobjs]; exact Hm|]. cbn [sobjs shp]. split.
      * (* release this's block (leaving it in-object), then take *)
        assert (H0 : 0 <= STK) by lia.
        pose proof (sinv_release STK st o r b (s_stack r) 0 I Ho Hp (stack_len _ _ _ _ I Ho) H0) as I1.
        set (st1 := mksstate (upd (sobjs st) o (Some (mkstrm (PLocal o) STK 0 (s_stack r))))
                             (mkheap (upd (blocks (shp st)) b None) (nextb (shp st)) (fail_at (shp st)))) in I1.
        assert (Hm1 : sobjs st1 src = Some mv).
        { cbn [st1 sobjs]. rewrite upd_other by (intros E; apply Hne; symmetry; exact E). exact Hm. }
        pose proof (take_inv st1 o src mv I1 Hm1 Hne) as I2.
        eapply SInv_ext; [| | | | apply I2].
        -- intros x. cbn [st1 sobjs]. unfold upd. destruct (Nat.eqb x src); destruct (Nat.eqb x o); reflexivity.
        -- intros b0. reflexivity.
        -- reflexivity.
        -- reflexivity.
        -- cbn [st1 sobjs]. intros r0 H. rewrite upd_same in H. injection H as <-. reflexivity.
      * apply take_rel; auto. cbn [blocks]. intros o' r' b' N Ho' Hp'. apply upd_other.
        apply (sother_block STK st o r b o' r' b' I Ho Hp N Ho' Hp').
Qed.

(* ---------- expand_buffer(added) ---------- *)
Theorem s_expand_ok st s o r added :
  SInv st -> SRel st s -> sobjs st o = Some r ->
  exists st' r', s_expand STK o added st = (Ok tt, st') /\ SInv st' /\ SRel st' s /\
                 sobjs st' o = Some r' /\ s_size r' = s_size r /\ s_size r + added <= s_alloc r'.
Proof.
  intros I R Ho. unfold s_expand. step ltac:(apply sget_obj_ok; exact Ho).
  destruct (Nat.ltb_spec (s_alloc r) (s_size r + added)) as [Hg|Hg].
  2:{ exists st, r. split; [reflexivity|]. split; [exact I|]. split; [exact R|]. split; [exact Ho|]. split; [reflexivity|lia]. }
  destruct (s o) as [l|] eqn:Hv.
  2:{ exfalso. apply (srel_live _ _ o R) in Hv. congruence. }
  pose proof (srel_val _ _ _ _ _ R Ho Hv) as V.
  pose proof (stack_len _ _ _ _ I Ho) as Hlen.
  assert (Hal : STK <= s_alloc r) by (destruct (alloc_cases _ _ _ _ I Ho); lia).
  destruct (grow_general (S (s_size r + added)) (s_alloc r) (s_size r + added)) as (big & Eg & Hbig1 & Hbig2); try lia.
  rewrite Eg.
  destruct (sfresh_unref STK st I) as (Hfresh & Hunref).
  step ltac:(apply snew_exec; apply (sinv_nofail _ _ I)).
  set (nb := nextb (shp st)) in *.
  destruct (alloc_cases _ _ _ _ I Ho) as [Ha|Ha].
  - (* in-object storage -> first heap block *)
    destruct (local_own _ _ _ _ I Ho Ha) as (Hp & _ & Hsz). rewrite Hp.
    step ltac:(eapply sarr_local; cbn [sobjs]; exact Ho).
    replace (Nat.ltb (length (s_stack r)) (s_alloc r)) with false by (symmetry; apply Nat.ltb_ge; lia).
    step ltac:(reflexivity).
    step ltac:(eapply swrite_heap; [cbn [shp blocks]; apply upd_same
                                   | rewrite repeat_length, firstn_length; lia]).
    unfold is_heap.
    replace (Nat.ltb STK (s_alloc r)) with false by (symmetry; apply Nat.ltb_ge; lia).
    step ltac:(reflexivity).
    step ltac:(apply sget_obj_ok; cbn [sset_blk sobjs]; exact Ho).
    set (c1 := firstn 0 (repeat junk big) ++ firstn (s_alloc r) (s_stack r)
               ++ skipn (0 + length (firstn (s_alloc r) (s_stack r))) (repeat junk big)).
    assert (Hc1 : length c1 = big).
    { unfold c1. rewrite write_length; rewrite repeat_length; [reflexivity|]. rewrite firstn_length. lia. }
    assert (Hfirst : firstn (s_size r) c1 = firstn (s_size r) (s_stack r)).
    { unfold c1. cbn [firstn app]. rewrite firstn_app_le by (rewrite firstn_length; lia).
      apply firstn_firstn_le. lia. }
    eexists. eexists. split; [reflexivity|]. cbn [sset_blk sobjs shp blocks nextb fail_at].
    split; [|split; [|split; [apply upd_same|split; [reflexivity|cbn [s_alloc]; lia]]]].
    + eapply SInv_ext; [| | | |
        apply (sinv_set_heap STK st o (s_stack r) big (s_size r) nb c1 I)]; auto.
      * intros b0. cbn [shp blocks]. rewrite upd_upd. reflexivity.
      * cbn [shp nextb]. fold nb. lia.
      * cbn [shp fail_at]. rewrite (sinv_nofail _ _ I). reflexivity.
      * intros r0 H. rewrite Ho in H. injection H as <-. exact Ha.
      * lia.
      * lia.
    + apply (srel_keep st _ s o R); cbn [sobjs shp].
      * intros o' N. apply upd_other; auto.
      * intros o' r' N Ho'. apply scontents_frame. cbn [shp blocks]. intros b0 Hp0. rewrite upd_upd.
        apply upd_other. intros ->. eapply Hunref; eauto.
      * rewrite upd_same, Hv. unfold scontents. cbn [s_chars s_size shp blocks]. rewrite upd_same.
        fold c1. rewrite Hfirst. unfold scontents in V. rewrite Hp in V. exact V.
  - (* heap block -> bigger heap block *)
    destruct (heap_owned _ _ _ _ I Ho Ha) as (b & cc & Hp & Hb & Hcl & Hsz). rewrite Hp.
    assert (Hbne : b <> nb) by (intros E; rewrite E in Hb; rewrite Hfresh in Hb; discriminate Hb).
    step ltac:(eapply sarr_heap; cbn [shp blocks]; rewrite upd_other by exact Hbne; exact Hb).
    replace (Nat.ltb (length cc) (s_alloc r)) with false by (symmetry; apply Nat.ltb_ge; lia).
    step ltac:(reflexivity).
    step ltac:(eapply swrite_heap; [cbn [shp blocks]; apply upd_same
                                   | rewrite repeat_length, firstn_length; lia]).
    unfold is_heap.
    replace (Nat.ltb STK (s_alloc r)) with true by (symmetry; apply Nat.ltb_lt; lia).
    step ltac:(eapply sdelete_exec; cbn [sset_blk shp blocks]; rewrite !upd_other by exact Hbne; exact Hb).
    step ltac:(apply sget_obj_ok; cbn [sset_blk sobjs]; exact Ho).
    set (c1 := firstn 0 (repeat junk big) ++ firstn (s_alloc r) cc
               ++ skipn (0 + length (firstn (s_alloc r) cc)) (repeat junk big)).
    assert (Hc1 : length c1 = big).
    { unfold c1. rewrite write_length; rewrite repeat_length; [reflexivity|]. rewrite firstn_length. lia. }
    assert (Hfirst : firstn (s_size r) c1 = firstn (s_size r) cc).
    { unfold c1. cbn [firstn app]. rewrite firstn_app_le by (rewrite firstn_length; lia).
      apply firstn_firstn_le. lia. }
    eexists. eexists. split; [reflexivity|]. cbn [sset_blk sobjs shp blocks nextb fail_at].
    split; [|split; [|split; [apply upd_same|split; [reflexivity|cbn [s_alloc]; lia]]]].
    + assert (H0 : 0 <= STK) by lia.
      pose proof (sinv_release STK st o r b (s_stack r) 0 I Ho Hp Hlen H0) as I1.
      set (st1 := mksstate (upd (sobjs st) o (Some (mkstrm (PLocal o) STK 0 (s_stack r))))
                           (mkheap (upd (blocks (shp st)) b None) (nextb (shp st)) (fail_at (shp st)))) in I1.
      assert (I2 : SInv (mksstate (upd (sobjs st1) o (Some (mkstrm (PHeap nb) big (s_size r) (s_stack r))))
                                  (mkheap (upd (blocks (shp st1)) nb (Some c1))
                                          (Nat.max (nextb (shp st1)) (S nb)) (fail_at (shp st1))))).
      { apply sinv_set_heap; auto.
        - cbn [st1 sobjs]. intros r1 H. rewrite upd_same in H. injection H as <-. reflexivity.
        - cbn [st1 shp blocks]. rewrite upd_other by (intros E; apply Hbne; symmetry; exact E). exact Hfresh.
        - cbn [st1 sobjs]. intros o' r' H. unfold upd in H. destruct (Nat.eqb_spec o' o) as [->|N].
          + inj H. discriminate.
          + eapply Hunref; eauto.
        - lia.
        - lia. }
      eapply SInv_ext; [| | | | exact I2].
      * intros o0. cbn [st1 sobjs]. rewrite upd_upd. reflexivity.
      * intros b0. cbn [st1 shp blocks]. unfold upd.
        destruct (Nat.eqb_spec b0 nb) as [E1|N1]; destruct (Nat.eqb_spec b0 b) as [E2|N2]; try reflexivity.
        exfalso. apply Hbne. rewrite <- E1, <- E2. reflexivity.
      * cbn [st1 shp nextb]. fold nb. lia.
      * cbn [st1 shp fail_at]. rewrite (sinv_nofail _ _ I). reflexivity.
    + apply (srel_keep st _ s o R); cbn [sobjs shp].
      * intros o' N. apply upd_other; auto.
      * intros o' r' N Ho'. apply scontents_frame. cbn [shp blocks]. intros b0 Hp0.
        rewrite upd_other by (apply (sother_block STK st o r b o' r' b0 I Ho Hp N Ho' Hp0)).
        rewrite upd_upd. apply upd_other. intros ->. eapply Hunref; eauto.
      * rewrite upd_same, Hv. unfold scontents. cbn [s_chars s_size shp blocks].
        rewrite upd_other by (intros E; apply Hbne; symmetry; exact E). rewrite upd_same.
        fold c1. rewrite Hfirst. unfold scontents in V. rewrite Hp, Hb in V. exact V.
Qed.

(* ---------- traits::move / traits::assign into the free part, then m_size += n ---------- *)
Definition write_tail (this : objid) (data : list N) (n : nat) : MS unit :=
  r <-- sget_obj this ;;
  swrite_at (s_chars r) (s_size r) data ;;;
  r' <-- sget_obj this ;;
  sset_obj this (mkstrm (s_chars r') (s_alloc r') (s_size r' + n) (s_stack r')).

Lemma write_tail_ok st s o r l data :
  SInv st -> SRel st s -> sobjs st o = Some r -> s o = Some l ->
  s_size r + length data <= s_alloc r ->
  exists st', write_tail o data (length data) st = (Ok tt, st') /\ SInv st' /\
              SRel st' (upd s o (Some (l ++ data))).
Proof.
  intros I R Ho Hv Hfit. unfold write_tail.
  pose proof (srel_val _ _ _ _ _ R Ho Hv) as V.
  step ltac:(apply sget_obj_ok; exact Ho).
  destruct (alloc_cases _ _ _ _ I Ho) as [Ha|Ha].
  - destruct (local_own _ _ _ _ I Ho Ha) as (Hp & Hlen & Hsz). rewrite Hp.
    step ltac:(eapply swrite_local; [exact Ho | lia]).
    set (d1 := firstn (s_size r) (s_stack r) ++ data ++ skipn (s_size r + length data) (s_stack r)).
    assert (Hd1 : length d1 = STK) by (unfold d1; rewrite write_length; lia).
    step ltac:(apply sget_obj_ok; cbn [sset_stack sobjs]; apply upd_same).
    eexists. split; [reflexivity|]. cbn [sset_stack sobjs shp s_chars s_alloc s_size s_stack].
    rewrite Hp, Ha. split.
    + eapply SInv_ext; [| | | | apply (sinv_set_local STK st o d1 (s_size r + length data) I)]; auto.
      * intros o0. cbn [sobjs]. rewrite upd_upd. reflexivity.
      * intros r0 H. rewrite Ho in H. injection H as <-. exact Ha.
      * lia.
    + apply (srel_update st _ s o (Some (l ++ data)) R); cbn [sobjs shp].
      * intros o' N. rewrite !upd_other by exact N. reflexivity.
      * intros o' r' N Ho'. reflexivity.
      * rewrite upd_same. unfold scontents. cbn [s_chars s_size s_stack]. fold d1. unfold d1.
        unfold scontents in V. rewrite Hp in V. rewrite <- V.
        apply firstn_app_both; [rewrite firstn_length; lia|reflexivity].
  - destruct (heap_owned _ _ _ _ I Ho Ha) as (b & cc & Hp & Hb & Hcl & Hsz). rewrite Hp.
    step ltac:(eapply swrite_heap; [exact Hb | lia]).
    set (c1 := firstn (s_size r) cc ++ data ++ skipn (s_size r + length data) cc).
    assert (Hc1 : length c1 = s_alloc r) by (unfold c1; rewrite write_length; lia).
    step ltac:(apply sget_obj_ok; cbn [sset_blk sobjs]; exact Ho).
    eexists. split; [reflexivity|]. cbn [sset_blk sobjs shp]. rewrite Hp. split.
    + eapply SInv_ext; [| | | |
        apply (sinv_update_heap STK st o r b c1 (s_size r + length data) (s_stack r) I Ho Hp Hc1)]; auto.
      all: first [lia | apply (stack_len _ _ _ _ I Ho)].
    + apply (srel_update st _ s o (Some (l ++ data)) R); cbn [sobjs shp].
      * intros o' N. apply upd_other; auto.
      * intros o' r' N Ho'. apply scontents_frame. cbn [shp blocks]. intros b0 Hp0. apply upd_other.
        apply (sother_block STK st o r b o' r' b0 I Ho Hp N Ho' Hp0).
      * rewrite upd_same. unfold scontents. cbn [s_chars s_size shp blocks]. rewrite upd_same.
        fold c1. unfold c1. unfold scontents in V. rewrite Hp, Hb in V. rewrite <- V.
        apply firstn_app_both; [rewrite firstn_length; lia|reflexivity].
Qed.

(* ---------- append(data, size) ---------- *)
Theorem s_append_ok st s o d :
  SInv st -> SRel st s -> sobjs st o <> None ->
  exists st', s_append STK o d st = (Ok tt, st') /\ SInv st' /\ SRel st' (spec_sop s (SAppend o d)).
Proof.
  intros I R Hl. destruct (sobjs st o) as [r|] eqn:Ho; [|congruence].
  destruct (s o) as [l|] eqn:Hv.
  2:{ exfalso. apply (srel_live _ _ o R) in Hv. congruence. }
  unfold s_append. cbn [spec_sop]. rewrite Hv.
  destruct (Nat.eqb_spec (length d) 0) as [Hz|Hnz].
  - destruct d; [|discriminate]. exists st. split; [reflexivity|]. split; [exact I|].
    eapply SRel_ext; [|exact R]. intros x. rewrite app_nil_r. unfold upd.
    destruct (Nat.eqb_spec x o) as [->|]; [symmetry; exact Hv|reflexivity].
  - destruct (s_expand_ok st s o r (length d) I R Ho) as (st1 & r1 & E1 & I1 & R1 & O1 & S1 & A1).
    step ltac:(exact E1).
    apply (write_tail_ok st1 s o r1 l d I1 R1 O1 Hv). lia.
Qed.

(* ---------- append_char(ch, count) ---------- *)
Theorem s_append_char_ok st s o c n :
  SInv st -> SRel st s -> sobjs st o <> None ->
  exists st', s_append_char STK o c n st = (Ok tt, st') /\ SInv st' /\ SRel st' (spec_sop s (SAppendChar o c n)).
Proof.
  intros I R Hl. destruct (sobjs st o) as [r|] eqn:Ho; [|congruence].
  destruct (s o) as [l|] eqn:Hv.
  2:{ exfalso. apply (srel_live _ _ o R) in Hv. congruence. }
  unfold s_append_char. cbn [spec_sop]. rewrite Hv.
  destruct (Nat.eqb_spec n 0) as [->|Hnz].
  - exists st. split; [reflexivity|]. split; [exact I|].
    eapply SRel_ext; [|exact R]. intros x. cbn [repeat]. rewrite app_nil_r. unfold upd.
    destruct (Nat.eqb_spec x o) as [->|]; [symmetry; exact Hv|reflexivity].
  - destruct (s_expand_ok st s o r n I R Ho) as (st1 & r1 & E1 & I1 & R1 & O1 & S1 & A1).
    step ltac:(exact E1).
    pose proof (write_tail_ok st1 s o r1 l (repeat c n) I1 R1 O1 Hv) as W.
    rewrite repeat_length in W. apply W. lia.
Qed.

(* ---------- truncate(size), erase(count) ---------- *)
Lemma scontents_resize (st : sstate) objs' r n :
  n <= s_size r ->
  scontents (mksstate objs' (shp st)) (mkstrm (s_chars r) (s_alloc r) n (s_stack r)) = firstn n (scontents st r).
Proof.
  intros H. unfold scontents. cbn [s_chars s_size s_stack shp].
  destruct (s_chars r) as [o|b|]; try (symmetry; apply firstn_firstn_le; exact H).
  destruct (blocks (shp st) b); [symmetry; apply firstn_firstn_le; exact H|].
  symmetry. apply firstn_nil.
Qed.

Lemma resize_ok st s o r l n :
  SInv st -> SRel st s -> sobjs st o = Some r -> s o = Some l -> n <= s_size r ->
  SInv (mksstate (upd (sobjs st) o (Some (mkstrm (s_chars r) (s_alloc r) n (s_stack r)))) (shp st)) /\
  SRel (mksstate (upd (sobjs st) o (Some (mkstrm (s_chars r) (s_alloc r) n (s_stack r)))) (shp st))
       (upd s o (Some (firstn n l))).
Proof.
  clear STKpos. intros I R Ho Hv Hn. split.
  - apply sinv_resize; auto. destruct (sinv_wf _ _ I _ _ Ho) as (_ & B & _). lia.
  - apply (srel_update st _ s o (Some (firstn n l)) R); cbn [sobjs shp].
    + intros o' N. apply upd_other; auto.
    + intros o' r' N Ho'. reflexivity.
    + rewrite upd_same. rewrite scontents_resize by exact Hn.
      rewrite (srel_val _ _ _ _ _ R Ho Hv). reflexivity.
Qed.

Theorem s_truncate_ok st s o n :
  SInv st -> SRel st s -> sobjs st o <> None ->
  exists st', s_truncate o n st = (Ok tt, st') /\ SInv st' /\ SRel st' (spec_sop s (STruncate o n)).
Proof.
  clear STKpos. intros I R Hl. destruct (sobjs st o) as [r|] eqn:Ho; [|congruence].
  destruct (s o) as [l|] eqn:Hv.
  2:{ exfalso. apply (srel_live _ _ o R) in Hv. congruence. }
  assert (Hlen : length l = s_size r).
  { rewrite <- (srel_val _ _ _ _ _ R Ho Hv). apply (scontents_length STK st o r I Ho). }
  unfold s_truncate. cbn [spec_sop]. rewrite Hv, Hlen.
  step ltac:(apply sget_obj_ok; exact Ho).
  destruct (Nat.ltb_spec n (s_size r)) as [Hlt|Hge].
  - eexists. split; [reflexivity|]. cbn [sobjs shp]. apply (resize_ok st s o r l n I R Ho Hv). lia.
  - exists st. split; [reflexivity|]. auto.
Qed.

Theorem s_erase_ok st s o n :
  SInv st -> SRel st s -> sobjs st o <> None ->
  exists st', s_erase o n st = (Ok tt, st') /\ SInv st' /\ SRel st' (spec_sop s (SErase o n)).
Proof.
  clear STKpos. intros I R Hl. destruct (sobjs st o) as [r|] eqn:Ho; [|congruence].
  destruct (s o) as [l|] eqn:Hv.
  2:{ exfalso. apply (srel_live _ _ o R) in Hv. congruence. }
  assert (Hlen : length l = s_size r).
  { rewrite <- (srel_val _ _ _ _ _ R Ho Hv). apply (scontents_length STK st o r I Ho). }
  unfold s_erase. cbn [spec_sop]. rewrite Hv, Hlen.
  step ltac:(apply sget_obj_ok; exact Ho).
  destruct (Nat.ltb_spec n (s_size r)) as [Hlt|Hge].
  - eexists. split; [reflexivity|]. cbn [sobjs shp]. apply (resize_ok st s o r l (s_size r - n) I R Ho Hv). lia.
  - eexists. split; [reflexivity|]. cbn [sobjs shp].
    change (@nil N) with (firstn 0 l). apply (resize_ok st s o r l 0 I R Ho Hv). lia.
Qed.

(* ---------- operator<<(integer): render with uint_formatter, '-' first if negative, then append ---------- *)
Theorem s_shl_ok st s o bits neg mag :
  SInv st -> SRel st s -> sobjs st o <> None -> (mag < 2 ^ N.of_nat bits)%N ->
  exists st', run_sop STK (SShl o bits neg mag) st = (Ok tt, st') /\ SInv st' /\
              SRel st' (spec_sop s (SShl o bits neg mag)).
Proof.
  intros I R Hl Hm.
  destruct (s o) as [l|] eqn:Hv.
  2:{ exfalso. apply (srel_live _ _ o R) in Hv. contradiction. }
  cbn [run_sop spec_sop]. rewrite Hv.
  rewrite uint_format_ok by (lia || exact Hm).
  set (txt := digits_text mag 10 false).
  destruct neg.
  - destruct (s_append_char_ok st s o 45%N 1 I R Hl) as (st1 & E1 & I1 & R1).
    step ltac:(exact E1).
    cbn [spec_sop] in R1. rewrite Hv in R1.
    assert (Hl1 : sobjs st1 o <> None).
    { intros Hn. apply (srel_live _ _ o R1) in Hn. rewrite upd_same in Hn. discriminate. }
    destruct (s_append_ok st1 _ o txt I1 R1 Hl1) as (st2 & E2 & I2 & R2).
    exists st2. split; [exact E2|]. split; [exact I2|].
    cbn [spec_sop] in R2. rewrite upd_same in R2.
    eapply SRel_ext; [|exact R2]. intros x. rewrite upd_upd. cbn [repeat]. rewrite <- app_assoc. reflexivity.
  - step ltac:(reflexivity).
    destruct (s_append_ok st s o txt I R Hl) as (st2 & E2 & I2 & R2).
    exists st2. split; [exact E2|]. split; [exact I2|].
    cbn [spec_sop] in R2. rewrite Hv in R2. exact R2.
Qed.

(* ---------- every operation of the history language ---------- *)
Definition slive (st : sstate) (o : objid) : Prop := sobjs st o <> None.
Definition sdead (st : sstate) (o : objid) : Prop := sobjs st o = None.

(* the history is a well-formed C++ program: constructors run on storage holding no object, everything
   else on live objects; an inserted integer's magnitude fits its unsigned type *)
Definition swf_op (st : sstate) (op : sop) : Prop :=
  match op with
  | SNew o => sdead st o
  | SAppend o _ | SAppendChar o _ _ | STruncate o _ | SErase o _ | SDel o => slive st o
  | SMove o src => sdead st o /\ slive st src
  | SMasg o src => slive st o /\ slive st src
  | SShl o bits _ mag => slive st o /\ (mag < 2 ^ N.of_nat bits)%N
  end.

Theorem step_ok st s op :
  SInv st -> SRel st s -> swf_op st op ->
  exists st', run_sop STK op st = (Ok tt, st') /\ SInv st' /\ SRel st' (spec_sop s op).
Proof.
  intros I R W. destruct op as [o|o d|o c n|o n|o n|o src|o src|o bits neg mag|o]; cbn [swf_op] in W.
  - apply s_ctor_ok; auto.
  - apply s_append_ok; auto.
  - apply s_append_char_ok; auto.
  - apply s_truncate_ok; auto.
  - apply s_erase_ok; auto.
  - destruct W. apply s_ctor_move_ok; auto.
  - destruct W. apply s_assign_move_ok; auto.
  - destruct W. apply s_shl_ok; auto.
  - apply s_dtor_ok; auto.
Qed.

End Steps.
