(* Mem/Heap.v — a small explicit store: objects with in-object storage, heap blocks with
   new[] / delete[], a fault schedule for `new`.  Pointers are values, so sharing, dangling
   pointers, double free and leaks are all expressible (they are what C05/C16/C19 exclude). *)
From Coq Require Import NArith List Bool Lia.
From ST Require Import Base.Outcome Base.Units.
Import ListNotations.
Local Open Scope nat_scope.

Definition objid := nat.
Definition blockid := nat.

Inductive ptr :=
| PLocal (o : objid)     (* the object's own in-object array (m_data / m_stack) *)
| PHeap (b : blockid)    (* start of heap block b *)
| PNull.

Definition ptr_eqb (p q : ptr) : bool :=
  match p, q with
  | PLocal a, PLocal b => Nat.eqb a b
  | PHeap a, PHeap b => Nat.eqb a b
  | PNull, PNull => true
  | _, _ => false
  end.

(* function update *)
Definition upd {A} (f : nat -> A) (k : nat) (v : A) : nat -> A :=
  fun x => if Nat.eqb x k then v else f x.

(* heap: block b is Some cells while allocated, None before allocation and once deleted;
   block ids below nextb have been handed out *)
Record heap := mkheap {
  blocks : blockid -> option (list N);
  nextb : blockid;
  fail_at : option nat          (* Some k: the k-th `new` from now (0-based) throws bad_alloc *)
}.

Definition heap0 : heap := mkheap (fun _ => None) 0 None.

Definition junk : N := 205%N.     (* content of uninitialised cells (never compared) *)

(* state + outcome monad over the heap and a store of objects of type O *)
Section Monad.
  Context {S : Type}.
  Definition M (A : Type) := S -> outcome A * S.
  Definition ret {A} (a : A) : M A := fun s => (Ok a, s).
  Definition mbind {A B} (m : M A) (k : A -> M B) : M B :=
    fun s => match m s with
             | (Ok a, s') => k a s'
             | (Throw e, s') => (Throw e, s')
             | (Abort w, s') => (Abort w, s')
             | (Fault f, s') => (Fault f, s')
             end.
  Definition mfault {A} (f : fault) : M A := fun s => (Fault f, s).
  Definition mthrow {A} (e : exn) : M A := fun s => (Throw e, s).
  Definition mabort {A} (w : abort_reason) : M A := fun s => (Abort w, s).
  Definition mget : M S := fun s => (Ok s, s).
  Definition mput (s : S) : M unit := fun _ => (Ok tt, s).
  (* try/finally-free "catch": run m; on Throw run the handler on the state reached *)
  Definition mcatch {A} (m : M A) (h : exn -> M A) : M A :=
    fun s => match m s with
             | (Throw e, s') => h e s'
             | r => r
             end.
End Monad.

Declare Scope mem_scope.
Notation "x <-- m ;; k" := (mbind m (fun x => k))
  (at level 61, m at next level, right associativity) : mem_scope.
Notation "m ;;; k" := (mbind m (fun _ => k))
  (at level 61, right associativity) : mem_scope.

(* list update at index (total; no-op when out of range) *)
Fixpoint set_nth {A} (l : list A) (i : nat) (x : A) : list A :=
  match l, i with
  | [], _ => []
  | _ :: t, O => x :: t
  | h :: t, S i' => h :: set_nth t i' x
  end.

(* ---- heap primitives (on a bare heap) ---- *)
Definition heap_new (h : heap) (n : nat) : outcome blockid * heap :=
  match fail_at h with
  | Some O => (Throw BadAlloc, mkheap (blocks h) (nextb h) None)
  | Some (S k) => (Ok (nextb h), mkheap (upd (blocks h) (nextb h) (Some (repeat junk n))) (S (nextb h)) (Some k))
  | None => (Ok (nextb h), mkheap (upd (blocks h) (nextb h) (Some (repeat junk n))) (S (nextb h)) None)
  end.

Definition heap_delete (h : heap) (p : ptr) : outcome unit * heap :=
  match p with
  | PHeap b =>
      match blocks h b with
      | Some _ => (Ok tt, mkheap (upd (blocks h) b None) (nextb h) (fail_at h))
      | None => if Nat.ltb b (nextb h) then (Fault DoubleFree, h) else (Fault FreeNonHeap, h)
      end
  | PLocal _ => (Fault FreeNonHeap, h)
  | PNull => (Ok tt, h)               (* delete[] nullptr is a no-op *)
  end.

Definition heap_block (h : heap) (b : blockid) : outcome (list N) :=
  match blocks h b with
  | Some c => Ok c
  | None => if Nat.ltb b (nextb h) then Fault UseAfterFree else Fault OOBRead
  end.

Definition heap_set_block (h : heap) (b : blockid) (c : list N) : heap :=
  mkheap (upd (blocks h) b (Some c)) (nextb h) (fail_at h).

Definition live_blocks (h : heap) : nat :=
  length (filter (fun b => match blocks h b with Some _ => true | None => false end) (seq 0 (nextb h))).
