(* Mem/StringOps.v — ST::string operations as memory footprints over ST::buffer<char>.
   ST::string is exactly one ST::char_buffer (m_buffer).  What C04/C18/C19 say about a string
   operation depends only on its memory footprint, i.e. on which buffer members it runs on which
   objects — the VALUE it computes (`v` below) is arbitrary here (universally quantified in the
   theorems; the functional properties C06-C09 decide it).  Every operation is therefore a MACRO
   over the buffer operation language of Mem/BufferRun.v, read off include/st_string.h:

     observers (compare, find, hash, size, to_utf16, ...)      no buffer member runs on *this
     substr/left/right/trim*/to_upper/to_lower (NRVO)          string sub; sub.m_buffer.allocate(n); copy
     operator+ / from_validated(std::move(buf))                char_buffer cat; allocate; copy; string(std::move(cat)); ~cat
     replace / fill / string(char_buffer&&)                    char_buffer r; allocate; copy; string s; s.m_buffer = std::move(r); ~r
     `return *this` (whole substr, no-op replace, to_utf8)     copy construction
     `return string()`                                         default construction
     s = t, s = std::move(t), string u(std::move(t))           buffer copy/move assignment / move construction
     s = "text" / set(buffer)                                  char_buffer tmp(text); validate; m_buffer = std::move(tmp); ~tmp
     s += t                                                    set( *this + t ): operator+ into a temporary string, move-assign, destroy
     a throwing set / += / conversion                          temporaries built, exception, temporaries destroyed

   Temporaries live in scratch slots (ids >= scratch_base); when an operation throws, the live
   temporaries are destroyed (stack unwinding) before the exception reaches the caller.           *)
From Coq Require Import NArith List Bool Lia.
From ST Require Import Base.Outcome Base.Units Mem.Heap Mem.Buffer Mem.BufferRun.
Import ListNotations.
Local Open Scope nat_scope.

Definition scratch_base : nat := 100.
Definition scratch_slots : nat := 4.
Definition tmp0 := scratch_base.
Definition tmp1 := S scratch_base.

Inductive top :=
| TNew (o : objid) (d : list N)                 (* ST::string o = ST::string::from_validated(ptr, len) *)
| TReads (o : objid)                            (* any pure observer of o *)
| TFreshNRVO (res src : objid) (v : list N)     (* res = src.substr(..) / to_upper() / ... *)
| TFreshMoveCtor (res src : objid) (v : list N) (* res = src + x ; from_validated(std::move(buf)) *)
| TFreshMoveAsg (res src : objid) (v : list N)  (* res = src.replace(..) ; ST::string::fill *)
| TEmpty (res : objid)                          (* res = string() *)
| TCopyOf (res src : objid)                     (* res = copy of src *)
| TCopyMove (res src : objid)                   (* res = from_validated(src.to_utf8()): copy into a temporary buffer, move it in *)
| TAssign (o src : objid)                       (* o = src *)
| TMoveAssign (o src : objid)                   (* o = std::move(src) *)
| TMoveCtor (o src : objid)                     (* ST::string o(std::move(src)) *)
| TSetBytes (o : objid) (d : list N)            (* o = "text" (valid) *)
| TAppend (o src : objid) (v : list N)          (* o += src   (v = the concatenation, src may be o) *)
| TClear (o : objid)
| TDel (o : objid)
| TThrowing (temps : list (list N)) (e : exn)   (* builds the given temporaries, then throws e *)
| TFreshVia (res src : objid) (temps : list (list N)) (v : list N).
    (* res = an operation on src that builds temporaries first (ST::format: the argument closures and the output
       stream; codecs and conversions: an intermediate buffer; split: the vector's pieces), then the result, then
       destroys the temporaries — an operation with SEVERAL allocations *)

(* allocate(n) followed by copying v into data(): allocate + user writes *)
Fixpoint write_all (o : objid) (i : nat) (v : list N) : list bop :=
  match v with
  | [] => []
  | x :: t => BWrite o i x :: write_all o (S i) t
  end.
Definition alloc_with (o : objid) (v : list N) : list bop := BAlloc o (length v) 0%N :: write_all o 0 v.

Fixpoint build_temps (k : nat) (temps : list (list N)) : list bop :=
  match temps with
  | [] => []
  | d :: t => BNew (scratch_base + k) d :: build_temps (S k) t
  end.

Fixpoint del_temps (k n : nat) : list bop :=
  match n with
  | O => []
  | S n' => BDel (scratch_base + k) :: del_temps (S k) n'
  end.

(* body of the macro, and whether it ends by throwing *)
Definition expand (t : top) : list bop * option exn :=
  match t with
  | TNew o d => ([BNew o d], None)
  | TReads _ => ([], None)
  | TFreshNRVO res _ v => (BDef res :: alloc_with res v, None)
  | TFreshMoveCtor res _ v => (BDef tmp0 :: alloc_with tmp0 v ++ [BMove res tmp0; BDel tmp0], None)
  | TFreshMoveAsg res _ v => (BDef tmp0 :: alloc_with tmp0 v ++ [BDef res; BMasg res tmp0; BDel tmp0], None)
  | TEmpty res => ([BDef res], None)
  | TCopyOf res src => ([BCopy res src], None)
  | TCopyMove res src => ([BCopy tmp0 src; BMove res tmp0; BDel tmp0], None)
  | TAssign o src => ([BAsg o src], None)
  | TMoveAssign o src => ([BMasg o src], None)
  | TMoveCtor o src => ([BMove o src], None)
  | TSetBytes o d => ([BNew tmp0 d; BMasg o tmp0; BDel tmp0], None)
  | TAppend o _ v => (BDef tmp0 :: alloc_with tmp0 v ++ [BMove tmp1 tmp0; BDel tmp0; BMasg o tmp1; BDel tmp1], None)
  | TClear o => ([BClear o], None)
  | TDel o => ([BDel o], None)
  | TThrowing temps e => (build_temps 0 temps, Some e)
  | TFreshVia res _ temps v => (build_temps 0 temps ++ BDef res :: alloc_with res v ++ del_temps 0 (length temps), None)
  end.

Section WithL.
Variable L : nat.

(* run the body; stop at the first operation that does not return normally *)
Fixpoint run_body (ops : list bop) (st : store) : outcome unit * store :=
  match ops with
  | [] => (Ok tt, st)
  | op :: rest =>
      match run_bop L op st with
      | (Ok _, st') => run_body rest st'
      | r => r
      end
  end.

(* stack unwinding: destroy the temporaries that are alive *)
Definition unwind (st : store) : outcome unit * store := destroy_all L scratch_base scratch_slots st.

(* the result object a throwing body may have left half-built *)
Definition under_construction (t : top) : list objid :=
  match t with
  | TFreshNRVO res _ _ | TFreshMoveAsg res _ _ | TFreshVia res _ _ _ => [res]
  | _ => []
  end.
Fixpoint destroy_if_live (l : list objid) (st : store) : outcome unit * store :=
  match l with
  | [] => (Ok tt, st)
  | o :: rest => match objs st o with
                 | Some _ => match dtor L o st with
                             | (Ok _, st') => destroy_if_live rest st'
                             | r => r
                             end
                 | None => destroy_if_live rest st
                 end
  end.

Definition run_top (t : top) (st : store) : outcome unit * store :=
  let '(body, thr) := expand t in
  match run_body body st with
  | (Ok _, st1) =>
      match thr with
      | None => (Ok tt, st1)
      | Some e => match unwind st1 with
                  | (Ok _, st2) => (Throw e, st2)
                  | r => r
                  end
      end
  | (Throw e, st1) =>
      (* an exception from inside the body (std::bad_alloc): the temporaries AND a result object
         under construction (NRVO local / half-built constructor result) are destroyed *)
      match unwind st1 with
      | (Ok _, st2) =>
          match destroy_if_live (under_construction t) st2 with
          | (Ok _, st3) => (Throw e, st3)
          | r => r
          end
      | r => r
      end
  | r => r
  end.

(* do two of the listed live objects share storage? *)
Definition shares_l (st : store) (ids : list objid) : bool :=
  existsb (fun a =>
    existsb (fun b =>
      negb (Nat.eqb a b) &&
      match ptr_of st a, ptr_of st b with
      | Some pa, Some pb => ptr_eqb pa pb || match pa with PLocal x => Nat.eqb x b | _ => false end
      | _, _ => false
      end) ids) ids.

Record tstep := mktstep { t_result : outcome unit; t_objs : list (option obs); t_shares : bool }.

Fixpoint run_thistory (ops : list top) (pool : nat) (st : store) : list tstep * store :=
  match ops with
  | [] => ([], st)
  | op :: rest =>
      let cont (res : outcome unit) (st1 : store) :=
          match observe_all 0 pool st1 with
          | (Ok os, _) => let '(more, stf) := run_thistory rest pool st1 in
                          (mktstep res os (shares_l st1 (seq 0 pool ++ seq scratch_base scratch_slots)) :: more, stf)
          | (Throw e, _) => ([mktstep (Throw e) [] false], st1)
          | (Abort w, _) => ([mktstep (Abort w) [] false], st1)
          | (Fault f, _) => ([mktstep (Fault f) [] false], st1)
          end in
      match run_top op st with
      | (Ok u, st1) => cont (Ok u) st1
      | (Throw e, st1) => cont (Throw e) st1
      | (Abort w, st1) => ([mktstep (Abort w) [] false], st1)
      | (Fault f, st1) => ([mktstep (Fault f) [] false], st1)
      end
  end.

(* end of scope including scratch slots (which must all be dead already) *)
Definition t_leaked_after_scope (pool : nat) (st : store) : outcome nat :=
  match destroy_all L 0 pool st with
  | (Ok _, st') =>
      match destroy_all L scratch_base scratch_slots st' with
      | (Ok _, st'') => Ok (live_blocks (hp st''))
      | (Throw e, _) => Throw e | (Abort w, _) => Abort w | (Fault f, _) => Fault f
      end
  | (Throw e, _) => Throw e | (Abort w, _) => Abort w | (Fault f, _) => Fault f
  end.

End WithL.

(* SPEC: fold the value-semantics spec over the body; a throwing operation changes nothing *)
Definition spec_top (s : sstore) (t : top) : sstore :=
  match expand t with
  | (body, None) => fold_left spec_bop body s
  | (_, Some _) => s
  end.
Fixpoint spec_thistory (ops : list top) (s : sstore) : list sstore :=
  match ops with
  | [] => []
  | op :: rest => let s' := spec_top s op in s' :: spec_thistory rest s'
  end.

(* set the fault schedule: the k-th allocation from now fails *)
Definition with_fail (st : store) (k : option nat) : store :=
  mkstore (objs st) (mkheap (blocks (hp st)) (nextb (hp st)) k).
