(* Mem/BufferHistory.v — from single operations to every finite history; what an observer sees;
   end of scope. *)
From Coq Require Import NArith List Bool Lia Arith.
From ST Require Import Base.Outcome Base.Units Mem.Heap Mem.Buffer Mem.BufferRun Mem.BufferInv Mem.BufferOps Mem.BufferSteps.
Import ListNotations.
Local Open Scope nat_scope.

Section Hist.
Variable L : nat.
Hypothesis Lpos : 1 <= L.
Notation Inv := (Inv L).

(* run a list of operations, stopping at the first one that does not return normally *)
Fixpoint run_ops (ops : list bop) (st : store) : outcome unit * store :=
  match ops with
  | [] => (Ok tt, st)
  | op :: rest =>
      match run_bop L op st with
      | (Ok _, st') => run_ops rest st'
      | r => r
      end
  end.

(* well-formedness of a history, stated on the SPEC store (no reference to the model's state) *)
Definition slive (s : sstore) (o : objid) : Prop := s o <> None.
Definition sdead (s : sstore) (o : objid) : Prop := s o = None.
Definition wf_sop (s : sstore) (op : bop) : Prop :=
  match op with
  | BDef o | BNew o _ | BFill o _ _ => sdead s o
  | BNewNull o n => sdead s o /\ n = 0
  | BCopy o src | BMove o src => sdead s o /\ slive s src
  | BAsg o src | BMasg o src => slive s o /\ slive s src
  | BAlloc o _ _ | BAllocFill o _ _ | BWrite o _ _ | BClear o | BDel o => slive s o
  end.
Fixpoint wf_history (s : sstore) (ops : list bop) : Prop :=
  match ops with
  | [] => True
  | op :: rest => wf_sop s op /\ wf_history (spec_bop s op) rest
  end.

Lemma wf_transfer st s op : Rel st s -> wf_sop s op -> wf_bop st op.
Proof.
  intros R W. pose proof (fun o => rel_live st s o R) as E.
  unfold wf_bop, live, dead; unfold slive, sdead in W.
  destruct op; simpl in *; repeat match goal with H : _ /\ _ |- _ => destruct H end;
    repeat split; try (apply E; assumption); try assumption;
    try (intro Hc; apply E in Hc; contradiction).
Qed.

Theorem history_ok ops : forall st s,
  Inv st -> Rel st s -> wf_history s ops ->
  exists st', run_ops ops st = (Ok tt, st') /\ Inv st' /\ Rel st' (fold_left spec_bop ops s).
Proof.
  induction ops as [|op rest IH]; intros st s I R W.
  - exists st. simpl. auto.
  - destruct W as (W1 & W2).
    destruct (step_ok L Lpos st s op I R (wf_transfer st s op R W1)) as (st1 & E1 & I1 & R1 & F1).
    destruct (IH st1 _ I1 R1 W2) as (st2 & E2 & I2 & R2).
    exists st2. simpl. rewrite E1. auto.
Qed.

(* FRAME over histories: an object that is the target of no operation of the history keeps its
   record (data pointer, size, in-object array); Rel (same theorem) says its contents are unchanged *)
Definition untouched (o : objid) (ops : list bop) : Prop :=
  forall op, In op ops -> ~ In o (targets op).

Theorem history_frame ops : forall st s o,
  Inv st -> Rel st s -> wf_history s ops -> untouched o ops ->
  exists st', run_ops ops st = (Ok tt, st') /\ Inv st' /\ Rel st' (fold_left spec_bop ops s) /\
              objs st' o = objs st o.
Proof.
  induction ops as [|op rest IH]; intros st s o I R W U.
  - exists st. simpl. auto.
  - destruct W as (W1 & W2).
    destruct (step_ok L Lpos st s op I R (wf_transfer st s op R W1)) as (st1 & E1 & I1 & R1 & F1).
    destruct (IH st1 _ o I1 R1 W2) as (st2 & E2 & I2 & R2 & F2).
    { intros op' Hin. apply U. right. exact Hin. }
    exists st2. simpl. rewrite E1. split; [exact E2|]. split; [exact I2|]. split; [exact R2|].
    rewrite F2. apply F1. apply U. left. reflexivity.
Qed.

Corollary reachable_ok ops :
  wf_history sstore0 ops ->
  exists st', run_ops ops store0 = (Ok tt, st') /\ Inv st' /\ Rel st' (fold_left spec_bop ops sstore0).
Proof. apply history_ok; [apply inv_init | apply rel_init]. Qed.

(* ---- what an observer sees in a state satisfying Inv ---- *)
Theorem observe_ok st o r :
  Inv st -> objs st o = Some r ->
  observe o st = (Ok (mkobs (contents st r) (m_size r) true (if Nat.ltb (m_size r) L then LocOwn else LocHeap)), st).
Proof.
  intros I Ho. unfold observe.
  erewrite mbind_Ok; [|apply get_obj_ok; exact Ho].
  destruct (Nat.ltb_spec (m_size r) L) as [Hs|Hl].
  - destruct (short_local _ _ _ _ I Ho Hs) as (Hp & Ht & HdL). rewrite Hp.
    unfold Heap.mbind, arr. rewrite Ho.
    replace (Nat.ltb (length (m_data r)) (m_size r + 1)) with false by (symmetry; apply Nat.ltb_ge; lia).
    unfold ret. rewrite Ht. rewrite Nat.eqb_refl. unfold contents. rewrite Hp. reflexivity.
  - destruct (reffed_heap _ _ _ _ I Ho Hl) as (b & cc & Hp & Hb & Hcl & Ht). rewrite Hp.
    unfold Heap.mbind, arr, heap_block. rewrite Hb.
    replace (Nat.ltb (length cc) (m_size r + 1)) with false by (symmetry; apply Nat.ltb_ge; lia).
    unfold ret. rewrite Ht. unfold contents. rewrite Hp, Hb. reflexivity.
Qed.

(* no two live objects share storage *)
Theorem no_sharing st pool : Inv st -> shares st pool = false.
Proof.
  intros I. unfold shares. apply not_true_is_false. intros H.
  apply existsb_exists in H. destruct H as (a & _ & H).
  apply existsb_exists in H. destruct H as (b & _ & H).
  apply andb_true_iff in H. destruct H as (Hne & H).
  apply negb_true_iff, Nat.eqb_neq in Hne.
  unfold ptr_of in H.
  destruct (objs st a) as [ra|] eqn:Ha; [|discriminate].
  destruct (objs st b) as [rb|] eqn:Hb; [|discriminate].
  apply orb_true_iff in H. destruct H as [H|H].
  - (* equal pointers *)
    destruct (Nat.lt_ge_cases (m_size ra) L) as [Hs|Hl].
    + destruct (short_local _ _ _ _ I Ha Hs) as (Pa & _). rewrite Pa in H.
      destruct (m_chars rb) as [ob| |] eqn:Pb; simpl in H; try discriminate.
      apply Nat.eqb_eq in H. subst ob.
      destruct (Nat.lt_ge_cases (m_size rb) L) as [Hs2|Hl2].
      * destruct (short_local _ _ _ _ I Hb Hs2) as (Pb' & _). congruence.
      * destruct (reffed_heap _ _ _ _ I Hb Hl2) as (b2 & c2 & Pb' & _). congruence.
    + destruct (reffed_heap _ _ _ _ I Ha Hl) as (b1 & c1 & Pa & _). rewrite Pa in H.
      destruct (m_chars rb) as [|b2|] eqn:Pb; simpl in H; try discriminate.
      apply Nat.eqb_eq in H. subst b2. apply Hne. eapply (inv_uniq _ _ I); eauto.
  - (* a points into b *)
    destruct (m_chars ra) as [x| |] eqn:Pa; try discriminate.
    apply Nat.eqb_eq in H. subst x.
    destruct (Nat.lt_ge_cases (m_size ra) L) as [Hs|Hl].
    + destruct (short_local _ _ _ _ I Ha Hs) as (Pa' & _). congruence.
    + destruct (reffed_heap _ _ _ _ I Ha Hl) as (b1 & c1 & Pa' & _). congruence.
Qed.

(* ---- end of scope: destroying every live object releases every block ---- *)
Lemma destroy_all_ok pool : forall k st,
  Inv st -> exists st', destroy_all L k pool st = (Ok tt, st') /\ Inv st' /\
     (forall o, (k <= o < k + pool -> objs st' o = None) /\
                (~ (k <= o < k + pool) -> (objs st' o = None <-> objs st o = None))).
Proof.
  induction pool as [|p IH]; intros k st I.
  - exists st. simpl. split; [reflexivity|]. split; [exact I|]. intros o. split; [lia|tauto].
  - simpl. destruct (objs st k) as [r|] eqn:Hk.
    + destruct (dtor_ok L Lpos st (fun o => match objs st o with Some _ => Some Unspecified | None => None end) k I) as (st1 & E1 & I1 & R1 & F1).
      * intros o. destruct (objs st o); exact Logic.I.
      * congruence.
      * destruct (IH (S k) st1 I1) as (st2 & E2 & I2 & F2).
        exists st2. unfold Heap.mbind. rewrite E1. split; [exact E2|]. split; [exact I2|].
        assert (K1 : objs st1 k = None).
        { specialize (R1 k). simpl in R1. unfold sset in R1. rewrite upd_same in R1.
          destruct (objs st1 k); [contradiction|reflexivity]. }
        assert (K2 : forall o, o <> k -> (objs st1 o = None <-> objs st o = None)).
        { intros o N. specialize (R1 o). simpl in R1. unfold sset in R1. rewrite upd_other in R1 by exact N.
          destruct (objs st1 o), (objs st o); split; intros; try discriminate; try contradiction; auto. }
        intros o. destruct (F2 o) as (F2a & F2b). split.
        -- intros Hr. destruct (Nat.eq_dec o k) as [->|N].
           ++ apply F2b; [lia|exact K1].
           ++ apply F2a. lia.
        -- intros Hr. rewrite F2b by lia. apply K2. lia.
    + destruct (IH (S k) st I) as (st2 & E2 & I2 & F2).
      exists st2. split; [exact E2|]. split; [exact I2|].
      intros o. destruct (F2 o) as (F2a & F2b). split.
      * intros Hr. destruct (Nat.eq_dec o k) as [->|N].
        -- apply F2b; [lia|exact Hk].
        -- apply F2a. lia.
      * intros Hr. apply F2b. lia.
Qed.

Lemma live_blocks_zero h : (forall b, blocks h b = None) -> live_blocks h = 0.
Proof.
  intros H. unfold live_blocks.
  induction (seq 0 (nextb h)) as [|x l IH]; simpl; [reflexivity|]. rewrite H. exact IH.
Qed.

Theorem end_of_scope st pool :
  Inv st -> (forall o, pool <= o -> objs st o = None) ->
  leaked_after_scope L pool st = Ok 0.
Proof.
  intros I Hout. unfold leaked_after_scope.
  destruct (destroy_all_ok pool 0 st I) as (st' & E & I' & F). rewrite E.
  f_equal. apply live_blocks_zero. intros b.
  destruct (blocks (hp st') b) as [c|] eqn:Hb; [|reflexivity]. exfalso.
  destruct (inv_noleak _ _ I' _ _ Hb) as (o & r & Ho & _).
  destruct (F o) as (Fa & Fb).
  destruct (Nat.lt_ge_cases o pool) as [Hlt|Hge].
  - rewrite Fa in Ho by lia. discriminate.
  - assert (objs st' o = None) by (apply Fb; [lia|apply Hout; exact Hge]). congruence.
Qed.

(* ---- the function the correspondence check runs (run_history) never leaves what the spec allows ---- *)
Definition expected_loc (n : nat) : loc := if Nat.ltb n L then LocOwn else LocHeap.

(* what the SPEC allows an observer to see of one slot *)
Definition obs_allowed (sv : option sval) (ob : option obs) : Prop :=
  match sv, ob with
  | None, None => True
  | Some (Val l), Some o => o = mkobs l (length l) true (expected_loc (length l))
  | Some Unspecified, Some o =>          (* moved-from: SOME valid value *)
      o_term o = true /\ o_loc o = expected_loc (o_size o) /\ length (o_units o) = o_size o
  | _, _ => False
  end.

Definition step_allowed (pool : nat) (s : sstore) (stp : step_obs) : Prop :=
  s_result stp = Ok tt /\ s_shares stp = false /\
  length (s_objs stp) = pool /\
  forall i, i < pool -> obs_allowed (s i) (nth i (s_objs stp) None).

Lemma contents_length st o r : Inv st -> objs st o = Some r -> length (contents st r) = m_size r.
Proof.
  intros I Ho. unfold contents.
  destruct (Nat.lt_ge_cases (m_size r) L) as [Hs|Hl].
  - destruct (short_local _ _ _ _ I Ho Hs) as (Hp & _ & HdL). rewrite Hp, firstn_length. lia.
  - destruct (reffed_heap _ _ _ _ I Ho Hl) as (b & cc & Hp & Hb & Hcl & _). rewrite Hp, Hb, firstn_length. lia.
Qed.

Definition obs_of (st : store) (o : objid) : option obs :=
  match objs st o with
  | None => None
  | Some r => Some (mkobs (contents st r) (m_size r) true (expected_loc (m_size r)))
  end.

Lemma observe_all_ok st pool : forall k,
  Inv st -> observe_all k pool st = (Ok (map (obs_of st) (seq k pool)), st).
Proof.
  induction pool as [|p IH]; intros k I; simpl; [reflexivity|].
  unfold obs_of at 1. destruct (objs st k) as [r|] eqn:Hk.
  - unfold Heap.mbind. rewrite (observe_ok st k r I Hk). rewrite (IH (S k) I). reflexivity.
  - unfold Heap.mbind. rewrite (IH (S k) I). reflexivity.
Qed.

Lemma obs_of_allowed st s o : Inv st -> Rel st s -> obs_allowed (s o) (obs_of st o).
Proof.
  intros I R. unfold obs_of, obs_allowed. specialize (R o).
  destruct (objs st o) as [r|] eqn:Ho; destruct (s o) as [[l|]|]; try contradiction; auto.
  - pose proof (contents_length st o r I Ho) as Hlen. rewrite R in Hlen. rewrite <- Hlen, R. reflexivity.
  - simpl. repeat split. apply (contents_length st o r I Ho).
Qed.

Theorem run_history_allowed ops : forall st s pool,
  Inv st -> Rel st s -> wf_history s ops ->
  Forall2 (step_allowed pool) (spec_history ops s) (fst (run_history L ops pool st)) /\
  exists st', snd (run_history L ops pool st) = st' /\ Inv st' /\ Rel st' (fold_left spec_bop ops s).
Proof.
  induction ops as [|op rest IH]; intros st s pool I R W.
  - simpl. split; [constructor|]. eauto.
  - destruct W as (W1 & W2).
    destruct (step_ok L Lpos st s op I R (wf_transfer st s op R W1)) as (st1 & E1 & I1 & R1 & F1).
    specialize (IH st1 (spec_bop s op) pool I1 R1 W2). destruct IH as (IHa & st2 & E2 & I2 & R2).
    simpl. rewrite E1. rewrite (observe_all_ok st1 pool 0 I1).
    destruct (run_history L rest pool st1) as (more, stf) eqn:Er. simpl in *. split.
    + constructor; [|exact IHa]. unfold step_allowed; simpl. split; [reflexivity|].
      split; [apply no_sharing; exact I1|]. split; [rewrite map_length, seq_length; reflexivity|].
      intros i Hi. rewrite (nth_indep _ None (obs_of st1 (nth i (seq 0 pool) 0))).
      * rewrite map_nth. rewrite seq_nth by exact Hi. simpl. apply obs_of_allowed; assumption.
      * rewrite map_length, seq_length. exact Hi.
    + exists st2. auto.
Qed.

Theorem moved_from_valid st s o src :
  Inv st -> Rel st s -> objs st o <> None -> objs st src <> None ->
  exists st', assign_move L o src st = (Ok tt, st') /\ Inv st' /\
              exists r, objs st' src = Some r /\ obj_ok L st' src r.
Proof.
  intros I R Ho Hs.
  destruct (assign_move_ok L Lpos st s o src I R Ho Hs) as (st' & E & I' & R' & F').
  exists st'. split; [exact E|]. split; [exact I'|].
  assert (Hl : objs st' src <> None).
  { intros Hn. apply (rel_live st' _ src R') in Hn. simpl in Hn. unfold sset, sget, upd in Hn.
    destruct (Nat.eqb_spec o src) as [->|N].
    - apply (rel_live st s src R) in Hn. contradiction.
    - rewrite Nat.eqb_refl in Hn. discriminate. }
  destruct (objs st' src) as [r|] eqn:E2; [|contradiction].
  exists r. split; [reflexivity|]. apply (inv_wf _ _ I' _ _ E2).
Qed.

(* ---- copies are independent values (C04): after `buffer o(src)`, no operation that does not
   name src among its targets changes src's record or its contents ... ---- *)

(* every state satisfying Inv is related to the spec store that reads the values off the state *)
Definition sstore_of (st : store) : sstore :=
  fun o => match objs st o with Some r => Some (Val (contents st r)) | None => None end.
Lemma rel_sstore_of st : Rel st (sstore_of st).
Proof. intros o. unfold sstore_of. destruct (objs st o); reflexivity. Qed.

(* one well-formed operation leaves the record and the contents of every non-target object alone *)
Lemma step_independent st op x r :
  Inv st -> wf_bop st op -> ~ In x (targets op) -> objs st x = Some r ->
  exists st', run_bop L op st = (Ok tt, st') /\ Inv st' /\
              objs st' x = Some r /\ contents st' r = contents st r.
Proof.
  intros I W N Hx.
  destruct (step_ok L Lpos st (sstore_of st) op I (rel_sstore_of st) W) as (st' & E & I' & R' & F').
  exists st'. split; [exact E|]. split; [exact I'|].
  assert (Hx' : objs st' x = Some r) by (rewrite (F' x N); exact Hx).
  split; [exact Hx'|].
  apply (rel_val st' _ x r _ R' Hx'). rewrite (spec_bop_other _ _ _ N).
  unfold sstore_of. rewrite Hx. reflexivity.
Qed.

Theorem copy_independent st s o src op :
  Inv st -> Rel st s -> objs st o = None -> objs st src <> None ->
  wf_sop (spec_bop s (BCopy o src)) op -> ~ In src (targets op) ->
  exists st1 st2, ctor_copy L o src st = (Ok tt, st1) /\ run_bop L op st1 = (Ok tt, st2) /\ Inv st2 /\
    objs st1 src = objs st src /\ objs st2 src = objs st src /\
    (forall r, objs st src = Some r -> contents st1 r = contents st r /\ contents st2 r = contents st r) /\
    (forall r l, objs st src = Some r -> s src = Some (Val l) -> contents st2 r = l).
Proof.
  intros I R Hd Hs W N.
  destruct (ctor_copy_ok L Lpos st s o src I R Hd Hs) as (st1 & E1 & I1 & R1 & F1).
  destruct (objs st src) as [r|] eqn:Hr; [|congruence].
  assert (Hne : src <> o) by (intros ->; congruence).
  assert (N1 : ~ In src [o]) by (intros [HH|[]]; apply Hne; symmetry; exact HH).
  assert (Hr1 : objs st1 src = Some r) by (rewrite (F1 src N1); exact Hr).
  (* the copy itself does not change the contents of src *)
  assert (C1 : contents st1 r = contents st r).
  { destruct (ctor_copy_ok L Lpos st (sstore_of st) o src I (rel_sstore_of st) Hd) as (st1' & E1' & _ & R1' & _).
    - congruence.
    - rewrite E1 in E1'. injection E1' as <-.
      apply (rel_val st1 _ src r _ R1' Hr1). rewrite (spec_bop_other _ (BCopy o src) _ N1).
      unfold sstore_of. rewrite Hr. reflexivity. }
  destruct (step_independent st1 op src r I1 (wf_transfer st1 _ op R1 W) N Hr1) as (st2 & E2 & I2 & Hr2 & C2).
  exists st1, st2. split; [exact E1|]. split; [exact E2|]. split; [exact I2|].
  split; [exact Hr1|]. split; [exact Hr2|]. split.
  - intros r0 H0. injection H0 as <-. split; [exact C1|]. rewrite C2. exact C1.
  - intros r0 l H0 Hl. injection H0 as <-. rewrite C2, C1. apply (rel_val st s src r l R Hr Hl).
Qed.

(* ... and symmetrically: mutating or destroying the SOURCE (any operation that does not name the
   copy among its targets) leaves the copy with the value the source had when it was copied *)
Theorem copy_independent_rev st s o src op :
  Inv st -> Rel st s -> objs st o = None -> objs st src <> None ->
  wf_sop (spec_bop s (BCopy o src)) op -> ~ In o (targets op) ->
  exists st1 st2 rc, ctor_copy L o src st = (Ok tt, st1) /\ run_bop L op st1 = (Ok tt, st2) /\ Inv st2 /\
    objs st1 o = Some rc /\ objs st2 o = Some rc /\
    (forall r, objs st src = Some r -> contents st1 rc = contents st r /\ contents st2 rc = contents st r) /\
    (forall l, s src = Some (Val l) -> contents st2 rc = l).
Proof.
  intros I R Hd Hs W N.
  destruct (ctor_copy_ok L Lpos st s o src I R Hd Hs) as (st1 & E1 & I1 & R1 & F1).
  destruct (objs st src) as [r|] eqn:Hr; [|congruence].
  (* the copy is live and holds the contents of src *)
  destruct (ctor_copy_ok L Lpos st (sstore_of st) o src I (rel_sstore_of st) Hd) as (st1' & E1' & _ & R1' & _);
    [congruence|].
  rewrite E1 in E1'. injection E1' as <-.
  destruct (objs st1 o) as [rc|] eqn:Hc.
  2:{ exfalso. apply (rel_live st1 _ o R1') in Hc. simpl in Hc. unfold sset, sget in Hc.
      rewrite upd_same in Hc. unfold sstore_of in Hc. rewrite Hr in Hc. discriminate. }
  assert (C1 : contents st1 rc = contents st r).
  { apply (rel_val st1 _ o rc _ R1' Hc). simpl. unfold sset, sget. rewrite upd_same.
    unfold sstore_of. rewrite Hr. reflexivity. }
  destruct (step_independent st1 op o rc I1 (wf_transfer st1 _ op R1 W) N Hc) as (st2 & E2 & I2 & Hc2 & C2).
  exists st1, st2, rc. split; [exact E1|]. split; [exact E2|]. split; [exact I2|].
  split; [exact Hc|]. split; [exact Hc2|]. split.
  - intros r0 H0. injection H0 as <-. split; [exact C1|]. rewrite C2. exact C1.
  - intros l Hl. rewrite C2, C1. apply (rel_val st s src r l R Hr Hl).
Qed.

End Hist.
