(* Mem/StreamText.v — C16, the text side of ST::string_stream: to_string() and insertion of wide text,
   by composing the stream model (Mem/Stream.v) with the transcoder model (Utf/Model.v).

     string to_string(bool utf8_encoded, utf_validation_t validation) const
         { return utf8_encoded ? string::from_utf8(raw_buffer(), size(), validation)
                               : string::from_latin_1(raw_buffer(), size()); }
     string_stream &operator<<(const char16_t *text)      (and std::u16string / u16string_view)
         { ST::char_buffer utf8 = ST::utf16_to_utf8(text, length);       // default validation
           return append(utf8.data(), utf8.size()); }
     likewise char32_t / wchar_t through utf32_to_utf8 / wchar_to_utf8.                              *)
From Coq Require Import NArith List Bool Lia.
From ST Require Import Base.Outcome Base.Units Mem.Heap Mem.Stream Utf.Spec Utf.Model.
Import ListNotations.
Local Open Scope nat_scope.
Local Open Scope mem_scope.

Section ST.
Variable STK : nat.
Variable default_validation : vmode.      (* ST_DEFAULT_VALIDATION of the build *)

Definition lift {A} (o : outcome A) : MS A :=
  fun st => (o, st).

(* to_string(utf8_encoded, validation): reads raw_buffer()[0, size()) and builds an ST::string *)
Definition s_to_string (this : objid) (utf8_encoded : bool) (m : vmode) : MS (list N) :=
  ob <-- s_observe this ;;
  lift (if utf8_encoded then string_from_utf8 m (Some (so_bytes ob)) else string_from_latin_1 (Some (so_bytes ob))).

Inductive wide := W16 | W32 | WWchar.
Definition to_utf8_of (w : wide) : vmode -> option (list N) -> outcome (list N) :=
  match w with W16 => utf16_to_utf8 | W32 => utf32_to_utf8 | WWchar => wchar_to_utf8 end.

(* operator<<(wide text): convert into a temporary buffer, THEN append *)
Definition s_shl_wide (this : objid) (w : wide) (text : list N) : MS unit :=
  utf8 <-- lift (to_utf8_of w default_validation (Some text)) ;;
  s_append STK this utf8.

(* a failing conversion leaves the stream store untouched: nothing but the temporary was involved *)
Theorem shl_wide_failure_is_identity this w text e st :
  to_utf8_of w default_validation (Some text) = Throw e ->
  s_shl_wide this w text st = (Throw e, st).
Proof. intros H. unfold s_shl_wide, mbind, lift. rewrite H. reflexivity. Qed.

(* a successful conversion is exactly an append of the converted bytes *)
Theorem shl_wide_is_append this w text bytes st :
  to_utf8_of w default_validation (Some text) = Ok bytes ->
  s_shl_wide this w text st = s_append STK this bytes st.
Proof. intros H. unfold s_shl_wide, mbind, lift. rewrite H. reflexivity. Qed.

(* observing and to_string never change the stream store *)
Lemma s_observe_pure this st r st' : s_observe this st = (r, st') -> st' = st.
Proof.
  cbv [s_observe mbind sget_obj sarr ret mfault].
  destruct (sobjs st this) as [x|]; [|intros H; inversion H; reflexivity].
  destruct (s_chars x) as [o|b|].
  - destruct (sobjs st o) as [y|]; [|intros H; inversion H; reflexivity].
    destruct (Nat.ltb (length (s_stack y)) (s_size x)); intros H; inversion H; reflexivity.
  - destruct (heap_block (shp st) b) as [c| | |]; try (intros H; inversion H; reflexivity).
    destruct (Nat.ltb (length c) (s_size x)); intros H; inversion H; reflexivity.
  - intros H; inversion H; reflexivity.
Qed.

Theorem to_string_pure this u m st r st' : s_to_string this u m st = (r, st') -> st' = st.
Proof.
  unfold s_to_string, mbind. destruct (s_observe this st) as (o, s1) eqn:E.
  apply s_observe_pure in E. subst s1.
  destruct o; unfold lift; intros H; inversion H; reflexivity.
Qed.

(* what to_string returns, in terms of the observed bytes *)
Theorem to_string_value this u m st ob :
  s_observe this st = (Ok ob, st) ->
  s_to_string this u m st =
    ((if u then string_from_utf8 m (Some (so_bytes ob)) else string_from_latin_1 (Some (so_bytes ob))), st).
Proof. intros E. unfold s_to_string, mbind. rewrite E. reflexivity. Qed.

End ST.
