(* Mem/StreamFaults.v — C19 for ST::string_stream: the allocation made by a growing append throws. *)
From Coq Require Import NArith List Bool Lia Arith.
From ST Require Import Base.Outcome Base.Units Mem.Heap Mem.Stream Mem.StreamInv Mem.StreamSteps.
Import ListNotations.
Local Open Scope nat_scope.
Local Open Scope mem_scope.

Definition sarm (st : sstate) : sstate := swith_fail st (Some 0).

Lemma sdisarm_id st : fail_at (shp st) = None ->
  mksstate (sobjs st) (mkheap (blocks (shp st)) (nextb (shp st)) None) = st.
Proof. destruct st as [o [b n f]]; simpl; intros ->; reflexivity. Qed.

Section SF.
Variable STK : nat.
Hypothesis STKpos : 1 <= STK.

Lemma snew_armed st n : fail_at (shp st) = None -> snew n (sarm st) = (Throw BadAlloc, st).
Proof. intros H. unfold snew, sarm, swith_fail, heap_new. simpl. rewrite (sdisarm_id st H). reflexivity. Qed.

(* expand_buffer: `new` is the first thing that happens, so a failure leaves the stream untouched *)
Theorem fault_expand st o r added :
  SInv STK st -> sobjs st o = Some r -> s_alloc r < s_size r + added ->
  s_expand STK o added (sarm st) = (Throw BadAlloc, st).
Proof.
  intros I Ho Hg. unfold s_expand, mbind, sget_obj, sarm, swith_fail. cbn [sobjs shp]. rewrite Ho.
  replace (Nat.ltb (s_alloc r) (s_size r + added)) with true by (symmetry; apply Nat.ltb_lt; exact Hg).
  destruct (sinv_wf _ _ I _ _ Ho) as (_ & _ & Ha & _).
  destruct (growth_terminates (s_alloc r) (s_size r + added) ltac:(lia)) as (big & Eg & _).
  rewrite Eg. fold (swith_fail st (Some 0)). fold (sarm st).
  rewrite (snew_armed st big (sinv_nofail _ _ I)). reflexivity.
Qed.

(* a growing append / append_char / integer insertion whose allocation fails: bad_alloc reaches the
   caller and the stream (and every other stream) is exactly as before *)
Theorem fault_append st o r d :
  SInv STK st -> sobjs st o = Some r -> s_alloc r < s_size r + length d ->
  s_append STK o d (sarm st) = (Throw BadAlloc, st).
Proof.
  intros I Ho Hg. unfold s_append.
  destruct (sinv_wf _ _ I _ _ Ho) as (_ & Hsz & _).
  replace (Nat.eqb (length d) 0) with false by (symmetry; apply Nat.eqb_neq; lia).
  unfold mbind at 1. rewrite (fault_expand st o r (length d) I Ho Hg). reflexivity.
Qed.

Theorem fault_append_char st o r c n :
  SInv STK st -> sobjs st o = Some r -> s_alloc r < s_size r + n ->
  s_append_char STK o c n (sarm st) = (Throw BadAlloc, st).
Proof.
  intros I Ho Hg. unfold s_append_char.
  destruct (sinv_wf _ _ I _ _ Ho) as (_ & Hsz & _).
  replace (Nat.eqb n 0) with false by (symmetry; apply Nat.eqb_neq; lia).
  unfold mbind at 1. rewrite (fault_expand st o r n I Ho Hg). reflexivity.
Qed.

End SF.
