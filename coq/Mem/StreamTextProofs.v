(* Mem/StreamTextProofs.v — C16 text side: to_string() and wide-text insertion, by composing the stream
   theorems (Mem/StreamHistory.v) with the transcoder theorems (Utf/ProofsC01.v, Utf/ProofsC02.v). *)
From Coq Require Import NArith List Bool Lia.
From ST Require Import Base.Outcome Base.Units Mem.Heap Mem.Stream Mem.StreamInv Mem.StreamSteps Mem.StreamHistory
  Mem.StreamText Utf.Spec Utf.Tokens Utf.Model Utf.ProofsC01 Utf.ProofsC02.
Import ListNotations.
Local Open Scope nat_scope.

Section STP.
Variable STK : nat.
Hypothesis STKpos : 1 <= STK.

(* to_string() of a stream holding well-formed UTF-8 returns exactly the bytes appended, in every mode,
   and leaves the stream unchanged *)
Theorem to_string_wellformed st o r m :
  SInv STK st -> sobjs st o = Some r ->
  all_lt 256 (scontents st r) = true -> fits (scontents st r) -> WF8 (scontents st r) = true ->
  s_to_string o true m st = (Ok (scontents st r), st).
Proof.
  intros I Ho Hb Hf Hw.
  rewrite (to_string_value o true m st _ (observe_ok STK st o r I Ho)). simpl.
  unfold string_from_utf8. rewrite (string_keeps_wellformed m _ Hb Hf Hw). reflexivity.
Qed.

(* to_string(false): the Latin-1 reading of the bytes, transcoded to UTF-8 *)
Theorem to_string_latin1 st o r m :
  SInv STK st -> sobjs st o = Some r ->
  s_to_string o false m st = (string_from_latin_1 (Some (scontents st r)), st).
Proof.
  intros I Ho. rewrite (to_string_value o false m st _ (observe_ok STK st o r I Ho)). reflexivity.
Qed.

(* inserting well-formed UTF-16 / UTF-32 text is appending its standard UTF-8 encoding *)
Theorem shl_utf16_scalars dv o l st :
  scalars l = true -> fits (enc16 l) ->
  s_shl_wide STK dv o W16 (enc16 l) st = s_append STK o (enc8 l) st.
Proof.
  intros Hs Hf. apply shl_wide_is_append. simpl.
  destruct (utf_pairs_std dv l Hs) as (_ & _ & H & _). exact (H Hf).
Qed.

Theorem shl_utf32_scalars dv o l st :
  scalars l = true -> fits (enc32 l) ->
  s_shl_wide STK dv o W32 (enc32 l) st = s_append STK o (enc8 l) st.
Proof.
  intros Hs Hf. apply shl_wide_is_append. simpl.
  destruct (utf_pairs_std dv l Hs) as (_ & _ & _ & _ & H & _). exact (H Hf).
Qed.

End STP.
