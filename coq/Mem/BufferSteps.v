(* Mem/BufferSteps.v — per-member theorems: in a state satisfying Inv, with the abstract values
   related to a spec store by Rel, every member of ST::buffer<T> returns normally, re-establishes
   Inv and changes the abstract values exactly as the value-semantics spec says. *)
From Coq Require Import NArith List Bool Lia Arith.
From ST Require Import Base.Outcome Base.Units Mem.Heap Mem.Buffer Mem.BufferRun Mem.BufferInv Mem.BufferOps.
Import ListNotations.
Local Open Scope nat_scope.
Local Open Scope mem_scope.

Section Steps.
Variable L : nat.
Hypothesis Lpos : 1 <= L.
Notation Inv := (Inv L).

Ltac run :=
  unfold mbind, ret, mfault, mthrow, mabort, get_obj, set_obj, kill_obj, new_arr, delete_arr, heap_new, heap_delete,
         arr, set_arr, poke, poke_range, fill_range, peek_range, heap_block, heap_set_block, is_reffed; simpl.

(* ---------- executing the primitives ---------- *)
Lemma mbind_Ok {A B} (m : MB A) (k : A -> MB B) st a st1 :
  m st = (Ok a, st1) -> mbind m k st = k a st1.
Proof. intros H. unfold mbind. rewrite H. reflexivity. Qed.

Lemma get_obj_ok st o r : objs st o = Some r -> get_obj o st = (Ok r, st).
Proof. intros H. unfold get_obj. rewrite H. reflexivity. Qed.

Lemma new_arr_exec st n :
  fail_at (hp st) = None ->
  new_arr n st = (Ok (PHeap (nextb (hp st))),
                  mkstore (objs st) (mkheap (upd (blocks (hp st)) (nextb (hp st)) (Some (repeat junk n)))
                                            (S (nextb (hp st))) None)).
Proof. intros H. unfold new_arr, heap_new. rewrite H. reflexivity. Qed.

Lemma delete_arr_exec st b c :
  blocks (hp st) b = Some c ->
  delete_arr (PHeap b) st = (Ok tt, mkstore (objs st) (mkheap (upd (blocks (hp st)) b None) (nextb (hp st)) (fail_at (hp st)))).
Proof. intros H. unfold delete_arr, heap_delete. rewrite H. reflexivity. Qed.

Definition set_blk (st : store) (b : blockid) (c : list N) : store :=
  mkstore (objs st) (mkheap (upd (blocks (hp st)) b (Some c)) (nextb (hp st)) (fail_at (hp st))).
Definition set_data (st : store) (o : objid) (r : bufobj) (d : list N) : store :=
  mkstore (upd (objs st) o (Some (mkbuf (m_chars r) (m_size r) d))) (hp st).

(* FRAME: close  forall o', ~ In o' targets -> objs st' o' = objs st o'  when st' is an explicit
   tower of updates over st at keys that all occur in `targets` *)
Ltac frame_tac :=
  let o' := fresh "o'" in let N := fresh "N" in let E := fresh "E" in
  intros o' N;
  repeat match goal with x := _ : store |- _ => subst x end;
  cbn [objs hp]; unfold set_blk, set_data; cbn [objs hp];
  repeat (rewrite upd_other by (intro E; apply N; rewrite E; simpl; auto));
  reflexivity.

Lemma peek_heap st b c n :
  blocks (hp st) b = Some c -> n <= length c -> peek_range (PHeap b) n st = (Ok (firstn n c), st).
Proof.
  intros H Hn. unfold peek_range, mbind, arr, heap_block. rewrite H.
  replace (Nat.ltb (length c) n) with false by (symmetry; apply Nat.ltb_ge; lia). reflexivity.
Qed.
Lemma peek_local st o r n :
  objs st o = Some r -> n <= length (m_data r) -> peek_range (PLocal o) n st = (Ok (firstn n (m_data r)), st).
Proof.
  intros H Hn. unfold peek_range, mbind, arr. rewrite H.
  replace (Nat.ltb (length (m_data r)) n) with false by (symmetry; apply Nat.ltb_ge; lia). reflexivity.
Qed.

Lemma poke_range_heap st b c src n :
  blocks (hp st) b = Some c -> n <= length c -> n <= length src ->
  poke_range (PHeap b) src n st = (Ok tt, set_blk st b (firstn n src ++ skipn n c)).
Proof.
  intros H Hn Hs. unfold poke_range, mbind, arr, heap_block. rewrite H.
  replace (Nat.ltb (length c) n) with false by (symmetry; apply Nat.ltb_ge; lia).
  replace (Nat.ltb (length src) n) with false by (symmetry; apply Nat.ltb_ge; lia).
  unfold set_arr, heap_block. rewrite H. reflexivity.
Qed.
Lemma poke_range_local st o r src n :
  objs st o = Some r -> n <= length (m_data r) -> n <= length src ->
  poke_range (PLocal o) src n st = (Ok tt, set_data st o r (firstn n src ++ skipn n (m_data r))).
Proof.
  intros H Hn Hs. unfold poke_range, mbind, arr. rewrite H.
  replace (Nat.ltb (length (m_data r)) n) with false by (symmetry; apply Nat.ltb_ge; lia).
  replace (Nat.ltb (length src) n) with false by (symmetry; apply Nat.ltb_ge; lia).
  unfold set_arr. rewrite H. reflexivity.
Qed.

Lemma fill_range_heap st b c n v :
  blocks (hp st) b = Some c -> n <= length c ->
  fill_range (PHeap b) n v st = (Ok tt, set_blk st b (repeat v n ++ skipn n c)).
Proof.
  intros H Hn. unfold fill_range, mbind, arr, heap_block. rewrite H.
  replace (Nat.ltb (length c) n) with false by (symmetry; apply Nat.ltb_ge; lia).
  unfold set_arr, heap_block. rewrite H. reflexivity.
Qed.
Lemma fill_range_local st o r n v :
  objs st o = Some r -> n <= length (m_data r) ->
  fill_range (PLocal o) n v st = (Ok tt, set_data st o r (repeat v n ++ skipn n (m_data r))).
Proof.
  intros H Hn. unfold fill_range, mbind, arr. rewrite H.
  replace (Nat.ltb (length (m_data r)) n) with false by (symmetry; apply Nat.ltb_ge; lia).
  unfold set_arr. rewrite H. reflexivity.
Qed.

Lemma poke_heap st b c i v :
  blocks (hp st) b = Some c -> i < length c ->
  poke (PHeap b) i v st = (Ok tt, set_blk st b (set_nth c i v)).
Proof.
  intros H Hi. unfold poke, mbind, arr, heap_block. rewrite H.
  replace (Nat.ltb i (length c)) with true by (symmetry; apply Nat.ltb_lt; lia).
  unfold set_arr, heap_block. rewrite H. reflexivity.
Qed.
Lemma poke_local st o r i v :
  objs st o = Some r -> i < length (m_data r) ->
  poke (PLocal o) i v st = (Ok tt, set_data st o r (set_nth (m_data r) i v)).
Proof.
  intros H Hi. unfold poke, mbind, arr. rewrite H.
  replace (Nat.ltb i (length (m_data r))) with true by (symmetry; apply Nat.ltb_lt; lia).
  unfold set_arr. rewrite H. reflexivity.
Qed.

(* list facts *)
Lemma firstn_app_exact {A} (l1 l2 : list A) n : length l1 = n -> firstn n (l1 ++ l2) = l1.
Proof. intros <-. rewrite firstn_app, Nat.sub_diag, firstn_all. simpl. apply app_nil_r. Qed.
Lemma firstn_firstn_same {A} (l : list A) n : firstn n (firstn n l) = firstn n l.
Proof. rewrite firstn_firstn, Nat.min_id. reflexivity. Qed.
Lemma nth_app_r {A} (l1 l2 : list A) n d : length l1 = n -> nth n (l1 ++ l2) d = nth 0 l2 d.
Proof. intros <-. rewrite app_nth2 by lia. rewrite Nat.sub_diag. reflexivity. Qed.

(* ---------- extensionality of Inv / Rel ---------- *)
Lemma Inv_ext st st' :
  (forall o, objs st' o = objs st o) -> (forall b, blocks (hp st') b = blocks (hp st) b) ->
  nextb (hp st') = nextb (hp st) -> fail_at (hp st') = fail_at (hp st) -> Inv st -> Inv st'.
Proof.
  intros Ho Hb Hn Hf I. constructor.
  - intros o r H. rewrite Ho in H. eapply obj_ok_frame; [apply (inv_wf _ _ I _ _ H)|].
    intros b c _ Q. rewrite Hb. exact Q.
  - intros o1 o2 r1 r2 b H1 H2. rewrite Ho in H1, H2. eapply (inv_uniq _ _ I); eauto.
  - intros b c H. rewrite Hb in H. destruct (inv_noleak _ _ I _ _ H) as (o & r & A & B).
    exists o, r. rewrite Ho. auto.
  - intros b c H. rewrite Hb in H. rewrite Hn. apply (inv_next _ _ I _ _ H).
  - rewrite Hf. apply (inv_nofail _ _ I).
Qed.

Lemma contents_frame st st' r :
  (forall b, m_chars r = PHeap b -> blocks (hp st') b = blocks (hp st) b) ->
  contents st' r = contents st r.
Proof.
  intros H. unfold contents. destruct (m_chars r) as [o|b|]; auto. rewrite (H b eq_refl). reflexivity.
Qed.

(* Rel after changing (at most) object o *)
Lemma rel_update st st' s o v :
  Rel st s ->
  (forall o', o' <> o -> objs st' o' = objs st o') ->
  (forall o' r, o' <> o -> objs st o' = Some r -> contents st' r = contents st r) ->
  match objs st' o, v with
  | Some r, Some (Val l) => contents st' r = l
  | Some r, Some Unspecified => True
  | None, None => True
  | _, _ => False
  end ->
  Rel st' (upd s o v).
Proof.
  intros R Ho Hc Hv o'. unfold upd. destruct (Nat.eqb_spec o' o) as [->|Hne]; [exact Hv|].
  rewrite (Ho _ Hne). specialize (R o'). destruct (objs st o') as [r|] eqn:E; auto.
  destruct (s o') as [[l|]|]; auto. rewrite (Hc _ _ Hne E). exact R.
Qed.

Lemma rel_live st s o : Rel st s -> (objs st o = None <-> s o = None).
Proof.
  intros R. specialize (R o). destruct (objs st o), (s o) as [[|]|]; split; intros; try discriminate; auto; contradiction.
Qed.

(* the value of a live object whose spec value is known *)
Lemma rel_val st s o r l : Rel st s -> objs st o = Some r -> s o = Some (Val l) -> contents st r = l.
Proof. intros R Ho Hs. specialize (R o). rewrite Ho, Hs in R. exact R. Qed.

(* other objects never point to o's block / to a fresh block *)
Lemma other_block st o r b o' r' b' :
  Inv st -> objs st o = Some r -> m_chars r = PHeap b -> o' <> o -> objs st o' = Some r' ->
  m_chars r' = PHeap b' -> b' <> b.
Proof. intros I Ho Hp Hne Ho' Hp' ->. apply Hne. eapply (inv_uniq _ _ I); eauto. Qed.

(* ---------- buffer() ---------- *)
Theorem ctor_default_ok st s o :
  Inv st -> Rel st s -> objs st o = None ->
  exists st', ctor_default L o st = (Ok tt, st') /\ Inv st' /\ Rel st' (spec_bop s (BDef o)) /\
              (forall o', ~ In o' [o] -> objs st' o' = objs st o').
Proof.
  intros I R Hd. eexists. split; [reflexivity|]. split; [|split].
  - apply inv_set_short; auto.
    + intros r H. congruence.
    + apply zeros_length.
    + apply nth_zeros; auto; lia.
  - simpl. unfold sset. eapply rel_update; eauto; simpl.
    + intros o' Hne. apply upd_other; auto.
    + rewrite upd_same. reflexivity.
  - frame_tac.
Qed.


Lemma upd_upd {A} (f : nat -> A) k v1 v2 x : upd (upd f k v1) k v2 x = upd f k v2 x.
Proof. unfold upd. destruct (Nat.eqb x k); reflexivity. Qed.

Ltac step lem := erewrite mbind_Ok; [| lem ].
Ltac ltb_true := match goal with |- context [Nat.ltb ?a ?b] => replace (Nat.ltb a b) with true by (symmetry; apply Nat.ltb_lt; lia) end.
Ltac ltb_false := match goal with |- context [Nat.ltb ?a ?b] => replace (Nat.ltb a b) with false by (symmetry; apply Nat.ltb_ge; lia) end.
Ltac leb_true := match goal with |- context [Nat.leb ?a ?b] => replace (Nat.leb a b) with true by (symmetry; apply Nat.leb_le; lia) end.
Ltac leb_false := match goal with |- context [Nat.leb ?a ?b] => replace (Nat.leb a b) with false by (symmetry; apply Nat.leb_gt; lia) end.

(* ---------- shared by copy construction / assignment: give (dead or short) `this` a copy of c ---------- *)
Lemma copy_body_ok st s this c vc cur :
  Inv st -> Rel st s ->
  (forall r, objs st this = Some r -> m_size r < L) ->
  (exists oc, oc <> this /\ objs st oc = Some c /\ s oc = Some vc) ->
  length (m_data cur) = L ->
  exists st', copy_body L this c cur st = (Ok tt, st') /\ Inv st' /\ Rel st' (upd s this (Some vc)) /\
              (forall o', ~ In o' [this] -> objs st' o' = objs st o').
Proof.
  intros I R Hshort (oc & Hne & Hoc & Hsc) Hcur. unfold copy_body, is_reffed.
  destruct (Nat.leb_spec L (m_size c)) as [Hlong|Hsh].
  - (* long source: new block *)
    destruct (reffed_heap _ _ _ _ I Hoc Hlong) as (b & cc & Hp & Hb & Hlen & Ht).
    destruct (fresh_unref L Lpos st I) as (Hfresh & Hunref).
    assert (Hbne : b <> nextb (hp st)) by (intros ->; congruence).
    step ltac:(apply new_arr_exec; apply (inv_nofail _ _ I)).
    rewrite Hp.
    step ltac:(eapply peek_heap; [simpl; rewrite upd_other by exact Hbne; exact Hb | lia]).
    step ltac:(eapply poke_range_heap; [simpl; apply upd_same | rewrite repeat_length; lia | rewrite firstn_length; lia]).
    set (c1 := firstn (m_size c) (firstn (m_size c) cc) ++ skipn (m_size c) (repeat junk (m_size c + 1))).
    assert (Hc1 : length c1 = m_size c + 1).
    { unfold c1. rewrite app_length, !firstn_length, skipn_length, repeat_length. lia. }
    step ltac:(eapply poke_heap; [simpl; apply upd_same | lia]).
    set (c2 := set_nth c1 (m_size c) 0%N).
    assert (Hc2 : length c2 = m_size c + 1) by (unfold c2; rewrite set_nth_length; exact Hc1).
    assert (Hfirst : firstn (m_size c) c2 = firstn (m_size c) cc).
    { unfold c2. rewrite firstn_set_nth_ge by lia. unfold c1.
      rewrite firstn_app_exact; [apply firstn_firstn_same|]. rewrite !firstn_length. lia. }
    eexists. split; [reflexivity|]. split; [|split].
    + eapply Inv_ext; [| | | |
        apply (inv_set_long L Lpos st this (m_data cur) (m_size c) (nextb (hp st)) c2 I Hshort Hfresh Hunref Hcur Hlong Hc2)].
      * intros o. reflexivity.
      * intros b0. simpl. rewrite !upd_upd. reflexivity.
      * simpl. lia.
      * simpl. rewrite (inv_nofail _ _ I). reflexivity.
      * unfold c2. apply nth_set_same. lia.
    + eapply rel_update; eauto; simpl.
      * intros o' Hne'. apply upd_other; auto.
      * intros o' r' Hne' Ho'. apply contents_frame. simpl. intros b0 Hp0. rewrite !upd_upd.
        apply upd_other. intros ->. eapply Hunref; eauto.
      * rewrite upd_same. destruct vc as [l|]; auto.
        unfold contents; simpl. rewrite upd_same. fold c1. fold c2. rewrite Hfirst.
        pose proof (rel_val _ _ _ _ _ R Hoc Hsc) as V. unfold contents in V. rewrite Hp, Hb in V. exact V.
    + frame_tac.
  - (* short source: copy the in-object array *)
    destruct (short_local _ _ _ _ I Hoc Hsh) as (Hp & Ht & Hlen).
    eexists. split; [reflexivity|]. split; [|split].
    + apply inv_set_short; auto.
    + eapply rel_update; eauto; simpl.
      * intros o' Hne'. apply upd_other; auto.
      * rewrite upd_same. destruct vc as [l|]; auto. unfold contents; simpl.
        pose proof (rel_val _ _ _ _ _ R Hoc Hsc) as V. unfold contents in V. rewrite Hp in V. exact V.
    + frame_tac.
Qed.

Lemma Rel_ext st s s' : (forall o, s' o = s o) -> Rel st s -> Rel st s'.
Proof. intros E R o. rewrite E. apply R. Qed.

(* ---------- buffer(const buffer &) ---------- *)
Theorem ctor_copy_ok st s o src :
  Inv st -> Rel st s -> objs st o = None -> objs st src <> None ->
  exists st', ctor_copy L o src st = (Ok tt, st') /\ Inv st' /\ Rel st' (spec_bop s (BCopy o src)) /\
              (forall o', ~ In o' [o] -> objs st' o' = objs st o').
Proof.
  intros I R Hd Hs. destruct (objs st src) as [c|] eqn:Hc; [|congruence].
  assert (Hne : src <> o) by (intros ->; congruence).
  destruct (s src) as [vc|] eqn:Hv.
  2:{ exfalso. apply (rel_live _ _ src R) in Hv. congruence. }
  unfold ctor_copy. step ltac:(apply get_obj_ok; exact Hc).
  destruct (copy_body_ok st s o c vc (mkbuf PNull 0 (repeat junk L)) I R) as (st' & E & I' & R' & F').
  - intros r H. congruence.
  - exists src. auto.
  - simpl. apply repeat_length.
  - exists st'. split; [exact E|]. split; [exact I'|]. split; [|exact F'].
    simpl. unfold sset, sget. rewrite Hv. exact R'.
Qed.

(* ---------- general: move the block of a long object into a dead slot ---------- *)
Lemma inv_transfer st o src r b d :
  Inv st -> objs st src = Some r -> L <= m_size r -> m_chars r = PHeap b -> objs st o = None ->
  length d = L ->
  Inv (mkstore (upd (upd (objs st) o (Some (mkbuf (PHeap b) (m_size r) d))) src
                    (Some (mkbuf (PLocal src) 0 (zeros L)))) (hp st)).
Proof.
  intros I Hs Hl Hp Hd Hlen.
  assert (Hne : o <> src) by (intros ->; congruence).
  destruct (reffed_heap _ _ _ _ I Hs Hl) as (b0 & cc & Hp0 & Hb & Hcl & Ht).
  rewrite Hp in Hp0. injection Hp0 as <-.
  constructor; simpl.
  - intros o' r' H. unfold upd in H.
    destruct (Nat.eqb_spec o' src) as [->|N1].
    + inj H. apply obj_ok_short; auto. apply zeros_length. apply nth_zeros; auto; lia.
    + destruct (Nat.eqb_spec o' o) as [->|N2].
      * inj H. eapply obj_ok_long; eauto.
      * eapply obj_ok_frame; [apply (inv_wf _ _ I _ _ H)|]. auto.
  - intros o1 o2 r1 r2 b' H1 H2 P1 P2. unfold upd in H1, H2.
    destruct (Nat.eqb_spec o1 src) as [->|A1]; [inj H1; simpl in P1; discriminate|].
    destruct (Nat.eqb_spec o2 src) as [->|A2]; [inj H2; simpl in P2; discriminate|].
    destruct (Nat.eqb_spec o1 o) as [->|B1]; destruct (Nat.eqb_spec o2 o) as [->|B2]; auto.
    + inj H1. simpl in P1. injection P1 as <-. exfalso. apply A2. eapply (inv_uniq _ _ I); eauto.
    + inj H2. simpl in P2. injection P2 as <-. exfalso. apply A1. eapply (inv_uniq _ _ I); eauto.
    + eapply (inv_uniq _ _ I); eauto.
  - intros b' c' Hb'. destruct (inv_noleak _ _ I _ _ Hb') as (o' & r' & Ho' & Hp').
    destruct (Nat.eq_dec o' src) as [->|N1].
    + rewrite Hs in Ho'. injection Ho' as <-. rewrite Hp in Hp'. injection Hp' as <-.
      exists o. eexists. rewrite upd_other by exact Hne. rewrite upd_same. split; reflexivity.
    + exists o', r'. rewrite upd_other by exact N1. rewrite upd_other; [auto|]. intros ->. congruence.
  - apply (inv_next _ _ I).
  - apply (inv_nofail _ _ I).
Qed.

(* ---------- buffer(buffer &&) ---------- *)
Theorem ctor_move_ok st s o src :
  Inv st -> Rel st s -> objs st o = None -> objs st src <> None ->
  exists st', ctor_move L o src st = (Ok tt, st') /\ Inv st' /\ Rel st' (spec_bop s (BMove o src)) /\
              (forall o', ~ In o' [o; src] -> objs st' o' = objs st o').
Proof.
  intros I R Hd Hs. destruct (objs st src) as [c|] eqn:Hc; [|congruence].
  assert (Hne : src <> o) by (intros ->; congruence).
  destruct (s src) as [vc|] eqn:Hv.
  2:{ exfalso. apply (rel_live _ _ src R) in Hv. congruence. }
  unfold ctor_move. step ltac:(apply get_obj_ok; exact Hc).
  eexists. split; [reflexivity|]. cbn [objs hp].
  assert (Hlen : length (m_data c) = L) by (destruct (inv_wf _ _ I _ _ Hc) as (A & _); exact A).
  destruct (Nat.leb_spec L (m_size c)) as [Hlong|Hsh].
  - destruct (reffed_heap _ _ _ _ I Hc Hlong) as (b & cc & Hp & Hb & Hcl & Ht).
    split; [|split].
    + rewrite Hp. apply inv_transfer; auto.
    + simpl. unfold sset, sget. rewrite Hv.
      set (st1 := mkstore (upd (objs st) o (Some (mkbuf (PHeap b) (m_size c) (m_data c)))) (hp st)).
      assert (R1 : Rel st1 (upd s o (Some vc))).
      { apply (rel_update st st1 s o (Some vc) R); simpl.
        - intros o' N. apply upd_other; auto.
        - intros o' r N H. reflexivity.
        - rewrite upd_same. destruct vc as [l|]; auto.
          pose proof (rel_val _ _ _ _ _ R Hc Hv) as V. unfold contents in *. simpl. rewrite Hp in V. exact V. }
      rewrite Hp.
      apply (rel_update st1 _ _ src (Some Unspecified) R1); simpl.
      * intros o' N. apply upd_other; auto.
      * intros o' r N H. reflexivity.
      * rewrite upd_same. exact Logic.I.
    + frame_tac.
  - destruct (short_local _ _ _ _ I Hc Hsh) as (Hp & Ht & _).
    split; [|split].
    + set (st1 := mkstore (upd (objs st) o (Some (mkbuf (PLocal o) (m_size c) (m_data c)))) (hp st)).
      change (Inv (mkstore (upd (objs st1) src (Some (mkbuf (PLocal src) 0 (zeros L)))) (hp st1))).
      apply inv_set_short; auto.
      * apply inv_set_short; auto. intros r H; congruence.
      * simpl. intros r H. rewrite upd_other in H by exact Hne. rewrite Hc in H. injection H as <-. exact Hsh.
      * apply zeros_length.
      * apply nth_zeros; auto; lia.
    + simpl. unfold sset, sget. rewrite Hv.
      set (st1 := mkstore (upd (objs st) o (Some (mkbuf (PLocal o) (m_size c) (m_data c)))) (hp st)).
      assert (R1 : Rel st1 (upd s o (Some vc))).
      { apply (rel_update st st1 s o (Some vc) R); simpl.
        - intros o' N. apply upd_other; auto.
        - intros o' r N H. reflexivity.
        - rewrite upd_same. destruct vc as [l|]; auto.
          pose proof (rel_val _ _ _ _ _ R Hc Hv) as V. unfold contents in *. simpl. rewrite Hp in V. exact V. }
      apply (rel_update st1 _ _ src (Some Unspecified) R1); simpl.
      * intros o' N. apply upd_other; auto.
      * intros o' r N H. reflexivity.
      * rewrite upd_same. exact Logic.I.
    + frame_tac.
Qed.

(* pointwise collapse of repeated updates, used with Inv_ext *)
Lemma upd_upd_fun {A} (f : nat -> A) k v1 v2 : forall x, upd (upd f k v1) k v2 x = upd f k v2 x.
Proof. intros x. apply upd_upd. Qed.

(* ---------- buffer(const char_T *, size_t) ---------- *)
Theorem ctor_ptr_ok st s o d :
  Inv st -> Rel st s -> objs st o = None ->
  exists st', ctor_ptr L o (Some d) (length d) st = (Ok tt, st') /\ Inv st' /\ Rel st' (spec_bop s (BNew o d)) /\
              (forall o', ~ In o' [o] -> objs st' o' = objs st o').
Proof.
  intros I R Hd. unfold ctor_ptr. cbn [negb].
  destruct (Nat.leb_spec L (length d)) as [Hlong|Hsh].
  - destruct (fresh_unref L Lpos st I) as (Hfresh & Hunref).
    step ltac:(apply new_arr_exec; apply (inv_nofail _ _ I)).
    unfold set_obj at 1. unfold mbind at 1. cbn [objs hp].
    step ltac:(eapply poke_range_heap; [cbn [hp blocks]; apply upd_same | rewrite repeat_length; lia | lia]).
    set (c1 := firstn (length d) d ++ skipn (length d) (repeat junk (length d + 1))).
    assert (Hc1 : length c1 = length d + 1).
    { unfold c1. rewrite app_length, firstn_length, skipn_length, repeat_length. lia. }
    eexists. split; [eapply poke_heap; [cbn [hp blocks set_blk]; apply upd_same | lia]|].
    set (c2 := set_nth c1 (length d) 0%N).
    assert (Hc2 : length c2 = length d + 1) by (unfold c2; rewrite set_nth_length; exact Hc1).
    assert (Hfirst : firstn (length d) c2 = d).
    { unfold c2. rewrite firstn_set_nth_ge by lia. unfold c1. rewrite firstn_all.
      apply firstn_app_exact. reflexivity. }
    split; [|split].
    + eapply Inv_ext; [| | | |
        apply (inv_set_long L Lpos st o (zeros L) (length d) (nextb (hp st)) c2 I)]; auto.
      * intros b0. cbn. rewrite !upd_upd. reflexivity.
      * cbn. lia.
      * cbn. rewrite (inv_nofail _ _ I). reflexivity.
      * intros r H; congruence.
      * apply zeros_length.
      * unfold c2. apply nth_set_same. lia.
    + simpl spec_bop. unfold sset. apply (rel_update st _ s o (Some (Val d)) R); cbn.
      * intros o' N. apply upd_other; auto.
      * intros o' r' N Ho'. apply contents_frame. cbn. intros b0 Hp0. rewrite !upd_upd.
        apply upd_other. intros ->. eapply Hunref; eauto.
      * rewrite upd_same. unfold contents; cbn. rewrite upd_same. exact Hfirst.
    + frame_tac.
  - unfold ret at 1. unfold mbind at 1.
    unfold set_obj at 1. unfold mbind at 1. cbn [objs hp].
    set (st1 := mkstore (upd (objs st) o (Some (mkbuf (PLocal o) (length d) (zeros L)))) (hp st)).
    step ltac:(eapply (poke_range_local st1 o (mkbuf (PLocal o) (length d) (zeros L)));
               [cbn; apply upd_same | cbn; rewrite zeros_length; lia | lia]).
    set (d1 := firstn (length d) d ++ skipn (length d) (zeros L)).
    assert (Hd1 : length d1 = L).
    { unfold d1. rewrite app_length, firstn_length, skipn_length, zeros_length. lia. }
    eexists. split.
    { eapply (poke_local _ o (mkbuf (PLocal o) (length d) d1)); [cbn; apply upd_same | cbn; lia]. }
    set (d2 := set_nth d1 (length d) 0%N).
    split; [|split].
    + eapply Inv_ext; [| | | | apply (inv_set_short L Lpos st o d2 (length d) I)]; auto.
      * intros o0. cbn. rewrite !upd_upd. reflexivity.
      * intros r H; congruence.
      * unfold d2. rewrite set_nth_length. exact Hd1.
      * unfold d2. apply nth_set_same. lia.
    + simpl spec_bop. unfold sset. apply (rel_update st _ s o (Some (Val d)) R); cbn.
      * intros o' N. rewrite !upd_other by exact N. reflexivity.
      * intros o' r' N Ho'. reflexivity.
      * rewrite upd_same. unfold contents; cbn. fold d1. fold d2. unfold d2.
        rewrite firstn_set_nth_ge by lia. unfold d1. rewrite firstn_all. apply firstn_app_exact. reflexivity.
    + frame_tac.
Qed.

(* ---------- buffer(nullptr, 0) ---------- *)
Theorem ctor_null_ok st s o :
  Inv st -> Rel st s -> objs st o = None ->
  exists st', ctor_ptr L o None 0 st = (Ok tt, st') /\ Inv st' /\ Rel st' (spec_bop s (BNewNull o 0)) /\
              (forall o', ~ In o' [o] -> objs st' o' = objs st o').
Proof.
  intros I R Hd. unfold ctor_ptr. cbn [negb Nat.eqb].
  replace (Nat.leb L 0) with false by (symmetry; apply Nat.leb_gt; lia).
  unfold ret at 1. unfold mbind at 1.
  unfold set_obj at 1. unfold mbind at 1. cbn [objs hp].
  unfold ret at 1. unfold mbind at 1.
  set (st1 := mkstore (upd (objs st) o (Some (mkbuf (PLocal o) 0 (zeros L)))) (hp st)).
  eexists. split.
  { eapply (poke_local st1 o (mkbuf (PLocal o) 0 (zeros L))); [cbn; apply upd_same | cbn; rewrite zeros_length; lia]. }
  split; [|split].
  - eapply Inv_ext; [| | | | apply (inv_set_short L Lpos st o (set_nth (zeros L) 0 0%N) 0 I)]; auto.
    + intros o0. cbn. rewrite !upd_upd. reflexivity.
    + intros r H; congruence.
    + rewrite set_nth_length. apply zeros_length.
    + apply nth_set_same. rewrite zeros_length. lia.
  - simpl spec_bop. unfold sset. apply (rel_update st _ s o (Some (Val [])) R); cbn.
    + intros o' N. rewrite !upd_other by exact N. reflexivity.
    + intros o' r' N Ho'. reflexivity.
    + rewrite upd_same. reflexivity.
  - frame_tac.
Qed.

(* ---------- buffer(size_t count, char_T fill) ---------- *)
Theorem ctor_fill_ok st s o n v :
  Inv st -> Rel st s -> objs st o = None ->
  exists st', ctor_fill L o n v st = (Ok tt, st') /\ Inv st' /\ Rel st' (spec_bop s (BFill o n v)) /\
              (forall o', ~ In o' [o] -> objs st' o' = objs st o').
Proof.
  intros I R Hd. unfold ctor_fill.
  destruct (Nat.leb_spec L n) as [Hlong|Hsh].
  - destruct (fresh_unref L Lpos st I) as (Hfresh & Hunref).
    step ltac:(apply new_arr_exec; apply (inv_nofail _ _ I)).
    unfold set_obj at 1. unfold mbind at 1. cbn [objs hp].
    step ltac:(eapply fill_range_heap; [cbn [hp blocks]; apply upd_same | rewrite repeat_length; lia]).
    set (c1 := repeat v n ++ skipn n (repeat junk (n + 1))).
    assert (Hc1 : length c1 = n + 1).
    { unfold c1. rewrite app_length, skipn_length, !repeat_length. lia. }
    eexists. split; [eapply poke_heap; [cbn [hp blocks set_blk]; apply upd_same | lia]|].
    set (c2 := set_nth c1 n 0%N).
    assert (Hc2 : length c2 = n + 1) by (unfold c2; rewrite set_nth_length; exact Hc1).
    assert (Hfirst : firstn n c2 = repeat v n).
    { unfold c2. rewrite firstn_set_nth_ge by lia. unfold c1. apply firstn_app_exact. apply repeat_length. }
    split; [|split].
    + eapply Inv_ext; [| | | |
        apply (inv_set_long L Lpos st o (zeros L) n (nextb (hp st)) c2 I)]; auto.
      * intros b0. cbn. rewrite !upd_upd. reflexivity.
      * cbn. lia.
      * cbn. rewrite (inv_nofail _ _ I). reflexivity.
      * intros r H; congruence.
      * apply zeros_length.
      * unfold c2. apply nth_set_same. lia.
    + simpl spec_bop. unfold sset. apply (rel_update st _ s o (Some (Val (repeat v n))) R); cbn.
      * intros o' N. apply upd_other; auto.
      * intros o' r' N Ho'. apply contents_frame. cbn. intros b0 Hp0. rewrite !upd_upd.
        apply upd_other. intros ->. eapply Hunref; eauto.
      * rewrite upd_same. unfold contents; cbn. rewrite upd_same. exact Hfirst.
    + frame_tac.
  - unfold ret at 1. unfold mbind at 1.
    unfold set_obj at 1. unfold mbind at 1. cbn [objs hp].
    set (st1 := mkstore (upd (objs st) o (Some (mkbuf (PLocal o) n (zeros L)))) (hp st)).
    step ltac:(eapply (fill_range_local st1 o (mkbuf (PLocal o) n (zeros L)));
               [cbn; apply upd_same | cbn; rewrite zeros_length; lia]).
    set (d1 := repeat v n ++ skipn n (zeros L)).
    assert (Hd1 : length d1 = L).
    { unfold d1. rewrite app_length, skipn_length, repeat_length, zeros_length. lia. }
    eexists. split.
    { eapply (poke_local _ o (mkbuf (PLocal o) n d1)); [cbn; apply upd_same | cbn; lia]. }
    set (d2 := set_nth d1 n 0%N).
    split; [|split].
    + eapply Inv_ext; [| | | | apply (inv_set_short L Lpos st o d2 n I)]; auto.
      * intros o0. cbn. rewrite !upd_upd. reflexivity.
      * intros r H; congruence.
      * unfold d2. rewrite set_nth_length. exact Hd1.
      * unfold d2. apply nth_set_same. lia.
    + simpl spec_bop. unfold sset. apply (rel_update st _ s o (Some (Val (repeat v n))) R); cbn.
      * intros o' N. rewrite !upd_other by exact N. reflexivity.
      * intros o' r' N Ho'. reflexivity.
      * rewrite upd_same. unfold contents; cbn. fold d1. fold d2. unfold d2.
        rewrite firstn_set_nth_ge by lia. unfold d1. apply firstn_app_exact. apply repeat_length.
    + frame_tac.
Qed.

(* ---------- clear() and ~buffer() ---------- *)
Theorem clear_ok st s o :
  Inv st -> Rel st s -> objs st o <> None ->
  exists st', clear L o st = (Ok tt, st') /\ Inv st' /\ Rel st' (spec_bop s (BClear o)) /\
              objs st' o = Some (mkbuf (PLocal o) 0 (zeros L)) /\
              (forall o', ~ In o' [o] -> objs st' o' = objs st o').
Proof.
  intros I R Hl. destruct (objs st o) as [r|] eqn:Ho; [|congruence]. unfold clear.
  step ltac:(apply get_obj_ok; exact Ho). unfold is_reffed.
  destruct (Nat.leb_spec L (m_size r)) as [Hlong|Hsh].
  - destruct (reffed_heap _ _ _ _ I Ho Hlong) as (b & cc & Hp & Hb & Hcl & Ht). rewrite Hp.
    step ltac:(eapply delete_arr_exec; exact Hb).
    eexists. split; [reflexivity|]. cbn [objs hp]. split; [|split; [|split; [apply upd_same|frame_tac]]].
    + eapply inv_release; eauto. apply zeros_length. apply nth_zeros; auto; lia.
    + simpl spec_bop. unfold sset. apply (rel_update st _ s o (Some (Val [])) R); cbn.
      * intros o' N. apply upd_other; auto.
      * intros o' r' N Ho'. apply contents_frame. cbn. intros b0 Hp0. apply upd_other.
        apply (other_block st o r b o' r' b0 I Ho Hp N Ho' Hp0).
      * rewrite upd_same. reflexivity.
  - unfold ret at 1. unfold mbind at 1.
    eexists. split; [reflexivity|]. cbn [objs hp]. split; [|split; [|split; [apply upd_same|frame_tac]]].
    + apply inv_set_short; auto.
      * intros r' H. rewrite Ho in H. injection H as <-. exact Hsh.
      * apply zeros_length.
      * apply nth_zeros; auto; lia.
    + simpl spec_bop. unfold sset. apply (rel_update st _ s o (Some (Val [])) R); cbn.
      * intros o' N. apply upd_other; auto.
      * intros o' r' N Ho'. reflexivity.
      * rewrite upd_same. reflexivity.
Qed.

Theorem dtor_ok st s o :
  Inv st -> Rel st s -> objs st o <> None ->
  exists st', dtor L o st = (Ok tt, st') /\ Inv st' /\ Rel st' (spec_bop s (BDel o)) /\
              (forall o', ~ In o' [o] -> objs st' o' = objs st o').
Proof.
  intros I R Hl. destruct (objs st o) as [r|] eqn:Ho; [|congruence]. unfold dtor.
  step ltac:(apply get_obj_ok; exact Ho). unfold is_reffed.
  destruct (Nat.leb_spec L (m_size r)) as [Hlong|Hsh].
  - destruct (reffed_heap _ _ _ _ I Ho Hlong) as (b & cc & Hp & Hb & Hcl & Ht). rewrite Hp.
    step ltac:(eapply delete_arr_exec; exact Hb).
    eexists. split; [reflexivity|]. cbn [objs hp]. split; [|split; [|frame_tac]].
    + (* release to a short value, then destroy it *)
      pose proof (inv_release L Lpos st o r b (zeros L) 0 I Ho Hp (zeros_length L)) as I1.
      assert (H0 : 0 < L) by lia. specialize (I1 H0 (nth_zeros L Lpos 0 H0)).
      eapply Inv_ext; [| | | | eapply (inv_kill_short L _ o _ I1)].
      * intros o0. cbn. rewrite upd_upd. reflexivity.
      * intros b0. reflexivity.
      * reflexivity.
      * reflexivity.
      * cbn. apply upd_same.
      * cbn. lia.
    + simpl spec_bop. unfold sset. apply (rel_update st _ s o None R); cbn.
      * intros o' N. apply upd_other; auto.
      * intros o' r' N Ho'. apply contents_frame. cbn. intros b0 Hp0. apply upd_other.
        apply (other_block st o r b o' r' b0 I Ho Hp N Ho' Hp0).
      * rewrite upd_same. exact Logic.I.
  - unfold ret at 1. unfold mbind at 1.
    eexists. split; [reflexivity|]. cbn [objs hp]. split; [|split; [|frame_tac]].
    + eapply inv_kill_short; eauto.
    + simpl spec_bop. unfold sset. apply (rel_update st _ s o None R); cbn.
      * intros o' N. apply upd_other; auto.
      * intros o' r' N Ho'. reflexivity.
      * rewrite upd_same. exact Logic.I.
Qed.

(* ---------- operator=(const buffer &) ---------- *)
Theorem assign_copy_ok st s o src :
  Inv st -> Rel st s -> objs st o <> None -> objs st src <> None ->
  exists st', assign_copy L o src st = (Ok tt, st') /\ Inv st' /\ Rel st' (spec_bop s (BAsg o src)) /\
              (forall o', ~ In o' [o] -> objs st' o' = objs st o').
Proof.
  intros I R Hl Hs. destruct (objs st o) as [r|] eqn:Ho; [|congruence]. unfold assign_copy.
  destruct (Nat.eqb_spec o src) as [->|Hne].
  - step ltac:(apply get_obj_ok; exact Ho). eexists. split; [reflexivity|]. split; [exact I|].
    split; [|intros o' N; reflexivity].
    simpl. unfold sset, sget. eapply Rel_ext; [|exact R]. intros x. unfold upd.
    destruct (Nat.eqb_spec x src) as [->|]; reflexivity.
  - destruct (objs st src) as [c|] eqn:Hc; [|congruence].
    destruct (s src) as [vc|] eqn:Hv.
    2:{ exfalso. apply (rel_live _ _ src R) in Hv. congruence. }
    step ltac:(apply get_obj_ok; exact Ho). unfold is_reffed.
    assert (Hfin : forall st1 s1, Inv st1 -> Rel st1 s1 -> (forall x, x <> o -> s1 x = s x) ->
              (forall r1, objs st1 o = Some r1 -> m_size r1 < L) -> objs st1 o <> None ->
              exists st', (c0 <-- get_obj src ;; cur <-- get_obj o ;; copy_body L o c0 cur) st1 = (Ok tt, st') /\
                          Inv st' /\ Rel st' (upd s o (Some vc)) /\
                          (forall o', ~ In o' [o] -> objs st' o' = objs st1 o')).
    { intros st1 s1 I1 R1 Hs1 Hsh1 Hl1.
      assert (Hv1 : s1 src = Some vc) by (rewrite Hs1; auto).
      destruct (objs st1 src) as [c1|] eqn:Hc1.
      2:{ exfalso. apply (rel_live _ _ src R1) in Hc1. congruence. }
      destruct (objs st1 o) as [cur|] eqn:Hcur; [|congruence].
      step ltac:(apply get_obj_ok; exact Hc1). step ltac:(apply get_obj_ok; exact Hcur).
      destruct (copy_body_ok st1 s1 o c1 vc cur I1 R1) as (st' & E & I' & R' & F').
      - intros r1 H. apply Hsh1. congruence.
      - exists src. auto.
      - destruct (inv_wf _ _ I1 _ _ Hcur) as (A & _). exact A.
      - exists st'. split; [exact E|]. split; [exact I'|]. split; [|exact F'].
        eapply Rel_ext; [|exact R']. intros x. unfold upd.
        destruct (Nat.eqb_spec x o) as [->|N]; [reflexivity|]. symmetry. apply Hs1. exact N. }
    destruct (Nat.leb_spec L (m_size r)) as [Hlong|Hsh].
    + destruct (clear_ok st s o I R) as (st1 & E1 & I1 & R1 & O1 & F1); [congruence|].
      step ltac:(exact E1).
      destruct (Hfin st1 _ I1 R1) as (st' & E & I' & R' & F').
      * intros x N. simpl. unfold sset. apply upd_other. exact N.
      * intros r1 H. rewrite O1 in H. injection H as <-. simpl. lia.
      * rewrite O1. discriminate.
      * exists st'. split; [exact E|]. split; [exact I'|]. split.
        -- simpl. unfold sset, sget. rewrite Hv. exact R'.
        -- intros o' N. rewrite (F' o' N). apply F1. exact N.
    + unfold ret at 1. unfold mbind at 1.
      destruct (Hfin st s I R) as (st' & E & I' & R' & F').
      * intros x N. reflexivity.
      * intros r1 H. rewrite Ho in H. injection H as <-. exact Hsh.
      * congruence.
      * exists st'. split; [exact E|]. split; [exact I'|]. split; [|exact F'].
        simpl. unfold sset, sget. rewrite Hv. exact R'.
Qed.

(* ---------- operator=(buffer &&): complete swap ---------- *)
Definition swapped (this : objid) (b : bufobj) : bufobj :=
  mkbuf (if Nat.leb L (m_size b) then m_chars b else PLocal this) (m_size b) (m_data b).

Lemma swapped_ok st this other b :
  Inv st -> objs st other = Some b -> forall st', (forall bb c, blocks (hp st) bb = Some c -> blocks (hp st') bb = Some c) ->
  obj_ok L st' this (swapped this b).
Proof.
  intros I Hb st' Hf. unfold swapped.
  destruct (inv_wf _ _ I _ _ Hb) as (A & B & C).
  destruct (Nat.leb_spec L (m_size b)) as [Hl|Hs].
  - destruct (C Hl) as (bb & cc & P & Q & R1 & T). rewrite P. eapply obj_ok_long; eauto.
  - destruct (B Hs) as (P & T). apply obj_ok_short; auto.
Qed.

Lemma swapped_heap this b bb : m_chars (swapped this b) = PHeap bb -> L <= m_size b /\ m_chars b = PHeap bb.
Proof.
  unfold swapped; simpl. destruct (Nat.leb_spec L (m_size b)); intros HH; [auto|discriminate].
Qed.

Lemma inv_swap st this mv a b :
  Inv st -> this <> mv -> objs st this = Some a -> objs st mv = Some b ->
  Inv (mkstore (upd (upd (objs st) this (Some (swapped this b))) mv (Some (swapped mv a))) (hp st)).
Proof.
  intros I Hne Ha Hb. constructor; cbn [objs hp].
  - intros o' r' H. unfold upd in H.
    destruct (Nat.eqb_spec o' mv) as [->|N1].
    + inj H. eapply swapped_ok; eauto.
    + destruct (Nat.eqb_spec o' this) as [->|N2].
      * inj H. eapply swapped_ok; eauto.
      * eapply obj_ok_frame; [apply (inv_wf _ _ I _ _ H)|]. auto.
  - intros o1 o2 r1 r2 bb H1 H2 P1 P2. unfold upd in H1, H2.
    destruct (Nat.eqb_spec o1 mv) as [->|A1]; destruct (Nat.eqb_spec o2 mv) as [->|A2]; auto.
    + inj H1. apply swapped_heap in P1. destruct P1 as (_ & P1).
      destruct (Nat.eqb_spec o2 this) as [->|B2].
      * inj H2. apply swapped_heap in P2. destruct P2 as (_ & P2). eapply (inv_uniq _ _ I); eauto.
      * exfalso. apply B2. eapply (inv_uniq _ _ I); eauto.
    + inj H2. apply swapped_heap in P2. destruct P2 as (_ & P2).
      destruct (Nat.eqb_spec o1 this) as [->|B1].
      * inj H1. apply swapped_heap in P1. destruct P1 as (_ & P1). eapply (inv_uniq _ _ I); eauto.
      * exfalso. apply B1. eapply (inv_uniq _ _ I); eauto.
    + destruct (Nat.eqb_spec o1 this) as [->|B1]; destruct (Nat.eqb_spec o2 this) as [->|B2]; auto.
      * inj H1. apply swapped_heap in P1. destruct P1 as (_ & P1). exfalso. apply A2. eapply (inv_uniq _ _ I); eauto.
      * inj H2. apply swapped_heap in P2. destruct P2 as (_ & P2). exfalso. apply A1. eapply (inv_uniq _ _ I); eauto.
      * eapply (inv_uniq _ _ I); eauto.
  - intros bb c Hbb. destruct (inv_noleak _ _ I _ _ Hbb) as (o' & r' & Ho' & Hp').
    assert (Hlong : L <= m_size r').
    { destruct (Nat.lt_ge_cases (m_size r') L) as [Hs|]; auto.
      destruct (short_local _ _ _ _ I Ho' Hs) as (Q & _). congruence. }
    destruct (Nat.eq_dec o' this) as [->|N1].
    + rewrite Ha in Ho'. injection Ho' as <-.
      exists mv. eexists. rewrite upd_same. split; [reflexivity|]. unfold swapped; simpl.
      replace (Nat.leb L (m_size a)) with true by (symmetry; apply Nat.leb_le; exact Hlong). exact Hp'.
    + destruct (Nat.eq_dec o' mv) as [->|N2].
      * rewrite Hb in Ho'. injection Ho' as <-.
        exists this. eexists. rewrite upd_other by exact Hne. rewrite upd_same. split; [reflexivity|].
        unfold swapped; simpl.
        replace (Nat.leb L (m_size b)) with true by (symmetry; apply Nat.leb_le; exact Hlong). exact Hp'.
      * exists o', r'. rewrite !upd_other by auto. auto.
  - apply (inv_next _ _ I).
  - apply (inv_nofail _ _ I).
Qed.

Lemma contents_swapped st this b : Inv st -> forall other, objs st other = Some b ->
  contents st (swapped this b) = contents st b.
Proof.
  intros I other Hb. unfold swapped, contents; simpl.
  destruct (Nat.leb_spec L (m_size b)) as [Hl|Hs]; [reflexivity|].
  destruct (short_local _ _ _ _ I Hb Hs) as (P & _). rewrite P. reflexivity.
Qed.

Theorem assign_move_ok st s o src :
  Inv st -> Rel st s -> objs st o <> None -> objs st src <> None ->
  exists st', assign_move L o src st = (Ok tt, st') /\ Inv st' /\ Rel st' (spec_bop s (BMasg o src)) /\
              (forall o', ~ In o' [o; src] -> objs st' o' = objs st o').
Proof.
  intros I R Hl Hs. destruct (objs st o) as [a|] eqn:Ha; [|congruence]. unfold assign_move. simpl spec_bop.
  destruct (Nat.eqb_spec o src) as [->|Hne].
  - step ltac:(apply get_obj_ok; exact Ha). eexists. split; [reflexivity|]. split; [exact I|].
    split; [exact R|intros o' N; reflexivity].
  - destruct (objs st src) as [b|] eqn:Hb; [|congruence].
    destruct (s src) as [vb|] eqn:Hv.
    2:{ exfalso. apply (rel_live _ _ src R) in Hv. congruence. }
    step ltac:(apply get_obj_ok; exact Ha). step ltac:(apply get_obj_ok; exact Hb).
    eexists. split; [reflexivity|]. cbn [objs hp]. split; [|split; [|frame_tac]].
    + apply (inv_swap st o src a b I Hne Ha Hb).
    + unfold sset, sget. rewrite Hv.
      set (st1 := mkstore (upd (objs st) o (Some (swapped o b))) (hp st)).
      assert (R1 : Rel st1 (upd s o (Some vb))).
      { apply (rel_update st st1 s o (Some vb) R); cbn.
        - intros o' N. apply upd_other; auto.
        - intros o' r N H. reflexivity.
        - rewrite upd_same. destruct vb as [l|]; auto.
          change (contents st (swapped o b) = l). rewrite (contents_swapped st o b I src Hb).
          apply (rel_val _ _ _ _ _ R Hb Hv). }
      apply (rel_update st1 _ _ src (Some Unspecified) R1); cbn.
      * intros o' N. apply upd_other; auto.
      * intros o' r N H. reflexivity.
      * rewrite upd_same. exact Logic.I.
Qed.

(* ---------- allocate(size) ---------- *)
Theorem allocate_ok st s o n :
  Inv st -> Rel st s -> objs st o <> None ->
  exists st', allocate L o n st = (Ok tt, st') /\ Inv st' /\ Rel st' (upd s o (Some Unspecified)) /\
              (exists r', objs st' o = Some r' /\ m_size r' = n) /\
              (forall o', ~ In o' [o] -> objs st' o' = objs st o').
Proof.
  intros I R Hl. destruct (objs st o) as [r|] eqn:Ho; [|congruence]. unfold allocate.
  step ltac:(apply get_obj_ok; exact Ho). unfold is_reffed.
  assert (HdL : length (m_data r) = L) by (destruct (inv_wf _ _ I _ _ Ho) as (A & _); exact A).
  destruct (Nat.leb_spec L n) as [Hnl|Hns]; destruct (Nat.leb_spec L (m_size r)) as [Hrl|Hrs].
  - (* long -> long *)
    destruct (reffed_heap _ _ _ _ I Ho Hrl) as (b & cc & Hp & Hb & Hcl & Ht).
    destruct (fresh_unref L Lpos st I) as (Hfresh & Hunref).
    assert (Hbne : b <> nextb (hp st)) by (intros ->; congruence).
    step ltac:(apply new_arr_exec; apply (inv_nofail _ _ I)).
    rewrite Hp.
    step ltac:(eapply delete_arr_exec; cbn [hp blocks]; rewrite upd_other by exact Hbne; exact Hb).
    step ltac:(apply get_obj_ok; cbn [objs]; exact Ho).
    unfold set_obj at 1. unfold mbind at 1. cbn [objs hp blocks nextb fail_at].
    eexists. split.
    { eapply poke_heap; [cbn [hp blocks]; rewrite upd_other by (intros E; apply Hbne; symmetry; exact E); apply upd_same
                        | rewrite repeat_length; lia]. }
    set (c2 := set_nth (repeat junk (n + 1)) n 0%N).
    assert (Hc2 : length c2 = n + 1) by (unfold c2; rewrite set_nth_length, repeat_length; reflexivity).
    (* release, then adopt the fresh block *)
    assert (H0 : 0 < L) by lia.
    pose proof (inv_release L Lpos st o r b (zeros L) 0 I Ho Hp (zeros_length L) H0 (nth_zeros L Lpos 0 H0)) as I1.
    set (st1 := mkstore (upd (objs st) o (Some (mkbuf (PLocal o) 0 (zeros L))))
                        (mkheap (upd (blocks (hp st)) b None) (nextb (hp st)) (fail_at (hp st)))) in I1.
    assert (I2 : Inv (mkstore (upd (objs st1) o (Some (mkbuf (PHeap (nextb (hp st))) n (m_data r))))
                              (mkheap (upd (blocks (hp st1)) (nextb (hp st)) (Some c2))
                                      (Nat.max (nextb (hp st1)) (S (nextb (hp st)))) (fail_at (hp st1))))).
    { apply inv_set_long; auto.
      - cbn. intros r1 H. rewrite upd_same in H. injection H as <-. cbn. lia.
      - cbn. rewrite upd_other by (intros E; apply Hbne; symmetry; exact E). exact Hfresh.
      - cbn. intros o' r' H. unfold upd in H. destruct (Nat.eqb_spec o' o) as [->|N].
        + inj H. discriminate.
        + eapply Hunref; eauto.
      - unfold c2. apply nth_set_same. rewrite repeat_length. lia. }
    split; [|split; [|split; [|frame_tac]]].
    + eapply Inv_ext; [| | | | exact I2].
      * intros o0. cbn. rewrite !upd_upd. reflexivity.
      * intros b0. cbn. unfold upd.
        destruct (Nat.eqb_spec b0 (nextb (hp st))) as [->|N1]; [reflexivity|].
        destruct (Nat.eqb_spec b0 b); reflexivity.
      * cbn. lia.
      * cbn. rewrite (inv_nofail _ _ I). reflexivity.
    + apply (rel_update st _ s o (Some Unspecified) R); cbn.
      * intros o' N. apply upd_other; auto.
      * intros o' r' N Ho'. apply contents_frame. cbn. intros b0 Hp0.
        rewrite upd_other by (intros ->; eapply Hunref; eauto).
        rewrite upd_other by (apply (other_block st o r b o' r' b0 I Ho Hp N Ho' Hp0)).
        apply upd_other. intros ->. eapply Hunref; eauto.
      * rewrite upd_same. exact Logic.I.
    + cbn. rewrite upd_same. eexists. split; reflexivity.
  - (* short -> long *)
    destruct (short_local _ _ _ _ I Ho Hrs) as (Hp & Ht & _).
    destruct (fresh_unref L Lpos st I) as (Hfresh & Hunref).
    step ltac:(apply new_arr_exec; apply (inv_nofail _ _ I)).
    unfold set_obj at 1. unfold mbind at 1. cbn [objs hp].
    step ltac:(apply get_obj_ok; cbn [objs]; apply upd_same).
    unfold set_obj at 1. unfold mbind at 1. cbn [objs hp m_data].
    eexists. split.
    { eapply poke_heap; [cbn [hp blocks]; apply upd_same | rewrite repeat_length; lia]. }
    set (c2 := set_nth (repeat junk (n + 1)) n 0%N).
    assert (Hc2 : length c2 = n + 1) by (unfold c2; rewrite set_nth_length, repeat_length; reflexivity).
    split; [|split; [|split; [|frame_tac]]].
    + eapply Inv_ext; [| | | | apply (inv_set_long L Lpos st o (zeros L) n (nextb (hp st)) c2 I)]; auto.
      * intros o0. cbn. rewrite !upd_upd. reflexivity.
      * intros b0. cbn. rewrite !upd_upd. reflexivity.
      * cbn. lia.
      * cbn. rewrite (inv_nofail _ _ I). reflexivity.
      * intros r1 H. rewrite Ho in H. injection H as <-. exact Hrs.
      * apply zeros_length.
      * unfold c2. apply nth_set_same. rewrite repeat_length. lia.
    + apply (rel_update st _ s o (Some Unspecified) R); cbn.
      * intros o' N. rewrite !upd_other by exact N. reflexivity.
      * intros o' r' N Ho'. apply contents_frame. cbn. intros b0 Hp0. rewrite !upd_upd.
        apply upd_other. intros ->. eapply Hunref; eauto.
      * rewrite upd_same. exact Logic.I.
    + cbn. rewrite upd_same. eexists. split; reflexivity.
  - (* long -> short *)
    destruct (reffed_heap _ _ _ _ I Ho Hrl) as (b & cc & Hp & Hb & Hcl & Ht).
    unfold ret at 1. unfold mbind at 1. rewrite Hp.
    step ltac:(eapply delete_arr_exec; exact Hb).
    step ltac:(apply get_obj_ok; cbn [objs]; exact Ho).
    unfold set_obj at 1. unfold mbind at 1. cbn [objs hp].
    eexists. split.
    { eapply (poke_local _ o (mkbuf (PLocal o) n (m_data r))); [cbn; apply upd_same | cbn; lia]. }
    split; [|split; [|split; [|frame_tac]]].
    + eapply Inv_ext; [| | | | apply (inv_release L Lpos st o r b (set_nth (m_data r) n 0%N) n I Ho Hp)]; auto.
      * intros o0. cbn. rewrite !upd_upd. reflexivity.
      * rewrite set_nth_length. exact HdL.
      * apply nth_set_same. lia.
    + apply (rel_update st _ s o (Some Unspecified) R); cbn.
      * intros o' N. rewrite !upd_other by exact N. reflexivity.
      * intros o' r' N Ho'. apply contents_frame. cbn. intros b0 Hp0.
        apply upd_other. apply (other_block st o r b o' r' b0 I Ho Hp N Ho' Hp0).
      * rewrite upd_same. exact Logic.I.
    + cbn. rewrite upd_same. eexists. split; reflexivity.
  - (* short -> short *)
    destruct (short_local _ _ _ _ I Ho Hrs) as (Hp & Ht & _).
    unfold ret at 1. unfold mbind at 1.
    unfold set_obj at 1. unfold mbind at 1. cbn [objs hp].
    step ltac:(apply get_obj_ok; cbn [objs]; apply upd_same).
    unfold set_obj at 1. unfold mbind at 1. cbn [objs hp m_data].
    eexists. split.
    { eapply (poke_local _ o (mkbuf (PLocal o) n (zeros L))); [cbn; apply upd_same | cbn; rewrite zeros_length; lia]. }
    split; [|split; [|split; [|frame_tac]]].
    + eapply Inv_ext; [| | | | apply (inv_set_short L Lpos st o (set_nth (zeros L) n 0%N) n I)]; auto.
      * intros o0. cbn. rewrite !upd_upd. reflexivity.
      * intros r1 H. rewrite Ho in H. injection H as <-. exact Hrs.
      * rewrite set_nth_length. apply zeros_length.
      * apply nth_set_same. rewrite zeros_length. lia.
    + apply (rel_update st _ s o (Some Unspecified) R); cbn.
      * intros o' N. rewrite !upd_other by exact N. reflexivity.
      * intros o' r' N Ho'. reflexivity.
      * rewrite upd_same. exact Logic.I.
    + cbn. rewrite upd_same. eexists. split; reflexivity.
Qed.

(* ---------- traits::assign(m_chars, size, fill) on a live object (the second half of allocate(n, c)) ---------- *)
Theorem fill_ok st s o r v :
  Inv st -> Rel st s -> objs st o = Some r ->
  exists st', fill_range (m_chars r) (m_size r) v st = (Ok tt, st') /\ Inv st' /\
              Rel st' (upd s o (Some (Val (repeat v (m_size r))))) /\
              (forall o', ~ In o' [o] -> objs st' o' = objs st o').
Proof.
  intros I R Ho.
  destruct (Nat.leb_spec L (m_size r)) as [Hl|Hs].
  - destruct (reffed_heap _ _ _ _ I Ho Hl) as (b & cc & Hp & Hb & Hcl & Ht). rewrite Hp.
    eexists. split; [eapply fill_range_heap; [exact Hb|lia]|].
    set (c1 := repeat v (m_size r) ++ skipn (m_size r) cc).
    assert (Hc1 : length c1 = m_size r + 1).
    { unfold c1. rewrite app_length, skipn_length, repeat_length. lia. }
    assert (Ht1 : nth (m_size r) c1 1%N = 0%N).
    { unfold c1. rewrite (nth_app_r _ _ (m_size r)) by apply repeat_length.
      rewrite <- Ht. rewrite <- (firstn_skipn (m_size r) cc) at 2.
      rewrite app_nth2 by (rewrite firstn_length; lia). rewrite firstn_length.
      replace (m_size r - Nat.min (m_size r) (length cc)) with 0 by lia. reflexivity. }
    split; [|split; [|frame_tac]].
    + apply (inv_set_cells L st o r b c1 I Ho Hl Hp Hc1 Ht1).
    + apply (rel_update st _ s o (Some (Val (repeat v (m_size r)))) R); cbn.
      * intros o' N. reflexivity.
      * intros o' r' N Ho'. apply contents_frame. cbn. intros b0 Hp0.
        apply upd_other. apply (other_block st o r b o' r' b0 I Ho Hp N Ho' Hp0).
      * rewrite Ho. unfold contents. rewrite Hp. cbn. rewrite upd_same. fold c1. unfold c1.
        apply firstn_app_exact. apply repeat_length.
  - destruct (short_local _ _ _ _ I Ho Hs) as (Hp & Ht & HdL). rewrite Hp.
    eexists. split; [eapply fill_range_local; [exact Ho|lia]|].
    set (d1 := repeat v (m_size r) ++ skipn (m_size r) (m_data r)).
    assert (Hd1 : length d1 = L).
    { unfold d1. rewrite app_length, skipn_length, repeat_length. lia. }
    assert (Ht1 : nth (m_size r) d1 1%N = 0%N).
    { unfold d1. rewrite (nth_app_r _ _ (m_size r)) by apply repeat_length.
      rewrite <- Ht. rewrite <- (firstn_skipn (m_size r) (m_data r)) at 2.
      rewrite app_nth2 by (rewrite firstn_length; lia). rewrite firstn_length.
      replace (m_size r - Nat.min (m_size r) (length (m_data r))) with 0 by lia. reflexivity. }
    unfold set_data. rewrite Hp. split; [|split; [|frame_tac]].
    + apply inv_set_short; auto. intros r1 H. rewrite Ho in H. injection H as <-. exact Hs.
    + apply (rel_update st _ s o (Some (Val (repeat v (m_size r)))) R); cbn.
      * intros o' N. apply upd_other; auto.
      * intros o' r' N Ho'. reflexivity.
      * rewrite upd_same. unfold contents. cbn. fold d1. unfold d1.
        apply firstn_app_exact. apply repeat_length.
Qed.

(* ---------- data()[i] = v with i < size() ---------- *)
Theorem user_write_ok st s o i v :
  Inv st -> Rel st s -> objs st o <> None ->
  exists st', user_write o i v st = (Ok tt, st') /\ Inv st' /\ Rel st' (spec_bop s (BWrite o i v)) /\
              (forall o', ~ In o' [o] -> objs st' o' = objs st o').
Proof.
  intros I R Hl. destruct (objs st o) as [r|] eqn:Ho; [|congruence]. unfold user_write.
  step ltac:(apply get_obj_ok; exact Ho). simpl spec_bop. unfold sget, sset.
  destruct (s o) as [vo|] eqn:Hv.
  2:{ exfalso. apply (rel_live _ _ o R) in Hv. congruence. }
  destruct (Nat.ltb_spec i (m_size r)) as [Hi|Hi].
  - assert (Hspec : Rel st s -> forall st', (forall o', o' <> o -> objs st' o' = objs st o') ->
              (forall o' r', o' <> o -> objs st o' = Some r' -> contents st' r' = contents st r') ->
              (exists r1, objs st' o = Some r1 /\ contents st' r1 = set_nth (contents st r) i v) ->
              Rel st' match vo with
                      | Val l => if Nat.ltb i (length l) then upd s o (Some (Val (set_nth l i v))) else s
                      | Unspecified => s end).
    { intros _ st' F1 F2 (r1 & F3 & F4). destruct vo as [l|].
      - pose proof (rel_val _ _ _ _ _ R Ho Hv) as V.
        assert (Hlen : length l = m_size r).
        { rewrite <- V. unfold contents.
          destruct (Nat.leb_spec L (m_size r)) as [Hl2|Hs2].
          - destruct (reffed_heap _ _ _ _ I Ho Hl2) as (b & cc & Hp & Hb & Hcl & _). rewrite Hp, Hb.
            rewrite firstn_length. lia.
          - destruct (short_local _ _ _ _ I Ho Hs2) as (Hp & _ & HdL). rewrite Hp. rewrite firstn_length. lia. }
        replace (Nat.ltb i (length l)) with true by (symmetry; apply Nat.ltb_lt; lia).
        apply (rel_update st st' s o _ R F1 F2). rewrite F3, F4, V. reflexivity.
      - eapply Rel_ext; [|apply (rel_update st st' s o (Some Unspecified) R F1 F2); rewrite F3; exact Logic.I].
        intros x. unfold upd. destruct (Nat.eqb_spec x o) as [->|]; [exact Hv|reflexivity]. }
    destruct (Nat.leb_spec L (m_size r)) as [Hl2|Hs2].
    + destruct (reffed_heap _ _ _ _ I Ho Hl2) as (b & cc & Hp & Hb & Hcl & Ht). rewrite Hp.
      eexists. split; [eapply poke_heap; [exact Hb|lia]|]. split; [|split; [|frame_tac]].
      * apply (inv_set_cells L st o r b (set_nth cc i v) I Ho Hl2 Hp).
        -- rewrite set_nth_length. exact Hcl.
        -- rewrite nth_set_other by lia. exact Ht.
      * apply (Hspec R); cbn.
        -- intros o' N. reflexivity.
        -- intros o' r' N Ho'. apply contents_frame. cbn. intros b0 Hp0.
           apply upd_other. apply (other_block st o r b o' r' b0 I Ho Hp N Ho' Hp0).
        -- exists r. split; [exact Ho|]. unfold contents. rewrite Hp, Hb. cbn. rewrite upd_same.
           apply firstn_set_nth_lt. exact Hi.
    + destruct (short_local _ _ _ _ I Ho Hs2) as (Hp & Ht & HdL). rewrite Hp.
      eexists. split; [eapply poke_local; [exact Ho|lia]|]. unfold set_data. rewrite Hp. split; [|split; [|frame_tac]].
      * apply inv_set_short; auto.
        -- intros r1 H. rewrite Ho in H. injection H as <-. exact Hs2.
        -- rewrite set_nth_length. exact HdL.
        -- rewrite nth_set_other by lia. exact Ht.
      * apply (Hspec R); cbn.
        -- intros o' N. apply upd_other; auto.
        -- intros o' r' N Ho'. reflexivity.
        -- eexists. rewrite upd_same. split; [reflexivity|]. unfold contents. cbn. rewrite Hp.
           apply firstn_set_nth_lt. exact Hi.
  - (* i >= size: the harness never writes; the model does nothing *)
    eexists. split; [reflexivity|]. split; [exact I|]. split; [|intros o' N; reflexivity].
    destruct vo as [l|]; [|exact R].
    pose proof (rel_val _ _ _ _ _ R Ho Hv) as V.
    assert (Hlen : length l = m_size r).
    { rewrite <- V. unfold contents.
      destruct (Nat.leb_spec L (m_size r)) as [Hl2|Hs2].
      - destruct (reffed_heap _ _ _ _ I Ho Hl2) as (b & cc & Hp & Hb & Hcl & _). rewrite Hp, Hb.
        rewrite firstn_length. lia.
      - destruct (short_local _ _ _ _ I Ho Hs2) as (Hp & _ & HdL). rewrite Hp. rewrite firstn_length. lia. }
    replace (Nat.ltb i (length l)) with false by (symmetry; apply Nat.ltb_ge; lia). exact R.
Qed.

(* ---------- every operation of the history language ---------- *)
Definition live (st : store) (o : objid) : Prop := objs st o <> None.
Definition dead (st : store) (o : objid) : Prop := objs st o = None.

(* the history is a well-formed C++ program: constructors run on storage holding no object,
   everything else on live objects; buffer(nullptr, n) only with n = 0 (else the documented assertion) *)
Definition wf_bop (st : store) (op : bop) : Prop :=
  match op with
  | BDef o | BNew o _ | BFill o _ _ => dead st o
  | BNewNull o n => dead st o /\ n = 0
  | BCopy o src | BMove o src => dead st o /\ live st src
  | BAsg o src | BMasg o src => live st o /\ live st src
  | BAlloc o _ _ | BAllocFill o _ _ | BWrite o _ _ | BClear o | BDel o => live st o
  end.

(* the objects an operation is allowed to modify; every other object keeps its record
   (data pointer, size, in-object array) -- the FRAME clause of step_ok *)
Definition targets (op : bop) : list objid :=
  match op with
  | BDef o | BNew o _ | BNewNull o _ | BFill o _ _ | BCopy o _ | BAsg o _
  | BAlloc o _ _ | BAllocFill o _ _ | BWrite o _ _ | BClear o | BDel o => [o]
  | BMove o src | BMasg o src => [o; src]
  end.

(* the SPEC has the same frame: an operation changes the value of its targets only *)
Lemma spec_bop_other s op x : ~ In x (targets op) -> spec_bop s op x = s x.
Proof.
  intros N. destruct op as [o|o d|o n|o n c|o src|o src|o src|o src|o n c|o n c|o i v|o|o];
    simpl in N; simpl spec_bop; unfold sset, sget;
    repeat match goal with
    | |- context [match ?a with _ => _ end] =>
        match a with
        | context [upd] => fail 1
        | _ => destruct a
        end
    end;
    repeat (rewrite upd_other by (intros E; apply N; rewrite E; auto)); reflexivity.
Qed.

Theorem step_ok st s op :
  Inv st -> Rel st s -> wf_bop st op ->
  exists st', run_bop L op st = (Ok tt, st') /\ Inv st' /\ Rel st' (spec_bop s op) /\
              (forall o', ~ In o' (targets op) -> objs st' o' = objs st o').
Proof.
  intros I R W. destruct op as [o|o d|o n|o n c|o src|o src|o src|o src|o n c|o n c|o i v|o|o];
    simpl in W; simpl run_bop; simpl targets.
  - apply ctor_default_ok; auto.
  - apply ctor_ptr_ok; auto.
  - destruct W as (W & ->). apply ctor_null_ok; auto.
  - apply ctor_fill_ok; auto.
  - destruct W. apply ctor_copy_ok; auto.
  - destruct W. apply ctor_move_ok; auto.
  - destruct W. apply assign_copy_ok; auto.
  - destruct W. apply assign_move_ok; auto.
  - destruct (allocate_ok st s o n I R W) as (st1 & E1 & I1 & R1 & (r1 & O1 & S1) & F1).
    step ltac:(exact E1). step ltac:(apply get_obj_ok; exact O1).
    destruct (fill_ok st1 _ o r1 c I1 R1 O1) as (st2 & E2 & I2 & R2 & F2). rewrite S1 in E2, R2.
    exists st2. split; [exact E2|]. split; [exact I2|]. split.
    + eapply Rel_ext; [|exact R2]. intros x. simpl. unfold sset. rewrite upd_upd. reflexivity.
    + intros o' N. rewrite (F2 o' N). apply F1. exact N.
  - unfold allocate_fill.
    destruct (allocate_ok st s o n I R W) as (st1 & E1 & I1 & R1 & (r1 & O1 & S1) & F1).
    step ltac:(exact E1). step ltac:(apply get_obj_ok; exact O1).
    destruct (fill_ok st1 _ o r1 c I1 R1 O1) as (st2 & E2 & I2 & R2 & F2). rewrite S1 in E2, R2.
    exists st2. split; [exact E2|]. split; [exact I2|]. split.
    + eapply Rel_ext; [|exact R2]. intros x. simpl. unfold sset. rewrite upd_upd. reflexivity.
    + intros o' N. rewrite (F2 o' N). apply F1. exact N.
  - apply user_write_ok; auto.
  - destruct (clear_ok st s o I R W) as (st' & E & I' & R' & _ & F'). exists st'. auto.
  - apply dtor_ok; auto.
Qed.

End Steps.
