(* Mem/ApiCoverage.v — C04 "any const member": the list of public const members of ST::string is harvested
   from the headers' AST on every run (Gen/Statics.string_const_members); `covered` is the list of names the
   correspondence harness exercises on a source string whose bytes, size and data pointer are observed before
   and after (harness/h_mem.cpp: StrPool::battery and the const operations of the case language).  A const
   member added upstream makes `routes_covered` false until it is added to the harness and to this list. *)
From Coq Require Import String List Bool.
From ST Require Import Gen.Statics.
Import ListNotations.
Local Open Scope string_scope.

Definition covered : list string :=
  ["after_first"; "after_last"; "at"; "back"; "before_first"; "before_last"; "begin"; "c_str"; "cbegin"; "cend";
   "compare"; "compare_i"; "compare_n"; "compare_ni"; "contains"; "crbegin"; "crend"; "data"; "empty"; "end";
   "ends_with"; "find"; "find_last"; "front"; "left"; "rbegin"; "rend"; "replace"; "right"; "size"; "split";
   "starts_with"; "substr"; "to_bool"; "to_buffer"; "to_double"; "to_float"; "to_int"; "to_int64"; "to_latin_1";
   "to_long"; "to_long_long"; "to_lower"; "to_path"; "to_short"; "to_std_string"; "to_std_u16string";
   "to_std_u32string"; "to_std_u8string"; "to_std_wstring"; "to_uint"; "to_uint64"; "to_ulong"; "to_ulong_long";
   "to_upper"; "to_ushort"; "to_utf16"; "to_utf32"; "to_utf8"; "to_wchar"; "tokenize"; "trim"; "trim_left";
   "trim_right"; "u8_str"; "view"].

Definition routes_covered_b : bool :=
  forallb (fun m => existsb (String.eqb m) covered) string_const_members.

Lemma routes_covered : routes_covered_b = true.
Proof. vm_compute. reflexivity. Qed.

Lemma inventory_nonempty : Nat.leb 40 (length string_const_members) = true.
Proof. vm_compute. reflexivity. Qed.
