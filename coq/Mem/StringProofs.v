(* Mem/StringProofs.v — the buffer theorems lifted to ST::string operations (macros of Mem/StringOps.v):
   every non-throwing operation returns normally, re-establishes the ownership invariant, changes the
   abstract values as the spec says, and leaves the record (data pointer, size, in-object array) AND the
   contents of every object it does not name untouched; temporaries are gone afterwards.          *)
From Coq Require Import NArith List Bool Lia Arith.
From ST Require Import Base.Outcome Base.Units Mem.Heap Mem.Buffer Mem.BufferRun Mem.BufferInv Mem.BufferOps
  Mem.BufferSteps Mem.BufferHistory Mem.StringOps.
Import ListNotations.
Local Open Scope nat_scope.

Section SP.
Variable L : nat.
Hypothesis Lpos : 1 <= L.
Notation Inv := (Inv L).

Lemma run_body_eq ops : forall st, run_body L ops st = run_ops L ops st.
Proof. induction ops as [|op rest IH]; intros st; simpl; [reflexivity|]. destruct (run_bop L op st) as ([u|e|w|f], st'); auto. Qed.

(* a whole list of operations none of which names x: x keeps its record and its contents *)
Lemma history_independent ops : forall st s x r,
  Inv st -> Rel st s -> wf_history s ops -> untouched x ops -> objs st x = Some r ->
  exists st', run_ops L ops st = (Ok tt, st') /\ Inv st' /\ Rel st' (fold_left spec_bop ops s) /\
              objs st' x = Some r /\ contents st' r = contents st r.
Proof.
  induction ops as [|op rest IH]; intros st s x r I R W U Hx.
  - exists st. simpl. auto.
  - destruct W as (W1 & W2).
    assert (U1 : ~ In x (targets op)) by (apply U; left; reflexivity).
    assert (U2 : untouched x rest) by (intros op' Hin; apply U; right; exact Hin).
    destruct (step_ok L Lpos st s op I R (wf_transfer st s op R W1)) as (st1 & E1 & I1 & R1 & F1).
    destruct (step_independent L Lpos st op x r I (wf_transfer st s op R W1) U1 Hx) as (st1' & E1' & _ & Hx1 & C1).
    rewrite E1 in E1'. injection E1' as <-.
    destruct (IH st1 _ x r I1 R1 W2 U2 Hx1) as (st2 & E2 & I2 & R2 & Hx2 & C2).
    exists st2. simpl. rewrite E1. split; [exact E2|]. split; [exact I2|]. split; [exact R2|]. split; [exact Hx2|]. rewrite C2. exact C1.
Qed.

(* ---- user-level preconditions of a string operation ---- *)
Definition scratch_dead (s : sstore) : Prop := forall k, k < scratch_slots -> s (scratch_base + k) = None.
Definition user_slot (o : objid) : Prop := o < scratch_base.

Definition top_wf (s : sstore) (t : top) : Prop :=
  scratch_dead s /\
  match t with
  | TNew o _ | TEmpty o => s o = None /\ user_slot o
  | TReads o | TClear o | TDel o | TSetBytes o _ => s o <> None /\ user_slot o
  | TFreshNRVO res src _ | TFreshMoveCtor res src _ | TFreshMoveAsg res src _ | TCopyOf res src | TCopyMove res src
  | TMoveCtor res src =>
      s res = None /\ user_slot res /\ s src <> None /\ user_slot src
  | TAssign o src | TMoveAssign o src | TAppend o src _ => s o <> None /\ user_slot o /\ s src <> None /\ user_slot src
  | TThrowing temps _ => length temps <= scratch_slots
  | TFreshVia res src temps _ =>
      s res = None /\ user_slot res /\ s src <> None /\ user_slot src /\ length temps <= scratch_slots
  end.

(* the objects an operation may change *)
Definition touched (t : top) : list objid :=
  match t with
  | TNew o _ | TEmpty o | TClear o | TDel o | TSetBytes o _ => [o]
  | TReads _ | TThrowing _ _ => []
  | TFreshNRVO res _ _ | TFreshMoveCtor res _ _ | TFreshMoveAsg res _ _ | TCopyOf res _ | TCopyMove res _
  | TFreshVia res _ _ _ => [res]
  | TAssign o _ | TAppend o _ _ => [o]
  | TMoveAssign o src | TMoveCtor o src => [o; src]
  end.

(* ---- well-formedness of the macro bodies ---- *)
Lemma wf_write_all o : forall v i s, s o <> None -> wf_history s (write_all o i v) /\
  (fold_left spec_bop (write_all o i v) s) o <> None /\
  forall x, x <> o -> (fold_left spec_bop (write_all o i v) s) x = s x.
Proof.
  induction v as [|a v IH]; intros i s Hl; simpl.
  - auto.
  - assert (Hl' : spec_bop s (BWrite o i a) o <> None).
    { simpl. unfold sget, sset. destruct (s o) as [[l|]|] eqn:E; try congruence.
      destruct (Nat.ltb i (length l)); [rewrite upd_same; discriminate|congruence]. }
    assert (Hf : forall x, x <> o -> spec_bop s (BWrite o i a) x = s x).
    { intros x N. simpl. unfold sget, sset. destruct (s o) as [[l|]|]; auto.
      destruct (Nat.ltb i (length l)); auto. apply upd_other; exact N. }
    destruct (IH (S i) _ Hl') as (A & B & C).
    split; [split; [exact Hl|exact A]|]. split; [exact B|].
    intros x N. rewrite C by exact N. apply Hf; exact N.
Qed.

Lemma wf_alloc_with o v s : s o <> None -> wf_history s (alloc_with o v) /\
  (fold_left spec_bop (alloc_with o v) s) o <> None /\
  forall x, x <> o -> (fold_left spec_bop (alloc_with o v) s) x = s x.
Proof.
  intros Hl. unfold alloc_with. simpl.
  assert (Hl' : spec_bop s (BAlloc o (length v) 0%N) o <> None) by (simpl; unfold sset; rewrite upd_same; discriminate).
  destruct (wf_write_all o v 0 _ Hl') as (A & B & C).
  split; [split; [exact Hl|exact A]|]. split; [exact B|].
  intros x N. rewrite C by exact N. simpl. unfold sset. apply upd_other; exact N.
Qed.

Arguments alloc_with : simpl never.

Lemma wf_history_app a : forall s b,
  wf_history s (a ++ b) <-> wf_history s a /\ wf_history (fold_left spec_bop a s) b.
Proof.
  induction a as [|op a IH]; intros s b; simpl.
  - tauto.
  - rewrite IH. tauto.
Qed.

Lemma tmp0_scratch : tmp0 = scratch_base + 0. Proof. unfold tmp0. lia. Qed.
Lemma tmp1_scratch : tmp1 = scratch_base + 1. Proof. unfold tmp1. lia. Qed.

Ltac upd_simp :=
  repeat first [ rewrite upd_same | rewrite upd_other by (unfold user_slot, tmp0, tmp1, scratch_base in *; lia) ].

(* ---- temporaries on the spec store ---- *)
Lemma spec_build_temps_other temps : forall k s o,
  ~ (scratch_base + k <= o < scratch_base + k + length temps) ->
  fold_left spec_bop (build_temps k temps) s o = s o.
Proof.
  induction temps as [|d temps IH]; intros k s o H; [reflexivity|].
  cbn [build_temps fold_left length] in *. rewrite IH by (cbn [length] in H; lia).
  cbn [spec_bop]. unfold sset. apply upd_other. lia.
Qed.

Lemma spec_build_temps_live temps : forall k s j,
  k <= j < k + length temps -> fold_left spec_bop (build_temps k temps) s (scratch_base + j) <> None.
Proof.
  induction temps as [|d temps IH]; intros k s j H; [cbn in H; lia|].
  cbn [build_temps fold_left length] in *.
  destruct (Nat.eq_dec j k) as [->|N].
  - rewrite spec_build_temps_other by lia. cbn [spec_bop]. unfold sset. rewrite upd_same. discriminate.
  - apply IH. lia.
Qed.

Lemma wf_build_temps0 temps : forall k s,
  (forall j, k <= j < k + length temps -> s (scratch_base + j) = None) ->
  wf_history s (build_temps k temps).
Proof.
  induction temps as [|d temps IH]; intros k s H; simpl; [exact Logic.I|].
  split; [unfold sdead; apply H; simpl; lia|].
  apply IH. intros j Hj. simpl. unfold sset. rewrite upd_other by lia. apply H. simpl. lia.
Qed.

Lemma wf_del_temps : forall n k s,
  (forall j, k <= j < k + n -> s (scratch_base + j) <> None) -> wf_history s (del_temps k n).
Proof.
  induction n as [|n IH]; intros k s H; cbn [del_temps wf_history]; [exact Logic.I|].
  split; [cbn [wf_sop]; unfold slive; apply H; lia|].
  apply IH. intros j Hj. cbn [spec_bop]. unfold sset. rewrite upd_other by lia. apply H. lia.
Qed.

Lemma expand_wf s t : top_wf s t -> snd (expand t) = None -> wf_history s (fst (expand t)).
Proof.
  intros (SD & W) NT.
  assert (D0 : s tmp0 = None) by (rewrite tmp0_scratch; apply SD; unfold scratch_slots; lia).
  assert (D1 : s tmp1 = None) by (rewrite tmp1_scratch; apply SD; unfold scratch_slots; lia).
  destruct t as [o d|o|res src v|res src v|res src v|res|res src|res src|o src|o src|o src|o d|o src v|o|o|temps e|res src temps v];
    cbn [expand fst snd wf_history wf_sop top_wf app spec_bop] in *; unfold sdead, slive, sget, sset in *; try discriminate.
  - tauto.
  - exact Logic.I.
  - (* NRVO *) destruct W as (Wr & Ur & Ws & Us). split; [exact Wr|].
    apply (wf_alloc_with res v). rewrite upd_same. discriminate.
  - (* move ctor *) destruct W as (Wr & Ur & Ws & Us). split; [exact D0|].
    apply wf_history_app.
    destruct (wf_alloc_with tmp0 v (upd s tmp0 (Some (Val []))) ltac:(rewrite upd_same; discriminate)) as (A & B & C).
    split; [exact A|].
    set (s1 := fold_left spec_bop (alloc_with tmp0 v) (upd s tmp0 (Some (Val [])))) in *.
    assert (Nr : res <> tmp0) by (unfold user_slot, tmp0, scratch_base in *; lia).
    cbn [wf_history wf_sop spec_bop]. unfold sdead, slive, sget, sset.
    split; [split; [rewrite (C res Nr); rewrite upd_other by exact Nr; exact Wr|exact B]|].
    split; [rewrite upd_same; discriminate|exact Logic.I].
  - (* move assign *) destruct W as (Wr & Ur & Ws & Us). split; [exact D0|].
    apply wf_history_app.
    destruct (wf_alloc_with tmp0 v (upd s tmp0 (Some (Val []))) ltac:(rewrite upd_same; discriminate)) as (A & B & C).
    split; [exact A|].
    set (s1 := fold_left spec_bop (alloc_with tmp0 v) (upd s tmp0 (Some (Val [])))) in *.
    assert (Nr : res <> tmp0) by (unfold user_slot, tmp0, scratch_base in *; lia).
    cbn [wf_history wf_sop spec_bop]. unfold sdead, slive, sget, sset.
    destruct (Nat.eqb_spec res tmp0) as [E|_]; [contradiction|].
    split; [rewrite (C res Nr); rewrite upd_other by exact Nr; exact Wr|].
    split; [split; [rewrite upd_same; discriminate|rewrite upd_other by auto; exact B]|].
    split; [rewrite upd_same; discriminate|exact Logic.I].
  - tauto.
  - tauto.
  - (* copy + move *) destruct W as (Wr & Ur & Ws & Us).
    repeat split; auto; upd_simp; try discriminate; auto.
  - tauto.
  - tauto.
  - tauto.
  - (* set bytes *) destruct W as (Wo & Uo).
    assert (No : o <> tmp0) by (unfold user_slot, tmp0, scratch_base in *; lia).
    destruct (Nat.eqb_spec o tmp0) as [E|_]; [contradiction|].
    repeat split; auto; upd_simp; try discriminate; auto.
  - (* append *) destruct W as (Wo & Uo & Ws & Us). split; [exact D0|].
    apply wf_history_app.
    destruct (wf_alloc_with tmp0 v (upd s tmp0 (Some (Val []))) ltac:(rewrite upd_same; discriminate)) as (A & B & C).
    split; [exact A|].
    set (s1 := fold_left spec_bop (alloc_with tmp0 v) (upd s tmp0 (Some (Val [])))) in *.
    assert (No : o <> tmp0) by (unfold user_slot, tmp0, scratch_base in *; lia).
    assert (No1 : o <> tmp1) by (unfold user_slot, tmp1, scratch_base in *; lia).
    assert (N10 : tmp1 <> tmp0) by (unfold tmp0, tmp1; lia).
    cbn [wf_history wf_sop spec_bop]. unfold sdead, slive, sget, sset.
    destruct (Nat.eqb_spec o tmp1) as [E|_]; [contradiction|].
    (* BMove tmp1 tmp0 *)
    split; [split; [rewrite (C tmp1 N10); rewrite upd_other by exact N10; exact D1|exact B]|].
    (* BDel tmp0 *)
    split; [rewrite upd_same; discriminate|].
    (* BMasg o tmp1 *)
    split; [split|].
    + rewrite upd_other by exact No. rewrite upd_other by exact No. rewrite upd_other by exact No1.
      rewrite (C o No). rewrite upd_other by exact No. exact Wo.
    + rewrite upd_other by exact N10. rewrite upd_other by exact N10. rewrite upd_same. exact B.
    + (* BDel tmp1 *) split; [rewrite upd_same; discriminate|exact Logic.I].
  - tauto.
  - tauto.
  - (* several temporaries, then the result, then the temporaries are destroyed *)
    destruct W as (Wr & Ur & Ws & Us & Wl).
    apply wf_history_app. split.
    + apply wf_build_temps0. intros j Hj. apply SD. lia.
    + set (s1 := fold_left spec_bop (build_temps 0 temps) s).
      assert (R1 : s1 res = None).
      { unfold s1. rewrite spec_build_temps_other; [exact Wr|unfold user_slot in Ur; lia]. }
      cbn [wf_history wf_sop]. split; [exact R1|].
      apply wf_history_app.
      destruct (wf_alloc_with res v (spec_bop s1 (BDef res)) ltac:(cbn [spec_bop]; unfold sset; rewrite upd_same; discriminate)) as (A & B & C).
      split; [exact A|].
      apply wf_del_temps. intros j Hj.
      rewrite C by (unfold user_slot in Ur; lia).
      cbn [spec_bop]. unfold sset. rewrite upd_other by (unfold user_slot in Ur; lia).
      unfold s1. apply spec_build_temps_live. lia.
Qed.

(* the body of an operation names only the objects it may change, and scratch slots *)
Lemma untouched_write_all x o : forall v i, x <> o -> untouched x (write_all o i v).
Proof.
  induction v as [|a v IH]; intros i N op Hin; simpl in Hin; [contradiction|].
  destruct Hin as [<-|Hin]; [simpl; intros [E|[]]; congruence|]. eapply IH; eauto.
Qed.

Lemma untouched_build_temps x temps : forall k, user_slot x -> untouched x (build_temps k temps).
Proof.
  induction temps as [|d temps IH]; intros k Ux op Hin; simpl in Hin; [contradiction|].
  destruct Hin as [<-|Hin]; [simpl; unfold user_slot, scratch_base in *; intros [E|[]]; lia|]. eapply IH; eauto.
Qed.

Lemma untouched_del_temps x : forall n k, user_slot x -> untouched x (del_temps k n).
Proof.
  induction n as [|n IH]; intros k Ux op Hin; cbn [del_temps] in Hin; [contradiction|].
  destruct Hin as [<-|Hin]; [simpl; unfold user_slot, scratch_base in *; intros [E|[]]; lia|]. eapply IH; eauto.
Qed.

Lemma untouched_expand x t : user_slot x -> ~ In x (touched t) -> untouched x (fst (expand t)).
Proof.
  intros Ux Nt op Hin.
  assert (Hs0 : x <> tmp0) by (unfold user_slot, tmp0, scratch_base in *; lia).
  assert (Hs1 : x <> tmp1) by (unfold user_slot, tmp1, scratch_base in *; lia).
  destruct t as [o d|o|res src v|res src v|res src v|res|res src|res src|o src|o src|o src|o d|o src v|o|o|temps e|res src temps v];
    cbn [expand fst touched] in Hin, Nt; unfold alloc_with in Hin;
    try (eapply untouched_build_temps; eassumption);
    repeat match goal with
           | H : In _ (_ :: _) |- _ => destruct H as [<-|H]
           | H : In _ (_ ++ _) |- _ => apply in_app_or in H; destruct H as [H|H]
           | H : In _ [] |- _ => contradiction
           end;
    try (cbn [targets]; simpl in Nt; simpl; intros HH; repeat (destruct HH as [HH|HH]; [subst; tauto|]); contradiction);
    try (eapply untouched_write_all; [|eassumption]; simpl in Nt; first [exact Hs0 | tauto]).
  - eapply untouched_write_all; [|eassumption]. simpl in Nt. intros ->. tauto.
  - eapply untouched_build_temps; eassumption.
  - eapply untouched_write_all; [|eassumption]. simpl in Nt. intros ->. tauto.
  - eapply untouched_del_temps; eassumption.
Qed.

(* ---- the main theorem for non-throwing operations ---- *)
Theorem top_ok st s t :
  Inv st -> Rel st s -> top_wf s t -> snd (expand t) = None ->
  exists st', run_top L t st = (Ok tt, st') /\ Inv st' /\ Rel st' (spec_top s t) /\
    (forall x r, user_slot x -> ~ In x (touched t) -> objs st x = Some r ->
                 objs st' x = Some r /\ contents st' r = contents st r).
Proof.
  intros I R W NT. pose proof (expand_wf s t W NT) as WH.
  unfold run_top, spec_top. destruct (expand t) as (body, thr) eqn:E. simpl in NT, WH. subst thr.
  rewrite run_body_eq.
  destruct (history_ok L Lpos body st s I R WH) as (st' & E' & I' & R').
  exists st'. rewrite E'. split; [reflexivity|]. split; [exact I'|]. split; [exact R'|].
  intros x r Ux Nt Hx.
  assert (U : untouched x body).
  { pose proof (untouched_expand x t Ux Nt) as U. rewrite E in U. exact U. }
  destruct (history_independent body st s x r I R WH U Hx) as (st2 & E2 & _ & _ & Hx2 & C2).
  rewrite E' in E2. injection E2 as <-. auto.
Qed.

(* ---- stack unwinding: destroying the live temporaries leaves every other object alone ---- *)
Lemma destroy_all_frame pool : forall k st,
  Inv st -> exists st', destroy_all L k pool st = (Ok tt, st') /\ Inv st' /\
     (forall o, k <= o < k + pool -> objs st' o = None) /\
     (forall o, ~ (k <= o < k + pool) -> objs st' o = objs st o) /\
     (forall o r, ~ (k <= o < k + pool) -> objs st o = Some r -> contents st' r = contents st r).
Proof.
  induction pool as [|p IH]; intros k st I.
  - exists st. simpl. split; [reflexivity|]. split; [exact I|]. split; [intros; lia|]. split; auto.
  - simpl. destruct (objs st k) as [r|] eqn:Hk.
    + assert (Hl : objs st k <> None) by congruence.
      destruct (dtor_ok L Lpos st (sstore_of st) k I (rel_sstore_of st) Hl) as (st1 & E1 & I1 & R1 & F1).
      destruct (IH (S k) st1 I1) as (st2 & E2 & I2 & D2 & F2 & C2).
      exists st2. unfold Heap.mbind. rewrite E1. split; [exact E2|]. split; [exact I2|].
      assert (K1 : objs st1 k = None).
      { specialize (R1 k). simpl in R1. unfold sset in R1. rewrite upd_same in R1.
        destruct (objs st1 k); [contradiction|reflexivity]. }
      split; [|split].
      * intros o Hr. destruct (Nat.eq_dec o k) as [->|N]; [rewrite F2 by lia; exact K1|apply D2; lia].
      * intros o Hr. rewrite F2 by lia. apply F1. simpl. intros [E|[]]. lia.
      * intros o r0 Hr Ho.
        assert (No : ~ In o (targets (BDel k))) by (simpl; intros [E|[]]; lia).
        assert (W : wf_bop st (BDel k)) by exact Hl.
        destruct (step_independent L Lpos st (BDel k) o r0 I W No Ho) as (st1' & E1' & _ & Ho1 & C1).
        simpl in E1'. rewrite E1 in E1'. injection E1' as <-.
        rewrite (C2 o r0 ltac:(lia) Ho1). exact C1.
    + destruct (IH (S k) st I) as (st2 & E2 & I2 & D2 & F2 & C2).
      exists st2. split; [exact E2|]. split; [exact I2|]. split; [|split].
      * intros o Hr. destruct (Nat.eq_dec o k) as [->|N]; [rewrite F2 by lia; exact Hk|apply D2; lia].
      * intros o Hr. apply F2. lia.
      * intros o r0 Hr Ho. apply (C2 o r0); [lia|exact Ho].
Qed.

(* ---- an operation that throws after building temporaries (C18): nothing the caller can see changes ---- *)
Lemma wf_build_temps temps : forall k s,
  (forall j, k <= j < k + length temps -> s (scratch_base + j) = None) ->
  wf_history s (build_temps k temps).
Proof.
  induction temps as [|d temps IH]; intros k s H; simpl; [exact Logic.I|].
  split; [unfold sdead; apply H; simpl; lia|].
  apply IH. intros j Hj. simpl. unfold sset. rewrite upd_other by lia. apply H. simpl. lia.
Qed.

Theorem top_throw_ok st s temps e :
  Inv st -> Rel st s -> top_wf s (TThrowing temps e) ->
  exists st', run_top L (TThrowing temps e) st = (Throw e, st') /\ Inv st' /\ Rel st' s /\
    (forall x r, user_slot x -> objs st x = Some r -> objs st' x = Some r /\ contents st' r = contents st r).
Proof.
  intros I R (SD & W). simpl in W. unfold run_top. cbn [expand]. rewrite run_body_eq.
  assert (WH : wf_history s (build_temps 0 temps)).
  { apply wf_build_temps. intros j Hj. apply SD. lia. }
  destruct (history_ok L Lpos _ st s I R WH) as (st1 & E1 & I1 & R1). rewrite E1.
  unfold unwind. destruct (destroy_all_frame scratch_slots scratch_base st1 I1) as (st2 & E2 & I2 & D2 & F2 & C2).
  rewrite E2. exists st2. split; [reflexivity|]. split; [exact I2|].
  assert (Huser : forall x r, user_slot x -> objs st x = Some r -> objs st2 x = Some r /\ contents st2 r = contents st r).
  { intros x r Ux Hx.
    destruct (history_independent _ st s x r I R WH (untouched_build_temps x temps 0 Ux) Hx) as (st1' & E1' & _ & _ & Hx1 & C1).
    rewrite E1 in E1'. injection E1' as <-.
    assert (Nr : ~ (scratch_base <= x < scratch_base + scratch_slots)) by (unfold user_slot in Ux; lia).
    split; [rewrite F2 by exact Nr; exact Hx1|]. rewrite (C2 x r Nr Hx1). exact C1. }
  split; [|exact Huser].
  intros o.
  destruct (Nat.lt_ge_cases o scratch_base) as [Ux|Hs].
  - (* user slot *)
    specialize (R o). destruct (objs st o) as [r|] eqn:Ho.
    + destruct (Huser o r Ux Ho) as (H2 & C). rewrite H2. destruct (s o) as [[l|]|]; auto. rewrite C. exact R.
    + (* dead before: dead after *)
      assert (Nr : ~ (scratch_base <= o < scratch_base + scratch_slots)) by lia.
      rewrite F2 by exact Nr.
      assert (S1 : fold_left spec_bop (build_temps 0 temps) s o = s o).
      { clear -Ux. generalize 0. revert s. induction temps as [|d temps IH]; intros s k; simpl; [reflexivity|].
        rewrite IH. unfold sset. apply upd_other. unfold scratch_base in *. lia. }
      specialize (R1 o). rewrite S1 in R1. destruct (s o) as [sv|]; [contradiction|].
      destruct (objs st1 o); [contradiction|exact Logic.I].
  - destruct (Nat.lt_ge_cases o (scratch_base + scratch_slots)) as [Hin|Hout].
    + rewrite D2 by lia. replace o with (scratch_base + (o - scratch_base)) by lia.
      rewrite SD by lia. exact Logic.I.
    + (* beyond the scratch slots: untouched by everything *)
      assert (Nr : ~ (scratch_base <= o < scratch_base + scratch_slots)) by lia.
      rewrite F2 by exact Nr.
      assert (S1 : fold_left spec_bop (build_temps 0 temps) s o = s o).
      { assert (forall k, k + length temps <= scratch_slots ->
                fold_left spec_bop (build_temps k temps) s o = s o) as Hg.
        { clear -Hout. revert s. induction temps as [|d temps IH]; intros s k Hk; [reflexivity|].
          cbn [build_temps fold_left length] in *. rewrite IH by lia. cbn [spec_bop]. unfold sset. apply upd_other. lia. }
        apply Hg. simpl. exact W. }
      specialize (R1 o). rewrite S1 in R1.
      destruct (objs st1 o) as [r|] eqn:Ho1; [|exact R1].
      destruct (s o) as [[l|]|]; auto. rewrite (C2 o r Nr Ho1). exact R1.
Qed.

(* ---- every finite sequence of string operations, throwing ones included ---- *)
Fixpoint run_tops (ts : list top) (st : store) : list (outcome unit) * store :=
  match ts with
  | [] => ([], st)
  | t :: rest => let '(r, st1) := run_top L t st in
                 let '(rs, st2) := run_tops rest st1 in (r :: rs, st2)
  end.

Fixpoint wf_tops (s : sstore) (ts : list top) : Prop :=
  match ts with
  | [] => True
  | t :: rest => top_wf s t /\ wf_tops (spec_top s t) rest
  end.

Definition expected_result (t : top) : outcome unit :=
  match snd (expand t) with None => Ok tt | Some e => Throw e end.

Theorem tops_ok ts : forall st s,
  Inv st -> Rel st s -> wf_tops s ts ->
  fst (run_tops ts st) = map expected_result ts /\
  Inv (snd (run_tops ts st)) /\ Rel (snd (run_tops ts st)) (fold_left spec_top ts s).
Proof.
  induction ts as [|t rest IH]; intros st s I R W; simpl.
  - auto.
  - destruct W as (W1 & W2).
    destruct (snd (expand t)) as [e|] eqn:Ex.
    + (* throwing *)
      destruct t as [| | | | | | | | | | | | | | |temps e0| ]; simpl in Ex; try discriminate. injection Ex as ->.
      destruct (top_throw_ok st s temps e I R W1) as (st1 & E1 & I1 & R1 & _).
      rewrite E1. assert (Hs : spec_top s (TThrowing temps e) = s) by reflexivity. rewrite Hs in *.
      destruct (IH st1 s I1 R1 W2) as (A & B & C).
      destruct (run_tops rest st1) as (rs, st2). simpl in *. split; [|split]; auto.
      unfold expected_result. simpl. f_equal. exact A.
    + destruct (top_ok st s t I R W1 Ex) as (st1 & E1 & I1 & R1 & _).
      rewrite E1. destruct (IH st1 _ I1 R1 W2) as (A & B & C).
      destruct (run_tops rest st1) as (rs, st2). simpl in *. split; [|split]; auto.
      unfold expected_result at 1. rewrite Ex. f_equal. exact A.
Qed.

(* const members and free functions: the footprints that do not name the source *)
Definition is_const (t : top) : bool :=
  match t with
  | TReads _ | TFreshNRVO _ _ _ | TFreshMoveCtor _ _ _ | TFreshMoveAsg _ _ _ | TEmpty _ | TCopyOf _ _ | TCopyMove _ _
  | TFreshVia _ _ _ _ => true
  | _ => false
  end.
Definition source_of (t : top) : option objid :=
  match t with
  | TReads o => Some o
  | TFreshNRVO _ src _ | TFreshMoveCtor _ src _ | TFreshMoveAsg _ src _ | TCopyOf _ src | TCopyMove _ src
  | TFreshVia _ src _ _ => Some src
  | _ => None
  end.

(* C04, first sentence: a const operation leaves its source's bytes, size and data pointer unchanged,
   whatever value it computes *)
Theorem const_frame st s t src r :
  Inv st -> Rel st s -> top_wf s t -> is_const t = true -> source_of t = Some src -> objs st src = Some r ->
  exists st', run_top L t st = (Ok tt, st') /\ Inv st' /\ objs st' src = Some r /\ contents st' r = contents st r.
Proof.
  intros I R W C S Hs.
  assert (NT : snd (expand t) = None) by (destruct t; simpl in C; try discriminate; reflexivity).
  destruct (top_ok st s t I R W NT) as (st' & E & I' & R' & F).
  exists st'. split; [exact E|]. split; [exact I'|].
  destruct W as (_ & W).
  apply F; [| |exact Hs].
  - destruct t; simpl in S, W, C; try discriminate; injection S as <-; tauto.
  - destruct t; simpl in S, W, C |- *; try discriminate; injection S as <-; try tauto.
    all: intros [E2|[]]; subst; destruct W as (Wr & _ & Ws & _); congruence.
Qed.

End SP.
