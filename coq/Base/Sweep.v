(* Base/Sweep.v — exhaustive sweeps over [0, 2^k) evaluated by the kernel's VM,
   and the lemma that lifts a successful sweep to a universally quantified
   statement.  A sweep is a proof (the domain is finite and the bound is in the
   statement), not a sample.                                                   *)
From Coq Require Import NArith Lia List Bool.
Import ListNotations.
Local Open Scope N_scope.

Fixpoint all_below_aux (k : nat) (base : N) (P : N -> bool) : bool :=
  match k with
  | O => P base
  | S k' => all_below_aux k' (2 * base) P && all_below_aux k' (2 * base + 1) P
  end.

(* P holds for every n < 2^k *)
Definition all_below (k : nat) (P : N -> bool) : bool := all_below_aux k 0 P.

Lemma all_below_aux_spec k : forall base P,
  all_below_aux k base P = true ->
  forall m, m < 2 ^ N.of_nat k -> P (base * 2 ^ N.of_nat k + m) = true.
Proof.
  induction k as [|k IH]; intros base P H m Hm.
  - simpl in *. assert (m = 0) by lia. subst. rewrite N.mul_1_r, N.add_0_r. exact H.
  - cbn [all_below_aux] in H. apply andb_true_iff in H. destruct H as [H0 H1].
    rewrite Nat2N.inj_succ, N.pow_succ_r' in *.
    set (p := 2 ^ N.of_nat k) in *.
    destruct (N.ltb_spec m p) as [Hlt|Hge].
    + specialize (IH _ _ H0 m Hlt). fold p in IH.
      replace (base * (2 * p) + m) with (2 * base * p + m) by lia. exact IH.
    + assert (Hm' : m - p < p) by lia.
      specialize (IH _ _ H1 (m - p) Hm'). fold p in IH.
      replace (base * (2 * p) + m) with ((2 * base + 1) * p + (m - p)) by lia. exact IH.
Qed.

Lemma all_below_spec k P :
  all_below k P = true -> forall n, n < 2 ^ N.of_nat k -> P n = true.
Proof.
  intros H n Hn. pose proof (all_below_aux_spec k 0 P H n Hn) as E.
  rewrite N.mul_0_l, N.add_0_l in E. exact E.
Qed.

(* range sweep [lo, lo + 2^k) *)
Definition all_from (lo : N) (k : nat) (P : N -> bool) : bool :=
  all_below k (fun n => P (lo + n)).

Lemma all_from_spec lo k P :
  all_from lo k P = true -> forall n, lo <= n -> n < lo + 2 ^ N.of_nat k -> P n = true.
Proof.
  intros H n Hlo Hhi. unfold all_from in H.
  pose proof (all_below_spec k _ H (n - lo)) as E. cbv beta in E.
  replace (lo + (n - lo)) with n in E by lia. apply E. lia.
Qed.

(* two-dimensional sweep *)
Definition all_below2 (k1 k2 : nat) (P : N -> N -> bool) : bool :=
  all_below k1 (fun a => all_below k2 (fun b => P a b)).

Lemma all_below2_spec k1 k2 P :
  all_below2 k1 k2 P = true ->
  forall a b, a < 2 ^ N.of_nat k1 -> b < 2 ^ N.of_nat k2 -> P a b = true.
Proof.
  intros H a b Ha Hb. unfold all_below2 in H.
  pose proof (all_below_spec k1 _ H a Ha) as E. cbv beta in E.
  exact (all_below_spec k2 _ E b Hb).
Qed.

(* Example: the sweep really evaluates every point *)
Example all_below_demo : all_below 8 (fun n => n <? 256) = true.
Proof. vm_compute. reflexivity. Qed.
Example all_below_demo_neg : all_below 8 (fun n => negb (n =? 255)) = false.
Proof. vm_compute. reflexivity. Qed.
