(* Base/Outcome.v — the outcome type shared by every model.
   A model function never "cannot go wrong by typing": an out-of-bounds access,
   an ST_ASSERT, undefined behaviour, a hang or a double free is a VALUE of this
   type, so that "never reads outside", "never aborts", "terminates" are
   theorems of the form  forall x, model x <> Fault _ .                       *)
From Coq Require Import List NArith.
Import ListNotations.

(* exceptions the library throws *)
Inductive exn :=
| UnicodeError | CodecError | BadFormat | OutOfRange | InvalidArgument | BadAlloc.

(* ST_ASSERT sites, by message class (never by line number) *)
Inductive abort_reason :=
| AbHuge          (* "String data buffer is too large" *)
| AbNullData      (* "buffer cannot be constructed with non-zero size and NULL data" *)
| AbConvRange     (* "Input character out of range" *)
| AbCharPad       (* "Char formatting does not currently support padding" *)
| AbFloatBuf      (* "Format buffer too small" *)
| AbFloatFmt      (* "Not enough space for format string" *)
| AbSplitChar     (* "Split character should be in range ..." *)
| AbSplitNull     (* "ST::string::split called with null splitter" *)
| AbStrlenNull    (* "buffer<char_T>::strlen passed null buffer" *)
| AbCodecLen      (* "Conversion didn't match expected length" *)
| AbB64Tail       (* "Unexpected bytes left after encoding loop" *)
| AbParseNoFmt    (* "parse_format() called with no format" *)
| AbDigitClass    (* "Invalid digit class ..." *)
| AbOther.

Inductive fault :=
| OOBRead | OOBWrite | Unwritten | UBSignedNeg | UBOther | Hang
| DoubleFree | FreeNonHeap | UseAfterFree | ForeignStorage | Leak | AllocTooBig
| NullDeref.

Inductive outcome (A : Type) :=
| Ok (a : A)
| Throw (e : exn)
| Abort (why : abort_reason)
| Fault (f : fault).
Arguments Ok {A} a.
Arguments Throw {A} e.
Arguments Abort {A} why.
Arguments Fault {A} f.

Definition bind {A B} (m : outcome A) (k : A -> outcome B) : outcome B :=
  match m with
  | Ok a => k a
  | Throw e => Throw e
  | Abort w => Abort w
  | Fault f => Fault f
  end.

Definition omap {A B} (f : A -> B) (m : outcome A) : outcome B :=
  bind m (fun a => Ok (f a)).

Declare Scope outcome_scope.
Notation "x <- m ;; k" := (bind m (fun x => k))
  (at level 61, m at next level, right associativity) : outcome_scope.
Notation "' p <- m ;; k" := (bind m (fun x => match x with p => k end))
  (at level 61, p pattern, m at next level, right associativity) : outcome_scope.

Definition is_ok {A} (m : outcome A) : bool :=
  match m with Ok _ => true | _ => false end.
Definition is_fault {A} (m : outcome A) : bool :=
  match m with Fault _ => true | _ => false end.
Definition is_abort {A} (m : outcome A) : bool :=
  match m with Abort _ => true | _ => false end.
Definition is_throw {A} (m : outcome A) : bool :=
  match m with Throw _ => true | _ => false end.

(* "safe": produced a value or threw; neither aborted nor faulted *)
Definition safe {A} (m : outcome A) : Prop :=
  match m with Ok _ | Throw _ => True | _ => False end.

Lemma bind_ok {A B} (a : A) (k : A -> outcome B) : bind (Ok a) k = k a.
Proof. reflexivity. Qed.

Lemma bind_Ok_inv {A B} (m : outcome A) (k : A -> outcome B) b :
  bind m k = Ok b -> exists a, m = Ok a /\ k a = Ok b.
Proof. destruct m; simpl; intros H; try discriminate. eauto. Qed.

Lemma bind_assoc {A B C} (m : outcome A) (f : A -> outcome B) (g : B -> outcome C) :
  bind (bind m f) g = bind m (fun a => bind (f a) g).
Proof. destruct m; reflexivity. Qed.

(* option -> outcome with a fault for None *)
Definition of_opt {A} (f : fault) (o : option A) : outcome A :=
  match o with Some a => Ok a | None => Fault f end.
