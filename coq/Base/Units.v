(* Base/Units.v — code units, machine-integer wrap-around, small predicates.
   A code unit of any width is an N; sequences are list N with a boolean range
   predicate.  Lengths/indices/fuel are nat; quantities whose C++ wrap-around
   matters are N or Z with the wrap written out.                               *)
From Coq Require Import NArith ZArith List Bool Lia.
Import ListNotations.
Local Open Scope N_scope.

Definition all_lt (b : N) (l : list N) : bool := forallb (fun x => x <? b) l.
Definition bytes_ok := all_lt 256.
Definition units16_ok := all_lt 65536.
Definition units32_ok := all_lt 4294967296.

Lemma all_lt_Forall b l : all_lt b l = true <-> Forall (fun x => x < b) l.
Proof.
  unfold all_lt. rewrite forallb_forall, Forall_forall.
  split; intros H x Hx; specialize (H x Hx); [apply N.ltb_lt|apply N.ltb_lt]; exact H.
Qed.

Lemma all_lt_app b l1 l2 : all_lt b (l1 ++ l2) = all_lt b l1 && all_lt b l2.
Proof. unfold all_lt. apply forallb_app. Qed.

(* Unicode scalar value *)
Definition is_scalar (c : N) : bool :=
  (c <? 0xD800) || ((0xDFFF <? c) && (c <=? 0x10FFFF)).
Definition scalars (l : list N) : bool := forallb is_scalar l.

(* machine integers *)
Definition two64 : N := 18446744073709551616.
Definition two63 : N := 9223372036854775808.
Definition two32 : N := 4294967296.
Definition two31 : N := 2147483648.
Definition wrap64 (x : N) : N := x mod two64.
Definition wrap32 (x : N) : N := x mod two32.
Definition wrap8 (x : N) : N := x mod 256.
Definition wrap16 (x : N) : N := x mod 65536.
Definition size_max : N := two64 - 1.

(* size_t subtraction a - b (mod 2^64), a b < 2^64 *)
Definition sub64 (a b : N) : N := if b <=? a then a - b else two64 - (b - a).
Definition add64 (a b : N) : N := wrap64 (a + b).

(* reinterpretations *)
Definition to_ssize (x : N) : Z :=      (* size_t -> ssize_t *)
  if x <? two63 then Z.of_N x else (Z.of_N x - Z.of_N two64)%Z.
Definition of_ssize (z : Z) : N :=      (* ssize_t -> size_t *)
  if (0 <=? z)%Z then Z.to_N z else Z.to_N (z + Z.of_N two64)%Z.
Definition to_int32 (x : N) : Z :=      (* low 32 bits, signed *)
  let y := x mod two32 in
  if y <? two31 then Z.of_N y else (Z.of_N y - Z.of_N two32)%Z.
Definition schar (b : N) : Z :=         (* unsigned char -> (signed) char value *)
  if b <? 128 then Z.of_N b else (Z.of_N b - 256)%Z.

(* list helpers used everywhere *)
Definition rd {A} (l : list A) (i : nat) : option A := nth_error l i.

Fixpoint upd {A} (l : list A) (i : nat) (x : A) : option (list A) :=
  match l, i with
  | [], _ => None
  | _ :: t, O => Some (x :: t)
  | h :: t, S i' => match upd t i' x with Some t' => Some (h :: t') | None => None end
  end.

Lemma upd_length {A} (l : list A) i x l' : upd l i x = Some l' -> length l' = length l.
Proof.
  revert i l'; induction l as [|h t IH]; intros [|i] l' H; simpl in H; try discriminate.
  - inversion H; reflexivity.
  - destruct (upd t i x) eqn:E; try discriminate. inversion H; subst. simpl. f_equal. eauto.
Qed.

Lemma upd_some {A} (l : list A) i x : (i < length l)%nat -> exists l', upd l i x = Some l'.
Proof.
  revert i; induction l as [|h t IH]; intros [|i] H; simpl in *; try lia; eauto.
  destruct (IH i) as [l' E]; [lia|]. rewrite E. eauto.
Qed.
