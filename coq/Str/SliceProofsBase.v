(* Str/SliceProofsBase.v — facts about the array accessors used by the slice/split models:
   at_ / cstr / copy_out / c_strlen / allocate.                                             *)
From Coq Require Import NArith ZArith List Bool Lia.
From ST Require Import Base.Outcome Base.Units Str.Model Str.SliceSpec Str.SliceModel.
Import ListNotations.
Local Open Scope N_scope.

Lemma nth_error_skipn {A} (a : list A) : forall i, (i < length a)%nat ->
  exists x, nth_error a i = Some x /\ skipn i a = x :: skipn (S i) a.
Proof.
  induction a as [|h t IH]; intros i Hi; simpl in Hi; [lia|].
  destruct i as [|i]; [exists h; split; reflexivity|].
  destruct (IH i) as [x [E1 E2]]; [lia|]. exists x. split; [exact E1|]. exact E2.
Qed.

Lemma skipn_skipn' {A} : forall (k m : nat) (l : list A), skipn k (skipn m l) = skipn (m + k) l.
Proof.
  intros k m. revert k. induction m as [|m IH]; intros k l; [reflexivity|].
  destruct l as [|x t]; [rewrite !skipn_nil; reflexivity|]. simpl. apply IH.
Qed.

Lemma at_skipn (a : list N) i : (i < length a)%nat ->
  exists x, at_ a i = Ok x /\ skipn i a = x :: skipn (S i) a.
Proof.
  intros Hi. destruct (nth_error_skipn a i Hi) as [x [E1 E2]].
  exists x. unfold at_. rewrite E1. split; [reflexivity|exact E2].
Qed.

Lemma at_ok_inv (a : list N) i x : at_ a i = Ok x -> (i < length a)%nat /\ nth_error a i = Some x.
Proof.
  unfold at_. destruct (nth_error a i) eqn:E; simpl; intros H; inversion H; subst.
  split; [|reflexivity]. apply nth_error_Some. rewrite E. discriminate.
Qed.

Lemma at_oob (a : list N) i : (length a <= i)%nat -> at_ a i = Fault OOBRead.
Proof. intros H. unfold at_. apply nth_error_None in H. rewrite H. reflexivity. Qed.

Lemma cstr_length s : length (cstr s) = S (length s).
Proof. unfold cstr. rewrite app_length. simpl. lia. Qed.

Lemma at_cstr_lt s i : (i < length s)%nat -> at_ (cstr s) i = at_ s i.
Proof. intros H. unfold at_, cstr. rewrite nth_error_app1 by exact H. reflexivity. Qed.

Lemma at_cstr_end s : at_ (cstr s) (length s) = Ok 0.
Proof. unfold at_, cstr. rewrite nth_error_app2 by lia. rewrite Nat.sub_diag. reflexivity. Qed.

Lemma skipn_cstr s i : (i <= length s)%nat -> skipn i (cstr s) = skipn i s ++ [0].
Proof.
  intros H. unfold cstr. rewrite skipn_app. replace (i - length s)%nat with O by lia. reflexivity.
Qed.

Lemma copy_out_spec : forall cnt a from, (from + cnt <= length a)%nat ->
  copy_out a from cnt = Ok (firstn cnt (skipn from a)).
Proof.
  induction cnt as [|c IH]; intros a from H; [reflexivity|].
  cbn [copy_out]. destruct (at_skipn a from) as [x [E1 E2]]; [lia|].
  rewrite E1. cbn [bind]. rewrite IH by lia. cbn [bind]. rewrite E2. reflexivity.
Qed.

Lemma copy_out_cstr s from cnt : (from + cnt <= length s)%nat ->
  copy_out (cstr s) from cnt = Ok (firstn cnt (skipn from s)).
Proof.
  intros H. rewrite copy_out_spec by (rewrite cstr_length; lia).
  rewrite skipn_cstr by lia. rewrite firstn_app.
  rewrite skipn_length. replace (cnt - (length s - from))%nat with O by lia.
  rewrite firstn_O, app_nil_r. reflexivity.
Qed.

(* ---- C strings ---- *)
(* a well-formed C-string array: some NUL inside *)
Lemma c_strlen_content : forall a k, c_strlen a = Ok k ->
  k = length (c_content a) /\ firstn k a = c_content a /\ (k < length a)%nat /\ nth_error a k = Some 0.
Proof.
  induction a as [|c t IH]; intros k H; simpl in H; [discriminate|].
  destruct (c =? 0) eqn:E.
  - inversion H; subst. simpl. rewrite E. apply N.eqb_eq in E. subst. repeat split; simpl; lia.
  - destruct (c_strlen t) as [n| | |] eqn:Et; simpl in H; try discriminate. inversion H; subst.
    destruct (IH n eq_refl) as [I1 [I2 [I3 I4]]]. simpl. rewrite E. simpl.
    repeat split; try lia; [f_equal; exact I2 | exact I4].
Qed.

Lemma c_strlen_app0 : forall b, ~ In 0 b -> c_strlen (b ++ [0]) = Ok (length b).
Proof.
  induction b as [|c t IH]; intros H; [reflexivity|].
  simpl. destruct (c =? 0) eqn:E; [apply N.eqb_eq in E; subst; exfalso; apply H; left; reflexivity|].
  rewrite IH; [reflexivity|]. intros Hin. apply H. right. exact Hin.
Qed.

Lemma c_content_app0 : forall b, ~ In 0 b -> c_content (b ++ [0]) = b.
Proof.
  induction b as [|c t IH]; intros H; [reflexivity|].
  simpl. destruct (c =? 0) eqn:E; [apply N.eqb_eq in E; subst; exfalso; apply H; left; reflexivity|].
  f_equal. apply IH. intros Hin. apply H. right. exact Hin.
Qed.

Lemma c_content_no0 : forall a, ~ In 0 (c_content a).
Proof.
  induction a as [|c t IH]; simpl; [tauto|].
  destruct (c =? 0) eqn:E; simpl; [tauto|]. apply N.eqb_neq in E. intros [H|H]; [congruence|tauto].
Qed.

(* the strings of the model: sizes below 2^63 - 1 (an allocation of size + 1 bytes exists) *)
Definition fits (s : list N) : Prop := size s < two63 - 1.

Lemma allocate_ok c : c + 1 < two63 -> allocate c = Ok tt.
Proof.
  intros H. unfold allocate. destruct (two63 <=? c + 1) eqn:E; [|reflexivity].
  apply N.leb_le in E. lia.
Qed.
