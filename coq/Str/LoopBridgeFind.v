(* Str/LoopBridgeFind.v — search half of the tie by translation for the case-insensitive stack (see
   Str/LoopBridgeCompare.v): find_ci(haystack, size, ch) and find_ci(haystack, size, needle, needle_size) as translated
   from the current headers compute Str/Model.find_ch CaseInsensitive and find_sub CaseInsensitive. *)
From Coq Require Import NArith ZArith List Bool Lia ZifyBool ZifyNat ZifyN.
From ST Require Import Base.Outcome Base.Units Base.Sweep Str.Model Gen.Leaf Str.LoopBridgeCompare.
Import ListNotations.
Local Open Scope Z_scope.

(* ---- find_ci(haystack, size, ch) ---- *)
Lemma find_loop_S f ph h0 sz ch cp ep lch : src_find_ci_loop1 (S f) ph h0 sz ch cp ep lch =
  (if z2b (b2z (Z.ltb cp ep)) then
     if z2b (b2z (Z.eqb (wraps 32 (src_cl_fast_lower (ph cp))) lch)) then Some cp
     else src_find_ci_loop1 f ph h0 sz ch (cp + 1) ep lch
   else Some (-1)).
Proof. reflexivity. Qed.

(* the index returned is relative to the index i the scan started from; offsets in the model are absolute *)
Definition enc_rel (cp0 : nat) (i0 : Z) (r : option nat) : Z :=
  match r with Some k => i0 + Z.of_nat (k - cp0) | None => -1 end.

Theorem find_ci_loop_matches : forall size h cp ch ph i h0 sz chz fuel cp0 i0, bytes h -> (ch < 256)%N ->
  (cp + size <= length h)%nat -> reads ph i h cp size -> (size < fuel)%nat -> (cp0 <= cp)%nat -> i = i0 + Z.of_nat (cp - cp0) ->
  exists r, find_ch CaseInsensitive h cp size ch = Ok r /\
            src_find_ci_loop1 fuel ph h0 sz chz i (i + Z.of_nat size) (schar (cl_fast_lower ch)) = Some (enc_rel cp0 i0 r).
Proof.
  induction size as [|size IH]; intros h cp ch ph i h0 sz chz fuel cp0 i0 Bh Hch Hl R Hf Hcp Hi;
    (destruct fuel as [|fuel]; [lia|]).
  - exists None. split; [reflexivity|]. rewrite find_loop_S.
    replace (i <? i + Z.of_nat 0) with false by lia. reflexivity.
  - cbn [find_ch]. rewrite (at_ok h cp) by lia. cbn [bind]. rewrite find_loop_S.
    replace (i <? i + Z.of_nat (S size)) with true by lia. cbn [b2z z2b Z.eqb negb].
    rewrite (reads_head _ _ _ _ _ R). set (a := nth cp h 0%N).
    assert (Ha : (a < 256)%N) by (apply bytes_nth; [exact Bh|lia]).
    destruct (lower_signed a Ha) as [Ea La]. destruct (lower_signed ch Hch) as [_ Lc].
    rewrite Ea. pose proof (schar_range _ La) as Ra. rewrite wraps32_small by lia.
    rewrite schar_inj by assumption.
    destruct (cl_fast_lower a =? cl_fast_lower ch)%N eqn:E; cbn [b2z z2b Z.eqb negb].
    + exists (Some cp). split; [reflexivity|]. unfold enc_rel. f_equal. lia.
    + replace (i + Z.of_nat (S size)) with (i + 1 + Z.of_nat size) by lia.
      apply IH; try assumption; try lia. apply reads_tail. exact R.
Qed.

Theorem find_ci_matches_source h size ch fuel : bytes h -> (ch < 256)%N -> (size <= length h)%nat -> (size < fuel)%nat ->
  exists r, find_ch CaseInsensitive h 0 size ch = Ok r /\
            src_find_ci fuel (arr h) (Z.of_nat size) (schar ch) = Some (enc_ptr r).
Proof.
  intros Bh Hch Hl Hf. unfold src_find_ci. cbv zeta.
  destruct (lower_signed ch Hch) as [Ec Lc]. rewrite Ec.
  pose proof (schar_range _ Lc) as Rc. rewrite wraps32_small by lia.
  destruct (find_ci_loop_matches size h 0%nat ch (arr h) 0 0 (Z.of_nat size) (schar ch) fuel 0%nat 0 Bh Hch Hl
              (reads_arr h 0 size) Hf ltac:(lia) ltac:(lia)) as (r & Er & Es).
  exists r. split; [exact Er|]. rewrite Es. f_equal. destruct r as [k|]; [|reflexivity]. unfold enc_rel, enc_ptr. lia.
Qed.

Lemma find_ch_bounds cs h ch : forall size cp k, find_ch cs h cp size ch = Ok (Some k) -> (cp <= k < cp + size)%nat.
Proof.
  induction size as [|size IH]; intros cp k H; cbn [find_ch] in H; [discriminate|].
  destruct (at_ h cp) as [c| | |]; cbn [bind] in H; try discriminate.
  match type of H with (if ?b then _ else _) = _ => destruct b end.
  - inversion H. lia.
  - apply IH in H. lia.
Qed.

(* ---- find_ci(haystack, size, needle, needle_size) ---- *)
Lemma z2b_b2z b : z2b (b2z b) = b. Proof. destruct b; reflexivity. Qed.

Lemma find_ci_general h cp size ch ph fuel : bytes h -> (ch < 256)%N -> (cp + size <= length h)%nat ->
  reads ph 0 h cp size -> (size < fuel)%nat ->
  exists r, find_ch CaseInsensitive h cp size ch = Ok r /\
            src_find_ci fuel ph (Z.of_nat size) (schar ch) = Some (enc_rel cp 0 r).
Proof.
  intros Bh Hch Hl R Hf. unfold src_find_ci. cbv zeta.
  destruct (lower_signed ch Hch) as [Ec Lc]. rewrite Ec.
  pose proof (schar_range _ Lc) as Rc. rewrite wraps32_small by lia.
  exact (find_ci_loop_matches size h cp ch ph 0 0 (Z.of_nat size) (schar ch) fuel cp 0 Bh Hch Hl R Hf ltac:(lia) ltac:(lia)).
Qed.

Lemma compare_ci_general l r lo ro n pl pr fuel : bytes l -> bytes r ->
  (lo + n <= length l)%nat -> (ro + n <= length r)%nat -> Z.of_nat n < 18446744073709551616 ->
  reads pl 0 l lo n -> reads pr 0 r ro n -> (n < fuel)%nat ->
  exists z, compare_ci_n l lo r ro n = Ok z /\ src_compare_ci fuel pl pr (Z.of_nat n) = Some z.
Proof. intros. unfold src_compare_ci. apply compare_ci_loop_matches; assumption. Qed.

Lemma sub_loop_S f ph pn h0 sz n0 ns cp ep : src_find_ci_sub_loop1 (S f) ph pn h0 sz n0 ns cp ep =
  match src_find_ci f (fun i_ => ph (cp + i_)) (wrapu 64 (wraps 64 (ep - cp))) (pn (n0 + 0)) with
  | None => None
  | Some r1 =>
    let cp4 := if Z.eqb r1 (-1) then -1 else cp + r1 in
    if z2b (b2z (z2b (b2z (negb (z2b (b2z (negb (Z.eqb cp4 (-1))))))) || z2b (b2z (Z.gtb (cp4 + ns) ep)))) then Some (-1)
    else match src_compare_ci f (fun i_ => ph (cp4 + i_)) (fun i_ => pn (n0 + i_)) ns with
         | None => None
         | Some c => if z2b (b2z (Z.eqb c 0)) then Some cp4 else src_find_ci_sub_loop1 f ph pn h0 sz n0 ns (cp4 + 1) ep
         end
  end.
Proof. reflexivity. Qed.

Theorem find_ci_sub_loop_matches : forall m h needle nsize ep f fuel cp szv,
  bytes h -> bytes needle -> (1 <= length needle)%nat -> (nsize <= length needle)%nat -> (cp <= ep <= length h)%nat ->
  Z.of_nat (length h) < 9223372036854775808 -> Z.of_nat nsize < 18446744073709551616 ->
  (ep - cp <= m)%nat -> (m < f)%nat -> (m + ep + nsize + 1 < fuel)%nat ->
  exists r, find_sub_loop f CaseInsensitive h cp ep needle nsize = Ok r /\
            src_find_ci_sub_loop1 fuel (arr h) (arr needle) 0 szv 0 (Z.of_nat nsize) (Z.of_nat cp) (Z.of_nat ep) = Some (enc_ptr r).
Proof.
  induction m as [|m IH]; intros h needle nsize ep f fuel cp szv Bh Bn Hn1 Hns Hcp Hh Hnz Hm Hf Hfuel;
    (destruct f as [|f]; [lia|]); (destruct fuel as [|fuel]; [lia|]);
    cbn [find_sub_loop]; rewrite (at_ok needle 0) by lia; cbn [bind]; rewrite sub_loop_S;
    (assert (Hn0 : (nth 0 needle 0%N < 256)%N) by (apply bytes_nth; [exact Bn|lia]));
    (replace (wrapu 64 (wraps 64 (Z.of_nat ep - Z.of_nat cp))) with (Z.of_nat (ep - cp))
       by (rewrite wraps64_small by lia; rewrite wrapu64_small by lia; lia));
    (replace (arr needle (0 + 0)) with (schar (nth 0 needle 0%N)) by reflexivity);
    (destruct (find_ci_general h cp (ep - cp) (nth 0 needle 0%N) (fun i_ => arr h (Z.of_nat cp + i_)) fuel Bh Hn0
                ltac:(lia) (reads_shift h cp (ep - cp)) ltac:(lia)) as (r & Er & Es)); rewrite Er, Es; cbn [bind];
    (destruct r as [k|]; [pose proof (find_ch_bounds _ _ _ _ _ _ Er) as Hk |
                          exists None; split; [reflexivity|]; cbn [enc_rel]; cbv zeta; reflexivity]).
  - lia.
  - cbn [enc_rel]. cbv zeta.
    replace (0 + Z.of_nat (k - cp) =? -1) with false by lia.
    replace (Z.of_nat cp + (0 + Z.of_nat (k - cp))) with (Z.of_nat k) by lia.
    rewrite !z2b_b2z. replace (Z.of_nat k =? -1) with false by lia. cbn [negb orb].
    replace (Z.of_nat k + Z.of_nat nsize >? Z.of_nat ep) with (Nat.ltb ep (k + nsize)) by lia.
    destruct (Nat.ltb ep (k + nsize)) eqn:Efit.
    + exists None. split; reflexivity.
    + assert (Hfit : (k + nsize <= ep)%nat) by lia.
      destruct (compare_ci_general h needle k 0 nsize (fun i_ => arr h (Z.of_nat k + i_)) (fun i_ => arr needle (0 + i_)) fuel
                  Bh Bn ltac:(lia) ltac:(lia) Hnz (reads_shift h k nsize) (reads_shift0 needle nsize) ltac:(lia)) as (z & Ez & Esz).
      unfold compare_units. rewrite Ez, Esz. cbn [bind].
      destruct (z =? 0) eqn:E0.
      * exists (Some k). split; reflexivity.
      * replace (Z.of_nat k + 1) with (Z.of_nat (S k)) by lia.
        apply IH; try assumption; lia.
Qed.

Theorem find_ci_sub_matches_source h size needle nsize fuel : bytes h -> bytes needle ->
  (1 <= length needle)%nat -> (nsize <= length needle)%nat -> (size <= length h)%nat ->
  Z.of_nat (length h) < 9223372036854775808 -> Z.of_nat nsize < 18446744073709551616 ->
  (size + size + nsize + 1 < fuel)%nat ->
  exists r, find_sub CaseInsensitive h 0 size needle nsize = Ok r /\
            src_find_ci_sub fuel (arr h) (Z.of_nat size) (arr needle) (Z.of_nat nsize) = Some (enc_ptr r).
Proof.
  intros Bh Bn Hn1 Hns Hl Hh Hnz Hf. unfold find_sub, src_find_ci_sub. cbv zeta.
  replace (0 + Z.of_nat size) with (Z.of_nat (0 + size)) by lia.
  exact (find_ci_sub_loop_matches size h needle nsize (0 + size) (S (S size)) fuel 0%nat (Z.of_nat size)
           Bh Bn Hn1 Hns ltac:(lia) Hh Hnz ltac:(lia) ltac:(lia) ltac:(lia)).
Qed.

(* the premises are satisfiable and the results are the expected ones *)
Example find_loops_example :
  src_find_ci 5 (arr [120; 121; 81; 113]%N) 4 (schar 113) = Some 2 /\
  src_find_ci 5 (arr [120; 121; 81; 113]%N) 4 (schar 90) = Some (-1) /\
  src_find_ci_sub 20 (arr [65; 97; 66; 97; 98; 0]%N) 5 (arr [65; 66; 0]%N) 2 = Some 1 /\
  find_sub CaseInsensitive [65; 97; 66; 97; 98; 0]%N 0 5 [65; 66; 0]%N 2 = Ok (Some 1%nat).
Proof. vm_compute. repeat split; reflexivity. Qed.
