(* Str/LoopBridgeCompare.v (comparison half; the search half is Str/LoopBridgeFind.v) — the case-insensitive comparison and search stack of include/st_string_priv.h,
     compare_ci(left, right, fsize)                     compare_ci(left, lsize, right, rsize [, maxlen])
     find_ci(haystack, size, ch)                        find_ci(haystack, size, needle, needle_size)
   as TRANSLATED from the current headers (Gen/Leaf.v: a Fixpoint on fuel per loop, pointers as array + index, calls
   to functions with loops threaded through `option`), computes what the hand-written model functions of Str/Model.v
   compute (compare_ci_n, compare4/compare5 CaseInsensitive, find_ch CaseInsensitive, find_sub CaseInsensitive) — for
   arrays of any length, any offsets and every sufficient fuel.  An array of bytes l is seen by the translated code as
   a function that agrees with  i |-> (signed char) l[i]  on the indices read (`reads`); a returned pointer is its
   index, nullptr is -1. *)
From Coq Require Import NArith ZArith List Bool Lia ZifyBool ZifyNat ZifyN.
From ST Require Import Base.Outcome Base.Units Base.Sweep Str.Model Gen.Leaf.
Import ListNotations.
Local Open Scope Z_scope.

Definition arr (l : list N) (i : Z) : Z := schar (nth (Z.to_nat i) l 0%N).
Definition bytes (l : list N) : Prop := Forall (fun c => (c < 256)%N) l.
Definition enc_ptr (r : option nat) : Z := match r with Some k => Z.of_nat k | None => -1 end.
(* the function p, from index i on, shows the n units of l from offset lo on *)
Definition reads (p : Z -> Z) (i : Z) (l : list N) (lo n : nat) : Prop :=
  forall k, (k < n)%nat -> p (i + Z.of_nat k) = schar (nth (lo + k) l 0%N).

Lemma reads_arr l lo n : reads (arr l) (Z.of_nat lo) l lo n.
Proof. intros k _. unfold arr. f_equal. f_equal. lia. Qed.
Lemma reads_shift l lo n : reads (fun i_ => arr l (Z.of_nat lo + i_)) 0 l lo n.
Proof. intros k _. unfold arr. f_equal. f_equal. lia. Qed.
Lemma reads_shift0 l n : reads (fun i_ => arr l (0 + i_)) 0 l 0 n.
Proof. intros k _. unfold arr. f_equal. f_equal. lia. Qed.
Lemma reads_head p i l lo n : reads p i l lo (S n) -> p i = schar (nth lo l 0%N).
Proof. intros R. specialize (R 0%nat ltac:(lia)). rewrite Z.add_0_r, Nat.add_0_r in R. exact R. Qed.
Lemma reads_tail p i l lo n : reads p i l lo (S n) -> reads p (i + 1) l (S lo) n.
Proof. intros R k Hk. specialize (R (S k) ltac:(lia)). replace (i + 1 + Z.of_nat k) with (i + Z.of_nat (S k)) by lia.
  replace (S lo + k)%nat with (lo + S k)%nat by lia. exact R. Qed.
Lemma reads_le p i l lo n m : reads p i l lo n -> (m <= n)%nat -> reads p i l lo m.
Proof. intros R H k Hk. apply R. lia. Qed.

Definition lower_signed_agrees (c : N) : bool := (src_cl_fast_lower (schar c) =? schar (cl_fast_lower c)) && (cl_fast_lower c <? 256)%N.
Lemma lower_signed_sweep : all_below 8 lower_signed_agrees = true. Proof. vm_compute. reflexivity. Qed.
Lemma lower_signed c : (c < 256)%N -> src_cl_fast_lower (schar c) = schar (cl_fast_lower c) /\ (cl_fast_lower c < 256)%N.
Proof.
  intros H. pose proof (all_below_spec 8 lower_signed_agrees lower_signed_sweep c H) as E.
  unfold lower_signed_agrees in E. apply andb_true_iff in E. destruct E as [E1 E2].
  split; [apply Z.eqb_eq; exact E1 | apply N.ltb_lt; exact E2].
Qed.

Lemma schar_range c : (c < 256)%N -> -128 <= schar c <= 127.
Proof. intros H. unfold schar. destruct (c <? 128)%N eqn:E; lia. Qed.
Lemma schar_inj a b : (a < 256)%N -> (b < 256)%N -> (schar a =? schar b) = (a =? b)%N.
Proof. intros Ha Hb. unfold schar. destruct (a <? 128)%N eqn:E1, (b <? 128)%N eqn:E2; lia. Qed.
Lemma wraps32_small x : -2147483648 <= x < 2147483648 -> wraps 32 x = x.
Proof. intros H. unfold wraps. change (2 ^ (32 - 1)) with 2147483648. change (2 ^ 32) with 4294967296. rewrite Z.mod_small; lia. Qed.
Lemma wraps64_small x : -9223372036854775808 <= x < 9223372036854775808 -> wraps 64 x = x.
Proof. intros H. unfold wraps. change (2 ^ (64 - 1)) with 9223372036854775808. change (2 ^ 64) with 18446744073709551616. rewrite Z.mod_small; lia. Qed.
Lemma wrapu64_small x : 0 <= x < 18446744073709551616 -> wrapu 64 x = x.
Proof. intros H. unfold wrapu. change (2 ^ 64) with 18446744073709551616. apply Z.mod_small. exact H. Qed.

Lemma at_ok l i : (i < length l)%nat -> at_ l i = Ok (nth i l 0%N).
Proof. intros H. unfold at_. rewrite (nth_error_nth' l 0%N H). reflexivity. Qed.
Lemma bytes_nth l i : bytes l -> (i < length l)%nat -> (nth i l 0%N < 256)%N.
Proof. intros B H. unfold bytes in B. rewrite Forall_forall in B. apply B. apply nth_In. exact H. Qed.

(* ---- compare_ci(left, right, fsize) ---- *)
Lemma compare_loop_S f pl pr i j n : src_compare_ci_loop1 (S f) pl pr i j n =
  (if z2b (b2z (z2b n)) then
     let n1 := wrapu 64 (n - 1) in let cl := src_cl_fast_lower (pl i) in let i1 := i + 1 in
     let cr := src_cl_fast_lower (pr j) in let j1 := j + 1 in
     if z2b (b2z (negb (Z.eqb (wraps 32 cl) (wraps 32 cr)))) then Some (wraps 32 (wraps 32 cl - wraps 32 cr))
     else src_compare_ci_loop1 f pl pr i1 j1 n1
   else Some 0).
Proof. reflexivity. Qed.

Theorem compare_ci_loop_matches : forall n l r lo ro pl pr i j fuel, bytes l -> bytes r ->
  (lo + n <= length l)%nat -> (ro + n <= length r)%nat -> Z.of_nat n < 18446744073709551616 ->
  reads pl i l lo n -> reads pr j r ro n -> (n < fuel)%nat ->
  exists z, compare_ci_n l lo r ro n = Ok z /\ src_compare_ci_loop1 fuel pl pr i j (Z.of_nat n) = Some z.
Proof.
  induction n as [|n IH]; intros l r lo ro pl pr i j fuel Bl Br Hl Hr Hn Rl Rr Hf;
    (destruct fuel as [|fuel]; [lia|]).
  - exists 0. split; reflexivity.
  - cbn [compare_ci_n]. rewrite (at_ok l lo) by lia. rewrite (at_ok r ro) by lia. cbn [bind].
    rewrite compare_loop_S.
    assert (Hc : z2b (b2z (z2b (Z.of_nat (S n)))) = true).
    { unfold z2b, b2z. destruct (Z.of_nat (S n) =? 0) eqn:E; [lia|reflexivity]. }
    rewrite Hc. cbv zeta. rewrite (reads_head _ _ _ _ _ Rl), (reads_head _ _ _ _ _ Rr).
    set (a := nth lo l 0%N). set (b := nth ro r 0%N).
    assert (Ha : (a < 256)%N) by (apply bytes_nth; [exact Bl|lia]).
    assert (Hb : (b < 256)%N) by (apply bytes_nth; [exact Br|lia]).
    destruct (lower_signed a Ha) as [Ea La]. destruct (lower_signed b Hb) as [Eb Lb].
    rewrite Ea, Eb.
    pose proof (schar_range _ La) as Ra. pose proof (schar_range _ Lb) as Rb.
    rewrite !wraps32_small by lia.
    rewrite schar_inj by assumption.
    destruct (cl_fast_lower a =? cl_fast_lower b)%N eqn:E; cbn [negb b2z z2b Z.eqb].
    + replace (wrapu 64 (Z.of_nat (S n) - 1)) with (Z.of_nat n) by (rewrite wrapu64_small; lia).
      apply IH; try assumption; try lia; apply reads_tail; assumption.
    + eexists. split; reflexivity.
Qed.

Theorem compare_ci_matches_source l r n fuel : bytes l -> bytes r -> (n <= length l)%nat -> (n <= length r)%nat ->
  Z.of_nat n < 18446744073709551616 -> (n < fuel)%nat ->
  exists z, compare_ci_n l 0 r 0 n = Ok z /\ src_compare_ci fuel (arr l) (arr r) (Z.of_nat n) = Some z.
Proof.
  intros Bl Br Hl Hr Hn Hf.
  exact (compare_ci_loop_matches n l r 0%nat 0%nat (arr l) (arr r) 0 0 fuel Bl Br Hl Hr Hn (reads_arr l 0 n) (reads_arr r 0 n) Hf).
Qed.

(* ---- compare_ci(left, lsize, right, rsize) and (..., maxlen) ---- *)
Theorem compare_ci_4_matches_source l r (lsize rsize : N) fuel : bytes l -> bytes r ->
  (lsize < 18446744073709551616)%N -> (rsize < 18446744073709551616)%N ->
  (N.to_nat (N.min lsize rsize) <= length l)%nat -> (N.to_nat (N.min lsize rsize) <= length r)%nat ->
  (N.to_nat (N.min lsize rsize) < fuel)%nat ->
  exists z, compare4 CaseInsensitive l lsize r rsize = Ok z /\
            src_compare_ci_4 fuel (arr l) (Z.of_N lsize) (arr r) (Z.of_N rsize) = Some z.
Proof.
  intros Bl Br Hls Hrs Hl Hr Hf. unfold compare4, src_compare_ci_4, compare_units. cbv zeta.
  replace (Z.min (Z.of_N lsize) (Z.of_N rsize)) with (Z.of_nat (N.to_nat (N.min lsize rsize))) by lia.
  destruct (compare_ci_matches_source l r (N.to_nat (N.min lsize rsize)) fuel Bl Br Hl Hr ltac:(lia) Hf) as (z & Ez & Es).
  rewrite Ez, Es. cbn [bind]. unfold size_tiebreak.
  destruct (z =? 0) eqn:E0; cbn [negb].
  - assert (z = 0) by lia. subst z. cbn [z2b b2z Z.eqb negb].
    change (wraps 32 (- (1))) with (-1).
    destruct (lsize <? rsize)%N eqn:E1.
    + replace (Z.of_N lsize <? Z.of_N rsize) with true by lia. eexists; split; reflexivity.
    + replace (Z.of_N lsize <? Z.of_N rsize) with false by lia. cbn [z2b b2z Z.eqb negb].
      destruct (rsize <? lsize)%N eqn:E2.
      * replace (Z.of_N lsize >? Z.of_N rsize) with true by lia. eexists; split; reflexivity.
      * replace (Z.of_N lsize >? Z.of_N rsize) with false by lia. eexists; split; reflexivity.
  - assert (Hz : z2b (b2z (z2b z)) = true) by (unfold z2b, b2z; rewrite E0; reflexivity).
    rewrite Hz. eexists; split; reflexivity.
Qed.

Theorem compare_ci_5_matches_source l r (lsize rsize maxlen : N) fuel : bytes l -> bytes r ->
  (lsize < 18446744073709551616)%N -> (rsize < 18446744073709551616)%N -> (maxlen < 18446744073709551616)%N ->
  (N.to_nat (N.min (N.min lsize maxlen) (N.min rsize maxlen)) <= length l)%nat ->
  (N.to_nat (N.min (N.min lsize maxlen) (N.min rsize maxlen)) <= length r)%nat ->
  (N.to_nat (N.min (N.min lsize maxlen) (N.min rsize maxlen)) < fuel)%nat ->
  exists z, compare5 CaseInsensitive l lsize r rsize maxlen = Ok z /\
            src_compare_ci_5 fuel (arr l) (Z.of_N lsize) (arr r) (Z.of_N rsize) (Z.of_N maxlen) = Some z.
Proof.
  intros Bl Br Hls Hrs Hm Hl Hr Hf. unfold compare5, src_compare_ci_5. cbv zeta.
  replace (Z.min (Z.of_N lsize) (Z.of_N maxlen)) with (Z.of_N (N.min lsize maxlen)) by lia.
  replace (Z.min (Z.of_N rsize) (Z.of_N maxlen)) with (Z.of_N (N.min rsize maxlen)) by lia.
  destruct (compare_ci_4_matches_source l r (N.min lsize maxlen) (N.min rsize maxlen) fuel Bl Br ltac:(lia) ltac:(lia) Hl Hr Hf)
    as (z & Ez & Es).
  rewrite Ez, Es. exists z. split; reflexivity.
Qed.

(* the premises are satisfiable and the results are the expected ones *)
Example compare_loops_example :
  src_compare_ci 4 (arr [65; 98; 200]%N) (arr [97; 66; 201]%N) 3 = Some (-1) /\
  src_compare_ci_4 9 (arr [65; 98; 200]%N) 3 (arr [97; 66; 201]%N) 2 = Some 1 /\
  src_compare_ci_5 9 (arr [65; 98; 200]%N) 3 (arr [97; 66; 201]%N) 3 2 = Some 0.
Proof. vm_compute. repeat split; reflexivity. Qed.
