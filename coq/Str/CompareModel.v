(* Str/CompareModel.v — the comparison front ends of st_charbuffer.h and st_string.h, transcribed
   on top of the primitives of Str/Model.v.
   A string/buffer value is its content `s : list N`; c_str()/data() is the array `cstr s`
   (terminator readable); size() is `len s`.  A `const char_T *` argument is `option (list N)`:
   None = nullptr, Some z = the array the pointer points into (the harness passes content ++ [0]).
   Results of the compare family are C ints of which only the SIGN is meaningful.            *)
From Coq Require Import NArith ZArith List Bool Lia.
From ST Require Import Base.Outcome Base.Units Gen.Consts Str.Model.
Import ListNotations.
Local Open Scope N_scope.
Local Open Scope outcome_scope.

Definition len (s : list N) : N := N.of_nat (length s).

(* std::char_traits<T>::length(str): walk to the first NUL; running off the array is an over-read *)
Fixpoint strlen (z : list N) : outcome nat :=
  match z with
  | [] => Fault OOBRead
  | c :: t => if c =? 0 then Ok O else n <- strlen t ;; Ok (S n)
  end.

Definition cstr_arg := option (list N).
(* `str ? traits_t::length(str) : 0` *)
Definition cstr_len (z : cstr_arg) : outcome N :=
  match z with None => Ok 0 | Some a => n <- strlen a ;; Ok (N.of_nat n) end.
(* `str ? str : ""`   (buffer<T>: `const char_T empty[] = {0}`) *)
Definition cstr_data (z : cstr_arg) : list N := match z with None => [0] | Some a => a end.

(* ------------------------------------------------------------------ ST::buffer<char_T> *)
Inductive elt := EChar | EWchar | EChar16 | EChar32.

(* std::char_traits<wchar_t>::compare = wmemcmp: glibc compares wchar_t, a SIGNED 32-bit int here
   (Gen/Consts.wchar_signed = true, sizeof_wchar = 4) *)
Fixpoint traits_compare_w (l : list N) (lo : nat) (r : list N) (ro : nat) (n : nat) : outcome Z :=
  match n with
  | O => Ok 0%Z
  | S n' =>
      a <- at_ l lo ;; b <- at_ r ro ;;
      if (to_int32 a <? to_int32 b)%Z then Ok (-1)%Z else if (to_int32 b <? to_int32 a)%Z then Ok 1%Z
      else traits_compare_w l (S lo) r (S ro) n'
  end.

(* char: memcmp; char16_t/char32_t: the generic loop over lt() on the unsigned values *)
Definition traits_compare_elt (e : elt) :=
  match e with EWchar => traits_compare_w | _ => traits_compare end.

(* static buffer<T>::compare(left, lsize, right, rsize) — sizes are independent of the arrays *)
Definition buf_compare4 (e : elt) (l : list N) (lsize : N) (r : list N) (rsize : N) : outcome Z :=
  let cmplen := N.min lsize rsize in
  cmp <- traits_compare_elt e l 0 r 0 (N.to_nat cmplen) ;;
  if negb (cmp =? 0)%Z then Ok cmp else Ok (size_tiebreak lsize rsize).

(* static buffer<T>::compare(left, lsize, right, rsize, maxlen) *)
Definition buf_compare5 (e : elt) (l : list N) (lsize : N) (r : list N) (rsize : N) (maxlen : N) : outcome Z :=
  buf_compare4 e l (N.min lsize maxlen) r (N.min rsize maxlen).

(* members *)
Definition buf_compare (e : elt) (a b : list N) : outcome Z :=
  buf_compare4 e (cstr a) (len a) (cstr b) (len b).
Definition buf_compare_z (e : elt) (a : list N) (z : cstr_arg) : outcome Z :=
  rsize <- cstr_len z ;; buf_compare4 e (cstr a) (len a) (cstr_data z) rsize.
Definition buf_compare_n (e : elt) (a b : list N) (count : N) : outcome Z :=
  buf_compare5 e (cstr a) (len a) (cstr b) (len b) count.
Definition buf_compare_n_z (e : elt) (a : list N) (z : cstr_arg) (count : N) : outcome Z :=
  rsize <- cstr_len z ;; buf_compare5 e (cstr a) (len a) (cstr_data z) rsize count.
Definition buf_eq (e : elt) (a b : list N) : outcome bool := c <- buf_compare e a b ;; Ok (c =? 0)%Z.
Definition buf_ne (e : elt) (a b : list N) : outcome bool := c <- buf_compare e a b ;; Ok (negb (c =? 0)%Z).
Definition buf_lt (e : elt) (a b : list N) : outcome bool := c <- buf_compare e a b ;; Ok (c <? 0)%Z.

(* ------------------------------------------------------------------ ST::string *)
(* compare(const string &, cs) *)
Definition str_compare (cs : case_sens) (a b : list N) : outcome Z :=
  compare4 cs (cstr a) (len a) (cstr b) (len b).
(* compare(const char *, cs) *)
Definition str_compare_z (cs : case_sens) (a : list N) (z : cstr_arg) : outcome Z :=
  rsize <- cstr_len z ;; compare4 cs (cstr a) (len a) (cstr_data z) rsize.
(* compare_n(const string &, count, cs) *)
Definition str_compare_n (cs : case_sens) (a b : list N) (count : N) : outcome Z :=
  compare5 cs (cstr a) (len a) (cstr b) (len b) count.
(* compare_n(const char *, count, cs) *)
Definition str_compare_n_z (cs : case_sens) (a : list N) (z : cstr_arg) (count : N) : outcome Z :=
  rsize <- cstr_len z ;; compare5 cs (cstr a) (len a) (cstr_data z) rsize count.
(* compare_i / compare_ni are compare / compare_n with case_insensitive *)
Definition str_compare_i := str_compare CaseInsensitive.
Definition str_compare_i_z := str_compare_z CaseInsensitive.
Definition str_compare_ni := str_compare_n CaseInsensitive.
Definition str_compare_ni_z := str_compare_n_z CaseInsensitive.

(* operators and functors *)
Definition str_lt (a b : list N) : outcome bool := c <- str_compare CaseSensitive a b ;; Ok (c <? 0)%Z.
Definition str_eq (a b : list N) : outcome bool := c <- str_compare CaseSensitive a b ;; Ok (c =? 0)%Z.
Definition str_ne (a b : list N) : outcome bool := c <- str_compare CaseSensitive a b ;; Ok (negb (c =? 0)%Z).
Definition str_eq_z (a : list N) (z : cstr_arg) : outcome bool := c <- str_compare_z CaseSensitive a z ;; Ok (c =? 0)%Z.
Definition str_ne_z (a : list N) (z : cstr_arg) : outcome bool := c <- str_compare_z CaseSensitive a z ;; Ok (negb (c =? 0)%Z).
Definition less_i (a b : list N) : outcome bool := c <- str_compare_i a b ;; Ok (c <? 0)%Z.
Definition equal_i (a b : list N) : outcome bool := c <- str_compare_i a b ;; Ok (c =? 0)%Z.

(* ------------------------------------------------------------------ hash, hash_i *)
(* static_cast to size_t of a char: char is signed here, so bytes >= 0x80 sign-extend *)
Definition sext64 (c : N) : N := if c <? 128 then c else c + (two64 - 256).
Definition fnv_step (h : N) (c : N) : N := wrap64 (N.lxor h (sext64 c) * fnv_prime).
(* `while (cp < ep) { hash ^= size_t( *cp++ ); hash *= prime; }` over [c_str(), c_str()+size()) *)
Definition hash (s : list N) : N := fold_left fnv_step s fnv_offset_basis.
Definition hash_i (s : list N) : N := fold_left (fun h c => fnv_step h (cl_fast_lower c)) s fnv_offset_basis.

(* ------------------------------------------------------------------ to_upper / to_lower *)
(* result.m_buffer.allocate(size()); one write per source unit; allocate() wrote the terminator.
   (allocate itself is C05's subject and is modelled here as an exact-size array) *)
Definition to_upper (s : list N) : list N := map cl_fast_upper s.
Definition to_lower (s : list N) : list N := map cl_fast_lower s.
