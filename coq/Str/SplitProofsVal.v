(* Str/SplitProofsVal.v — C09, validation of the buffers replace/fill build: the transcription of
   validate_utf8 (masks, `cp + n > ep` guards, bounds-checked reads) decides exactly the structural
   predicate wf8s and never reads outside the buffer.                                          *)
From Coq Require Import NArith PeanoNat List Bool Lia.
From ST Require Import Base.Outcome Base.Units Base.Sweep Str.Model Str.SliceSpec Str.SplitSpec
  Str.SliceModel Str.SplitModel Str.SliceProofsBase.
Import ListNotations.
Local Open Scope N_scope.

(* ---- mask tests = range tests, by a sweep over the 256 byte values --------------------------- *)
Lemma byte_sweep (P Q : N -> bool) :
  all_below 8 (fun c => Bool.eqb (P c) (Q c)) = true -> forall c, c < 256 -> P c = Q c.
Proof.
  intros H c Hc. apply Bool.eqb_prop.
  apply (all_below_spec 8 (fun c => Bool.eqb (P c) (Q c)) H c). exact Hc.
Qed.

Lemma lead2_range c : c < 256 -> (N.land c 224 =? 192) = ((192 <=? c) && (c <? 224)).
Proof.
  apply (byte_sweep (fun c => N.land c 224 =? 192) (fun c => (192 <=? c) && (c <? 224))).
  vm_compute. reflexivity.
Qed.

Lemma lead3_range c : c < 256 -> (N.land c 240 =? 224) = ((224 <=? c) && (c <? 240)).
Proof.
  apply (byte_sweep (fun c => N.land c 240 =? 224) (fun c => (224 <=? c) && (c <? 240))).
  vm_compute. reflexivity.
Qed.

Lemma lead4_range c : c < 256 -> (N.land c 248 =? 240) = ((240 <=? c) && (c <? 248)).
Proof.
  apply (byte_sweep (fun c => N.land c 248 =? 240) (fun c => (240 <=? c) && (c <? 248))).
  vm_compute. reflexivity.
Qed.

Lemma cont_range c : c < 256 -> (N.land c 192 =? 128) = is_cont c.
Proof.
  apply (byte_sweep (fun c => N.land c 192 =? 128) is_cont).
  vm_compute. reflexivity.
Qed.

(* ---- reads ------------------------------------------------------------------------------------- *)
Lemma byte_nth buf i x : bytes_ok buf = true -> nth_error buf i = Some x -> x < 256.
Proof.
  intros Hb Hn. apply all_lt_Forall in Hb. rewrite Forall_forall in Hb.
  apply Hb. exact (nth_error_In _ _ Hn).
Qed.

Lemma read_cur buf cp : bytes_ok buf = true -> (cp < length buf)%nat ->
  exists x, at_ (cstr buf) cp = Ok x /\ x < 256 /\ skipn cp buf = x :: skipn (S cp) buf.
Proof.
  intros Hb Hc. destruct (at_skipn buf cp Hc) as [x [E1 E2]]. exists x.
  rewrite at_cstr_lt by exact Hc. split; [exact E1|]. split; [|exact E2].
  destruct (at_ok_inv _ _ _ E1) as [_ Hn]. exact (byte_nth _ _ _ Hb Hn).
Qed.

(* ++cp; (cp[0] & 0xC0) == 0x80   with the byte after cp inside the buffer *)
Lemma read_next buf cp : bytes_ok buf = true -> (S cp < length buf)%nat ->
  exists x, check_next (cstr buf) cp = Ok (is_cont x) /\
            skipn (S cp) buf = x :: skipn (S (S cp)) buf.
Proof.
  intros Hb Hc. destruct (read_cur buf (S cp) Hb Hc) as [x [E1 [E2 E3]]]. exists x.
  unfold check_next. rewrite E1. cbn [bind]. rewrite (cont_range x E2). split; [reflexivity|exact E3].
Qed.

Lemma wf8s_cons c t :
  wf8s (c :: t) =
  if c <? 128 then wf8s t
  else if (192 <=? c) && (c <? 224) then
    match t with c1 :: t1 => is_cont c1 && wf8s t1 | _ => false end
  else if (224 <=? c) && (c <? 240) then
    match t with c1 :: c2 :: t2 => is_cont c1 && is_cont c2 && wf8s t2 | _ => false end
  else if (240 <=? c) && (c <? 248) then
    match t with c1 :: c2 :: c3 :: t3 => is_cont c1 && is_cont c2 && is_cont c3 && wf8s t3 | _ => false end
  else false.
Proof. reflexivity. Qed.

Lemma not_success (e : verr) (b : bool) : e <> VSuccess -> b = false -> (e = VSuccess <-> b = true).
Proof. intros H1 H2. subst b. split; [intros H; contradiction|discriminate]. Qed.

(* ---- the loop ------------------------------------------------------------------------------------ *)
Lemma validate_loop_spec buf : bytes_ok buf = true ->
  forall fuel cp, (cp <= length buf)%nat -> (length buf - cp < fuel)%nat ->
  exists e, validate_loop fuel (cstr buf) cp (length buf) = Ok e /\
            (e = VSuccess <-> wf8s (skipn cp buf) = true).
Proof.
  intros Hb. induction fuel as [|f IH]; intros cp Hcp Hf; [lia|].
  cbn [validate_loop]. destruct (Nat.ltb_spec cp (length buf)) as [Hlt|Hge]; cbn [negb].
  2:{ exists VSuccess. split; [reflexivity|]. rewrite skipn_all2 by lia. split; reflexivity. }
  destruct (read_cur buf cp Hb Hlt) as [x [E1 [Hx E2]]].
  rewrite E1. cbn [bind]. rewrite E2, wf8s_cons.
  rewrite (lead2_range x Hx), (lead3_range x Hx), (lead4_range x Hx).
  pose proof (skipn_length (S cp) buf) as Hlen.
  destruct (x <? 128) eqn:C1; [apply IH; lia|].
  destruct ((192 <=? x) && (x <? 224)) eqn:C2.
  { destruct (Nat.ltb_spec (length buf) (cp + 2)) as [Hs|Hl].
    - exists VIncomplete. split; [reflexivity|]. apply not_success; [discriminate|].
      destruct (skipn (S cp) buf) as [|c1 t1]; [reflexivity|]. cbn [length] in Hlen. lia.
    - destruct (read_next buf cp Hb) as [x1 [R1 S1]]; [lia|]. rewrite R1, S1. cbn [bind].
      destruct (is_cont x1); cbn [negb andb].
      + apply IH; lia.
      + exists VInvalid. split; [reflexivity|]. apply not_success; [discriminate|reflexivity]. }
  destruct ((224 <=? x) && (x <? 240)) eqn:C3.
  { destruct (Nat.ltb_spec (length buf) (cp + 3)) as [Hs|Hl].
    - exists VIncomplete. split; [reflexivity|]. apply not_success; [discriminate|].
      destruct (skipn (S cp) buf) as [|c1 [|c2 t2]]; try reflexivity. cbn [length] in Hlen. lia.
    - destruct (read_next buf cp Hb) as [x1 [R1 S1]]; [lia|]. rewrite R1, S1. cbn [bind].
      destruct (is_cont x1); cbn [negb andb].
      2:{ exists VInvalid. split; [reflexivity|]. apply not_success; [discriminate|].
          destruct (skipn (S (S cp)) buf); reflexivity. }
      destruct (read_next buf (S cp) Hb) as [x2 [R2 S2]]; [lia|]. rewrite R2, S2. cbn [bind].
      destruct (is_cont x2); cbn [negb andb].
      + apply IH; lia.
      + exists VInvalid. split; [reflexivity|]. apply not_success; [discriminate|reflexivity]. }
  destruct ((240 <=? x) && (x <? 248)) eqn:C4.
  { destruct (Nat.ltb_spec (length buf) (cp + 4)) as [Hs|Hl].
    - exists VIncomplete. split; [reflexivity|]. apply not_success; [discriminate|].
      destruct (skipn (S cp) buf) as [|c1 [|c2 [|c3 t3]]]; try reflexivity. cbn [length] in Hlen. lia.
    - destruct (read_next buf cp Hb) as [x1 [R1 S1]]; [lia|]. rewrite R1, S1. cbn [bind].
      destruct (is_cont x1); cbn [negb andb].
      2:{ exists VInvalid. split; [reflexivity|]. apply not_success; [discriminate|].
          destruct (skipn (S (S cp)) buf) as [|c2 [|c3 t3]]; reflexivity. }
      destruct (read_next buf (S cp) Hb) as [x2 [R2 S2]]; [lia|]. rewrite R2, S2. cbn [bind].
      destruct (is_cont x2); cbn [negb andb].
      2:{ exists VInvalid. split; [reflexivity|]. apply not_success; [discriminate|].
          destruct (skipn (S (S (S cp))) buf); reflexivity. }
      destruct (read_next buf (S (S cp)) Hb) as [x3 [R3 S3]]; [lia|]. rewrite R3, S3. cbn [bind].
      destruct (is_cont x3); cbn [negb andb].
      + apply IH; lia.
      + exists VInvalid. split; [reflexivity|]. apply not_success; [discriminate|reflexivity]. }
  exists VInvalid. split; [reflexivity|]. apply not_success; [discriminate|reflexivity].
Qed.

Theorem validate_utf8_spec buf :
  bytes_ok buf = true ->
  exists e, validate_utf8 buf = Ok e /\ (e = VSuccess <-> wf8s buf = true).
Proof.
  intros Hb. unfold validate_utf8.
  destruct (validate_loop_spec buf Hb (S (length buf)) O) as [e [E1 E2]]; [lia|lia|].
  exists e. split; [exact E1|exact E2].
Qed.

Corollary validate_default_spec buf : bytes_ok buf = true ->
  validate_default buf = if wf8s buf then Ok buf else Throw UnicodeError.
Proof.
  intros Hb. destruct (validate_utf8_spec buf Hb) as [e [E1 E2]].
  unfold validate_default, default_validation, set_buffer. rewrite E1. cbn [bind].
  destruct (wf8s buf).
  - destruct E2 as [_ E2]. rewrite (E2 eq_refl). reflexivity.
  - destruct e; [destruct E2 as [E2 _]; specialize (E2 eq_refl); discriminate|reflexivity|reflexivity].
Qed.

Lemma bytes_ok_repeat c n : c < 256 -> bytes_ok (repeat c n) = true.
Proof.
  intros Hc. apply all_lt_Forall. apply Forall_forall. intros x Hx.
  apply repeat_spec in Hx. subst x. exact Hc.
Qed.

Corollary fill_model_spec count c : count + 1 < two63 -> c < 256 ->
  fill_model count c =
  if wf8s (repeat c (N.to_nat count)) then Ok (repeat c (N.to_nat count)) else Throw UnicodeError.
Proof.
  intros Hn Hc. unfold fill_model. rewrite (allocate_ok count Hn). cbn [bind].
  apply validate_default_spec. apply bytes_ok_repeat. exact Hc.
Qed.

Lemma wf8s_ascii l : forallb (fun c => c <? 128) l = true -> wf8s l = true.
Proof.
  induction l as [|c t IH]; intros H; [reflexivity|].
  cbn [forallb] in H. apply andb_true_iff in H. destruct H as [H1 H2].
  rewrite wf8s_cons, H1. exact (IH H2).
Qed.
