(* Str/SliceModel.v — include/st_string.h transcribed: substr, left, right, trim_left, trim_right,
   trim, the find / find_last front ends that before/after call (with `_find`, `_find_last`), and
   the twelve before_first / after_first / before_last / after_last overloads.
   The search primitives (find_ch, find_sub, compare_units) are the shared Str/Model.v.

   s : list N            content of *this; c_str() is `cstr s` = s ++ [0]; pointers into it are
                         nat offsets; every read goes through `at_` (Fault OOBRead outside).
   option (list N)       a `const char *` argument: None = nullptr, Some a = the array it points
                         to (for a C string built by the harness: bytes ++ [0]).
   size_t values are N, ssize_t values are Z, conversions and wrap-around written out.        *)
From Coq Require Import NArith ZArith List Bool Lia.
From ST Require Import Base.Outcome Base.Units Gen.Consts Str.Model.
Import ListNotations.
Local Open Scope N_scope.
Local Open Scope outcome_scope.

Definition size (s : list N) : N := N.of_nat (length s).

(* std::char_traits<char>::length(p): scans the array for the first 0 *)
Fixpoint c_strlen (a : list N) : outcome nat :=
  match a with
  | [] => Fault OOBRead
  | c :: t => if c =? 0 then Ok O else n <- c_strlen t ;; Ok (S n)
  end.

(* buffer::allocate(count): new char[count + 1] *)
Definition allocate (count : N) : outcome unit :=
  if two63 <=? count + 1 then Fault AllocTooBig else Ok tt.

(* std::char_traits<char>::copy(dest, a + from, count) into a fresh buffer: reads a[from .. from+count) *)
Fixpoint copy_out (a : list N) (from count : nat) : outcome (list N) :=
  match count with
  | O => Ok []
  | S c => x <- at_ a from ;; r <- copy_out a (S from) c ;; Ok (x :: r)
  end.

(* ---- substr(ST_ssize_t start, size_t count) -------------------------------------------- *)
(* after the start has been normalised: clamp, whole-string shortcut, allocate, copy *)
Definition substr_tail (s : list N) (start : Z) (count : N) : outcome (list N) :=
  let max := size s in
  let ustart := of_ssize start in
  (* if (count > max - start) count = max - start;   (max - start in size_t) *)
  let count := if sub64 max ustart <? count then sub64 max ustart else count in
  if (start =? 0)%Z && (count =? max) then Ok s                       (* return *this *)
  else
    _ <- allocate count ;;
    (* a copy longer than the source array reads outside it; decided before N.to_nat so that the
       model never builds an astronomically large nat *)
    if N.of_nat (length (cstr s)) <? ustart + count then Fault OOBRead
    else copy_out (cstr s) (N.to_nat ustart) (N.to_nat count).

Definition substr_model (s : list N) (start : Z) (count0 : N) : outcome (list N) :=
  let max := size s in
  let count := if count0 =? size_max then max else count0 in          (* count == ST_AUTO_SIZE *)
  if (start <? 0)%Z then
    (* start += max : ssize_t + size_t is computed in size_t and converted back *)
    let start1 := to_ssize (wrap64 (of_ssize start + max)) in
    substr_tail s (if (start1 <? 0)%Z then 0%Z else start1) count
  else if max <? of_ssize start then Ok []                             (* return string() *)
  else substr_tail s start count.

Definition left_model (s : list N) (n : N) : outcome (list N) := substr_model s 0%Z n.

(* right(size): if (size > this->size()) size = this->size(); return substr(this->size() - size, size);
   the size_t difference is converted to the ssize_t parameter *)
Definition right_model (s : list N) (n : N) : outcome (list N) :=
  let n' := if size s <? n then size s else n in
  substr_model s (to_ssize (sub64 (size s) n')) n'.

(* ---- trim ---------------------------------------------------------------------------------- *)
(* find_cs(charset, cssize, c) != nullptr *)
Definition in_charset (charset : list N) (cssize : nat) (c : N) : outcome bool :=
  r <- find_ch CaseSensitive charset O cssize c ;;
  Ok (match r with Some _ => true | None => false end).

(* while ( *cp && find_cs(charset, cssize, cp[0])) ++cp;   returns the final offset of cp *)
Fixpoint trim_walk_left (fuel : nat) (a : list N) (cp : nat) (charset : list N) (cssize : nat)
  : outcome nat :=
  match fuel with
  | O => Fault Hang
  | S f =>
      c <- at_ a cp ;;
      if c =? 0 then Ok cp
      else
        hit <- in_charset charset cssize c ;;
        if hit then trim_walk_left f a (S cp) charset cssize else Ok cp
  end.

(* while (--cp >= low && find_cs(charset, cssize, *cp)) ;   cp and low are offsets (cp may end
   at low - 1, which for low = 0 is one before the array: never dereferenced) *)
Fixpoint trim_walk_right (fuel : nat) (a : list N) (cp low : Z) (charset : list N) (cssize : nat)
  : outcome Z :=
  match fuel with
  | O => Fault Hang
  | S f =>
      let cp' := (cp - 1)%Z in
      if (cp' <? low)%Z then Ok cp'
      else
        c <- at_ a (Z.to_nat cp') ;;
        hit <- in_charset charset cssize c ;;
        if hit then trim_walk_right f a cp' low charset cssize else Ok cp'
  end.

Definition trim_left_model (s : list N) (charset : list N) : outcome (list N) :=
  if size s =? 0 then Ok []
  else
    cssize <- c_strlen charset ;;
    cp <- trim_walk_left (S (S (length s))) (cstr s) O charset cssize ;;
    substr_model s (Z.of_nat cp) size_max.

Definition trim_right_model (s : list N) (charset : list N) : outcome (list N) :=
  if size s =? 0 then Ok []
  else
    cssize <- c_strlen charset ;;
    cp <- trim_walk_right (S (S (length s))) (cstr s) (Z.of_nat (length s)) 0%Z charset cssize ;;
    (* substr(0, cp - c_str() + 1): ptrdiff_t converted to size_t *)
    substr_model s 0%Z (of_ssize (cp + 1)%Z).

Definition trim_model (s : list N) (charset : list N) : outcome (list N) :=
  if size s =? 0 then Ok []
  else
    cssize <- c_strlen charset ;;
    lp <- trim_walk_left (S (S (length s))) (cstr s) O charset cssize ;;
    rp <- trim_walk_right (S (S (length s))) (cstr s) (Z.of_nat (length s)) (Z.of_nat lp) charset cssize ;;
    substr_model s (Z.of_nat lp) (of_ssize (rp - Z.of_nat lp + 1)%Z).

(* ---- find front ends ------------------------------------------------------------------------- *)
Definition pos_result (r : option nat) : Z :=
  match r with Some p => Z.of_nat p | None => (-1)%Z end.

(* _find(start, substr, count, cs) *)
Definition find_priv (cs : case_sens) (s : list N) (start : nat) (needle : list N) (nsize : nat)
  : outcome Z :=
  r <- find_sub cs (cstr s) start (length s - start) needle nsize ;;
  Ok (pos_result r).

(* find(size_t start, char ch, cs) *)
Definition find_char (cs : case_sens) (s : list N) (start : N) (ch : N) : outcome Z :=
  if size s <=? start then Ok (-1)%Z
  else
    r <- find_ch cs (cstr s) (N.to_nat start) (length s - N.to_nat start) ch ;;
    Ok (pos_result r).

(* find(size_t start, const char *substr, cs) *)
Definition find_cstr (cs : case_sens) (s : list N) (start : N) (sub : option (list N)) : outcome Z :=
  match sub with
  | None => Ok (-1)%Z
  | Some a =>
      c0 <- at_ a O ;;
      if (c0 =? 0) || (size s <=? start) then Ok (-1)%Z
      else sublen <- c_strlen a ;; find_priv cs s (N.to_nat start) a sublen
  end.

(* find(size_t start, const char *substr, size_t count, cs) *)
Definition find_buf (cs : case_sens) (s : list N) (start : N) (sub : option (list N)) (count : N)
  : outcome Z :=
  match sub with
  | None => Ok (-1)%Z
  | Some a =>
      if (count =? 0) || (size s <=? start) then Ok (-1)%Z
      else find_priv cs s (N.to_nat start) a (N.to_nat count)
  end.

(* find(size_t start, const string &substr, cs) *)
Definition find_str (cs : case_sens) (s : list N) (start : N) (sub : list N) : outcome Z :=
  find_buf cs s start (Some (cstr sub)) (size sub).

(* the loop shared by find_last(max, ch) and _find_last: repeated forward search, start = cp + 1 *)
Fixpoint find_last_loop (fuel : nat) (search : nat -> nat -> outcome (option nat))
         (start endp : nat) (found : option nat) : outcome (option nat) :=
  match fuel with
  | O => Fault Hang
  | S f =>
      r <- search start (endp - start)%nat ;;
      match r with
      | None => Ok found
      | Some cp =>
          if Nat.leb endp cp then Ok found
          else find_last_loop f search (S cp) endp (Some cp)
      end
  end.

Definition endp_of (s : list N) (max : N) : nat :=
  if size s <? max then length s else N.to_nat max.

(* _find_last(max, substr, count, cs) *)
Definition find_last_priv (cs : case_sens) (s : list N) (max : N) (needle : list N) (nsize : nat)
  : outcome Z :=
  r <- find_last_loop (S (S (length s)))
         (fun start sz => find_sub cs (cstr s) start sz needle nsize) O (endp_of s max) None ;;
  Ok (pos_result r).

(* find_last(size_t max, char ch, cs) *)
Definition find_last_char (cs : case_sens) (s : list N) (max : N) (ch : N) : outcome Z :=
  if size s =? 0 then Ok (-1)%Z
  else
    r <- find_last_loop (S (S (length s)))
           (fun start sz => find_ch cs (cstr s) start sz ch) O (endp_of s max) None ;;
    Ok (pos_result r).

Definition find_last_cstr (cs : case_sens) (s : list N) (max : N) (sub : option (list N)) : outcome Z :=
  match sub with
  | None => Ok (-1)%Z
  | Some a =>
      c0 <- at_ a O ;;
      if (c0 =? 0) || (size s =? 0) then Ok (-1)%Z
      else sublen <- c_strlen a ;; find_last_priv cs s max a sublen
  end.

Definition find_last_buf (cs : case_sens) (s : list N) (max : N) (sub : option (list N)) (count : N)
  : outcome Z :=
  match sub with
  | None => Ok (-1)%Z
  | Some a =>
      if (count =? 0) || (size s =? 0) then Ok (-1)%Z
      else find_last_priv cs s max a (N.to_nat count)
  end.

Definition find_last_str (cs : case_sens) (s : list N) (max : N) (sub : list N) : outcome Z :=
  find_last_buf cs s max (Some (cstr sub)) (size sub).

(* ---- before / after: twelve overloads ----------------------------------------------------------- *)
(* first + n where first : ssize_t >= 0 and n : size_t, passed to the ssize_t parameter of substr *)
Definition ssize_plus (first : Z) (n : N) : Z := to_ssize (wrap64 (of_ssize first + n)).

(* strlen(sep) on the found branch of the const char* overloads *)
Definition sep_strlen (sep : option (list N)) : outcome N :=
  match sep with
  | None => Fault NullDeref
  | Some a => n <- c_strlen a ;; Ok (N.of_nat n)
  end.

Definition before_found (s : list N) (pos : Z) (notfound : list N) : outcome (list N) :=
  if (0 <=? pos)%Z then left_model s (of_ssize pos) else Ok notfound.

Definition before_first_c cs s ch := first <- find_char cs s 0 ch ;; before_found s first s.
Definition before_first_z cs s sep := first <- find_cstr cs s 0 sep ;; before_found s first s.
Definition before_first_s cs s sep := first <- find_str cs s 0 sep ;; before_found s first s.

Definition before_last_c cs s ch := last <- find_last_char cs s size_max ch ;; before_found s last [].
Definition before_last_z cs s sep := last <- find_last_cstr cs s size_max sep ;; before_found s last [].
Definition before_last_s cs s sep := last <- find_last_str cs s size_max sep ;; before_found s last [].

Definition after_first_c cs s ch :=
  first <- find_char cs s 0 ch ;;
  if (0 <=? first)%Z then substr_model s (first + 1)%Z size_max else Ok [].
Definition after_first_z cs s sep :=
  first <- find_cstr cs s 0 sep ;;
  if (0 <=? first)%Z then n <- sep_strlen sep ;; substr_model s (ssize_plus first n) size_max else Ok [].
Definition after_first_s cs s sep :=
  first <- find_str cs s 0 sep ;;
  if (0 <=? first)%Z then substr_model s (ssize_plus first (size sep)) size_max else Ok [].

Definition after_last_c cs s ch :=
  last <- find_last_char cs s size_max ch ;;
  if (0 <=? last)%Z then substr_model s (last + 1)%Z size_max else Ok s.
Definition after_last_z cs s sep :=
  last <- find_last_cstr cs s size_max sep ;;
  if (0 <=? last)%Z then n <- sep_strlen sep ;; substr_model s (ssize_plus last n) size_max else Ok s.
Definition after_last_s cs s sep :=
  last <- find_last_str cs s size_max sep ;;
  if (0 <=? last)%Z then substr_model s (ssize_plus last (size sep)) size_max else Ok s.

(* default charset of the trim functions: ST_WHITESPACE (regenerated from the header) as a C string *)
Definition whitespace_cstr : list N := whitespace ++ [0].
