(* Str/FindProofs.v — the searching models refine Str/FindSpec.v for all haystacks, needles,
   start / max values (any N) and both case modes; the results being `Ok _` they never read out of
   bounds and the fuel is sufficient.  Also: the spec functions really are "least" / "greatest". *)
From Coq Require Import NArith ZArith List Bool Lia.
From ST Require Import Base.Outcome Base.Units Str.Model Str.CompareSpec Str.CompareModel Str.CompareProofs
     Str.FindSpec Str.FindModel.
Import ListNotations.
Local Open Scope N_scope.

(* ------------------------------------------------------------------ spec adequacy *)
Lemma list_eqb_eq a b : list_eqb a b = true <-> a = b.
Proof.
  revert b; induction a as [|x a IH]; intros [|y b]; cbn [list_eqb]; split; intros H; try reflexivity; try discriminate.
  - apply andb_true_iff in H. destruct H as [H1 H2]. apply N.eqb_eq in H1. apply IH in H2. subst. reflexivity.
  - inversion H; subst. rewrite N.eqb_refl. apply IH. reflexivity.
Qed.

Lemma occurs_atb_spec h n i : occurs_atb h n i = true <-> occurs_at h n i.
Proof.
  unfold occurs_atb, occurs_at. rewrite andb_true_iff, Nat.leb_le, list_eqb_eq. reflexivity.
Qed.

Lemma first_from_some P : forall cnt i j,
  first_from P i cnt = Some j <->
  (i <= j < i + cnt)%nat /\ P j = true /\ (forall k, (i <= k < j)%nat -> P k = false).
Proof.
  induction cnt as [|cnt IH]; intros i j; cbn [first_from].
  - split; [discriminate|]. intros [H _]. lia.
  - destruct (P i) eqn:E.
    + split.
      * intros H. inversion H; subst. split; [lia|]. split; [exact E|]. intros k Hk. lia.
      * intros [H1 [H2 H3]]. f_equal. destruct (Nat.eq_dec i j) as [->|Hn]; [reflexivity|].
        rewrite (H3 i) in E; [discriminate|lia].
    + rewrite IH. split.
      * intros [H1 [H2 H3]]. split; [lia|]. split; [exact H2|]. intros k Hk.
        destruct (Nat.eq_dec k i) as [->|Hn]; [exact E|]. apply H3. lia.
      * intros [H1 [H2 H3]]. assert (i <> j) by (intros ->; congruence).
        split; [lia|]. split; [exact H2|]. intros k Hk. apply H3. lia.
Qed.

Lemma first_from_none P : forall cnt i,
  first_from P i cnt = None <-> (forall k, (i <= k < i + cnt)%nat -> P k = false).
Proof.
  induction cnt as [|cnt IH]; intros i; cbn [first_from].
  - split; [intros _ k Hk; lia|reflexivity].
  - destruct (P i) eqn:E.
    + split; [discriminate|]. intros H. rewrite (H i) in E; [discriminate|lia].
    + rewrite IH. split; intros H k Hk.
      * destruct (Nat.eq_dec k i) as [->|Hn]; [exact E|]. apply H. lia.
      * apply H. lia.
Qed.

Lemma last_below_some P : forall cnt j,
  last_below P cnt = Some j <->
  (j < cnt)%nat /\ P j = true /\ (forall k, (j < k < cnt)%nat -> P k = false).
Proof.
  induction cnt as [|cnt IH]; intros j; cbn [last_below].
  - split; [discriminate|]. intros [H _]. lia.
  - destruct (P cnt) eqn:E.
    + split.
      * intros H. inversion H; subst. split; [lia|]. split; [exact E|]. intros k Hk. lia.
      * intros [H1 [H2 H3]]. f_equal. destruct (Nat.eq_dec cnt j) as [->|Hn]; [reflexivity|].
        rewrite (H3 cnt) in E; [discriminate|lia].
    + rewrite IH. split.
      * intros [H1 [H2 H3]]. split; [lia|]. split; [exact H2|]. intros k Hk.
        destruct (Nat.eq_dec k cnt) as [->|Hn]; [exact E|]. apply H3. lia.
      * intros [H1 [H2 H3]]. assert (cnt <> j) by (intros ->; congruence).
        split; [lia|]. split; [exact H2|]. intros k Hk. apply H3. lia.
Qed.

Lemma last_below_none P : forall cnt,
  last_below P cnt = None <-> (forall k, (k < cnt)%nat -> P k = false).
Proof.
  induction cnt as [|cnt IH]; cbn [last_below].
  - split; [intros _ k Hk; lia|reflexivity].
  - destruct (P cnt) eqn:E.
    + split; [discriminate|]. intros H. rewrite (H cnt) in E; [discriminate|lia].
    + rewrite IH. split; intros H k Hk.
      * destruct (Nat.eq_dec k cnt) as [->|Hn]; [exact E|]. apply H. lia.
      * apply H. lia.
Qed.

Lemma first_from_ext P Q : forall cnt i,
  (forall k, (i <= k < i + cnt)%nat -> P k = Q k) -> first_from P i cnt = first_from Q i cnt.
Proof.
  induction cnt as [|cnt IH]; intros i H; cbn [first_from]; [reflexivity|].
  rewrite (H i) by lia. destruct (Q i); [reflexivity|]. apply IH. intros k Hk. apply H. lia.
Qed.

Lemma last_below_ext P Q : forall cnt,
  (forall k, (k < cnt)%nat -> P k = Q k) -> last_below P cnt = last_below Q cnt.
Proof.
  induction cnt as [|cnt IH]; intros H; cbn [last_below]; [reflexivity|].
  rewrite (H cnt) by lia. destruct (Q cnt); [reflexivity|]. apply IH. intros k Hk. apply H. lia.
Qed.

(* find_spec is the least occurrence at or after start *)
Theorem find_spec_least ci h n start i :
  find_spec ci h n start = Some i <->
  n <> [] /\ (N.to_nat start <= i)%nat /\ start < N.of_nat (length h) /\
  occurs_at (case_map ci h) (case_map ci n) i /\
  (forall k, (N.to_nat start <= k < i)%nat -> ~ occurs_at (case_map ci h) (case_map ci n) k).
Proof.
  unfold find_spec. destruct n as [|c n].
  - split; [discriminate|]. intros [H _]. congruence.
  - destruct (N.leb_spec (N.of_nat (length h)) start) as [L|L].
    + split; [discriminate|]. intros [_ [_ [H _]]]. lia.
    + rewrite first_from_some. rewrite occurs_atb_spec. split.
      * intros [H1 [H2 H3]]. split; [discriminate|]. split; [lia|]. split; [exact L|]. split; [exact H2|].
        intros k Hk C. apply occurs_atb_spec in C. rewrite H3 in C; [discriminate|exact Hk].
      * intros [_ [H1 [_ [H2 H3]]]]. split.
        -- destruct H2 as [H2 _]. assert (length (case_map ci h) = length h) by (destruct ci; cbn [case_map]; [apply map_length|reflexivity]).
           assert (length (case_map ci (c :: n)) = S (length n)) by (destruct ci; cbn [case_map]; [rewrite map_length|]; reflexivity).
           lia.
        -- split; [exact H2|]. intros k Hk. destruct (occurs_atb _ _ k) eqn:E; [|reflexivity].
           apply occurs_atb_spec in E. exfalso. exact (H3 k Hk E).
Qed.

Theorem find_spec_none ci h n start :
  find_spec ci h n start = None <->
  n = [] \/ N.of_nat (length h) <= start \/
  (forall k, (N.to_nat start <= k)%nat -> ~ occurs_at (case_map ci h) (case_map ci n) k).
Proof.
  unfold find_spec. destruct n as [|c n].
  - split; [left; reflexivity|reflexivity].
  - destruct (N.leb_spec (N.of_nat (length h)) start) as [L|L].
    + split; [right; left; exact L|reflexivity].
    + rewrite first_from_none. split.
      * intros H. right. right. intros k Hk C.
        assert (Hlen : length (case_map ci h) = length h) by (destruct ci; cbn [case_map]; [apply map_length|reflexivity]).
        assert (Hn : length (case_map ci (c :: n)) = S (length n)) by (destruct ci; cbn [case_map]; [rewrite map_length|]; reflexivity).
        pose proof C as [C1 _]. apply occurs_atb_spec in C. rewrite H in C; [discriminate|]. lia.
      * intros [H|[H|H]]; [discriminate|lia|]. intros k Hk.
        destruct (occurs_atb _ _ k) eqn:E; [|reflexivity]. apply occurs_atb_spec in E. exfalso. apply (H k); [lia|exact E].
Qed.

(* find_last_spec is the greatest occurrence lying entirely before min(max, size) *)
Theorem find_last_spec_greatest ci h n max i :
  find_last_spec ci h n max = Some i <->
  n <> [] /\ occurs_at (case_map ci h) (case_map ci n) i /\
  N.of_nat (i + length n) <= N.min max (N.of_nat (length h)) /\
  (forall k, (i < k)%nat -> N.of_nat (k + length n) <= N.min max (N.of_nat (length h)) ->
             ~ occurs_at (case_map ci h) (case_map ci n) k).
Proof.
  unfold find_last_spec. destruct n as [|c n].
  - split; [discriminate|]. intros [H _]. congruence.
  - rewrite last_below_some. set (e := N.to_nat (N.min max (N.of_nat (length h)))).
    set (m := length (c :: n)). assert (Hm : (1 <= m)%nat) by (unfold m; cbn [length]; lia).
    split.
    + intros [H1 [H2 H3]]. apply andb_true_iff in H2. destruct H2 as [H2 H4]. apply Nat.leb_le in H2.
      apply occurs_atb_spec in H4. split; [discriminate|]. split; [exact H4|]. split; [lia|].
      intros k Hk1 Hk2 C. apply occurs_atb_spec in C.
      assert (Hk : (i < k < e)%nat) by lia. specialize (H3 k Hk). rewrite C in H3.
      rewrite andb_true_r in H3. apply Nat.leb_gt in H3. lia.
    + intros [_ [H1 [H2 H3]]]. split; [lia|]. split.
      * apply andb_true_iff. split; [apply Nat.leb_le; lia|apply occurs_atb_spec; exact H1].
      * intros k Hk. destruct (Nat.leb_spec (k + m) e) as [L|L]; cbn [andb]; [|reflexivity].
        destruct (occurs_atb _ _ k) eqn:E; [|reflexivity]. apply occurs_atb_spec in E.
        exfalso. apply (H3 k); [lia|lia|exact E].
Qed.

(* ------------------------------------------------------------------ uniform case handling *)
Definition ci_of (cs : case_sens) : bool := match cs with CaseSensitive => false | CaseInsensitive => true end.
Definition kf (cs : case_sens) (c : N) : N := match cs with CaseSensitive => c | CaseInsensitive => fold c end.

Lemma cm_map cs l : case_map (ci_of cs) l = map (kf cs) l.
Proof. destruct cs; cbn [case_map ci_of kf]; [symmetry; apply map_id|reflexivity]. Qed.

Lemma lex_key_eq cs X Y : units_ok cs X -> units_ok cs Y ->
  (lex_by (key_of cs) X Y = Eq <-> map (kf cs) X = map (kf cs) Y).
Proof.
  destruct cs; cbn [units_ok key_of kf]; intros BX BY.
  - rewrite !map_id. apply lex_eq_iff.
  - apply lex_ci_eq_iff; assumption.
Qed.

(* the needle matches at offset i of h (first nsize units of the needle array) *)
Definition matchb (cs : case_sens) (h needle : list N) (nsize i : nat) : bool :=
  list_eqb (map (kf cs) (firstn nsize (skipn i h))) (map (kf cs) (firstn nsize needle)).

Lemma compare_units_zero cs h i needle nsize :
  units_ok cs h -> units_ok cs needle ->
  (i + nsize <= length h)%nat -> (nsize <= length needle)%nat ->
  exists z, compare_units cs h i needle 0 nsize = Ok z /\ (z =? 0)%Z = matchb cs h needle nsize i.
Proof.
  intros Bh Bn Hh Hn.
  destruct (compare_units_spec cs nsize h i needle 0 Bh Bn) as [z [E S]]; [lia|lia|].
  exists z. split; [exact E|]. cbn [skipn] in S. apply eq_true_iff_eq.
  rewrite Z.eqb_eq, <- sgn_zero, S. unfold matchb. rewrite list_eqb_eq.
  apply lex_key_eq.
  - apply units_ok_firstn, units_ok_skipn. exact Bh.
  - apply units_ok_firstn. exact Bn.
Qed.

(* ------------------------------------------------------------------ find_ch *)
Definition hit_at (cs : case_sens) (h : list N) (ch : N) (i : nat) : bool :=
  match nth_error h i with Some c => kf cs c =? kf cs ch | None => false end.

Lemma find_ch_spec cs h ch : forall size cp, (cp + size <= length h)%nat ->
  find_ch cs h cp size ch = Ok (first_from (hit_at cs h ch) cp size).
Proof.
  induction size as [|size IH]; intros cp H; cbn [find_ch first_from]; [reflexivity|].
  destruct (at_skipn h cp) as [c [E [_ _]]]; [lia|]. rewrite E. cbn [bind].
  unfold hit_at at 1. unfold at_, of_opt in E. destruct (nth_error h cp) as [c'|]; [|discriminate].
  inversion E; subst c'.
  assert (Hh : match cs with CaseSensitive => c =? ch | CaseInsensitive => cl_fast_lower c =? cl_fast_lower ch end
               = (kf cs c =? kf cs ch)) by (destruct cs; reflexivity).
  rewrite Hh. destruct (kf cs c =? kf cs ch); [reflexivity|]. apply IH. lia.
Qed.

(* a match of nsize >= 1 units at i implies a hit of the needle's first unit at i *)
Lemma match_hit cs h needle nsize i n0 :
  (1 <= nsize)%nat -> (i + nsize <= length h)%nat -> nth_error needle 0 = Some n0 ->
  matchb cs h needle nsize i = true -> hit_at cs h n0 i = true.
Proof.
  intros H1 Hh Hn M. unfold matchb in M. apply list_eqb_eq in M.
  destruct (at_skipn h i) as [c [E [S _]]]; [lia|].
  unfold hit_at. unfold at_, of_opt in E. destruct (nth_error h i) as [c'|]; [|discriminate]. inversion E; subst c'.
  destruct needle as [|m nt]; [discriminate|]. cbn [nth_error] in Hn. inversion Hn; subst m.
  destruct nsize as [|k]; [lia|]. rewrite S in M. cbn [firstn map] in M. injection M as M0 _.
  rewrite M0. apply N.eqb_refl.
Qed.

Lemma first_from_skip P : forall cnt i j,
  (i <= j)%nat -> (j <= i + cnt)%nat -> (forall k, (i <= k < j)%nat -> P k = false) ->
  first_from P i cnt = first_from P j (i + cnt - j).
Proof.
  induction cnt as [|cnt IH]; intros i j H1 H2 H3.
  - assert (j = i) by lia. subst. replace (i + 0 - i)%nat with O by lia. reflexivity.
  - destruct (Nat.eq_dec i j) as [->|Hn].
    + replace (j + S cnt - j)%nat with (S cnt) by lia. reflexivity.
    + cbn [first_from]. rewrite (H3 i) by lia. rewrite (IH (S i) j); try lia.
      * f_equal. lia.
      * intros k Hk. apply H3. lia.
Qed.

(* ------------------------------------------------------------------ find_sub *)
Definition subP (cs : case_sens) (h needle : list N) (nsize ep i : nat) : bool :=
  (i + nsize <=? ep)%nat && matchb cs h needle nsize i.

Lemma find_sub_loop_spec cs h needle nsize ep :
  units_ok cs h -> units_ok cs needle ->
  (1 <= nsize)%nat -> (nsize <= length needle)%nat -> (ep <= length h)%nat ->
  forall fuel cp, (cp <= ep)%nat -> (ep - cp < fuel)%nat ->
  find_sub_loop fuel cs h cp ep needle nsize = Ok (first_from (subP cs h needle nsize ep) cp (ep - cp)).
Proof.
  intros Bh Bn H1 Hn Hep.
  destruct (at_skipn needle 0) as [n0 [En0 _]]; [lia|].
  assert (Hn0 : nth_error needle 0 = Some n0).
  { unfold at_, of_opt in En0. destruct (nth_error needle 0); [inversion En0; reflexivity|discriminate]. }
  induction fuel as [|fuel IH]; intros cp Hcp Hf; [lia|].
  cbn [find_sub_loop]. rewrite En0. cbn [bind].
  rewrite find_ch_spec by lia. cbn [bind].
  destruct (first_from (hit_at cs h n0) cp (ep - cp)) as [cp'|] eqn:F.
  - apply first_from_some in F. destruct F as [F1 [F2 F3]].
    assert (Skip : first_from (subP cs h needle nsize ep) cp (ep - cp)
                   = first_from (subP cs h needle nsize ep) cp' (ep - cp')).
    { rewrite (first_from_skip _ (ep - cp) cp cp'); try lia.
      - f_equal. lia.
      - intros k Hk. unfold subP. destruct (Nat.leb_spec (k + nsize) ep) as [L|L]; cbn [andb]; [|reflexivity].
        destruct (matchb cs h needle nsize k) eqn:M; [|reflexivity].
        specialize (F3 k Hk).
        assert (Hh : hit_at cs h n0 k = true) by (apply (match_hit cs h needle nsize k n0); try assumption; lia).
        congruence. }
    rewrite Skip.
    destruct (Nat.ltb_spec ep (cp' + nsize)) as [L|L].
    + symmetry. f_equal. apply first_from_none. intros k Hk. unfold subP.
      destruct (Nat.leb_spec (k + nsize) ep); [lia|reflexivity].
    + destruct (compare_units_zero cs h cp' needle nsize Bh Bn) as [z [E Z0]]; [lia|lia|].
      rewrite E. cbn [bind]. rewrite Z0.
      destruct (ep - cp')%nat as [|d] eqn:D; [lia|]. cbn [first_from]. unfold subP at 1.
      destruct (Nat.leb_spec (cp' + nsize) ep); [|lia]. cbn [andb].
      destruct (matchb cs h needle nsize cp'); [reflexivity|].
      rewrite IH by lia. f_equal. f_equal. lia.
  - symmetry. f_equal. apply first_from_none. intros k Hk.
    pose proof (proj1 (first_from_none _ _ _) F k Hk) as Hk'.
    unfold subP. destruct (Nat.leb_spec (k + nsize) ep) as [L|L]; cbn [andb]; [|reflexivity].
    destruct (matchb cs h needle nsize k) eqn:M; [|reflexivity].
    assert (Hh : hit_at cs h n0 k = true) by (apply (match_hit cs h needle nsize k n0); try assumption; lia).
    congruence.
Qed.

Lemma find_sub_spec cs h needle nsize start size :
  units_ok cs h -> units_ok cs needle ->
  (1 <= nsize)%nat -> (nsize <= length needle)%nat -> (start + size <= length h)%nat ->
  find_sub cs h start size needle nsize
  = Ok (first_from (subP cs h needle nsize (start + size)) start size).
Proof.
  intros Bh Bn H1 Hn Hs. unfold find_sub.
  rewrite (find_sub_loop_spec cs h needle nsize (start + size)); try assumption; try lia.
  f_equal. f_equal. lia.
Qed.

(* subP on (content ++ anything) within the content is the spec's occurs_atb on the mapped texts *)
Lemma firstn_skipn_app_le {A} k i (s t : list A) : (i + k <= length s)%nat ->
  firstn k (skipn i (s ++ t)) = firstn k (skipn i s).
Proof.
  intros H. rewrite skipn_app. replace (i - length s)%nat with O by lia. cbn [skipn].
  apply firstn_app_le. rewrite skipn_length. lia.
Qed.

Lemma subP_occurs cs s ts n tn ep i : (ep <= length s)%nat ->
  subP cs (s ++ ts) (n ++ tn) (length n) ep i
  = (i + length n <=? ep)%nat && occurs_atb (case_map (ci_of cs) s) (case_map (ci_of cs) n) i.
Proof.
  intros Hep. unfold subP, occurs_atb, matchb. rewrite !cm_map, !map_length.
  destruct (Nat.leb_spec (i + length n) ep) as [L|L]; cbn [andb]; [|reflexivity].
  destruct (Nat.leb_spec (i + length n) (length s)) as [L2|L2]; [|lia]. cbn [andb].
  rewrite firstn_skipn_app_le by lia. rewrite firstn_app_le by lia. rewrite firstn_all.
  rewrite skipn_map, firstn_map. reflexivity.
Qed.

Lemma case_map_length ci s : length (case_map ci s) = length s.
Proof. destruct ci; cbn [case_map]; [apply map_length|reflexivity]. Qed.

Lemma occurs_atb_bound ci s n k :
  ((k + length n <=? length s)%nat && occurs_atb (case_map ci s) (case_map ci n) k)
  = occurs_atb (case_map ci s) (case_map ci n) k.
Proof. unfold occurs_atb. rewrite !case_map_length. destruct (k + length n <=? length s)%nat; reflexivity. Qed.

(* ------------------------------------------------------------------ _find and the find front ends *)
Lemma ssize_idx o : ssize_of o = idx o.
Proof. reflexivity. Qed.

Lemma len_lt_cases s start : (len s <=? start) = false -> (N.to_nat start < length s)%nat /\
  (N.to_nat start + N.to_nat (sub64 (len s) start))%nat = length s.
Proof.
  intros H. apply N.leb_gt in H. unfold len in *. unfold sub64.
  destruct (N.leb_spec start (N.of_nat (length s))); lia.
Qed.

Lemma _find_spec cs s start n tn :
  units_ok cs s -> units_ok cs (n ++ tn) -> n <> [] -> (len s <=? start) = false ->
  _find cs s start (n ++ tn) (length n) = Ok (idx (find_spec (ci_of cs) s n start)).
Proof.
  intros Bs Bn Hne Hst. destruct (len_lt_cases s start Hst) as [L1 L2].
  unfold _find, cstr. rewrite find_sub_spec; try assumption.
  - cbn [bind]. f_equal. rewrite ssize_idx. f_equal. unfold find_spec.
    destruct n as [|c n]; [congruence|]. unfold len in Hst. rewrite Hst.
    rewrite L2. replace (N.to_nat (sub64 (len s) start)) with (length s - N.to_nat start)%nat by lia.
    apply first_from_ext. intros k Hk. rewrite subP_occurs by lia. apply occurs_atb_bound.
  - apply units_ok_cstr. exact Bs.
  - destruct n; [congruence|cbn [length]; lia].
  - rewrite app_length. lia.
  - rewrite app_length. cbn [length]. lia.
Qed.

Theorem find_pn_spec cs s start n tn :
  units_ok cs s -> units_ok cs (n ++ tn) ->
  find_pn cs s start (Some (n ++ tn)) (len n) = Ok (idx (find_spec (ci_of cs) s n start)).
Proof.
  intros Bs Bn. unfold find_pn.
  destruct (N.eqb_spec (len n) 0) as [E|E].
  - destruct n; [reflexivity|]. unfold len in E. cbn [length] in E. lia.
  - assert (n <> []) by (intros ->; apply E; reflexivity).
    destruct (len s <=? start) eqn:G.
    + unfold find_spec. destruct n; [congruence|]. unfold len in G. rewrite G. reflexivity.
    + replace (N.to_nat (len n)) with (length n) by (unfold len; lia). apply _find_spec; assumption.
Qed.

Theorem find_pn_null cs s start count : find_pn cs s start None count = Ok (-1)%Z.
Proof. reflexivity. Qed.

Theorem find_s_spec cs s start sub :
  units_ok cs s -> units_ok cs sub ->
  find_s cs s start sub = Ok (idx (find_spec (ci_of cs) s sub start)).
Proof.
  intros Bs Bn. unfold find_s, cstr. apply find_pn_spec; [exact Bs|apply units_ok_cstr; exact Bn].
Qed.

Lemma upto_nul_nil_iff z c t : z = c :: t -> (upto_nul z = [] <-> c = 0).
Proof.
  intros ->. cbn [upto_nul]. destruct (N.eqb_spec c 0); split; intros; try reflexivity; try congruence; discriminate.
Qed.

Theorem find_z_spec cs s start z :
  units_ok cs s -> zarg_ok cs z ->
  find_z cs s start z = Ok (idx (find_spec (ci_of cs) s (zval z) start)).
Proof.
  intros Bs Bz. destruct z as [a|]; cbn [find_z zval]; [|reflexivity].
  destruct Bz as [H0 Ba]. destruct (strlen_spec a H0) as [E1 [rest E2]].
  destruct a as [|c t]; [destruct H0|]. cbn [at_ nth_error of_opt bind].
  pose proof (upto_nul_nil_iff (c :: t) c t eq_refl) as Hnil.
  destruct (N.eqb_spec c 0) as [E|E].
  - apply Hnil in E. rewrite E. reflexivity.
  - assert (Hne : upto_nul (c :: t) <> []) by (intros C; apply E; apply Hnil; exact C).
    destruct (len s <=? start) eqn:G.
    + unfold find_spec. destruct (upto_nul (c :: t)); [congruence|]. unfold len in G. rewrite G. reflexivity.
    + rewrite E1. cbn [bind]. rewrite E2 at 1. apply _find_spec; try assumption. rewrite <- E2. exact Ba.
Qed.

(* the char overload is the search for the one-unit needle *)
Lemma hit_at_occurs cs s ts ch i : (i < length s)%nat ->
  hit_at cs (s ++ ts) ch i = occurs_atb (case_map (ci_of cs) s) (case_map (ci_of cs) [ch]) i.
Proof.
  intros Hi. unfold hit_at, occurs_atb. rewrite !cm_map, !map_length. cbn [length map].
  destruct (Nat.leb_spec (i + 1) (length s)); [|lia]. cbn [andb].
  destruct (at_skipn s i Hi) as [c [E [S _]]].
  rewrite nth_error_app1 by lia. unfold at_, of_opt in E. destruct (nth_error s i) as [c'|]; [|discriminate].
  inversion E; subst c'. rewrite skipn_map, S. cbn [map firstn list_eqb]. rewrite andb_true_r. reflexivity.
Qed.

Theorem find_char_spec cs s start ch :
  find_char cs s start ch = Ok (idx (find_spec (ci_of cs) s [ch] start)).
Proof.
  unfold find_char, find_spec. destruct (len s <=? start) eqn:G.
  - unfold len in G. rewrite G. reflexivity.
  - destruct (len_lt_cases s start G) as [L1 L2]. unfold len in G. rewrite G.
    unfold cstr. rewrite find_ch_spec by (rewrite app_length; cbn [length]; lia).
    cbn [bind]. rewrite ssize_idx. f_equal. f_equal.
    replace (N.to_nat (sub64 (len s) start)) with (length s - N.to_nat start)%nat by lia.
    apply first_from_ext. intros k Hk. apply hit_at_occurs. lia.
Qed.

(* overloads_agree: char, C string, (pointer,length) and ST::string forms of one needle *)
Theorem find_overloads_agree cs s start n tp tz :
  units_ok cs s -> units_ok cs (n ++ tp) -> units_ok cs (n ++ 0 :: tz) -> nul_free n ->
  exists r, r = Ok (idx (find_spec (ci_of cs) s n start)) /\
    find_pn cs s start (Some (n ++ tp)) (len n) = r /\
    find_s cs s start n = r /\
    find_z cs s start (Some (n ++ 0 :: tz)) = r /\
    (forall ch, n = [ch] -> find_char cs s start ch = r).
Proof.
  intros Bs Bp Bz Hn. eexists. split; [reflexivity|]. repeat split.
  - apply find_pn_spec; assumption.
  - apply find_s_spec; [exact Bs|]. destruct cs; cbn [units_ok] in *; [exact I|].
    apply Forall_app in Bp. destruct Bp as [Bp _]. exact Bp.
  - rewrite find_z_spec; [|exact Bs|].
    + cbn [zval]. rewrite upto_nul_free by exact Hn. reflexivity.
    + split; [apply in_or_app; right; left; reflexivity|exact Bz].
  - intros ch ->. apply find_char_spec.
Qed.

(* ------------------------------------------------------------------ find_last *)
Fixpoint last_from (P : nat -> bool) (i cnt : nat) (acc : option nat) : option nat :=
  match cnt with
  | O => acc
  | S c => last_from P (S i) c (if P i then Some i else acc)
  end.

Lemma last_from_none P : forall cnt i acc,
  (forall k, (i <= k < i + cnt)%nat -> P k = false) -> last_from P i cnt acc = acc.
Proof.
  induction cnt as [|cnt IH]; intros i acc H; cbn [last_from]; [reflexivity|].
  rewrite (H i) by lia. apply IH. intros k Hk. apply H. lia.
Qed.

Lemma last_from_skip P : forall cnt i j acc,
  (i <= j)%nat -> (j < i + cnt)%nat -> (forall k, (i <= k < j)%nat -> P k = false) -> P j = true ->
  last_from P i cnt acc = last_from P (S j) (i + cnt - S j) (Some j).
Proof.
  induction cnt as [|cnt IH]; intros i j acc H1 H2 H3 H4; [lia|].
  cbn [last_from]. destruct (Nat.eq_dec i j) as [->|Hn].
  - rewrite H4. f_equal. lia.
  - rewrite (H3 i) by lia. rewrite (IH (S i) j acc); try lia; try assumption.
    + f_equal. lia.
    + intros k Hk. apply H3. lia.
Qed.

Lemma last_from_snoc P : forall cnt i acc,
  last_from P i (S cnt) acc = if P (i + cnt)%nat then Some (i + cnt)%nat else last_from P i cnt acc.
Proof.
  induction cnt as [|cnt IH]; intros i acc.
  - cbn [last_from]. rewrite Nat.add_0_r. reflexivity.
  - change (last_from P i (S (S cnt)) acc) with (last_from P (S i) (S cnt) (if P i then Some i else acc)).
    rewrite IH. replace (S i + cnt)%nat with (i + S cnt)%nat by lia. reflexivity.
Qed.

Lemma last_from_below P : forall cnt acc,
  last_from P 0 cnt acc = match last_below P cnt with Some j => Some j | None => acc end.
Proof.
  induction cnt as [|cnt IH]; intros acc; [reflexivity|].
  rewrite last_from_snoc. cbn [Nat.add last_below]. destruct (P cnt); [reflexivity|]. apply IH.
Qed.

Lemma find_last_loop_spec cs h needle nsize endp :
  units_ok cs h -> units_ok cs needle ->
  (1 <= nsize)%nat -> (nsize <= length needle)%nat -> (endp <= length h)%nat ->
  forall fuel start found, (start <= endp)%nat -> (endp - start < fuel)%nat ->
  find_last_loop fuel cs h start endp needle nsize found
  = Ok (last_from (subP cs h needle nsize endp) start (endp - start) found).
Proof.
  intros Bh Bn H1 Hn Hep. induction fuel as [|fuel IH]; intros start found Hs Hf; [lia|].
  cbn [find_last_loop]. rewrite find_sub_spec; try assumption; try lia. cbn [bind].
  replace (start + (endp - start))%nat with endp by lia.
  destruct (first_from (subP cs h needle nsize endp) start (endp - start)) as [cp|] eqn:F.
  - apply first_from_some in F. destruct F as [F1 [F2 F3]].
    destruct (Nat.leb_spec endp cp); [lia|].
    rewrite IH by lia. f_equal.
    rewrite (last_from_skip _ (endp - start) start cp found); try lia; try assumption.
    f_equal. lia.
  - f_equal. symmetry. apply last_from_none. apply first_from_none. exact F.
Qed.

Lemma clamp_max_min s max : clamp_max s max = N.to_nat (N.min max (N.of_nat (length s))).
Proof.
  unfold clamp_max, len. destruct (N.ltb_spec (N.of_nat (length s)) max); f_equal; lia.
Qed.

Lemma opt_match_id (o : option nat) : match o with Some j => Some j | None => None end = o.
Proof. destruct o; reflexivity. Qed.

Lemma _find_last_spec cs s max n tn :
  units_ok cs s -> units_ok cs (n ++ tn) -> n <> [] ->
  _find_last cs s max (n ++ tn) (length n) = Ok (idx (find_last_spec (ci_of cs) s n max)).
Proof.
  intros Bs Bn Hne. unfold _find_last. rewrite clamp_max_min.
  set (e := N.to_nat (N.min max (N.of_nat (length s)))).
  assert (He : (e <= length s)%nat) by (unfold e; lia).
  unfold cstr. rewrite find_last_loop_spec; try assumption; try lia.
  - cbn [bind]. rewrite ssize_idx. f_equal. f_equal. rewrite Nat.sub_0_r, last_from_below, opt_match_id.
    unfold find_last_spec. destruct n as [|c n]; [congruence|]. fold e.
    apply last_below_ext. intros k Hk. apply subP_occurs. exact He.
  - apply units_ok_cstr. exact Bs.
  - destruct n; [congruence|cbn [length]; lia].
  - rewrite app_length. lia.
  - rewrite app_length. cbn [length]. lia.
Qed.

Lemma find_last_spec_empty ci n max : find_last_spec ci [] n max = None.
Proof.
  unfold find_last_spec. destruct n; [reflexivity|]. cbn [length].
  replace (N.to_nat (N.min max (N.of_nat 0))) with O by lia. reflexivity.
Qed.

Lemma len_zero s : (len s =? 0) = true -> s = [].
Proof. intros H. apply N.eqb_eq in H. unfold len in H. destruct s; [reflexivity|cbn [length] in H; lia]. Qed.

Theorem find_last_pn_spec cs s max n tn :
  units_ok cs s -> units_ok cs (n ++ tn) ->
  find_last_pn cs s max (Some (n ++ tn)) (len n) = Ok (idx (find_last_spec (ci_of cs) s n max)).
Proof.
  intros Bs Bn. unfold find_last_pn.
  destruct (N.eqb_spec (len n) 0) as [E|E].
  - destruct n; [reflexivity|]. unfold len in E. cbn [length] in E. lia.
  - assert (n <> []) by (intros ->; apply E; reflexivity).
    destruct (len s =? 0) eqn:G.
    + apply len_zero in G. subst s. rewrite find_last_spec_empty. reflexivity.
    + replace (N.to_nat (len n)) with (length n) by (unfold len; lia). apply _find_last_spec; assumption.
Qed.

Theorem find_last_pn_null cs s max count : find_last_pn cs s max None count = Ok (-1)%Z.
Proof. reflexivity. Qed.

Theorem find_last_s_spec cs s max sub :
  units_ok cs s -> units_ok cs sub ->
  find_last_s cs s max sub = Ok (idx (find_last_spec (ci_of cs) s sub max)).
Proof.
  intros Bs Bn. unfold find_last_s, cstr. apply find_last_pn_spec; [exact Bs|apply units_ok_cstr; exact Bn].
Qed.

Theorem find_last_z_spec cs s max z :
  units_ok cs s -> zarg_ok cs z ->
  find_last_z cs s max z = Ok (idx (find_last_spec (ci_of cs) s (zval z) max)).
Proof.
  intros Bs Bz. destruct z as [a|]; cbn [find_last_z zval]; [|reflexivity].
  destruct Bz as [H0 Ba]. destruct (strlen_spec a H0) as [E1 [rest E2]].
  destruct a as [|c t]; [destruct H0|]. cbn [at_ nth_error of_opt bind].
  pose proof (upto_nul_nil_iff (c :: t) c t eq_refl) as Hnil.
  destruct (N.eqb_spec c 0) as [E|E].
  - apply Hnil in E. rewrite E. reflexivity.
  - assert (Hne : upto_nul (c :: t) <> []) by (intros C; apply E; apply Hnil; exact C).
    destruct (len s =? 0) eqn:G.
    + apply len_zero in G. subst s. rewrite find_last_spec_empty. reflexivity.
    + rewrite E1. cbn [bind]. rewrite E2 at 1. apply _find_last_spec; try assumption. rewrite <- E2. exact Ba.
Qed.

Lemma find_last_ch_loop_spec cs h ch endp : (endp <= length h)%nat ->
  forall fuel start found, (start <= endp)%nat -> (endp - start < fuel)%nat ->
  find_last_ch_loop fuel cs h start endp ch found
  = Ok (last_from (hit_at cs h ch) start (endp - start) found).
Proof.
  intros Hep. induction fuel as [|fuel IH]; intros start found Hs Hf; [lia|].
  cbn [find_last_ch_loop]. rewrite find_ch_spec by lia. cbn [bind].
  destruct (first_from (hit_at cs h ch) start (endp - start)) as [cp|] eqn:F.
  - apply first_from_some in F. destruct F as [F1 [F2 F3]].
    destruct (Nat.leb_spec endp cp); [lia|].
    rewrite IH by lia. f_equal.
    rewrite (last_from_skip _ (endp - start) start cp found); try lia; try assumption.
    f_equal. lia.
  - f_equal. symmetry. apply last_from_none. apply first_from_none. exact F.
Qed.

Theorem find_last_char_spec cs s max ch :
  find_last_char cs s max ch = Ok (idx (find_last_spec (ci_of cs) s [ch] max)).
Proof.
  unfold find_last_char. destruct (len s =? 0) eqn:G.
  - apply len_zero in G. subst s. rewrite find_last_spec_empty. reflexivity.
  - rewrite clamp_max_min. set (e := N.to_nat (N.min max (N.of_nat (length s)))).
    assert (He : (e <= length s)%nat) by (unfold e; lia).
    unfold cstr. rewrite find_last_ch_loop_spec; try lia; [|rewrite app_length; lia].
    cbn [bind]. rewrite ssize_idx. f_equal. f_equal. rewrite Nat.sub_0_r, last_from_below, opt_match_id.
    unfold find_last_spec. fold e. apply last_below_ext. intros k Hk.
    rewrite hit_at_occurs by lia. cbn [length]. destruct (Nat.leb_spec (k + 1) e); [reflexivity|lia].
Qed.

Theorem find_last_overloads_agree cs s max n tp tz :
  units_ok cs s -> units_ok cs (n ++ tp) -> units_ok cs (n ++ 0 :: tz) -> nul_free n ->
  exists r, r = Ok (idx (find_last_spec (ci_of cs) s n max)) /\
    find_last_pn cs s max (Some (n ++ tp)) (len n) = r /\
    find_last_s cs s max n = r /\
    find_last_z cs s max (Some (n ++ 0 :: tz)) = r /\
    (forall ch, n = [ch] -> find_last_char cs s max ch = r).
Proof.
  intros Bs Bp Bz Hn. eexists. split; [reflexivity|]. repeat split.
  - apply find_last_pn_spec; assumption.
  - apply find_last_s_spec; [exact Bs|]. destruct cs; cbn [units_ok] in *; [exact I|].
    apply Forall_app in Bp. destruct Bp as [Bp _]. exact Bp.
  - rewrite find_last_z_spec; [|exact Bs|].
    + cbn [zval]. rewrite upto_nul_free by exact Hn. reflexivity.
    + split; [apply in_or_app; right; left; reflexivity|exact Bz].
  - intros ch ->. apply find_last_char_spec.
Qed.

(* ------------------------------------------------------------------ contains *)
Lemma idx_nonneg o : (0 <=? idx o)%Z = match o with Some _ => true | None => false end.
Proof. destruct o; cbn [idx]; [apply Z.leb_le; lia|reflexivity]. Qed.

Theorem contains_s_spec cs s sub : units_ok cs s -> units_ok cs sub ->
  contains_s cs s sub = Ok (contains_spec (ci_of cs) s sub).
Proof.
  intros Bs Bn. unfold contains_s, find_s0. rewrite find_s_spec by assumption. cbn [bind].
  rewrite idx_nonneg. reflexivity.
Qed.

Theorem contains_pn_spec cs s n tn : units_ok cs s -> units_ok cs (n ++ tn) ->
  contains_pn cs s (Some (n ++ tn)) (len n) = Ok (contains_spec (ci_of cs) s n).
Proof.
  intros Bs Bn. unfold contains_pn, find_pn0. rewrite find_pn_spec by assumption. cbn [bind].
  rewrite idx_nonneg. reflexivity.
Qed.

Theorem contains_z_spec cs s z : units_ok cs s -> zarg_ok cs z ->
  contains_z cs s z = Ok (contains_spec (ci_of cs) s (zval z)).
Proof.
  intros Bs Bz. unfold contains_z, find_z0. rewrite find_z_spec by assumption. cbn [bind].
  rewrite idx_nonneg. reflexivity.
Qed.

Theorem contains_char_spec cs s ch :
  contains_char cs s ch = Ok (contains_spec (ci_of cs) s [ch]).
Proof.
  unfold contains_char, find_char0. rewrite find_char_spec. cbn [bind]. rewrite idx_nonneg. reflexivity.
Qed.

(* contains is true exactly when the needle occurs somewhere *)
Theorem contains_spec_iff ci h n :
  contains_spec ci h n = true <-> n <> [] /\ exists i, occurs_at (case_map ci h) (case_map ci n) i.
Proof.
  unfold contains_spec. destruct (find_spec ci h n 0) as [i|] eqn:F.
  - apply find_spec_least in F. destruct F as [F1 [_ [_ [F2 _]]]].
    split; [intros _; split; [exact F1|exists i; exact F2]|reflexivity].
  - split; [discriminate|]. intros [Hne [i Hi]]. apply find_spec_none in F.
    destruct F as [F|[F|F]]; [congruence| |exfalso; apply (F i); [lia|exact Hi]].
    exfalso. destruct Hi as [Hi _].
    assert (length (case_map ci h) = length h) by (destruct ci; cbn [case_map]; [apply map_length|reflexivity]).
    assert (length (case_map ci n) = length n) by (destruct ci; cbn [case_map]; [apply map_length|reflexivity]).
    destruct n; [congruence|]. cbn [length] in *. lia.
Qed.

(* ------------------------------------------------------------------ starts_with / ends_with *)
Lemma zero_iff_mapeq cs z X Y : units_ok cs X -> units_ok cs Y ->
  sgn z = lex_by (key_of cs) X Y -> (z =? 0)%Z = list_eqb (map (kf cs) X) (map (kf cs) Y).
Proof.
  intros BX BY S. apply eq_true_iff_eq. rewrite Z.eqb_eq, <- sgn_zero, S, list_eqb_eq.
  apply lex_key_eq; assumption.
Qed.

Lemma list_eqb_length_ne a b : length a <> length b -> list_eqb a b = false.
Proof.
  intros H. destruct (list_eqb a b) eqn:E; [|reflexivity]. apply list_eqb_eq in E. subst. congruence.
Qed.

Lemma starts_with_core cs s p z : units_ok cs s -> units_ok cs p -> (length p <= length s)%nat ->
  sgn z = lex_by (key_of cs) (firstn (length p) s) (firstn (length p) p) ->
  (z =? 0)%Z = starts_with_spec (ci_of cs) s p.
Proof.
  intros Bs Bp L S. rewrite firstn_all in S.
  rewrite (zero_iff_mapeq cs z _ _ (units_ok_firstn cs _ _ Bs) Bp S).
  unfold starts_with_spec. rewrite !cm_map, firstn_map. reflexivity.
Qed.

Lemma starts_with_short ci s p : (length s < length p)%nat -> starts_with_spec ci s p = false.
Proof.
  intros L. unfold starts_with_spec. apply list_eqb_length_ne.
  rewrite firstn_length. destruct ci; cbn [case_map]; rewrite ?map_length; lia.
Qed.

Theorem starts_with_s_spec cs s p : units_ok cs s -> units_ok cs p ->
  starts_with_s cs s p = Ok (starts_with_spec (ci_of cs) s p).
Proof.
  intros Bs Bp. unfold starts_with_s. destruct (N.ltb_spec (len s) (len p)) as [L|L].
  - rewrite starts_with_short by (unfold len in L; lia). reflexivity.
  - destruct (str_compare_n_spec cs s p (len p) Bs Bp) as [z [E S]]. rewrite E. cbn [bind]. f_equal.
    unfold len in S at 1 2. rewrite Nat2N.id in S. apply starts_with_core; try assumption. unfold len in L. lia.
Qed.

Theorem starts_with_z_spec cs s z : units_ok cs s -> zarg_ok cs z ->
  starts_with_z cs s z = Ok (starts_with_spec (ci_of cs) s (zval z)).
Proof.
  intros Bs Bz. unfold starts_with_z. destruct (cstr_arg_spec cs z Bz) as [E1 [rest [E2 B2]]].
  rewrite E1. cbn [bind]. destruct (N.ltb_spec (len s) (len (zval z))) as [L|L].
  - rewrite starts_with_short by (unfold len in L; lia). reflexivity.
  - destruct (str_compare_n_z_spec cs s z (len (zval z)) Bs Bz) as [c [E S]]. rewrite E. cbn [bind]. f_equal.
    unfold len in S at 1 2. rewrite Nat2N.id in S. apply starts_with_core; try assumption.
    + destruct cs; cbn [units_ok] in *; [exact I|]. apply Forall_app in B2. destruct B2 as [B2 _]. exact B2.
    + unfold len in L. lia.
Qed.

Theorem starts_with_spec_iff ci s p :
  starts_with_spec ci s p = true <-> firstn (length p) (case_map ci s) = case_map ci p.
Proof. unfold starts_with_spec. apply list_eqb_eq. Qed.

Lemma ends_with_core cs s ts p tp z : units_ok cs (s ++ ts) -> units_ok cs (p ++ tp) ->
  (length p <= length s)%nat ->
  compare_units cs (s ++ ts) (length s - length p) (p ++ tp) 0 (length p) = Ok z ->
  (z =? 0)%Z = ends_with_spec (ci_of cs) s p.
Proof.
  intros Bs Bp L E.
  destruct (compare_units_zero cs (s ++ ts) (length s - length p) (p ++ tp) (length p) Bs Bp) as [z' [E' Z0]].
  - rewrite app_length. lia.
  - rewrite app_length. lia.
  - rewrite E in E'. inversion E'; subst z'. rewrite Z0. unfold matchb, ends_with_spec.
    destruct (Nat.leb_spec (length p) (length s)); [|lia]. cbn [andb].
    rewrite firstn_skipn_app_le by lia. rewrite firstn_app_le by lia. rewrite firstn_all.
    rewrite !cm_map, skipn_map. f_equal. f_equal.
    rewrite firstn_all2; [reflexivity|]. rewrite skipn_length. lia.
Qed.

Lemma ends_with_short ci s p : (length s < length p)%nat -> ends_with_spec ci s p = false.
Proof. intros L. unfold ends_with_spec. destruct (Nat.leb_spec (length p) (length s)); [lia|reflexivity]. Qed.

Theorem ends_with_s_spec cs s p : units_ok cs s -> units_ok cs p ->
  ends_with_s cs s p = Ok (ends_with_spec (ci_of cs) s p).
Proof.
  intros Bs Bp. unfold ends_with_s. destruct (N.ltb_spec (len s) (len p)) as [L|L].
  - rewrite ends_with_short by (unfold len in L; lia). reflexivity.
  - unfold len in *. replace (N.to_nat (N.of_nat (length s) - N.of_nat (length p))) with (length s - length p)%nat by lia.
    unfold cstr.
    destruct (compare_units_zero cs (s ++ [0]) (length s - length p) (p ++ [0]) (length p)) as [z [E _]];
      try (apply units_ok_cstr; assumption); try (rewrite app_length; lia).
    rewrite E. cbn [bind]. f_equal.
    apply (ends_with_core cs s [0] p [0] z); try (apply units_ok_cstr; assumption); try lia. exact E.
Qed.

Theorem ends_with_z_spec cs s z : units_ok cs s -> zarg_ok cs z ->
  ends_with_z cs s z = Ok (ends_with_spec (ci_of cs) s (zval z)).
Proof.
  intros Bs Bz. unfold ends_with_z. destruct (cstr_arg_spec cs z Bz) as [E1 [rest [E2 B2]]].
  rewrite E1. cbn [bind]. destruct (N.ltb_spec (len s) (len (zval z))) as [L|L].
  - rewrite ends_with_short by (unfold len in L; lia). reflexivity.
  - unfold len in *. rewrite Nat2N.id.
    replace (N.to_nat (N.of_nat (length s) - N.of_nat (length (zval z)))) with (length s - length (zval z))%nat by lia.
    rewrite E2. unfold cstr.
    destruct (compare_units_zero cs (s ++ [0]) (length s - length (zval z)) (zval z ++ rest) (length (zval z))) as [c [E _]];
      try (apply units_ok_cstr; assumption); try assumption; try (rewrite app_length; lia).
    rewrite E. cbn [bind]. f_equal.
    apply (ends_with_core cs s [0] (zval z) rest c); try (apply units_ok_cstr; assumption); try assumption; try lia.
Qed.

Theorem ends_with_spec_iff ci s p :
  ends_with_spec ci s p = true <->
  (length p <= length s)%nat /\ skipn (length s - length p) (case_map ci s) = case_map ci p.
Proof. unfold ends_with_spec. rewrite andb_true_iff, Nat.leb_le, list_eqb_eq. reflexivity. Qed.

(* ------------------------------------------------------------------ no_oob / fuel *)
(* every front end returns Ok: no Fault OOBRead (reads stay inside c_str() resp. the needle array),
   no Fault Hang (the fuel given to the loops is sufficient) *)
Theorem find_total cs s start n tn : units_ok cs s -> units_ok cs (n ++ tn) ->
  is_ok (find_pn cs s start (Some (n ++ tn)) (len n)) = true /\ is_ok (find_char cs s start 0) = true.
Proof.
  intros Bs Bn. rewrite find_pn_spec by assumption. rewrite find_char_spec. split; reflexivity.
Qed.

Theorem find_last_total cs s max n tn : units_ok cs s -> units_ok cs (n ++ tn) ->
  is_ok (find_last_pn cs s max (Some (n ++ tn)) (len n)) = true /\ is_ok (find_last_char cs s max 0) = true.
Proof.
  intros Bs Bn. rewrite find_last_pn_spec by assumption. rewrite find_last_char_spec. split; reflexivity.
Qed.

Example find_examples :
  find_s CaseSensitive [97; 97; 97; 98] 0 [97; 97; 98] = Ok 1%Z /\
  find_last_s CaseInsensitive [97; 65; 97; 97] 3 [97; 97] = Ok 1%Z /\
  find_last_s CaseInsensitive [97; 65; 97; 97] 18446744073709551615 [97; 97] = Ok 2%Z.
Proof. vm_compute. repeat split; reflexivity. Qed.
