(* Str/SplitProofsTok.v — C09, tokenize: the transcription of ST::string::tokenize (two pointer
   walks inside an outer loop, every read bounds-checked) computes the maximal non-empty runs of
   non-delimiters and never faults, for every content `s` and every C-string array `delims`.   *)
From Coq Require Import NArith PeanoNat List Bool Lia.
From ST Require Import Base.Outcome Base.Units Str.Model Str.SliceSpec Str.SplitSpec
  Str.SliceModel Str.SplitModel Str.SliceProofsBase.
Import ListNotations.
Local Open Scope N_scope.

(* ---- the charset test -------------------------------------------------------------------- *)
Lemma find_ch_firstn c : forall n a cp, (cp + n <= length a)%nat ->
  exists r, find_ch CaseSensitive a cp n c = Ok r /\
            (match r with Some _ => true | None => false end)
            = existsb (N.eqb c) (firstn n (skipn cp a)).
Proof.
  induction n as [|n IH]; intros a cp H.
  - exists None. split; reflexivity.
  - cbn [find_ch]. destruct (at_skipn a cp) as [x [E1 E2]]; [lia|].
    rewrite E1. cbn [bind]. rewrite E2. cbn [firstn existsb].
    rewrite (N.eqb_sym c x). destruct (x =? c) eqn:Ex.
    + exists (Some cp). split; reflexivity.
    + destruct (IH a (S cp)) as [r [R1 R2]]; [lia|]. exists r. split; [exact R1|].
      rewrite R2. reflexivity.
Qed.

(* find_cs(delims, dsize, c) != nullptr  decides membership in the delimiter set, for EVERY unit c
   (0 included: the scan covers only the dsize cells before the terminator) *)
Lemma in_charset_spec_tok delims k c :
  c_strlen delims = Ok k -> in_charset delims k c = Ok (in_set (c_content delims) c).
Proof.
  intros H. destruct (c_strlen_content delims k H) as [_ [Hf [Hlt _]]].
  unfold in_charset. destruct (find_ch_firstn c k delims O) as [r [R1 R2]]; [lia|].
  rewrite R1. cbn [bind]. rewrite R2. cbn [skipn]. rewrite Hf. reflexivity.
Qed.

(* ---- list-level description of one walk ---------------------------------------------------- *)
Fixpoint take_while (p : N -> bool) (l : list N) : list N :=
  match l with
  | [] => []
  | x :: t => if p x then x :: take_while p t else []
  end.

Lemma firstn_take_while p : forall l, firstn (length (take_while p l)) l = take_while p l.
Proof.
  induction l as [|x t IH]; [reflexivity|]. cbn [take_while]. destruct (p x); [|reflexivity].
  cbn [length firstn]. rewrite IH. reflexivity.
Qed.

Lemma skipn_take_while p : forall l, skipn (length (take_while p l)) l = drop_while p l.
Proof.
  induction l as [|x t IH]; [reflexivity|]. cbn [take_while drop_while].
  destruct (p x); [|reflexivity]. cbn [length skipn]. exact IH.
Qed.

Lemma take_while_length p l : (length (take_while p l) <= length l)%nat.
Proof.
  induction l as [|x t IH]; [apply le_n|]. cbn [take_while]. destruct (p x); cbn [length]; lia.
Qed.

Lemma skipn_add {A} (l : list A) : forall a b, skipn (a + b) l = skipn b (skipn a l).
Proof.
  induction l as [|x t IH]; intros a b.
  - rewrite !skipn_nil. reflexivity.
  - destruct a as [|a]; [reflexivity|]. cbn [Nat.add skipn]. apply IH.
Qed.

(* the condition a walk continues on: want = false skips non-delimiters, want = true delimiters *)
Definition pw (set : list N) (want : bool) (c : N) : bool := Bool.eqb (in_set set c) want.

Lemma tok_walk_spec s delims k want : c_strlen delims = Ok k ->
  forall fuel cur, (cur <= length s)%nat -> (length s - cur < fuel)%nat ->
  tok_walk fuel (cstr s) cur (length s) delims k want
  = Ok (cur + length (take_while (pw (c_content delims) want) (skipn cur s)))%nat.
Proof.
  intros Hk. induction fuel as [|f IH]; intros cur Hc Hf; [lia|].
  cbn [tok_walk]. destruct (Nat.eqb cur (length s)) eqn:E.
  - apply Nat.eqb_eq in E. subst cur. rewrite skipn_all. cbn [take_while length].
    rewrite Nat.add_0_r. reflexivity.
  - apply Nat.eqb_neq in E. rewrite at_cstr_lt by lia.
    destruct (at_skipn s cur) as [x [E1 E2]]; [lia|]. rewrite E1. cbn [bind].
    rewrite (in_charset_spec_tok delims k x Hk). cbn [bind].
    rewrite E2. cbn [take_while]. unfold pw at 1.
    destruct (Bool.eqb (in_set (c_content delims) x) want).
    + rewrite IH by lia. cbn [length]. f_equal. lia.
    + cbn [length]. rewrite Nat.add_0_r. reflexivity.
Qed.

(* ---- the specification, one token at a time -------------------------------------------------- *)
Lemma tokens_drop set : forall l,
  tokens set l [] = tokens set (drop_while (pw set true) l) [].
Proof.
  induction l as [|x t IH]; [reflexivity|]. cbn [tokens drop_while]. unfold pw at 1.
  destruct (in_set set x) eqn:E; cbn [Bool.eqb]; [exact IH|]. cbn [tokens].
  rewrite E. reflexivity.
Qed.

Lemma tokens_acc set : forall l acc,
  tokens set l acc =
  let rest := tokens set (drop_while (pw set true) (drop_while (pw set false) l)) [] in
  match rev acc ++ take_while (pw set false) l with
  | [] => rest
  | t => t :: rest
  end.
Proof.
  induction l as [|x t IH]; intros acc.
  - cbn [tokens take_while drop_while]. rewrite app_nil_r. destruct acc as [|a acc]; [reflexivity|].
    cbn zeta. destruct (rev (a :: acc)) eqn:E; [|reflexivity].
    apply (f_equal (@length N)) in E. rewrite rev_length in E. discriminate.
  - cbn [tokens take_while drop_while].
    destruct (in_set set x) eqn:Ex.
    + assert (P0 : pw set false x = false) by (unfold pw; rewrite Ex; reflexivity).
      assert (P1 : pw set true x = true) by (unfold pw; rewrite Ex; reflexivity).
      rewrite P0. cbn [drop_while]. rewrite P1. cbn zeta.
      rewrite app_nil_r, <- tokens_drop. destruct acc as [|a acc]; [reflexivity|].
      destruct (rev (a :: acc)) eqn:E; [|reflexivity].
      apply (f_equal (@length N)) in E. rewrite rev_length in E. discriminate.
    + assert (P0 : pw set false x = true) by (unfold pw; rewrite Ex; reflexivity).
      rewrite P0. rewrite IH. cbn zeta. cbn [rev]. rewrite <- app_assoc. reflexivity.
Qed.

(* the first maximal run of non-delimiters, if it is non-empty, then the rest after the
   delimiters that follow it: this is what "maximal non-empty runs" means *)
Lemma tokenize_spec_step set l :
  tokenize_spec l set =
  let rest := tokenize_spec (drop_while (pw set true) (drop_while (pw set false) l)) set in
  match take_while (pw set false) l with
  | [] => rest
  | t => t :: rest
  end.
Proof. unfold tokenize_spec. rewrite tokens_acc at 1. reflexivity. Qed.

Lemma walk_progress set x t :
  (1 <= length (take_while (pw set false) (x :: t))
        + length (take_while (pw set true) (drop_while (pw set false) (x :: t))))%nat.
Proof.
  destruct (in_set set x) eqn:E.
  - assert (P0 : pw set false x = false) by (unfold pw; rewrite E; reflexivity).
    assert (P1 : pw set true x = true) by (unfold pw; rewrite E; reflexivity).
    cbn [take_while drop_while]. rewrite P0. cbn [take_while]. rewrite P1. cbn [length]. lia.
  - assert (P0 : pw set false x = true) by (unfold pw; rewrite E; reflexivity).
    cbn [take_while]. rewrite P0. cbn [length]. lia.
Qed.

(* ---- the outer loop ---------------------------------------------------------------------------- *)
Lemma tokenize_loop_spec s delims k : c_strlen delims = Ok k ->
  forall fuel next acc, (next <= length s)%nat -> (length s - next < fuel)%nat ->
  tokenize_loop fuel (cstr s) next (length s) delims k acc
  = Ok (acc ++ tokens (c_content delims) (skipn next s) []).
Proof.
  intros Hk. set (set := c_content delims).
  induction fuel as [|f IH]; intros next acc Hn Hf; [lia|].
  cbn [tokenize_loop]. destruct (Nat.eqb next (length s)) eqn:E.
  - apply Nat.eqb_eq in E. subst next. rewrite skipn_all. cbn [tokens]. rewrite app_nil_r. reflexivity.
  - apply Nat.eqb_neq in E.
    rewrite (tok_walk_spec s delims k false Hk) by lia. cbn [bind]. fold set.
    set (l := skipn next s).
    set (tw := take_while (pw set false) l).
    assert (Hl : length l = (length s - next)%nat) by (unfold l; apply skipn_length).
    assert (Htw : (length tw <= length l)%nat) by apply take_while_length.
    assert (Hcur : skipn (next + length tw) s = drop_while (pw set false) l).
    { rewrite skipn_add. apply skipn_take_while. }
    rewrite (tok_walk_spec s delims k true Hk) by lia. fold set. rewrite Hcur.
    set (tw2 := take_while (pw set true) (drop_while (pw set false) l)).
    assert (Htw2 : (length tw2 <= length l - length tw)%nat).
    { unfold tw2. etransitivity; [apply take_while_length|]. rewrite <- Hcur, skipn_length. lia. }
    assert (Hprog : (1 <= length tw + length tw2)%nat).
    { unfold tw, tw2. destruct l as [|x t]; [cbn [length] in Hl; lia|]. apply walk_progress. }
    assert (Hnext : skipn (next + length tw + length tw2) s
                    = drop_while (pw set true) (drop_while (pw set false) l)).
    { rewrite skipn_add, Hcur. apply skipn_take_while. }
    replace (next + length tw - next)%nat with (length tw) by lia.
    rewrite (tokens_acc set l []). cbn zeta. cbn [rev app]. fold tw. rewrite <- Hnext.
    destruct (Nat.eqb (next + length tw) next) eqn:E2; cbn [negb].
    + apply Nat.eqb_eq in E2. assert (E3 : length tw = O) by lia.
      destruct tw; [|discriminate]. cbn [bind]. apply IH; lia.
    + apply Nat.eqb_neq in E2. rewrite copy_out_cstr by lia. cbn [bind]. fold l.
      assert (Hfn : firstn (length tw) l = tw) by apply firstn_take_while. rewrite Hfn.
      rewrite IH by lia. destruct tw as [|y tw'] eqn:Etw; [cbn [length] in E2; lia|].
      rewrite <- app_assoc. reflexivity.
Qed.

Theorem tokenize_model_spec s delims k :
  c_strlen delims = Ok k ->
  tokenize_model s delims = Ok (tokenize_spec s (c_content delims)).
Proof.
  intros Hk. unfold tokenize_model. rewrite Hk. cbn [bind].
  rewrite (tokenize_loop_spec s delims k Hk) by lia. reflexivity.
Qed.

(* ---- what the specification guarantees ---------------------------------------------------------- *)
Lemma tokens_no_empty set : forall l acc t, In t (tokens set l acc) -> t <> [].
Proof.
  assert (Hrev : forall (a : N) acc, rev (a :: acc) <> []).
  { intros a acc E. apply (f_equal (@length N)) in E. rewrite rev_length in E. discriminate. }
  induction l as [|x u IH]; intros acc t H.
  - cbn [tokens] in H. destruct acc as [|a acc]; [destruct H|].
    destruct H as [H|[]]. subst t. apply Hrev.
  - cbn [tokens] in H. destruct (in_set set x); [|exact (IH _ _ H)].
    destruct acc as [|a acc]; [exact (IH _ _ H)|].
    destruct H as [H|H]; [subst t; apply Hrev|exact (IH _ _ H)].
Qed.

Lemma tokens_no_delim set : forall l acc, Forall (fun x => in_set set x = false) acc ->
  forall t, In t (tokens set l acc) -> Forall (fun x => in_set set x = false) t.
Proof.
  induction l as [|x u IH]; intros acc Ha t H.
  - cbn [tokens] in H. destruct acc as [|a acc]; [destruct H|].
    destruct H as [H|[]]. subst t. apply Forall_rev. exact Ha.
  - cbn [tokens] in H. destruct (in_set set x) eqn:Ex.
    + destruct acc as [|a acc]; [exact (IH [] (Forall_nil _) _ H)|].
      destruct H as [H|H]; [subst t; apply Forall_rev; exact Ha|exact (IH [] (Forall_nil _) _ H)].
    + apply (IH (x :: acc)); [constructor; assumption|exact H].
Qed.

Lemma tokens_concat set : forall l acc,
  concat (tokens set l acc) = rev acc ++ filter (fun x => negb (in_set set x)) l.
Proof.
  induction l as [|x u IH]; intros acc.
  - cbn [tokens filter]. rewrite app_nil_r. destruct acc as [|a acc]; [reflexivity|].
    cbn [concat]. apply app_nil_r.
  - cbn [tokens filter]. destruct (in_set set x); cbn [negb].
    + destruct acc as [|a acc]; [apply IH|]. cbn [concat]. rewrite IH. reflexivity.
    + rewrite IH. cbn [rev]. rewrite <- app_assoc. reflexivity.
Qed.

(* every token is non-empty *)
Corollary tokenize_no_empty s set t : In t (tokenize_spec s set) -> t <> [].
Proof. apply tokens_no_empty. Qed.

(* no token contains a delimiter *)
Corollary tokenize_no_delim s set t x : In t (tokenize_spec s set) -> In x t -> in_set set x = false.
Proof.
  intros Ht Hx. pose proof (tokens_no_delim set s [] (Forall_nil _) t Ht) as F.
  rewrite Forall_forall in F. exact (F x Hx).
Qed.

(* the tokens, in order, are exactly the non-delimiter units of s *)
Corollary tokenize_concat_filter s set :
  concat (tokenize_spec s set) = filter (fun x => negb (in_set set x)) s.
Proof. unfold tokenize_spec. rewrite tokens_concat. reflexivity. Qed.
