(* Str/Model.v — the character/compare/find primitives of include/st_string_priv.h and the
   static ST::buffer<T>::compare, transcribed.  Shared by C06 C07 C08 C09.
   A string's content is `s : list N` (units); c_str() is s ++ [0]; pointers are nat offsets
   into the array they point into; every read goes through `at_` / `cstr_at` (Fault OOBRead
   beyond the array, the terminator being part of a c_str array).                         *)
From Coq Require Import NArith ZArith List Bool Lia.
From ST Require Import Base.Outcome Base.Units.
Import ListNotations.
Local Open Scope N_scope.
Local Open Scope outcome_scope.

Inductive case_sens := CaseSensitive | CaseInsensitive.

(* cl_fast_lower / cl_fast_upper on the unsigned value of the char *)
Definition cl_fast_lower (c : N) : N := if (65 <=? c) && (c <=? 90) then c + 32 else c.
Definition cl_fast_upper (c : N) : N := if (97 <=? c) && (c <=? 122) then c - 32 else c.

(* a C array of units, readable exactly on [0, length) *)
Definition at_ (a : list N) (i : nat) : outcome N := of_opt OOBRead (nth_error a i).
(* c_str() of a string/buffer with content s: terminator readable *)
Definition cstr (s : list N) : list N := s ++ [0].

(* std::char_traits<char>::compare(l + lo, r + ro, n)  (memcmp: unsigned units) -> -1/0/1 *)
Fixpoint traits_compare (l : list N) (lo : nat) (r : list N) (ro : nat) (n : nat) : outcome Z :=
  match n with
  | O => Ok 0%Z
  | S n' =>
      a <- at_ l lo ;; b <- at_ r ro ;;
      if a <? b then Ok (-1)%Z else if b <? a then Ok 1%Z
      else traits_compare l (S lo) r (S ro) n'
  end.

(* _ST_PRIVATE::compare_ci(left, right, fsize): difference of the folded SIGNED chars *)
Fixpoint compare_ci_n (l : list N) (lo : nat) (r : list N) (ro : nat) (n : nat) : outcome Z :=
  match n with
  | O => Ok 0%Z
  | S n' =>
      a <- at_ l lo ;; b <- at_ r ro ;;
      let cl := cl_fast_lower a in let cr := cl_fast_lower b in
      if negb (cl =? cr) then Ok (schar cl - schar cr)%Z
      else compare_ci_n l (S lo) r (S ro) n'
  end.

Definition compare_units (cs : case_sens) := match cs with CaseSensitive => traits_compare | CaseInsensitive => compare_ci_n end.

(* size tie-break of buffer<T>::compare / compare_ci after the fix: compares the sizes
   (lsize, rsize are size_t values, independent of the arrays' real lengths) *)
Definition size_tiebreak (lsize rsize : N) : Z :=
  if lsize <? rsize then (-1)%Z else if rsize <? lsize then 1%Z else 0%Z.

(* compare(left, lsize, right, rsize) *)
Definition compare4 (cs : case_sens) (l : list N) (lsize : N) (r : list N) (rsize : N) : outcome Z :=
  let cmplen := N.min lsize rsize in
  cmp <- compare_units cs l 0 r 0 (N.to_nat cmplen) ;;
  if negb (cmp =? 0)%Z then Ok cmp else Ok (size_tiebreak lsize rsize).

(* compare(left, lsize, right, rsize, maxlen) *)
Definition compare5 (cs : case_sens) (l : list N) (lsize : N) (r : list N) (rsize : N) (maxlen : N) : outcome Z :=
  compare4 cs l (N.min lsize maxlen) r (N.min rsize maxlen).

(* find_cs / find_ci (haystack + cp, size, ch): first offset in [cp, cp+size) *)
Fixpoint find_ch (cs : case_sens) (h : list N) (cp : nat) (size : nat) (ch : N) : outcome (option nat) :=
  match size with
  | O => Ok None
  | S size' =>
      c <- at_ h cp ;;
      let hit := match cs with
                 | CaseSensitive => c =? ch
                 | CaseInsensitive => cl_fast_lower c =? cl_fast_lower ch
                 end in
      if hit then Ok (Some cp) else find_ch cs h (S cp) size' ch
  end.

(* find_cs / find_ci (haystack + start, size, needle, needle_size): offset of the match.
   `needle` is the array the needle pointer points into (c_str of a string: content ++ [0]). *)
Fixpoint find_sub_loop (fuel : nat) (cs : case_sens) (h : list N) (cp ep : nat)
         (needle : list N) (nsize : nat) : outcome (option nat) :=
  match fuel with
  | O => Fault Hang
  | S f =>
      n0 <- at_ needle 0 ;;
      r <- find_ch cs h cp (ep - cp) n0 ;;
      match r with
      | None => Ok None
      | Some cp' =>
          if Nat.ltb ep (cp' + nsize) then Ok None
          else
            c <- compare_units cs h cp' needle 0 nsize ;;
            if (c =? 0)%Z then Ok (Some cp') else find_sub_loop f cs h (S cp') ep needle nsize
      end
  end.

Definition find_sub (cs : case_sens) (h : list N) (start size : nat) (needle : list N) (nsize : nat)
  : outcome (option nat) :=
  find_sub_loop (S (S size)) cs h start (start + size) needle nsize.
