(* Str/FindModel.v — every find / find_last / contains / starts_with / ends_with front end of
   st_string.h with its guards, on top of find_ch / find_sub of Str/Model.v.
   start / max / count are size_t values (N, any value below 2^64); N -> nat conversions happen
   only after the guards / the clamping, as in the code the pointer arithmetic does.
   A needle pointer is `cstr_arg` (None = nullptr, Some a = the array it points into).       *)
From Coq Require Import NArith ZArith List Bool Lia.
From ST Require Import Base.Outcome Base.Units Str.Model Str.CompareModel.
Import ListNotations.
Local Open Scope N_scope.
Local Open Scope outcome_scope.

(* `cp ? (cp - c_str()) : -1` *)
Definition ssize_of (o : option nat) : Z := match o with Some i => Z.of_nat i | None => (-1)%Z end.

(* ST_AUTO_SIZE *)
Definition auto_size : N := size_max.

(* string::_find(start, substr, count, cs): find_xx(c_str() + start, size() - start, substr, count) *)
Definition _find (cs : case_sens) (s : list N) (start : N) (needle : list N) (count : nat) : outcome Z :=
  r <- find_sub cs (cstr s) (N.to_nat start) (N.to_nat (sub64 (len s) start)) needle count ;;
  Ok (ssize_of r).

(* string::_find_last(max, substr, count, cs): repeated forward search, restarting at cp + 1 *)
Fixpoint find_last_loop (fuel : nat) (cs : case_sens) (h : list N) (start endp : nat)
         (needle : list N) (count : nat) (found : option nat) : outcome (option nat) :=
  match fuel with
  | O => Fault Hang
  | S f =>
      r <- find_sub cs h start (endp - start) needle count ;;
      match r with
      | None => Ok found
      | Some cp =>
          if Nat.leb endp cp then Ok found
          else find_last_loop f cs h (S cp) endp needle count (Some cp)
      end
  end.

Definition clamp_max (s : list N) (max : N) : nat := N.to_nat (if len s <? max then len s else max).

Definition _find_last (cs : case_sens) (s : list N) (max : N) (needle : list N) (count : nat) : outcome Z :=
  let endp := clamp_max s max in
  r <- find_last_loop (S endp) cs (cstr s) 0 endp needle count None ;;
  Ok (ssize_of r).

(* ---------------------------------------------------------------- find *)
(* find(size_t start, char ch, cs) *)
Definition find_char (cs : case_sens) (s : list N) (start : N) (ch : N) : outcome Z :=
  if len s <=? start then Ok (-1)%Z
  else r <- find_ch cs (cstr s) (N.to_nat start) (N.to_nat (sub64 (len s) start)) ch ;; Ok (ssize_of r).

(* find(size_t start, const char *substr, cs) *)
Definition find_z (cs : case_sens) (s : list N) (start : N) (z : cstr_arg) : outcome Z :=
  match z with
  | None => Ok (-1)%Z
  | Some a =>
      c0 <- at_ a 0 ;;
      if c0 =? 0 then Ok (-1)%Z
      else if len s <=? start then Ok (-1)%Z
      else sublen <- strlen a ;; _find cs s start a sublen
  end.

(* find(size_t start, const char *substr, size_t count, cs) *)
Definition find_pn (cs : case_sens) (s : list N) (start : N) (p : cstr_arg) (count : N) : outcome Z :=
  match p with
  | None => Ok (-1)%Z
  | Some a =>
      if count =? 0 then Ok (-1)%Z
      else if len s <=? start then Ok (-1)%Z
      else _find cs s start a (N.to_nat count)
  end.

(* find(size_t start, const string &substr, cs) *)
Definition find_s (cs : case_sens) (s : list N) (start : N) (sub : list N) : outcome Z :=
  find_pn cs s start (Some (cstr sub)) (len sub).

(* the overloads without a start position pass 0 *)
Definition find_char0 cs s ch := find_char cs s 0 ch.
Definition find_z0 cs s z := find_z cs s 0 z.
Definition find_pn0 cs s p count := find_pn cs s 0 p count.
Definition find_s0 cs s sub := find_s cs s 0 sub.

(* ---------------------------------------------------------------- find_last *)
Fixpoint find_last_ch_loop (fuel : nat) (cs : case_sens) (h : list N) (start endp : nat)
         (ch : N) (found : option nat) : outcome (option nat) :=
  match fuel with
  | O => Fault Hang
  | S f =>
      r <- find_ch cs h start (endp - start) ch ;;
      match r with
      | None => Ok found
      | Some cp =>
          if Nat.leb endp cp then Ok found
          else find_last_ch_loop f cs h (S cp) endp ch (Some cp)
      end
  end.

(* find_last(size_t max, char ch, cs) *)
Definition find_last_char (cs : case_sens) (s : list N) (max : N) (ch : N) : outcome Z :=
  if len s =? 0 then Ok (-1)%Z
  else let endp := clamp_max s max in
       r <- find_last_ch_loop (S endp) cs (cstr s) 0 endp ch None ;; Ok (ssize_of r).

(* find_last(size_t max, const char *substr, cs) *)
Definition find_last_z (cs : case_sens) (s : list N) (max : N) (z : cstr_arg) : outcome Z :=
  match z with
  | None => Ok (-1)%Z
  | Some a =>
      c0 <- at_ a 0 ;;
      if c0 =? 0 then Ok (-1)%Z
      else if len s =? 0 then Ok (-1)%Z
      else sublen <- strlen a ;; _find_last cs s max a sublen
  end.

(* find_last(size_t max, const char *substr, size_t count, cs) *)
Definition find_last_pn (cs : case_sens) (s : list N) (max : N) (p : cstr_arg) (count : N) : outcome Z :=
  match p with
  | None => Ok (-1)%Z
  | Some a =>
      if count =? 0 then Ok (-1)%Z
      else if len s =? 0 then Ok (-1)%Z
      else _find_last cs s max a (N.to_nat count)
  end.

(* find_last(size_t max, const string &substr, cs) *)
Definition find_last_s (cs : case_sens) (s : list N) (max : N) (sub : list N) : outcome Z :=
  find_last_pn cs s max (Some (cstr sub)) (len sub).

Definition find_last_char0 cs s ch := find_last_char cs s auto_size ch.
Definition find_last_z0 cs s z := find_last_z cs s auto_size z.
Definition find_last_pn0 cs s p count := find_last_pn cs s auto_size p count.
Definition find_last_s0 cs s sub := find_last_s cs s auto_size sub.

(* ---------------------------------------------------------------- contains *)
Definition contains_char cs s ch : outcome bool := r <- find_char0 cs s ch ;; Ok (0 <=? r)%Z.
Definition contains_z cs s z : outcome bool := r <- find_z0 cs s z ;; Ok (0 <=? r)%Z.
Definition contains_pn cs s p count : outcome bool := r <- find_pn0 cs s p count ;; Ok (0 <=? r)%Z.
Definition contains_s cs s sub : outcome bool := r <- find_s0 cs s sub ;; Ok (0 <=? r)%Z.

(* ---------------------------------------------------------------- starts_with / ends_with *)
Definition starts_with_s (cs : case_sens) (s p : list N) : outcome bool :=
  if len s <? len p then Ok false
  else c <- str_compare_n cs s p (len p) ;; Ok (c =? 0)%Z.

Definition starts_with_z (cs : case_sens) (s : list N) (z : cstr_arg) : outcome bool :=
  count <- cstr_len z ;;
  if len s <? count then Ok false
  else c <- str_compare_n_z cs s z count ;; Ok (c =? 0)%Z.

(* compare_xx(c_str() + start, suffix.c_str(), suffix.size()) == 0 *)
Definition ends_with_s (cs : case_sens) (s p : list N) : outcome bool :=
  if len s <? len p then Ok false
  else c <- compare_units cs (cstr s) (N.to_nat (len s - len p)) (cstr p) 0 (length p) ;; Ok (c =? 0)%Z.

Definition ends_with_z (cs : case_sens) (s : list N) (z : cstr_arg) : outcome bool :=
  count <- cstr_len z ;;
  if len s <? count then Ok false
  else c <- compare_units cs (cstr s) (N.to_nat (len s - count)) (cstr_data z) 0 (N.to_nat count) ;;
       Ok (c =? 0)%Z.
