(* Str/SliceProofsFind.v — the search primitives of Str/Model.v (find_ch, compare_units,
   find_sub_loop) and the find / find_last front ends of SliceModel.v return the least / greatest
   occurrence of SliceSpec.v.  Everything is phrased on a `window` [cp, ep) of the haystack array. *)
From Coq Require Import NArith ZArith List Bool Lia.
From ST Require Import Base.Outcome Base.Units Str.Model Str.SliceSpec Str.SliceModel Str.SliceProofsBase.
Import ListNotations.
Local Open Scope N_scope.

Definition ci_of (cs : case_sens) : bool :=
  match cs with CaseSensitive => false | CaseInsensitive => true end.

Definition window (h : list N) (cp ep : nat) : list N := firstn (ep - cp) (skipn cp h).

Lemma window_nil h cp ep : (ep <= cp)%nat -> window h cp ep = [].
Proof. intros H. unfold window. replace (ep - cp)%nat with O by lia. reflexivity. Qed.

Lemma window_cons h cp ep : (cp < ep)%nat -> (ep <= length h)%nat ->
  exists x, at_ h cp = Ok x /\ window h cp ep = x :: window h (S cp) ep.
Proof.
  intros H1 H2. destruct (at_skipn h cp) as [x [E1 E2]]; [lia|].
  exists x. split; [exact E1|]. unfold window. rewrite E2.
  replace (ep - cp)%nat with (S (ep - S cp)) by lia. reflexivity.
Qed.

Lemma window_length h cp ep : (ep <= length h)%nat -> length (window h cp ep) = (ep - cp)%nat.
Proof. intros H. unfold window. rewrite firstn_length, skipn_length. lia. Qed.

Lemma window_skipn h cp ep k : skipn k (window h cp ep) = window h (cp + k) ep.
Proof.
  unfold window. rewrite skipn_firstn_comm, skipn_skipn'.
  replace (ep - cp - k)%nat with (ep - (cp + k))%nat by lia. reflexivity.
Qed.

Lemma window_full s : window (cstr s) 0 (length s) = s.
Proof.
  unfold window, cstr. rewrite Nat.sub_0_r. simpl skipn.
  rewrite firstn_app, Nat.sub_diag, firstn_all. simpl. apply app_nil_r.
Qed.

(* ---- folding ---- *)
Lemma fold_c_lower c : fold_c true c = cl_fast_lower c.
Proof. unfold fold_c, cl_fast_lower. cbn [andb]. reflexivity. Qed.
Lemma fold_c_id c : fold_c false c = c.
Proof. reflexivity. Qed.

Definition eqf (ci : bool) (ch c : N) : bool := fold_c ci ch =? fold_c ci c.

Fixpoint index_where (p : N -> bool) (l : list N) : option nat :=
  match l with
  | [] => None
  | x :: t => if p x then Some O else option_map S (index_where p t)
  end.

Lemma option_map_add0 (o : option nat) : option_map (Nat.add 0) o = o.
Proof. destruct o; reflexivity. Qed.
Lemma option_map_S_add k (o : option nat) : option_map S (option_map (Nat.add k) o) = option_map (Nat.add (S k)) o.
Proof. destruct o; reflexivity. Qed.
Lemma option_map_add_S k (o : option nat) : option_map (Nat.add k) (option_map S o) = option_map (Nat.add (S k)) o.
Proof. destruct o; simpl; [f_equal; lia|reflexivity]. Qed.

(* ---- find_ch ---- *)
Lemma find_ch_hit cs c ch :
  match cs with
  | CaseSensitive => c =? ch
  | CaseInsensitive => cl_fast_lower c =? cl_fast_lower ch
  end = eqf (ci_of cs) ch c.
Proof.
  unfold eqf, fold_c, cl_fast_lower. destruct cs; cbn [ci_of andb]; apply N.eqb_sym.
Qed.

Lemma find_ch_spec cs h ch : forall size cp, (cp + size <= length h)%nat ->
  find_ch cs h cp size ch =
  Ok (option_map (Nat.add cp) (index_where (eqf (ci_of cs) ch) (window h cp (cp + size)))).
Proof.
  induction size as [|sz IH]; intros cp H.
  - rewrite window_nil by lia. reflexivity.
  - cbn [find_ch]. destruct (window_cons h cp (cp + S sz)) as [x [E1 E2]]; try lia.
    rewrite E1, E2. cbn [bind index_where]. rewrite find_ch_hit.
    destruct (eqf (ci_of cs) ch x) eqn:Eh.
    + simpl. f_equal. f_equal. lia.
    + rewrite IH by lia. replace (S cp + sz)%nat with (cp + S sz)%nat by lia.
      rewrite option_map_add_S. reflexivity.
Qed.

(* ---- prefix_match facts ---- *)
Lemma prefix_match_short ci : forall sep l, (length l < length sep)%nat -> prefix_match ci sep l = false.
Proof.
  induction sep as [|a sep IH]; intros l H; simpl in H; [lia|].
  destruct l as [|b l]; [reflexivity|]. simpl in *. rewrite IH by lia. apply andb_false_r.
Qed.

Lemma prefix_match_firstn ci : forall sep m l, (length sep <= m)%nat ->
  prefix_match ci sep (firstn m l) = prefix_match ci sep l.
Proof.
  induction sep as [|a sep IH]; intros m l H; [reflexivity|].
  simpl in H. destruct m as [|m]; [lia|]. destruct l as [|b l]; [reflexivity|].
  simpl. rewrite IH by lia. reflexivity.
Qed.

Lemma prefix_match_true ci : forall sep l, prefix_match ci sep l = true <->
  (length sep <= length l)%nat /\ map (fold_c ci) (firstn (length sep) l) = map (fold_c ci) sep.
Proof.
  induction sep as [|a sep IH]; intros l.
  - simpl. split; [intros _; split; [lia|reflexivity]|reflexivity].
  - destruct l as [|b l]; simpl.
    + split; [discriminate|intros [H _]; lia].
    + rewrite andb_true_iff, IH, N.eqb_eq. split.
      * intros [E [H1 H2]]. split; [lia|]. rewrite H2. f_equal. symmetry. exact E.
      * intros [H1 H2]. inversion H2. repeat split; try lia; congruence.
Qed.

Lemma first_occ_short ci sep : forall l, (length l < length sep)%nat -> first_occ_ne ci sep l = None.
Proof.
  induction l as [|x t IH]; intros H.
  - simpl. rewrite prefix_match_short by exact H. reflexivity.
  - cbn [first_occ_ne]. rewrite prefix_match_short by exact H.
    rewrite IH by (simpl in H; lia). reflexivity.
Qed.

Lemma first_occ_no_first ci n0 sep' : forall l,
  index_where (eqf ci n0) l = None -> first_occ_ne ci (n0 :: sep') l = None.
Proof.
  induction l as [|x t IH]; intros H; [reflexivity|].
  cbn [index_where] in H. cbn [first_occ_ne prefix_match]. unfold eqf in H.
  destruct (fold_c ci n0 =? fold_c ci x) eqn:E; [discriminate|].
  simpl andb. cbv iota.
  destruct (index_where _ t) eqn:Et; [discriminate|]. rewrite IH by reflexivity. reflexivity.
Qed.

Lemma first_occ_skip ci n0 sep' : forall l k,
  index_where (eqf ci n0) l = Some k ->
  first_occ_ne ci (n0 :: sep') l = option_map (Nat.add k) (first_occ_ne ci (n0 :: sep') (skipn k l)).
Proof.
  induction l as [|x t IH]; intros k H; [discriminate|].
  cbn [index_where] in H. unfold eqf in H.
  destruct (fold_c ci n0 =? fold_c ci x) eqn:E.
  - inversion H; subst. simpl skipn. rewrite option_map_add0. reflexivity.
  - destruct (index_where _ t) as [k'|] eqn:Et; [|discriminate]. inversion H; subst.
    cbn [first_occ_ne prefix_match skipn]. fold (eqf ci n0 x). unfold eqf. rewrite E. simpl andb. cbv iota.
    rewrite (IH k' eq_refl). apply option_map_S_add.
Qed.

Lemma index_where_bound p : forall l k, index_where p l = Some k -> (k < length l)%nat.
Proof.
  induction l as [|x t IH]; intros k H; [discriminate|]. simpl in H.
  destruct (p x); [inversion H; simpl; lia|].
  destruct (index_where p t) eqn:E; [|discriminate]. inversion H; subst. simpl.
  specialize (IH _ eq_refl). lia.
Qed.

(* ---- compare_units = 0 iff the needle is a folded prefix ---- *)
Lemma fold_lt256 ci c : c < 256 -> fold_c ci c < 256.
Proof.
  intros H. unfold fold_c. destruct ci; simpl; [|exact H].
  destruct (65 <=? c) eqn:E1; simpl; [|exact H].
  destruct (c <=? 90) eqn:E2; [|exact H]. apply N.leb_le in E2. lia.
Qed.

Lemma schar_inj a b : a < 256 -> b < 256 -> schar a = schar b -> a = b.
Proof.
  unfold schar. intros Ha Hb.
  destruct (N.ltb_spec a 128); destruct (N.ltb_spec b 128); lia.
Qed.

Lemma nth_error_bytes l i x : bytes_ok l = true -> nth_error l i = Some x -> x < 256.
Proof.
  intros Hb Hn. unfold bytes_ok in Hb. rewrite all_lt_Forall, Forall_forall in Hb.
  apply Hb. eapply nth_error_In. exact Hn.
Qed.

Lemma compare_units_zero cs : forall n l lo r ro,
  bytes_ok l = true -> bytes_ok r = true ->
  (lo + n <= length l)%nat -> (ro + n <= length r)%nat ->
  exists c, compare_units cs l lo r ro n = Ok c /\
            (c =? 0)%Z = prefix_match (ci_of cs) (firstn n (skipn ro r)) (skipn lo l).
Proof.
  induction n as [|n IH]; intros l lo r ro Bl Br Hl Hr.
  - exists 0%Z. destruct cs; split; reflexivity.
  - destruct (at_skipn l lo) as [a [Ea Sa]]; [lia|].
    destruct (at_skipn r ro) as [b [Eb Sb]]; [lia|].
    destruct (IH l (S lo) r (S ro) Bl Br) as [c [Ec Pc]]; [lia|lia|].
    rewrite Sa, Sb. cbn [firstn prefix_match].
    destruct cs; cbn [compare_units ci_of] in *.
    + cbn [traits_compare]. rewrite Ea, Eb. cbn [bind]. rewrite !fold_c_id.
      destruct (N.ltb_spec a b) as [H|H].
      * exists (-1)%Z. split; [reflexivity|]. destruct (N.eqb_spec b a); [lia|reflexivity].
      * destruct (N.ltb_spec b a) as [H'|H'].
        -- exists 1%Z. split; [reflexivity|]. destruct (N.eqb_spec b a); [lia|reflexivity].
        -- exists c. split; [exact Ec|]. rewrite Pc.
           destruct (N.eqb_spec b a); [reflexivity|lia].
    + cbn [compare_ci_n]. rewrite Ea, Eb. cbn [bind]. cbv zeta.
      rewrite <- !(fold_c_lower a), <- !(fold_c_lower b).
      apply at_ok_inv in Ea. apply at_ok_inv in Eb. destruct Ea as [_ Ea]. destruct Eb as [_ Eb].
      pose proof (fold_lt256 true a (nth_error_bytes _ _ _ Bl Ea)) as Ha.
      pose proof (fold_lt256 true b (nth_error_bytes _ _ _ Br Eb)) as Hb.
      destruct (N.eqb_spec (fold_c true a) (fold_c true b)) as [E|E]; simpl negb; cbv iota.
      * exists c. split; [exact Ec|]. rewrite Pc.
        destruct (N.eqb_spec (fold_c true b) (fold_c true a)); [reflexivity|congruence].
      * exists (schar (fold_c true a) - schar (fold_c true b))%Z. split; [reflexivity|].
        destruct (N.eqb_spec (fold_c true b) (fold_c true a)); [congruence|]. simpl.
        apply Z.eqb_neq. intros Hz. apply E. apply schar_inj; try assumption. lia.
Qed.

(* ---- find_sub_loop ---- *)
Lemma find_sub_loop_spec cs h needle sep : forall fuel cp ep,
  sep <> [] -> firstn (length sep) needle = sep ->
  bytes_ok h = true -> bytes_ok needle = true ->
  (ep <= length h)%nat -> (ep - cp < fuel)%nat ->
  find_sub_loop fuel cs h cp ep needle (length sep) =
  Ok (option_map (Nat.add cp) (first_occ_ne (ci_of cs) sep (window h cp ep))).
Proof.
  induction fuel as [|f IH]; intros cp ep Hne Hsep Bh Bn Hep Hfuel; [lia|].
  destruct sep as [|n0 sep'] eqn:Esep; [congruence|]. rewrite <- Esep in *.
  assert (Hlen : (length sep <= length needle)%nat).
  { rewrite <- Hsep. rewrite firstn_length. lia. }
  assert (Hn0 : at_ needle 0 = Ok n0).
  { destruct needle as [|y t]; [rewrite Esep in Hlen; simpl in Hlen; lia|].
    rewrite Esep in Hsep. simpl in Hsep. inversion Hsep. reflexivity. }
  cbn [find_sub_loop]. rewrite Hn0. cbn [bind].
  destruct (Nat.le_gt_cases ep cp) as [Hge|Hlt].
  - (* empty window *)
    replace (ep - cp)%nat with O by lia. cbn [find_ch bind].
    rewrite window_nil by lia. rewrite first_occ_short by (rewrite Esep; simpl; lia). reflexivity.
  - rewrite find_ch_spec by lia. replace (cp + (ep - cp))%nat with ep by lia. cbn [bind].
    destruct (index_where (eqf (ci_of cs) n0) (window h cp ep)) as [k|] eqn:Ek.
    + simpl option_map.
      pose proof (index_where_bound _ _ _ Ek) as Hk. rewrite window_length in Hk by lia.
      pose proof (first_occ_skip (ci_of cs) n0 sep' _ _ Ek) as Hskip. rewrite <- Esep in Hskip.
      rewrite Hskip. clear Hskip.
      rewrite window_skipn.
      destruct (Nat.ltb ep (cp + k + length sep)) eqn:Efit.
      * apply Nat.ltb_lt in Efit.
        rewrite first_occ_short by (rewrite window_length by lia; lia). reflexivity.
      * apply Nat.ltb_ge in Efit.
        destruct (compare_units_zero cs (length sep) h (cp + k) needle 0 Bh Bn) as [c [Ec Pc]]; [lia|lia|].
        rewrite Ec. cbn [bind]. rewrite Pc. simpl skipn. rewrite Hsep.
        destruct (window_cons h (cp + k) ep) as [x [Ex Wx]]; [lia|lia|].
        assert (Hpm : prefix_match (ci_of cs) sep (window h (cp + k) ep) = prefix_match (ci_of cs) sep (skipn (cp + k) h)).
        { unfold window. apply prefix_match_firstn. lia. }
        rewrite Wx in *. cbn [first_occ_ne]. rewrite Hpm.
        destruct (prefix_match (ci_of cs) sep (skipn (cp + k) h)) eqn:Em.
        -- simpl. f_equal. f_equal. lia.
        -- rewrite IH; try assumption; [|lia].
           destruct (first_occ_ne _ _ _); simpl; [f_equal; f_equal; lia|reflexivity].
    + pose proof (first_occ_no_first (ci_of cs) n0 sep' _ Ek) as Hno. rewrite <- Esep in Hno.
      rewrite Hno. reflexivity.
Qed.
