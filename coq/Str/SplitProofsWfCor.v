(* Str/SplitProofsWfCor.v — on well-formed text the validation steps are the identity:
   the re-validating split overload never throws and agrees with the ST::string overload,
   replace returns exactly replace_spec.                                                   *)
From Coq Require Import NArith ZArith List Bool Lia.
From ST Require Import Base.Outcome Base.Units Gen.Consts Str.Model Str.SliceSpec Str.SliceModel Str.SplitSpec Str.SplitModel
     Str.SliceProofsBase Str.SliceProofsFind Str.SplitProofs Str.SplitProofsReplace Str.SplitProofsWf.
Import ListNotations.
Local Open Scope N_scope.

Theorem split_z_wf cs s sep max :
  bytes_ok s = true -> bytes_ok sep = true -> ~ In 0 sep -> size s < huge_buffer_size ->
  sep <> [] -> wf8s s = true -> wf8s sep = true ->
  split_z cs s (Some (sep ++ [0])) max = Ok (split_spec (ci_of cs) s sep max).
Proof.
  intros Bs Bp H0 Hh Hne Ws Wp.
  rewrite split_overloads_z_s; try assumption.
  - apply split_s_spec; assumption.
  - right. apply pieces_wf; assumption.
Qed.

Theorem replace_model_wf cs s from to :
  bytes_ok s = true -> bytes_ok from = true -> bytes_ok to = true -> fits s ->
  size to < two64 -> size from < two64 -> fits (replace_spec (ci_of cs) s from to) ->
  wf8s s = true -> wf8s from = true -> wf8s to = true ->
  replace_model cs s from to = Ok (replace_spec (ci_of cs) s from to).
Proof.
  intros Bs Bf Bt Hfs Ht Hf Hfit Ws Wf Wt.
  destruct s as [|x s'] eqn:Es.
  - rewrite replace_empty by (left; reflexivity). reflexivity.
  - destruct from as [|y f'] eqn:Ef.
    + rewrite replace_empty by (right; reflexivity). rewrite replace_spec_empty. reflexivity.
    + rewrite replace_model_spec; try assumption; try discriminate.
      rewrite replace_wf by assumption. reflexivity.
Qed.
