(* Str/FindSpec.v — what C07 says, with no code structure.
   occurs_at h n i : the needle n lies in h at offset i, entirely inside h.
   find_spec       : the least such i >= start; none if there is none, n is empty or start is at
                     or past the end.
   find_last_spec  : the greatest such i with the occurrence lying entirely before min(max,size).
   The case-insensitive variants are the same statements about the case-folded texts.        *)
From Coq Require Import NArith ZArith List Bool Lia.
From ST Require Import Base.Units Str.CompareSpec.
Import ListNotations.
Local Open Scope N_scope.

Definition occurs_at (h n : list N) (i : nat) : Prop :=
  (i + length n <= length h)%nat /\ firstn (length n) (skipn i h) = n.

Definition occurs_atb (h n : list N) (i : nat) : bool :=
  (i + length n <=? length h)%nat && list_eqb (firstn (length n) (skipn i h)) n.

(* ci = true: compare modulo ASCII case *)
Definition case_map (ci : bool) (s : list N) : list N := if ci then map fold s else s.

(* least i in [i0, i0+cnt) with P i *)
Fixpoint first_from (P : nat -> bool) (i cnt : nat) : option nat :=
  match cnt with
  | O => None
  | S c => if P i then Some i else first_from P (S i) c
  end.

(* greatest i < cnt with P i *)
Fixpoint last_below (P : nat -> bool) (cnt : nat) : option nat :=
  match cnt with
  | O => None
  | S c => if P c then Some c else last_below P c
  end.

Definition find_spec (ci : bool) (h n : list N) (start : N) : option nat :=
  match n with
  | [] => None
  | _ =>
      if N.of_nat (length h) <=? start then None
      else let s := N.to_nat start in
           first_from (occurs_atb (case_map ci h) (case_map ci n)) s (length h - s)
  end.

Definition find_last_spec (ci : bool) (h n : list N) (max : N) : option nat :=
  match n with
  | [] => None
  | _ =>
      let e := N.to_nat (N.min max (N.of_nat (length h))) in
      last_below (fun i => (i + length n <=? e)%nat && occurs_atb (case_map ci h) (case_map ci n) i) e
  end.

(* ST_ssize_t result: the index, or -1 *)
Definition idx (o : option nat) : Z := match o with Some i => Z.of_nat i | None => (-1)%Z end.

Definition contains_spec (ci : bool) (h n : list N) : bool :=
  match find_spec ci h n 0 with Some _ => true | None => false end.

Definition starts_with_spec (ci : bool) (s p : list N) : bool :=
  list_eqb (firstn (length p) (case_map ci s)) (case_map ci p).

Definition ends_with_spec (ci : bool) (s p : list N) : bool :=
  (length p <=? length s)%nat && list_eqb (skipn (length s - length p) (case_map ci s)) (case_map ci p).
