(* Str/CompareSpec.v — what C06 says, with no code structure.
   Strings are `list N` (units).  `lex` is the lexicographic order of the unsigned unit values,
   a proper prefix sorting first.  The case-insensitive comparison is only required to be a total
   preorder whose equivalence is equality after folding A-Z; `lex_by` with any key gives such a
   preorder and the model is shown to be the one with key = (signed char) (fold c).            *)
From Coq Require Import NArith ZArith List Bool Lia.
From ST Require Import Base.Units.
Import ListNotations.
Local Open Scope N_scope.

(* lexicographic comparison of the keys of the units *)
Fixpoint lex_by (key : N -> Z) (a b : list N) : comparison :=
  match a, b with
  | [], [] => Eq
  | [], _ :: _ => Lt
  | _ :: _, [] => Gt
  | x :: a', y :: b' =>
      match (key x ?= key y)%Z with
      | Eq => lex_by key a' b'
      | c => c
      end
  end.

(* C06: bytewise (unsigned) lexicographic order *)
Definition lex : list N -> list N -> comparison := lex_by Z.of_N.

(* ASCII case folding A-Z -> a-z, and the two case maps *)
Definition fold (c : N) : N := if (65 <=? c) && (c <=? 90) then c + 32 else c.
Definition unfold_upper (c : N) : N := if (97 <=? c) && (c <=? 122) then c - 32 else c.
Definition ci_equiv (a b : list N) : Prop := map fold a = map fold b.

(* the order the case-insensitive comparison happens to realise: signed chars after folding *)
Definition ci_key (c : N) : Z := schar (fold c).
Definition lex_ci : list N -> list N -> comparison := lex_by ci_key.

(* sign of a C comparison result *)
Definition sgn (z : Z) : comparison := (z ?= 0)%Z.

(* the static pointer+length compare takes sizes that are independent of the data:
   the common prefix (min of the sizes) decides, then the SIZES decide *)
Definition lex_sized (key : N -> Z) (l : list N) (lsize : N) (r : list N) (rsize : N) : comparison :=
  let m := N.to_nat (N.min lsize rsize) in
  match lex_by key (firstn m l) (firstn m r) with
  | Eq => lsize ?= rsize
  | c => c
  end.

(* a C string argument: the units up to (not including) the first NUL *)
Fixpoint upto_nul (z : list N) : list N :=
  match z with
  | [] => []
  | c :: t => if c =? 0 then [] else c :: upto_nul t
  end.
Definition nul_free (s : list N) : Prop := ~ In 0 s.

(* executable forms for the spec oracle *)
Definition comparison_to_Z (c : comparison) : Z := match c with Lt => (-1)%Z | Eq => 0%Z | Gt => 1%Z end.
Fixpoint list_eqb (a b : list N) : bool :=
  match a, b with
  | [], [] => true
  | x :: a', y :: b' => (x =? y) && list_eqb a' b'
  | _, _ => false
  end.
Definition ci_equivb (a b : list N) : bool := list_eqb (map fold a) (map fold b).
