(* Str/SliceSpec.v — what C08 says, with no code structure.
   A string is `list N`.  Positions and counts come from the integer types of the API:
   start : Z (any value of ssize_t), count / n : N (any value of size_t).  Everything is
   clamped in Z FIRST and only then turned into a nat, so the definitions run on SIZE_MAX.   *)
From Coq Require Import NArith ZArith List Bool Lia.
Import ListNotations.
Local Open Scope N_scope.

(* ---- substr / left / right -------------------------------------------------------- *)
(* begin of the slice: a negative start counts from the end and is clamped to 0; a start
   beyond the end gives the empty slice (begin = size). *)
Definition slice_begin (n start : Z) : Z :=
  if (start <? 0)%Z then Z.max 0 (start + n) else Z.min start n.
Definition slice_end (n b : Z) (count : N) : Z := Z.min n (b + Z.of_N count).

Definition substr_spec (s : list N) (start : Z) (count : N) : list N :=
  let n := Z.of_nat (length s) in
  let b := slice_begin n start in
  let e := slice_end n b count in
  firstn (Z.to_nat (e - b)) (skipn (Z.to_nat b) s).

Definition min_len (s : list N) (n : N) : nat := N.to_nat (N.min n (N.of_nat (length s))).
Definition left_spec (s : list N) (n : N) : list N := firstn (min_len s n) s.
Definition right_spec (s : list N) (n : N) : list N := skipn (length s - min_len s n) s.

(* ---- trim --------------------------------------------------------------------------- *)
(* a C string argument denotes the units before its first NUL *)
Fixpoint c_content (z : list N) : list N :=
  match z with
  | [] => []
  | c :: t => if c =? 0 then [] else c :: c_content t
  end.

Definition in_set (set : list N) (c : N) : bool := existsb (N.eqb c) set.

Fixpoint drop_while (p : N -> bool) (l : list N) : list N :=
  match l with
  | [] => []
  | x :: t => if p x then drop_while p t else l
  end.

Definition trim_left_spec (s set : list N) : list N := drop_while (in_set set) s.
Definition trim_right_spec (s set : list N) : list N := rev (drop_while (in_set set) (rev s)).
Definition trim_spec (s set : list N) : list N := trim_right_spec (trim_left_spec s set) set.

(* ---- occurrences ---------------------------------------------------------------------- *)
(* ASCII-only case folding; ci = true is case_insensitive *)
Definition fold_c (ci : bool) (c : N) : N :=
  if ci && (65 <=? c) && (c <=? 90) then c + 32 else c.

(* sep is a prefix of h (after folding) *)
Fixpoint prefix_match (ci : bool) (sep h : list N) : bool :=
  match sep, h with
  | [], _ => true
  | _ :: _, [] => false
  | a :: sep', b :: h' => (fold_c ci a =? fold_c ci b) && prefix_match ci sep' h'
  end.

(* the occurrence of sep at position i of h, as a proposition *)
Definition occurs_at (ci : bool) (h sep : list N) (i : nat) : Prop :=
  (i + length sep <= length h)%nat /\
  map (fold_c ci) (firstn (length sep) (skipn i h)) = map (fold_c ci) sep.

(* least / greatest position of an occurrence; an empty separator never occurs *)
Fixpoint first_occ_ne (ci : bool) (sep h : list N) : option nat :=
  if prefix_match ci sep h then Some O
  else match h with
       | [] => None
       | _ :: t => option_map S (first_occ_ne ci sep t)
       end.
Fixpoint last_occ_ne (ci : bool) (sep h : list N) : option nat :=
  match h with
  | [] => if prefix_match ci sep h then Some O else None
  | _ :: t => match last_occ_ne ci sep t with
              | Some i => Some (S i)
              | None => if prefix_match ci sep h then Some O else None
              end
  end.
Definition is_nil {A} (l : list A) : bool := match l with [] => true | _ => false end.
Definition first_occ (ci : bool) (sep h : list N) : option nat :=
  if is_nil sep then None else first_occ_ne ci sep h.
Definition last_occ (ci : bool) (sep h : list N) : option nat :=
  if is_nil sep then None else last_occ_ne ci sep h.

(* ---- before / after ------------------------------------------------------------------- *)
Definition before_first_spec (ci : bool) (h sep : list N) : list N :=
  match first_occ ci sep h with Some i => firstn i h | None => h end.
Definition after_first_spec (ci : bool) (h sep : list N) : list N :=
  match first_occ ci sep h with Some i => skipn (i + length sep) h | None => [] end.
Definition before_last_spec (ci : bool) (h sep : list N) : list N :=
  match last_occ ci sep h with Some i => firstn i h | None => [] end.
Definition after_last_spec (ci : bool) (h sep : list N) : list N :=
  match last_occ ci sep h with Some i => skipn (i + length sep) h | None => h end.

(* the bytes of h that the occurrence at i covers (they equal sep up to case) *)
Definition occurrence (h sep : list N) (i : nat) : list N := firstn (length sep) (skipn i h).
