(* Str/CompareProofs.v — the comparison models refine Str/CompareSpec.v for all inputs. *)
From Coq Require Import NArith ZArith List Bool Lia.
From ST Require Import Base.Outcome Base.Units Base.Sweep Gen.Consts Str.Model Str.CompareSpec Str.CompareModel.
Import ListNotations.
Local Open Scope N_scope.

(* ------------------------------------------------------------------ lexicographic order on keys *)
Fixpoint lexZ (a b : list Z) : comparison :=
  match a, b with
  | [], [] => Eq
  | [], _ :: _ => Lt
  | _ :: _, [] => Gt
  | x :: a', y :: b' => match (x ?= y)%Z with Eq => lexZ a' b' | c => c end
  end.

Lemma lex_by_lexZ key a b : lex_by key a b = lexZ (map key a) (map key b).
Proof.
  revert b; induction a as [|x a IH]; intros [|y b]; cbn [lex_by lexZ map]; try reflexivity.
  rewrite IH. reflexivity.
Qed.

Lemma lexZ_eq a b : lexZ a b = Eq <-> a = b.
Proof.
  revert b; induction a as [|x a IH]; intros [|y b]; cbn [lexZ]; split; intros H; try reflexivity; try discriminate.
  - destruct (Z.compare_spec x y) as [E|E|E]; try discriminate. subst. f_equal. apply IH. exact H.
  - inversion H; subst. rewrite Z.compare_refl. apply IH. reflexivity.
Qed.

Lemma lexZ_antisym a b : lexZ b a = CompOpp (lexZ a b).
Proof.
  revert b; induction a as [|x a IH]; intros [|y b]; cbn [lexZ]; try reflexivity.
  rewrite (Z.compare_antisym x y). destruct (x ?= y)%Z; cbn [CompOpp]; try reflexivity. apply IH.
Qed.

Lemma lexZ_trans a b c x : lexZ a b = x -> lexZ b c = x -> lexZ a c = x.
Proof.
  revert b c; induction a as [|p a IH]; intros [|q b] [|r c]; cbn [lexZ]; intros H1 H2; try congruence.
  destruct (Z.compare_spec p q) as [E1|E1|E1]; destruct (Z.compare_spec q r) as [E2|E2|E2];
    destruct (Z.compare_spec p r) as [E3|E3|E3]; subst; try lia; try congruence.
  eapply IH; eauto.
Qed.

Lemma lex_by_eq_iff key a b : lex_by key a b = Eq <-> map key a = map key b.
Proof. rewrite lex_by_lexZ. apply lexZ_eq. Qed.

Lemma lex_by_antisym key a b : lex_by key b a = CompOpp (lex_by key a b).
Proof. rewrite !lex_by_lexZ. apply lexZ_antisym. Qed.

Lemma lex_by_trans key a b c x : lex_by key a b = x -> lex_by key b c = x -> lex_by key a c = x.
Proof. rewrite !lex_by_lexZ. apply lexZ_trans. Qed.

Lemma lex_by_eq_l key a b c : lex_by key a b = Eq -> lex_by key a c = lex_by key b c.
Proof. rewrite !lex_by_lexZ. intros H. apply lexZ_eq in H. rewrite H. reflexivity. Qed.

Lemma lex_by_eq_r key a b c : lex_by key b c = Eq -> lex_by key a c = lex_by key a b.
Proof. rewrite !lex_by_lexZ. intros H. apply lexZ_eq in H. rewrite H. reflexivity. Qed.

(* "a <= b": the comparison is not Gt *)
Lemma lex_by_le_trans key a b c :
  lex_by key a b <> Gt -> lex_by key b c <> Gt -> lex_by key a c <> Gt.
Proof.
  intros H1 H2.
  destruct (lex_by key a b) eqn:E1; try congruence; destruct (lex_by key b c) eqn:E2; try congruence.
  - rewrite (lex_by_eq_l _ _ _ _ E1), E2. discriminate.
  - rewrite (lex_by_eq_l _ _ _ _ E1), E2. discriminate.
  - rewrite (lex_by_eq_r _ _ _ _ E2), E1. discriminate.
  - rewrite (lex_by_trans _ _ _ _ _ E1 E2). discriminate.
Qed.

Lemma map_inj_eq {A B} (f : A -> B) (a b : list A) :
  (forall x y, In x a -> In y b -> f x = f y -> x = y) -> map f a = map f b -> a = b.
Proof.
  revert b; induction a as [|x a IH]; intros [|y b] Hinj H; cbn [map] in H; try discriminate; try reflexivity.
  inversion H as [[H0 H1]]. f_equal.
  - apply Hinj; [left; reflexivity|left; reflexivity|exact H0].
  - apply IH; [|exact H1]. intros u v Hu Hv. apply Hinj; right; assumption.
Qed.

Lemma lex_eq_iff a b : lex a b = Eq <-> a = b.
Proof.
  unfold lex. rewrite lex_by_eq_iff. split; [|intros ->; reflexivity].
  apply map_inj_eq. intros x y _ _ H. apply N2Z.inj. exact H.
Qed.

(* the common prefix decides, then the lengths *)
Lemma lex_by_prefix key a b :
  lex_by key a b =
  match lex_by key (firstn (Nat.min (length a) (length b)) a) (firstn (Nat.min (length a) (length b)) b) with
  | Eq => Nat.compare (length a) (length b)
  | c => c
  end.
Proof.
  revert b; induction a as [|x a IH]; intros [|y b]; cbn [length Nat.min firstn lex_by Nat.compare]; try reflexivity.
  destruct (key x ?= key y)%Z; try reflexivity. apply IH.
Qed.

Lemma firstn_app_le {A} n (a t : list A) : (n <= length a)%nat -> firstn n (a ++ t) = firstn n a.
Proof.
  intros H. rewrite firstn_app. replace (n - length a)%nat with O by lia. cbn [firstn]. apply app_nil_r.
Qed.

Lemma lex_sized_strings key a ta b tb :
  lex_sized key (a ++ ta) (len a) (b ++ tb) (len b) = lex_by key a b.
Proof.
  unfold lex_sized, len. rewrite (lex_by_prefix key a b).
  replace (N.to_nat (N.min (N.of_nat (length a)) (N.of_nat (length b)))) with (Nat.min (length a) (length b)) by lia.
  rewrite !firstn_app_le by lia.
  rewrite <- Nat2N.inj_compare. reflexivity.
Qed.

(* ------------------------------------------------------------------ bounds-checked reads *)
Lemma at_skipn (l : list N) lo : (lo < length l)%nat ->
  exists x, at_ l lo = Ok x /\ skipn lo l = x :: skipn (S lo) l /\ In x l.
Proof.
  revert lo; induction l as [|h t IH]; intros lo H; cbn [length] in H; [lia|].
  destruct lo as [|lo].
  - exists h. repeat split. left; reflexivity.
  - destruct (IH lo) as [x [E1 [E2 E3]]]; [lia|]. exists x. repeat split.
    + exact E1.
    + cbn [skipn]. cbn [skipn] in E2. exact E2.
    + right; exact E3.
Qed.

(* ------------------------------------------------------------------ unit comparison loops *)
Definition key_of (cs : case_sens) : N -> Z :=
  match cs with CaseSensitive => Z.of_N | CaseInsensitive => ci_key end.
(* the case-insensitive routes exist only for char: units are bytes *)
Definition units_ok (cs : case_sens) (l : list N) : Prop :=
  match cs with CaseSensitive => True | CaseInsensitive => Forall (fun x => x < 256) l end.

Lemma sgn_opp_lt a b : (a < b)%Z -> sgn (a - b) = Lt.
Proof. intros H. unfold sgn. apply Z.compare_lt_iff. lia. Qed.

Lemma fold_is_lower c : cl_fast_lower c = fold c.
Proof. reflexivity. Qed.

Lemma fold_byte c : c < 256 -> fold c < 256.
Proof.
  intros H. unfold fold. destruct ((65 <=? c) && (c <=? 90)) eqn:E; [|exact H].
  apply andb_true_iff in E. destruct E as [_ E]. apply N.leb_le in E. lia.
Qed.

Lemma schar_inj_byte x y : x < 256 -> y < 256 -> schar x = schar y -> x = y.
Proof.
  unfold schar. intros Hx Hy.
  destruct (N.ltb_spec x 128); destruct (N.ltb_spec y 128); lia.
Qed.

Lemma traits_compare_spec n : forall l lo r ro,
  (lo + n <= length l)%nat -> (ro + n <= length r)%nat ->
  exists z, traits_compare l lo r ro n = Ok z /\
            sgn z = lex (firstn n (skipn lo l)) (firstn n (skipn ro r)).
Proof.
  induction n as [|n IH]; intros l lo r ro Hl Hr.
  - exists 0%Z. split; reflexivity.
  - destruct (at_skipn l lo) as [a [Ea [Sa _]]]; [lia|].
    destruct (at_skipn r ro) as [b [Eb [Sb _]]]; [lia|].
    cbn [traits_compare]. rewrite Ea, Eb. cbn [bind]. rewrite Sa, Sb.
    unfold lex. cbn [firstn lex_by]. rewrite N2Z.inj_compare.
    destruct (N.ltb_spec a b) as [H1|H1].
    + exists (-1)%Z. split; [reflexivity|]. apply N.compare_lt_iff in H1. rewrite H1. reflexivity.
    + destruct (N.ltb_spec b a) as [H2|H2].
      * exists 1%Z. split; [reflexivity|]. apply N.compare_gt_iff in H2. rewrite H2. reflexivity.
      * assert (a = b) by lia. subst b. rewrite N.compare_refl.
        destruct (IH l (S lo) r (S ro)) as [z [E1 E2]]; [lia|lia|].
        exists z. split; [exact E1|exact E2].
Qed.

Lemma compare_ci_n_spec n : forall l lo r ro,
  Forall (fun x => x < 256) l -> Forall (fun x => x < 256) r ->
  (lo + n <= length l)%nat -> (ro + n <= length r)%nat ->
  exists z, compare_ci_n l lo r ro n = Ok z /\
            sgn z = lex_ci (firstn n (skipn lo l)) (firstn n (skipn ro r)).
Proof.
  induction n as [|n IH]; intros l lo r ro Bl Br Hl Hr.
  - exists 0%Z. split; reflexivity.
  - destruct (at_skipn l lo) as [a [Ea [Sa Ia]]]; [lia|].
    destruct (at_skipn r ro) as [b [Eb [Sb Ib]]]; [lia|].
    assert (Ha : a < 256) by (rewrite Forall_forall in Bl; apply Bl; exact Ia).
    assert (Hb : b < 256) by (rewrite Forall_forall in Br; apply Br; exact Ib).
    cbn [compare_ci_n]. rewrite Ea, Eb. cbn [bind]. cbv zeta. rewrite Sa, Sb.
    change (cl_fast_lower a) with (fold a). change (cl_fast_lower b) with (fold b).
    unfold lex_ci. cbn [firstn lex_by]. unfold ci_key at 1 2.
    pose proof (fold_byte a Ha) as Fa. pose proof (fold_byte b Hb) as Fb.
    destruct (N.eqb_spec (fold a) (fold b)) as [E|E]; cbn [negb].
    + rewrite E, Z.compare_refl.
      destruct (IH l (S lo) r (S ro)) as [z [E1 E2]]; try assumption; try lia.
      exists z. split; [exact E1|exact E2].
    + exists (schar (fold a) - schar (fold b))%Z. split; [reflexivity|].
      assert (schar (fold a) <> schar (fold b)) as Hne
        by (intros C; apply E; apply schar_inj_byte; assumption).
      unfold sgn.
      destruct (Z.compare_spec (schar (fold a)) (schar (fold b))) as [C|C|C]; try contradiction.
      * apply Z.compare_lt_iff. lia.
      * apply Z.compare_gt_iff. lia.
Qed.

Lemma compare_units_spec cs n l lo r ro :
  units_ok cs l -> units_ok cs r ->
  (lo + n <= length l)%nat -> (ro + n <= length r)%nat ->
  exists z, compare_units cs l lo r ro n = Ok z /\
            sgn z = lex_by (key_of cs) (firstn n (skipn lo l)) (firstn n (skipn ro r)).
Proof.
  destruct cs; cbn [units_ok compare_units key_of]; intros Bl Br Hl Hr.
  - apply traits_compare_spec; assumption.
  - apply compare_ci_n_spec; assumption.
Qed.

(* ------------------------------------------------------------------ compare4 / compare5 *)
Lemma sgn_tiebreak lsize rsize : sgn (size_tiebreak lsize rsize) = (lsize ?= rsize).
Proof.
  unfold size_tiebreak, sgn.
  destruct (N.ltb_spec lsize rsize) as [H|H].
  - symmetry. apply N.compare_lt_iff in H. rewrite H. reflexivity.
  - destruct (N.ltb_spec rsize lsize) as [H2|H2].
    + apply N.compare_gt_iff in H2. rewrite H2. reflexivity.
    + assert (lsize = rsize) by lia. subst. rewrite N.compare_refl. reflexivity.
Qed.

Lemma sgn_zero z : sgn z = Eq <-> z = 0%Z.
Proof. unfold sgn. apply Z.compare_eq_iff. Qed.

Lemma compare4_spec cs l lsize r rsize :
  units_ok cs l -> units_ok cs r ->
  (N.to_nat (N.min lsize rsize) <= length l)%nat -> (N.to_nat (N.min lsize rsize) <= length r)%nat ->
  exists z, compare4 cs l lsize r rsize = Ok z /\ sgn z = lex_sized (key_of cs) l lsize r rsize.
Proof.
  intros Bl Br Hl Hr. unfold compare4, lex_sized.
  destruct (compare_units_spec cs (N.to_nat (N.min lsize rsize)) l 0 r 0 Bl Br) as [c [E1 E2]]; [lia|lia|].
  cbn [skipn] in E2. rewrite E1. cbn [bind].
  destruct (Z.eqb_spec c 0) as [Z0|Z0]; cbn [negb].
  - exists (size_tiebreak lsize rsize). split; [reflexivity|].
    rewrite <- E2. subst c. cbn. apply sgn_tiebreak.
  - exists c. split; [reflexivity|]. rewrite <- E2.
    destruct (sgn c) eqn:S; try reflexivity. apply sgn_zero in S. contradiction.
Qed.

Lemma units_ok_app cs a t : units_ok cs a -> units_ok cs t -> units_ok cs (a ++ t).
Proof. destruct cs; cbn [units_ok]; [trivial|]. intros; apply Forall_app; split; assumption. Qed.

Lemma units_ok_nul cs : units_ok cs [0].
Proof. destruct cs; cbn [units_ok]; [trivial|]. repeat constructor. Qed.

Lemma In_firstn_ {A} n (a : list A) x : In x (firstn n a) -> In x a.
Proof. intros H. rewrite <- (firstn_skipn n a). apply in_or_app. left. exact H. Qed.
Lemma In_skipn_ {A} n (a : list A) x : In x (skipn n a) -> In x a.
Proof. intros H. rewrite <- (firstn_skipn n a). apply in_or_app. right. exact H. Qed.

Lemma units_ok_firstn cs n a : units_ok cs a -> units_ok cs (firstn n a).
Proof.
  destruct cs; cbn [units_ok]; [trivial|]. rewrite !Forall_forall. intros H x Hx. apply H.
  eapply In_firstn_; exact Hx.
Qed.

Lemma units_ok_skipn cs n a : units_ok cs a -> units_ok cs (skipn n a).
Proof.
  destruct cs; cbn [units_ok]; [trivial|]. rewrite !Forall_forall. intros H x Hx. apply H.
  eapply In_skipn_; exact Hx.
Qed.

(* compare on genuine texts followed by anything (terminator, redzone...) *)
Lemma compare4_texts cs a ta b tb :
  units_ok cs (a ++ ta) -> units_ok cs (b ++ tb) ->
  exists z, compare4 cs (a ++ ta) (len a) (b ++ tb) (len b) = Ok z /\ sgn z = lex_by (key_of cs) a b.
Proof.
  intros Ba Bb.
  destruct (compare4_spec cs (a ++ ta) (len a) (b ++ tb) (len b) Ba Bb) as [z [E1 E2]].
  - unfold len. rewrite app_length. lia.
  - unfold len. rewrite app_length. lia.
  - exists z. split; [exact E1|]. rewrite E2. apply lex_sized_strings.
Qed.

Lemma len_firstn a (n : N) : len (firstn (N.to_nat n) a) = N.min (len a) n.
Proof. unfold len. rewrite firstn_length. lia. Qed.

Lemma compare5_texts cs a ta b tb (n : N) :
  units_ok cs (a ++ ta) -> units_ok cs (b ++ tb) ->
  exists z, compare5 cs (a ++ ta) (len a) (b ++ tb) (len b) n = Ok z /\
            sgn z = lex_by (key_of cs) (firstn (N.to_nat n) a) (firstn (N.to_nat n) b).
Proof.
  intros Ba Bb. unfold compare5.
  assert (Ea : a ++ ta = firstn (N.to_nat n) a ++ (skipn (N.to_nat n) a ++ ta))
    by (rewrite app_assoc, firstn_skipn; reflexivity).
  assert (Eb : b ++ tb = firstn (N.to_nat n) b ++ (skipn (N.to_nat n) b ++ tb))
    by (rewrite app_assoc, firstn_skipn; reflexivity).
  rewrite <- !len_firstn. rewrite Ea, Eb.
  apply compare4_texts.
  - rewrite <- Ea. exact Ba.
  - rewrite <- Eb. exact Bb.
Qed.

(* ------------------------------------------------------------------ C strings *)
Lemma strlen_spec z : In 0 z ->
  strlen z = Ok (length (upto_nul z)) /\ exists rest, z = upto_nul z ++ 0 :: rest.
Proof.
  induction z as [|c t IH]; intros H; [destruct H|].
  cbn [strlen upto_nul]. destruct (N.eqb_spec c 0) as [E|E].
  - subst. split; [reflexivity|]. exists t. reflexivity.
  - destruct H as [H|H]; [congruence|]. destruct (IH H) as [E1 [rest E2]].
    rewrite E1. cbn [bind length]. split; [reflexivity|]. exists rest. cbn [app]. f_equal. exact E2.
Qed.

Lemma upto_nul_free s t : nul_free s -> upto_nul (s ++ 0 :: t) = s.
Proof.
  induction s as [|c s IH]; intros H; cbn [app upto_nul]; [reflexivity|].
  destruct (N.eqb_spec c 0) as [E|E].
  - exfalso. apply H. left. exact E.
  - f_equal. apply IH. intros C. apply H. right. exact C.
Qed.

Lemma upto_nul_incl z x : In x (upto_nul z) -> In x z.
Proof.
  induction z as [|c t IH]; cbn [upto_nul]; [trivial|].
  destruct (c =? 0); intros H; [destruct H|]. destruct H as [H|H]; [left; exact H|right; apply IH; exact H].
Qed.

Definition zval (z : cstr_arg) : list N := match z with None => [] | Some a => upto_nul a end.
Definition zarg_ok (cs : case_sens) (z : cstr_arg) : Prop :=
  match z with None => True | Some a => In 0 a /\ units_ok cs a end.

Lemma cstr_arg_spec cs z : zarg_ok cs z ->
  cstr_len z = Ok (len (zval z)) /\ exists rest, cstr_data z = zval z ++ rest /\ units_ok cs (zval z ++ rest).
Proof.
  destruct z as [a|]; cbn [zarg_ok cstr_len cstr_data zval].
  - intros [H B]. destruct (strlen_spec a H) as [E1 [rest E2]]. rewrite E1. cbn [bind].
    split; [reflexivity|]. exists (0 :: rest). split; [exact E2|]. rewrite <- E2. exact B.
  - intros _. split; [reflexivity|]. exists [0]. split; [reflexivity|]. apply units_ok_nul.
Qed.

(* ------------------------------------------------------------------ ST::string front ends *)
Lemma units_ok_cstr cs a : units_ok cs a -> units_ok cs (cstr a).
Proof. intros H. unfold cstr. apply units_ok_app; [exact H|apply units_ok_nul]. Qed.

Theorem str_compare_spec cs a b : units_ok cs a -> units_ok cs b ->
  exists z, str_compare cs a b = Ok z /\ sgn z = lex_by (key_of cs) a b.
Proof.
  intros Ba Bb. unfold str_compare, cstr. apply compare4_texts; apply units_ok_cstr; assumption.
Qed.

Theorem str_compare_z_spec cs a z : units_ok cs a -> zarg_ok cs z ->
  exists c, str_compare_z cs a z = Ok c /\ sgn c = lex_by (key_of cs) a (zval z).
Proof.
  intros Ba Bz. unfold str_compare_z. destruct (cstr_arg_spec cs z Bz) as [E1 [rest [E2 B2]]].
  rewrite E1, E2. cbn [bind]. unfold cstr. apply compare4_texts; [apply units_ok_cstr; exact Ba|exact B2].
Qed.

Theorem str_compare_n_spec cs a b n : units_ok cs a -> units_ok cs b ->
  exists z, str_compare_n cs a b n = Ok z /\
            sgn z = lex_by (key_of cs) (firstn (N.to_nat n) a) (firstn (N.to_nat n) b).
Proof.
  intros Ba Bb. unfold str_compare_n, cstr. apply compare5_texts; apply units_ok_cstr; assumption.
Qed.

Theorem str_compare_n_z_spec cs a z n : units_ok cs a -> zarg_ok cs z ->
  exists c, str_compare_n_z cs a z n = Ok c /\
            sgn c = lex_by (key_of cs) (firstn (N.to_nat n) a) (firstn (N.to_nat n) (zval z)).
Proof.
  intros Ba Bz. unfold str_compare_n_z. destruct (cstr_arg_spec cs z Bz) as [E1 [rest [E2 B2]]].
  rewrite E1, E2. cbn [bind]. unfold cstr. apply compare5_texts; [apply units_ok_cstr; exact Ba|exact B2].
Qed.

(* cs_is_lex *)
Theorem cs_is_lex a b : exists z, str_compare CaseSensitive a b = Ok z /\ sgn z = lex a b.
Proof. apply (str_compare_spec CaseSensitive a b); exact I. Qed.

(* ci: the realised order, and its equivalence *)
Lemma Forall_bytes l : bytes_ok l = true <-> Forall (fun x => x < 256) l.
Proof. apply all_lt_Forall. Qed.

Theorem ci_is_lex_ci a b : bytes_ok a = true -> bytes_ok b = true ->
  exists z, str_compare CaseInsensitive a b = Ok z /\ sgn z = lex_ci a b.
Proof.
  intros Ba Bb. apply (str_compare_spec CaseInsensitive a b); apply Forall_bytes; assumption.
Qed.

Lemma lex_ci_eq_iff a b : Forall (fun x => x < 256) a -> Forall (fun x => x < 256) b ->
  (lex_ci a b = Eq <-> ci_equiv a b).
Proof.
  intros Ba Bb. unfold lex_ci, ci_equiv. rewrite lex_by_eq_iff. unfold ci_key.
  rewrite <- !(map_map fold schar). split; [|intros ->; reflexivity].
  apply map_inj_eq. intros x y Hx Hy. apply in_map_iff in Hx. apply in_map_iff in Hy.
  destruct Hx as [x0 [<- Hx]]. destruct Hy as [y0 [<- Hy]].
  rewrite Forall_forall in Ba, Bb.
  apply schar_inj_byte; apply fold_byte; [apply Ba|apply Bb]; assumption.
Qed.

(* the laws, for both case modes, in terms of the sign of the int the code returns *)
Section Laws.
  Variable cs : case_sens.
  Variables a b c : list N.
  Hypothesis Ba : units_ok cs a.
  Hypothesis Bb : units_ok cs b.
  Hypothesis Bc : units_ok cs c.

  Theorem compare_antisym :
    exists x y, str_compare cs a b = Ok x /\ str_compare cs b a = Ok y /\ sgn y = CompOpp (sgn x).
  Proof.
    destruct (str_compare_spec cs a b Ba Bb) as [x [E1 S1]].
    destruct (str_compare_spec cs b a Bb Ba) as [y [E2 S2]].
    exists x, y. repeat split; try assumption. rewrite S1, S2. apply lex_by_antisym.
  Qed.

  Theorem compare_trans :
    exists x y z, str_compare cs a b = Ok x /\ str_compare cs b c = Ok y /\ str_compare cs a c = Ok z /\
      (forall s, sgn x = s -> sgn y = s -> sgn z = s) /\
      (sgn x <> Gt -> sgn y <> Gt -> sgn z <> Gt) /\
      (sgn x = Eq -> sgn z = sgn y) /\ (sgn y = Eq -> sgn z = sgn x).
  Proof.
    destruct (str_compare_spec cs a b Ba Bb) as [x [E1 S1]].
    destruct (str_compare_spec cs b c Bb Bc) as [y [E2 S2]].
    destruct (str_compare_spec cs a c Ba Bc) as [z [E3 S3]].
    exists x, y, z. repeat split; try assumption; rewrite ?S1, ?S2, ?S3.
    - intros s. apply lex_by_trans.
    - apply lex_by_le_trans.
    - apply lex_by_eq_l.
    - apply lex_by_eq_r.
  Qed.
End Laws.

Theorem cs_zero_iff_eq a b : exists z, str_compare CaseSensitive a b = Ok z /\ (z = 0%Z <-> a = b).
Proof.
  destruct (cs_is_lex a b) as [z [E S]]. exists z. split; [exact E|].
  rewrite <- sgn_zero, S. apply lex_eq_iff.
Qed.

Theorem ci_zero_iff_equiv a b : bytes_ok a = true -> bytes_ok b = true ->
  exists z, str_compare CaseInsensitive a b = Ok z /\ (z = 0%Z <-> ci_equiv a b).
Proof.
  intros Ba Bb. destruct (ci_is_lex_ci a b Ba Bb) as [z [E S]]. exists z. split; [exact E|].
  rewrite <- sgn_zero, S. apply lex_ci_eq_iff; apply Forall_bytes; assumption.
Qed.

(* ------------------------------------------------------------------ operators agree with compare *)
Theorem ops_agree_str a b :
  exists z, str_compare CaseSensitive a b = Ok z /\
    str_eq a b = Ok (z =? 0)%Z /\ str_ne a b = Ok (negb (z =? 0)%Z) /\ str_lt a b = Ok (z <? 0)%Z.
Proof.
  destruct (cs_is_lex a b) as [z [E _]]. exists z. unfold str_eq, str_ne, str_lt. rewrite E.
  repeat split; reflexivity.
Qed.

Theorem ops_agree_i a b : bytes_ok a = true -> bytes_ok b = true ->
  exists z, str_compare_i a b = Ok z /\ less_i a b = Ok (z <? 0)%Z /\ equal_i a b = Ok (z =? 0)%Z.
Proof.
  intros Ba Bb. destruct (ci_is_lex_ci a b Ba Bb) as [z [E _]]. exists z.
  unfold less_i, equal_i, str_compare_i. rewrite E. repeat split; reflexivity.
Qed.

Theorem ops_agree_z a z : zarg_ok CaseSensitive z ->
  exists c, str_compare_z CaseSensitive a z = Ok c /\
    str_eq_z a z = Ok (c =? 0)%Z /\ str_ne_z a z = Ok (negb (c =? 0)%Z).
Proof.
  intros Bz. destruct (str_compare_z_spec CaseSensitive a z I Bz) as [c [E _]]. exists c.
  unfold str_eq_z, str_ne_z. rewrite E. repeat split; reflexivity.
Qed.

(* the C-string overload on a NUL-free text gives the same sign as the ST::string overload *)
Theorem overloads_agree_compare cs a b tail :
  units_ok cs a -> units_ok cs b -> units_ok cs tail -> nul_free b ->
  exists x y, str_compare cs a b = Ok x /\ str_compare_z cs a (Some (b ++ 0 :: tail)) = Ok y /\ sgn x = sgn y.
Proof.
  intros Ba Bb Bt Hb.
  destruct (str_compare_spec cs a b Ba Bb) as [x [E1 S1]].
  assert (Bz : zarg_ok cs (Some (b ++ 0 :: tail))).
  { split; [apply in_or_app; right; left; reflexivity|].
    apply units_ok_app; [exact Bb|]. apply (units_ok_app cs [0] tail); [apply units_ok_nul|exact Bt]. }
  destruct (str_compare_z_spec cs a _ Ba Bz) as [y [E2 S2]].
  exists x, y. repeat split; try assumption. rewrite S1, S2. cbn [zval]. rewrite upto_nul_free by exact Hb. reflexivity.
Qed.

Theorem overloads_agree_compare_n cs a b tail n :
  units_ok cs a -> units_ok cs b -> units_ok cs tail -> nul_free b ->
  exists x y, str_compare_n cs a b n = Ok x /\ str_compare_n_z cs a (Some (b ++ 0 :: tail)) n = Ok y /\ sgn x = sgn y.
Proof.
  intros Ba Bb Bt Hb.
  destruct (str_compare_n_spec cs a b n Ba Bb) as [x [E1 S1]].
  assert (Bz : zarg_ok cs (Some (b ++ 0 :: tail))).
  { split; [apply in_or_app; right; left; reflexivity|].
    apply units_ok_app; [exact Bb|]. apply (units_ok_app cs [0] tail); [apply units_ok_nul|exact Bt]. }
  destruct (str_compare_n_z_spec cs a _ n Ba Bz) as [y [E2 S2]].
  exists x, y. repeat split; try assumption. rewrite S1, S2. cbn [zval]. rewrite upto_nul_free by exact Hb. reflexivity.
Qed.

(* ------------------------------------------------------------------ ST::buffer<T> *)
Definition elt_ok (e : elt) (l : list N) : Prop :=
  match e with EWchar => Forall (fun x => x < two31) l | _ => True end.

Lemma to_int32_small x : x < two31 -> to_int32 x = Z.of_N x.
Proof.
  intros H. unfold to_int32, two32, two31 in *. rewrite N.mod_small by lia.
  destruct (N.ltb_spec x 2147483648); [reflexivity|lia].
Qed.

Lemma traits_compare_w_small n : forall l lo r ro,
  Forall (fun x => x < two31) l -> Forall (fun x => x < two31) r ->
  (lo + n <= length l)%nat -> (ro + n <= length r)%nat ->
  traits_compare_w l lo r ro n = traits_compare l lo r ro n.
Proof.
  induction n as [|n IH]; intros l lo r ro Bl Br Hl Hr; [reflexivity|].
  destruct (at_skipn l lo) as [a [Ea [_ Ia]]]; [lia|].
  destruct (at_skipn r ro) as [b [Eb [_ Ib]]]; [lia|].
  rewrite Forall_forall in Bl, Br. pose proof (Bl a Ia) as Ha. pose proof (Br b Ib) as Hb.
  cbn [traits_compare_w traits_compare]. rewrite Ea, Eb. cbn [bind].
  rewrite !to_int32_small by assumption.
  replace (Z.of_N a <? Z.of_N b)%Z with (a <? b) by (destruct (N.ltb_spec a b); destruct (Z.ltb_spec (Z.of_N a) (Z.of_N b)); lia).
  replace (Z.of_N b <? Z.of_N a)%Z with (b <? a) by (destruct (N.ltb_spec b a); destruct (Z.ltb_spec (Z.of_N b) (Z.of_N a)); lia).
  rewrite IH; try reflexivity; try lia; apply Forall_forall; assumption.
Qed.

Lemma buf_compare4_is_compare4 e l lsize r rsize :
  elt_ok e l -> elt_ok e r ->
  (N.to_nat (N.min lsize rsize) <= length l)%nat -> (N.to_nat (N.min lsize rsize) <= length r)%nat ->
  buf_compare4 e l lsize r rsize = compare4 CaseSensitive l lsize r rsize.
Proof.
  intros Bl Br Hl Hr. unfold buf_compare4, compare4. cbn [compare_units].
  destruct e; cbn [traits_compare_elt elt_ok] in *; try reflexivity.
  rewrite traits_compare_w_small; try assumption; try lia. reflexivity.
Qed.

(* the static compare: sizes independent of the data; nothing beyond min(lsize,rsize) is read *)
Theorem buf_compare4_spec e l lsize r rsize :
  elt_ok e l -> elt_ok e r ->
  (N.to_nat (N.min lsize rsize) <= length l)%nat -> (N.to_nat (N.min lsize rsize) <= length r)%nat ->
  exists z, buf_compare4 e l lsize r rsize = Ok z /\ sgn z = lex_sized Z.of_N l lsize r rsize.
Proof.
  intros Bl Br Hl Hr. rewrite buf_compare4_is_compare4 by assumption.
  apply (compare4_spec CaseSensitive); try assumption; exact I.
Qed.

Theorem buf_compare5_spec e l lsize r rsize maxlen :
  elt_ok e l -> elt_ok e r ->
  (N.to_nat (N.min (N.min lsize maxlen) (N.min rsize maxlen)) <= length l)%nat ->
  (N.to_nat (N.min (N.min lsize maxlen) (N.min rsize maxlen)) <= length r)%nat ->
  exists z, buf_compare5 e l lsize r rsize maxlen = Ok z /\
            sgn z = lex_sized Z.of_N l (N.min lsize maxlen) r (N.min rsize maxlen).
Proof. intros. unfold buf_compare5. apply buf_compare4_spec; assumption. Qed.

Lemma elt_ok_app e a t : elt_ok e a -> elt_ok e t -> elt_ok e (a ++ t).
Proof. destruct e; cbn [elt_ok]; trivial. intros; apply Forall_app; split; assumption. Qed.
Lemma elt_ok_cstr e a : elt_ok e a -> elt_ok e (cstr a).
Proof.
  intros H. apply elt_ok_app; [exact H|]. destruct e; cbn [elt_ok]; trivial.
  repeat constructor.
Qed.

Theorem buf_compare_spec e a b : elt_ok e a -> elt_ok e b ->
  exists z, buf_compare e a b = Ok z /\ sgn z = lex a b.
Proof.
  intros Ba Bb. unfold buf_compare.
  destruct (buf_compare4_spec e (cstr a) (len a) (cstr b) (len b)) as [z [E S]];
    try (apply elt_ok_cstr; assumption); try (unfold cstr, len; rewrite app_length; lia).
  exists z. split; [exact E|]. rewrite S. unfold cstr. apply lex_sized_strings.
Qed.

Theorem buf_compare_n_spec e a b n : elt_ok e a -> elt_ok e b ->
  exists z, buf_compare_n e a b n = Ok z /\ sgn z = lex (firstn (N.to_nat n) a) (firstn (N.to_nat n) b).
Proof.
  intros Ba Bb. unfold buf_compare_n, buf_compare5.
  rewrite buf_compare4_is_compare4; try (apply elt_ok_cstr; assumption);
    try (unfold cstr, len; rewrite app_length; lia).
  apply (compare5_texts CaseSensitive a [0] b [0] n); exact I.
Qed.

Theorem buf_ops_agree e a b : elt_ok e a -> elt_ok e b ->
  exists z, buf_compare e a b = Ok z /\
    buf_eq e a b = Ok (z =? 0)%Z /\ buf_ne e a b = Ok (negb (z =? 0)%Z) /\ buf_lt e a b = Ok (z <? 0)%Z.
Proof.
  intros Ba Bb. destruct (buf_compare_spec e a b Ba Bb) as [z [E _]]. exists z.
  unfold buf_eq, buf_ne, buf_lt. rewrite E. repeat split; reflexivity.
Qed.

(* ------------------------------------------------------------------ hashes *)
Theorem hash_eq a b : a = b -> hash a = hash b.
Proof. intros ->. reflexivity. Qed.

Lemma fold_left_map {A B C} (f : A -> B -> A) (g : C -> B) l a0 :
  fold_left f (map g l) a0 = fold_left (fun a c => f a (g c)) l a0.
Proof. revert a0; induction l as [|x l IH]; intros a0; cbn [map fold_left]; [reflexivity|apply IH]. Qed.

Theorem hash_i_is_hash_of_folded a : hash_i a = hash (map fold a).
Proof. unfold hash_i, hash. rewrite fold_left_map. reflexivity. Qed.

Theorem hash_i_eq a b : ci_equiv a b -> hash_i a = hash_i b.
Proof. unfold ci_equiv. intros H. rewrite !hash_i_is_hash_of_folded, H. reflexivity. Qed.

Lemma fnv_step_lt h c : fnv_step h c < two64.
Proof. unfold fnv_step, wrap64. apply N.mod_lt. discriminate. Qed.

(* ------------------------------------------------------------------ case maps (256-value sweep) *)
Definition in_rng (lo hi c : N) : bool := (lo <=? c) && (c <=? hi).
Definition case_map_ok (c : N) : bool :=
  (if in_rng 97 122 c then cl_fast_upper c + 32 =? c else cl_fast_upper c =? c) &&
  (if in_rng 65 90 c then cl_fast_lower c =? c + 32 else cl_fast_lower c =? c) &&
  (cl_fast_upper c <? 256) && (cl_fast_lower c <? 256) &&
  (cl_fast_upper c =? unfold_upper c) && (cl_fast_lower c =? fold c) &&
  (fold (cl_fast_upper c) =? fold c) && (fold (cl_fast_lower c) =? fold c) &&
  (cl_fast_upper (cl_fast_upper c) =? cl_fast_upper c) && (cl_fast_lower (cl_fast_lower c) =? cl_fast_lower c).

Lemma case_map_sweep : all_below 8 case_map_ok = true.
Proof. vm_compute. reflexivity. Qed.

Theorem case_maps_unit c : c < 256 -> case_map_ok c = true.
Proof. intros H. apply (all_below_spec 8 _ case_map_sweep). exact H. Qed.

Theorem to_upper_length s : length (to_upper s) = length s.
Proof. apply map_length. Qed.
Theorem to_lower_length s : length (to_lower s) = length s.
Proof. apply map_length. Qed.

Theorem to_upper_nth s i : nth_error (to_upper s) i = option_map cl_fast_upper (nth_error s i).
Proof. apply nth_error_map. Qed.
Theorem to_lower_nth s i : nth_error (to_lower s) i = option_map cl_fast_lower (nth_error s i).
Proof. apply nth_error_map. Qed.

Lemma map_ext_Forall {A B} (P : A -> Prop) (f g : A -> B) l :
  Forall P l -> (forall x, P x -> f x = g x) -> map f l = map g l.
Proof. intros H E. induction H as [|x l Hx _ IH]; cbn [map]; [reflexivity|]. rewrite (E x Hx), IH. reflexivity. Qed.

Theorem case_maps_ci_equiv s : bytes_ok s = true -> ci_equiv (to_upper s) s /\ ci_equiv (to_lower s) s.
Proof.
  intros B. apply Forall_bytes in B. unfold ci_equiv, to_upper, to_lower. rewrite !map_map.
  split; apply (map_ext_Forall _ _ _ _ B); intros x Hx; pose proof (case_maps_unit x Hx) as C;
    unfold case_map_ok in C; repeat (apply andb_true_iff in C; destruct C as [C ?]);
    apply N.eqb_eq; assumption.
Qed.

Theorem case_maps_spec s : bytes_ok s = true ->
  to_upper s = map unfold_upper s /\ to_lower s = map fold s /\
  bytes_ok (to_upper s) = true /\ bytes_ok (to_lower s) = true.
Proof.
  intros B. split; [reflexivity|]. split; [reflexivity|].
  apply Forall_bytes in B.
  split; apply Forall_bytes; unfold to_upper, to_lower; apply Forall_map;
    (eapply Forall_impl; [|exact B]); intros x Hx; pose proof (case_maps_unit x Hx) as C;
    unfold case_map_ok in C; repeat (apply andb_true_iff in C; destruct C as [C ?]);
    apply N.ltb_lt; assumption.
Qed.

(* ------------------------------------------------------------------ bundles, witnesses, non-vacuity *)
Theorem ci_is_preorder a b c : bytes_ok a = true -> bytes_ok b = true -> bytes_ok c = true ->
  exists x y z x', str_compare_i a b = Ok x /\ str_compare_i b c = Ok y /\ str_compare_i a c = Ok z /\
    str_compare_i b a = Ok x' /\
    sgn x' = CompOpp (sgn x) /\                                  (* total, antisymmetric in sign *)
    (sgn x <> Gt -> sgn y <> Gt -> sgn z <> Gt) /\               (* transitive *)
    (forall s, sgn x = s -> sgn y = s -> sgn z = s) /\
    (x = 0%Z <-> ci_equiv a b).                                  (* equivalence = folded equality *)
Proof.
  intros Ba Bb Bc. pose proof (proj1 (Forall_bytes a) Ba) as Fa. pose proof (proj1 (Forall_bytes b) Bb) as Fb.
  pose proof (proj1 (Forall_bytes c) Bc) as Fc.
  destruct (compare_trans CaseInsensitive a b c Fa Fb Fc) as [x [y [z [E1 [E2 [E3 [T1 [T2 _]]]]]]]].
  destruct (compare_antisym CaseInsensitive a b Fa Fb) as [x0 [x' [E4 [E5 A]]]].
  destruct (ci_zero_iff_equiv a b Ba Bb) as [x1 [E6 Z]].
  unfold str_compare_i. rewrite E1 in E4, E6. inversion E4; subst x0. inversion E6; subst x1.
  exists x, y, z, x'. repeat split; try assumption; apply Z; assumption.
Qed.

(* the pre-fix tie-break  static_cast<int>(lsize - rsize)  — why the repair was needed *)
Definition narrowed_tiebreak (lsize rsize : N) : Z := to_int32 (sub64 lsize rsize).
Theorem narrowed_tiebreak_refuted :
  exists lsize rsize, lsize < two64 /\ rsize < two64 /\ sgn (narrowed_tiebreak lsize rsize) <> (lsize ?= rsize).
Proof. exists 0, 4294967296. vm_compute. repeat split; discriminate. Qed.
Theorem narrowed_tiebreak_refuted_sign :
  exists lsize rsize, lsize < rsize /\ rsize < two64 /\ sgn (narrowed_tiebreak lsize rsize) = Gt.
Proof. exists 0, 2147483649. vm_compute. repeat split; reflexivity. Qed.

(* the static compare with a zero-length common prefix and sizes differing by 2^32 *)
Example static_compare_2_32 :
  buf_compare4 EChar [] 0 [] 4294967296 = Ok (-1)%Z /\ buf_compare4 EChar [] 4294967296 [] 0 = Ok 1%Z /\
  buf_compare4 EChar [] 0 [] 2147483649 = Ok (-1)%Z.
Proof. vm_compute. repeat split; reflexivity. Qed.

(* wchar_t: wmemcmp compares signed 32-bit values, so a unit >= 2^31 sorts BEFORE small units:
   the unsigned-lexicographic claim is false for such wchar_t buffers (platform behaviour) *)
Theorem wchar_unsigned_refuted :
  exists a b z, buf_compare EWchar a b = Ok z /\ sgn z <> lex a b.
Proof. exists [2147483648], [1], (-1)%Z. vm_compute. split; [reflexivity|discriminate]. Qed.

(* non-vacuity of the hypotheses used above *)
Example bytes_ok_inhabited : bytes_ok [0; 65; 97; 128; 255] = true.
Proof. reflexivity. Qed.
Example units_ok_inhabited : units_ok CaseInsensitive [0; 65; 97; 128; 255] /\ units_ok CaseSensitive [70000].
Proof. split; [|exact I]. cbn [units_ok]. repeat constructor. Qed.
Example zarg_ok_inhabited : zarg_ok CaseInsensitive (Some [97; 0; 98]) /\ zarg_ok CaseSensitive None.
Proof. split; [|exact I]. split; [right; left; reflexivity|]. cbn [units_ok]. repeat constructor. Qed.
Example elt_ok_inhabited : elt_ok EWchar [0; 2147483647] /\ elt_ok EChar32 [4294967295].
Proof. split; [|exact I]. cbn [elt_ok]. repeat constructor. Qed.
Example nul_free_inhabited : nul_free [97; 255].
Proof. intros [H|[H|[]]]; discriminate. Qed.
Example ci_equiv_inhabited : ci_equiv [65; 98; 0; 200] [97; 66; 0; 200] /\ [65; 98; 0; 200] <> [97; 66; 0; 200].
Proof. split; [reflexivity|discriminate]. Qed.
