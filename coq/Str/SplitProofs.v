(* Str/SplitProofs.v — C09: the split spec has at most max+1 pieces and is inverted by join;
   the three split overloads equal the spec (the const char* form up to its per-piece
   re-validation); fuel always suffices; the empty separator leaves the text whole.          *)
From Coq Require Import NArith ZArith List Bool Lia PeanoNat.
From ST Require Import Base.Outcome Base.Units Gen.Consts Str.Model Str.SliceSpec Str.SliceModel Str.SplitSpec Str.SplitModel
     Str.SliceProofsBase Str.SliceProofsFind Str.SliceProofsFront Str.SliceProofsBA Str.SplitProofsVal.
Import ListNotations.
Local Open Scope N_scope.
Local Open Scope outcome_scope.

Lemma In_firstn {A} (x : A) : forall n l, In x (firstn n l) -> In x l.
Proof.
  induction n as [|n IH]; intros l H; [destruct H|]. destruct l as [|y t]; [destruct H|].
  simpl in H. destruct H as [H|H]; [left; exact H|right; apply IH; exact H].
Qed.

Lemma bytes_ok_slice s from n : bytes_ok s = true -> bytes_ok (firstn n (skipn from s)) = true.
Proof.
  intros Bs. unfold bytes_ok in *. rewrite all_lt_Forall in *. rewrite Forall_forall in *.
  intros x Hx. apply Bs. apply In_firstn in Hx.
  rewrite <- (firstn_skipn from s). apply in_or_app. right. exact Hx.
Qed.

(* ---- the spec ---------------------------------------------------------------------------- *)
Lemma split_cut_nonempty fuel ci sep h max : split_cut fuel ci sep h max <> [].
Proof.
  destruct fuel as [|f]; cbn [split_cut]; [discriminate|].
  destruct (max =? 0); [discriminate|]. destruct (first_occ ci sep h); discriminate.
Qed.

Theorem split_cut_pieces ci sep : forall fuel h max,
  N.of_nat (length (split_cut fuel ci sep h max)) <= max + 1.
Proof.
  induction fuel as [|f IH]; intros h max; cbn [split_cut]; [simpl; lia|].
  destruct (N.eqb_spec max 0) as [E|E]; [simpl; lia|].
  destruct (first_occ ci sep h) as [i|]; [|simpl; lia].
  cbn [length]. specialize (IH (skipn (i + length sep) h) (max - 1)). lia.
Qed.

Lemma join_cons sep p rest : rest <> [] -> join sep (p :: rest) = p ++ sep ++ join sep rest.
Proof. destruct rest; [congruence|reflexivity]. Qed.

(* joining the pieces with the separator gives back the text up to case; for ANY fuel *)
Theorem join_split_cut ci sep : forall fuel h max,
  map (fold_c ci) (join sep (split_cut fuel ci sep h max)) = map (fold_c ci) h.
Proof.
  induction fuel as [|f IH]; intros h max; cbn [split_cut]; [reflexivity|].
  destruct (max =? 0); [reflexivity|].
  destruct (first_occ ci sep h) as [i|] eqn:Ei; [|reflexivity].
  rewrite join_cons by apply split_cut_nonempty.
  rewrite !map_app, IH.
  destruct (reassemble_first ci h sep i Ei) as [R1 R2].
  unfold before_first_spec, after_first_spec in R1. rewrite Ei in R1.
  rewrite <- R2. rewrite <- !map_app. rewrite R1. reflexivity.
Qed.

(* fuel-independence once the fuel exceeds the length (each cut consumes >= 1 unit) *)
Lemma split_cut_fuel ci sep : forall f1 f2 h max,
  (length h < f1)%nat -> (length h < f2)%nat ->
  split_cut f1 ci sep h max = split_cut f2 ci sep h max.
Proof.
  induction f1 as [|f1 IH]; intros f2 h max H1 H2; [lia|].
  destruct f2 as [|f2]; [lia|]. cbn [split_cut].
  destruct (max =? 0); [reflexivity|].
  destruct (first_occ ci sep h) as [i|] eqn:Ei; [|reflexivity].
  f_equal. pose proof (first_occ_bound _ _ _ _ Ei) as Hb.
  assert (0 < length sep)%nat.
  { unfold first_occ in Ei. destruct sep; [discriminate|simpl; lia]. }
  apply IH; rewrite skipn_length; lia.
Qed.

(* ---- the loop shared by the three overloads ------------------------------------------------ *)
Section Loop.
  Variables (ci : bool) (s sep : list N).
  Variable search : nat -> nat -> outcome (option nat).
  Variable piece : nat -> nat -> outcome (list N).
  Variable good : list N -> bool.
  Hypothesis Hne : sep <> [].
  Hypothesis Hsearch : forall next, (next <= length s)%nat ->
    search next (length s - next)%nat =
    Ok (option_map (Nat.add next) (first_occ_ne ci sep (skipn next s))).
  Hypothesis Hpiece : forall from n, (from + n <= length s)%nat ->
    piece from n = if good (firstn n (skipn from s)) then Ok (firstn n (skipn from s)) else Throw UnicodeError.

  Lemma first_occ_is_ne h : first_occ ci sep h = first_occ_ne ci sep h.
  Proof. unfold first_occ. destruct sep; [congruence|reflexivity]. Qed.

  Lemma split_loop_spec : forall fuel next max acc,
    (next <= length s)%nat -> (length s - next < fuel)%nat ->
    split_loop fuel search piece (length sep) next (length s) max acc =
    if forallb good (split_cut fuel ci sep (skipn next s) max)
    then Ok (acc ++ split_cut fuel ci sep (skipn next s) max)
    else Throw UnicodeError.
  Proof.
    induction fuel as [|f IH]; intros next max acc Hn Hf; [lia|].
    cbn [split_loop split_cut].
    assert (Hfin : (p <- piece next (length s - next)%nat ;; Ok (acc ++ [p])) =
                   if forallb good [skipn next s] then Ok (acc ++ [skipn next s]) else Throw UnicodeError).
    { rewrite Hpiece by lia. rewrite firstn_all2 by (rewrite skipn_length; lia).
      cbn [forallb]. rewrite andb_true_r. destruct (good (skipn next s)); reflexivity. }
    destruct (max =? 0); [exact Hfin|].
    rewrite Hsearch by exact Hn. cbn [bind]. rewrite first_occ_is_ne.
    destruct (first_occ_ne ci sep (skipn next s)) as [i|] eqn:Ei; [|exact Hfin].
    simpl option_map. cbv iota.
    pose proof (first_occ_fits _ _ _ _ Ei) as Hb. rewrite skipn_length in Hb.
    assert (0 < length sep)%nat by (destruct sep; [congruence|simpl; lia]).
    replace (next + i - next)%nat with i by lia.
    rewrite Hpiece by lia. cbn [forallb].
    destruct (good (firstn i (skipn next s))); [|reflexivity]. cbn [bind andb].
    rewrite IH by lia.
    rewrite skipn_skipn'. replace (next + (i + length sep))%nat with (next + i + length sep)%nat by lia.
    rewrite <- app_assoc. reflexivity.
  Qed.
End Loop.

Lemma window_tail s next : (next <= length s)%nat -> window (cstr s) next (length s) = skipn next s.
Proof.
  intros H. unfold window. rewrite skipn_cstr by exact H. rewrite firstn_app, skipn_length.
  rewrite Nat.sub_diag. rewrite firstn_all2 by (rewrite skipn_length; lia). simpl. apply app_nil_r.
Qed.

Lemma forallb_true {A} (l : list A) : forallb (fun _ => true) l = true.
Proof. induction l; simpl; auto. Qed.

Lemma split_fuel_ok ci sep s max : sep <> [] ->
  split_cut (split_fuel s) ci sep (skipn 0 s) max = split_spec ci s sep max.
Proof.
  intros _. unfold split_spec, split_fuel. simpl skipn. apply split_cut_fuel; lia.
Qed.

(* split(const string&) *)
Theorem split_s_spec cs s sep max : bytes_ok s = true -> bytes_ok sep = true ->
  split_s cs s sep max = Ok (split_spec (ci_of cs) s sep max).
Proof.
  intros Bs Bp. unfold split_s. rewrite size_zero.
  destruct sep as [|a sep'] eqn:Es.
  - cbn [is_nil]. unfold split_spec. cbn [split_cut]. destruct (max =? 0); reflexivity.
  - cbn [is_nil]. rewrite <- Es in *. assert (Hne : sep <> []) by (rewrite Es; discriminate).
    rewrite (split_loop_spec (ci_of cs) s sep _ _ (fun _ => true) Hne).
    + rewrite forallb_true. rewrite split_fuel_ok by exact Hne. reflexivity.
    + intros next Hn.
      rewrite (find_sub_spec cs (cstr s) (cstr sep) sep next (length s - next) Hne (firstn_cstr sep)
                 (bytes_ok_cstr _ Bs) (bytes_ok_cstr _ Bp)) by (rewrite cstr_length; lia).
      replace (next + (length s - next))%nat with (length s) by lia.
      rewrite window_tail by exact Hn. reflexivity.
    + intros from n Hfn. apply copy_out_cstr. exact Hfn.
    + lia.
    + unfold split_fuel. lia.
Qed.

(* split(char) for the characters the overload accepts *)
Theorem split_c_spec cs s ch max : 0 < ch -> ch < 128 ->
  split_c cs s ch max = Ok (split_spec (ci_of cs) s [ch] max).
Proof.
  intros H0 H1. unfold split_c.
  destruct (N.eqb_spec ch 0) as [E|_]; [lia|]. destruct (N.leb_spec 128 ch) as [E|_]; [lia|]. cbn [orb].
  assert (Hne : [ch] <> []) by discriminate.
  change 1%nat with (length [ch]).
  rewrite (split_loop_spec (ci_of cs) s [ch] _ _ (fun _ => true) Hne).
  - rewrite forallb_true. rewrite split_fuel_ok by exact Hne. reflexivity.
  - intros next Hn. rewrite find_ch_spec by (rewrite cstr_length; lia).
    replace (next + (length s - next))%nat with (length s) by lia.
    rewrite window_tail by exact Hn. rewrite first_occ_single. reflexivity.
  - intros from n Hfn. apply copy_out_cstr. exact Hfn.
  - lia.
  - unfold split_fuel. lia.
Qed.

Theorem split_c_precondition cs s ch max : ch = 0 \/ 128 <= ch -> split_c cs s ch max = Abort AbSplitChar.
Proof.
  intros H. unfold split_c. destruct (N.eqb_spec ch 0) as [E|E]; [reflexivity|].
  destruct (N.leb_spec 128 ch) as [E'|E']; [reflexivity|lia].
Qed.

(* split(const char* ): re-validates every piece when the separator has a byte >= 0x80 *)
Lemma has_high_spec : forall a k, c_strlen a = Ok k ->
  has_high a = Ok (existsb (fun c => negb (N.land c 128 =? 0)) (c_content a)).
Proof.
  induction a as [|c t IH]; intros k H; simpl in H; [discriminate|].
  cbn [has_high c_content]. destruct (c =? 0) eqn:E; [reflexivity|].
  destruct (c_strlen t) as [n| | |] eqn:Et; simpl in H; try discriminate.
  cbn [existsb]. destruct (negb (N.land c 128 =? 0)); [reflexivity|]. simpl. apply (IH n eq_refl).
Qed.

Definition sep_has_high (sep : list N) : bool := existsb (fun c => negb (N.land c 128 =? 0)) sep.

Theorem split_z_spec cs s a k max :
  bytes_ok s = true -> bytes_ok a = true -> c_strlen a = Ok k -> size s < huge_buffer_size ->
  split_z cs s (Some a) max =
  let pieces := split_spec (ci_of cs) s (c_content a) max in
  if sep_has_high (c_content a) && negb (forallb wf8s pieces) then Throw UnicodeError else Ok pieces.
Proof.
  intros Bs Ba Hk Hhuge. cbv zeta. unfold split_z.
  destruct (c_strlen_content a k Hk) as [K1 [K2 [K3 K4]]].
  destruct a as [|c0 t]; [simpl in K3; lia|].
  change (at_ (c0 :: t) 0) with (Ok (A:=N) c0). cbn [bind].
  destruct (c0 =? 0) eqn:E0.
  - simpl c_content. rewrite E0. simpl sep_has_high. cbn [andb].
    unfold split_spec. cbn [split_cut]. destruct (max =? 0); reflexivity.
  - set (a := c0 :: t) in *. set (sep := c_content a) in *.
    assert (Hne : sep <> []) by (subst sep a; simpl; rewrite E0; discriminate).
    rewrite (has_high_spec a k Hk). cbn [bind]. fold sep. fold (sep_has_high sep).
    rewrite Hk. cbn [bind]. rewrite K1. fold sep.
    set (v := if sep_has_high sep then VCheck else VAssume).
    set (good := fun l : list N => if sep_has_high sep then wf8s l else true).
    rewrite (split_loop_spec (ci_of cs) s sep _ _ good Hne).
    + rewrite split_fuel_ok by exact Hne. subst good.
      destruct (sep_has_high sep); cbn [andb].
      * destruct (forallb wf8s (split_spec (ci_of cs) s sep max)); reflexivity.
      * rewrite forallb_true. reflexivity.
    + intros next Hn.
      assert (Hfirst : firstn (length sep) a = sep) by (subst sep; rewrite <- K1; exact K2).
      rewrite (find_sub_spec cs (cstr s) a sep next (length s - next) Hne Hfirst (bytes_ok_cstr _ Bs) Ba)
        by (rewrite cstr_length; lia).
      replace (next + (length s - next))%nat with (length s) by lia.
      rewrite window_tail by exact Hn. reflexivity.
    + intros from n Hfn. unfold string_of_range.
      destruct (N.leb_spec huge_buffer_size (N.of_nat n)) as [Hh|_]; [unfold size in Hhuge; lia|].
      rewrite copy_out_cstr by exact Hfn. cbn [bind]. subst v good.
      destruct (sep_has_high sep); [|reflexivity].
      change (set_buffer (firstn n (skipn from s)) VCheck) with (validate_default (firstn n (skipn from s))).
      rewrite validate_default_spec by (apply bytes_ok_slice; exact Bs). reflexivity.
    + lia.
    + unfold split_fuel. lia.
Qed.

Theorem split_z_null cs s max : split_z cs s None max = Abort AbSplitNull.
Proof. reflexivity. Qed.

(* ---- what the property says, on the spec ------------------------------------------------------ *)
Theorem split_pieces ci h sep max : N.of_nat (length (split_spec ci h sep max)) <= max + 1.
Proof. apply split_cut_pieces. Qed.

Theorem join_split_fold ci h sep max :
  map (fold_c ci) (join sep (split_spec ci h sep max)) = map (fold_c ci) h.
Proof. apply join_split_cut. Qed.

Theorem join_split h sep max : join sep (split_spec false h sep max) = h.
Proof. pose proof (join_split_fold false h sep max) as H. rewrite !map_fold_false in H. exact H. Qed.

Theorem split_empty_sep ci h max : split_spec ci h [] max = [h].
Proof. unfold split_spec. cbn [split_cut]. destruct (max =? 0); reflexivity. Qed.

Theorem split_zero_max ci h sep : split_spec ci h sep 0 = [h].
Proof. reflexivity. Qed.

(* the first piece is the text before the first occurrence, the rest is the split of what follows *)
Theorem split_spec_step ci h sep max i : 0 < max -> first_occ ci sep h = Some i ->
  split_spec ci h sep max = firstn i h :: split_spec ci (skipn (i + length sep) h) sep (max - 1).
Proof.
  intros Hm Hi. unfold split_spec.
  set (R := split_cut (S (length (skipn (i + length sep) h))) ci sep (skipn (i + length sep) h) (max - 1)).
  cbn [split_cut].
  destruct (N.eqb_spec max 0); [lia|]. rewrite Hi. f_equal. subst R.
  pose proof (first_occ_bound _ _ _ _ Hi).
  assert (0 < length sep)%nat by (unfold first_occ in Hi; destruct sep; [discriminate|simpl; lia]).
  apply split_cut_fuel; rewrite ?skipn_length; lia.
Qed.
Theorem split_spec_none ci h sep max : first_occ ci sep h = None -> split_spec ci h sep max = [h].
Proof. intros Hi. unfold split_spec. cbn [split_cut]. destruct (max =? 0); [reflexivity|]. rewrite Hi. reflexivity. Qed.

(* ---- overloads agree ------------------------------------------------------------------------------ *)
Theorem split_overloads_c_s cs s ch max : bytes_ok s = true -> 0 < ch -> ch < 128 ->
  split_c cs s ch max = split_s cs s [ch] max.
Proof.
  intros Bs H0 H1.
  assert (Bp : bytes_ok [ch] = true).
  { unfold bytes_ok, all_lt. simpl. rewrite andb_true_r. apply N.ltb_lt. lia. }
  rewrite split_c_spec, split_s_spec by assumption. reflexivity.
Qed.

(* the const char* form agrees with the ST::string form whenever it does not throw: always for
   separators without a byte >= 0x80, and for the others when every piece is well-formed *)
Theorem split_overloads_z_s cs s sep max :
  bytes_ok s = true -> bytes_ok sep = true -> ~ In 0 sep -> size s < huge_buffer_size ->
  sep_has_high sep = false \/ forallb wf8s (split_spec (ci_of cs) s sep max) = true ->
  split_z cs s (Some (sep ++ [0])) max = split_s cs s sep max.
Proof.
  intros Bs Bp H0 Hh Hgood.
  rewrite (split_z_spec cs s (sep ++ [0]) (length sep)); try assumption;
    [|apply (bytes_ok_cstr sep); exact Bp|apply c_strlen_app0; exact H0].
  cbv zeta. rewrite c_content_app0 by exact H0. rewrite split_s_spec by assumption.
  destruct Hgood as [Hg|Hg]; rewrite Hg; [reflexivity|]. cbn [negb]. rewrite andb_false_r. reflexivity.
Qed.
