(* Str/SplitModel.v — include/st_string.h transcribed: the three split overloads, tokenize,
   replace (all overloads), fill; with the pieces of set()/validate_utf8 they pass through
   (include/st_utf_conv_priv.h: validate_utf8; st_string.h: string(const char*, size, validation),
   string(char_buffer&&) = set(buffer, ST_DEFAULT_VALIDATION)).
   Conventions as in SliceModel.v.                                                          *)
From Coq Require Import NArith ZArith List Bool Lia.
From ST Require Import Base.Outcome Base.Units Gen.Consts Str.Model Str.SliceModel.
Import ListNotations.
Local Open Scope N_scope.
Local Open Scope outcome_scope.

(* ---- validate_utf8(buffer, size) ------------------------------------------------------------ *)
Inductive verr := VSuccess | VIncomplete | VInvalid.

(* _ST_CHECK_NEXT_SEQ_BYTE: ++cp; if ((cp[0] & 0xC0) != 0x80) return invalid *)
Definition check_next (a : list N) (cp : nat) : outcome bool :=
  c <- at_ a (S cp) ;; Ok (N.land c 192 =? 128).

(* for (; cp < ep; ++cp) { ... } *)
Fixpoint validate_loop (fuel : nat) (a : list N) (cp ep : nat) : outcome verr :=
  match fuel with
  | O => Fault Hang
  | S f =>
      if negb (Nat.ltb cp ep) then Ok VSuccess
      else
        c <- at_ a cp ;;
        if c <? 128 then validate_loop f a (S cp) ep
        else if N.land c 224 =? 192 then
          if Nat.ltb ep (cp + 2) then Ok VIncomplete
          else
            k1 <- check_next a cp ;;
            if negb k1 then Ok VInvalid else validate_loop f a (S (S cp)) ep
        else if N.land c 240 =? 224 then
          if Nat.ltb ep (cp + 3) then Ok VIncomplete
          else
            k1 <- check_next a cp ;;
            if negb k1 then Ok VInvalid else
            k2 <- check_next a (S cp) ;;
            if negb k2 then Ok VInvalid else validate_loop f a (S (S (S cp))) ep
        else if N.land c 248 =? 240 then
          if Nat.ltb ep (cp + 4) then Ok VIncomplete
          else
            k1 <- check_next a cp ;;
            if negb k1 then Ok VInvalid else
            k2 <- check_next a (S cp) ;;
            if negb k2 then Ok VInvalid else
            k3 <- check_next a (S (S cp)) ;;
            if negb k3 then Ok VInvalid else validate_loop f a (S (S (S (S cp)))) ep
        else Ok VInvalid
  end.

Definition validate_utf8 (buf : list N) : outcome verr :=
  validate_loop (S (length buf)) (cstr buf) O (length buf).

(* utf_validation_t as far as this group exercises it (substitute_invalid = cleanup_utf8_buffer
   belongs to the utf group and is not reachable through the default arguments) *)
Inductive vmode := VCheck | VAssume.

(* string::set(char_buffer&&, validation) *)
Definition set_buffer (buf : list N) (v : vmode) : outcome (list N) :=
  match v with
  | VAssume => Ok buf
  | VCheck =>
      e <- validate_utf8 buf ;;
      match e with VSuccess => Ok buf | _ => Throw UnicodeError end       (* raise_conversion_error *)
  end.

(* ST_DEFAULT_VALIDATION of an unconfigured build *)
Definition default_validation : vmode := VCheck.
Definition validate_default (buf : list N) : outcome (list N) := set_buffer buf default_validation.

(* string(const char *p, size_t size, validation) on bytes a[from .. from+size): _set_utf8 *)
Definition string_of_range (a : list N) (from size : nat) (v : vmode) : outcome (list N) :=
  if huge_buffer_size <=? N.of_nat size then Abort AbHuge
  else buf <- copy_out a from size ;; set_buffer buf v.

(* cstr ? string(cstr, ST_AUTO_SIZE, validation) : string() *)
Definition string_of_cstr (p : option (list N)) (v : vmode) : outcome (list N) :=
  match p with
  | None => Ok []
  | Some a => n <- c_strlen a ;; string_of_range a O n v
  end.

(* ---- split ------------------------------------------------------------------------------------ *)
(* the loop common to the three overloads:
     while (max_splits) { sp = search(next, endp - next); if (!sp) break;
                          result.emplace_back(piece(next, sp - next)); next = sp + seplen; --max_splits; }
     result.emplace_back(piece(next, endp - next));                                            *)
Fixpoint split_loop (fuel : nat) (search : nat -> nat -> outcome (option nat))
         (piece : nat -> nat -> outcome (list N)) (seplen : nat)
         (next endp : nat) (max_splits : N) (acc : list (list N)) : outcome (list (list N)) :=
  match fuel with
  | O => Fault Hang
  | S f =>
      let finish := (p <- piece next (endp - next)%nat ;; Ok (acc ++ [p])) in
      if max_splits =? 0 then finish
      else
        r <- search next (endp - next)%nat ;;
        match r with
        | None => finish
        | Some sp =>
            p <- piece next (sp - next)%nat ;;
            split_loop f search piece seplen (sp + seplen)%nat endp (max_splits - 1) (acc ++ [p])
        end
  end.

Definition split_fuel (s : list N) : nat := S (S (length s)).

(* split(char split_char, max_splits, cs) *)
Definition split_c (cs : case_sens) (s : list N) (ch : N) (max_splits : N) : outcome (list (list N)) :=
  (* ST_ASSERT(split_char && static_cast<unsigned int>(split_char) < 0x80): a char >= 0x80 is
     negative and converts to a huge unsigned value *)
  if (ch =? 0) || (128 <=? ch) then Abort AbSplitChar
  else
    split_loop (split_fuel s)
      (fun next sz => find_ch cs (cstr s) next sz ch)
      (fun from n => copy_out (cstr s) from n)                        (* string::from_validated *)
      1 O (length s) max_splits [].

(* is there a byte with the high bit set before the terminator?  while (cp[0]) { if (cp[0] & 0x80) ... } *)
Fixpoint has_high (a : list N) : outcome bool :=
  match a with
  | [] => Fault OOBRead
  | c :: t => if c =? 0 then Ok false else if negb (N.land c 128 =? 0) then Ok true else has_high t
  end.

(* split(const char *splitter, max_splits, cs) *)
Definition split_z (cs : case_sens) (s : list N) (splitter : option (list N)) (max_splits : N)
  : outcome (list (list N)) :=
  match splitter with
  | None => Abort AbSplitNull
  | Some a =>
      (* if (!*splitter) { result.push_back( *this ); return result; } *)
      c0 <- at_ a O ;;
      if c0 =? 0 then Ok [s]
      else
        high <- has_high a ;;
        let validation := if high then VCheck else VAssume in
        splitlen <- c_strlen a ;;
        split_loop (split_fuel s)
          (fun next sz => find_sub cs (cstr s) next sz a splitlen)
          (fun from n => string_of_range (cstr s) from n validation)
          splitlen O (length s) max_splits []
  end.

(* split(const string &splitter, max_splits, cs) *)
Definition split_s (cs : case_sens) (s : list N) (splitter : list N) (max_splits : N)
  : outcome (list (list N)) :=
  (* if (splitter.empty()) { result.push_back( *this ); return result; } *)
  if size splitter =? 0 then Ok [s]
  else
    split_loop (split_fuel s)
      (fun next sz => find_sub cs (cstr s) next sz (cstr splitter) (length splitter))
      (fun from n => copy_out (cstr s) from n)
      (length splitter) O (length s) max_splits [].

(* ---- tokenize(const char *delims) ----------------------------------------------------------------- *)
(* while (cur != endp && !find_cs(delims, dsize, *cur)) ++cur;   (want = false)
   while (next != endp && find_cs(delims, dsize, *next)) ++next; (want = true)                 *)
Fixpoint tok_walk (fuel : nat) (a : list N) (cur endp : nat) (delims : list N) (dsize : nat)
         (want : bool) : outcome nat :=
  match fuel with
  | O => Fault Hang
  | S f =>
      if Nat.eqb cur endp then Ok cur
      else
        c <- at_ a cur ;;
        hit <- in_charset delims dsize c ;;
        if Bool.eqb hit want then tok_walk f a (S cur) endp delims dsize want else Ok cur
  end.

Fixpoint tokenize_loop (fuel : nat) (a : list N) (next endp : nat) (delims : list N) (dsize : nat)
         (acc : list (list N)) : outcome (list (list N)) :=
  match fuel with
  | O => Fault Hang
  | S f =>
      if Nat.eqb next endp then Ok acc
      else
        cur <- tok_walk (S (S endp)) a next endp delims dsize false ;;
        acc' <- (if negb (Nat.eqb cur next)
                 then p <- copy_out a next (cur - next) ;; Ok (acc ++ [p])
                 else Ok acc) ;;
        next' <- tok_walk (S (S endp)) a cur endp delims dsize true ;;
        tokenize_loop f a next' endp delims dsize acc'
  end.

Definition tokenize_model (s : list N) (delims : list N) : outcome (list (list N)) :=
  dsize <- c_strlen delims ;;
  tokenize_loop (S (S (length s))) (cstr s) O (length s) delims dsize [].

(* ---- replace(const string &from, const string &to, cs) --------------------------------------------- *)
(* first scan: outsize += to.size() - from.size() per occurrence (size_t arithmetic) *)
Fixpoint replace_count (fuel : nat) (cs : case_sens) (h : list N) (pstart pend : nat)
         (from : list N) (delta : N) (outsize : N) : outcome N :=
  match fuel with
  | O => Fault Hang
  | S f =>
      r <- find_sub cs h pstart (pend - pstart) (cstr from) (length from) ;;
      match r with
      | None => Ok outsize
      | Some pnext =>
          replace_count f cs h (pnext + length from) pend from delta (wrap64 (outsize + delta))
      end
  end.

(* char_traits::copy(out, src + from, n); out += n   into a buffer of `cap` data cells of which
   `w` are written so far *)
Definition copy_in (cap : N) (w : list N) (src : list N) (from n : nat) : outcome (list N) :=
  if cap <? N.of_nat (length w + n) then Fault OOBWrite
  else d <- copy_out src from n ;; Ok (w ++ d).

(* second scan: copy *)
Fixpoint replace_copy (fuel : nat) (cs : case_sens) (h : list N) (pstart pend : nat)
         (from to : list N) (cap : N) (w : list N) : outcome (list N) :=
  match fuel with
  | O => Fault Hang
  | S f =>
      r <- find_sub cs h pstart (pend - pstart) (cstr from) (length from) ;;
      match r with
      | None =>
          if Nat.ltb pstart pend then copy_in cap w h pstart (pend - pstart) else Ok w
      | Some pnext =>
          w1 <- copy_in cap w h pstart (pnext - pstart) ;;
          w2 <- copy_in cap w1 (cstr to) O (length to) ;;
          replace_copy f cs h (pnext + length from) pend from to cap w2
      end
  end.

(* the char_buffer replace builds, before it is handed to string(char_buffer&&) *)
Definition replace_bytes (cs : case_sens) (s from to : list N) : outcome (list N) :=
  let fuel := S (S (length s)) in
  outsize <- (if negb (size from =? size to)
              then replace_count fuel cs (cstr s) O (length s) from (sub64 (size to) (size from)) (size s)
              else Ok (size s)) ;;
  _ <- allocate outsize ;;
  w <- replace_copy fuel cs (cstr s) O (length s) from to outsize [] ;;
  if N.of_nat (length w) <? outsize then Fault Unwritten else Ok w.

Definition replace_model (cs : case_sens) (s from to : list N) : outcome (list N) :=
  if (size s =? 0) || (size from =? 0) then Ok s                      (* return *this *)
  else r <- replace_bytes cs s from to ;; validate_default r.        (* return result; -> string(char_buffer&&) *)

(* the const char* overloads build ST::strings first (null -> empty string) *)
Definition replace_zz cs s (from to : option (list N)) (v : vmode) :=
  f <- string_of_cstr from v ;; t <- string_of_cstr to v ;; replace_model cs s f t.
Definition replace_sz cs s (from : list N) (to : option (list N)) (v : vmode) :=
  t <- string_of_cstr to v ;; replace_model cs s from t.
Definition replace_zs cs s (from : option (list N)) (to : list N) (v : vmode) :=
  f <- string_of_cstr from v ;; replace_model cs s f to.

(* ---- fill(size_t count, char c) ---------------------------------------------------------------------- *)
Definition fill_model (count : N) (c : N) : outcome (list N) :=
  _ <- allocate count ;;
  validate_default (repeat c (N.to_nat count)).
