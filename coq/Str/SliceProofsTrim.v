(* Str/SliceProofsTrim.v — C08: trim_left / trim_right / trim equal their specs for EVERY
   string that fits (embedded NULs included) and EVERY well-formed C-string charset array.
   Structure:
     1. find_ch over the first k cells of an array  <->  existsb on firstn k;
        in_charset charset (strlen charset) c = in_set (c_content charset) c for every c (0 too).
     2. trim_walk_left  = drop_while from an offset (stops at terminator / embedded 0 / miss).
     3. trim_walk_right = drop_while on the reversed segment [low, cp).
     4. the closing substr call, through substr_model_spec.                                   *)
From Coq Require Import NArith ZArith List Bool Lia.
From ST Require Import Base.Outcome Base.Units Str.Model Str.SliceSpec Str.SliceModel
  Str.SliceProofsBase Str.SliceProofsArith.
Import ListNotations.
Local Open Scope N_scope.

(* ---- 1. membership in the charset ---------------------------------------------------------- *)
Definition hit_of (r : option nat) : bool := match r with Some _ => true | None => false end.

Lemma find_ch_existsb : forall sz a cp c, (cp + sz <= length a)%nat ->
  exists r, find_ch CaseSensitive a cp sz c = Ok r /\
            hit_of r = existsb (N.eqb c) (firstn sz (skipn cp a)).
Proof.
  induction sz as [|sz IH]; intros a cp c H.
  - exists None. split; reflexivity.
  - cbn [find_ch]. destruct (at_skipn a cp) as [x [E1 E2]]; [lia|].
    rewrite E1. cbn [bind]. rewrite E2. cbn [firstn existsb].
    rewrite (N.eqb_sym c x).
    destruct (x =? c) eqn:Ex.
    + exists (Some cp). split; reflexivity.
    + destruct (IH a (S cp) c) as [r [R1 R2]]; [lia|].
      exists r. split; [exact R1|]. rewrite R2. reflexivity.
Qed.

Lemma in_charset_spec charset k c :
  c_strlen charset = Ok k -> in_charset charset k c = Ok (in_set (c_content charset) c).
Proof.
  intros Hk. destruct (c_strlen_content charset k Hk) as [_ [Hfirst [Hlt _]]].
  unfold in_charset, in_set.
  destruct (find_ch_existsb k charset O c) as [r [R1 R2]]; [lia|].
  rewrite R1. cbn [bind]. fold (hit_of r). rewrite R2. cbn [skipn]. rewrite Hfirst. reflexivity.
Qed.

Lemma in_set_content_0 charset : in_set (c_content charset) 0 = false.
Proof.
  unfold in_set. destruct (existsb (N.eqb 0) (c_content charset)) eqn:E; [|reflexivity].
  apply existsb_exists in E. destruct E as [x [Hin Hx]]. apply N.eqb_eq in Hx. subst x.
  exfalso. exact (c_content_no0 charset Hin).
Qed.

(* ---- 2. the left walk ------------------------------------------------------------------------ *)
Section Walks.
  Variables (set charset : list N) (k : nat) (s : list N).
  Hypothesis Hin : forall c, in_charset charset k c = Ok (in_set set c).
  Hypothesis Hno0 : in_set set 0 = false.

  Lemma walk_left_spec : forall fuel cp, (cp <= length s)%nat -> (length s - cp < fuel)%nat ->
    exists cp', trim_walk_left fuel (cstr s) cp charset k = Ok cp' /\
                (cp <= cp' <= length s)%nat /\
                skipn cp' s = drop_while (in_set set) (skipn cp s).
  Proof.
    induction fuel as [|f IH]; intros cp Hcp Hfuel; [lia|].
    cbn [trim_walk_left].
    destruct (Nat.eq_dec cp (length s)) as [Heq|Hne].
    - subst cp. rewrite at_cstr_end. cbn [bind]. rewrite N.eqb_refl.
      exists (length s). split; [reflexivity|]. split; [lia|].
      rewrite skipn_all. reflexivity.
    - rewrite at_cstr_lt by lia.
      destruct (at_skipn s cp) as [x [E1 E2]]; [lia|].
      rewrite E1. cbn [bind]. rewrite E2. cbn [drop_while].
      destruct (x =? 0) eqn:Ex.
      + apply N.eqb_eq in Ex. subst x. rewrite Hno0.
        exists cp. split; [reflexivity|]. split; [lia|]. exact E2.
      + rewrite Hin. cbn [bind].
        destruct (in_set set x) eqn:Ehit.
        * destruct (IH (S cp)) as [cp' [W1 [W2 W3]]]; [lia|lia|].
          exists cp'. split; [exact W1|]. split; [lia|exact W3].
        * exists cp. split; [reflexivity|]. split; [lia|]. exact E2.
  Qed.

  (* ---- 3. the right walk ----------------------------------------------------------------------- *)
  (* the segment [low, j) of s is  skipn low (firstn j s) *)
  Lemma segment_snoc low j x : (low <= j)%nat -> nth_error s j = Some x ->
    skipn low (firstn (S j) s) = skipn low (firstn j s) ++ [x].
  Proof.
    intros Hlow Hx.
    assert (Hj : (j < length s)%nat) by (apply nth_error_Some; rewrite Hx; discriminate).
    assert (E : firstn (S j) s = firstn j s ++ [x]).
    { clear Hlow. revert j Hx Hj. induction s as [|h t IHt]; intros j Hx Hj; simpl in Hj; [lia|].
      destruct j as [|j]; simpl in Hx.
      - inversion Hx; subst. reflexivity.
      - change (firstn (S (S j)) (h :: t)) with (h :: firstn (S j) t).
        rewrite (IHt j Hx) by lia. reflexivity. }
    rewrite E. rewrite skipn_app. rewrite firstn_length.
    replace (low - Nat.min j (length s))%nat with O by lia. reflexivity.
  Qed.

  Lemma walk_right_spec low : forall fuel cp, (low <= cp <= length s)%nat -> (cp - low < fuel)%nat ->
    exists e, trim_walk_right fuel (cstr s) (Z.of_nat cp) (Z.of_nat low) charset k
              = Ok (Z.of_nat e - 1)%Z /\
              (low <= e <= cp)%nat /\
              skipn low (firstn e s) =
              rev (drop_while (in_set set) (rev (skipn low (firstn cp s)))).
  Proof.
    induction fuel as [|f IH]; intros cp Hcp Hfuel; [lia|].
    cbn [trim_walk_right].
    destruct (Z.of_nat cp - 1 <? Z.of_nat low)%Z eqn:Elow.
    - apply Z.ltb_lt in Elow. assert (cp = low) by lia. subst cp.
      exists low. split; [reflexivity|]. split; [lia|].
      assert (E : skipn low (firstn low s) = []).
      { apply length_zero_iff_nil. rewrite skipn_length, firstn_length. lia. }
      rewrite E. reflexivity.
    - apply Z.ltb_ge in Elow.
      destruct cp as [|j]; [lia|].
      replace (Z.of_nat (S j) - 1)%Z with (Z.of_nat j) by lia.
      rewrite Nat2Z.id.
      rewrite at_cstr_lt by lia.
      destruct (at_skipn s j) as [x [E1 _]]; [lia|].
      rewrite E1. cbn [bind]. rewrite Hin. cbn [bind].
      apply at_ok_inv in E1. destruct E1 as [_ Hx].
      rewrite (segment_snoc low j x) by (try exact Hx; lia).
      rewrite rev_app_distr. cbn [rev app drop_while].
      destruct (in_set set x) eqn:Ehit.
      + destruct (IH j) as [e [W1 [W2 W3]]]; [lia|lia|].
        exists e. split; [exact W1|]. split; [lia|exact W3].
      + exists (S j). split; [f_equal; lia|]. split; [lia|].
        rewrite (segment_snoc low j x) by (try exact Hx; lia).
        cbn [rev]. rewrite rev_involutive. reflexivity.
  Qed.
End Walks.

(* ---- 4. substr on in-range arguments ----------------------------------------------------------- *)
Lemma substr_spec_tail s cp : fits s -> (cp <= length s)%nat ->
  substr_spec s (Z.of_nat cp) size_max = skipn cp s.
Proof.
  intros Hf H. unfold substr_spec, slice_begin, slice_end.
  destruct (Z.of_nat cp <? 0)%Z eqn:E; [apply Z.ltb_lt in E; lia|].
  replace (Z.min (Z.of_nat cp) (Z.of_nat (length s))) with (Z.of_nat cp) by lia.
  rewrite Nat2Z.id.
  replace (Z.to_nat (Z.min (Z.of_nat (length s)) (Z.of_nat cp + Z.of_N size_max) - Z.of_nat cp))
    with (length (skipn cp s)).
  - apply firstn_all.
  - rewrite skipn_length. unfold fits, size, two63 in Hf. unfold size_max, two64. lia.
Qed.

Lemma substr_spec_mid s lp cnt : (lp + cnt <= length s)%nat ->
  substr_spec s (Z.of_nat lp) (N.of_nat cnt) = firstn cnt (skipn lp s).
Proof.
  intros H. unfold substr_spec, slice_begin, slice_end.
  destruct (Z.of_nat lp <? 0)%Z eqn:E; [apply Z.ltb_lt in E; lia|].
  replace (Z.min (Z.of_nat lp) (Z.of_nat (length s))) with (Z.of_nat lp) by lia.
  rewrite Nat2Z.id. f_equal. lia.
Qed.

Lemma ssize_range_offset s cp : fits s -> (cp <= length s)%nat -> ssize_range (Z.of_nat cp).
Proof. unfold fits, size, ssize_range, two63. intros Hf H. lia. Qed.

Lemma count_lt_two64 s n : fits s -> (n <= length s)%nat -> N.of_nat n < two64.
Proof. unfold fits, size, two63, two64. intros Hf H. lia. Qed.

Lemma size_eqb_0 s : (size s =? 0) = true -> s = [].
Proof.
  intros H. apply N.eqb_eq in H. unfold size in H. apply length_zero_iff_nil. lia.
Qed.

(* ---- the three theorems ------------------------------------------------------------------------ *)
Theorem trim_left_model_spec s charset k :
  fits s -> c_strlen charset = Ok k ->
  trim_left_model s charset = Ok (trim_left_spec s (c_content charset)).
Proof.
  intros Hf Hk. unfold trim_left_model, trim_left_spec.
  destruct (size s =? 0) eqn:E0; [rewrite (size_eqb_0 s E0); reflexivity|].
  rewrite Hk. cbn [bind].
  destruct (walk_left_spec (c_content charset) charset k s
              (fun c => in_charset_spec charset k c Hk) (in_set_content_0 charset)
              (S (S (length s))) O) as [cp [W1 [W2 W3]]]; [lia|lia|].
  rewrite W1. cbn [bind].
  rewrite substr_model_spec;
    [|exact Hf|apply (ssize_range_offset s cp Hf); lia|unfold size_max, two64; lia].
  rewrite substr_spec_tail by (try exact Hf; lia). rewrite W3. reflexivity.
Qed.

Theorem trim_right_model_spec s charset k :
  fits s -> c_strlen charset = Ok k ->
  trim_right_model s charset = Ok (trim_right_spec s (c_content charset)).
Proof.
  intros Hf Hk. unfold trim_right_model, trim_right_spec.
  destruct (size s =? 0) eqn:E0; [rewrite (size_eqb_0 s E0); reflexivity|].
  rewrite Hk. cbn [bind].
  destruct (walk_right_spec (c_content charset) charset k s
              (fun c => in_charset_spec charset k c Hk) O
              (S (S (length s))) (length s)) as [e [W1 [W2 W3]]]; [lia|lia|].
  change (Z.of_nat 0) with 0%Z in W1. rewrite W1. cbn [bind].
  replace (Z.of_nat e - 1 + 1)%Z with (Z.of_nat e) by lia.
  rewrite of_ssize_nonneg by lia.
  replace (Z.to_N (Z.of_nat e)) with (N.of_nat e) by lia.
  rewrite substr_model_spec;
    [|exact Hf|unfold ssize_range, two63; lia|apply (count_lt_two64 s e Hf); lia].
  change 0%Z with (Z.of_nat 0). rewrite substr_spec_mid by lia.
  cbn [skipn] in *. rewrite W3. rewrite firstn_all. reflexivity.
Qed.

Theorem trim_model_spec s charset k :
  fits s -> c_strlen charset = Ok k ->
  trim_model s charset = Ok (trim_spec s (c_content charset)).
Proof.
  intros Hf Hk. unfold trim_model, trim_spec, trim_right_spec, trim_left_spec.
  destruct (size s =? 0) eqn:E0; [rewrite (size_eqb_0 s E0); reflexivity|].
  rewrite Hk. cbn [bind].
  pose proof (fun c => in_charset_spec charset k c Hk) as Hin.
  destruct (walk_left_spec (c_content charset) charset k s Hin (in_set_content_0 charset)
              (S (S (length s))) O) as [lp [L1 [L2 L3]]]; [lia|lia|].
  rewrite L1. cbn [bind].
  destruct (walk_right_spec (c_content charset) charset k s Hin lp
              (S (S (length s))) (length s)) as [e [W1 [W2 W3]]]; [lia|lia|].
  rewrite W1. cbn [bind].
  replace (Z.of_nat e - 1 - Z.of_nat lp + 1)%Z with (Z.of_nat (e - lp)) by lia.
  rewrite of_ssize_nonneg by lia.
  replace (Z.to_N (Z.of_nat (e - lp))) with (N.of_nat (e - lp)) by lia.
  rewrite substr_model_spec;
    [|exact Hf|apply (ssize_range_offset s lp Hf); lia|apply (count_lt_two64 s (e - lp) Hf); lia].
  rewrite substr_spec_mid by lia.
  rewrite firstn_skipn_comm. replace (lp + (e - lp))%nat with e by lia.
  rewrite W3. rewrite firstn_all. cbn [skipn] in L3. rewrite L3. reflexivity.
Qed.
