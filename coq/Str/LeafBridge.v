(* Str/LeafBridge.v — the hand-written case-folding functions of Str/Model.v compute what the functions found in the
   CURRENT headers compute (Gen/Leaf.v is regenerated from the clang AST on every run).  `char` is a signed 8-bit
   type on this platform: a byte b is passed as schar b and the result read back modulo 256.  Finite domain (256
   values), swept by the kernel's VM and lifted by Sweep.all_below_spec. *)
From Coq Require Import NArith ZArith Bool Lia.
From ST Require Import Base.Sweep Str.Model Gen.Leaf.
Local Open Scope N_scope.

Definition schar (b : N) : Z := if b <? 128 then Z.of_N b else (Z.of_N b - 256)%Z.
Definition uchar (z : Z) : N := Z.to_N (z mod 256)%Z.

Definition lower_agrees (c : N) : bool := uchar (src_cl_fast_lower (schar c)) =? cl_fast_lower c.
Definition upper_agrees (c : N) : bool := uchar (src_cl_fast_upper (schar c)) =? cl_fast_upper c.

Lemma lower_sweep : all_below 8 lower_agrees = true. Proof. vm_compute. reflexivity. Qed.
Lemma upper_sweep : all_below 8 upper_agrees = true. Proof. vm_compute. reflexivity. Qed.

Theorem cl_fast_lower_matches_source c : c < 256 -> uchar (src_cl_fast_lower (schar c)) = cl_fast_lower c.
Proof. intros H. apply N.eqb_eq. apply (all_below_spec 8 lower_agrees lower_sweep c). exact H. Qed.

Theorem cl_fast_upper_matches_source c : c < 256 -> uchar (src_cl_fast_upper (schar c)) = cl_fast_upper c.
Proof. intros H. apply N.eqb_eq. apply (all_below_spec 8 upper_agrees upper_sweep c). exact H. Qed.
