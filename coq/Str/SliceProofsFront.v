(* Str/SliceProofsFront.v — the find / find_last front ends of SliceModel.v (as called by
   before/after: start = 0, max = ST_AUTO_SIZE) return first_occ / last_occ of SliceSpec.v.   *)
From Coq Require Import NArith ZArith List Bool Lia.
From ST Require Import Base.Outcome Base.Units Str.Model Str.SliceSpec Str.SliceModel
     Str.SliceProofsBase Str.SliceProofsFind.
Import ListNotations.
Local Open Scope N_scope.

(* ---- facts about first_occ_ne / last_occ_ne ---- *)
Lemma first_occ_some ci sep : forall l i, first_occ_ne ci sep l = Some i ->
  prefix_match ci sep (skipn i l) = true /\
  (forall j, (j < i)%nat -> prefix_match ci sep (skipn j l) = false).
Proof.
  induction l as [|x t IH]; intros i H; cbn [first_occ_ne] in H.
  - destruct (prefix_match ci sep []) eqn:E; inversion H; subst. split; [exact E|intros j Hj; lia].
  - destruct (prefix_match ci sep (x :: t)) eqn:E.
    + inversion H; subst. split; [exact E|intros j Hj; lia].
    + destruct (first_occ_ne ci sep t) as [k|] eqn:Ek; simpl in H; inversion H; subst.
      destruct (IH k eq_refl) as [I1 I2]. split; [exact I1|].
      intros [|j] Hj; [exact E|]. simpl. apply I2. lia.
Qed.

Lemma first_occ_none ci sep : forall l, first_occ_ne ci sep l = None ->
  forall j, prefix_match ci sep (skipn j l) = false.
Proof.
  induction l as [|x t IH]; intros H j; cbn [first_occ_ne] in H.
  - destruct (prefix_match ci sep []) eqn:E; [discriminate|]. rewrite skipn_nil. exact E.
  - destruct (prefix_match ci sep (x :: t)) eqn:E; [discriminate|].
    destruct (first_occ_ne ci sep t) eqn:Ek; [discriminate|].
    destruct j as [|j]; [exact E|]. simpl. apply IH. reflexivity.
Qed.

Lemma prefix_match_fits ci sep l : prefix_match ci sep l = true -> (length sep <= length l)%nat.
Proof. intros H. apply prefix_match_true in H. tauto. Qed.

Lemma first_occ_fits ci sep : forall l i, first_occ_ne ci sep l = Some i -> (i + length sep <= length l)%nat.
Proof.
  induction l as [|x t IH]; intros i H; cbn [first_occ_ne] in H.
  - destruct (prefix_match ci sep []) eqn:E; inversion H; subst.
    apply prefix_match_fits in E. simpl in *. lia.
  - destruct (prefix_match ci sep (x :: t)) eqn:E.
    + inversion H; subst. apply prefix_match_fits in E. simpl in *. lia.
    + destruct (first_occ_ne ci sep t) as [k|] eqn:Ek; simpl in H; inversion H; subst.
      specialize (IH k eq_refl). simpl. lia.
Qed.

Lemma last_none_of_first_none ci sep : forall l, first_occ_ne ci sep l = None -> last_occ_ne ci sep l = None.
Proof.
  induction l as [|x t IH]; intros H; cbn [first_occ_ne] in H; cbn [last_occ_ne].
  - destruct (prefix_match ci sep []); [discriminate|reflexivity].
  - destruct (prefix_match ci sep (x :: t)); [discriminate|].
    destruct (first_occ_ne ci sep t) eqn:Ek; [discriminate|]. rewrite IH by reflexivity. reflexivity.
Qed.

Lemma last_occ_step ci sep : sep <> [] -> forall i l, prefix_match ci sep (skipn i l) = true ->
  last_occ_ne ci sep l =
  match last_occ_ne ci sep (skipn (S i) l) with Some j => Some (S i + j)%nat | None => Some i end.
Proof.
  intros Hne. induction i as [|i IH]; intros l H.
  - destruct l as [|x t].
    + destruct sep; [congruence|discriminate].
    + simpl skipn in *. cbn [last_occ_ne]. rewrite H. destruct (last_occ_ne ci sep t); reflexivity.
  - destruct l as [|x t].
    + rewrite skipn_nil in H. destruct sep; [congruence|discriminate].
    + simpl skipn in H. cbn [last_occ_ne]. rewrite (IH t H).
      change (skipn (S (S i)) (x :: t)) with (skipn (S i) t).
      destruct (last_occ_ne ci sep (skipn (S i) t)); reflexivity.
Qed.

Lemma first_occ_single ci ch : forall l, first_occ_ne ci [ch] l = index_where (eqf ci ch) l.
Proof.
  induction l as [|x t IH]; [reflexivity|].
  cbn [first_occ_ne prefix_match index_where]. unfold eqf.
  destruct (fold_c ci ch =? fold_c ci x); simpl; [reflexivity|]. rewrite IH. reflexivity.
Qed.

(* ---- the forward front ends at start = 0 ---- *)
Lemma find_sub_spec cs h needle sep start sz :
  sep <> [] -> firstn (length sep) needle = sep ->
  bytes_ok h = true -> bytes_ok needle = true -> (start + sz <= length h)%nat ->
  find_sub cs h start sz needle (length sep) =
  Ok (option_map (Nat.add start) (first_occ_ne (ci_of cs) sep (window h start (start + sz)))).
Proof.
  intros. unfold find_sub. apply find_sub_loop_spec; try assumption. lia.
Qed.

Lemma bytes_ok_cstr s : bytes_ok s = true -> bytes_ok (cstr s) = true.
Proof. intros H. unfold bytes_ok, cstr in *. rewrite all_lt_app, H. reflexivity. Qed.

Lemma firstn_cstr s : firstn (length s) (cstr s) = s.
Proof. unfold cstr. rewrite firstn_app, Nat.sub_diag, firstn_all. simpl. apply app_nil_r. Qed.

Lemma pos_result_add0 o : pos_result (option_map (Nat.add 0) o) = pos_result o.
Proof. rewrite option_map_add0. reflexivity. Qed.

Lemma find_priv_0 cs s needle sep :
  sep <> [] -> firstn (length sep) needle = sep ->
  bytes_ok s = true -> bytes_ok needle = true ->
  find_priv cs s 0 needle (length sep) = Ok (pos_result (first_occ_ne (ci_of cs) sep s)).
Proof.
  intros Hne Hn Bs Bn. unfold find_priv. rewrite Nat.sub_0_r.
  assert (Bc : bytes_ok (cstr s) = true) by (apply bytes_ok_cstr; assumption).
  rewrite (find_sub_spec cs (cstr s) needle sep O (length s) Hne Hn Bc Bn) by (rewrite cstr_length; lia).
  cbn [bind]. simpl Nat.add. rewrite window_full, option_map_add0. reflexivity.
Qed.

Lemma size_zero s : (size s =? 0) = is_nil s.
Proof. unfold size. destruct s; reflexivity. Qed.
Lemma size_le_zero s : (size s <=? 0) = is_nil s.
Proof. unfold size. destruct s; [reflexivity|]. apply N.leb_gt. simpl length. lia. Qed.

Theorem find_str_0 cs s sep : bytes_ok s = true -> bytes_ok sep = true ->
  find_str cs s 0 sep = Ok (pos_result (first_occ (ci_of cs) sep s)).
Proof.
  intros Bs Bp. unfold find_str, find_buf, first_occ. rewrite size_zero, size_le_zero.
  destruct sep as [|a sep']; [reflexivity|]. cbn [is_nil orb].
  destruct s as [|x t]; [cbn [is_nil]; rewrite first_occ_short by (simpl; lia); reflexivity|].
  cbn [is_nil]. unfold size. rewrite Nat2N.id.
  apply find_priv_0; try assumption; [discriminate|apply firstn_cstr|apply bytes_ok_cstr; assumption].
Qed.

(* a C-string argument: the array a (NUL somewhere inside) denotes c_content a; nullptr denotes [] *)
Definition cstr_arg_content (p : option (list N)) : list N :=
  match p with None => [] | Some a => c_content a end.
Definition cstr_arg_ok (p : option (list N)) : Prop :=
  match p with None => True | Some a => bytes_ok a = true /\ exists k, c_strlen a = Ok k end.

Theorem find_cstr_0 cs s p : bytes_ok s = true -> cstr_arg_ok p ->
  find_cstr cs s 0 p = Ok (pos_result (first_occ (ci_of cs) (cstr_arg_content p) s)).
Proof.
  intros Bs Hp. destruct p as [a|]; [|reflexivity]. destruct Hp as [Ba [k Hk]].
  unfold find_cstr, cstr_arg_content, first_occ. rewrite Hk.
  destruct (c_strlen_content a k Hk) as [K1 [K2 [K3 K4]]].
  destruct a as [|c0 t]; [simpl in K3; lia|].
  change (at_ (c0 :: t) 0) with (Ok (A:=N) c0). cbn [bind].
  rewrite size_le_zero.
  simpl c_content in *. destruct (c0 =? 0) eqn:E0; [reflexivity|].
  cbn [orb is_nil].
  destruct s as [|x s']; [cbn [is_nil]; rewrite first_occ_short by (simpl; lia); reflexivity|].
  cbn [is_nil bind]. subst k. simpl N.to_nat.
  apply find_priv_0; try assumption. discriminate.
Qed.

Theorem find_char_0 cs s ch : find_char cs s 0 ch = Ok (pos_result (first_occ (ci_of cs) [ch] s)).
Proof.
  unfold find_char, first_occ. rewrite size_le_zero. cbn [is_nil].
  destruct s as [|x t]; [reflexivity|]. cbn [is_nil]. simpl N.to_nat. rewrite Nat.sub_0_r.
  rewrite find_ch_spec by (rewrite cstr_length; lia). cbn [bind]. simpl Nat.add.
  rewrite window_full, option_map_add0, first_occ_single. reflexivity.
Qed.

(* ---- the backward front ends at max = SIZE_MAX ---- *)
Lemma find_last_loop_spec ci sep h endp search :
  sep <> [] -> (endp <= length h)%nat ->
  (forall start, (start <= endp)%nat ->
     search start (endp - start)%nat =
     Ok (option_map (Nat.add start) (first_occ_ne ci sep (window h start endp)))) ->
  forall fuel start found, (start <= endp)%nat -> (endp - start < fuel)%nat ->
  find_last_loop fuel search start endp found =
  Ok (match last_occ_ne ci sep (window h start endp) with
      | Some i => Some (start + i)%nat
      | None => found
      end).
Proof.
  intros Hne Hend Hsearch. induction fuel as [|f IH]; intros start found Hs Hf; [lia|].
  cbn [find_last_loop]. rewrite Hsearch by exact Hs. cbn [bind].
  destruct (first_occ_ne ci sep (window h start endp)) as [i|] eqn:Ei.
  - simpl option_map. cbv iota.
    pose proof (first_occ_fits _ _ _ _ Ei) as Hfit. rewrite window_length in Hfit by exact Hend.
    assert (Hlen : (0 < length sep)%nat) by (destruct sep; [congruence|simpl; lia]).
    destruct (Nat.leb endp (start + i)) eqn:El; [apply Nat.leb_le in El; lia|].
    rewrite IH by lia.
    destruct (first_occ_some _ _ _ _ Ei) as [Pm _].
    rewrite (last_occ_step ci sep Hne i _ Pm).
    rewrite window_skipn. replace (start + S i)%nat with (S (start + i)) by lia.
    destruct (last_occ_ne ci sep (window h (S (start + i)) endp)); f_equal; f_equal; lia.
  - rewrite last_none_of_first_none by exact Ei. reflexivity.
Qed.

Lemma endp_of_max s : size s < two63 -> endp_of s size_max = length s.
Proof.
  intros H. unfold endp_of. destruct (N.ltb_spec (size s) size_max) as [_|H']; [reflexivity|].
  unfold size_max, two64, two63 in *. lia.
Qed.

Lemma find_last_priv_max cs s needle sep :
  sep <> [] -> firstn (length sep) needle = sep ->
  bytes_ok s = true -> bytes_ok needle = true -> size s < two63 ->
  find_last_priv cs s size_max needle (length sep) = Ok (pos_result (last_occ_ne (ci_of cs) sep s)).
Proof.
  intros Hne Hn Bs Bn Hsz. unfold find_last_priv. rewrite endp_of_max by exact Hsz.
  rewrite (find_last_loop_spec (ci_of cs) sep (cstr s) (length s)); try assumption.
  - cbn [bind]. rewrite window_full. destruct (last_occ_ne (ci_of cs) sep s); reflexivity.
  - rewrite cstr_length. lia.
  - intros start Hs.
    assert (Bc : bytes_ok (cstr s) = true) by (apply bytes_ok_cstr; assumption).
    rewrite (find_sub_spec cs (cstr s) needle sep start (length s - start) Hne Hn Bc Bn) by (rewrite cstr_length; lia).
    replace (start + (length s - start))%nat with (length s) by lia. reflexivity.
  - lia.
  - lia.
Qed.

Theorem find_last_str_max cs s sep : bytes_ok s = true -> bytes_ok sep = true -> size s < two63 ->
  find_last_str cs s size_max sep = Ok (pos_result (last_occ (ci_of cs) sep s)).
Proof.
  intros Bs Bp Hsz. unfold find_last_str, find_last_buf, last_occ. rewrite !size_zero.
  destruct sep as [|a sep']; [reflexivity|]. cbn [is_nil orb].
  destruct s as [|x t]; [reflexivity|].
  cbn [is_nil]. unfold size at 1. rewrite Nat2N.id.
  apply find_last_priv_max; try assumption; [discriminate|apply firstn_cstr|apply bytes_ok_cstr; assumption].
Qed.

Theorem find_last_cstr_max cs s p : bytes_ok s = true -> cstr_arg_ok p -> size s < two63 ->
  find_last_cstr cs s size_max p = Ok (pos_result (last_occ (ci_of cs) (cstr_arg_content p) s)).
Proof.
  intros Bs Hp Hsz. destruct p as [a|]; [|reflexivity]. destruct Hp as [Ba [k Hk]].
  unfold find_last_cstr, cstr_arg_content, last_occ. rewrite Hk.
  destruct (c_strlen_content a k Hk) as [K1 [K2 [K3 K4]]].
  destruct a as [|c0 t]; [simpl in K3; lia|].
  change (at_ (c0 :: t) 0) with (Ok (A:=N) c0). cbn [bind].
  rewrite size_zero.
  simpl c_content in *. destruct (c0 =? 0) eqn:E0; [reflexivity|].
  cbn [orb is_nil].
  destruct s as [|x s']; [reflexivity|].
  cbn [is_nil bind]. subst k.
  apply find_last_priv_max; try assumption. discriminate.
Qed.

Theorem find_last_char_max cs s ch : size s < two63 ->
  find_last_char cs s size_max ch = Ok (pos_result (last_occ (ci_of cs) [ch] s)).
Proof.
  intros Hsz. unfold find_last_char, last_occ. rewrite size_zero. cbn [is_nil].
  destruct s as [|x t]; [reflexivity|]. cbn [is_nil]. rewrite endp_of_max by exact Hsz.
  rewrite (find_last_loop_spec (ci_of cs) [ch] (cstr (x :: t)) (length (x :: t))).
  - cbn [bind]. rewrite window_full. destruct (last_occ_ne (ci_of cs) [ch] (x :: t)); reflexivity.
  - discriminate.
  - rewrite cstr_length. lia.
  - intros start Hs. rewrite find_ch_spec by (rewrite cstr_length; lia).
    replace (start + (length (x :: t) - start))%nat with (length (x :: t)) by lia.
    rewrite first_occ_single. reflexivity.
  - lia.
  - lia.
Qed.
