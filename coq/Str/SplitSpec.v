(* Str/SplitSpec.v — what C09 says, with no code structure.
   split cuts at the first `max` non-overlapping occurrences found left to right; tokenize returns
   the maximal non-empty runs of non-delimiters; replace substitutes every such occurrence.
   An empty separator / pattern leaves the text whole.                                        *)
From Coq Require Import NArith ZArith List Bool Lia.
From ST Require Import Str.SliceSpec.
Import ListNotations.
Local Open Scope N_scope.

(* cut at the first occurrence, continue on the suffix after it (at most `max` cuts).
   `fuel` only makes the recursion structural: each cut removes at least length sep >= 1 units,
   so S (length h) is always enough (SplitProofs: split_cut_fuel). *)
Fixpoint split_cut (fuel : nat) (ci : bool) (sep h : list N) (max : N) : list (list N) :=
  match fuel with
  | O => [h]
  | S f =>
      if max =? 0 then [h]
      else match first_occ ci sep h with
           | None => [h]
           | Some i => firstn i h :: split_cut f ci sep (skipn (i + length sep) h) (max - 1)
           end
  end.

Definition split_spec (ci : bool) (h sep : list N) (max : N) : list (list N) :=
  split_cut (S (length h)) ci sep h max.

Fixpoint join (sep : list N) (pieces : list (list N)) : list N :=
  match pieces with
  | [] => []
  | [p] => p
  | p :: rest => p ++ sep ++ join sep rest
  end.

(* number of cuts = number of replaced occurrences *)
Definition occ_count (ci : bool) (h sep : list N) : nat :=
  length (split_spec ci h sep (N.of_nat (length h))) - 1.

Definition replace_spec (ci : bool) (h from to : list N) : list N :=
  join to (split_spec ci h from (N.of_nat (length h))).

(* tokenize: maximal non-empty runs of units that are not delimiters *)
Fixpoint tokens (delims : list N) (l : list N) (cur_rev : list N) : list (list N) :=
  match l with
  | [] => match cur_rev with [] => [] | _ => [rev cur_rev] end
  | x :: t =>
      if in_set delims x
      then match cur_rev with [] => tokens delims t [] | _ => rev cur_rev :: tokens delims t [] end
      else tokens delims t (x :: cur_rev)
  end.
Definition tokenize_spec (s delims : list N) : list (list N) := tokens delims s [].

(* ---- well-formedness as the library's own validator sees it ------------------------------
   ST's validate_utf8 is structural only: lead byte class + the right number of continuation
   bytes (it accepts overlong forms, surrogates and values above 0x10FFFF).                 *)
Definition is_cont (c : N) : bool := (128 <=? c) && (c <? 192).
Fixpoint wf8s (l : list N) : bool :=
  match l with
  | [] => true
  | c :: t =>
      if c <? 128 then wf8s t
      else if (192 <=? c) && (c <? 224) then
        match t with c1 :: t1 => is_cont c1 && wf8s t1 | _ => false end
      else if (224 <=? c) && (c <? 240) then
        match t with c1 :: c2 :: t2 => is_cont c1 && is_cont c2 && wf8s t2 | _ => false end
      else if (240 <=? c) && (c <? 248) then
        match t with c1 :: c2 :: c3 :: t3 => is_cont c1 && is_cont c2 && is_cont c3 && wf8s t3 | _ => false end
      else false
  end.
