(* Str/SliceExamples.v — non-vacuity: concrete instances in which every hypothesis of the C08 / C09
   theorems holds and the conclusion is not trivial (evaluated by the kernel).                  *)
From Coq Require Import NArith ZArith List Bool Lia.
From ST Require Import Base.Outcome Base.Units Str.Model Str.SliceSpec Str.SliceModel Str.SplitSpec Str.SplitModel
     Str.SliceProofsBase Str.SliceProofsArith Str.SliceProofsFind Str.SliceProofsFront.
Import ListNotations.
Local Open Scope N_scope.

Definition abcd : list N := [97; 98; 99; 100].
Definition a__b__c : list N := [97; 45; 45; 98; 45; 45; 99].           (* "a--b--c" *)
Definition dashes : list N := [45; 45].

Lemma fits_small s : (length s < 1000)%nat -> fits s.
Proof. unfold fits, size, two63. lia. Qed.

Example ex_hyps_substr : fits abcd /\ ssize_range (-2)%Z /\ ssize_range (- Z.of_N two63)%Z /\ size_max - 1 < two64.
Proof. repeat split; try (apply fits_small; simpl; lia); unfold ssize_range, size_max, two63, two64; lia. Qed.

(* the three repaired defects, on the model *)
Example ex_substr_near_max : substr_model abcd 2%Z (size_max - 1) = Ok [99; 100].
Proof. vm_compute. reflexivity. Qed.
Example ex_substr_negative : substr_model abcd (-2)%Z 5 = Ok [99; 100].
Proof. vm_compute. reflexivity. Qed.
Example ex_substr_min : substr_model abcd (- Z.of_N two63)%Z 3 = Ok [97; 98; 99].
Proof. vm_compute. reflexivity. Qed.
Example ex_right_between : right_model abcd 6 = Ok abcd.
Proof. vm_compute. reflexivity. Qed.
Example ex_after_first_s : after_first_s CaseSensitive a__b__c dashes = Ok [98; 45; 45; 99].
Proof. vm_compute. reflexivity. Qed.
Example ex_after_last_s : after_last_s CaseSensitive a__b__c dashes = Ok [99].
Proof. vm_compute. reflexivity. Qed.

Example ex_hyps_sep : bytes_ok a__b__c = true /\ bytes_ok dashes = true /\ ~ In 0 dashes /\
                      cstr_arg_ok (Some (dashes ++ [0])) /\ first_occ false dashes a__b__c = Some 1%nat /\
                      last_occ false dashes a__b__c = Some 4%nat.
Proof.
  repeat split; try reflexivity.
  - simpl. intros [H|[H|H]]; try discriminate; exact H.
  - exists 2%nat. reflexivity.
Qed.

Example ex_trim : trim_model [32; 0; 65; 32; 0; 32] [32; 9; 0; 65] = Ok [0; 65; 32; 0] /\
                  c_strlen [32; 9; 0; 65] = Ok 2%nat.
Proof. split; vm_compute; reflexivity. Qed.

(* C09 *)
Definition a_b_c : list N := [97; 44; 98; 44; 99].                      (* "a,b,c" *)
Example ex_split : split_s CaseSensitive a_b_c [44] 1 = Ok [[97]; [98; 44; 99]] /\
                   split_c CaseInsensitive a_b_c 44 size_max = Ok [[97]; [98]; [99]] /\
                   split_z CaseSensitive a_b_c (Some [44; 0]) 5 = Ok [[97]; [98]; [99]] /\
                   split_s CaseSensitive [97; 0; 98] [] size_max = Ok [[97; 0; 98]].
Proof. repeat split; vm_compute; reflexivity. Qed.
Example ex_split_hyps : bytes_ok a_b_c = true /\ 0 < 44 /\ 44 < 128 /\ c_strlen [44; 0] = Ok 1%nat /\
                        size a_b_c < Gen.Consts.huge_buffer_size.
Proof. repeat split; vm_compute; reflexivity. Qed.
Example ex_split_revalidate :
  split_z CaseSensitive [97; 195; 169; 169] (Some [195; 169; 0]) 9 = Throw UnicodeError /\
  split_s CaseSensitive [97; 195; 169; 169] [195; 169] 9 = Ok [[97]; [169]].
Proof. split; vm_compute; reflexivity. Qed.
Example ex_replace : replace_model CaseSensitive [97; 97; 97; 98; 97] [97; 97] [120; 121; 122] = Ok [120; 121; 122; 97; 98; 97] /\
                     occ_count false [97; 97; 97; 98; 97] [97; 97] = 1%nat /\
                     replace_model CaseSensitive [255; 97] [98] [99] = Throw UnicodeError.
Proof. repeat split; vm_compute; reflexivity. Qed.
Example ex_replace_hyps :
  let s := [97; 97; 97; 98; 97] in let f := [97; 97] in let t := [120; 121; 122] in
  bytes_ok s = true /\ bytes_ok f = true /\ bytes_ok t = true /\ f <> [] /\ s <> [] /\ fits s /\
  size t < two64 /\ size f < two64 /\ fits (replace_spec false s f t).
Proof.
  cbv zeta. repeat split; try reflexivity; try discriminate; try (apply fits_small; vm_compute; lia).
Qed.
Example ex_tokenize : tokenize_model [32; 97; 32; 98; 98; 32; 9; 99] (Gen.Consts.whitespace ++ [0]) = Ok [[97]; [98; 98]; [99]].
Proof. vm_compute. reflexivity. Qed.
