(* Str/SliceProofsArith.v — C08: substr / left / right equal their specs for EVERY start in the
   ssize_t range and EVERY count / n below 2^64 (mixed signed/unsigned arithmetic, wrap-around
   written out in the model).                                                                *)
From Coq Require Import NArith ZArith List Bool Lia.
From ST Require Import Base.Outcome Base.Units Str.Model Str.SliceSpec Str.SliceModel Str.SliceProofsBase.
Import ListNotations.
Local Open Scope N_scope.
Ltac Zify.zify_post_hook ::= Z.div_mod_to_equations.

Definition ssize_range (z : Z) : Prop := (- Z.of_N two63 <= z < Z.of_N two63)%Z.

Lemma of_ssize_nonneg z : (0 <= z)%Z -> of_ssize z = Z.to_N z.
Proof. intros H. unfold of_ssize. destruct (0 <=? z)%Z eqn:E; [reflexivity|]. apply Z.leb_gt in E. lia. Qed.

Lemma sub64_le a b : b <= a -> sub64 a b = a - b.
Proof. intros H. unfold sub64. destruct (b <=? a) eqn:E; [reflexivity|]. apply N.leb_gt in E. lia. Qed.

(* start += max for a negative start: no wrap is visible, the result is the mathematical sum *)
Lemma norm_negative_start (start : Z) (max : N) :
  (start < 0)%Z -> ssize_range start -> max < two63 ->
  to_ssize (wrap64 (of_ssize start + max)) = (start + Z.of_N max)%Z.
Proof.
  unfold ssize_range, to_ssize, wrap64, of_ssize, two64, two63. intros Hneg Hr Hm.
  destruct (0 <=? start)%Z eqn:E0; [apply Z.leb_le in E0; lia|].
  set (x := Z.to_N (start + Z.of_N 18446744073709551616) + max).
  pose proof (N.mod_lt x 18446744073709551616 ltac:(lia)) as Hlt.
  pose proof (N.div_mod x 18446744073709551616 ltac:(lia)) as Hdm.
  set (q := x / 18446744073709551616) in *.
  set (r := x mod 18446744073709551616) in *.
  destruct (N.ltb_spec r 9223372036854775808) as [H|H]; subst x; lia.
Qed.

Lemma firstn_skipn_all {A} (l : list A) k : k = length l -> firstn k (skipn 0 l) = l.
Proof. intros ->. simpl. apply firstn_all. Qed.

(* the part of substr after the start has been normalised into [0, size] *)
Lemma substr_tail_spec s (b : Z) (count : N) :
  fits s -> (0 <= b <= Z.of_nat (length s))%Z ->
  substr_tail s b count =
  Ok (firstn (Z.to_nat (Z.min (Z.of_nat (length s)) (b + Z.of_N count) - b)) (skipn (Z.to_nat b) s)).
Proof.
  unfold fits, size. intros Hf Hb. unfold substr_tail, size.
  rewrite of_ssize_nonneg by lia.
  rewrite sub64_le by lia.
  set (max := N.of_nat (length s)) in *.
  set (c := if max - Z.to_N b <? count then max - Z.to_N b else count).
  assert (Hc : Z.of_N c = (Z.min (Z.of_nat (length s)) (b + Z.of_N count) - b)%Z).
  { subst c. destruct (N.ltb_spec (max - Z.to_N b) count); subst max; lia. }
  destruct ((b =? 0)%Z && (c =? max)) eqn:Ew.
  - apply andb_true_iff in Ew. destruct Ew as [E1 E2].
    apply Z.eqb_eq in E1. apply N.eqb_eq in E2. subst b.
    rewrite firstn_skipn_all; [reflexivity|]. subst max. lia.
  - rewrite allocate_ok by (unfold two63 in *; subst max; lia). cbn [bind].
    rewrite cstr_length.
    destruct (N.ltb_spec (N.of_nat (S (length s))) (Z.to_N b + c)) as [H|H]; [subst max; lia|].
    rewrite copy_out_cstr by (subst max; lia).
    f_equal. f_equal; [lia|]. f_equal. lia.
Qed.

Theorem substr_model_spec s (start : Z) (count : N) :
  fits s -> ssize_range start -> count < two64 ->
  substr_model s start count = Ok (substr_spec s start count).
Proof.
  intros Hf Hr Hc. unfold substr_model, substr_spec, slice_begin, slice_end.
  assert (Hm : size s < two63) by (unfold fits in Hf; lia).
  assert (Hsz : Z.of_N (size s) = Z.of_nat (length s)) by (unfold size; lia).
  set (n := Z.of_nat (length s)) in *.
  assert (Hn0 : (0 <= n)%Z) by (subst n; lia).
  set (cnt := if count =? size_max then size s else count).
  assert (Hcnt : forall b, (0 <= b <= n)%Z -> Z.min n (b + Z.of_N cnt) = Z.min n (b + Z.of_N count)).
  { intros b Hb. subst cnt. destruct (N.eqb_spec count size_max) as [E|E]; [|reflexivity].
    subst count. unfold size_max, two64, two63 in *. lia. }
  destruct (start <? 0)%Z eqn:Eneg.
  - apply Z.ltb_lt in Eneg.
    rewrite norm_negative_start by assumption. rewrite Hsz.
    destruct (start + n <? 0)%Z eqn:E2.
    + apply Z.ltb_lt in E2. rewrite substr_tail_spec by (try assumption; lia).
      fold n. rewrite Hcnt by lia. replace (Z.max 0 (start + n)) with 0%Z by lia. reflexivity.
    + apply Z.ltb_ge in E2. rewrite substr_tail_spec by (try assumption; lia).
      fold n. rewrite Hcnt by lia. replace (Z.max 0 (start + n)) with (start + n)%Z by lia. reflexivity.
  - apply Z.ltb_ge in Eneg. rewrite of_ssize_nonneg by assumption.
    destruct (N.ltb_spec (size s) (Z.to_N start)) as [H|H].
    + replace (Z.min start n) with n by lia.
      replace (Z.min n (n + Z.of_N count) - n)%Z with 0%Z by lia. reflexivity.
    + rewrite substr_tail_spec by (try assumption; lia).
      fold n. rewrite Hcnt by lia. replace (Z.min start n) with start by lia. reflexivity.
Qed.

(* ---- left / right ---- *)
Lemma substr_spec_0 s (k : N) : substr_spec s 0%Z k = left_spec s k.
Proof.
  unfold substr_spec, left_spec, min_len, slice_begin, slice_end.
  rewrite Z.ltb_irrefl.
  replace (Z.min 0 (Z.of_nat (length s))) with 0%Z by lia. simpl skipn.
  f_equal. lia.
Qed.

Theorem left_model_spec s (k : N) : fits s -> k < two64 -> left_model s k = Ok (left_spec s k).
Proof.
  intros Hf Hk. unfold left_model. rewrite substr_model_spec; try assumption.
  - rewrite substr_spec_0. reflexivity.
  - unfold ssize_range, two63. lia.
Qed.

Theorem right_model_spec s (k : N) : fits s -> k < two64 -> right_model s k = Ok (right_spec s k).
Proof.
  intros Hf Hk. unfold right_model.
  assert (Hm : size s < two63) by (unfold fits in Hf; lia).
  set (k' := if size s <? k then size s else k).
  assert (Hk' : k' = N.min k (size s)).
  { subst k'. destruct (N.ltb_spec (size s) k); lia. }
  rewrite sub64_le by lia.
  assert (Hs : to_ssize (size s - k') = Z.of_N (size s - k')).
  { unfold to_ssize. destruct (N.ltb_spec (size s - k') two63); [reflexivity|lia]. }
  rewrite Hs.
  rewrite substr_model_spec; try assumption; [|unfold ssize_range, two63 in *; lia|unfold two64 in *; lia].
  unfold substr_spec, right_spec, min_len, slice_begin, slice_end.
  fold (size s). rewrite <- Hk'.
  destruct (Z.of_N (size s - k') <? 0)%Z eqn:E; [apply Z.ltb_lt in E; lia|].
  unfold size in *.
  set (b := Z.min (Z.of_N (N.of_nat (length s) - k')) (Z.of_nat (length s))).
  replace (Z.to_nat b) with (length s - N.to_nat k')%nat by (subst b; lia).
  replace (Z.to_nat (Z.min (Z.of_nat (length s)) (b + Z.of_N k') - b)) with (length (skipn (length s - N.to_nat k') s)).
  - rewrite firstn_all. reflexivity.
  - rewrite skipn_length. subst b. lia.
Qed.

(* never a fault / abort / oversized allocation, for all start and count *)
Corollary substr_safe s start count :
  fits s -> ssize_range start -> count < two64 -> safe (substr_model s start count).
Proof. intros. rewrite substr_model_spec by assumption. exact I. Qed.

(* what the clamped range is, in the words of the property *)
Lemma substr_spec_length s start count :
  length (substr_spec s start count) =
  Z.to_nat (slice_end (Z.of_nat (length s)) (slice_begin (Z.of_nat (length s)) start) count
            - slice_begin (Z.of_nat (length s)) start).
Proof.
  unfold substr_spec. rewrite firstn_length, skipn_length.
  unfold slice_end, slice_begin. destruct (start <? 0)%Z eqn:E; [apply Z.ltb_lt in E|apply Z.ltb_ge in E]; lia.
Qed.
