(* Str/SliceProofsBA.v — C08: the twelve before_first / after_first / before_last / after_last
   overloads equal their specs; first_occ / last_occ ARE the least / greatest occurrence;
   before ++ occurrence ++ after reassembles the original; the overloads agree.               *)
From Coq Require Import NArith ZArith List Bool Lia.
From ST Require Import Base.Outcome Base.Units Str.Model Str.SliceSpec Str.SliceModel
     Str.SliceProofsBase Str.SliceProofsArith Str.SliceProofsFind Str.SliceProofsFront Str.SliceProofsTrim.
Import ListNotations.
Local Open Scope N_scope.
Local Open Scope outcome_scope.

(* ---- last_occ_ne facts ---- *)
Lemma last_occ_some ci sep : sep <> [] -> forall l i, last_occ_ne ci sep l = Some i ->
  prefix_match ci sep (skipn i l) = true /\ (i <= length l)%nat /\
  (forall j, (i < j)%nat -> prefix_match ci sep (skipn j l) = false).
Proof.
  intros Hne. induction l as [|x t IH]; intros i H; cbn [last_occ_ne] in H.
  - destruct sep; [congruence|]. simpl in H. discriminate.
  - destruct (last_occ_ne ci sep t) as [k|] eqn:Ek.
    + inversion H; subst. destruct (IH k eq_refl) as [I1 [I2 I3]].
      repeat split; [exact I1|simpl; lia|]. intros [|j] Hj; [lia|]. simpl. apply I3. lia.
    + destruct (prefix_match ci sep (x :: t)) eqn:E; inversion H; subst.
      repeat split; [exact E|simpl; lia|]. intros [|j] Hj; [lia|]. simpl.
      (* no occurrence in t at all *)
      clear - Ek. revert j. induction t as [|y u IHu]; intros j; cbn [last_occ_ne] in Ek.
      * rewrite skipn_nil. destruct (prefix_match ci sep []); [discriminate|reflexivity].
      * destruct (last_occ_ne ci sep u) eqn:Eu; [discriminate|].
        destruct (prefix_match ci sep (y :: u)) eqn:Ey; [discriminate|].
        destruct j as [|j]; [exact Ey|]. simpl. apply IHu. reflexivity.
Qed.

Lemma last_occ_fits ci sep l i : sep <> [] -> last_occ_ne ci sep l = Some i -> (i + length sep <= length l)%nat.
Proof.
  intros Hne H. destruct (last_occ_some ci sep Hne l i H) as [P [Hi _]].
  apply prefix_match_fits in P. rewrite skipn_length in P. lia.
Qed.

Lemma last_occ_none ci sep : forall l, last_occ_ne ci sep l = None ->
  forall j, prefix_match ci sep (skipn j l) = false.
Proof.
  induction l as [|y u IHu]; intros Ek j; cbn [last_occ_ne] in Ek.
  - rewrite skipn_nil. destruct (prefix_match ci sep []); [discriminate|reflexivity].
  - destruct (last_occ_ne ci sep u) eqn:Eu; [discriminate|].
    destruct (prefix_match ci sep (y :: u)) eqn:Ey; [discriminate|].
    destruct j as [|j]; [exact Ey|]. simpl. apply IHu. reflexivity.
Qed.

(* ---- first_occ / last_occ are the least / greatest occurrence ---- *)
Lemma prefix_match_occurs ci sep h j : sep <> [] ->
  (prefix_match ci sep (skipn j h) = true <-> occurs_at ci h sep j).
Proof.
  intros Hne. rewrite prefix_match_true. unfold occurs_at. rewrite skipn_length.
  assert (0 < length sep)%nat by (destruct sep; [congruence|simpl; lia]).
  split; intros [H1 H2]; (split; [lia|exact H2]).
Qed.

Theorem first_occ_least ci sep h i : sep <> [] ->
  (first_occ ci sep h = Some i <->
   occurs_at ci h sep i /\ forall j, (j < i)%nat -> ~ occurs_at ci h sep j).
Proof.
  intros Hne. unfold first_occ. destruct sep as [|a sep'] eqn:Es; [congruence|]. cbn [is_nil]. rewrite <- Es in *.
  assert (Hne' : sep <> []) by (rewrite Es; discriminate).
  split.
  - intros H. destruct (first_occ_some ci sep h i H) as [P1 P2]. split.
    + apply prefix_match_occurs; assumption.
    + intros j Hj Ho. apply prefix_match_occurs in Ho; [|assumption]. rewrite P2 in Ho by exact Hj. discriminate.
  - intros [Ho Hmin]. apply prefix_match_occurs in Ho; [|assumption].
    destruct (first_occ_ne ci sep h) as [i'|] eqn:E.
    + destruct (first_occ_some ci sep h i' E) as [P1 P2].
      destruct (Nat.lt_trichotomy i i') as [Hlt|[Heq|Hgt]]; [|congruence|].
      * rewrite P2 in Ho by exact Hlt. discriminate.
      * exfalso. apply (Hmin i' Hgt). apply prefix_match_occurs; assumption.
    + rewrite (first_occ_none ci sep h E i) in Ho. discriminate.
Qed.

Theorem first_occ_absent ci sep h :
  first_occ ci sep h = None <-> sep = [] \/ forall j, ~ occurs_at ci h sep j.
Proof.
  unfold first_occ. destruct sep as [|a sep'] eqn:Es; [cbn [is_nil]; split; [left; reflexivity|reflexivity]|].
  cbn [is_nil]. rewrite <- Es in *. assert (Hne : sep <> []) by (rewrite Es; discriminate).
  split.
  - intros H. right. intros j Ho. apply prefix_match_occurs in Ho; [|assumption].
    rewrite (first_occ_none ci sep h H j) in Ho. discriminate.
  - intros [H|H]; [congruence|].
    destruct (first_occ_ne ci sep h) as [i|] eqn:E; [|reflexivity].
    destruct (first_occ_some ci sep h i E) as [P1 _].
    exfalso. apply (H i). apply prefix_match_occurs; assumption.
Qed.

Theorem last_occ_greatest ci sep h i : sep <> [] ->
  (last_occ ci sep h = Some i <->
   occurs_at ci h sep i /\ forall j, (i < j)%nat -> ~ occurs_at ci h sep j).
Proof.
  intros Hne. unfold last_occ. destruct sep as [|a sep'] eqn:Es; [congruence|]. cbn [is_nil]. rewrite <- Es in *.
  assert (Hne' : sep <> []) by (rewrite Es; discriminate).
  split.
  - intros H. destruct (last_occ_some ci sep Hne' h i H) as [P1 [_ P2]]. split.
    + apply prefix_match_occurs; assumption.
    + intros j Hj Ho. apply prefix_match_occurs in Ho; [|assumption]. rewrite P2 in Ho by exact Hj. discriminate.
  - intros [Ho Hmax]. apply prefix_match_occurs in Ho; [|assumption].
    destruct (last_occ_ne ci sep h) as [i'|] eqn:E.
    + destruct (last_occ_some ci sep Hne' h i' E) as [P1 [_ P2]].
      destruct (Nat.lt_trichotomy i i') as [Hlt|[Heq|Hgt]]; [|congruence|].
      * exfalso. apply (Hmax i' Hlt). apply prefix_match_occurs; assumption.
      * rewrite P2 in Ho by exact Hgt. discriminate.
    + rewrite (last_occ_none ci sep h E i) in Ho. discriminate.
Qed.

Theorem last_occ_absent ci sep h :
  last_occ ci sep h = None <-> sep = [] \/ forall j, ~ occurs_at ci h sep j.
Proof.
  unfold last_occ. destruct sep as [|a sep'] eqn:Es; [cbn [is_nil]; split; [left; reflexivity|reflexivity]|].
  cbn [is_nil]. rewrite <- Es in *. assert (Hne : sep <> []) by (rewrite Es; discriminate).
  split.
  - intros H. right. intros j Ho. apply prefix_match_occurs in Ho; [|assumption].
    rewrite (last_occ_none ci sep h H j) in Ho. discriminate.
  - intros [H|H]; [congruence|].
    destruct (last_occ_ne ci sep h) as [i|] eqn:E; [|reflexivity].
    destruct (last_occ_some ci sep Hne h i E) as [P1 _].
    exfalso. apply (H i). apply prefix_match_occurs; assumption.
Qed.

Lemma first_occ_bound ci sep h i : first_occ ci sep h = Some i -> (i + length sep <= length h)%nat.
Proof. unfold first_occ. destruct (is_nil sep); [discriminate|]. apply first_occ_fits. Qed.
Lemma last_occ_bound ci sep h i : last_occ ci sep h = Some i -> (i + length sep <= length h)%nat.
Proof. unfold last_occ. destruct sep; [discriminate|]. cbn [is_nil]. apply last_occ_fits. discriminate. Qed.

(* ---- the common tails of the twelve overloads ---- *)
Lemma pos_result_some i : (0 <=? pos_result (Some i))%Z = true.
Proof. simpl. apply Z.leb_le. lia. Qed.

Lemma before_found_spec s (o : option nat) notfound :
  fits s -> (forall i, o = Some i -> (i <= length s)%nat) ->
  before_found s (pos_result o) notfound =
  Ok (match o with Some i => firstn i s | None => notfound end).
Proof.
  intros Hf Hb. unfold before_found. destruct o as [i|]; [|reflexivity].
  rewrite pos_result_some. specialize (Hb i eq_refl). simpl pos_result.
  rewrite of_ssize_nonneg by lia.
  rewrite left_model_spec; [|assumption|unfold fits, size, two63, two64 in *; lia].
  unfold left_spec, min_len. f_equal. f_equal. lia.
Qed.

Lemma after_tail s k : fits s -> (k <= length s)%nat ->
  substr_model s (Z.of_nat k) size_max = Ok (skipn k s).
Proof.
  intros Hf Hk. rewrite substr_model_spec; try assumption.
  - rewrite substr_spec_tail by assumption. reflexivity.
  - apply (ssize_range_offset s); assumption.
  - unfold size_max, two64. lia.
Qed.

Lemma ssize_plus_nat (i m : nat) : N.of_nat (i + m) < two63 ->
  ssize_plus (Z.of_nat i) (N.of_nat m) = Z.of_nat (i + m).
Proof.
  intros H. unfold ssize_plus. rewrite of_ssize_nonneg by lia.
  unfold wrap64, to_ssize, two64, two63 in *.
  rewrite N.mod_small by lia.
  destruct (N.ltb_spec (Z.to_N (Z.of_nat i) + N.of_nat m) 9223372036854775808); lia.
Qed.

(* after_*(char): substr(pos + 1) *)
Lemma after_found_c s (o : option nat) notfound :
  fits s -> (forall i, o = Some i -> (i + 1 <= length s)%nat) ->
  (if (0 <=? pos_result o)%Z then substr_model s (pos_result o + 1)%Z size_max else Ok notfound) =
  Ok (match o with Some i => skipn (i + 1) s | None => notfound end).
Proof.
  intros Hf Hb. destruct o as [i|]; [|reflexivity]. rewrite pos_result_some.
  specialize (Hb i eq_refl). simpl pos_result.
  replace (Z.of_nat i + 1)%Z with (Z.of_nat (i + 1)) by lia. apply after_tail; assumption.
Qed.

(* after_*(const string&) and after_*(const char* ): substr(pos + seplen) *)
Lemma after_found_n s (o : option nat) (m : nat) notfound :
  fits s -> (forall i, o = Some i -> (i + m <= length s)%nat) ->
  (if (0 <=? pos_result o)%Z then substr_model s (ssize_plus (pos_result o) (N.of_nat m)) size_max else Ok notfound) =
  Ok (match o with Some i => skipn (i + m) s | None => notfound end).
Proof.
  intros Hf Hb. destruct o as [i|]; [|reflexivity]. rewrite pos_result_some.
  specialize (Hb i eq_refl). simpl pos_result.
  rewrite ssize_plus_nat by (unfold fits, size, two63 in *; lia). apply after_tail; assumption.
Qed.

(* ---- ST::string separators ---- *)
Section StringSep.
  Variables (cs : case_sens) (s sep : list N).
  Hypothesis Hf : fits s.
  Hypothesis Bs : bytes_ok s = true.
  Hypothesis Bp : bytes_ok sep = true.
  Let ci := ci_of cs.
  Let Hsz : size s < two63.
  Proof. unfold fits, two63 in *. lia. Qed.

  Theorem before_first_s_spec : before_first_s cs s sep = Ok (before_first_spec ci s sep).
  Proof.
    unfold before_first_s, before_first_spec. rewrite find_str_0 by assumption. cbn [bind].
    apply before_found_spec; [assumption|]. intros i Hi. apply first_occ_bound in Hi. lia.
  Qed.

  Theorem before_last_s_spec : before_last_s cs s sep = Ok (before_last_spec ci s sep).
  Proof.
    unfold before_last_s, before_last_spec. rewrite find_last_str_max by assumption. cbn [bind].
    apply before_found_spec; [assumption|]. intros i Hi. apply last_occ_bound in Hi. lia.
  Qed.

  Theorem after_first_s_spec : after_first_s cs s sep = Ok (after_first_spec ci s sep).
  Proof.
    unfold after_first_s, after_first_spec. rewrite find_str_0 by assumption. cbn [bind].
    unfold size. apply after_found_n; [assumption|]. intros i Hi. apply first_occ_bound in Hi. exact Hi.
  Qed.

  Theorem after_last_s_spec : after_last_s cs s sep = Ok (after_last_spec ci s sep).
  Proof.
    unfold after_last_s, after_last_spec. rewrite find_last_str_max by assumption. cbn [bind].
    unfold size. apply after_found_n; [assumption|]. intros i Hi. apply last_occ_bound in Hi. exact Hi.
  Qed.
End StringSep.

(* ---- char separators ---- *)
Section CharSep.
  Variables (cs : case_sens) (s : list N) (ch : N).
  Hypothesis Hf : fits s.
  Let ci := ci_of cs.
  Let Hsz : size s < two63.
  Proof. unfold fits, two63 in *. lia. Qed.

  Theorem before_first_c_spec : before_first_c cs s ch = Ok (before_first_spec ci s [ch]).
  Proof.
    unfold before_first_c, before_first_spec. rewrite find_char_0. cbn [bind].
    apply before_found_spec; [assumption|]. intros i Hi. apply first_occ_bound in Hi. lia.
  Qed.

  Theorem before_last_c_spec : before_last_c cs s ch = Ok (before_last_spec ci s [ch]).
  Proof.
    unfold before_last_c, before_last_spec. rewrite find_last_char_max by assumption. cbn [bind].
    apply before_found_spec; [assumption|]. intros i Hi. apply last_occ_bound in Hi. lia.
  Qed.

  Theorem after_first_c_spec : after_first_c cs s ch = Ok (after_first_spec ci s [ch]).
  Proof.
    unfold after_first_c, after_first_spec. rewrite find_char_0. cbn [bind].
    apply after_found_c; [assumption|]. intros i Hi. apply first_occ_bound in Hi. exact Hi.
  Qed.

  Theorem after_last_c_spec : after_last_c cs s ch = Ok (after_last_spec ci s [ch]).
  Proof.
    unfold after_last_c, after_last_spec. rewrite find_last_char_max by assumption. cbn [bind].
    apply after_found_c; [assumption|]. intros i Hi. apply last_occ_bound in Hi. exact Hi.
  Qed.
End CharSep.

(* ---- const char* separators (nullptr included) ---- *)
Section CStrSep.
  Variables (cs : case_sens) (s : list N) (p : option (list N)).
  Hypothesis Hf : fits s.
  Hypothesis Bs : bytes_ok s = true.
  Hypothesis Hp : cstr_arg_ok p.
  Let ci := ci_of cs.
  Let sep := cstr_arg_content p.
  Let Hsz : size s < two63.
  Proof. unfold fits, two63 in *. lia. Qed.

  Theorem before_first_z_spec : before_first_z cs s p = Ok (before_first_spec ci s sep).
  Proof.
    unfold before_first_z, before_first_spec. rewrite find_cstr_0 by assumption. cbn [bind].
    apply before_found_spec; [assumption|]. intros i Hi. apply first_occ_bound in Hi. lia.
  Qed.

  Theorem before_last_z_spec : before_last_z cs s p = Ok (before_last_spec ci s sep).
  Proof.
    unfold before_last_z, before_last_spec. rewrite find_last_cstr_max by assumption. cbn [bind].
    apply before_found_spec; [assumption|]. intros i Hi. apply last_occ_bound in Hi. lia.
  Qed.

  (* on the found branch the separator is not null and strlen gives the content's length *)
  Lemma sep_strlen_found (o : option nat) :
    (o <> None -> sep <> []) ->
    forall notfound,
    (if (0 <=? pos_result o)%Z
     then n <- sep_strlen p ;; substr_model s (ssize_plus (pos_result o) n) size_max
     else Ok notfound) =
    (if (0 <=? pos_result o)%Z
     then substr_model s (ssize_plus (pos_result o) (N.of_nat (length sep))) size_max
     else Ok notfound).
  Proof.
    intros Hne notfound. destruct o as [i|]; [|reflexivity]. rewrite pos_result_some.
    assert (Hs : sep <> []) by (apply Hne; discriminate).
    subst sep. destruct p as [a|]; [|simpl in Hs; congruence].
    destruct Hp as [_ [k Hk]]. unfold sep_strlen. rewrite Hk. cbn [bind].
    destruct (c_strlen_content a k Hk) as [K1 _]. simpl cstr_arg_content. rewrite <- K1. reflexivity.
  Qed.

  Theorem after_first_z_spec : after_first_z cs s p = Ok (after_first_spec ci s sep).
  Proof.
    unfold after_first_z, after_first_spec. rewrite find_cstr_0 by assumption. cbn [bind].
    fold sep ci. rewrite sep_strlen_found.
    - apply after_found_n; [assumption|]. intros i Hi. apply first_occ_bound in Hi. exact Hi.
    - intros Ho Hs. apply Ho. unfold first_occ. rewrite Hs. reflexivity.
  Qed.

  Theorem after_last_z_spec : after_last_z cs s p = Ok (after_last_spec ci s sep).
  Proof.
    unfold after_last_z, after_last_spec. rewrite find_last_cstr_max by assumption. cbn [bind].
    fold sep ci. rewrite sep_strlen_found.
    - apply after_found_n; [assumption|]. intros i Hi. apply last_occ_bound in Hi. exact Hi.
    - intros Ho Hs. apply Ho. unfold last_occ. rewrite Hs. reflexivity.
  Qed.
End CStrSep.

(* ---- reassembly ---- *)
Lemma split3 (h : list N) i m : firstn i h ++ firstn m (skipn i h) ++ skipn (i + m) h = h.
Proof.
  rewrite <- (skipn_skipn' m i h). rewrite (firstn_skipn m (skipn i h)). apply firstn_skipn.
Qed.

Theorem reassemble_first ci h sep i : first_occ ci sep h = Some i ->
  before_first_spec ci h sep ++ occurrence h sep i ++ after_first_spec ci h sep = h /\
  map (fold_c ci) (occurrence h sep i) = map (fold_c ci) sep.
Proof.
  intros H. unfold before_first_spec, after_first_spec, occurrence. rewrite H. split; [apply split3|].
  unfold first_occ in H. destruct (is_nil sep); [discriminate|].
  destruct (first_occ_some ci sep h i H) as [P _]. apply prefix_match_true in P. tauto.
Qed.

Theorem reassemble_last ci h sep i : last_occ ci sep h = Some i ->
  before_last_spec ci h sep ++ occurrence h sep i ++ after_last_spec ci h sep = h /\
  map (fold_c ci) (occurrence h sep i) = map (fold_c ci) sep.
Proof.
  intros H. unfold before_last_spec, after_last_spec, occurrence. rewrite H. split; [apply split3|].
  unfold last_occ in H. destruct sep as [|a sep'] eqn:Es; [discriminate|]. cbn [is_nil] in H.
  destruct (last_occ_some ci (a :: sep') ltac:(discriminate) h i H) as [P _]. apply prefix_match_true in P. tauto.
Qed.

Lemma map_fold_false l : map (fold_c false) l = l.
Proof. induction l as [|x t IH]; [reflexivity|]. simpl. rewrite IH. reflexivity. Qed.

(* case-sensitively the occurrence IS the separator: before + separator + after = original *)
Corollary reassemble_first_cs h sep i : first_occ false sep h = Some i ->
  before_first_spec false h sep ++ sep ++ after_first_spec false h sep = h.
Proof.
  intros H. destruct (reassemble_first false h sep i H) as [R1 R2].
  rewrite !map_fold_false in R2. rewrite <- R2 at 2. exact R1.
Qed.
Corollary reassemble_last_cs h sep i : last_occ false sep h = Some i ->
  before_last_spec false h sep ++ sep ++ after_last_spec false h sep = h.
Proof.
  intros H. destruct (reassemble_last false h sep i H) as [R1 R2].
  rewrite !map_fold_false in R2. rewrite <- R2 at 2. exact R1.
Qed.

(* when the separator does not occur (or is empty) *)
Theorem not_found_clauses ci h sep : first_occ ci sep h = None ->
  before_first_spec ci h sep = h /\ after_first_spec ci h sep = [] /\
  before_last_spec ci h sep = [] /\ after_last_spec ci h sep = h.
Proof.
  intros H. assert (H' : last_occ ci sep h = None).
  { apply last_occ_absent. apply first_occ_absent. exact H. }
  unfold before_first_spec, after_first_spec, before_last_spec, after_last_spec. rewrite H, H'. tauto.
Qed.

(* ---- the overload forms agree ---- *)
Lemma cstr_arg_of_bytes sep : bytes_ok sep = true -> ~ In 0 sep ->
  cstr_arg_ok (Some (sep ++ [0])) /\ cstr_arg_content (Some (sep ++ [0])) = sep.
Proof.
  intros B H. split.
  - split; [apply bytes_ok_cstr; exact B|]. exists (length sep). apply c_strlen_app0. exact H.
  - simpl. apply c_content_app0. exact H.
Qed.

Theorem overloads_agree_z_s cs s sep :
  fits s -> bytes_ok s = true -> bytes_ok sep = true -> ~ In 0 sep ->
  before_first_z cs s (Some (sep ++ [0])) = before_first_s cs s sep /\
  after_first_z cs s (Some (sep ++ [0])) = after_first_s cs s sep /\
  before_last_z cs s (Some (sep ++ [0])) = before_last_s cs s sep /\
  after_last_z cs s (Some (sep ++ [0])) = after_last_s cs s sep.
Proof.
  intros Hf Bs Bp H0. destruct (cstr_arg_of_bytes sep Bp H0) as [Hok Hc].
  rewrite before_first_z_spec, after_first_z_spec, before_last_z_spec, after_last_z_spec by assumption.
  rewrite before_first_s_spec, after_first_s_spec, before_last_s_spec, after_last_s_spec by assumption.
  rewrite Hc. tauto.
Qed.

Theorem overloads_agree_c_s cs s ch :
  fits s -> bytes_ok s = true -> ch < 256 ->
  before_first_c cs s ch = before_first_s cs s [ch] /\
  after_first_c cs s ch = after_first_s cs s [ch] /\
  before_last_c cs s ch = before_last_s cs s [ch] /\
  after_last_c cs s ch = after_last_s cs s [ch].
Proof.
  intros Hf Bs Hc.
  assert (Bp : bytes_ok [ch] = true).
  { unfold bytes_ok, all_lt. simpl. rewrite andb_true_r. apply N.ltb_lt. exact Hc. }
  rewrite before_first_c_spec, after_first_c_spec, before_last_c_spec, after_last_c_spec by assumption.
  rewrite before_first_s_spec, after_first_s_spec, before_last_s_spec, after_last_s_spec by assumption.
  tauto.
Qed.
