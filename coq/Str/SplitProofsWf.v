(* Str/SplitProofsWf.v — C09: UTF-8 self-synchronisation for split / replace.
   If the text and a non-empty separator are structurally well formed (wf8s), every piece of
   split_spec is well formed, and so is replace_spec with a well-formed replacement.  The reason:
   folding only moves ASCII letters, a well-formed separator starts with a non-continuation byte,
   and in a well-formed text every non-continuation byte starts a character.                  *)
From Coq Require Import NArith PeanoNat List Bool Lia.
From ST Require Import Str.SliceSpec Str.SplitSpec Str.SliceProofsBase Str.SliceProofsFind Str.SliceProofsFront Str.SplitProofs Str.SplitProofsVal.
Import ListNotations.
Local Open Scope N_scope.

(* ---- byte classes ------------------------------------------------------------------------------ *)
Lemma is_cont_range c : is_cont c = true -> 128 <= c /\ c < 192.
Proof.
  unfold is_cont. intros H. apply andb_true_iff in H. destruct H as [H1 H2].
  apply N.leb_le in H1. apply N.ltb_lt in H2. split; assumption.
Qed.

Lemma fold_hi ci c c' : 128 <= c -> fold_c ci c = fold_c ci c' -> c' = c.
Proof.
  unfold fold_c. intros Hc.
  destruct ci; cbn [andb]; [|intros E; symmetry; exact E].
  destruct (N.leb_spec 65 c) as [A1|A1]; destruct (N.leb_spec c 90) as [A2|A2];
  destruct (N.leb_spec 65 c') as [A3|A3]; destruct (N.leb_spec c' 90) as [A4|A4]; cbn [andb]; lia.
Qed.

Lemma fold_lo ci c c' : c < 128 -> fold_c ci c = fold_c ci c' -> c' < 128.
Proof.
  unfold fold_c. intros Hc.
  destruct ci; cbn [andb]; [|intros E; rewrite <- E; exact Hc].
  destruct (N.leb_spec 65 c) as [A1|A1]; destruct (N.leb_spec c 90) as [A2|A2];
  destruct (N.leb_spec 65 c') as [A3|A3]; destruct (N.leb_spec c' 90) as [A4|A4]; cbn [andb]; lia.
Qed.

(* ---- wf8s, one character at a time ------------------------------------------------------------- *)
Lemma range_true lo hi c : lo <= c -> c < hi -> ((lo <=? c) && (c <? hi)) = true.
Proof. intros H1 H2. apply andb_true_iff. split; [apply N.leb_le|apply N.ltb_lt]; assumption. Qed.

Lemma range_false lo hi c : c < lo \/ hi <= c -> ((lo <=? c) && (c <? hi)) = false.
Proof.
  intros [H|H]; apply andb_false_iff; [left; apply N.leb_gt|right; apply N.ltb_ge]; exact H.
Qed.

Lemma wf8s_c1 c t : c < 128 -> wf8s (c :: t) = wf8s t.
Proof. intros H. rewrite wf8s_cons. apply N.ltb_lt in H. rewrite H. reflexivity. Qed.

Lemma wf8s_c2 c c1 t : 192 <= c -> c < 224 -> wf8s (c :: c1 :: t) = is_cont c1 && wf8s t.
Proof.
  intros H1 H2. rewrite wf8s_cons.
  assert (E1 : (c <? 128) = false) by (apply N.ltb_ge; lia).
  rewrite E1, (range_true 192 224 c H1 H2). reflexivity.
Qed.

Lemma wf8s_c3 c c1 c2 t : 224 <= c -> c < 240 ->
  wf8s (c :: c1 :: c2 :: t) = is_cont c1 && is_cont c2 && wf8s t.
Proof.
  intros H1 H2. rewrite wf8s_cons.
  assert (E1 : (c <? 128) = false) by (apply N.ltb_ge; lia).
  rewrite E1, (range_false 192 224 c) by lia. rewrite (range_true 224 240 c H1 H2). reflexivity.
Qed.

Lemma wf8s_c4 c c1 c2 c3 t : 240 <= c -> c < 248 ->
  wf8s (c :: c1 :: c2 :: c3 :: t) = is_cont c1 && is_cont c2 && is_cont c3 && wf8s t.
Proof.
  intros H1 H2. rewrite wf8s_cons.
  assert (E1 : (c <? 128) = false) by (apply N.ltb_ge; lia).
  rewrite E1, (range_false 192 224 c) by lia. rewrite (range_false 224 240 c) by lia.
  rewrite (range_true 240 248 c H1 H2). reflexivity.
Qed.

(* a well-formed string never starts with a continuation byte *)
Lemma wf8s_head c t : wf8s (c :: t) = true -> is_cont c = false.
Proof.
  intros H. destruct (is_cont c) eqn:E; [|reflexivity]. apply is_cont_range in E.
  rewrite wf8s_cons in H.
  assert (E1 : (c <? 128) = false) by (apply N.ltb_ge; lia).
  rewrite E1, (range_false 192 224 c), (range_false 224 240 c), (range_false 240 248 c) in H by lia.
  discriminate.
Qed.

(* the same predicate as a derivation: one constructor per character width *)
Inductive WF : list N -> Prop :=
| WF_nil : WF []
| WF_1 c t : c < 128 -> WF t -> WF (c :: t)
| WF_2 c c1 t : 192 <= c -> c < 224 -> is_cont c1 = true -> WF t -> WF (c :: c1 :: t)
| WF_3 c c1 c2 t : 224 <= c -> c < 240 -> is_cont c1 = true -> is_cont c2 = true -> WF t ->
    WF (c :: c1 :: c2 :: t)
| WF_4 c c1 c2 c3 t : 240 <= c -> c < 248 ->
    is_cont c1 = true -> is_cont c2 = true -> is_cont c3 = true -> WF t ->
    WF (c :: c1 :: c2 :: c3 :: t).

Lemma WF_wf8s l : WF l -> wf8s l = true.
Proof.
  induction 1 as [|c t L W IH|c c1 t L1 L2 K1 W IH|c c1 c2 t L1 L2 K1 K2 W IH
                 |c c1 c2 c3 t L1 L2 K1 K2 K3 W IH].
  - reflexivity.
  - rewrite wf8s_c1 by exact L. exact IH.
  - rewrite wf8s_c2 by assumption. rewrite K1, IH. reflexivity.
  - rewrite wf8s_c3 by assumption. rewrite K1, K2, IH. reflexivity.
  - rewrite wf8s_c4 by assumption. rewrite K1, K2, K3, IH. reflexivity.
Qed.

Lemma wf8s_WF_len : forall n l, (length l <= n)%nat -> wf8s l = true -> WF l.
Proof.
  induction n as [|n IH]; intros l Hl H.
  - destruct l; [constructor|simpl in Hl; lia].
  - destruct l as [|c t]; [constructor|]. simpl in Hl. rewrite wf8s_cons in H.
    destruct (N.ltb_spec c 128) as [L0|L0].
    { apply WF_1; [exact L0|]. apply IH; [lia|exact H]. }
    destruct ((192 <=? c) && (c <? 224)) eqn:E2.
    { apply andb_true_iff in E2. destruct E2 as [A B]. apply N.leb_le in A. apply N.ltb_lt in B.
      destruct t as [|c1 t1]; [discriminate|]. apply andb_true_iff in H. destruct H as [K1 H].
      simpl in Hl. apply WF_2; try assumption. apply IH; [lia|exact H]. }
    destruct ((224 <=? c) && (c <? 240)) eqn:E3.
    { apply andb_true_iff in E3. destruct E3 as [A B]. apply N.leb_le in A. apply N.ltb_lt in B.
      destruct t as [|c1 [|c2 t2]]; try discriminate.
      apply andb_true_iff in H. destruct H as [H H3]. apply andb_true_iff in H. destruct H as [K1 K2].
      simpl in Hl. apply WF_3; try assumption. apply IH; [lia|exact H3]. }
    destruct ((240 <=? c) && (c <? 248)) eqn:E4; [|discriminate].
    apply andb_true_iff in E4. destruct E4 as [A B]. apply N.leb_le in A. apply N.ltb_lt in B.
    destruct t as [|c1 [|c2 [|c3 t3]]]; try discriminate.
    apply andb_true_iff in H. destruct H as [H H4]. apply andb_true_iff in H. destruct H as [H K3].
    apply andb_true_iff in H. destruct H as [K1 K2].
    simpl in Hl. apply WF_4; try assumption. apply IH; [lia|exact H4].
Qed.

Lemma wf8s_WF l : wf8s l = true -> WF l.
Proof. apply (wf8s_WF_len (length l)). apply Nat.le_refl. Qed.

(* ---- concatenation ------------------------------------------------------------------------------- *)
Lemma WF_app_eq x y : WF x -> wf8s (x ++ y) = wf8s y.
Proof.
  induction 1 as [|c t L W IH|c c1 t L1 L2 K1 W IH|c c1 c2 t L1 L2 K1 K2 W IH
                 |c c1 c2 c3 t L1 L2 K1 K2 K3 W IH]; cbn [app].
  - reflexivity.
  - rewrite wf8s_c1 by exact L. exact IH.
  - rewrite wf8s_c2 by assumption. rewrite K1, IH. reflexivity.
  - rewrite wf8s_c3 by assumption. rewrite K1, K2, IH. reflexivity.
  - rewrite wf8s_c4 by assumption. rewrite K1, K2, K3, IH. reflexivity.
Qed.

Lemma wf8s_app_eq x y : wf8s x = true -> wf8s (x ++ y) = wf8s y.
Proof. intros H. apply WF_app_eq. apply wf8s_WF. exact H. Qed.

Lemma wf8s_app x y : wf8s x = true -> wf8s y = true -> wf8s (x ++ y) = true.
Proof. intros Hx Hy. rewrite wf8s_app_eq by exact Hx. exact Hy. Qed.

Lemma wf8s_app_inv x y : wf8s x = true -> wf8s (x ++ y) = true -> wf8s y = true.
Proof. intros Hx H. rewrite wf8s_app_eq in H by exact Hx. exact H. Qed.

(* ---- folding keeps the class skeleton -------------------------------------------------------------- *)
Lemma WF_fold_eq ci a : WF a -> forall b, map (fold_c ci) a = map (fold_c ci) b -> wf8s b = true.
Proof.
  induction 1 as [|c t L W IH|c c1 t L1 L2 K1 W IH|c c1 c2 t L1 L2 K1 K2 W IH
                 |c c1 c2 c3 t L1 L2 K1 K2 K3 W IH]; intros b E.
  - destruct b; [reflexivity|discriminate].
  - destruct b as [|d b]; [discriminate|]. cbn [map] in E. injection E as E0 E.
    rewrite wf8s_c1 by (exact (fold_lo ci c d L E0)). apply IH. exact E.
  - destruct b as [|d [|d1 b]]; try discriminate. cbn [map] in E. injection E as E0 E1 E.
    apply is_cont_range in K1 as R1.
    apply fold_hi in E0; [|lia]. apply fold_hi in E1; [|lia]. subst d d1.
    rewrite wf8s_c2 by assumption. rewrite K1. apply IH. exact E.
  - destruct b as [|d [|d1 [|d2 b]]]; try discriminate. cbn [map] in E. injection E as E0 E1 E2 E.
    apply is_cont_range in K1 as R1. apply is_cont_range in K2 as R2.
    apply fold_hi in E0; [|lia]. apply fold_hi in E1; [|lia]. apply fold_hi in E2; [|lia].
    subst d d1 d2.
    rewrite wf8s_c3 by assumption. rewrite K1, K2. apply IH. exact E.
  - destruct b as [|d [|d1 [|d2 [|d3 b]]]]; try discriminate. cbn [map] in E.
    injection E as E0 E1 E2 E3 E.
    apply is_cont_range in K1 as R1. apply is_cont_range in K2 as R2. apply is_cont_range in K3 as R3.
    apply fold_hi in E0; [|lia]. apply fold_hi in E1; [|lia]. apply fold_hi in E2; [|lia].
    apply fold_hi in E3; [|lia]. subst d d1 d2 d3.
    rewrite wf8s_c4 by assumption. rewrite K1, K2, K3. apply IH. exact E.
Qed.

Lemma wf8s_fold_imp ci a b : map (fold_c ci) a = map (fold_c ci) b -> wf8s a = true -> wf8s b = true.
Proof. intros E H. apply (WF_fold_eq ci a); [apply wf8s_WF; exact H|exact E]. Qed.

Theorem wf8s_fold_eq ci a b : map (fold_c ci) a = map (fold_c ci) b -> wf8s a = wf8s b.
Proof.
  intros E. destruct (wf8s a) eqn:Ha.
  - symmetry. exact (wf8s_fold_imp ci a b E Ha).
  - destruct (wf8s b) eqn:Hb; [|reflexivity].
    rewrite (wf8s_fold_imp ci b a (eq_sym E) Hb) in Ha. discriminate.
Qed.

(* ---- self-synchronisation: a non-continuation byte of a well-formed text starts a character ---- *)
Definition starts_char (l : list N) : Prop :=
  match l with [] => True | b :: _ => is_cont b = false end.

Lemma WF_boundary h : WF h -> forall i, starts_char (skipn i h) ->
  wf8s (firstn i h) = true /\ wf8s (skipn i h) = true.
Proof.
  induction 1 as [|c t L W IH|c c1 t L1 L2 K1 W IH|c c1 c2 t L1 L2 K1 K2 W IH
                 |c c1 c2 c3 t L1 L2 K1 K2 K3 W IH]; intros i P.
  - rewrite firstn_nil, skipn_nil. split; reflexivity.
  - destruct i as [|i].
    + split; [reflexivity|]. apply WF_wf8s. apply WF_1; assumption.
    + cbn [firstn skipn] in *. destruct (IH i P) as [I1 I2].
      rewrite wf8s_c1 by exact L. split; assumption.
  - destruct i as [|[|i]].
    + split; [reflexivity|]. apply WF_wf8s. apply WF_2; assumption.
    + cbn [skipn starts_char] in P. congruence.
    + cbn [firstn skipn] in *. destruct (IH i P) as [I1 I2].
      rewrite wf8s_c2 by assumption. rewrite K1, I1. split; [reflexivity|exact I2].
  - destruct i as [|[|[|i]]].
    + split; [reflexivity|]. apply WF_wf8s. apply WF_3; assumption.
    + cbn [skipn starts_char] in P. congruence.
    + cbn [skipn starts_char] in P. congruence.
    + cbn [firstn skipn] in *. destruct (IH i P) as [I1 I2].
      rewrite wf8s_c3 by assumption. rewrite K1, K2, I1. split; [reflexivity|exact I2].
  - destruct i as [|[|[|[|i]]]].
    + split; [reflexivity|]. apply WF_wf8s. apply WF_4; assumption.
    + cbn [skipn starts_char] in P. congruence.
    + cbn [skipn starts_char] in P. congruence.
    + cbn [skipn starts_char] in P. congruence.
    + cbn [firstn skipn] in *. destruct (IH i P) as [I1 I2].
      rewrite wf8s_c4 by assumption. rewrite K1, K2, K3, I1. split; [reflexivity|exact I2].
Qed.

(* where a non-empty well-formed separator matches, a character starts *)
Lemma match_starts_char ci sep l : sep <> [] -> wf8s sep = true ->
  prefix_match ci sep l = true -> starts_char l.
Proof.
  intros Hne Hs P. destruct sep as [|a s]; [congruence|]. destruct l as [|b l]; [exact I|].
  cbn [prefix_match] in P. apply andb_true_iff in P. destruct P as [E _]. apply N.eqb_eq in E.
  cbn [starts_char]. destruct (is_cont b) eqn:K; [|reflexivity].
  apply is_cont_range in K as R. symmetry in E. apply fold_hi in E; [|lia]. subst a.
  rewrite (wf8s_head b s Hs) in K. discriminate.
Qed.

(* an occurrence of sep at position i of a well-formed text splits it into three well-formed parts *)
Theorem occurrence_wf ci h sep i : wf8s h = true -> wf8s sep = true -> sep <> [] ->
  prefix_match ci sep (skipn i h) = true ->
  wf8s (firstn i h) = true /\ wf8s (occurrence h sep i) = true /\
  wf8s (skipn (i + length sep) h) = true.
Proof.
  intros Hh Hs Hne P.
  destruct (WF_boundary h (wf8s_WF h Hh) i (match_starts_char ci sep _ Hne Hs P)) as [B1 B2].
  apply prefix_match_true in P. destruct P as [_ P].
  assert (O : wf8s (occurrence h sep i) = true).
  { unfold occurrence. exact (wf8s_fold_imp ci sep _ (eq_sym P) Hs). }
  split; [exact B1|]. split; [exact O|].
  rewrite <- skipn_skipn'.
  apply (wf8s_app_inv (firstn (length sep) (skipn i h))); [exact O|].
  rewrite firstn_skipn. exact B2.
Qed.

(* ---- split ------------------------------------------------------------------------------------------ *)
Lemma split_cut_wf ci sep : wf8s sep = true -> sep <> [] -> forall fuel h max,
  wf8s h = true -> forallb wf8s (split_cut fuel ci sep h max) = true.
Proof.
  intros Hs Hne. induction fuel as [|f IH]; intros h max Hh; cbn [split_cut].
  - cbn [forallb]. rewrite Hh. reflexivity.
  - destruct (max =? 0); [cbn [forallb]; rewrite Hh; reflexivity|].
    destruct (first_occ ci sep h) as [i|] eqn:E; [|cbn [forallb]; rewrite Hh; reflexivity].
    unfold first_occ in E. destruct (is_nil sep); [discriminate|].
    destruct (first_occ_some ci sep h i E) as [P _].
    destruct (occurrence_wf ci h sep i Hh Hs Hne P) as [W1 [_ W3]].
    cbn [forallb]. rewrite W1. cbn [andb]. apply IH. exact W3.
Qed.

Theorem pieces_wf ci h sep max :
  wf8s h = true -> wf8s sep = true -> sep <> [] ->
  forallb wf8s (split_spec ci h sep max) = true.
Proof. intros Hh Hs Hne. unfold split_spec. apply split_cut_wf; assumption. Qed.

(* ---- replace ---------------------------------------------------------------------------------------- *)
Lemma join_wf sep : wf8s sep = true -> forall ps, forallb wf8s ps = true -> wf8s (join sep ps) = true.
Proof.
  intros Hs. induction ps as [|p rest IH]; intros H; [reflexivity|].
  cbn [forallb] in H. apply andb_true_iff in H. destruct H as [Hp Hr].
  destruct rest as [|q rest']; [exact Hp|].
  rewrite join_cons by discriminate.
  apply wf8s_app; [exact Hp|]. apply wf8s_app; [exact Hs|]. apply IH. exact Hr.
Qed.

Theorem replace_wf ci h from to :
  wf8s h = true -> wf8s from = true -> wf8s to = true ->
  wf8s (replace_spec ci h from to) = true.
Proof.
  intros Hh Hf Ht. unfold replace_spec. destruct from as [|a f].
  - rewrite split_empty_sep. exact Hh.
  - apply join_wf; [exact Ht|]. apply pieces_wf; [exact Hh|exact Hf|discriminate].
Qed.
