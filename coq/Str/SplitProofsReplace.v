(* Str/SplitProofsReplace.v — C09: replace.  The counting scan and the copying scan visit the
   same occurrences: the size computed in wrap-around size_t arithmetic is exactly the number of
   bytes the copy writes (no OOBWrite, no Unwritten), the bytes are join to (split h from), the
   length law holds, and the validating constructor is the only way replace can throw.        *)
From Coq Require Import NArith ZArith List Bool Lia PeanoNat.
From ST Require Import Base.Outcome Base.Units Gen.Consts Str.Model Str.SliceSpec Str.SliceModel Str.SplitSpec Str.SplitModel
     Str.SliceProofsBase Str.SliceProofsFind Str.SliceProofsFront Str.SliceProofsBA Str.SplitProofsVal Str.SplitProofs.
Import ListNotations.
Local Open Scope N_scope.
Local Open Scope outcome_scope.

Lemma first_occ_ne_eq ci sep h : sep <> [] -> first_occ ci sep h = first_occ_ne ci sep h.
Proof. intros H. unfold first_occ. destruct sep; [exfalso; apply H; reflexivity|reflexivity]. Qed.

Lemma is_nil_false {A} (l : list A) : l <> [] -> is_nil l = false.
Proof. destruct l; [congruence|reflexivity]. Qed.

(* ---- lengths ---- *)
Fixpoint total (l : list (list N)) : nat :=
  match l with [] => O | p :: r => (length p + total r)%nat end.

Lemma join_length x : forall pieces, pieces <> [] ->
  length (join x pieces) = (total pieces + (length pieces - 1) * length x)%nat.
Proof.
  induction pieces as [|p rest IH]; intros H; [congruence|].
  destruct rest as [|p2 rest'].
  - simpl. lia.
  - rewrite join_cons by discriminate. rewrite !app_length. rewrite IH by discriminate.
    cbn [total length]. lia.
Qed.

Lemma split_cut_total ci sep fuel h max :
  length h = (total (split_cut fuel ci sep h max) + (length (split_cut fuel ci sep h max) - 1) * length sep)%nat.
Proof.
  rewrite <- join_length by apply split_cut_nonempty.
  rewrite <- (map_length (fold_c ci) (join _ _)), join_split_cut, map_length. reflexivity.
Qed.

(* length = size + k * (|to| - |from|), written without subtraction *)
Theorem replace_length ci h from to :
  (length (replace_spec ci h from to) + occ_count ci h from * length from =
   length h + occ_count ci h from * length to)%nat.
Proof.
  unfold replace_spec, occ_count, split_spec.
  rewrite join_length by apply split_cut_nonempty.
  pose proof (split_cut_total ci from (S (length h)) h (N.of_nat (length h))) as Ht. lia.
Qed.

(* ---- one step of the size arithmetic ---- *)
Lemma wrap_step (outsize t f : N) : outsize < two64 -> t < two64 -> f < two64 ->
  exists q : Z, Z.of_N (wrap64 (outsize + sub64 t f)) =
                (Z.of_N outsize + (Z.of_N t - Z.of_N f) + q * Z.of_N two64)%Z /\
                wrap64 (outsize + sub64 t f) < two64.
Proof.
  intros Ho Ht Hf. unfold wrap64, sub64, two64 in *.
  set (x := outsize + (if f <=? t then t - f else 18446744073709551616 - (f - t))).
  pose proof (N.mod_lt x 18446744073709551616 ltac:(lia)) as Hlt.
  pose proof (N.div_mod x 18446744073709551616 ltac:(lia)) as Hdm.
  set (d := x / 18446744073709551616) in *. set (r := x mod 18446744073709551616) in *.
  subst x. destruct (N.leb_spec f t) as [H|H].
  - exists (- Z.of_N d)%Z. split; lia.
  - exists (1 - Z.of_N d)%Z. split; lia.
Qed.

Section Replace.
  Variables (cs : case_sens) (s from to : list N).
  Hypothesis Bs : bytes_ok s = true.
  Hypothesis Bf : bytes_ok from = true.
  Hypothesis Hne : from <> [].
  Let ci := ci_of cs.
  Let D : Z := (Z.of_nat (length to) - Z.of_nat (length from))%Z.

  Lemma search_spec next : (next <= length s)%nat ->
    find_sub cs (cstr s) next (length s - next) (cstr from) (length from) =
    Ok (option_map (Nat.add next) (first_occ_ne ci from (skipn next s))).
  Proof.
    intros Hn.
    rewrite (find_sub_spec cs (cstr s) (cstr from) from next (length s - next) Hne (firstn_cstr from)
               (bytes_ok_cstr _ Bs) (bytes_ok_cstr _ Bf)) by (rewrite cstr_length; lia).
    replace (next + (length s - next))%nat with (length s) by lia.
    rewrite window_tail by exact Hn. reflexivity.
  Qed.

  Lemma from_pos : (0 < length from)%nat.
  Proof. destruct from; [congruence|simpl; lia]. Qed.

  (* the counting scan *)
  Lemma replace_count_spec : size to < two64 -> size from < two64 ->
    forall fuel pstart max outsize,
    (pstart <= length s)%nat -> (length s - pstart < fuel)%nat ->
    N.of_nat (length s - pstart) <= max -> outsize < two64 ->
    exists r (q : Z),
      replace_count fuel cs (cstr s) pstart (length s) from (sub64 (size to) (size from)) outsize = Ok r /\
      r < two64 /\
      Z.of_N r = (Z.of_N outsize
                  + Z.of_nat (length (split_cut fuel ci from (skipn pstart s) max) - 1) * D
                  + q * Z.of_N two64)%Z.
  Proof.
    intros Ht Hf. induction fuel as [|f IH]; intros pstart max outsize Hp Hfuel Hmax Ho; [lia|].
    cbn [replace_count split_cut]. rewrite search_spec by exact Hp. cbn [bind].
    rewrite first_occ_ne_eq by exact Hne.
    destruct (N.eqb_spec max 0) as [Em|Em].
    - (* nothing left to scan *)
      assert (Hempty : skipn pstart s = []).
      { apply length_zero_iff_nil. rewrite skipn_length. lia. }
      rewrite Hempty. rewrite first_occ_short by (pose proof from_pos; simpl; lia).
      exists outsize, 0%Z. repeat split; [exact Ho|simpl; lia].
    - destruct (first_occ_ne ci from (skipn pstart s)) as [i|] eqn:Ei.
      + simpl option_map. cbv iota.
        pose proof (first_occ_fits _ _ _ _ Ei) as Hb. rewrite skipn_length in Hb.
        pose proof from_pos as Hfp.
        destruct (wrap_step outsize (size to) (size from) Ho Ht Hf) as [q1 [W1 W2]].
        destruct (IH (pstart + i + length from)%nat (max - 1) (wrap64 (outsize + sub64 (size to) (size from))))
          as [r [q2 [R1 [R2 R3]]]]; [lia|lia|lia|exact W2|].
        exists r, (q1 + q2)%Z. split; [exact R1|]. split; [exact R2|].
        rewrite skipn_skipn'. replace (pstart + (i + length from))%nat with (pstart + i + length from)%nat by lia.
        set (rest := split_cut f ci from (skipn (pstart + i + length from) s) (max - 1)) in *.
        assert (Hrest : (1 <= length rest)%nat).
        { pose proof (split_cut_nonempty f ci from (skipn (pstart + i + length from) s) (max - 1)) as Hn.
          fold rest in Hn. destruct rest; [congruence|simpl; lia]. }
        cbn [length]. rewrite R3, W1.
        replace (Z.of_nat (S (length rest) - 1)) with (Z.of_nat (length rest - 1) + 1)%Z by lia.
        unfold D, size. lia.
      + exists outsize, 0%Z. repeat split; [exact Ho|simpl; lia].
  Qed.

  Lemma copy_in_cstr cap w src from_ n : (from_ + n <= length src)%nat ->
    N.of_nat (length w + n) <= cap ->
    copy_in cap w (cstr src) from_ n = Ok (w ++ firstn n (skipn from_ src)).
  Proof.
    intros Hr Hc. unfold copy_in. destruct (N.ltb_spec cap (N.of_nat (length w + n))); [lia|].
    rewrite copy_out_cstr by exact Hr. reflexivity.
  Qed.

  (* the copying scan *)
  Lemma replace_copy_spec cap : forall fuel pstart max w,
    (pstart <= length s)%nat -> (length s - pstart < fuel)%nat ->
    N.of_nat (length s - pstart) <= max ->
    N.of_nat (length (w ++ join to (split_cut fuel ci from (skipn pstart s) max))) <= cap ->
    replace_copy fuel cs (cstr s) pstart (length s) from to cap w =
    Ok (w ++ join to (split_cut fuel ci from (skipn pstart s) max)).
  Proof.
    induction fuel as [|f IH]; intros pstart max w Hp Hfuel Hmax Hcap; [lia|].
    cbn [replace_copy split_cut] in *. rewrite search_spec by exact Hp. cbn [bind].
    rewrite first_occ_ne_eq in * by exact Hne.
    assert (Hfin : forall l, l = skipn pstart s ->
              N.of_nat (length (w ++ join to [l])) <= cap ->
              (if Nat.ltb pstart (length s)
               then copy_in cap w (cstr s) pstart (length s - pstart)
               else Ok w) = Ok (w ++ join to [l])).
    { intros l -> Hc. cbn [join] in *. rewrite app_length, skipn_length in Hc.
      destruct (Nat.ltb pstart (length s)) eqn:El.
      - rewrite copy_in_cstr by lia. rewrite firstn_all2 by (rewrite skipn_length; lia). reflexivity.
      - apply Nat.ltb_ge in El. rewrite skipn_all2 by lia. rewrite app_nil_r. reflexivity. }
    destruct (N.eqb_spec max 0) as [Em|Em].
    - assert (Hempty : skipn pstart s = []).
      { apply length_zero_iff_nil. rewrite skipn_length. lia. }
      rewrite Hempty in *. rewrite first_occ_short by (pose proof from_pos; simpl; lia).
      apply (Hfin [] eq_refl Hcap).
    - destruct (first_occ_ne ci from (skipn pstart s)) as [i|] eqn:Ei.
      + simpl option_map. cbv iota.
        pose proof (first_occ_fits _ _ _ _ Ei) as Hb. rewrite skipn_length in Hb.
        pose proof from_pos as Hfp.
        rewrite skipn_skipn' in *.
        replace (pstart + (i + length from))%nat with (pstart + i + length from)%nat in * by lia.
        set (rest := split_cut f ci from (skipn (pstart + i + length from) s) (max - 1)) in *.
        rewrite join_cons in * by apply split_cut_nonempty.
        rewrite !app_length in Hcap. rewrite firstn_length, skipn_length in Hcap.
        replace (pstart + i - pstart)%nat with i by lia.
        rewrite copy_in_cstr by lia. cbn [bind].
        rewrite (copy_in_cstr cap _ to O (length to)) by (rewrite ?app_length, ?firstn_length, ?skipn_length; lia).
        cbn [bind]. simpl skipn. rewrite firstn_all.
        rewrite (IH (pstart + i + length from)%nat (max - 1) ((w ++ firstn i (skipn pstart s)) ++ to));
          [fold rest; rewrite <- !app_assoc; reflexivity|lia|lia|lia|].
        fold rest. rewrite !app_length, firstn_length, skipn_length. lia.
      + apply Hfin; [reflexivity|exact Hcap].
  Qed.

  (* scans_agree: the buffer replace builds *)
  Theorem replace_bytes_spec :
    fits s -> size to < two64 -> size from < two64 -> fits (replace_spec ci s from to) ->
    replace_bytes cs s from to = Ok (replace_spec ci s from to).
  Proof.
    intros Hfs Ht Hf Hfit.
    set (fuel := S (S (length s))).
    set (mx := N.of_nat (length s)).
    assert (Hspec : replace_spec ci s from to = join to (split_cut fuel ci from s mx)).
    { unfold replace_spec, split_spec. f_equal. apply split_cut_fuel; subst fuel; lia. }
    pose proof (split_cut_total ci from fuel s mx) as HT.
    set (pieces := split_cut fuel ci from s mx) in *.
    assert (HR : length (replace_spec ci s from to) = (total pieces + (length pieces - 1) * length to)%nat).
    { rewrite Hspec. apply join_length. apply split_cut_nonempty. }
    set (R := N.of_nat (length (replace_spec ci s from to))) in *.
    assert (HRlt : R < two63 - 1) by exact Hfit.
    (* the size the first scan computes is R *)
    assert (Hout : (if negb (size from =? size to)
                    then replace_count fuel cs (cstr s) 0 (length s) from (sub64 (size to) (size from)) (size s)
                    else Ok (size s)) = Ok R).
    { destruct (N.eqb_spec (size from) (size to)) as [E|E]; cbn [negb].
      - f_equal. unfold size in E. apply Nat2N.inj in E. subst R. rewrite HR. rewrite <- E. unfold size. lia.
      - destruct (replace_count_spec Ht Hf fuel O mx (size s)) as [r [q [C1 [C2 C3]]]];
          [lia|subst fuel; lia|subst mx; lia|unfold fits, size, two63, two64 in *; lia|].
        rewrite C1. f_equal. simpl skipn in C3. fold pieces in C3.
        unfold fits, size, two63, two64, D in *. subst R. rewrite HR.
        (* r = size + k*(t - f) + q*2^64, 0 <= r < 2^64, 0 <= R < 2^63, R = size + k*t - k*f *)
        assert (HZ : (Z.of_nat (length pieces - 1) * (Z.of_nat (length to) - Z.of_nat (length from)) =
                      Z.of_nat ((length pieces - 1) * length to) - Z.of_nat ((length pieces - 1) * length from))%Z).
        { rewrite !Nat2Z.inj_mul. ring. }
        rewrite HR in HRlt. lia. }
    unfold replace_bytes. fold fuel. rewrite Hout. cbn [bind].
    rewrite allocate_ok by (unfold two63 in *; lia). cbn [bind].
    rewrite (replace_copy_spec R fuel O mx []); [|lia|subst fuel; lia|subst mx; lia|].
    - simpl skipn. fold pieces. cbn [app]. rewrite <- Hspec. cbn [bind]. fold R.
      destruct (N.ltb_spec R R); [lia|]. reflexivity.
    - simpl skipn. fold pieces. cbn [app]. rewrite <- Hspec. subst R. lia.
  Qed.

  Lemma bytes_ok_skipn l k : bytes_ok l = true -> bytes_ok (skipn k l) = true.
  Proof.
    intros B. rewrite <- (firstn_all2 (n := length (skipn k l)) (skipn k l)) by lia. apply bytes_ok_slice. exact B.
  Qed.

  Lemma bytes_ok_join : bytes_ok to = true -> forall fuel h max, bytes_ok h = true ->
    bytes_ok (join to (split_cut fuel ci from h max)) = true.
  Proof.
    intros Bt. induction fuel as [|f IH]; intros h max Bh; cbn [split_cut]; [exact Bh|].
    destruct (max =? 0); [exact Bh|].
    destruct (first_occ ci from h) as [i|]; [|exact Bh].
    rewrite join_cons by apply split_cut_nonempty.
    unfold bytes_ok in *. rewrite !all_lt_app. rewrite Bt.
    rewrite (IH _ _ (bytes_ok_skipn _ _ Bh)).
    pose proof (bytes_ok_slice h 0 i Bh) as B1. simpl skipn in B1. unfold bytes_ok in B1. rewrite B1. reflexivity.
  Qed.

  (* replace(const string&, const string&, cs): the only exception is the validating constructor's *)
  Theorem replace_model_spec :
    s <> [] -> bytes_ok to = true ->
    fits s -> size to < two64 -> size from < two64 -> fits (replace_spec ci s from to) ->
    replace_model cs s from to =
    if wf8s (replace_spec ci s from to) then Ok (replace_spec ci s from to) else Throw UnicodeError.
  Proof.
    intros Hs Bt Hfs Ht Hf Hfit. unfold replace_model. rewrite !size_zero.
    rewrite (is_nil_false s Hs), (is_nil_false from Hne). cbn [orb].
    rewrite replace_bytes_spec by assumption. cbn [bind].
    apply validate_default_spec. unfold replace_spec, split_spec. apply bytes_ok_join; assumption.
  Qed.
End Replace.

(* an empty subject or pattern leaves the text whole (return *this, no validation) *)
Theorem replace_empty cs s from to : s = [] \/ from = [] -> replace_model cs s from to = Ok s.
Proof. intros [ -> | -> ]; unfold replace_model; rewrite ?size_zero; [reflexivity|]. cbn [is_nil]. rewrite orb_true_r. reflexivity. Qed.

Theorem replace_spec_empty ci h to : replace_spec ci h [] to = h.
Proof. unfold replace_spec. rewrite split_empty_sep. reflexivity. Qed.

(* ---- the const char* overloads build ST::strings first ---- *)
Theorem string_of_cstr_spec a k v : bytes_ok a = true -> c_strlen a = Ok k -> N.of_nat k < huge_buffer_size ->
  string_of_cstr (Some a) v =
  match v with
  | VAssume => Ok (c_content a)
  | VCheck => if wf8s (c_content a) then Ok (c_content a) else Throw UnicodeError
  end.
Proof.
  intros Ba Hk Hh. unfold string_of_cstr. rewrite Hk. cbn [bind]. unfold string_of_range.
  destruct (N.leb_spec huge_buffer_size (N.of_nat k)); [lia|].
  destruct (c_strlen_content a k Hk) as [K1 [K2 [K3 K4]]].
  rewrite copy_out_spec by lia. cbn [bind]. simpl skipn. rewrite K2.
  destruct v; [|reflexivity].
  change (set_buffer (c_content a) VCheck) with (validate_default (c_content a)).
  apply validate_default_spec. rewrite <- K2. pose proof (bytes_ok_slice a 0 k Ba) as B. exact B.
Qed.

Theorem replace_overloads cs s a b ka kb v :
  bytes_ok a = true -> bytes_ok b = true -> c_strlen a = Ok ka -> c_strlen b = Ok kb ->
  N.of_nat ka < huge_buffer_size -> N.of_nat kb < huge_buffer_size ->
  v = VAssume \/ (wf8s (c_content a) = true /\ wf8s (c_content b) = true) ->
  replace_zz cs s (Some a) (Some b) v = replace_model cs s (c_content a) (c_content b) /\
  replace_sz cs s (c_content a) (Some b) v = replace_model cs s (c_content a) (c_content b) /\
  replace_zs cs s (Some a) (c_content b) v = replace_model cs s (c_content a) (c_content b).
Proof.
  intros Ba Bb Ha Hb Hha Hhb Hv. unfold replace_zz, replace_sz, replace_zs.
  rewrite (string_of_cstr_spec a ka v Ba Ha Hha), (string_of_cstr_spec b kb v Bb Hb Hhb).
  destruct Hv as [->|[Wa Wb]]; [repeat split; reflexivity|].
  destruct v; rewrite ?Wa, ?Wb; repeat split; reflexivity.
Qed.

Theorem replace_null cs s b v : replace_zz cs s None b v = (t <- string_of_cstr b v ;; Ok s).
Proof.
  unfold replace_zz. cbn [string_of_cstr bind]. destruct (string_of_cstr b v); cbn [bind]; try reflexivity.
  unfold replace_model. rewrite orb_true_r. reflexivity.
Qed.
