(* Conc/Interleave.v — C20 (b): schedule independence of the model.
   N threads; thread t owns the objects `own t`; `shared` objects are immutable (nobody's target).
   Every operation a thread executes targets only its own objects and reads only its own or shared
   objects.  Then, for EVERY interleaving, what a thread can observe (its own and the shared objects)
   is exactly what it observes when its program runs alone; and the interleaved run is well formed and
   keeps the ownership invariant whenever each program is well formed on its own.                  *)
From Coq Require Import NArith List Bool Lia Arith.
From ST Require Import Base.Outcome Base.Units Mem.Heap Mem.Buffer Mem.BufferRun Mem.BufferInv Mem.BufferOps
  Mem.BufferSteps Mem.BufferHistory.
Import ListNotations.
Local Open Scope nat_scope.

(* the objects an operation READS besides its targets *)
Definition sources (op : bop) : list objid :=
  match op with
  | BCopy _ src | BAsg _ src | BMove _ src | BMasg _ src => [src]
  | _ => []
  end.

Section Conc.
Variable own : nat -> objid -> Prop.
Variable shared : objid -> Prop.
Hypothesis own_disjoint : forall t u o, own t o -> own u o -> t = u.
Hypothesis shared_not_owned : forall t o, shared o -> ~ own t o.

Definition vis (t : nat) (x : objid) : Prop := own t x \/ shared x.
Definition agree (t : nat) (s s' : sstore) : Prop := forall x, vis t x -> s x = s' x.

(* an operation thread t is allowed to execute *)
Definition op_of (t : nat) (op : bop) : Prop :=
  (forall o, In o (targets op) -> own t o) /\ (forall o, In o (sources op) -> vis t o).

Lemma agree_refl t s : agree t s s. Proof. intros x _. reflexivity. Qed.
Lemma agree_sym t s s' : agree t s s' -> agree t s' s. Proof. intros A x V. symmetry. auto. Qed.
Lemma agree_trans t a b c : agree t a b -> agree t b c -> agree t a c.
Proof. intros A B x V. rewrite (A x V). auto. Qed.

(* the spec of one operation is local: it reads only targets and sources *)
Lemma spec_bop_local t op s s' :
  op_of t op -> agree t s s' -> agree t (spec_bop s op) (spec_bop s' op).
Proof.
  intros (Ht & Hs) A x V.
  assert (At : forall o, In o (targets op) -> s o = s' o) by (intros o Ho; apply A; left; auto).
  assert (As : forall o, In o (sources op) -> s o = s' o) by (intros o Ho; apply A; apply Hs; auto).
  specialize (A x V).
  destruct op as [o|o d|o n|o n c|o src|o src|o src|o src|o n c|o n c|o i v|o|o]; simpl in *;
    unfold sset, sget, upd.
  - destruct (Nat.eqb x o); auto.
  - destruct (Nat.eqb x o); auto.
  - destruct (Nat.eqb x o); auto.
  - destruct (Nat.eqb x o); auto.
  - rewrite (As src) by tauto. destruct (Nat.eqb x o); auto.
  - rewrite (As src) by tauto. destruct (Nat.eqb x src); auto. destruct (Nat.eqb x o); auto.
  - rewrite (As src) by tauto. destruct (Nat.eqb x o); auto.
  - rewrite (As src) by tauto. destruct (Nat.eqb o src); [auto|].
    destruct (Nat.eqb x src); auto. destruct (Nat.eqb x o); auto.
  - destruct (Nat.eqb x o); auto.
  - destruct (Nat.eqb x o); auto.
  - rewrite (At o) by tauto. destruct (s' o) as [[l|]|]; auto.
    destruct (Nat.ltb i (length l)); auto. destruct (Nat.eqb x o); auto.
  - destruct (Nat.eqb x o); auto.
  - destruct (Nat.eqb x o); auto.
Qed.

Lemma wf_sop_local t op s s' : op_of t op -> agree t s s' -> wf_sop s op -> wf_sop s' op.
Proof.
  intros (Ht & Hs) A W.
  assert (At : forall o, In o (targets op) -> s o = s' o) by (intros o Ho; apply A; left; auto).
  assert (As : forall o, In o (sources op) -> s o = s' o) by (intros o Ho; apply A; apply Hs; auto).
  destruct op; simpl in *; unfold sdead, slive in *;
    repeat match goal with
    | H : _ /\ _ |- _ => destruct H
    end;
    repeat split; try assumption;
    repeat match goal with
    | |- s' ?k = None => rewrite <- (At k) by tauto
    | |- s' ?k <> None => first [rewrite <- (At k) by tauto | rewrite <- (As k) by tauto]
    end; assumption.
Qed.

(* a whole program of thread t is local *)
Lemma program_local t ops : forall s s',
  Forall (op_of t) ops -> agree t s s' ->
  agree t (fold_left spec_bop ops s) (fold_left spec_bop ops s') /\
  (wf_history s ops -> wf_history s' ops).
Proof.
  induction ops as [|op rest IH]; intros s s' F A; simpl.
  - auto.
  - inversion F as [|? ? F1 F2]; subst.
    destruct (IH _ _ F2 (spec_bop_local t op s s' F1 A)) as (B & C).
    split; [exact B|]. intros (W1 & W2). split; [eapply wf_sop_local; eauto|auto].
Qed.

(* an operation of ANOTHER thread is invisible to t *)
Lemma other_thread_invisible t u op s : t <> u -> op_of u op -> agree t (spec_bop s op) s.
Proof.
  intros N (Ht & _) x V. apply spec_bop_other. intros Hin. apply Ht in Hin.
  destruct V as [O|S].
  - apply N. eapply own_disjoint; eauto.
  - eapply shared_not_owned; eauto.
Qed.

(* a schedule: operations tagged with the thread that executes them *)
Definition sched := list (nat * bop).
Definition proj (t : nat) (sc : sched) : list bop :=
  map snd (filter (fun p => Nat.eqb (fst p) t) sc).
Definition sched_ok (sc : sched) : Prop := Forall (fun p => op_of (fst p) (snd p)) sc.

Lemma proj_ops t sc : sched_ok sc -> Forall (op_of t) (proj t sc).
Proof.
  induction sc as [|[u op] rest IH]; intros F; simpl; [constructor|].
  inversion F as [|? ? F1 F2]; subst. unfold proj. simpl.
  destruct (Nat.eqb_spec u t) as [->|N]; simpl; [constructor; auto|]; apply IH; auto.
Qed.

Theorem schedule_independent sc : forall s,
  sched_ok sc ->
  (forall t, wf_history s (proj t sc)) ->
  wf_history s (map snd sc) /\
  forall t, agree t (fold_left spec_bop (map snd sc) s) (fold_left spec_bop (proj t sc) s).
Proof.
  induction sc as [|[u op] rest IH]; intros s F W.
  - simpl. split; [exact Logic.I|]. intros t. apply agree_refl.
  - inversion F as [|? ? F1 F2]; subst. simpl in F1.
    assert (Wu : wf_sop s op /\ wf_history (spec_bop s op) (proj u rest)).
    { specialize (W u). unfold proj in W. simpl in W. rewrite Nat.eqb_refl in W. exact W. }
    destruct Wu as (W1 & W2).
    assert (Wrest : forall t, wf_history (spec_bop s op) (proj t rest)).
    { intros t. destruct (Nat.eq_dec t u) as [->|N]; [exact W2|].
      assert (Wt : wf_history s (proj t rest)).
      { specialize (W t). unfold proj in W. simpl in W.
        replace (Nat.eqb u t) with false in W by (symmetry; apply Nat.eqb_neq; auto). exact W. }
      destruct (program_local t (proj t rest) s (spec_bop s op) (proj_ops t rest F2)
                  (agree_sym _ _ _ (other_thread_invisible t u op s N F1))) as (_ & C). auto. }
    destruct (IH (spec_bop s op) F2 Wrest) as (IHw & IHa).
    split; [simpl; auto|].
    intros t. simpl. unfold proj. simpl.
    destruct (Nat.eqb_spec u t) as [->|N].
    + simpl. apply IHa.
    + eapply agree_trans; [apply IHa|].
      destruct (program_local t (proj t rest) (spec_bop s op) s (proj_ops t rest F2)
                  (other_thread_invisible t u op s (fun E => N (eq_sym E)) F1)) as (B & _). exact B.
Qed.

(* the same on the MODEL: the interleaved run returns normally, keeps the ownership invariant, and the
   value of every object thread t can see is the value its own program produces *)
Theorem interleaved_run_ok L (Lpos : 1 <= L) sc st s :
  Inv L st -> Rel st s -> sched_ok sc -> (forall t, wf_history s (proj t sc)) ->
  exists st', run_ops L (map snd sc) st = (Ok tt, st') /\ Inv L st' /\
    forall t x r l, vis t x -> objs st' x = Some r ->
                    fold_left spec_bop (proj t sc) s x = Some (Val l) -> contents st' r = l.
Proof.
  intros I R F W. destruct (schedule_independent sc s F W) as (Wf & A).
  destruct (history_ok L Lpos (map snd sc) st s I R Wf) as (st' & E & I' & R').
  exists st'. split; [exact E|]. split; [exact I'|].
  intros t x r l V Hx Hl. rewrite <- (A t x V) in Hl. apply (rel_val st' _ x r l R' Hx Hl).
Qed.

End Conc.
