(* Conc/StaticsProofs.v — C20 (a): no hidden shared mutable state, over the inventory regenerated from the
   headers' AST on every run (Gen/Statics.v). *)
From Coq Require Import String List Bool.
From ST Require Import Gen.Statics.
Import ListNotations.
Local Open Scope string_scope.

(* library functions the headers may call: re-entrant (no hidden static buffer, no global state written).
   NOT on the list: strtok, rand, localtime, gmtime, asctime, ctime, setlocale, strerror, getenv, tmpnam ... *)
Definition reentrant_whitelist : list string :=
  ["abort"; "fprintf"; "fputc"; "fwrite"; "min"; "max"; "move"; "forward"; "swap"; "swap_ranges";
   "snprintf"; "strtod"; "strtof"; "strtol"; "strtoll"; "strtoul"; "strtoull"; "memcpy"; "memmove"; "memset";
   "memcmp"; "memchr"; "strlen"].

Definition statics_immutable_b : bool := forallb sd_const statics.
Definition calls_reentrant_b : bool :=
  forallb (fun c => existsb (String.eqb c) reentrant_whitelist) extern_calls.

Lemma statics_immutable : statics_immutable_b = true.
Proof. vm_compute. reflexivity. Qed.

Lemma statics_immutable_forall : forall d, In d statics -> sd_const d = true.
Proof. apply forallb_forall. exact statics_immutable. Qed.

Lemma no_mutable_fields : mutable_fields = [].
Proof. reflexivity. Qed.

Lemma calls_reentrant : calls_reentrant_b = true.
Proof. vm_compute. reflexivity. Qed.

(* the inventory is not empty: the tables and the format-letter list are there *)
Lemma inventory_sees_the_tables :
  existsb (fun d => String.eqb (sd_name d) "b64_values") statics &&
  existsb (fun d => String.eqb (sd_name d) "valid_formats") statics &&
  existsb (fun d => String.eqb (sd_name d) "hex_chars") statics = true.
Proof. vm_compute. reflexivity. Qed.
