(* Fmt/StrtolProofs.v — the strtol model stays inside the string: started at or before the
   terminator it reads no byte beyond it, terminates within its fuel, and returns an end offset
   between its start and the terminator (strictly beyond the start when the start is a digit). *)
From Coq Require Import NArith ZArith List Bool Lia ZifyBool ZifyNat ZifyN.
From ST Require Import Base.Outcome Base.Units Fmt.Strtol.
Import ListNotations.
Local Open Scope N_scope.

Section Str.
Variable s : list N.
Let a := cstr s.
Let len := length s.

Lemma cstr_length : length a = S len.
Proof. unfold a, cstr, len. rewrite app_length. simpl. lia. Qed.

Lemma at_term : at_ a len = Ok 0.
Proof. unfold at_, a, cstr, len. rewrite nth_error_app2 by lia. rewrite Nat.sub_diag. reflexivity. Qed.

Lemma at_in i : (i <= len)%nat -> exists c, at_ a i = Ok c.
Proof.
  intros H. unfold at_. destruct (nth_error a i) eqn:E; [simpl; eauto|].
  apply nth_error_None in E. rewrite cstr_length in E. lia.
Qed.

Lemma at_out i : (len < i)%nat -> at_ a i = Fault OOBRead.
Proof.
  intros H. unfold at_. destruct (nth_error a i) eqn:E; [|reflexivity].
  assert (i < length a)%nat by (apply nth_error_Some; congruence). rewrite cstr_length in *. lia.
Qed.

(* a non-zero byte is not the terminator: the next index is still inside the array *)
Lemma at_nonzero i c : at_ a i = Ok c -> c <> 0 -> (i < len)%nat.
Proof.
  intros H Hc.
  destruct (Nat.lt_trichotomy i len) as [Hlt|[Heq|Hgt]]; [exact Hlt| |].
  - subst i. rewrite at_term in H. inversion H. congruence.
  - rewrite at_out in H by exact Hgt. discriminate.
Qed.

Lemma at_fmt i c : at_ a i = Ok c -> (i <= len)%nat.
Proof.
  intros H. destruct (Nat.le_gt_cases i len) as [Hle|Hgt]; [exact Hle|].
  rewrite at_out in H by exact Hgt. discriminate.
Qed.

Lemma isspace_nz c : isspace c = true -> c <> 0.
Proof. intros H E. subst. discriminate. Qed.
Lemma isdigit_nz c : isdigit c = true -> c <> 0.
Proof. intros H E. subst. discriminate. Qed.
Lemma isdigit_not_space c : isdigit c = true -> isspace c = false.
Proof. unfold isdigit, isspace. intros H. lia. Qed.

Lemma skip_space_ok fuel : forall i, (i <= len)%nat -> (len - i < fuel)%nat ->
  exists j, skip_space fuel a i = Ok j /\ (i <= j <= len)%nat.
Proof.
  induction fuel as [|f IH]; intros i Hi Hf; [lia|].
  cbn [skip_space]. destruct (at_in i Hi) as [c Hc]. rewrite Hc. cbn [bind].
  destruct (isspace c) eqn:Es.
  - pose proof (at_nonzero i c Hc (isspace_nz c Es)) as Hlt.
    destruct (IH (S i)) as [j [Hj Hr]]; [lia|lia|]. exists j. split; [exact Hj|lia].
  - exists i. split; [reflexivity|lia].
Qed.

Lemma skip_space_digit fuel i c : at_ a i = Ok c -> isdigit c = true -> skip_space (S fuel) a i = Ok i.
Proof. intros Hc Hd. cbn [skip_space]. rewrite Hc. cbn [bind]. rewrite (isdigit_not_space c Hd). reflexivity. Qed.

Lemma digits_loop_ok fuel : forall i acc, (i <= len)%nat -> (len - i < fuel)%nat ->
  exists v e, digits_loop fuel a i acc = Ok (v, e) /\ (i <= e <= len)%nat.
Proof.
  induction fuel as [|f IH]; intros i acc Hi Hf; [lia|].
  cbn [digits_loop]. destruct (at_in i Hi) as [c Hc]. rewrite Hc. cbn [bind].
  destruct (isdigit c) eqn:Ed.
  - pose proof (at_nonzero i c Hc (isdigit_nz c Ed)) as Hlt.
    destruct (IH (S i) (acc * 10 + (c - 48))) as [v [e [He Hr]]]; [lia|lia|].
    exists v, e. split; [exact He|lia].
  - exists acc, i. split; [reflexivity|lia].
Qed.

Lemma digits_loop_digit fuel i acc c : at_ a i = Ok c -> isdigit c = true -> (len - i < S fuel)%nat ->
  exists v e, digits_loop (S fuel) a i acc = Ok (v, e) /\ (S i <= e <= len)%nat.
Proof.
  intros Hc Hd Hf. cbn [digits_loop]. rewrite Hc. cbn [bind]. rewrite Hd.
  pose proof (at_nonzero i c Hc (isdigit_nz c Hd)) as Hlt.
  destruct (digits_loop_ok fuel (S i) (acc * 10 + (c - 48))) as [v [e [He Hr]]]; [lia|lia|].
  exists v, e. split; [exact He|lia].
Qed.

(* strtol10 from any offset inside the string: a value and an end offset inside the string *)
Theorem strtol10_ok nptr : (nptr <= len)%nat ->
  exists v e, strtol10 a nptr = Ok (v, e) /\ (nptr <= e <= len)%nat.
Proof.
  intros Hn. unfold strtol10. rewrite cstr_length.
  destruct (skip_space_ok (S (S len)) nptr Hn) as [i [Hi Hir]]; [lia|]. rewrite Hi. cbn [bind].
  destruct (at_in i) as [c Hc]; [lia|]. rewrite Hc. cbn [bind].
  set (j := if (c =? 45) || (c =? 43) then S i else i).
  assert (Hj : (i <= j <= len)%nat).
  { subst j. destruct ((c =? 45) || (c =? 43)) eqn:Es; [|lia].
    assert (c <> 0) by (intros E; subst; discriminate).
    pose proof (at_nonzero i c Hc H). lia. }
  destruct (digits_loop_ok (S (S len)) j 0) as [v [e [He Her]]]; [lia|lia|]. rewrite He. cbn [bind].
  destruct (Nat.eqb e j) eqn:Eq.
  - exists 0%Z, nptr. split; [reflexivity|lia].
  - eexists _, e. split; [reflexivity|lia].
Qed.

(* started on a digit it consumes at least that digit *)
Theorem strtol10_digit nptr c : at_ a nptr = Ok c -> isdigit c = true ->
  exists v e, strtol10 a nptr = Ok (v, e) /\ (S nptr <= e <= len)%nat.
Proof.
  intros Hc Hd. pose proof (at_fmt nptr c Hc) as Hn.
  unfold strtol10. rewrite cstr_length.
  rewrite (skip_space_digit (S len) nptr c Hc Hd). cbn [bind]. rewrite Hc. cbn [bind].
  assert (Hs : (c =? 45) || (c =? 43) = false) by (unfold isdigit in Hd; lia). rewrite Hs.
  destruct (digits_loop_digit (S len) nptr 0 c Hc Hd) as [v [e [He Her]]]; [lia|]. rewrite He. cbn [bind].
  assert (Hne : Nat.eqb e nptr = false) by (apply Nat.eqb_neq; lia). rewrite Hne.
  eexists _, e. split; [reflexivity|lia].
Qed.

End Str.

(* static_cast<int> lands in the int range *)
Lemma to_int_range z : (-2147483648 <= to_int z < 2147483648)%Z.
Proof. unfold to_int. pose proof (Z.mod_pos_bound (z + 2147483648) 4294967296). lia. Qed.

Lemma to_int_small z : (-2147483648 <= z < 2147483648)%Z -> to_int z = z.
Proof. intros H. unfold to_int. rewrite Z.mod_small by lia. lia. Qed.
