(* Fmt/ParserProofs.v — the parser half of C10: for EVERY format string (any bytes) the
   transcribed fetch_prefix / next_format / parse_format read only offsets <= length fmt
   (no Fault OOBRead), terminate within fuel S (length (fmt ++ [0])) (no Fault Hang), never form
   a pointer before the string (no Fault UBOther), and end in a value or in bad_format.
   The heart is one fact: a byte that compared unequal to 0 is not the terminator, so the
   offset after it is still inside the array (StrtolProofs.at_nonzero).                   *)
From Coq Require Import NArith ZArith List Bool Lia ZifyBool ZifyNat ZifyN.
From ST Require Import Base.Outcome Base.Units Fmt.Strtol Fmt.StrtolProofs Fmt.Parser.
Import ListNotations.
Local Open Scope N_scope.

(* ---- the writer-call computation W projects onto its ending ---- *)
Definition outW {A} (w : W A) : outcome A := snd w.

Lemma outW_bind {A B} (m : W A) (k : A -> W B) :
  outW (bindW m k) = bind (outW m) (fun a => outW (k a)).
Proof.
  destruct m as [t [a|e|w|f]]; unfold outW, bindW; simpl; try reflexivity.
  destruct (k a); reflexivity.
Qed.
Lemma outW_ret {A} (a : A) : outW (retW a) = Ok a.
Proof. reflexivity. Qed.
Lemma outW_lift {A} (o : outcome A) : outW (liftW o) = o.
Proof. reflexivity. Qed.
Lemma outW_emit e : outW (emit e) = Ok tt.
Proof. reflexivity. Qed.

(* int-range of the three numbers in a spec: what static_cast<int> guarantees *)
Definition int_range (z : Z) : Prop := (-2147483648 <= z < 2147483648)%Z.
Definition spec_ints (sp : format_spec) : Prop :=
  int_range (minimum_length sp) /\ int_range (precision sp) /\ int_range (arg_index sp).

Lemma default_spec_ints : spec_ints default_spec.
Proof. unfold spec_ints, int_range, default_spec; simpl; lia. Qed.

Section Fmt.
Variable fmt : list N.
Let a := cstr fmt.
Let len := length fmt.

Lemma a_length : length a = S len.
Proof. exact (cstr_length fmt). Qed.

(* ---- append(m_format_str, next - m_format_str) ---- *)
Lemma append_range_ok m next : (m <= next <= len)%nat -> outW (append_range a m next) = Ok tt.
Proof.
  intros H. unfold append_range.
  assert (E : Nat.ltb next m = false) by (apply Nat.ltb_ge; lia). rewrite E.
  rewrite outW_bind, outW_lift. unfold rd_range.
  assert (E2 : Nat.leb (m + (next - m)) (length a) = true) by (apply Nat.leb_le; rewrite a_length; lia).
  rewrite E2. reflexivity.
Qed.

(* ---- fetch_prefix's loop ---- *)
Definition stops_at (next : nat) : Prop := at_ a next = Ok 0 \/ at_ a next = Ok 123.

Lemma fetch_loop_ok fuel : forall m next, (m <= next <= len)%nat -> (len - next < fuel)%nat ->
  exists m' next', outW (fetch_loop fuel a m next) = Ok (m', next')
                   /\ (m <= m' <= next')%nat /\ (next <= next' <= len)%nat /\ stops_at next'.
Proof.
  induction fuel as [|f IH]; intros m next Hm Hf; [lia|].
  cbn [fetch_loop]. rewrite outW_bind, outW_lift.
  destruct (at_in fmt next) as [c Hc]; [fold len; lia|]. fold a in Hc. rewrite Hc. cbn [bind].
  destruct (c =? 0) eqn:E0.
  { exists m, next. rewrite outW_ret. repeat split; try lia. left. rewrite Hc. f_equal. lia. }
  assert (Hlt : (next < len)%nat) by (apply (at_nonzero fmt next c Hc); lia).
  destruct (at_in fmt (S next)) as [c1 Hc1]; [fold len; lia|]. fold a in Hc1.
  destruct (c =? 123) eqn:E1.
  { rewrite outW_bind, outW_lift, Hc1. cbn [bind].
    destruct (negb (c1 =? 123)) eqn:E2.
    - exists m, next. rewrite outW_ret. repeat split; try lia. right. rewrite Hc. f_equal. lia.
    - rewrite outW_bind, (append_range_ok m next) by lia. cbn [bind].
      assert (Hlt1 : (S next < len)%nat) by (apply (at_nonzero fmt (S next) c1 Hc1); lia).
      destruct (IH (S next) (S (S next))) as [m' [n' [Hr [H1 [H2 H3]]]]]; [lia|lia|].
      exists m', n'. split; [exact Hr|]. repeat split; try lia. exact H3. }
  destruct (c =? 125) eqn:E3.
  { rewrite outW_bind, outW_lift, Hc1. cbn [bind].
    destruct (c1 =? 125) eqn:E4.
    - rewrite outW_bind, (append_range_ok m next) by lia. cbn [bind].
      assert (Hlt1 : (S next < len)%nat) by (apply (at_nonzero fmt (S next) c1 Hc1); lia).
      destruct (IH (S next) (S (S next))) as [m' [n' [Hr [H1 [H2 H3]]]]]; [lia|lia|].
      exists m', n'. split; [exact Hr|]. repeat split; try lia. exact H3.
    - destruct (IH m (S next)) as [m' [n' [Hr [H1 [H2 H3]]]]]; [lia|lia|].
      exists m', n'. split; [exact Hr|]. repeat split; try lia. exact H3. }
  destruct (IH m (S next)) as [m' [n' [Hr [H1 [H2 H3]]]]]; [lia|lia|].
  exists m', n'. split; [exact Hr|]. repeat split; try lia. exact H3.
Qed.

(* fetch_prefix returns the new position (>= the old one, inside the string) and its byte: 0 or '{' *)
Lemma fetch_prefix_ok m : (m <= len)%nat ->
  exists m1 c, outW (fetch_prefix a m) = Ok (m1, c) /\ (m <= m1 <= len)%nat
               /\ at_ a m1 = Ok c /\ (c = 0 \/ c = 123).
Proof.
  intros Hm. unfold fetch_prefix. rewrite outW_bind.
  destruct (fetch_loop_ok (S (length a)) m m) as [m' [n' [Hr [H1 [H2 H3]]]]]; [lia|rewrite a_length; lia|].
  rewrite Hr. cbn [bind]. rewrite outW_bind.
  assert (Ha : outW (if Nat.eqb n' m' then retW tt else append_range a m' n') = Ok tt).
  { destruct (Nat.eqb n' m'); [reflexivity|]. apply append_range_ok. lia. }
  rewrite Ha. cbn [bind]. rewrite outW_bind, outW_lift.
  destruct H3 as [H3|H3]; rewrite H3; cbn [bind]; rewrite outW_ret.
  - exists n', 0. repeat split; try lia; auto.
  - exists n', 123. repeat split; try lia; auto.
Qed.

(* next_format: false at the end of the string, true in front of a '{' that starts a field;
   it never throws (the `default:` arm of its switch is dead) *)
Lemma next_format_ok m : (m <= len)%nat ->
  exists m1 more, outW (next_format a m) = Ok (m1, more) /\ (m <= m1 <= len)%nat
                  /\ (more = true -> at_ a m1 = Ok 123).
Proof.
  intros Hm. unfold next_format. rewrite outW_bind.
  destruct (fetch_prefix_ok m Hm) as [m1 [c [Hr [H1 [H2 H3]]]]]. rewrite Hr. cbn [bind].
  destruct H3 as [H3|H3]; subst c.
  - exists m1, false. split; [reflexivity|]. split; [lia|]. discriminate.
  - exists m1, true. split; [reflexivity|]. split; [lia|]. intros _. exact H2.
Qed.

(* ---- parse_format ---- *)
(* how a parse can end: a spec and a position strictly further on, still inside; or bad_format *)
Definition parse_good (m : nat) (r : outcome (format_spec * nat)) : Prop :=
  match r with
  | Ok (sp, m') => (S (S m) <= m' <= len)%nat /\ spec_ints sp
  | Throw BadFormat => True
  | _ => False
  end.

Ltac split_if H :=
  match goal with
  | |- parse_good _ (if ?b then _ else _) => destruct b eqn:H
  end.

Lemma set_ints_flag sp : spec_ints sp ->
  (forall al, spec_ints (set_align sp al)) /\ (forall d, spec_ints (set_dclass sp d)) /\
  (forall d, spec_ints (set_fclass sp d)) /\ (forall p np, spec_ints (set_pad sp p np)) /\
  spec_ints (set_always_signed sp) /\ spec_ints (set_class_prefix sp).
Proof. intros H. unfold spec_ints in *. simpl. tauto. Qed.

Lemma set_ints_num sp v : spec_ints sp ->
  spec_ints (set_minimum_length sp (to_int v)) /\ spec_ints (set_precision sp (to_int v)) /\
  spec_ints (set_arg_index sp (to_int v)).
Proof.
  intros H. pose proof (to_int_range v). unfold spec_ints, int_range in *. simpl. tauto.
Qed.

Lemma parse_good_mono m m0 r : (m0 <= m)%nat -> parse_good m r -> parse_good m0 r.
Proof.
  intros Hm. destruct r as [[sp m']|e|w|f]; simpl; auto. intros [H1 H2]. split; [lia|exact H2].
Qed.

Lemma parse_loop_ok fuel : forall m sp, (m < len)%nat -> (len - m <= fuel)%nat -> spec_ints sp ->
  parse_good m (parse_loop fuel a m sp).
Proof.
  induction fuel as [|f IH]; intros m sp Hm Hf Hsp; [lia|].
  cbn [parse_loop].
  destruct (at_in fmt (S m)) as [c Hc]; [fold len; lia|]. fold a in Hc. rewrite Hc. cbn [bind].
  split_if E0; [exact I|].
  assert (Hlt : (S m < len)%nat) by (apply (at_nonzero fmt (S m) c Hc); lia).
  destruct (set_ints_flag sp Hsp) as [Fa [Fd [Ff [Fp [Fs Fc]]]]].
  (* a flag: continue from m+1 *)
  assert (Hflag : forall sp', spec_ints sp' -> parse_good m (parse_loop f a (S m) sp')).
  { intros sp' Hsp'. apply (parse_good_mono (S m)); [lia|]. apply IH; [exact Hlt|lia|exact Hsp']. }
  split_if E1; [simpl; split; [lia|exact Hsp]|].
  split_if E2; [apply Hflag, Fa|].
  split_if E3; [apply Hflag, Fa|].
  split_if E4.
  { destruct (at_in fmt (S (S m))) as [p Hp]; [fold len; lia|]. fold a in Hp. rewrite Hp. cbn [bind].
    split_if E5; [exact I|].
    assert (Hlt2 : (S (S m) < len)%nat) by (apply (at_nonzero fmt (S (S m)) p Hp); lia).
    apply (parse_good_mono (S (S m))); [lia|]. apply IH; [exact Hlt2|lia|apply Fp]. }
  split_if E6; [apply Hflag, Fp|].
  split_if E7; [apply Hflag, Fc|].
  split_if E8; [apply Hflag, Fd|].
  split_if E9; [apply Hflag, Fd|].
  split_if E10; [apply Hflag, Fs|].
  split_if E11; [apply Hflag, Fd|].
  split_if E12; [apply Hflag, Fd|].
  split_if E13; [apply Hflag, Fd|].
  split_if E14; [apply Hflag, Fd|].
  split_if E15; [apply Hflag, Ff|].
  split_if E16; [apply Hflag, Ff|].
  split_if E17; [apply Hflag, Ff|].
  split_if E18.
  { (* '1'..'9': strtol consumes at least this digit; end - 1 is at or after it *)
    assert (Hd : isdigit c = true) by (unfold isdigit; lia).
    destruct (strtol10_digit fmt (S m) c Hc Hd) as [v [e [Hs He]]]. fold a in Hs. fold len in He.
    rewrite Hs. cbn [bind]. destruct e as [|e']; [lia|].
    apply (parse_good_mono e'); [lia|]. apply IH; [lia|lia|]. apply (set_ints_num sp v Hsp). }
  (* '.' and '&': one more byte is looked at, then strtol from there *)
  assert (Hnum : forall (setter : format_spec -> Z -> format_spec),
            (forall v, spec_ints (setter sp (to_int v))) ->
            parse_good m
              (bind (at_ a (S (S m))) (fun c2 =>
                 if c2 =? 0 then Throw BadFormat
                 else bind (strtol10 a (S (S m))) (fun x => let '(v, e) := x in
                        match e with
                        | O => Fault UBOther
                        | S e' => parse_loop f a e' (setter sp (to_int v))
                        end)))).
  { intros setter Hset.
    destruct (at_in fmt (S (S m))) as [c2 Hc2]; [fold len; lia|]. fold a in Hc2. rewrite Hc2. cbn [bind].
    split_if E19; [exact I|].
    assert (Hlt2 : (S (S m) < len)%nat) by (apply (at_nonzero fmt (S (S m)) c2 Hc2); lia).
    destruct (strtol10_ok fmt (S (S m))) as [v [e [Hs He]]]; [fold len; lia|]. fold a in Hs. fold len in He.
    rewrite Hs. cbn [bind]. destruct e as [|e']; [lia|].
    apply (parse_good_mono e'); [lia|]. apply IH; [lia|lia|apply Hset]. }
  split_if E20; [apply (Hnum set_precision); intros v; apply (set_ints_num sp v Hsp)|].
  split_if E21; [apply (Hnum set_arg_index); intros v; apply (set_ints_num sp v Hsp)|].
  exact I.
Qed.

Lemma parse_format_ok m : at_ a m = Ok 123 ->
  parse_good m (parse_format a m).
Proof.
  intros Hc. unfold parse_format. rewrite Hc. cbn [bind]. simpl negb. cbv iota.
  assert (Hlt : (m < len)%nat) by (apply (at_nonzero fmt m 123 Hc); lia).
  apply parse_loop_ok; [exact Hlt|rewrite a_length; lia|exact default_spec_ints].
Qed.

End Fmt.
