(* Fmt/Render.v — the formatting half of include/st_formatter.h and st_format_priv.h transcribed:
     format_string, pad_size, format_numeric_prefix, format_numeric_string (three layout orders),
     format_numeric_s / format_numeric_u, format_char, every format_type overload the harness can
     reach, apply_format (both overloads).
   Digits come from Num/Digits.v (uint_formatter::format transcribed; shared, imported).
   The tree as repaired by the fix: commits (AGENT_GUIDE) is modelled:
     * format_numeric_s takes the magnitude by unsigned negation (no std::abs(MIN) UB),
     * format_char takes an unsigned long long and range-tests it before narrowing to char32_t,
     * format_type(double) renders again into a heap buffer of the reported size when the text
       does not fit its 64-byte stack buffer (the second snprintf is the same oracle value).
   Floating-point digits are libc's: a double argument carries an ORACLE `render` (what
   snprintf returns for the constructed "%[+][.prec]{e,E,f,g}"), about which nothing is assumed.
   MODEL ONLY (no proofs here).                                                          *)
From Coq Require Import NArith ZArith List Bool Lia.
From ST Require Import Base.Outcome Base.Units Num.Digits Fmt.Strtol Fmt.Parser.
Import ListNotations.
Local Open Scope N_scope.
Local Open Scope outcome_scope.
Local Open Scope W_scope.

(* ---- argument values, by the format_type overload they select ---- *)
Inductive arg :=
| AInt (sgn : bool) (bits : nat) (v : Z)   (* signed/unsigned char, short, int, long, long long: bits = 8/16/32/64 *)
| AChar (v : Z)                             (* char (signed on this platform): -128..127 *)
| AWChar (v : Z)                            (* wchar_t (32-bit signed on this platform) *)
| AChar32 (v : N)                           (* char32_t *)
| ABool (b : bool)
| AStr (s : list N)                         (* const char* (non-null), ST::string, std::string: the text bytes *)
| ANullStr                                  (* const char* == nullptr *)
| AFloat (render : bool -> Z -> float_class -> list N).   (* double; oracle: always_signed, precision, class -> snprintf text *)

Inductive numeric_type := NumPositive | NumNegative | NumZero.

(* two's complement reinterpretation of a 64-bit quantity as ssize_t *)
Definition wrap_ssize (z : Z) : Z := ((z + 9223372036854775808) mod 18446744073709551616 - 9223372036854775808)%Z.
(* conversion of a (signed) value to size_t *)
Definition to_size (z : Z) : N := Z.to_N (z mod 18446744073709551616)%Z.
(* static_cast<int>(size_t) *)
Definition size_to_int (n : N) : Z := to_int (Z.of_N n).

Definition pad_or_space (spec : format_spec) : N := if pad spec =? 0 then 32 else pad spec.

(* ---- ST::format_string(format, output, text, size, default_alignment) ---- *)
Definition format_string (spec : format_spec) (text : list N) (default_alignment : alignment) : W unit :=
  let padc := pad_or_space spec in
  let size0 := N.of_nat (length text) in
  (* if (format.precision >= 0 && size > static_cast<size_t>(format.precision)) size = precision *)
  let size := if (0 <=? precision spec)%Z && (Z.to_N (precision spec) <? size0) then Z.to_N (precision spec) else size0 in
  let body := firstn (N.to_nat size) text in
  if (size_to_int size <? minimum_length spec)%Z then       (* format.minimum_length > static_cast<int>(size) *)
    let al := match align spec with AlignDefault => default_alignment | x => x end in
    let count := to_size (minimum_length spec - Z.of_N size) in      (* int - size_t, as size_t *)
    match al with
    | AlignRight => _ <~ emit (EPad padc count) ;; emit (EApp body)
    | _ => _ <~ emit (EApp body) ;; emit (EPad padc count)
    end
  else emit (EApp body).

(* ---- _ST_PRIVATE::pad_size ---- *)
Definition prefix_len (spec : format_spec) (nt : numeric_type) : Z :=
  match nt with
  | NumZero => 0%Z
  | _ => if class_prefix spec then
           match dclass spec with
           | DigitHex | DigitHexUpper | DigitBin => 2%Z
           | DigitOct => 1%Z
           | _ => 0%Z
           end
         else 0%Z
  end.

Definition pad_size (spec : format_spec) (size : N) (nt : numeric_type) : N :=
  (* ST_ssize_t pad_size = format.minimum_length - size;   (size_t arithmetic, then signed) *)
  let p0 := wrap_ssize (minimum_length spec - Z.of_N size) in
  let p1 := match nt with
            | NumNegative => (p0 - 1)%Z
            | _ => if always_signed spec then (p0 - 1)%Z else p0
            end in
  let p2 := (p1 - prefix_len spec nt)%Z in
  if (0 <? p2)%Z then Z.to_N p2 else 0.

(* ---- _ST_PRIVATE::format_numeric_prefix ---- *)
Definition format_numeric_prefix (spec : format_spec) (nt : numeric_type) : W unit :=
  _ <~ match nt with
       | NumNegative => emit (EPad 45 1)                       (* append_char('-') *)
       | _ => if always_signed spec then emit (EPad 43 1) else retW tt
       end ;;
  match nt with
  | NumZero => retW tt
  | _ => if class_prefix spec then
           match dclass spec with
           | DigitHex => emit (EApp [48; 120])                 (* "0x" *)
           | DigitHexUpper => emit (EApp [48; 88])             (* "0X" *)
           | DigitBin => emit (EApp [48; 98])                  (* "0b" *)
           | DigitOct => emit (EPad 48 1)                      (* append_char('0') *)
           | _ => retW tt
           end
         else retW tt
  end.

(* ---- _ST_PRIVATE::format_numeric_string ---- *)
Definition format_numeric_string (spec : format_spec) (text : list N) (nt : numeric_type) : W unit :=
  let padc := pad_or_space spec in
  let psize := pad_size spec (N.of_nat (length text)) nt in
  if numeric_pad spec then
    _ <~ format_numeric_prefix spec nt ;;
    _ <~ emit (EPad padc psize) ;;
    emit (EApp text)
  else
    match (match align spec with AlignDefault => AlignRight | x => x end) with
    | AlignRight =>
        _ <~ emit (EPad padc psize) ;;
        _ <~ format_numeric_prefix spec nt ;;
        emit (EApp text)
    | _ =>
        _ <~ format_numeric_prefix spec nt ;;
        _ <~ emit (EApp text) ;;
        emit (EPad padc psize)
    end.

(* the switch (format.digit_class) of format_numeric_s/u: (radix, upper_case) *)
Definition radix_of (dc : digit_class) : outcome (N * bool) :=
  match dc with
  | DigitHexUpper => Ok (16, true)
  | DigitHex => Ok (16, false)
  | DigitOct => Ok (8, false)
  | DigitBin => Ok (2, false)
  | DigitDec | DigitDefault => Ok (10, false)
  | DigitChar => Abort AbDigitClass
  end.

(* static_cast<uint_T>(value) for a uint_T of `bits` bits *)
Definition to_uint (bits : nat) (v : Z) : N := Z.to_N (v mod 2 ^ Z.of_nat bits)%Z.
(* const uint_T abs_value = value < 0 ? 0 - static_cast<uint_T>(value) : static_cast<uint_T>(value); *)
Definition abs_value (bits : nat) (v : Z) : N :=
  if (v <? 0)%Z then to_uint bits (0 - Z.of_N (to_uint bits v)) else to_uint bits v.

(* format_numeric_s<int_T>: bits = value bits of make_unsigned<int_T>; v in int_T's range *)
Definition format_numeric_s (bits : nat) (spec : format_spec) (v : Z) : W unit :=
  '(radix, upper) <~ liftW (radix_of (dclass spec)) ;;
  text <~ liftW (uint_format bits (abs_value bits v) radix upper) ;;
  let nt := if (v =? 0)%Z then NumZero else if (v <? 0)%Z then NumNegative else NumPositive in
  format_numeric_string spec text nt.

Definition format_numeric_u (bits : nat) (spec : format_spec) (v : N) : W unit :=
  '(radix, upper) <~ liftW (radix_of (dclass spec)) ;;
  text <~ liftW (uint_format bits v radix upper) ;;
  let nt := if v =? 0 then NumZero else NumPositive in
  format_numeric_string spec text nt.

(* ---- write_utf8(dest, ch) for ch <= 0x10FFFF (st_utf_conv_priv.h) ---- *)
Definition write_utf8 (ch : N) : list N :=
  if ch <? 0x80 then [ch]
  else if ch <? 0x800 then [N.lor 0xC0 (N.land (N.shiftr ch 6) 0x1F); N.lor 0x80 (N.land ch 0x3F)]
  else if ch <? 0x10000 then
    [N.lor 0xE0 (N.land (N.shiftr ch 12) 0x0F); N.lor 0x80 (N.land (N.shiftr ch 6) 0x3F); N.lor 0x80 (N.land ch 0x3F)]
  else
    [N.lor 0xF0 (N.land (N.shiftr ch 18) 0x07); N.lor 0x80 (N.land (N.shiftr ch 12) 0x3F);
     N.lor 0x80 (N.land (N.shiftr ch 6) 0x3F); N.lor 0x80 (N.land ch 0x3F)].

Definition badchar_utf8 : list N := [0xEF; 0xBF; 0xBD].

(* ---- _ST_PRIVATE::format_char(format, output, unsigned long long ch) ----
     conversion_error_t error = out_of_range;
     if (ch <= 0x10FFFF) error = write_utf8(dest, static_cast<char32_t>(ch));
     if (error != success) append_chars(dest, badchar_substitute_utf8, ...);          *)
Definition format_char (spec : format_spec) (ch : N) : W unit :=
  if negb (minimum_length spec =? 0)%Z || negb (pad spec =? 0) then liftW (Abort AbCharPad)
  else if ch <=? 0x10FFFF then emit (EApp (write_utf8 ch))
  else emit (EApp badchar_utf8).

(* conversion of a signed value to unsigned long long *)
Definition to_ull (v : Z) : N := Z.to_N (v mod 18446744073709551616)%Z.

(* ---- format_type(double): builds "%[+][.prec]{e,E,f,g}", snprintf, pads ---- *)
Definition format_double (spec : format_spec) (render : bool -> Z -> float_class -> list N) : W unit :=
  let padc := pad_or_space spec in
  let end0 := (1 + (if always_signed spec then 1 else 0))%nat in
  _ <~ (if (0 <=? precision spec)%Z then
          (* prec.format(format.precision, 10) on unsigned int;
             ST_ASSERT(prec.size() > 0 && prec.size() + end + 2 < sizeof(format_buffer)) *)
          ptxt <~ liftW (uint_format 32 (Z.to_N (precision spec)) 10 false) ;;
          if Nat.ltb 0 (length ptxt) && Nat.ltb (length ptxt + (S end0) + 2) 32 then retW tt
          else liftW (Abort AbFloatFmt)
        else retW tt) ;;
  let out := render (always_signed spec) (precision spec) (fclass spec) in
  let fsize := Z.of_nat (length out) in                    (* int format_size *)
  if (fsize <=? 0)%Z then liftW (Abort AbOther)            (* "Your libc doesn't support reporting format size" *)
  else if (fsize <? minimum_length spec)%Z then
    let count := to_size (minimum_length spec - fsize) in
    match align spec with
    | AlignLeft => _ <~ emit (EApp out) ;; emit (EPad padc count)
    | _ => _ <~ emit (EPad padc count) ;; emit (EApp out)
    end
  else emit (EApp out).

(* ---- the format_type overloads ---- *)
Definition is_char_class (spec : format_spec) : bool :=
  match dclass spec with DigitChar => true | _ => false end.

Definition format_type (spec : format_spec) (a : arg) : W unit :=
  match a with
  (* _ST_FORMAT_INT_TYPE: format_char(format, output, static_cast<unsigned long long>(value)) *)
  | AInt true bits v => if is_char_class spec then format_char spec (to_ull v) else format_numeric_s bits spec v
  | AInt false bits v => if is_char_class spec then format_char spec (to_ull v) else format_numeric_u bits spec (Z.to_N v)
  (* char: format_char(format, output, value): char -> unsigned long long *)
  | AChar v => if is_char_class spec then format_char spec (to_ull v) else format_numeric_s 32 spec v
  (* wchar_t, char32_t: format_char(format, output, static_cast<int>(value)) *)
  | AWChar v => if is_char_class spec then format_char spec (to_ull (to_int v)) else format_numeric_s 32 spec (to_int v)
  | AChar32 v => if is_char_class spec then format_char spec (to_ull (to_int (Z.of_N v))) else format_numeric_u 32 spec v
  | ABool true => format_string spec [116; 114; 117; 101] AlignLeft            (* "true" *)
  | ABool false => format_string spec [102; 97; 108; 115; 101] AlignLeft       (* "false" *)
  | AStr s => format_string spec s AlignLeft
  | ANullStr => retW tt                                                        (* if (text) ... *)
  | AFloat r => format_double spec r
  end.

(* ---- apply_format(data, arg0, args...) ----
     size_t index = 0;
     while (data.next_format()) {
         spec = data.parse_format();
         size_t formatter_id = (spec.arg_index >= 0) ? spec.arg_index - 1 : index++;
         if (formatter_id >= num_formatters) throw std::out_of_range(...);
         formatters[formatter_id](spec, data);
     }                                                                              *)
Fixpoint apply_loop (fuel : nat) (a : list N) (args : list arg) (m : nat) (index : N) : W unit :=
  match fuel with
  | O => liftW (Fault Hang)
  | S f =>
      '(m1, more) <~ next_format a m ;;
      if negb more then retW tt
      else
        '(spec, m2) <~ liftW (parse_format a m1) ;;
        let fid := if (0 <=? arg_index spec)%Z then to_size (arg_index spec - 1) else index in
        let index' := if (0 <=? arg_index spec)%Z then index else wrap64 (index + 1) in
        if N.of_nat (length args) <=? fid then liftW (Throw OutOfRange)
        else
          match nth_error args (N.to_nat fid) with
          | None => liftW (Fault OOBRead)
          | Some x => _ <~ format_type spec x ;; apply_loop f a args m2 index'
          end
  end.

(* apply_format(data): if (data.next_format()) throw std::out_of_range(...) *)
Definition apply_format0 (a : list N) : W unit :=
  '(_, more) <~ next_format a 0 ;;
  if more then liftW (Throw OutOfRange) else retW tt.

(* the writer-independent driver: format_writer(fmt) + apply_format(writer, args...).
   fmt = None is the null pointer (the constructor throws before anything else). *)
Definition driver (fmt : option (list N)) (args : list arg) : W unit :=
  match fmt with
  | None => liftW (Throw InvalidArgument)
  | Some f =>
      let a := cstr f in
      match args with
      | [] => apply_format0 a
      | _ => apply_loop (S (length a)) a args 0 0
      end
  end.
