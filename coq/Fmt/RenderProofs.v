(* Fmt/RenderProofs.v — C11, one field: for every format_spec (all flag combinations, every
   int width, pad, alignment) and every argument value of every integer type, text, bool,
   character and double, the bytes the transcribed format_type overload hands to the writer are
   exactly RenderSpec.render_field — sign, prefix, canonical digits, padding on the specified
   side, zero padding between prefix and digits, precision cut, never truncated.           *)
From Coq Require Import NArith ZArith List Bool Lia ZifyBool ZifyNat ZifyN.
From ST Require Import Base.Outcome Base.Units Num.Digits Fmt.Strtol Fmt.StrtolProofs Fmt.Parser
  Fmt.ParserProofs Fmt.DigitsFacts Fmt.Render Fmt.DriverProofs Fmt.Sinks Fmt.SinksProofs Fmt.RenderSpec
  Fmt.Utf8Sweep.
Import ListNotations.
Local Open Scope N_scope.

(* ---- traces ---- *)
Lemma bytes_of_app t1 t2 : bytes_of (t1 ++ t2) = bytes_of t1 ++ bytes_of t2.
Proof. unfold bytes_of. apply flat_map_app. Qed.

(* a computation that returned: its calls and value *)
Definition returns {A} (w : W A) (t : list event) (x : A) : Prop := w = (t, Ok x).

Lemma returns_bind {A B} (m : W A) (k : A -> W B) t1 x t2 y :
  returns m t1 x -> returns (k x) t2 y -> returns (bindW m k) (t1 ++ t2) y.
Proof. unfold returns. intros -> H. unfold bindW. rewrite H. reflexivity. Qed.
Lemma returns_emit e : returns (emit e) [e] tt.
Proof. reflexivity. Qed.
Lemma returns_ret {A} (x : A) : returns (retW x) [] x.
Proof. reflexivity. Qed.
Lemma returns_lift {A} (o : outcome A) x : o = Ok x -> returns (liftW o) [] x.
Proof. intros ->. reflexivity. Qed.

(* ---- machine-integer facts ---- *)
Lemma wrap_ssize_small z : (-9223372036854775808 <= z < 9223372036854775808)%Z -> wrap_ssize z = z.
Proof. intros H. unfold wrap_ssize. rewrite Z.mod_small by lia. lia. Qed.

Lemma to_size_small z : (0 <= z < 18446744073709551616)%Z -> to_size z = Z.to_N z.
Proof. intros H. unfold to_size. rewrite Z.mod_small by lia. reflexivity. Qed.

Lemma to_uint_small bits v : (0 <= v < 2 ^ Z.of_nat bits)%Z -> to_uint bits v = Z.to_N v.
Proof. intros H. unfold to_uint. rewrite Z.mod_small by lia. reflexivity. Qed.

(* 0 - uint_T(v) is |v| : no std::abs, no overflow at the most negative value *)
Lemma abs_value_abs bits v : (- 2 ^ Z.of_nat bits < v < 2 ^ Z.of_nat bits)%Z -> abs_value bits v = Z.abs_N v.
Proof.
  intros H. unfold abs_value. set (p := (2 ^ Z.of_nat bits)%Z) in *.
  assert (Hp : (0 < p)%Z) by (apply Z.pow_pos_nonneg; lia).
  destruct (v <? 0)%Z eqn:En.
  - assert (E1 : to_uint bits v = Z.to_N (v + p)).
    { unfold to_uint. fold p. f_equal. symmetry. apply (Z.mod_unique v p (-1) (v + p)); lia. }
    rewrite E1. rewrite Z2N.id by lia.
    unfold to_uint. fold p.
    replace ((0 - (v + p)) mod p)%Z with (- v)%Z.
    + lia.
    + apply (Z.mod_unique (0 - (v + p)) p (-1) (- v)); lia.
  - rewrite to_uint_small by (fold p; lia). lia.
Qed.

Lemma abs_N_lt bits v : (- 2 ^ Z.of_nat bits < v < 2 ^ Z.of_nat bits)%Z -> Z.abs_N v < 2 ^ N.of_nat bits.
Proof.
  intros H. apply N2Z.inj_lt. rewrite N2Z.inj_pow, nat_N_Z, N2Z.inj_abs_N. simpl Z.of_N. lia.
Qed.

(* ---- prefix ---- *)
Definition nt_of (v : Z) : numeric_type :=
  if (v =? 0)%Z then NumZero else if (v <? 0)%Z then NumNegative else NumPositive.

Definition head_of (sp : format_spec) (v : Z) : list N :=
  sign_text (v <? 0)%Z (always_signed sp)
  ++ (if (v =? 0)%Z || negb (class_prefix sp) then [] else radix_prefix (dclass sp)).

Lemma prefix_returns sp v : exists t,
  returns (format_numeric_prefix sp (nt_of v)) t tt /\ bytes_of t = head_of sp v /\
  Z.of_nat (length (head_of sp v)) =
    ((match nt_of v with NumNegative => 1 | _ => if always_signed sp then 1 else 0 end) + prefix_len sp (nt_of v))%Z.
Proof.
  unfold format_numeric_prefix, head_of, nt_of, prefix_len, sign_text.
  destruct (v =? 0)%Z eqn:Ez; [|destruct (v <? 0)%Z eqn:En].
  - assert (En : (v <? 0)%Z = false) by lia. rewrite En. cbn [orb].
    destruct (always_signed sp); eexists; (split; [reflexivity|split; reflexivity]).
  - cbn [orb]. destruct (class_prefix sp); cbn [negb].
    + destruct (dclass sp); eexists; (split; [reflexivity|split; reflexivity]).
    + eexists; (split; [reflexivity|split; reflexivity]).
  - cbn [orb]. destruct (always_signed sp); destruct (class_prefix sp); cbn [negb];
      try (destruct (dclass sp)); eexists; (split; [reflexivity|split; reflexivity]).
Qed.

(* ---- the three layout orders ---- *)
Definition layout (sp : format_spec) (head digs : list N) : list N :=
  let padding := fill sp (minimum_length sp - Z.of_nat (length head + length digs)) in
  if numeric_pad sp then head ++ padding ++ digs
  else match align sp with
       | AlignLeft => head ++ digs ++ padding
       | _ => padding ++ head ++ digs
       end.

Lemma pad_size_spec sp (text : list N) v : int_range (minimum_length sp) -> (Z.of_nat (length text) < 2147483648)%Z ->
  N.to_nat (pad_size sp (N.of_nat (length text)) (nt_of v)) =
  Z.to_nat (minimum_length sp - Z.of_nat (length (head_of sp v) + length text)).
Proof.
  intros Hr Hl. destruct (prefix_returns sp v) as [t [_ [_ Hlen]]].
  unfold pad_size. unfold int_range in Hr.
  rewrite wrap_ssize_small by lia.
  rewrite Nat2Z.inj_add, Hlen.
  set (pl := prefix_len sp (nt_of v)) in *.
  assert (Hpl : (0 <= pl <= 2)%Z).
  { subst pl. unfold prefix_len. destruct (nt_of v); destruct (class_prefix sp); destruct (dclass sp); lia. }
  destruct (nt_of v); destruct (always_signed sp);
    match goal with |- context[(0 <? ?z)%Z] => destruct (0 <? z)%Z eqn:E end; lia.
Qed.

Lemma numeric_string_returns sp (text : list N) v : int_range (minimum_length sp) -> (Z.of_nat (length text) < 2147483648)%Z ->
  exists t, returns (format_numeric_string sp text (nt_of v)) t tt /\
            bytes_of t = layout sp (head_of sp v) text.
Proof.
  intros Hr Hl. destruct (prefix_returns sp v) as [tp [Hp [Hb _]]].
  pose proof (pad_size_spec sp text v Hr Hl) as Hps.
  unfold format_numeric_string, layout, fill, spec_pad_char. fold (pad_or_space sp).
  set (ps := pad_size sp (N.of_nat (length text)) (nt_of v)) in *.
  destruct (numeric_pad sp).
  - eexists. split.
    + eapply returns_bind; [exact Hp|]. eapply returns_bind; [apply returns_emit|apply returns_emit].
    + rewrite !bytes_of_app, Hb. unfold bytes_of. cbn [flat_map event_bytes]. rewrite Hps, !app_nil_r. reflexivity.
  - destruct (align sp); cbn iota.
    + eexists. split.
      * eapply returns_bind; [apply returns_emit|]. eapply returns_bind; [exact Hp|apply returns_emit].
      * rewrite !bytes_of_app, Hb. unfold bytes_of. cbn [flat_map event_bytes]. rewrite Hps, !app_nil_r. reflexivity.
    + eexists. split.
      * eapply returns_bind; [exact Hp|]. eapply returns_bind; [apply returns_emit|apply returns_emit].
      * rewrite !bytes_of_app, Hb. unfold bytes_of. cbn [flat_map event_bytes]. rewrite Hps, !app_nil_r. reflexivity.
    + eexists. split.
      * eapply returns_bind; [apply returns_emit|]. eapply returns_bind; [exact Hp|apply returns_emit].
      * rewrite !bytes_of_app, Hb. unfold bytes_of. cbn [flat_map event_bytes]. rewrite Hps, !app_nil_r. reflexivity.
Qed.

Lemma radix_of_spec dc : (match dc with DigitChar => false | _ => true end) = true ->
  radix_of dc = Ok (radix_spec dc, upper_spec dc) /\ 2 <= radix_spec dc.
Proof. destruct dc; intros H; try discriminate; simpl; split; (reflexivity || lia). Qed.

Lemma render_int_layout sp v :
  render_int sp v = layout sp (head_of sp v) (digits_text (Z.abs_N v) (radix_spec (dclass sp)) (upper_spec (dclass sp))).
Proof. reflexivity. Qed.

Lemma digits_text_short bits value radix upper : (bits <= 64)%nat ->
  2 <= radix -> value < 2 ^ N.of_nat bits -> (Z.of_nat (length (digits_text value radix upper)) < 2147483648)%Z.
Proof.
  intros Hb Hr Hv. destruct (uint_format_fits bits value radix upper Hr Hv) as [txt [Ht Hl]].
  rewrite (uint_format_digits bits value radix upper Hr Hv) in Ht. inversion Ht as [E]. rewrite E.
  assert (Nat.max 1 bits <= 64)%nat by (apply Nat.max_lub; lia). lia.
Qed.

(* ---- integers: all flag combinations, all widths, every value of the type ---- *)
Theorem numeric_s_render bits sp v :
  is_char_class sp = false -> int_range (minimum_length sp) -> (bits <= 64)%nat ->
  (- 2 ^ Z.of_nat bits < v < 2 ^ Z.of_nat bits)%Z ->
  exists t, returns (format_numeric_s bits sp v) t tt /\ bytes_of t = render_int sp v.
Proof.
  intros Hc Hr Hb Hv. unfold format_numeric_s.
  destruct (radix_of_spec (dclass sp) (not_char_class sp Hc)) as [Hro Hr2].
  rewrite (abs_value_abs bits v Hv).
  pose proof (abs_N_lt bits v Hv) as Hlt.
  pose proof (uint_format_digits bits (Z.abs_N v) _ (upper_spec (dclass sp)) Hr2 Hlt) as Hd.
  pose proof (digits_text_short bits (Z.abs_N v) _ (upper_spec (dclass sp)) Hb Hr2 Hlt) as Hs.
  destruct (numeric_string_returns sp _ v Hr Hs) as [t [Ht Hbt]].
  exists t. split; [|rewrite Hbt; symmetry; apply render_int_layout].
  change t with ([] ++ [] ++ t).
  eapply returns_bind; [apply returns_lift; exact Hro|]. cbv iota beta.
  eapply returns_bind; [apply returns_lift; exact Hd|]. exact Ht.
Qed.

Theorem numeric_u_render bits sp v :
  is_char_class sp = false -> int_range (minimum_length sp) -> (bits <= 64)%nat ->
  v < 2 ^ N.of_nat bits ->
  exists t, returns (format_numeric_u bits sp v) t tt /\ bytes_of t = render_int sp (Z.of_N v).
Proof.
  intros Hc Hr Hb Hv. unfold format_numeric_u.
  destruct (radix_of_spec (dclass sp) (not_char_class sp Hc)) as [Hro Hr2].
  pose proof (uint_format_digits bits v _ (upper_spec (dclass sp)) Hr2 Hv) as Hd.
  pose proof (digits_text_short bits v _ (upper_spec (dclass sp)) Hb Hr2 Hv) as Hs.
  destruct (numeric_string_returns sp _ (Z.of_N v) Hr Hs) as [t [Ht Hbt]].
  assert (Hnt : nt_of (Z.of_N v) = (if v =? 0 then NumZero else NumPositive)).
  { unfold nt_of. destruct (v =? 0) eqn:E.
    - assert (E2 : (Z.of_N v =? 0)%Z = true) by lia. rewrite E2. reflexivity.
    - assert (E2 : (Z.of_N v =? 0)%Z = false) by lia. assert (E3 : (Z.of_N v <? 0)%Z = false) by lia.
      rewrite E2, E3. reflexivity. }
  rewrite Hnt in Ht.
  exists t. split.
  - change t with ([] ++ [] ++ t).
    eapply returns_bind; [apply returns_lift; exact Hro|]. cbv iota beta.
    eapply returns_bind; [apply returns_lift; exact Hd|]. exact Ht.
  - rewrite Hbt, render_int_layout. replace (Z.abs_N (Z.of_N v)) with v by lia. reflexivity.
Qed.
