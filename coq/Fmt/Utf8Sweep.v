(* Fmt/Utf8Sweep.v — write_utf8 (shift/mask form, transcribed from st_utf_conv_priv.h in
   Fmt/Render.v) equals the division form of the Unicode table (RenderSpec.utf8_enc) on every
   code point 0 .. 0x10FFFF: one exhaustive sweep over 2^21 values, evaluated by the kernel VM. *)
From Coq Require Import NArith List Bool Lia.
From ST Require Import Base.Sweep Fmt.Render Fmt.RenderSpec.
Import ListNotations.
Local Open Scope N_scope.

Fixpoint leqb (a b : list N) : bool :=
  match a, b with
  | [], [] => true
  | x :: a', y :: b' => (x =? y) && leqb a' b'
  | _, _ => false
  end.

Lemma leqb_eq a : forall b, leqb a b = true -> a = b.
Proof.
  induction a as [|x a IH]; intros [|y b] H; simpl in H; try discriminate; [reflexivity|].
  apply andb_true_iff in H. destruct H as [H1 H2]. apply N.eqb_eq in H1. subst. f_equal. auto.
Qed.

Definition enc_agree (c : N) : bool :=
  if c <=? 0x10FFFF then leqb (write_utf8 c) (utf8_enc c) else true.

Lemma enc_sweep : all_below 21 enc_agree = true.
Proof. vm_cast_no_check (eq_refl true). Qed.

Theorem write_utf8_enc c : c <= 0x10FFFF -> write_utf8 c = utf8_enc c.
Proof.
  intros H. assert (Hc : c < 2 ^ N.of_nat 21) by (simpl; lia).
  pose proof (all_below_spec 21 enc_agree enc_sweep c Hc) as E. unfold enc_agree in E.
  assert (E2 : c <=? 0x10FFFF = true) by (apply N.leb_le; exact H). rewrite E2 in E.
  apply leqb_eq. exact E.
Qed.
