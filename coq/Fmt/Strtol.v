(* Fmt/Strtol.v — strtol(nptr, &end, 10) as the format parser calls it (three sites in
   format_writer::parse_format), modelled from the C standard (7.22.1.4) for the "C" locale:
   skip isspace, optional sign, decimal digits, saturation at LONG_MAX / LONG_MIN (LP64),
   `end` = nptr when no digit was consumed.  The string is a C array `s` (content ++ [0]);
   every byte is read through `at_`, so a scan that ran past the terminator would be
   Fault OOBRead.  libc is TRUSTED, not under test: this model is validated against glibc
   by the harness op `strtol` on every run.  MODEL ONLY (no proofs here).              *)
From Coq Require Import NArith ZArith List Bool Lia.
From ST Require Import Base.Outcome Base.Units.
Import ListNotations.
Local Open Scope N_scope.
Local Open Scope outcome_scope.

(* a C array of bytes, readable exactly on [0, length) *)
Definition at_ (a : list N) (i : nat) : outcome N := of_opt OOBRead (nth_error a i).
(* the array a NUL-terminated string with content `s` occupies *)
Definition cstr (s : list N) : list N := s ++ [0].

(* isspace in the "C" locale: ' ' \t \n \v \f \r *)
Definition isspace (c : N) : bool := (c =? 32) || ((9 <=? c) && (c <=? 13)).
Definition isdigit (c : N) : bool := (48 <=? c) && (c <=? 57).

Definition long_max : Z := 9223372036854775807%Z.
Definition long_min : Z := (-9223372036854775808)%Z.

Fixpoint skip_space (fuel : nat) (s : list N) (i : nat) : outcome nat :=
  match fuel with
  | O => Fault Hang
  | S f => c <- at_ s i ;; if isspace c then skip_space f s (S i) else Ok i
  end.

(* consumes digits from i; acc = value so far (unbounded), returns (value, index after the digits) *)
Fixpoint digits_loop (fuel : nat) (s : list N) (i : nat) (acc : N) : outcome (N * nat) :=
  match fuel with
  | O => Fault Hang
  | S f => c <- at_ s i ;;
           if isdigit c then digits_loop f s (S i) (acc * 10 + (c - 48)) else Ok (acc, i)
  end.

Definition saturate (neg : bool) (v : N) : Z :=
  if neg then Z.max long_min (- Z.of_N v) else Z.min long_max (Z.of_N v).

(* result: (value, end index) *)
Definition strtol10 (s : list N) (nptr : nat) : outcome (Z * nat) :=
  let fuel := S (length s) in
  i <- skip_space fuel s nptr ;;
  c <- at_ s i ;;
  let neg := c =? 45 in
  let j := if (c =? 45) || (c =? 43) then S i else i in
  '(v, e) <- digits_loop fuel s j 0 ;;
  if Nat.eqb e j then Ok (0%Z, nptr)          (* no conversion: *end = nptr *)
  else Ok (saturate neg v, e).

(* static_cast<int>(long): keep the low 32 bits, two's complement *)
Definition to_int (z : Z) : Z := ((z + 2147483648) mod 4294967296 - 2147483648)%Z.
