(* Fmt/WholeProofs.v — C11, the whole format call: apply_format over the transcribed scanner and
   the transcribed format_type overloads produces exactly what the specification says for the
   whole format string — literal text with doubled braces reduced, each field replaced by the
   rendering of the argument RenderSpec.assign gives it (sequential counter untouched by &N,
   &N 1-based) — and fails exactly where the specification says a call must fail.           *)
From Coq Require Import NArith ZArith List Bool Lia ZifyBool ZifyNat ZifyN.
From ST Require Import Base.Outcome Base.Units Fmt.Strtol Fmt.StrtolProofs Fmt.ShiftProofs Fmt.Parser
  Fmt.ParserProofs Fmt.Render Fmt.DriverProofs Fmt.RenderSpec Fmt.Sinks Fmt.SinksProofs Fmt.RenderProofs
  Fmt.FieldProofs Fmt.ParseSpecProofs Fmt.FetchSpecProofs.
Import ListNotations.
Local Open Scope N_scope.

Lemma assign_lits b : forall its args seq,
  assign (map ILit b ++ its) args seq =
  let r := assign its args seq in mk_assigned (b ++ out_bytes r) (short r) (char_pad r).
Proof.
  induction b as [|c b IH]; intros its args seq.
  - cbn [map app]. destruct (assign its args seq); reflexivity.
  - cbn [map app assign]. rewrite IH. reflexivity.
Qed.

Lemma count_seq_lits b its : count_seq (map ILit b ++ its) = count_seq its.
Proof.
  unfold count_seq. rewrite filter_app.
  assert (E : filter (fun i => match i with IField sp => (arg_index sp <? 0)%Z | _ => false end) (map ILit b) = []).
  { induction b; [reflexivity|exact IHb]. }
  rewrite E. reflexivity.
Qed.

(* the model's run against the specification's (items, well-formed?) and its assignment *)
Definition agrees (w : W unit) (wf : bool) (r : assigned) : Prop :=
  (exists t, returns w t tt /\ wf = true /\ short r = false /\ char_pad r = false /\ bytes_of t = out_bytes r)
  \/ (exists t, w = (t, Throw BadFormat) /\ wf = false)
  \/ (exists t, w = (t, Throw OutOfRange) /\ short r = true)
  \/ (exists t, w = (t, Abort AbCharPad) /\ char_pad r = true).

(* prefixing writer calls and literal bytes on both sides *)
Lemma agrees_prefix {A} (m : W A) (k : A -> W unit) tp (x : A) b w wf r :
  returns m tp x -> bytes_of tp = b -> w = k x -> agrees w wf r ->
  agrees (bindW m k) wf (mk_assigned (b ++ out_bytes r) (short r) (char_pad r)).
Proof.
  intros Hm Hb Hw H. subst w. unfold returns in Hm. rewrite Hm. unfold bindW.
  destruct H as [[t [Ht [H1 [H2 [H3 H4]]]]]|[[t [Ht H1]]|[[t [Ht H1]]|[t [Ht H1]]]]].
  - left. unfold returns in Ht. rewrite Ht. exists (tp ++ t). cbn [out_bytes short char_pad].
    repeat split; try assumption. rewrite bytes_of_app, Hb, H4. reflexivity.
  - right; left. rewrite Ht. exists (tp ++ t). auto.
  - right; right; left. rewrite Ht. exists (tp ++ t). auto.
  - right; right; right. rewrite Ht. exists (tp ++ t). auto.
Qed.

Section Fmt.
Variable fmt : list N.
Variable args : list arg.
Hypothesis Hnz : Forall (fun b => b <> 0) fmt.
Hypothesis Hargs : Forall arg_range args.
Hypothesis Hlen : N.of_nat (length fmt) < two64.
Hypothesis Hnargs : N.of_nat (length args) < two64.
Let a := cstr fmt.
Let len := length fmt.

(* which argument a field takes: the model's formatter_id test against the specification's *)
Lemma select_agree sp seq : spec_ints sp ->
  let fid := if (0 <=? arg_index sp)%Z then to_size (arg_index sp - 1) else N.of_nat seq in
  let which : option nat :=
    if (0 <=? arg_index sp)%Z then
      (if (arg_index sp =? 0)%Z || (Z.of_nat (length args) <? arg_index sp)%Z then None
       else Some (Z.to_nat (arg_index sp - 1)))
    else Some seq in
  match which with
  | None => (N.of_nat (length args) <=? fid) = true
  | Some k => match nth_error args k with
              | None => (N.of_nat (length args) <=? fid) = true
              | Some x => (N.of_nat (length args) <=? fid) = false /\ nth_error args (N.to_nat fid) = Some x
              end
  end.
Proof.
  intros [_ [_ Hai]] fid which. unfold int_range in Hai. unfold two64 in *.
  subst fid which.
  destruct (0 <=? arg_index sp)%Z eqn:Ee.
  - destruct ((arg_index sp =? 0)%Z || (Z.of_nat (length args) <? arg_index sp)%Z) eqn:En.
    + destruct (arg_index sp =? 0)%Z eqn:Ez.
      * assert (E : arg_index sp = 0%Z) by lia. rewrite E. unfold to_size. simpl. lia.
      * unfold to_size. rewrite Z.mod_small by lia. lia.
    + assert (Hs : to_size (arg_index sp - 1) = Z.to_N (arg_index sp - 1)).
      { unfold to_size. rewrite Z.mod_small by lia. reflexivity. }
      rewrite Hs.
      assert (Hk : N.to_nat (Z.to_N (arg_index sp - 1)) = Z.to_nat (arg_index sp - 1)) by lia.
      destruct (nth_error args (Z.to_nat (arg_index sp - 1))) as [x|] eqn:Ex.
      * rewrite Hk. split; [lia|exact Ex].
      * apply nth_error_None in Ex. lia.
  - rewrite Nat2N.id.
    destruct (nth_error args seq) as [x|] eqn:Ex.
    + split; [|reflexivity]. assert (seq < length args)%nat by (apply nth_error_Some; congruence). lia.
    + apply nth_error_None in Ex. lia.
Qed.

Lemma arg_range_ok x : arg_range x -> arg_ok x.
Proof.
  destruct x as [sgn bits v|v|v|v|b|s| |r]; cbn [arg_range arg_ok]; try (intros; exact I).
  - destruct sgn; [intros; exact I|]. intros [Hb Hv]. split; [lia|].
    apply N2Z.inj_lt. rewrite z_pow_N, Z2N.id; lia.
  - intros H. change (2 ^ N.of_nat 32) with 4294967296. exact H.
  - tauto.
Qed.

(* the loop of apply_format from offset m with `seq` sequential fields behind it *)
Lemma apply_loop_vs_spec fs : forall m seq fuel,
  (m <= len)%nat -> (seq <= m)%nat -> (length (skipn m fmt) < fs)%nat -> (len - m < fuel)%nat ->
  let '(its, wf) := scan fs (skipn m fmt) in
  agrees (apply_loop fuel a args m (N.of_nat seq)) wf (assign its args seq).
Proof.
  induction fs as [|f IH]; intros m seq fuel Hm Hseq Hfs Hfuel; [lia|].
  destruct fuel as [|fl]; [lia|].
  cbn [scan apply_loop].
  destruct (next_format_vs_lit fmt Hnz m Hm) as [tp [m1 [Hm1 [Hb [Hrest Hnf]]]]]. fold a in Hnf. fold len in Hm1.
  destruct (lit_prefix (skipn m fmt)) as [b rr] eqn:Elp. cbn [fst snd] in Hb, Hrest.
  destruct Hnf as [[Hnil Hnf]|[t [Ht Hnf]]].
  - (* end of the string *)
    rewrite Hrest, Hnil.
    replace (assign (map ILit b) args seq) with (mk_assigned (b ++ []) false false)
      by (rewrite <- (app_nil_r (map ILit b)), assign_lits; reflexivity).
    left. exists (tp ++ []). split; [eapply returns_bind; [exact Hnf|reflexivity]|].
    cbn [short char_pad out_bytes]. rewrite !app_nil_r. auto.
  - (* a field *)
    rewrite Hrest, Ht.
    pose proof (parse_format_vs_spec fmt Hnz m1 t Ht) as Hp. fold a in Hp.
    assert (Hat : at_ a m1 = Ok 123).
    { pose proof (at_suffix_head fmt m1 ltac:(fold len; lia)) as H. fold a in H. rewrite H, Ht. reflexivity. }
    pose proof (parse_format_ok fmt m1 Hat) as Hgood. fold a in Hgood.
    destruct (field_spec (S (length t)) t default_spec) as [[sp rest]|] eqn:Efs; cbn [agree_parse] in Hp.
    2:{ (* malformed *)
      replace (assign (map ILit b) args seq) with (mk_assigned (b ++ []) false false)
        by (rewrite <- (app_nil_r (map ILit b)), assign_lits; reflexivity).
      right; left. exists (tp ++ []). split; [|reflexivity].
      unfold returns in Hnf. rewrite Hnf. unfold bindW. cbn [negb]. rewrite Hp. reflexivity. }
    destruct Hp as [k [Hk [Hrk Hpk]]].
    rewrite Hpk in Hgood. cbn [parse_good] in Hgood. destruct Hgood as [Hk2 Hsp]. fold len in Hk2.
    (* the rest of the string *)
    specialize (IH k (if (0 <=? arg_index sp)%Z then seq else S seq) fl ltac:(lia)
                  ltac:(destruct (0 <=? arg_index sp)%Z; lia)).
    rewrite <- Hrk in IH.
    assert (Hrl : (length rest < f)%nat).
    { rewrite Hrk, skipn_length. rewrite skipn_length in Hfs. fold len. fold len in Hfs. lia. }
    specialize (IH Hrl ltac:(lia)).
    destruct (scan f rest) as [its ok] eqn:Esc.
    rewrite assign_lits. cbv zeta.
    (* the model up to the field *)
    eapply (agrees_prefix _ _ tp (m1, true) b); [exact Hnf|exact Hb|reflexivity|].
    cbn [assign].
    cbn [negb]. rewrite Hpk. rewrite bindW_lift_ok.
    pose proof (select_agree sp seq Hsp) as Hsel. cbv zeta in Hsel.
    set (fid := if (0 <=? arg_index sp)%Z then to_size (arg_index sp - 1) else N.of_nat seq) in *.
    set (which := if (0 <=? arg_index sp)%Z
                  then (if (arg_index sp =? 0)%Z || (Z.of_nat (length args) <? arg_index sp)%Z then None
                        else Some (Z.to_nat (arg_index sp - 1)))
                  else Some seq) in *.
    set (seq' := if (0 <=? arg_index sp)%Z then seq else S seq) in *.
    set (r' := assign its args seq') in *.
    assert (Hindex : (if (0 <=? arg_index sp)%Z then N.of_nat seq else wrap64 (N.of_nat seq + 1)) = N.of_nat seq').
    { subst seq'. destruct (0 <=? arg_index sp)%Z; [reflexivity|].
      unfold wrap64. unfold two64 in *. rewrite N.mod_small by lia. lia. }
    destruct which as [kk|].
    2:{ rewrite Hsel. right; right; left. exists []. split; reflexivity. }
    destruct (nth_error args kk) as [x|] eqn:Ex.
    2:{ rewrite Hsel. right; right; left. exists []. split; reflexivity. }
    destruct Hsel as [Hs1 Hs2]. rewrite Hs1, Hs2.
    assert (Hx : arg_range x).
    { rewrite Forall_forall in Hargs. apply Hargs. eapply nth_error_In. exact Ex. }
    pose proof (field_render sp x Hsp Hx) as Hf.
    destruct (render_field sp x) as [bb|] eqn:Erf; cbn [field_matches] in Hf.
    + destruct Hf as [tf [Htf Hbf]].
      rewrite Hindex.
      exact (agrees_prefix _ _ tf tt bb _ ok r' Htf Hbf eq_refl IH).
    + rewrite Hf. right; right; right. exists []. split; reflexivity.
Qed.

End Fmt.

(* what a verdict of the specification means for the model's run *)
Definition satisfies (w : W unit) (v : verdict) : Prop :=
  match v with
  | VNull => w = ([], Throw InvalidArgument)
  | VBytes b => exists t, returns w t tt /\ bytes_of t = b
  | VFail bad oor cp =>
      exists t, (w = (t, Throw BadFormat) /\ bad = true) \/ (w = (t, Throw OutOfRange) /\ oor = true)
                \/ (w = (t, Abort AbCharPad) /\ cp = true)
  end.

Lemma short_no_args b sp its : short (assign (map ILit b ++ IField sp :: its) [] 0) = true.
Proof.
  rewrite assign_lits. cbv zeta. cbn [short assign].
  destruct (0 <=? arg_index sp)%Z eqn:E.
  - assert (E2 : (arg_index sp =? 0)%Z || (Z.of_nat (@length arg []) <? arg_index sp)%Z = true) by (simpl length; lia).
    rewrite E2. reflexivity.
  - reflexivity.
Qed.

(* C11: render_model = render_spec, for the whole format string *)
Theorem whole_render (fmt : list N) (args : list arg) :
  Forall (fun b => b <> 0) fmt -> Forall arg_range args ->
  N.of_nat (length fmt) < two64 -> N.of_nat (length args) < two64 ->
  satisfies (driver (Some fmt) args) (spec_format (Some fmt) args).
Proof.
  intros Hnz Hargs Hlen Hnargs. unfold spec_format, driver.
  destruct args as [|x xs] eqn:Eargs.
  - (* the zero-argument overload *)
    unfold apply_format0.
    destruct (next_format_vs_lit fmt Hnz 0 ltac:(lia)) as [tp [m1 [Hm1 [Hb [Hrest Hnf]]]]].
    cbn [skipn] in Hb, Hrest. cbn [scan].
    destruct (lit_prefix fmt) as [b rr] eqn:Elp. cbn [fst snd] in Hb, Hrest.
    destruct Hnf as [[Hnil Hnf]|[t [Ht Hnf]]].
    + rewrite Hrest, Hnil.
      replace (assign (map ILit b) [] 0) with (mk_assigned (b ++ []) false false)
        by (rewrite <- (app_nil_r (map ILit b)), assign_lits; reflexivity).
      cbn [short char_pad out_bytes andb negb satisfies].
      exists (tp ++ []). split; [eapply returns_bind; [exact Hnf|reflexivity]|].
      rewrite !app_nil_r. exact Hb.
    + rewrite Hrest, Ht.
      assert (Hw : bindW (next_format (cstr fmt) 0)
                     (fun x => let '(_, more) := x in if more then liftW (Throw OutOfRange) else retW tt)
                   = (tp ++ [], Throw OutOfRange)).
      { unfold returns in Hnf. rewrite Hnf. reflexivity. }
      rewrite Hw.
      destruct (field_spec (S (length t)) t default_spec) as [[sp rest]|].
      * destruct (scan (length fmt) rest) as [its ok].
        rewrite short_no_args. rewrite andb_false_r. cbn [andb orb satisfies].
        exists (tp ++ []). right; left. auto.
      * replace (assign (map ILit b) [] 0) with (mk_assigned (b ++ []) false false)
          by (rewrite <- (app_nil_r (map ILit b)), assign_lits; reflexivity).
        cbn [short char_pad negb andb orb length Nat.leb satisfies].
        exists (tp ++ []). right; left. auto.
  - rewrite <- Eargs in *. clear Eargs x xs.
    assert (Hne : match args with [] => False | _ => True end \/ args = []) by (destruct args; auto).
    pose proof (apply_loop_vs_spec fmt args Hnz Hargs Hlen Hnargs (S (length fmt)) 0 0 (S (length (cstr fmt)))
                  ltac:(lia) ltac:(lia)) as H.
    cbn [skipn] in H. specialize (H ltac:(lia)). rewrite (cstr_length fmt) in H. specialize (H ltac:(lia)).
    rewrite (cstr_length fmt).
    destruct (scan (S (length fmt)) fmt) as [its wf].
    set (r := assign its args 0) in *. change (N.of_nat 0) with 0 in H.
    destruct H as [[t [Ht [H1 [H2 [H3 H4]]]]]|[[t [Ht H1]]|[[t [Ht H1]]|[t [Ht H1]]]]].
    + rewrite H1, H2, H3. cbn [andb negb satisfies]. exists t. split; [|exact H4].
      destruct args; [|exact Ht]. exact Ht.
    + rewrite H1. cbn [andb negb satisfies]. exists t. left. split; [|reflexivity].
      destruct args; exact Ht.
    + rewrite H1. rewrite andb_false_r. cbn [andb orb negb satisfies]. exists t. right; left. split; [|reflexivity].
      destruct args; exact Ht.
    + rewrite H1. rewrite andb_false_r. cbn [satisfies]. exists t. right; right. split; [|reflexivity].
      destruct args; exact Ht.
Qed.

(* the VBytes and VFail verdicts are both inhabited *)
Lemma verdict_examples :
  spec_format (Some [123; 125]) [AInt true 32 (-5)] = VBytes [45; 53] /\
  spec_format (Some [97; 123; 123; 123; 35; 120; 125]) [AInt false 8 255] = VBytes [97; 123; 48; 120; 102; 102] /\
  spec_format (Some [123; 125; 123]) [AInt true 32 1; AInt true 32 2] = VFail true false false /\
  spec_format (Some [123; 38; 50; 125]) [AInt true 32 1] = VFail false true false.
Proof. vm_compute. auto. Qed.
