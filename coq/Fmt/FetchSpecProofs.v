(* Fmt/FetchSpecProofs.v — C11, literals: the transcribed fetch_prefix (pointer pair
   m_format_str / next, flushing a chunk at every doubled brace) hands the writer exactly the
   literal text RenderSpec.lit_prefix describes — "{{" and "}}" reduced, everything else
   verbatim — and stops where the specification's remaining text starts.                   *)
From Coq Require Import NArith ZArith List Bool Lia ZifyBool ZifyNat ZifyN.
From ST Require Import Base.Outcome Base.Units Fmt.Strtol Fmt.StrtolProofs Fmt.ShiftProofs Fmt.Parser
  Fmt.ParserProofs Fmt.Render Fmt.RenderSpec Fmt.Sinks Fmt.SinksProofs Fmt.RenderProofs Fmt.ParseSpecProofs.
Import ListNotations.
Local Open Scope N_scope.

Lemma bindW_lift_ok {A B} (x : A) (k : A -> W B) : bindW (liftW (Ok x)) k = k x.
Proof. unfold bindW, liftW. destruct (k x). reflexivity. Qed.

Section Fmt.
Variable fmt : list N.
Hypothesis Hnz : Forall (fun b => b <> 0) fmt.
Let a := cstr fmt.
Let len := length fmt.

(* the bytes fmt[x .. y) *)
Definition slice (x y : nat) : list N := firstn (y - x) (skipn x fmt).

Lemma slice_empty x : slice x x = [].
Proof. unfold slice. rewrite Nat.sub_diag. reflexivity. Qed.

Lemma firstn_snoc : forall n (l : list N) c t, skipn n l = c :: t -> firstn (S n) l = firstn n l ++ [c].
Proof.
  induction n as [|n IH]; intros l c t H.
  - simpl in H. subst l. reflexivity.
  - destruct l as [|x l]; [discriminate|]. cbn [skipn] in H.
    change (x :: firstn (S n) l = (x :: firstn n l) ++ [c]). rewrite (IH l c t H). reflexivity.
Qed.

Lemma slice_snoc x y c t : (x <= y)%nat -> skipn y fmt = c :: t -> slice x (S y) = slice x y ++ [c].
Proof.
  intros Hxy H. unfold slice. replace (S y - x)%nat with (S (y - x)) by lia.
  apply (firstn_snoc (y - x) (skipn x fmt) c t). rewrite skipn_add. replace (x + (y - x))%nat with y by lia. exact H.
Qed.

Lemma slice_one y c t : skipn y fmt = c :: t -> slice y (S y) = [c].
Proof.
  intros H. rewrite (slice_snoc y y c t (le_n _) H), slice_empty. reflexivity.
Qed.

Lemma rd_range_slice x y : (x <= y <= len)%nat -> rd_range a x (y - x) = Ok (slice x y).
Proof.
  intros H. unfold rd_range.
  assert (E : Nat.leb (x + (y - x)) (length a) = true).
  { apply Nat.leb_le. unfold a. rewrite (cstr_length fmt). fold len. lia. }
  rewrite E. f_equal. unfold slice, a, cstr.
  rewrite skipn_app. rewrite firstn_app. rewrite skipn_length. fold len.
  replace (y - x - (len - x))%nat with O by lia. cbn [firstn]. apply app_nil_r.
Qed.

Lemma append_range_returns x y : (x <= y <= len)%nat -> returns (append_range a x y) [EApp (slice x y)] tt.
Proof.
  intros H. unfold append_range.
  assert (E : Nat.ltb y x = false) by (apply Nat.ltb_ge; lia). rewrite E.
  rewrite (rd_range_slice x y H). reflexivity.
Qed.

Lemma skipn_nil_len y : (y <= len)%nat -> skipn y fmt = [] -> y = len.
Proof.
  intros Hy H. assert (L : length (skipn y fmt) = 0%nat) by (rewrite H; reflexivity).
  rewrite skipn_length in L. fold len in L. lia.
Qed.

(* the loop of fetch_prefix against lit_prefix on the text from `next` on *)
Lemma fetch_vs_lit fuel : forall m next, (m <= next <= len)%nat -> (len - next < fuel)%nat ->
  exists tr m' next',
    returns (fetch_loop fuel a m next) tr (m', next') /\ (m' <= next' <= len)%nat /\ (next <= next')%nat /\
    snd (lit_prefix (skipn next fmt)) = skipn next' fmt /\
    bytes_of tr ++ slice m' next' = slice m next ++ fst (lit_prefix (skipn next fmt)).
Proof.
  induction fuel as [|f IH]; intros m next Hm Hf; [lia|].
  cbn [fetch_loop].
  pose proof (at_suffix_head fmt next ltac:(fold len; lia)) as Hat. fold a in Hat.
  destruct (skipn next fmt) as [|c t] eqn:El.
  { (* the terminator *)
    exists [], m, next. rewrite Hat. split; [reflexivity|]. split; [lia|]. split; [lia|].
    cbn [lit_prefix fst snd]. rewrite El, app_nil_r. auto. }
  pose proof (suffix_nonzero fmt Hnz next c t El) as Hc.
  pose proof (skipn_cons_nth next fmt c t El) as Et.
  pose proof (skipn_length_le fmt next c t El) as Hlt. fold len in Hlt.
  pose proof (at_suffix_head fmt (S next) ltac:(fold len; lia)) as Hat1. fold a in Hat1. rewrite Et in Hat1.
  assert (E0 : c =? 0 = false) by lia.
  (* one ordinary byte (or a lone '}'): the pending literal grows by it *)
  assert (Hstep : forall b r, lit_prefix t = (b, r) ->
            exists tr m' next',
              returns (fetch_loop f a m (S next)) tr (m', next') /\ (m' <= next' <= len)%nat /\ (next <= next')%nat /\
              r = skipn next' fmt /\ bytes_of tr ++ slice m' next' = slice m next ++ c :: b).
  { intros b r Hlp. destruct (IH m (S next)) as [tr [m' [n' [Hr [H1 [H2 [H3 H4]]]]]]]; [lia|lia|].
    rewrite Et, Hlp in H3, H4. cbn [fst snd] in H3, H4.
    exists tr, m', n'. split; [exact Hr|]. split; [exact H1|]. split; [lia|]. split; [exact H3|].
    rewrite H4, (slice_snoc m next c t ltac:(lia) El), <- app_assoc. reflexivity. }
  (* a doubled brace: flush the pending literal, restart the literal at the second brace *)
  assert (Hdbl : forall c1 t1 b r, t = c1 :: t1 -> c1 = c -> lit_prefix t1 = (b, r) ->
            exists tr m' next',
              returns (bindW (append_range a m next) (fun _ => fetch_loop f a (S next) (S (S next)))) tr (m', next')
              /\ (m' <= next' <= len)%nat /\ (next <= next')%nat /\
              r = skipn next' fmt /\ bytes_of tr ++ slice m' next' = slice m next ++ c :: b).
  { intros c1 t1 b r Ht Hc1 Hlp. rewrite Ht in Et. subst c1.
    pose proof (skipn_cons_nth (S next) fmt c t1 Et) as Et1.
    pose proof (skipn_length_le fmt (S next) c t1 Et) as Hlt1. fold len in Hlt1.
    destruct (IH (S next) (S (S next))) as [tr [m' [n' [Hr [H1 [H2 [H3 H4]]]]]]]; [lia|lia|].
    rewrite Et1, Hlp in H3, H4. cbn [fst snd] in H3, H4.
    exists ([EApp (slice m next)] ++ tr), m', n'.
    split; [eapply returns_bind; [apply append_range_returns; lia|exact Hr]|].
    split; [exact H1|]. split; [lia|]. split; [exact H3|].
    rewrite bytes_of_app. unfold bytes_of at 1. cbn [flat_map event_bytes]. rewrite app_nil_r, <- app_assoc, H4.
    rewrite (slice_one (S next) c t1 Et). reflexivity. }
  rewrite Hat, bindW_lift_ok, E0.
  cbn [lit_prefix].
  destruct (c =? 123) eqn:E1.
  { rewrite Hat1. destruct t as [|c1 t1] eqn:Et2.
    - (* '{' then the terminator: a field starts here (and is unterminated) *)
      rewrite bindW_lift_ok. change (negb (0 =? 123)) with true. cbv iota.
      exists [], m, next. split; [reflexivity|]. split; [lia|]. split; [lia|].
      cbn [fst snd]. rewrite El, app_nil_r. auto.
    - rewrite bindW_lift_ok.
      destruct (c1 =? 123) eqn:E2; cbn [negb]; cbv iota.
      + destruct (lit_prefix t1) as [b r] eqn:Elp. cbn [fst snd].
        assert (Hcc : c1 = c) by lia.
        destruct (Hdbl c1 t1 b r eq_refl Hcc Elp) as [tr [m' [n' [Hr [H1 [H2 [H3 H4]]]]]]].
        exists tr, m', n'. repeat split; try assumption; try lia. rewrite H4. f_equal. f_equal. lia.
      + exists [], m, next. split; [reflexivity|]. split; [lia|]. split; [lia|].
        cbn [fst snd]. rewrite El, app_nil_r. auto. }
  destruct (c =? 125) eqn:E3.
  { rewrite Hat1. assert (c = 125) by lia. subst c. destruct t as [|c1 t1] eqn:Et2.
    - rewrite bindW_lift_ok. change (0 =? 125) with false. cbv iota.
      destruct (Hstep [] [] eq_refl) as [tr [m' [n' [Hr [H1 [H2 [H3 H4]]]]]]].
      exists tr, m', n'. cbn [fst snd]. auto.
    - rewrite bindW_lift_ok.
      destruct (c1 =? 125) eqn:E4.
      + destruct (lit_prefix t1) as [b r] eqn:Elp. cbn [fst snd].
        assert (Hcc : c1 = 125) by lia.
        destruct (Hdbl c1 t1 b r eq_refl Hcc Elp) as [tr [m' [n' [Hr [H1 [H2 [H3 H4]]]]]]].
        exists tr, m', n'. auto.
      + destruct (lit_prefix (c1 :: t1)) as [b r] eqn:Elp. cbn [fst snd].
        destruct (Hstep b r eq_refl) as [tr [m' [n' [Hr [H1 [H2 [H3 H4]]]]]]].
        exists tr, m', n'. auto. }
  destruct (lit_prefix t) as [b r] eqn:Elp. cbn [fst snd].
  destruct (Hstep b r eq_refl) as [tr [m' [n' [Hr [H1 [H2 [H3 H4]]]]]]].
  exists tr, m', n'. auto.
Qed.

(* next_format from offset m: the literal text goes to the writer; it stops at the end of the
   string (false) or at the '{' of a field (true), where the specification's rest starts *)
Theorem next_format_vs_lit m : (m <= len)%nat ->
  exists tr m1,
    (m <= m1 <= len)%nat /\ bytes_of tr = fst (lit_prefix (skipn m fmt)) /\
    snd (lit_prefix (skipn m fmt)) = skipn m1 fmt /\
    ((skipn m1 fmt = [] /\ returns (next_format a m) tr (m1, false)) \/
     (exists t, skipn m1 fmt = 123 :: t /\ returns (next_format a m) tr (m1, true))).
Proof.
  intros Hm.
  destruct (fetch_vs_lit (S (length a)) m m) as [tr [m' [n' [Hr [H1 [H2 [H3 H4]]]]]]];
    [lia|unfold a; rewrite (cstr_length fmt); fold len; lia|].
  rewrite slice_empty in H4. cbn [app] in H4.
  (* the final flush *)
  assert (Hfl : exists tr2, returns (if Nat.eqb n' m' then retW tt else append_range a m' n') tr2 tt
                            /\ bytes_of tr2 = slice m' n').
  { destruct (Nat.eqb n' m') eqn:E.
    - apply Nat.eqb_eq in E. subst n'. exists []. split; [reflexivity|]. rewrite slice_empty. reflexivity.
    - exists [EApp (slice m' n')]. split; [apply append_range_returns; lia|].
      unfold bytes_of. cbn [flat_map event_bytes]. apply app_nil_r. }
  destruct Hfl as [tr2 [Hr2 Hb2]].
  pose proof (at_suffix_head fmt n' ltac:(fold len; lia)) as Hat. fold a in Hat.
  pose proof (fetch_prefix_ok fmt m Hm) as Hfp.
  exists (tr ++ tr2 ++ []), n'. split; [lia|].
  split; [rewrite app_nil_r, bytes_of_app, Hb2; exact H4|].
  split; [exact H3|].
  unfold next_format, fetch_prefix.
  destruct (skipn n' fmt) as [|c t] eqn:El.
  - left. split; [reflexivity|].
    replace (tr ++ tr2 ++ []) with ((tr ++ tr2 ++ [] ++ []) ++ []) by (rewrite !app_nil_r; reflexivity).
    eapply returns_bind.
    { eapply returns_bind; [exact Hr|]. cbv beta iota.
      eapply returns_bind; [exact Hr2|].
      eapply returns_bind; [apply returns_lift; exact Hat|]. reflexivity. }
    reflexivity.
  - (* the loop only stops on the terminator or on the '{' of a field *)
    destruct Hfp as [m1' [c' [Hout [_ [Hat' Hc']]]]].
    assert (Hsame : outW (fetch_prefix a m) = Ok (n', c)).
    { unfold fetch_prefix, outW. unfold returns in Hr, Hr2.
      rewrite Hr. cbn [bindW]. rewrite Hr2. cbn [bindW]. rewrite Hat. reflexivity. }
    fold a in Hout. rewrite Hsame in Hout. inversion Hout. subst m1' c'.
    pose proof (suffix_nonzero fmt Hnz n' c t El) as Hcnz.
    destruct Hc' as [Hc'|Hc']; [congruence|]. subst c.
    right. exists t. split; [reflexivity|].
    replace (tr ++ tr2 ++ []) with ((tr ++ tr2 ++ [] ++ []) ++ []) by (rewrite !app_nil_r; reflexivity).
    eapply returns_bind.
    { eapply returns_bind; [exact Hr|]. cbv beta iota.
      eapply returns_bind; [exact Hr2|].
      eapply returns_bind; [apply returns_lift; exact Hat|]. reflexivity. }
    reflexivity.
Qed.

End Fmt.
