(* Fmt/SinksProofs.v — the writers.  The driver's result is the sequence of writer calls plus its
   ending, and nothing else: it is parametric in the writer by construction.  Here: each narrow
   writer's append / append_char denote the same byte concatenation (`bytes_of`), so the FILE*
   sink, the narrow ostream sink and the string sink's buffer receive the same bytes and the
   call ends the same way (narrow_sinks_equal); the string sink's result is from_utf8 of those
   bytes; format_latin_1 is their Latin-1 -> UTF-8 transcoding.                            *)
From Coq Require Import NArith ZArith List Bool Lia ZifyBool ZifyNat ZifyN.
From ST Require Import Base.Outcome Base.Units Base.Sweep Fmt.Strtol Fmt.Parser Fmt.ParserProofs Fmt.Render
  Fmt.RenderSpec Fmt.Sinks.
Import ListNotations.
Local Open Scope N_scope.

(* the bytes one writer call stands for *)
Definition event_bytes (e : event) : list N :=
  match e with
  | EApp d => d
  | EPad ch count => repeat ch (N.to_nat count)
  end.
Definition bytes_of (t : list event) : list N := flat_map event_bytes t.

Lemma iter_snoc (c : N) : forall k acc, Nat.iter k (fun x => x ++ [c]) acc = acc ++ repeat c k.
Proof.
  induction k as [|k IH]; intros acc; simpl.
  - rewrite app_nil_r. reflexivity.
  - rewrite IH. rewrite <- app_assoc. f_equal. rewrite <- repeat_cons. reflexivity.
Qed.

(* `while (count) { put(ch); --count; }` writes count copies *)
Lemma put_loop_repeat acc ch count : put_loop acc ch count = acc ++ repeat ch (N.to_nat count).
Proof. unfold put_loop. rewrite N2Nat.inj_iter. apply iter_snoc. Qed.

Definition narrow_step (step : list N -> event -> outcome (list N)) : Prop :=
  forall acc e, step acc e = Ok (acc ++ event_bytes e).

Lemma string_step_narrow : narrow_step string_step.
Proof. intros acc [d|c n]; reflexivity. Qed.
Lemma file_step_narrow : narrow_step file_step.
Proof. intros acc [d|c n]; simpl; [reflexivity|]. rewrite put_loop_repeat. reflexivity. Qed.
Lemma ostream_step_narrow : narrow_step ostream_step.
Proof. intros acc [d|c n]; simpl; [reflexivity|]. rewrite put_loop_repeat. reflexivity. Qed.

Lemma feed_narrow step : narrow_step step ->
  forall t acc, feed step acc t = (acc ++ bytes_of t, Ok tt).
Proof.
  intros Hs. induction t as [|e t IH]; intros acc; simpl.
  - rewrite app_nil_r. reflexivity.
  - rewrite Hs. rewrite IH. rewrite <- app_assoc. reflexivity.
Qed.

(* a narrow writer never fails: what reaches it is the concatenation of the calls, and the
   call ends as the driver ends *)
Lemma run_writer_narrow step : narrow_step step ->
  forall r : W unit, run_writer step r = (bytes_of (fst r), snd r).
Proof.
  intros Hs [t fin]. unfold run_writer. rewrite (feed_narrow step Hs). reflexivity.
Qed.

(* C17: ST::printf(FILE* ), ST::writef(narrow ostream) and the string sink's buffer *)
Theorem narrow_sinks_equal fmt args :
  let d := driver fmt args in
  format_to_stream StFile fmt args = (bytes_of (fst d), snd d) /\
  format_to_stream StOstream fmt args = (bytes_of (fst d), snd d) /\
  run_writer string_step d = (bytes_of (fst d), snd d).
Proof.
  intros d. unfold format_to_stream, stream_step. fold d.
  rewrite (run_writer_narrow file_step file_step_narrow).
  rewrite (run_writer_narrow ostream_step ostream_step_narrow).
  rewrite (run_writer_narrow string_step string_step_narrow). auto.
Qed.

(* ST::format(validation, ...) is from_utf8 of those same bytes when the driver returns *)
Lemma format_to_string_eq v fmt args :
  format_to_string v fmt args =
  match outW (driver fmt args) with
  | Ok _ => from_utf8 v (bytes_of (fst (driver fmt args)))
  | Throw x => Throw x
  | Abort w => Abort w
  | Fault f => Fault f
  end.
Proof.
  unfold format_to_string. rewrite (run_writer_narrow string_step string_step_narrow).
  unfold outW. destruct (snd (driver fmt args)); reflexivity.
Qed.

Lemma format_to_latin1_eq fmt args :
  format_to_latin1 fmt args =
  match outW (driver fmt args) with
  | Ok _ => latin_1_to_utf8 (bytes_of (fst (driver fmt args)))
  | Throw x => Throw x
  | Abort w => Abort w
  | Fault f => Fault f
  end.
Proof.
  unfold format_to_latin1. rewrite (run_writer_narrow string_step string_step_narrow).
  unfold outW. destruct (snd (driver fmt args)); reflexivity.
Qed.

(* the same format call through ST::format(assume_valid, ...) and through printf / writef:
   same bytes whenever the former returns (below the ST_HUGE_BUFFER_SIZE contract) *)
Theorem format_equals_streams fmt args raw :
  format_to_string AssumeValid fmt args = Ok raw ->
  format_to_stream StFile fmt args = (raw, Ok tt) /\ format_to_stream StOstream fmt args = (raw, Ok tt).
Proof.
  intros H. rewrite format_to_string_eq in H.
  destruct (narrow_sinks_equal fmt args) as [A [B _]]. cbv zeta in A, B. rewrite A, B.
  unfold outW in H. destruct (snd (driver fmt args)) as [[]|x|w|f]; try discriminate.
  unfold from_utf8 in H. destruct (huge_buffer_size <=? _); [discriminate|]. inversion H. auto.
Qed.

(* and a stream sink ends in an exception exactly when ST::format throws that driver exception *)
Theorem format_throws_streams v fmt args x : x <> UnicodeError ->
  format_to_string v fmt args = Throw x ->
  snd (format_to_stream StFile fmt args) = Throw x /\ snd (format_to_stream StOstream fmt args) = Throw x.
Proof.
  intros Hx H. rewrite format_to_string_eq in H.
  destruct (narrow_sinks_equal fmt args) as [A [B _]]. cbv zeta in A, B. rewrite A, B. simpl.
  unfold outW in H. destruct (snd (driver fmt args)) as [[]|y|w|f]; try discriminate.
  - unfold from_utf8 in H. destruct (huge_buffer_size <=? _); [discriminate|].
    destruct v; try discriminate. destruct (validate_utf8 _); [discriminate|]. inversion H. congruence.
  - inversion H. subst. auto.
Qed.

(* ---- Latin-1: each byte is the code point of that value ---- *)
Lemma latin1_byte_enc_sweep : all_below 8 (fun c => if list_eq_dec N.eq_dec (latin1_byte c) (utf8_enc c) then true else false) = true.
Proof. vm_compute. reflexivity. Qed.

Lemma latin1_byte_enc c : c < 256 -> latin1_byte c = utf8_enc c.
Proof.
  intros H. pose proof (all_below_spec 8 _ latin1_byte_enc_sweep c H) as E. cbv beta in E.
  destruct (list_eq_dec N.eq_dec (latin1_byte c) (utf8_enc c)); [assumption|discriminate].
Qed.

(* C17: format_latin_1 = the UTF-8 encoding of each byte of format's raw output read as Latin-1 *)
Theorem latin1_sink fmt args raw :
  format_to_string AssumeValid fmt args = Ok raw -> bytes_ok raw = true ->
  format_to_latin1 fmt args = Ok (flat_map utf8_enc raw).
Proof.
  intros H Hb. rewrite format_to_string_eq in H. rewrite format_to_latin1_eq.
  destruct (outW (driver fmt args)) as [[]|x|w|f]; try discriminate.
  unfold from_utf8 in H. unfold latin_1_to_utf8.
  destruct (huge_buffer_size <=? _); [discriminate|]. inversion H as [E]. rewrite E. f_equal.
  clear -Hb. unfold bytes_ok in Hb. apply all_lt_Forall in Hb.
  induction Hb as [|c l Hc Hl IH]; simpl; [reflexivity|]. rewrite IH. rewrite latin1_byte_enc by exact Hc. reflexivity.
Qed.

(* ================= wide sinks ================= *)
(* the reference: decode the whole byte sequence, then encode for the stream's unit width *)
Definition transcode (w : wide) (raw : list N) : option (list N) :=
  match decode_utf8 raw with
  | Some cps => match w with WChar16 => encode_utf16 cps | _ => Some cps end
  | None => None
  end.

(* the hypothesis of wide_sink, per writer call: a chunk that transcodes on its own and is below
   the huge-buffer contract; a pad byte below 0x80 *)
Definition chunk_ok (w : wide) (e : event) : Prop :=
  match e with
  | EApp d => N.of_nat (length d) < huge_buffer_size /\ exists u, transcode w d = Some u
  | EPad ch count => ch < 128
  end.

Lemma option_map_app_nil (o : option (list N)) : option_map (app []) o = o.
Proof. destruct o; reflexivity. Qed.

Lemma option_map_cons_app c u (o : option (list N)) :
  option_map (cons c) (option_map (app u) o) = option_map (app (c :: u)) o.
Proof. destruct o; reflexivity. Qed.

Lemma decode_app : forall n a, (length a <= n)%nat -> forall u b,
  decode_utf8 a = Some u -> decode_utf8 (a ++ b) = option_map (app u) (decode_utf8 b).
Proof.
  induction n as [|n IH]; intros a Hl u b H.
  { destruct a; [|simpl in Hl; lia]. inversion H. simpl. symmetry. apply option_map_app_nil. }
  destruct a as [|c t]; [inversion H; simpl; symmetry; apply option_map_app_nil|].
  simpl length in Hl. cbn [decode_utf8 app] in *.
  destruct (c <? 128).
  { destruct (decode_utf8 t) as [ut|] eqn:E; [|discriminate]. inversion H. subst u.
    rewrite (IH t ltac:(lia) ut b E). apply option_map_cons_app. }
  destruct (lead2 c).
  { destruct t as [|c1 t1]; [discriminate|]. cbn [app]. simpl length in Hl.
    destruct (is_cont c1); [|discriminate].
    destruct (decode_utf8 t1) as [ut|] eqn:E; [|discriminate]. inversion H. subst u.
    rewrite (IH t1 ltac:(lia) ut b E). apply option_map_cons_app. }
  destruct (lead3 c).
  { destruct t as [|c1 [|c2 t2]]; try discriminate. cbn [app]. simpl length in Hl.
    destruct (is_cont c1 && is_cont c2); [|discriminate].
    destruct (decode_utf8 t2) as [ut|] eqn:E; [|discriminate]. inversion H. subst u.
    rewrite (IH t2 ltac:(lia) ut b E). apply option_map_cons_app. }
  destruct (lead4 c); [|discriminate].
  destruct t as [|c1 [|c2 [|c3 t3]]]; try discriminate. cbn [app]. simpl length in Hl.
  destruct (is_cont c1 && is_cont c2 && is_cont c3); [|discriminate].
  destruct (decode_utf8 t3) as [ut|] eqn:E; [|discriminate]. inversion H. subst u.
  rewrite (IH t3 ltac:(lia) ut b E). apply option_map_cons_app.
Qed.

Lemma encode_utf16_app a : forall ua b ub,
  encode_utf16 a = Some ua -> encode_utf16 b = Some ub -> encode_utf16 (a ++ b) = Some (ua ++ ub).
Proof.
  induction a as [|ch t IH]; intros ua b ub Ha Hb; cbn [encode_utf16 app] in *.
  - inversion Ha. exact Hb.
  - destruct (write_utf16 ch) as [u|]; [|discriminate].
    destruct (encode_utf16 t) as [r|] eqn:E; [|discriminate]. inversion Ha. subst ua.
    rewrite (IH r b ub eq_refl Hb). rewrite app_assoc. reflexivity.
Qed.

Lemma transcode_app w a b ua ub :
  transcode w a = Some ua -> transcode w b = Some ub -> transcode w (a ++ b) = Some (ua ++ ub).
Proof.
  unfold transcode. intros Ha Hb.
  destruct (decode_utf8 a) as [ca|] eqn:Ea; [|discriminate].
  destruct (decode_utf8 b) as [cb|] eqn:Eb; [|discriminate].
  rewrite (decode_app (length a) a (le_n _) ca b Ea), Eb. cbn [option_map].
  destruct w; try (inversion Ha; inversion Hb; reflexivity).
  apply encode_utf16_app; assumption.
Qed.

Lemma transcode_nil w : transcode w [] = Some [].
Proof. destruct w; reflexivity. Qed.

Lemma decode_repeat c : c < 128 -> forall n, decode_utf8 (repeat c n) = Some (repeat c n).
Proof.
  intros Hc. induction n as [|n IH]; [reflexivity|]. cbn [repeat decode_utf8].
  assert (E : c <? 128 = true) by lia. rewrite E, IH. reflexivity.
Qed.

Lemma encode_repeat c : c < 128 -> forall n, encode_utf16 (repeat c n) = Some (repeat c n).
Proof.
  intros Hc. induction n as [|n IH]; [reflexivity|]. cbn [repeat encode_utf16]. unfold write_utf16.
  assert (E : c <? 65536 = true) by lia. rewrite E, IH. reflexivity.
Qed.

Lemma transcode_repeat w c n : c < 128 -> transcode w (repeat c n) = Some (repeat c n).
Proof.
  intros Hc. unfold transcode. rewrite (decode_repeat c Hc). destruct w; try reflexivity.
  apply encode_repeat. exact Hc.
Qed.

Lemma wide_chunk_ok w d u : N.of_nat (length d) < huge_buffer_size -> transcode w d = Some u ->
  wide_chunk w d = Ok u.
Proof.
  intros Hs Ht. unfold transcode in Ht.
  assert (E : huge_buffer_size <=? N.of_nat (length d) = false) by lia.
  destruct (decode_utf8 d) as [cps|] eqn:Ed; [|discriminate].
  destruct w; unfold wide_chunk, utf8_to_utf32_check, utf8_to_utf16_check; rewrite E, Ed;
    try (inversion Ht; reflexivity).
  rewrite Ht. reflexivity.
Qed.

Lemma feed_wide w : forall t acc, Forall (chunk_ok w) t ->
  exists u, feed (wide_step w) acc t = (acc ++ u, Ok tt) /\ transcode w (bytes_of t) = Some u.
Proof.
  induction t as [|e t IH]; intros acc Ht.
  - exists []. cbn [feed]. rewrite app_nil_r. split; [reflexivity|apply transcode_nil].
  - inversion Ht as [|e' t' He Hrest]. subst.
    destruct e as [d|c n]; cbn [chunk_ok] in He.
    + destruct He as [Hs [ud Hud]].
      destruct (IH (acc ++ ud) Hrest) as [ur [Hf Htr]].
      exists (ud ++ ur). cbn [feed wide_step]. rewrite (wide_chunk_ok w d ud Hs Hud). cbn [bind].
      rewrite Hf. rewrite <- app_assoc. split; [reflexivity|].
      change (bytes_of (EApp d :: t)) with (d ++ bytes_of t). apply transcode_app; assumption.
    + destruct (IH (acc ++ repeat c (N.to_nat n)) Hrest) as [ur [Hf Htr]].
      exists (repeat c (N.to_nat n) ++ ur). cbn [feed wide_step].
      assert (Hw : widen_char w c = c) by (unfold widen_char; assert (E : c <? 128 = true) by lia; rewrite E; reflexivity).
      rewrite Hw, put_loop_repeat, Hf. rewrite <- app_assoc. split; [reflexivity|].
      change (bytes_of (EPad c n :: t)) with (repeat c (N.to_nat n) ++ bytes_of t).
      apply transcode_app; [apply transcode_repeat; exact He|exact Htr].
Qed.

(* C17 wide_sink: under the hypothesis, what the wide stream receives is the transcoding of the
   concatenated bytes (the bytes the narrow sinks and ST::format see) and the writer never fails *)
Theorem wide_sink w t : Forall (chunk_ok w) t ->
  exists u, feed (wide_step w) [] t = (u, Ok tt) /\ transcode w (bytes_of t) = Some u.
Proof. intros H. destruct (feed_wide w t [] H) as [u [A B]]. exists u. auto. Qed.

Lemma wide_sink_witness :
  format_to_string CheckValidity (Some [123; 125; 123; 125]) [AStr [195]; AStr [169]] = Ok [195; 169] /\
  transcode WWchar [195; 169] = Some [233] /\
  format_to_stream (StWide WWchar) (Some [123; 125; 123; 125]) [AStr [195]; AStr [169]] = ([], Throw UnicodeError).
Proof. vm_compute. auto. Qed.

Lemma chunk_ok_example : Forall (chunk_ok WChar16) [EApp [195; 169]; EPad 32 3; EApp [240; 159; 152; 128]].
Proof.
  repeat constructor; try (vm_compute; reflexivity); try (eexists; vm_compute; reflexivity).
Qed.

(* ================= stream insertion ================= *)
Lemma decode_lax_agrees : forall n s, (length s <= n)%nat -> forall u,
  decode_utf8 s = Some u -> decode_utf8_lax s = u.
Proof.
  induction n as [|n IH]; intros s Hl u H.
  { destruct s; [|simpl in Hl; lia]. inversion H. reflexivity. }
  destruct s as [|c t]; [inversion H; reflexivity|].
  simpl length in Hl. cbn [decode_utf8 decode_utf8_lax] in *.
  destruct (c <? 128).
  { destruct (decode_utf8 t) as [ut|] eqn:E; [|discriminate]. inversion H. f_equal. apply (IH t); [lia|exact E]. }
  destruct (lead2 c).
  { destruct t as [|c1 t1]; [discriminate|]. simpl length in Hl. destruct (is_cont c1); [|discriminate].
    destruct (decode_utf8 t1) as [ut|] eqn:E; [|discriminate]. inversion H. f_equal. apply (IH t1); [lia|exact E]. }
  destruct (lead3 c).
  { destruct t as [|c1 [|c2 t2]]; try discriminate. simpl length in Hl. destruct (is_cont c1 && is_cont c2); [|discriminate].
    destruct (decode_utf8 t2) as [ut|] eqn:E; [|discriminate]. inversion H. f_equal. apply (IH t2); [lia|exact E]. }
  destruct (lead4 c); [|discriminate].
  destruct t as [|c1 [|c2 [|c3 t3]]]; try discriminate. simpl length in Hl.
  destruct (is_cont c1 && is_cont c2 && is_cont c3); [|discriminate].
  destruct (decode_utf8 t3) as [ut|] eqn:E; [|discriminate]. inversion H. f_equal. apply (IH t3); [lia|exact E].
Qed.

Lemma utf16_lax_agrees : forall u v, encode_utf16 u = Some v -> flat_map utf16_unit_lax u = v.
Proof.
  induction u as [|ch t IH]; intros v H; cbn [encode_utf16 flat_map] in *.
  - inversion H. reflexivity.
  - unfold utf16_unit_lax. destruct (write_utf16 ch) as [x|]; [|discriminate].
    destruct (encode_utf16 t) as [r|] eqn:E; [|discriminate]. inversion H. f_equal. apply IH. reflexivity.
Qed.

(* os << s : the bytes for a char stream; for well-formed text the reference transcoding *)
Theorem insertion s :
  insert_units CtChar s = s /\
  (forall u, decode_utf8 s = Some u ->
     insert_units CtChar32 s = u /\ insert_units CtWchar s = u /\
     (forall v, encode_utf16 u = Some v -> insert_units CtChar16 s = v)).
Proof.
  split; [reflexivity|]. intros u H. pose proof (decode_lax_agrees (length s) s (le_n _) u H) as E.
  unfold insert_units. rewrite E. repeat split. intros v Hv. apply utf16_lax_agrees. exact Hv.
Qed.
