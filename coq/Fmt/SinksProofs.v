(* Fmt/SinksProofs.v — the writers.  The driver's result is the sequence of writer calls plus its
   ending, and nothing else: it is parametric in the writer by construction.  Here: each narrow
   writer's append / append_char denote the same byte concatenation (`bytes_of`), so the FILE*
   sink, the narrow ostream sink and the string sink's buffer receive the same bytes and the
   call ends the same way (narrow_sinks_equal); the string sink's result is from_utf8 of those
   bytes; format_latin_1 is their Latin-1 -> UTF-8 transcoding.                            *)
From Coq Require Import NArith ZArith List Bool Lia ZifyBool ZifyNat ZifyN.
From ST Require Import Base.Outcome Base.Units Base.Sweep Fmt.Strtol Fmt.Parser Fmt.ParserProofs Fmt.Render
  Fmt.RenderSpec Fmt.Sinks.
Import ListNotations.
Local Open Scope N_scope.

(* the bytes one writer call stands for *)
Definition event_bytes (e : event) : list N :=
  match e with
  | EApp d => d
  | EPad ch count => repeat ch (N.to_nat count)
  end.
Definition bytes_of (t : list event) : list N := flat_map event_bytes t.

Lemma iter_snoc (c : N) : forall k acc, Nat.iter k (fun x => x ++ [c]) acc = acc ++ repeat c k.
Proof.
  induction k as [|k IH]; intros acc; simpl.
  - rewrite app_nil_r. reflexivity.
  - rewrite IH. rewrite <- app_assoc. f_equal. rewrite <- repeat_cons. reflexivity.
Qed.

(* `while (count) { put(ch); --count; }` writes count copies *)
Lemma put_loop_repeat acc ch count : put_loop acc ch count = acc ++ repeat ch (N.to_nat count).
Proof. unfold put_loop. rewrite N2Nat.inj_iter. apply iter_snoc. Qed.

Definition narrow_step (step : list N -> event -> outcome (list N)) : Prop :=
  forall acc e, step acc e = Ok (acc ++ event_bytes e).

Lemma string_step_narrow : narrow_step string_step.
Proof. intros acc [d|c n]; reflexivity. Qed.
Lemma file_step_narrow : narrow_step file_step.
Proof. intros acc [d|c n]; simpl; [reflexivity|]. rewrite put_loop_repeat. reflexivity. Qed.
Lemma ostream_step_narrow : narrow_step ostream_step.
Proof. intros acc [d|c n]; simpl; [reflexivity|]. rewrite put_loop_repeat. reflexivity. Qed.

Lemma feed_narrow step : narrow_step step ->
  forall t acc, feed step acc t = (acc ++ bytes_of t, Ok tt).
Proof.
  intros Hs. induction t as [|e t IH]; intros acc; simpl.
  - rewrite app_nil_r. reflexivity.
  - rewrite Hs. rewrite IH. rewrite <- app_assoc. reflexivity.
Qed.

(* a narrow writer never fails: what reaches it is the concatenation of the calls, and the
   call ends as the driver ends *)
Lemma run_writer_narrow step : narrow_step step ->
  forall r : W unit, run_writer step r = (bytes_of (fst r), snd r).
Proof.
  intros Hs [t fin]. unfold run_writer. rewrite (feed_narrow step Hs). reflexivity.
Qed.

(* C17: ST::printf(FILE* ), ST::writef(narrow ostream) and the string sink's buffer *)
Theorem narrow_sinks_equal fmt args :
  let d := driver fmt args in
  format_to_stream StFile fmt args = (bytes_of (fst d), snd d) /\
  format_to_stream StOstream fmt args = (bytes_of (fst d), snd d) /\
  run_writer string_step d = (bytes_of (fst d), snd d).
Proof.
  intros d. unfold format_to_stream, stream_step. fold d.
  rewrite (run_writer_narrow file_step file_step_narrow).
  rewrite (run_writer_narrow ostream_step ostream_step_narrow).
  rewrite (run_writer_narrow string_step string_step_narrow). auto.
Qed.

(* ST::format(validation, ...) is from_utf8 of those same bytes when the driver returns *)
Lemma format_to_string_eq v fmt args :
  format_to_string v fmt args =
  match outW (driver fmt args) with
  | Ok _ => from_utf8 v (bytes_of (fst (driver fmt args)))
  | Throw x => Throw x
  | Abort w => Abort w
  | Fault f => Fault f
  end.
Proof.
  unfold format_to_string. rewrite (run_writer_narrow string_step string_step_narrow).
  unfold outW. destruct (snd (driver fmt args)); reflexivity.
Qed.

Lemma format_to_latin1_eq fmt args :
  format_to_latin1 fmt args =
  match outW (driver fmt args) with
  | Ok _ => latin_1_to_utf8 (bytes_of (fst (driver fmt args)))
  | Throw x => Throw x
  | Abort w => Abort w
  | Fault f => Fault f
  end.
Proof.
  unfold format_to_latin1. rewrite (run_writer_narrow string_step string_step_narrow).
  unfold outW. destruct (snd (driver fmt args)); reflexivity.
Qed.

(* the same format call through ST::format(assume_valid, ...) and through printf / writef:
   same bytes whenever the former returns (below the ST_HUGE_BUFFER_SIZE contract) *)
Theorem format_equals_streams fmt args raw :
  format_to_string AssumeValid fmt args = Ok raw ->
  format_to_stream StFile fmt args = (raw, Ok tt) /\ format_to_stream StOstream fmt args = (raw, Ok tt).
Proof.
  intros H. rewrite format_to_string_eq in H.
  destruct (narrow_sinks_equal fmt args) as [A [B _]]. cbv zeta in A, B. rewrite A, B.
  unfold outW in H. destruct (snd (driver fmt args)) as [[]|x|w|f]; try discriminate.
  unfold from_utf8 in H. destruct (huge_buffer_size <=? _); [discriminate|]. inversion H. auto.
Qed.

(* and a stream sink ends in an exception exactly when ST::format throws that driver exception *)
Theorem format_throws_streams v fmt args x : x <> UnicodeError ->
  format_to_string v fmt args = Throw x ->
  snd (format_to_stream StFile fmt args) = Throw x /\ snd (format_to_stream StOstream fmt args) = Throw x.
Proof.
  intros Hx H. rewrite format_to_string_eq in H.
  destruct (narrow_sinks_equal fmt args) as [A [B _]]. cbv zeta in A, B. rewrite A, B. simpl.
  unfold outW in H. destruct (snd (driver fmt args)) as [[]|y|w|f]; try discriminate.
  - unfold from_utf8 in H. destruct (huge_buffer_size <=? _); [discriminate|].
    destruct v; try discriminate. destruct (validate_utf8 _); [discriminate|]. inversion H. congruence.
  - inversion H. subst. auto.
Qed.

(* ---- Latin-1: each byte is the code point of that value ---- *)
Lemma latin1_byte_enc_sweep : all_below 8 (fun c => if list_eq_dec N.eq_dec (latin1_byte c) (utf8_enc c) then true else false) = true.
Proof. vm_compute. reflexivity. Qed.

Lemma latin1_byte_enc c : c < 256 -> latin1_byte c = utf8_enc c.
Proof.
  intros H. pose proof (all_below_spec 8 _ latin1_byte_enc_sweep c H) as E. cbv beta in E.
  destruct (list_eq_dec N.eq_dec (latin1_byte c) (utf8_enc c)); [assumption|discriminate].
Qed.

(* C17: format_latin_1 = the UTF-8 encoding of each byte of format's raw output read as Latin-1 *)
Theorem latin1_sink fmt args raw :
  format_to_string AssumeValid fmt args = Ok raw -> bytes_ok raw = true ->
  format_to_latin1 fmt args = Ok (flat_map utf8_enc raw).
Proof.
  intros H Hb. rewrite format_to_string_eq in H. rewrite format_to_latin1_eq.
  destruct (outW (driver fmt args)) as [[]|x|w|f]; try discriminate.
  unfold from_utf8 in H. unfold latin_1_to_utf8.
  destruct (huge_buffer_size <=? _); [discriminate|]. inversion H as [E]. rewrite E. f_equal.
  clear -Hb. unfold bytes_ok in Hb. apply all_lt_Forall in Hb.
  induction Hb as [|c l Hc Hl IH]; simpl; [reflexivity|]. rewrite IH. rewrite latin1_byte_enc by exact Hc. reflexivity.
Qed.
